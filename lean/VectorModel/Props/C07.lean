/-
C07 — "Numba-compiled code behaves like the interpreter".
Theorems relating the model of the COMPILED object vectors (`Glue/Numba.lean`: `numbaCall`, `nbProp`, `nbSelf`, `nbBin`, …)
to the model of the interpreter (`Glue/Methods.lean`: `call`, `getAcc`, `binary`, …), for every scalar type `S`, truth
type `B` and compute layer `ev` whose declared results are those of the generated tables (`EvTables`, proved for the
generated executable model in `Props/C05.lean`).
-/
import VectorModel.Glue.Numba
import VectorModel.Props.C05
import VectorModel.Exec.Sym

set_option linter.constructorNameAsVariable false
set_option linter.unusedVariables false
set_option linter.unusedSimpArgs false
namespace VG
open VK

section
variable {S B : Type}

/-! ### 0. auxiliary facts -/

/-- the same vector with another flavor -/
def Vec.withMom (r : Vec S) (b : Bool) : Vec S := ⟨{ r.ty with mom := b }, r.c⟩

def Res.withMom : Res S B → Bool → Res S B
  | .vec r, b => .vec (r.withMom b)
  | r, _ => r

theorem Vec.withMom_self (r : Vec S) : r.withMom r.ty.mom = r := rfl

private theorem lookup_mem' {α β : Type} [BEq α] [LawfulBEq α] (k : α) (r : β) :
    ∀ l : List (α × β), l.lookup k = some r → (k, r) ∈ l := by
  intro l
  induction l with
  | nil => intro h; simp [List.lookup] at h
  | cons p l ih =>
    intro h
    obtain ⟨k', r'⟩ := p
    by_cases hk : k == k'
    · simp only [List.lookup, hk] at h
      have : k = k' := eq_of_beq hk
      cases h; subst this; exact List.mem_cons_self
    · have hk' : (k == k') = false := by simpa using hk
      simp only [List.lookup, hk'] at h
      exact List.mem_cons_of_mem _ (ih h)

/-- what numba's lookup found is an entry of the module's table, hence of the module's kind -/
private theorem nb_kind (ev : Ev S B) (hev : EvTables ev) (m : ModuleId) (sc : List S) (ord : Option Ord)
    (ops : List (Vec S × Nat)) (out : Out S B) (ret : Ret) (h : nbLookup ev m sc ord ops = some (out, ret)) :
    retKind ret = some m.kind := by
  unfold nbLookup at h
  split at h
  · cases h
  · exact c05_module_kind m _ (lookup_mem' _ _ _ (hev.ret_declared _ _ _ _ _ h))

/-- a successful interpreter `dispatch`, seen from numba's side: the same lookup, on the operands paired with the slot
counts of the module's key shape -/
private theorem disp_nb (ev : Ev S B) (hev : EvTables ev) (m : ModuleId) (sc : List S) (ord : Option Ord)
    (ops counted : List (Vec S)) (r : Res S B) (h : dispatch ev m sc ord ops counted = .ok r) :
    ∃ out ret hd, nbLookup ev m sc ord (ops.zip (operandSlots m.info.shape)) = some (out, ret) ∧
      retKind ret = some m.kind ∧ handlerOf counted = some hd ∧
      wrapResult hd hd.ty.be (counted.any (·.ty.mom)) out ret = .ok r := by
  unfold dispatch at h
  simp only [] at h
  split at h
  · cases h
  · split at h
    · cases h
    · rename_i parts hparts
      split at h
      · cases h
      · rename_i out ret hev'
        split at h
        · cases h
        · rename_i hd hh
          have hl : nbLookup ev m sc ord (ops.zip (operandSlots m.info.shape)) = some (out, ret) := by
            unfold nbLookup; rw [hparts]; exact hev'
          exact ⟨out, ret, hd, hl, nb_kind ev hev m sc ord _ out ret hl, hh, h⟩

private theorem handler_single (v : Vec S) : handlerOf [v] = some v := rfl

private theorem handler_pair_obj (a b : Vec S) (hb : b.ty.be = .obj) : handlerOf [a, b] = some a := by
  have : ¬ (b.ty.be.prio > a.ty.be.prio) := by rw [hb]; simp [Backend.prio]
  simp [handlerOf, this]

/-- scalar and truth results do not depend on the handler: the compiled code returns the same value -/
private theorem scalar_of_wrap (hd : Vec S) (be : Backend) (mom : Bool) (out : Out S B) (ret : Ret) (k : RKind) (r : Res S B)
    (hk : retKind ret = some k) (hs : k = .float ∨ k = .bool) (h : wrapResult hd be mom out ret = .ok r) :
    nbScalarRes out ret = .ok r := by
  cases ret with
  | float => unfold wrapResult at h; unfold nbScalarRes; split at h <;> simp_all
  | bool => unfold wrapResult at h; unfold nbScalarRes; split at h <;> simp_all
  | vec parts =>
    rcases hs with rfl | rfl <;>
    · unfold retKind at hk; split at hk <;> simp_all

/-- which declared results fit a compiled construction with `k` computed groups, with or without pass-through, for a
handler of dimension `dim` (with / without a longitudinal coordinate) -/
def fits (kind : RKind) (k : Nat) (pass : Bool) (dim : Nat) (lonSome : Bool) : Bool :=
  match kind, k, pass with
  | .A, 1, true => true
  | .AL, 2, true => lonSome
  | .ALT, 3, _ => true
  | .A, 1, false => dim == 2
  | .AL, 2, false => dim == 3 && lonSome
  | .AL0, 2, false => true
  | _, _, _ => false

private theorem retKind_vec (parts : List RP) (k : RKind) (h : retKind (.vec parts) = some k) :
    (k = .A ∧ ∃ a, parts = [.az a]) ∨ (k = .AL ∧ ∃ a l, parts = [.az a, .lon l]) ∨
    (k = .AL0 ∧ ∃ a l, parts = [.az a, .lon l, .none]) ∨ (k = .ALT ∧ ∃ a l t, parts = [.az a, .lon l, .tmp t]) := by
  unfold retKind at h
  split at h
  all_goals first
    | (rename_i heq; cases heq; done)
    | (cases h; done)
    | (rename_i heq; cases heq; cases h; simp)

/-- the compiled construction gives the vector `_wrap_result` gives, with the flavor the overload chose -/
private theorem wrap_nb (hd : Vec S) (mom mom' : Bool) (raw : List S) (parts : List RP) (kind : RKind) (k : Nat)
    (pass : Bool) (r : Vec S) (hbe : hd.ty.be = .obj) (hk : retKind (.vec parts) = some kind)
    (hf : fits kind k pass hd.ty.dim hd.ty.lon.isSome = true)
    (h : wrapVec hd hd.ty.be mom raw parts = .ok r) :
    nbWrap hd mom' k pass raw parts = .ok (r.withMom mom') ∧ r.ty.mom = mom ∧ r.ty.be = .obj := by
  obtain ⟨⟨be, hm, az, lon, tmp⟩, c⟩ := hd
  simp only at hbe
  subst hbe
  have hk' : k = 1 ∨ k = 2 ∨ k = 3 ∨ (k ≠ 1 ∧ k ≠ 2 ∧ k ≠ 3) := by omega
  rcases retKind_vec parts kind hk with ⟨rfl, a, rfl⟩ | ⟨rfl, a, l, rfl⟩ | ⟨rfl, a, l, rfl⟩ | ⟨rfl, a, l, t, rfl⟩ <;>
    rcases hk' with rfl | rfl | rfl | ⟨h1, h2, h3⟩ <;> cases pass <;>
    first
    | (simp [fits] at hf; done)
    | (unfold fits at hf; split at hf <;> simp_all; done)
    | (cases lon <;> cases tmp <;>
        simp_all [fits, nbWrap, wrapVec, Vec.withMom, Vec.lonEl, Vec.tmpEl, VT.dim] <;>
        (try (cases h; simp)))

private theorem fits_mono (kind : RKind) (k : Nat) (pass : Bool) (dim : Nat) (ls : Bool)
    (h : fits kind k pass dim true = true) (hl : k = 2 ∨ k = 3 → ls = true) : fits kind k pass dim ls = true := by
  unfold fits at h ⊢
  split <;> simp_all

private theorem mapM_some_mem {α β : Type} (f : α → Option β) : ∀ (l : List α) (ys : List β), l.mapM f = some ys →
    ∀ x ∈ l, ∃ y, f x = some y := by
  intro l
  induction l with
  | nil => intro ys _ x hx; cases hx
  | cons a l ih =>
    intro ys h x hx
    rw [List.mapM_cons] at h
    cases ha : f a with
    | none => rw [ha] at h; cases h
    | some b =>
      rw [ha] at h
      cases hl : l.mapM f with
      | none => rw [hl] at h; cases h
      | some bs =>
        rcases List.mem_cons.mp hx with rfl | hx
        · exact ⟨b, ha⟩
        · exact ih bs hl x hx

/-- an operand from which numba's lookup read two or three coordinate groups has a longitudinal coordinate -/
private theorem lookup_lon (ev : Ev S B) (m : ModuleId) (sc : List S) (ord : Option Ord) (ops : List (Vec S × Nat))
    (x : Out S B × Ret) (h : nbLookup ev m sc ord ops = some x) (v : Vec S) (k : Nat) (hm : (v, k) ∈ ops)
    (hk : k = 2 ∨ k = 3) : v.ty.lon.isSome = true := by
  unfold nbLookup at h
  split at h
  · cases h
  · rename_i parts hp
    obtain ⟨y, hy⟩ := mapM_some_mem _ _ _ hp _ hm
    simp only at hy
    unfold operandKey at hy
    rcases hk with rfl | rfl <;> (cases hl : v.ty.lon <;> simp_all)

/-- vector results: the compiled construction of the overload gives the interpreter's vector, with the overload's flavor -/
private theorem vec_of_wrap (hd : Vec S) (mom mom' : Bool) (out : Out S B) (ret : Ret) (kind : RKind) (k : Nat) (pass : Bool)
    (r : Res S B) (hbe : hd.ty.be = .obj) (hk : retKind ret = some kind)
    (hf : fits kind k pass hd.ty.dim hd.ty.lon.isSome = true)
    (h : wrapResult hd hd.ty.be mom out ret = .ok r) :
    ∃ rv, r = .vec rv ∧ nbVecRes hd mom' k pass out ret = .ok (.vec (rv.withMom mom')) ∧ rv.ty.mom = mom ∧
      rv.ty.be = .obj ∧ ∃ parts, ret = .vec parts := by
  cases ret with
  | float => simp [retKind] at hk; subst hk; simp [fits] at hf
  | bool => simp [retKind] at hk; subst hk; simp [fits] at hf
  | vec parts =>
    cases out with
    | truth b => simp [wrapResult] at h
    | vals raw =>
      simp only [wrapResult] at h
      cases hw : wrapVec hd hd.ty.be mom raw parts with
      | error e => rw [hw] at h; cases h
      | ok rv =>
        rw [hw] at h
        obtain ⟨h1, h2, h3⟩ := wrap_nb hd mom mom' raw parts kind k pass rv hbe hk hf hw
        refine ⟨rv, ?_, ?_, h2, h3, parts, rfl⟩
        · simpa [Except.map] using h.symm
        · simp [nbVecRes, h1, Except.map]

/-- general form for vector-valued dispatches -/
private theorem gen_vec (ev : Ev S B) (hev : EvTables ev) (m : ModuleId) (sc : List S) (ord : Option Ord)
    (ops counted : List (Vec S)) (hd : Vec S) (k : Nat) (pass : Bool) (mom' : Bool) (r : Res S B)
    (hh : handlerOf counted = some hd) (hbe : hd.ty.be = .obj)
    (hmem : k = 1 ∨ ∃ k', (k' = 2 ∨ k' = 3) ∧ (hd, k') ∈ ops.zip (operandSlots m.info.shape))
    (hf : fits m.kind k pass hd.ty.dim true = true)
    (h : dispatch ev m sc ord ops counted = .ok r) :
    ∃ out ret rv, nbLookup ev m sc ord (ops.zip (operandSlots m.info.shape)) = some (out, ret) ∧ r = .vec rv ∧
      nbVecRes hd mom' k pass out ret = .ok (.vec (rv.withMom mom')) ∧ rv.ty.mom = counted.any (·.ty.mom) ∧
      rv.ty.be = .obj ∧ ∃ parts, ret = .vec parts := by
  obtain ⟨out, ret, hd', hl, hk, hh', hw⟩ := disp_nb ev hev m sc ord ops counted r h
  rw [hh] at hh'; cases hh'
  have hf' : fits m.kind k pass hd.ty.dim hd.ty.lon.isSome = true := by
    apply fits_mono _ _ _ _ _ hf
    intro hk23
    rcases hmem with rfl | ⟨k', hk', hmem⟩
    · omega
    · exact lookup_lon ev m sc ord _ _ hl hd k' hmem hk'
  obtain ⟨rv, h1, h2, h3, h4, h5⟩ := vec_of_wrap hd _ mom' out ret m.kind k pass r hbe hk hf' hw
  exact ⟨out, ret, rv, hl, h1, h2, h3, h4, h5⟩

/-- general form for scalar- and truth-valued dispatches -/
private theorem gen_scalar (ev : Ev S B) (hev : EvTables ev) (m : ModuleId) (sc : List S) (ord : Option Ord)
    (ops counted : List (Vec S)) (r : Res S B) (hkind : m.kind = .float ∨ m.kind = .bool)
    (h : dispatch ev m sc ord ops counted = .ok r) :
    ∃ out ret, nbLookup ev m sc ord (ops.zip (operandSlots m.info.shape)) = some (out, ret) ∧
      nbScalarRes out ret = .ok r ∧ (ret = .float ∨ ret = .bool) := by
  obtain ⟨out, ret, hd', hl, hk, hh', hw⟩ := disp_nb ev hev m sc ord ops counted r h
  refine ⟨out, ret, hl, scalar_of_wrap _ _ _ _ _ _ _ hk hkind hw, ?_⟩
  cases ret with
  | float => exact Or.inl rfl
  | bool => exact Or.inr rfl
  | vec parts =>
    rcases hkind with hkk | hkk <;> rw [hkk] at hk <;>
    · unfold retKind at hk; split at hk <;> simp_all

-- split `x ∈ [a, b, …]` into one goal per element
set_option hygiene false in
macro "each_mem" h:ident : tactic =>
  `(tactic| (simp only [List.mem_cons, List.mem_nil_iff, or_false] at $h:ident
             repeat' (first | (rcases $h:ident with rfl | $h:ident) | subst $h:ident)))

/-- the guard of `numbaCall`: object vectors only -/
def nbGuard (self : Vec S) (args : List (Arg S)) : Bool := self.ty.be != .obj || !args.all Arg.isObj

private theorem nbGuard_nil (self : Vec S) (hbe : self.ty.be = .obj) : nbGuard self [] = false := by
  simp [nbGuard, hbe]

/-! ### 1. (a) AGREEMENT — properties -/

/-- every accessor-like property: the compiled code evaluates the same compute module on the same key and coordinates
and returns the same value -/
theorem c07_prop_agree (ev : Ev S B) (hev : EvTables ev) (a : Acc) (v : Vec S) (r : Res S B)
    (h : getAcc ev a v = .ok r) : nbProp ev a v = .ok r := by
  unfold getAcc at h
  unfold nbProp
  split at h
  · cases h
  · rename_i hg
    rw [if_neg hg]
    obtain ⟨out, ret, hl, hs, _⟩ :=
      gen_scalar ev hev a.mod [] none [v] [v] r (by cases a <;> exact Or.inl rfl) h
    have hz : [v].zip (operandSlots a.mod.info.shape) = [(v, a.need - 1)] := by cases a <;> rfl
    rw [hz] at hl
    rw [hl]
    exact hs

theorem c07_getS_agree (ev : Ev S B) (hev : EvTables ev) (a : Acc) (v : Vec S) (s : S)
    (h : getS ev a v = .ok s) : nbGetS ev a v = .ok s := by
  unfold getS at h
  unfold nbGetS
  cases hg : getAcc ev a v with
  | error e => rw [hg] at h; cases h
  | ok r => rw [hg] at h; rw [c07_prop_agree ev hev a v r hg]; exact h

/-- the 23 generic property names -/
def c07_accNames : List (String × Acc) :=
  [("x", .x), ("y", .y), ("rho", .rho), ("rho2", .rho2), ("phi", .phi), ("z", .z), ("theta", .theta), ("eta", .eta),
   ("costheta", .costheta), ("cottheta", .cottheta), ("mag", .mag), ("mag2", .mag2), ("t", .t), ("t2", .t2),
   ("tau", .tau), ("tau2", .tau2), ("beta", .beta), ("gamma", .gamma), ("rapidity", .rapidity),
   ("Et", .Et), ("Et2", .Et2), ("Mt", .Mt), ("Mt2", .Mt2)]

/-- the 20 momentum spellings numba defines -/
def c07_momNames : List (String × Acc) :=
  [("px", .x), ("py", .y), ("pt", .rho), ("pt2", .rho2), ("pz", .z), ("pseudorapidity", .eta), ("p", .mag), ("p2", .mag2),
   ("E", .t), ("energy", .t), ("E2", .t2), ("energy2", .t2), ("M", .tau), ("mass", .tau), ("M2", .tau2), ("mass2", .tau2),
   ("transverse_energy", .Et), ("transverse_energy2", .Et2), ("transverse_mass", .Mt), ("transverse_mass2", .Mt2)]

private theorem acc_step (ev : Ev S B) (hev : EvTables ev) (self : Vec S) (r : Res S B) (hbe : self.ty.be = .obj) (a : Acc)
    (c n : Except Err (Res S B)) (hc : c = getAcc ev a self)
    (hn : n = if nbGuard self [] = true then .error .unmodelled else nbProp ev a self) (h : c = .ok r) : n = .ok r := by
  rw [hn, nbGuard_nil self hbe]
  rw [hc] at h
  simpa using c07_prop_agree ev hev a self r h

/-- string level: reading a generic property name in compiled code gives what the interpreter gives -/
theorem c07_acc_agree (ev : Ev S B) (hev : EvTables ev) (K : Consts S) (A : Arith S) (self : Vec S) (r : Res S B)
    (hbe : self.ty.be = .obj) (p : String × Acc) (hp : p ∈ c07_accNames)
    (h : call ev K A p.1 self [] = .ok r) : numbaCall ev K A p.1 self [] = .ok r := by
  unfold c07_accNames at hp
  each_mem hp
  all_goals exact acc_step ev hev self r hbe _ _ _ rfl rfl h

private theorem mom_step (ev : Ev S B) (hev : EvTables ev) (self : Vec S) (r : Res S B) (hbe : self.ty.be = .obj) (a : Acc)
    (c n : Except Err (Res S B))
    (hc : c = if !self.ty.mom then .error .attributeError else
              if self.ty.dim < a.need then .error .attributeError else getAcc ev a self)
    (hn : n = if nbGuard self [] = true then .error .unmodelled else
              if !self.ty.mom then .error .typeError else nbProp ev a self) (h : c = .ok r) : n = .ok r := by
  rw [hn, nbGuard_nil self hbe]
  rw [hc] at h
  cases hm : self.ty.mom
  · simp [hm] at h
  · simp only [hm, Bool.not_true, Bool.false_eq_true, if_false] at h ⊢
    split at h
    · cases h
    · exact c07_prop_agree ev hev a self r h

/-- string level: the momentum spellings numba defines agree with the interpreter -/
theorem c07_mom_agree (ev : Ev S B) (hev : EvTables ev) (K : Consts S) (A : Arith S) (self : Vec S) (r : Res S B)
    (hbe : self.ty.be = .obj) (p : String × Acc) (hp : p ∈ c07_momNames)
    (h : call ev K A p.1 self [] = .ok r) : numbaCall ev K A p.1 self [] = .ok r := by
  unfold c07_momNames at hp
  each_mem hp
  all_goals exact mom_step ev hev self r hbe _ _ _ rfl rfl h

/-! ### 2. (a) AGREEMENT — one-vector methods whose result has the class of `self` -/

/-- enum level: a method of one vector whose first `k` coordinate groups are computed by a module of the matching kind
(planar → `az`, spatial → `az, lon`, lorentz → `az, lon, tmp`) and whose other stored coordinates are passed through: the
compiled code gives the interpreter's vector — same class, flavor, coordinate system and coordinates -/
theorem c07_self_agree (ev : Ev S B) (hev : EvTables ev) (m : ModuleId) (sc : List S) (ord : Option Ord) (v : Vec S)
    (k : Nat) (r : Res S B) (hbe : v.ty.be = .obj) (hs : operandSlots m.info.shape = [k])
    (hf : fits m.kind k true v.ty.dim true = true) (h : dispatch ev m sc ord [v] [v] = .ok r) :
    nbSelf ev m sc ord v k = .ok r := by
  obtain ⟨out, ret, rv, hl, rfl, hv, hm, _, _⟩ :=
    gen_vec ev hev m sc ord [v] [v] v k true v.ty.mom r (handler_single v) hbe
      (by
        rw [hs]
        by_cases h1 : k = 1
        · exact Or.inl h1
        · refine Or.inr ⟨k, ?_, by simp⟩
          unfold fits at hf
          split at hf <;> simp_all) hf h
  rw [hs] at hl
  simp only [List.zip_cons_cons, List.zip_nil_right] at hl
  unfold nbSelf
  rw [hl]
  simp only [List.any_cons, List.any_nil, Bool.or_false] at hm
  simp only []
  rw [hv, ← hm]
  rfl

/-- the interpreter's and numba's guard + dispatch of such a method -/
def callU (ev : Ev S B) (self : Vec S) (m : ModuleId) (need : Nat) (sc : List S) (ord : Option Ord) :
    Except Err (Res S B) :=
  if self.ty.dim < need then .error .attributeError else dispatch ev m sc ord [self] [self]

def nbU (ev : Ev S B) (self : Vec S) (m : ModuleId) (k : Nat) (sc : List S) (ord : Option Ord) : Except Err (Res S B) :=
  if self.ty.dim < k + 1 then .error .typeError else nbSelf ev m sc ord self k

theorem c07_U_agree (ev : Ev S B) (hev : EvTables ev) (m : ModuleId) (sc : List S) (ord : Option Ord) (self : Vec S)
    (k : Nat) (r : Res S B) (hbe : self.ty.be = .obj) (hs : operandSlots m.info.shape = [k])
    (hf : fits m.kind k true 0 true = true) (h : callU ev self m (k + 1) sc ord = .ok r) :
    nbU ev self m k sc ord = .ok r := by
  unfold callU at h
  unfold nbU
  split at h
  · cases h
  · rename_i hd
    rw [if_neg hd]
    refine c07_self_agree ev hev m sc ord self k r hbe hs ?_ h
    unfold fits at hf ⊢
    split <;> simp_all

private theorem self_step (ev : Ev S B) (hev : EvTables ev) (self : Vec S) (args : List (Arg S)) (r : Res S B)
    (m : ModuleId) (k : Nat) (sc : List S) (ord : Option Ord) (c n : Except Err (Res S B))
    (hc : c = callU ev self m (k + 1) sc ord)
    (hn : n = if nbGuard self args = true then .error .unmodelled else nbU ev self m k sc ord)
    (hg : nbGuard self args = false) (hbe : self.ty.be = .obj) (hs : operandSlots m.info.shape = [k])
    (hf : fits m.kind k true 0 true = true) (h : c = .ok r) : n = .ok r := by
  rw [hn, hg]
  rw [hc] at h
  simpa using c07_U_agree ev hev m sc ord self k r hbe hs hf h

/-- the one-vector methods with result of the class of `self`:
(name, arguments, compute module, number of computed coordinate groups, scalar arguments in compute order, Euler order) -/
def c07_selfMethods (K : Consts S) (a b c d : S) :
    List (String × List (Arg S) × ModuleId × Nat × List S × Option Ord) :=
  [("rotateZ", [.sc a], .planar_rotateZ, 1, [a], none),
   ("rotateX", [.sc a], .spatial_rotateX, 2, [a], none),
   ("rotateY", [.sc a], .spatial_rotateY, 2, [a], none),
   ("rotate_euler", [.sc a, .sc b, .sc c], .spatial_rotate_euler, 2, [a, b, c], some .zxz),
   ("rotate_nautical", [.sc a, .sc b, .sc c], .spatial_rotate_euler, 2, [c, b, a], some .zyx),
   ("rotate_quaternion", [.sc a, .sc b, .sc c, .sc d], .spatial_rotate_quaternion, 2, [a, b, c, d], none),
   ("scale2D", [.sc a], .planar_scale, 1, [a], none),
   ("scale3D", [.sc a], .spatial_scale, 2, [a], none),
   ("scale4D", [.sc a], .lorentz_scale, 3, [a], none),
   ("neg2D", [], .planar_scale, 1, [K.negOne], none),
   ("neg3D", [], .spatial_scale, 2, [K.negOne], none),
   ("neg4D", [], .lorentz_scale, 3, [K.negOne], none),
   ("boostX", [.sc a], .lorentz_boostX_beta, 3, [a], none),
   ("boostY", [.sc a], .lorentz_boostY_beta, 3, [a], none),
   ("boostZ", [.sc a], .lorentz_boostZ_beta, 3, [a], none),
   ("boostX", [.kw "beta" a], .lorentz_boostX_beta, 3, [a], none),
   ("boostY", [.kw "beta" a], .lorentz_boostY_beta, 3, [a], none),
   ("boostZ", [.kw "beta" a], .lorentz_boostZ_beta, 3, [a], none),
   ("boostX", [.kw "gamma" a], .lorentz_boostX_gamma, 3, [a], none),
   ("boostY", [.kw "gamma" a], .lorentz_boostY_gamma, 3, [a], none),
   ("boostZ", [.kw "gamma" a], .lorentz_boostZ_gamma, 3, [a], none)]

/-- string level: each of these methods, compiled, uses the module, key, argument order of the interpreter and returns the
same vector (same class, flavor, dimension, coordinate system, coordinates) whenever the interpreter succeeds -/
theorem c07_selfMethods_agree (ev : Ev S B) (hev : EvTables ev) (K : Consts S) (A : Arith S) (self : Vec S)
    (a b c d : S) (r : Res S B) (hbe : self.ty.be = .obj)
    (e : String × List (Arg S) × ModuleId × Nat × List S × Option Ord) (he : e ∈ c07_selfMethods K a b c d)
    (h : call ev K A e.1 self e.2.1 = .ok r) : numbaCall ev K A e.1 self e.2.1 = .ok r := by
  unfold c07_selfMethods at he
  each_mem he
  all_goals
    exact self_step ev hev self _ r _ _ _ _ _ _ rfl rfl (by simp [nbGuard, hbe, Arg.isObj]) hbe rfl rfl h

/-- `scale2D` / `scale3D` / `scale4D` at the enum level -/
theorem c07_scaleN_agree (ev : Ev S B) (hev : EvTables ev) (n : Nat) (hn : n = 2 ∨ n = 3 ∨ n = 4) (f : S) (v : Vec S)
    (r : Res S B) (hbe : v.ty.be = .obj) (h : scaleN ev n f v = .ok r) : nbScaleN ev n f v = .ok r := by
  rcases hn with rfl | rfl | rfl
  · exact c07_U_agree ev hev .planar_scale [f] none v 1 r hbe rfl rfl h
  · exact c07_U_agree ev hev .spatial_scale [f] none v 2 r hbe rfl rfl h
  · exact c07_U_agree ev hev .lorentz_scale [f] none v 3 r hbe rfl rfl h

/-- `scale` (hence `*`, `/`, unary `-`): the module of the vector's own dimension -/
theorem c07_scale_agree (ev : Ev S B) (hev : EvTables ev) (K : Consts S) (A : Arith S) (self : Vec S) (f : S)
    (r : Res S B) (hbe : self.ty.be = .obj) (h : call ev K A "scale" self [.sc f] = .ok r) :
    numbaCall ev K A "scale" self [.sc f] = .ok r := by
  have e1 : call ev K A "scale" self [.sc f] = scaleN ev self.ty.dim f self := rfl
  have e2 : numbaCall ev K A "scale" self [.sc f] =
      if nbGuard self [.sc f] = true then .error .unmodelled else nbScaleN ev self.ty.dim f self := rfl
  have hg : nbGuard self [.sc f] = false := by simp [nbGuard, hbe, Arg.isObj]
  rw [e2, hg]
  rw [e1] at h
  simpa using c07_scaleN_agree ev hev _ (c05_dim_range self.ty) f self r hbe h

/-- `unit`: the module of the vector's own dimension -/
theorem c07_unit_agree (ev : Ev S B) (hev : EvTables ev) (K : Consts S) (A : Arith S) (self : Vec S)
    (r : Res S B) (hbe : self.ty.be = .obj) (h : call ev K A "unit" self [] = .ok r) :
    numbaCall ev K A "unit" self [] = .ok r := by
  have e1 : call ev K A "unit" self [] = callU ev self (unitMod self.ty.dim) 2 [] none := rfl
  have e2 : numbaCall ev K A "unit" self [] =
      if nbGuard self [] = true then .error .unmodelled else
        nbU ev self (unitMod self.ty.dim) (self.ty.dim - 1) [] none := rfl
  rw [e2, nbGuard_nil self hbe]
  rw [e1] at h
  unfold callU at h
  unfold nbU
  have hd2 : ¬ self.ty.dim < 2 := by rcases c05_dim_range self.ty with hd | hd | hd <;> omega
  rw [if_neg hd2] at h
  have hd3 : ¬ self.ty.dim < self.ty.dim - 1 + 1 := by omega
  simp only [Bool.false_eq_true, if_false, if_neg hd3]
  rcases c05_dim_range self.ty with hd | hd | hd
  · rw [hd] at h ⊢
    exact c07_self_agree ev hev .planar_unit [] none self 1 r hbe rfl rfl h
  · rw [hd] at h ⊢
    exact c07_self_agree ev hev .spatial_unit [] none self 2 r hbe rfl rfl h
  · rw [hd] at h ⊢
    exact c07_self_agree ev hev .lorentz_unit [] none self 3 r hbe rfl rfl h

/-- `rotate_euler` with an explicit order string that is one of the twelve LOWER-CASE names -/
theorem c07_rotate_euler_ord_agree (ev : Ev S B) (hev : EvTables ev) (K : Consts S) (A : Arith S) (self : Vec S)
    (p t q : S) (s : String) (o : Ord) (r : Res S B) (hbe : self.ty.be = .obj)
    (ho : ordOf s = some o) (hnb : nbOrdOf s = some o)
    (h : call ev K A "rotate_euler" self [.sc p, .sc t, .sc q, .str s] = .ok r) :
    numbaCall ev K A "rotate_euler" self [.sc p, .sc t, .sc q, .str s] = .ok r := by
  have e1 : call ev K A "rotate_euler" self [.sc p, .sc t, .sc q, .str s] =
      if self.ty.dim < 3 then .error .attributeError else
        match ordOf s with
        | some o => callU ev self .spatial_rotate_euler 3 [p, t, q] (some o)
        | none => .error .typeError := rfl
  have e2 : numbaCall ev K A "rotate_euler" self [.sc p, .sc t, .sc q, .str s] =
      if nbGuard self [.sc p, .sc t, .sc q, .str s] = true then .error .unmodelled else
      if self.ty.dim < 3 then .error .typeError else
        match nbOrdOf s with
        | some o => nbU ev self .spatial_rotate_euler 2 [p, t, q] (some o)
        | none => .error .typeError := rfl
  have hg : nbGuard self [.sc p, .sc t, .sc q, .str s] = false := by simp [nbGuard, hbe, Arg.isObj]
  rw [e2, hg, hnb]
  rw [e1, ho] at h
  split at h
  · cases h
  · rename_i hd
    simp only [Bool.false_eq_true, if_false, if_neg hd]
    exact c07_U_agree ev hev .spatial_rotate_euler [p, t, q] (some o) self 2 r hbe rfl rfl h

/-- the twelve lower-case order names are accepted by the compiled code -/
theorem c07_nbOrdOf_str (o : Ord) : nbOrdOf o.str = some o := by cases o <;> decide

private theorem filterMap_sc (l : List S) :
    (l.map (Arg.sc (S := S))).filterMap (fun a => match a with | .sc s => some s | _ => none) = l := by
  induction l with
  | nil => rfl
  | cons x xs ih => simp only [List.map_cons, List.filterMap_cons]; rw [ih]

/-- `transform2D` / `transform3D` / `transform4D` with the matrix elements in row-major order -/
theorem c07_transform_agree (ev : Ev S B) (hev : EvTables ev) (K : Consts S) (A : Arith S) (self : Vec S)
    (l : List S) (r : Res S B) (hbe : self.ty.be = .obj)
    (e : String × Nat × ModuleId × Nat)
    (he : e ∈ [("transform2D", 4, ModuleId.planar_transform2D, 1), ("transform3D", 9, .spatial_transform3D, 2),
               ("transform4D", 16, .lorentz_transform4D, 3)])
    (hl : l.length = e.2.1)
    (h : call ev K A e.1 self (l.map Arg.sc) = .ok r) : numbaCall ev K A e.1 self (l.map Arg.sc) = .ok r := by
  have hfm := filterMap_sc l
  have hg : nbGuard self (l.map Arg.sc) = false := by
    simp [nbGuard, hbe, List.all_map, Arg.isObj]
  each_mem he
  · have e1 : call ev K A "transform2D" self (l.map Arg.sc) =
        if self.ty.dim < 2 then .error .attributeError else
        if ((l.map (Arg.sc (S := S))).filterMap (fun a => match a with | .sc s => some s | _ => none)).length != 4
          then .error .typeError
        else dispatch ev .planar_transform2D
          ((l.map (Arg.sc (S := S))).filterMap (fun a => match a with | .sc s => some s | _ => none)) none [self] [self] := rfl
    have e2 : numbaCall ev K A "transform2D" self (l.map Arg.sc) =
        if nbGuard self (l.map Arg.sc) = true then .error .unmodelled else
        if self.ty.dim < 1 + 1 then .error .typeError else
        if ((l.map (Arg.sc (S := S))).filterMap (fun a => match a with | .sc s => some s | _ => none)).length != 4
            || (l.map (Arg.sc (S := S))).length != 4 then .error .typeError
        else nbSelf ev .planar_transform2D
          ((l.map (Arg.sc (S := S))).filterMap (fun a => match a with | .sc s => some s | _ => none)) none self 1 := rfl
    rw [e2, hg]; rw [e1] at h
    simp only [hfm, List.length_map] at h ⊢
    simp only at hl
    split at h
    · cases h
    · rename_i hd
      simp only [hl, bne_self_eq_false, Bool.false_eq_true, if_false, Bool.or_self] at h ⊢
      rw [if_neg (by omega)]
      exact c07_self_agree ev hev .planar_transform2D l none self 1 r hbe rfl rfl h
  · have e1 : call ev K A "transform3D" self (l.map Arg.sc) =
        if self.ty.dim < 3 then .error .attributeError else
        if ((l.map (Arg.sc (S := S))).filterMap (fun a => match a with | .sc s => some s | _ => none)).length != 9
          then .error .typeError
        else dispatch ev .spatial_transform3D
          ((l.map (Arg.sc (S := S))).filterMap (fun a => match a with | .sc s => some s | _ => none)) none [self] [self] := rfl
    have e2 : numbaCall ev K A "transform3D" self (l.map Arg.sc) =
        if nbGuard self (l.map Arg.sc) = true then .error .unmodelled else
        if self.ty.dim < 2 + 1 then .error .typeError else
        if ((l.map (Arg.sc (S := S))).filterMap (fun a => match a with | .sc s => some s | _ => none)).length != 9
            || (l.map (Arg.sc (S := S))).length != 9 then .error .typeError
        else nbSelf ev .spatial_transform3D
          ((l.map (Arg.sc (S := S))).filterMap (fun a => match a with | .sc s => some s | _ => none)) none self 2 := rfl
    rw [e2, hg]; rw [e1] at h
    simp only [hfm, List.length_map] at h ⊢
    simp only at hl
    split at h
    · cases h
    · rename_i hd
      simp only [hl, bne_self_eq_false, Bool.false_eq_true, if_false, Bool.or_self] at h ⊢
      rw [if_neg (by omega)]
      exact c07_self_agree ev hev .spatial_transform3D l none self 2 r hbe rfl rfl h
  · have e1 : call ev K A "transform4D" self (l.map Arg.sc) =
        if self.ty.dim < 4 then .error .attributeError else
        if ((l.map (Arg.sc (S := S))).filterMap (fun a => match a with | .sc s => some s | _ => none)).length != 16
          then .error .typeError
        else dispatch ev .lorentz_transform4D
          ((l.map (Arg.sc (S := S))).filterMap (fun a => match a with | .sc s => some s | _ => none)) none [self] [self] := rfl
    have e2 : numbaCall ev K A "transform4D" self (l.map Arg.sc) =
        if nbGuard self (l.map Arg.sc) = true then .error .unmodelled else
        if self.ty.dim < 3 + 1 then .error .typeError else
        if ((l.map (Arg.sc (S := S))).filterMap (fun a => match a with | .sc s => some s | _ => none)).length != 16
            || (l.map (Arg.sc (S := S))).length != 16 then .error .typeError
        else nbSelf ev .lorentz_transform4D
          ((l.map (Arg.sc (S := S))).filterMap (fun a => match a with | .sc s => some s | _ => none)) none self 3 := rfl
    rw [e2, hg]; rw [e1] at h
    simp only [hfm, List.length_map] at h ⊢
    simp only at hl
    split at h
    · cases h
    · rename_i hd
      simp only [hl, bne_self_eq_false, Bool.false_eq_true, if_false, Bool.or_self] at h ⊢
      rw [if_neg (by omega)]
      exact c07_self_agree ev hev .lorentz_transform4D l none self 3 r hbe rfl rfl h

/-! ### 3. (a) AGREEMENT — predicates of the 4D class, `to_beta3` -/

/-- numba's predicate overloads (`is_timelike`, `is_spacelike`, `is_lightlike`) -/
def nbP (ev : Ev S B) (self : Vec S) (m : ModuleId) (sc : List S) : Except Err (Res S B) :=
  if self.ty.dim < 4 then .error .typeError else
  match nbLookup ev m sc none [(self, 3)] with
  | none => .error .typeError
  | some (out, ret) => nbScalarRes out ret

private theorem pred_step (ev : Ev S B) (hev : EvTables ev) (self : Vec S) (args : List (Arg S)) (r : Res S B)
    (m : ModuleId) (sc : List S) (c n : Except Err (Res S B))
    (hc : c = callU ev self m 4 sc none)
    (hn : n = if nbGuard self args = true then .error .unmodelled else nbP ev self m sc)
    (hg : nbGuard self args = false) (hs : operandSlots m.info.shape = [3])
    (hk : m.kind = .float ∨ m.kind = .bool) (h : c = .ok r) : n = .ok r := by
  rw [hn, hg]
  rw [hc] at h
  unfold callU at h
  unfold nbP
  split at h
  · cases h
  · rename_i hd
    simp only [Bool.false_eq_true, if_false, if_neg hd]
    obtain ⟨out, ret, hl, hr, _⟩ := gen_scalar ev hev m sc none [self] [self] r hk h
    rw [hs] at hl
    simp only [List.zip_cons_cons, List.zip_nil_right] at hl
    rw [hl]
    exact hr

/-- `is_timelike`, `is_spacelike`, `is_lightlike` with the default and with an explicit tolerance:
(name, arguments, module, scalar arguments) -/
def c07_predicates (K : Consts S) (t : S) : List (String × List (Arg S) × ModuleId × List S) :=
  [("is_timelike", [], .lorentz_is_timelike, [K.zeroI]), ("is_spacelike", [], .lorentz_is_spacelike, [K.zeroI]),
   ("is_lightlike", [], .lorentz_is_lightlike, [K.tol]),
   ("is_timelike", [.sc t], .lorentz_is_timelike, [t]), ("is_spacelike", [.sc t], .lorentz_is_spacelike, [t]),
   ("is_lightlike", [.sc t], .lorentz_is_lightlike, [t])]

theorem c07_predicates_agree (ev : Ev S B) (hev : EvTables ev) (K : Consts S) (A : Arith S) (self : Vec S) (t : S)
    (r : Res S B) (hbe : self.ty.be = .obj) (e : String × List (Arg S) × ModuleId × List S)
    (he : e ∈ c07_predicates K t) (h : call ev K A e.1 self e.2.1 = .ok r) :
    numbaCall ev K A e.1 self e.2.1 = .ok r := by
  unfold c07_predicates at he
  each_mem he
  all_goals
    exact pred_step ev hev self _ r _ _ _ _ rfl rfl (by simp [nbGuard, hbe, Arg.isObj]) rfl (Or.inr rfl) h

/-- `to_beta3`: a 3D vector of the flavor of `self`, built from the first two declared result types -/
theorem c07_to_beta3_agree (ev : Ev S B) (hev : EvTables ev) (K : Consts S) (A : Arith S) (self : Vec S)
    (r : Res S B) (hbe : self.ty.be = .obj) (h : call ev K A "to_beta3" self [] = .ok r) :
    numbaCall ev K A "to_beta3" self [] = .ok r := by
  have e1 : call ev K A "to_beta3" self [] = callU ev self .lorentz_to_beta3 4 [] none := rfl
  have e2 : numbaCall ev K A "to_beta3" self [] =
      if nbGuard self [] = true then .error .unmodelled else
      if self.ty.dim < 4 then .error .typeError else
      match nbLookup ev .lorentz_to_beta3 [] none [(self, 3)] with
      | none => .error .typeError
      | some (out, ret) => nbVecRes self self.ty.mom 2 false out ret := rfl
  rw [e2, nbGuard_nil self hbe]
  rw [e1] at h
  unfold callU at h
  split at h
  · cases h
  · rename_i hd
    simp only [Bool.false_eq_true, if_false, if_neg hd]
    obtain ⟨out, ret, rv, hl, rfl, hv, hm, _, _⟩ :=
      gen_vec ev hev .lorentz_to_beta3 [] none [self] [self] self 2 false self.ty.mom r (handler_single self) hbe
        (Or.inr ⟨3, Or.inr rfl, by simp [operandSlots, operandSlotsGo, ModuleId.info]⟩) rfl h
    have hz : [self].zip (operandSlots ModuleId.lorentz_to_beta3.info.shape) = [(self, 3)] := rfl
    rw [hz] at hl
    rw [hl]
    simp only [List.any_cons, List.any_nil, Bool.or_false] at hm
    simp only []
    rw [hv, ← hm]
    rfl

/-! ### 4. (a) AGREEMENT — conversions -/

/-- `to_Vector2D`, `to_Vector3D`, `to_Vector4D` without arguments: literally the interpreter's rule (stored coordinates
verbatim, `z = 0.0`, `t = 0.0`, same flavor) -/
theorem c07_to_Vector_agree (ev : Ev S B) (K : Consts S) (A : Arith S) (self : Vec S) (hbe : self.ty.be = .obj)
    (n : String) (hn : n ∈ ["to_Vector2D", "to_Vector3D", "to_Vector4D"]) :
    numbaCall ev K A n self [] = call ev K A n self [] := by
  each_mem hn
  · have e2 : numbaCall ev K A "to_Vector2D" self [] =
        if nbGuard self [] = true then .error .unmodelled else call ev K A "to_Vector2D" self [] := rfl
    rw [e2, nbGuard_nil self hbe]; rfl
  · have e2 : numbaCall ev K A "to_Vector3D" self [] =
        if nbGuard self [] = true then .error .unmodelled else call ev K A "to_Vector3D" self [] := rfl
    rw [e2, nbGuard_nil self hbe]; rfl
  · have e2 : numbaCall ev K A "to_Vector4D" self [] =
        if nbGuard self [] = true then .error .unmodelled else call ev K A "to_Vector4D" self [] := rfl
    rw [e2, nbGuard_nil self hbe]; rfl

/-- "whenever the left computation succeeds, the right one succeeds with the same value" -/
private def Le {α : Type} (a b : Except Err α) : Prop := ∀ r, a = .ok r → b = .ok r

private theorem Le.rfl' {α : Type} (a : Except Err α) : Le a a := fun _ h => h

private theorem Le.bind {α β : Type} (a a' : Except Err α) (f f' : α → Except Err β) (h1 : Le a a')
    (h2 : ∀ x, Le (f x) (f' x)) : Le (a >>= f) (a' >>= f') := by
  intro r h
  cases ha : a with
  | error e => rw [ha] at h; cases h
  | ok x =>
    rw [ha] at h
    rw [h1 x ha]
    exact h2 x r h

private theorem Le.mapM {α β : Type} (f g : α → Except Err β) (hfg : ∀ x, Le (f x) (g x)) :
    ∀ l : List α, Le (l.mapM f) (l.mapM g) := by
  intro l
  induction l with
  | nil => exact Le.rfl' _
  | cons x xs ih =>
    rw [List.mapM_cons, List.mapM_cons]
    refine Le.bind _ _ _ _ (hfg x) (fun y => Le.bind _ _ _ _ ih (fun ys => Le.rfl' _))

/-- the 20 coordinate changes at the enum level: every output coordinate is read through the same accessor module,
a missing group is `0.0` of the requested type, the flavor is kept -/
theorem c07_toSystem_agree (ev : Ev S B) (hev : EvTables ev) (zeroF : S) (v : Vec S) (az : Az) (lon : Option Lon)
    (tmp : Option Tmp) (r : Vec S) (h : toSystem ev zeroF v az lon tmp none none = .ok r) :
    nbToSystem ev zeroF v az lon tmp = .ok r := by
  have hg : ∀ a, Le (getS ev a v) (nbGetS ev a v) := fun a s hs => c07_getS_agree ev hev a v s hs
  revert r h
  show Le _ _
  unfold toSystem nbToSystem
  refine Le.bind _ _ _ _ (Le.mapM _ _ (fun n => hg _) _) (fun azv => ?_)
  by_cases h3 : v.ty.dim ≥ 3 <;> by_cases h4 : v.ty.dim ≥ 4 <;> cases lon <;> cases tmp <;>
    simp only [h3, h4, if_true, if_false] <;>
    repeat (first | exact Le.rfl' _ | exact hg _ | refine Le.bind _ _ _ _ ?_ (fun _ => ?_))

/-- the 20 coordinate changes numba defines, spelled out -/
def c07_toNames : List (String × Az × Option Lon × Option Tmp) :=
  [("to_xy", .xy, none, none), ("to_rhophi", .rhophi, none, none), ("to_xyz", .xy, some .z, none),
   ("to_xytheta", .xy, some .theta, none), ("to_xyeta", .xy, some .eta, none), ("to_rhophiz", .rhophi, some .z, none),
   ("to_rhophitheta", .rhophi, some .theta, none), ("to_rhophieta", .rhophi, some .eta, none), ("to_xyzt", .xy, some .z, some .t),
   ("to_xyztau", .xy, some .z, some .tau), ("to_xythetat", .xy, some .theta, some .t), ("to_xythetatau", .xy, some .theta, some .tau),
   ("to_xyetat", .xy, some .eta, some .t), ("to_xyetatau", .xy, some .eta, some .tau), ("to_rhophizt", .rhophi, some .z, some .t),
   ("to_rhophiztau", .rhophi, some .z, some .tau), ("to_rhophithetat", .rhophi, some .theta, some .t), ("to_rhophithetatau", .rhophi, some .theta, some .tau),
   ("to_rhophietat", .rhophi, some .eta, some .t), ("to_rhophietatau", .rhophi, some .eta, some .tau)]

theorem c07_nbToTable_eq : nbToTable = c07_toNames := by decide

private theorem to_step (ev : Ev S B) (hev : EvTables ev) (K : Consts S) (self : Vec S) (r : Res S B)
    (hbe : self.ty.be = .obj) (az : Az) (lon : Option Lon) (tmp : Option Tmp) (c n : Except Err (Res S B))
    (hc : c = (toSystem ev K.zeroF self az lon tmp none none).map .vec)
    (hn : n = if nbGuard self [] = true then .error .unmodelled else (nbToSystem ev K.zeroF self az lon tmp).map .vec)
    (h : c = .ok r) : n = .ok r := by
  rw [hn, nbGuard_nil self hbe]
  rw [hc] at h
  cases ht : toSystem ev K.zeroF self az lon tmp none none with
  | error e => rw [ht] at h; cases h
  | ok w =>
    rw [ht] at h
    simp only [Bool.false_eq_true, if_false]
    rw [c07_toSystem_agree ev hev K.zeroF self az lon tmp w ht]
    exact h

/-- string level: `to_xy`, `to_rhophi`, `to_xyz`, …, `to_rhophietatau` without arguments -/
theorem c07_to_agree (ev : Ev S B) (hev : EvTables ev) (K : Consts S) (A : Arith S) (self : Vec S) (r : Res S B)
    (hbe : self.ty.be = .obj) (e : String × Az × Option Lon × Option Tmp) (he : e ∈ nbToTable)
    (h : call ev K A e.1 self [] = .ok r) : numbaCall ev K A e.1 self [] = .ok r := by
  rw [c07_nbToTable_eq] at he
  unfold c07_toNames at he
  each_mem he
  all_goals exact to_step ev hev K self r hbe _ _ _ _ _ rfl rfl h

/-! ### 5. (a) AGREEMENT — two-vector methods with a scalar or truth result (no flavor involved) -/

private theorem pair_scalar (ev : Ev S B) (hev : EvTables ev) (m : ModuleId) (sc : List S) (a b : Vec S) (k1 k2 : Nat)
    (r : Res S B) (hs : operandSlots m.info.shape = [k1, k2]) (hk : m.kind = .float ∨ m.kind = .bool)
    (h : dispatch ev m sc none [a, b] [a, b] = .ok r) :
    ∃ out ret, nbLookup ev m sc none [(a, k1), (b, k2)] = some (out, ret) ∧ nbScalarRes out ret = .ok r ∧
      (ret = .float ∨ ret = .bool) := by
  obtain ⟨out, ret, hl, hr, hret⟩ := gen_scalar ev hev m sc none [a, b] [a, b] r hk h
  rw [hs] at hl
  exact ⟨out, ret, hl, hr, hret⟩

/-- `dot`, `equal`, `not_equal` on operands of the same dimension -/
theorem c07_bin_sameDim_scalar (ev : Ev S B) (hev : EvTables ev) (K : Consts S) (b : Bin)
    (hb : b = .dot ∨ b = .equal ∨ b = .not_equal) (self o : Vec S) (extra : List S) (r : Res S B)
    (h : binary ev K b self o extra = .ok r) : nbBin ev K b self o extra = .ok r := by
  have hdim : o.ty.dim = self.ty.dim := by
    rcases hb with rfl | rfl | rfl <;>
    · by_cases hne : o.ty.dim = self.ty.dim
      · exact hne
      · simp [binary, hne] at h
  rcases hb with rfl | rfl | rfl <;> rcases c05_dim_range self.ty with hd | hd | hd <;>
  · simp only [binary, hdim, hd, bne_self_eq_false, Bool.false_eq_true, if_false, Bin.sameDimMod] at h
    obtain ⟨out, ret, hl, hr, hret⟩ := pair_scalar ev hev _ [] self o _ _ r rfl (by first | exact Or.inl rfl | exact Or.inr rfl) h
    simp only [nbBin, nbBinaryG, Bin.nbGroup, hdim, hd, bne_self_eq_false, Bool.and_false, Bool.false_eq_true, if_false,
      Nat.min_self, Bin.nbMod, Bin.sameDimMod, Nat.reduceSub, Nat.reduceAdd, hl]
    rcases hret with rfl | rfl <;> exact hr

/-- `isclose` on operands of the same dimension, with the default or explicit `rtol, atol, equal_nan` -/
theorem c07_isclose_agree (ev : Ev S B) (hev : EvTables ev) (K : Consts S) (self o : Vec S) (extra : List S)
    (r : Res S B) (h : binary ev K .isclose self o extra = .ok r) : nbBin ev K .isclose self o extra = .ok r := by
  have hdim : o.ty.dim = self.ty.dim := by
    by_cases hne : o.ty.dim = self.ty.dim
    · exact hne
    · simp [binary, hne] at h
  rcases c05_dim_range self.ty with hd | hd | hd <;>
  · simp only [binary, hdim, hd, bne_self_eq_false, Bool.false_eq_true, if_false, Bin.sameDimMod] at h
    obtain ⟨out, ret, hl, hr, hret⟩ := pair_scalar ev hev _ _ self o _ _ r rfl (Or.inr rfl) h
    simp only [nbBin, nbIsclose, hdim, hd, bne_self_eq_false, Bool.false_eq_true, if_false, Bin.sameDimMod,
      Nat.reduceSub, hl]
    exact hr

/-- `is_parallel`, `is_antiparallel`, `is_perpendicular` on operands of the same dimension, with the default or an
explicit tolerance -/
theorem c07_tol_agree (ev : Ev S B) (hev : EvTables ev) (K : Consts S) (b : Bin)
    (hb : b = .is_parallel ∨ b = .is_antiparallel ∨ b = .is_perpendicular) (self o : Vec S) (extra : List S)
    (hx : extra = [] ∨ ∃ t, extra = [t]) (r : Res S B)
    (h : binary ev K b self o extra = .ok r) : nbBin ev K b self o extra = .ok r := by
  have hdim : o.ty.dim = self.ty.dim := by
    rcases hb with rfl | rfl | rfl <;>
    · by_cases hne : o.ty.dim = self.ty.dim
      · exact hne
      · simp [binary, hne] at h
  obtain ⟨t, ht⟩ : ∃ t, (if extra.isEmpty then [K.tol] else extra) = [t] := by
    rcases hx with rfl | ⟨t, rfl⟩
    · exact ⟨K.tol, rfl⟩
    · exact ⟨t, rfl⟩
  rcases hb with rfl | rfl | rfl <;> rcases c05_dim_range self.ty with hd | hd | hd <;>
  · simp only [binary, hdim, hd, bne_self_eq_false, Bool.false_eq_true, if_false, Bin.sameDimMod, ht] at h
    obtain ⟨out, ret, hl, hr, hret⟩ := pair_scalar ev hev _ _ self o _ _ r rfl (Or.inr rfl) h
    simp only [nbBin, ht, nbTol, nbTolCore, hdim, hd, bne_self_eq_false, Bool.false_eq_true, if_false, Bin.sameDimMod,
      beq_self_eq_true, Bool.and_false, Bool.false_and, Bool.and_self, if_true, Nat.reduceAdd, Nat.reduceBEq,
      Nat.reduceBneDiff, hl]
    exact hr

/-- `deltaphi` (any two dimensions), `deltaangle`, `deltaeta`, `deltaR`, `deltaR2` (3D/4D with 3D/4D),
`deltaRapidityPhi`, `deltaRapidityPhi2` (4D with 4D) -/
theorem c07_delta_agree (ev : Ev S B) (hev : EvTables ev) (K : Consts S) (b : Bin)
    (hb : b ∈ [Bin.deltaphi, .deltaangle, .deltaeta, .deltaR, .deltaR2, .deltaRapidityPhi, .deltaRapidityPhi2])
    (self o : Vec S) (extra : List S) (r : Res S B)
    (h : binary ev K b self o extra = .ok r) : nbBin ev K b self o extra = .ok r := by
  each_mem hb
  · simp only [binary] at h
    obtain ⟨out, ret, hl, hr, hret⟩ := pair_scalar ev hev _ _ self o _ _ r rfl (Or.inl rfl) h
    have hd : ¬ self.ty.dim < 2 := by rcases c05_dim_range self.ty with hd | hd | hd <;> omega
    simp only [nbBin, nbBinaryG, Bin.nbGroup, Bin.nbMod, hd, decide_false, Bool.false_eq_true, if_false,
      Nat.reduceAdd, hl, beq_iff_eq, reduceCtorEq, Bool.or_self, Bool.false_and]
    rcases hret with rfl | rfl <;> exact hr
  all_goals
    simp only [binary] at h
    split at h
    · cases h
    · rename_i hd
      split at h
      · cases h
      · obtain ⟨out, ret, hl, hr, hret⟩ := pair_scalar ev hev _ _ self o _ _ r rfl (Or.inl rfl) h
        simp only [nbBin, nbBinaryG, Bin.nbGroup, Bin.nbMod, hd, decide_false, Bool.false_eq_true, if_false,
          Nat.reduceAdd, hl, beq_iff_eq, reduceCtorEq, Bool.or_self, Bool.false_and]
        rcases hret with rfl | rfl <;> exact hr

/-! ### 6. two-vector methods with a vector result: same coordinates, flavor by the overload's rule -/

private theorem pair_vec (ev : Ev S B) (hev : EvTables ev) (m : ModuleId) (sc : List S) (a b : Vec S) (k1 k2 k : Nat)
    (pass : Bool) (mom' : Bool) (r : Res S B) (hs : operandSlots m.info.shape = [k1, k2])
    (ha : a.ty.be = .obj) (hb : b.ty.be = .obj) (hk1 : k = 1 ∨ k1 = 2 ∨ k1 = 3)
    (hf : fits m.kind k pass a.ty.dim true = true) (h : dispatch ev m sc none [a, b] [a, b] = .ok r) :
    ∃ out ret rv, nbLookup ev m sc none [(a, k1), (b, k2)] = some (out, ret) ∧ (∃ parts, ret = .vec parts) ∧
      r = .vec rv ∧ nbVecRes a mom' k pass out ret = .ok (.vec (rv.withMom mom')) ∧
      rv.ty.mom = (a.ty.mom || b.ty.mom) ∧ rv.ty.be = .obj := by
  obtain ⟨out, ret, rv, hl, h1, h2, h3, h4, h5⟩ :=
    gen_vec ev hev m sc none [a, b] [a, b] a k pass mom' r (handler_pair_obj a b hb) ha
      (by
        rcases hk1 with h1 | h1
        · exact Or.inl h1
        · exact Or.inr ⟨k1, h1, by rw [hs]; simp⟩) hf h
  rw [hs] at hl
  refine ⟨out, ret, rv, hl, h5, h1, h2, ?_, h4⟩
  simpa using h3

/-- `add`, `subtract` on operands of the same dimension: the compiled code returns the interpreter's vector — same
dimension, coordinate system and coordinates — with flavor `self.mom && o.mom`, where the interpreter has
`self.mom || o.mom` -/
theorem c07_addsub (ev : Ev S B) (hev : EvTables ev) (K : Consts S) (b : Bin) (hb : b = .add ∨ b = .subtract)
    (self o : Vec S) (extra : List S) (r : Res S B) (hs : self.ty.be = .obj) (ho : o.ty.be = .obj)
    (h : binary ev K b self o extra = .ok r) :
    ∃ rv, r = .vec rv ∧ rv.ty.mom = (self.ty.mom || o.ty.mom) ∧
      nbBin ev K b self o extra = .ok (.vec (rv.withMom (self.ty.mom && o.ty.mom))) := by
  have hdim : o.ty.dim = self.ty.dim := by
    rcases hb with rfl | rfl <;>
    · by_cases hne : o.ty.dim = self.ty.dim
      · exact hne
      · simp [binary, hne] at h
  rcases hb with rfl | rfl <;> rcases c05_dim_range self.ty with hd | hd | hd <;>
  · simp only [binary, hdim, hd, bne_self_eq_false, Bool.false_eq_true, if_false, Bin.sameDimMod] at h
    obtain ⟨out, ret, rv, hl, ⟨parts, rfl⟩, rfl, hv, hm, _⟩ :=
      pair_vec ev hev _ [] self o _ _ (self.ty.dim - 1) false (self.ty.mom && o.ty.mom) r rfl hs ho
        (by rw [hd]; simp) (by rw [hd]; rfl) h
    refine ⟨rv, rfl, hm, ?_⟩
    rw [hd] at hv
    simp only [nbBin, nbBinaryG, Bin.nbGroup, hdim, hd, bne_self_eq_false, Bool.and_false, Bool.false_eq_true, if_false,
      Nat.min_self, Bin.nbMod, Bin.sameDimMod, Nat.reduceSub, Nat.reduceAdd, hl, nbFlavor]
    exact hv

private theorem toDim_same (z : S) (n : Nat) (v : Vec S) (h : v.ty.dim = n) : toDim z n v [] [] 0 = .ok v := by
  simp [toDim, h]

/-- `cross` of two 3D vectors: same coordinates, flavor `self.mom && o.mom` (interpreter: `||`) -/
theorem c07_cross (ev : Ev S B) (hev : EvTables ev) (K : Consts S) (self o : Vec S) (extra : List S) (r : Res S B)
    (hs : self.ty.be = .obj) (ho : o.ty.be = .obj) (h : binary ev K .cross self o extra = .ok r) :
    ∃ rv, r = .vec rv ∧ rv.ty.mom = (self.ty.mom || o.ty.mom) ∧
      nbBin ev K .cross self o extra = .ok (.vec (rv.withMom (self.ty.mom && o.ty.mom))) := by
  simp only [binary] at h
  split at h
  · cases h
  · split at h
    · cases h
    · rename_i h1 h2
      have hd : self.ty.dim = 3 := by simp at h2; exact h2.1
      have hd' : o.ty.dim = 3 := by simp at h2; exact h2.2
      obtain ⟨out, ret, rv, hl, ⟨parts, rfl⟩, rfl, hv, hm, _⟩ :=
        pair_vec ev hev _ [] self o _ _ 2 false (self.ty.mom && o.ty.mom) r rfl hs ho (Or.inr (Or.inl rfl)) rfl h
      refine ⟨rv, rfl, hm, ?_⟩
      simp only [nbBin, nbCross, nbToVector, toDim_same _ _ _ hd, toDim_same _ _ _ hd', hd, hd', Nat.lt_irrefl,
        decide_false, Bool.or_self, Bool.false_eq_true, if_false, hl, nbFlavor]
      exact hv

private theorem scaleN_be_mom (ev : Ev S B) (n : Nat) (f : S) (o w : Vec S) (ho : o.ty.be = .obj)
    (h : scaleN ev n f o = .ok (.vec w)) : w.ty.be = .obj ∧ w.ty.mom = o.ty.mom := by
  unfold scaleN at h
  split at h
  · cases h
  · obtain ⟨hd, hh, h1, h2⟩ := c05_dispatch_be_mom ev _ _ _ _ _ _ h
    rw [handler_single] at hh
    cases hh
    exact ⟨by rw [h1, ho], by simpa using h2⟩

/-- the boosts (`boost_p4`, `boost_beta3`, `boost`, `boostCM_of_p4`, `boostCM_of_beta3`, `boostCM_of`) with the operand
dimensions the interpreter accepts: same coordinates; the compiled result has the class of `self` ALONE (flavor
`self.mom`), the interpreter's is momentum if either operand is -/
theorem c07_boost (ev : Ev S B) (hev : EvTables ev) (K : Consts S) (b : Bin)
    (hb : b ∈ [Bin.boost_p4, .boost_beta3, .boost, .boostCM_of_p4, .boostCM_of_beta3, .boostCM_of])
    (self o : Vec S) (extra : List S) (r : Res S B) (hs : self.ty.be = .obj) (ho : o.ty.be = .obj)
    (h : binary ev K b self o extra = .ok r) :
    ∃ rv, r = .vec rv ∧ rv.ty.mom = (self.ty.mom || o.ty.mom) ∧
      nbBin ev K b self o extra = .ok (.vec (rv.withMom self.ty.mom)) := by
  have hp4 : ∀ (w : Vec S) (r : Res S B), w.ty.be = .obj →
      dispatch ev .lorentz_boost_p4 [] none [self, w] [self, w] = .ok r → ¬ self.ty.dim < 4 →
      ∃ rv, r = .vec rv ∧ rv.ty.mom = (self.ty.mom || w.ty.mom) ∧
        nbBoostP4 ev self w = .ok (.vec (rv.withMom self.ty.mom)) := by
    intro w r hw h hd
    obtain ⟨out, ret, rv, hl, _, rfl, hv, hm, _⟩ :=
      pair_vec ev hev _ [] self w _ _ 3 true self.ty.mom r rfl hs hw (Or.inr (Or.inr rfl)) rfl h
    refine ⟨rv, rfl, hm, ?_⟩
    simp only [nbBoostP4, hd, if_false, hl]
    exact hv
  have hb3 : ∀ (w : Vec S) (r : Res S B), w.ty.be = .obj →
      dispatch ev .lorentz_boost_beta3 [] none [self, w] [self, w] = .ok r → ¬ self.ty.dim < 4 →
      ∃ rv, r = .vec rv ∧ rv.ty.mom = (self.ty.mom || w.ty.mom) ∧
        nbBoostBeta3 ev self w = .ok (.vec (rv.withMom self.ty.mom)) := by
    intro w r hw h hd
    obtain ⟨out, ret, rv, hl, _, rfl, hv, hm, _⟩ :=
      pair_vec ev hev _ [] self w _ _ 3 true self.ty.mom r rfl hs hw (Or.inr (Or.inr rfl)) rfl h
    refine ⟨rv, rfl, hm, ?_⟩
    simp only [nbBoostBeta3, hd, if_false, hl]
    exact hv
  each_mem hb
  · -- boost_p4
    simp only [binary] at h
    split at h
    · cases h
    · rename_i hd
      split at h
      · cases h
      · simpa only [nbBin] using hp4 o r ho h hd
  · -- boost_beta3
    simp only [binary] at h
    split at h
    · cases h
    · rename_i hd
      split at h
      · cases h
      · simpa only [nbBin] using hb3 o r ho h hd
  · -- boost
    simp only [binary] at h
    split at h
    · cases h
    · rename_i hd
      simp only [nbBin, hd, if_false]
      split at h
      · rename_i h3
        simp only [h3, if_true]
        exact hb3 o r ho h hd
      · rename_i h3
        simp only [h3, Bool.false_eq_true, if_false]
        split at h
        · rename_i h4
          simp only [h4, if_true]
          exact hp4 o r ho h hd
        · cases h
  all_goals
    -- boostCM_of_p4, boostCM_of_beta3, boostCM_of
    simp only [binary] at h
    split at h
    · cases h
    · rename_i hd
      split at h
      · cases h
      · rename_i hw
        split at h
        · rename_i n hn
          obtain ⟨hnb, hnm⟩ := scaleN_be_mom ev 3 K.negOne o n ho hn
          have hnn : nbNegN ev K 3 o = .ok (.vec n) :=
            c07_scaleN_agree ev hev 3 (Or.inr (Or.inl rfl)) K.negOne o _ ho hn
          simp only [nbBin, hd, if_false, hnn]
          simp at hw
          rw [← hnm]
          first
            | (have h4 : o.ty.dim = 4 := by omega
               simp only [h4, beq_self_eq_true, if_true] at h
               first
                 | exact hp4 n r hnb h hd
                 | (simp only [h4, Nat.reduceBEq, Bool.false_eq_true, if_false, bne_self_eq_false, Bool.and_false,
                      Nat.reduceBneDiff, Bool.and_self]
                    exact hp4 n r hnb h hd))
            | (have h3 : o.ty.dim = 3 := by omega
               simp only [h3, Nat.reduceBEq, Bool.false_eq_true, if_false] at h
               first
                 | exact hb3 n r hnb h hd
                 | (simp only [h3, beq_self_eq_true, if_true, bne_self_eq_false, Bool.false_and, Bool.false_eq_true,
                      if_false]
                    exact hb3 n r hnb h hd))
            | (rcases (by omega : o.ty.dim = 3 ∨ o.ty.dim = 4) with h3 | h4
               · simp only [h3, Nat.reduceBEq, Bool.false_eq_true, if_false] at h
                 simp only [h3, beq_self_eq_true, if_true, bne_self_eq_false, Bool.false_and, Bool.false_eq_true,
                      if_false]
                 exact hb3 n r hnb h hd
               · simp only [h4, beq_self_eq_true, if_true] at h
                 simp only [h4, Nat.reduceBEq, Bool.false_eq_true, if_false, bne_self_eq_false, Bool.and_false,
                      Nat.reduceBneDiff, Bool.and_self]
                 exact hp4 n r hnb h hd)
        · cases h
        · cases h

/-! ### 7. (a) AGREEMENT — every two-vector method, operands of the same flavor -/

private theorem withMom_of_eq (rv : Vec S) (m : Bool) (h : rv.ty.mom = m) : rv.withMom m = rv := by
  subst h; rfl

/-- enum level, all 23 two-vector methods: whenever the interpreter succeeds and the operands have the SAME flavor, the
compiled code evaluates the same compute module on the same key with the same arguments in the same order and returns
the same value — for vectors: same class, flavor, dimension, coordinate system and coordinates -/
theorem c07_binary_agree (ev : Ev S B) (hev : EvTables ev) (K : Consts S) (b : Bin) (self o : Vec S) (extra : List S)
    (r : Res S B) (hs : self.ty.be = .obj) (ho : o.ty.be = .obj) (hm : self.ty.mom = o.ty.mom)
    (hx : extra = [] ∨ ∃ t, extra = [t]) (h : binary ev K b self o extra = .ok r) :
    nbBin ev K b self o extra = .ok r := by
  have vecCase : ∀ (f : Bool), (f = self.ty.mom) →
      (∃ rv, r = .vec rv ∧ rv.ty.mom = (self.ty.mom || o.ty.mom) ∧
        nbBin ev K b self o extra = .ok (.vec (rv.withMom f))) → nbBin ev K b self o extra = .ok r := by
    rintro f rfl ⟨rv, rfl, hrm, hn⟩
    rw [hn, withMom_of_eq rv _ (by rw [hrm, ← hm]; simp)]
  cases b
  case add => exact vecCase _ (by rw [← hm]; simp) (c07_addsub ev hev K _ (Or.inl rfl) self o extra r hs ho h)
  case subtract => exact vecCase _ (by rw [← hm]; simp) (c07_addsub ev hev K _ (Or.inr rfl) self o extra r hs ho h)
  case dot => exact c07_bin_sameDim_scalar ev hev K _ (Or.inl rfl) self o extra r h
  case equal => exact c07_bin_sameDim_scalar ev hev K _ (Or.inr (Or.inl rfl)) self o extra r h
  case not_equal => exact c07_bin_sameDim_scalar ev hev K _ (Or.inr (Or.inr rfl)) self o extra r h
  case isclose => exact c07_isclose_agree ev hev K self o extra r h
  case is_parallel => exact c07_tol_agree ev hev K _ (Or.inl rfl) self o extra hx r h
  case is_antiparallel => exact c07_tol_agree ev hev K _ (Or.inr (Or.inl rfl)) self o extra hx r h
  case is_perpendicular => exact c07_tol_agree ev hev K _ (Or.inr (Or.inr rfl)) self o extra hx r h
  case cross => exact vecCase _ (by rw [← hm]; simp) (c07_cross ev hev K self o extra r hs ho h)
  case boost_p4 => exact vecCase _ rfl (c07_boost ev hev K _ (by simp) self o extra r hs ho h)
  case boost_beta3 => exact vecCase _ rfl (c07_boost ev hev K _ (by simp) self o extra r hs ho h)
  case boost => exact vecCase _ rfl (c07_boost ev hev K _ (by simp) self o extra r hs ho h)
  case boostCM_of_p4 => exact vecCase _ rfl (c07_boost ev hev K _ (by simp) self o extra r hs ho h)
  case boostCM_of_beta3 => exact vecCase _ rfl (c07_boost ev hev K _ (by simp) self o extra r hs ho h)
  case boostCM_of => exact vecCase _ rfl (c07_boost ev hev K _ (by simp) self o extra r hs ho h)
  all_goals exact c07_delta_agree ev hev K _ (by simp) self o extra r h

/-- scalar- and truth-valued two-vector methods agree WHATEVER the flavors of the operands -/
theorem c07_binary_scalar_agree (ev : Ev S B) (hev : EvTables ev) (K : Consts S) (b : Bin) (self o : Vec S)
    (extra : List S) (r : Res S B) (hb : b ∉ [Bin.add, .subtract, .cross, .boost_p4, .boost_beta3, .boost,
      .boostCM_of_p4, .boostCM_of_beta3, .boostCM_of])
    (hx : extra = [] ∨ ∃ t, extra = [t]) (h : binary ev K b self o extra = .ok r) :
    nbBin ev K b self o extra = .ok r := by
  cases b <;> simp at hb
  case dot => exact c07_bin_sameDim_scalar ev hev K _ (Or.inl rfl) self o extra r h
  case equal => exact c07_bin_sameDim_scalar ev hev K _ (Or.inr (Or.inl rfl)) self o extra r h
  case not_equal => exact c07_bin_sameDim_scalar ev hev K _ (Or.inr (Or.inr rfl)) self o extra r h
  case isclose => exact c07_isclose_agree ev hev K self o extra r h
  case is_parallel => exact c07_tol_agree ev hev K _ (Or.inl rfl) self o extra hx r h
  case is_antiparallel => exact c07_tol_agree ev hev K _ (Or.inr (Or.inl rfl)) self o extra hx r h
  case is_perpendicular => exact c07_tol_agree ev hev K _ (Or.inr (Or.inr rfl)) self o extra hx r h
  all_goals exact c07_delta_agree ev hev K _ (by simp) self o extra r h

/-- the 23 two-vector method names -/
def c07_binNames : List (String × Bin) :=
  [("add", .add), ("subtract", .subtract), ("dot", .dot), ("equal", .equal), ("not_equal", .not_equal), ("isclose", .isclose), ("is_parallel", .is_parallel), ("is_antiparallel", .is_antiparallel), ("is_perpendicular", .is_perpendicular), ("deltaphi", .deltaphi), ("deltaangle", .deltaangle), ("deltaeta", .deltaeta), ("deltaR", .deltaR), ("deltaR2", .deltaR2), ("deltaRapidityPhi", .deltaRapidityPhi), ("deltaRapidityPhi2", .deltaRapidityPhi2), ("cross", .cross), ("boost_p4", .boost_p4), ("boost_beta3", .boost_beta3), ("boost", .boost), ("boostCM_of_p4", .boostCM_of_p4), ("boostCM_of_beta3", .boostCM_of_beta3), ("boostCM_of", .boostCM_of)]

private theorem bin_step (ev : Ev S B) (hev : EvTables ev) (K : Consts S) (self o : Vec S) (args : List (Arg S))
    (extra : List S) (r : Res S B) (b : Bin) (c n : Except Err (Res S B))
    (hc : c = binary ev K b self o extra)
    (hn : n = if nbGuard self args = true then .error .unmodelled else nbBin ev K b self o extra)
    (hg : nbGuard self args = false) (hs : self.ty.be = .obj) (ho : o.ty.be = .obj) (hm : self.ty.mom = o.ty.mom)
    (hx : extra = [] ∨ ∃ t, extra = [t]) (h : c = .ok r) : n = .ok r := by
  rw [hn, hg]
  rw [hc] at h
  simpa using c07_binary_agree ev hev K b self o extra r hs ho hm hx h

/-- string level: `self.<name>(o)` for each of the 23 names, operands of the same flavor -/
theorem c07_binNames_agree (ev : Ev S B) (hev : EvTables ev) (K : Consts S) (A : Arith S) (self o : Vec S)
    (r : Res S B) (hs : self.ty.be = .obj) (ho : o.ty.be = .obj) (hm : self.ty.mom = o.ty.mom)
    (p : String × Bin) (hp : p ∈ c07_binNames)
    (h : call ev K A p.1 self [.v o] = .ok r) : numbaCall ev K A p.1 self [.v o] = .ok r := by
  unfold c07_binNames at hp
  each_mem hp
  all_goals
    exact bin_step ev hev K self o _ [] r _ _ _ rfl rfl (by simp [nbGuard, hs, ho, Arg.isObj]) hs ho hm (Or.inl rfl) h

/-- … and `self.is_parallel(o, tolerance)` etc. with an explicit tolerance -/
theorem c07_tolNames_agree (ev : Ev S B) (hev : EvTables ev) (K : Consts S) (A : Arith S) (self o : Vec S) (t : S)
    (r : Res S B) (hs : self.ty.be = .obj) (ho : o.ty.be = .obj)
    (n : String) (hn : n ∈ ["is_parallel", "is_antiparallel", "is_perpendicular"])
    (h : call ev K A n self [.v o, .sc t] = .ok r) : numbaCall ev K A n self [.v o, .sc t] = .ok r := by
  have hg : nbGuard self [.v o, .sc t] = false := by simp [nbGuard, hs, ho, Arg.isObj]
  each_mem hn
  · have e1 : call ev K A "is_parallel" self [.v o, .sc t] = binary ev K .is_parallel self o [t] := rfl
    have e2 : numbaCall ev K A "is_parallel" self [.v o, .sc t] =
        if nbGuard self [.v o, .sc t] = true then .error .unmodelled else nbBin ev K .is_parallel self o [t] := rfl
    rw [e2, hg]; rw [e1] at h
    simpa using c07_tol_agree ev hev K _ (Or.inl rfl) self o [t] (Or.inr ⟨t, rfl⟩) r h
  · have e1 : call ev K A "is_antiparallel" self [.v o, .sc t] = binary ev K .is_antiparallel self o [t] := rfl
    have e2 : numbaCall ev K A "is_antiparallel" self [.v o, .sc t] =
        if nbGuard self [.v o, .sc t] = true then .error .unmodelled else nbBin ev K .is_antiparallel self o [t] := rfl
    rw [e2, hg]; rw [e1] at h
    simpa using c07_tol_agree ev hev K _ (Or.inr (Or.inl rfl)) self o [t] (Or.inr ⟨t, rfl⟩) r h
  · have e1 : call ev K A "is_perpendicular" self [.v o, .sc t] = binary ev K .is_perpendicular self o [t] := rfl
    have e2 : numbaCall ev K A "is_perpendicular" self [.v o, .sc t] =
        if nbGuard self [.v o, .sc t] = true then .error .unmodelled else nbBin ev K .is_perpendicular self o [t] := rfl
    rw [e2, hg]; rw [e1] at h
    simpa using c07_tol_agree ev hev K _ (Or.inr (Or.inr rfl)) self o [t] (Or.inr ⟨t, rfl⟩) r h

/-- `rotate_axis` with a 3D axis: the axis is passed to the compute function, the result has the class of `self` -/
theorem c07_rotate_axis_agree (ev : Ev S B) (hev : EvTables ev) (K : Consts S) (A : Arith S) (self axis : Vec S) (a : S)
    (r : Res S B) (hs : self.ty.be = .obj) (ha : axis.ty.be = .obj)
    (h : call ev K A "rotate_axis" self [.v axis, .sc a] = .ok r) :
    numbaCall ev K A "rotate_axis" self [.v axis, .sc a] = .ok r := by
  have e2 : numbaCall ev K A "rotate_axis" self [.v axis, .sc a] =
      if nbGuard self [.v axis, .sc a] = true then .error .unmodelled else nbRotateAxis ev self axis a := rfl
  have hg : nbGuard self [.v axis, .sc a] = false := by simp [nbGuard, hs, ha, Arg.isObj]
  rw [e2, hg]
  rw [c05_call_rotate_axis] at h
  split at h
  · cases h
  · rename_i hd
    split at h
    · cases h
    · obtain ⟨out, ret, rv, hl, rfl, hv, hmm, _, _⟩ :=
        gen_vec ev hev .spatial_rotate_axis [a] none [axis, self] [self] self 2 true self.ty.mom r
          (handler_single self) hs (Or.inr ⟨2, Or.inl rfl, by simp [operandSlots, operandSlotsGo, ModuleId.info]⟩) rfl h
      have hz : [axis, self].zip (operandSlots ModuleId.spatial_rotate_axis.info.shape) = [(axis, 2), (self, 2)] := rfl
      rw [hz] at hl
      simp only [nbRotateAxis, hd, Bool.false_eq_true, if_false, hl]
      simp only [List.any_cons, List.any_nil, Bool.or_false] at hmm
      rw [hv, ← hmm]
      rfl

/-! ### 8. (b) DIFFERENCES — flavor -/

/-- mixed flavors, `add` / `subtract` / `cross`: the interpreter returns a momentum vector, the compiled code the
generic vector with the same coordinates -/
theorem c07_mixed_flavor (ev : Ev S B) (hev : EvTables ev) (K : Consts S) (b : Bin)
    (hb : b = .add ∨ b = .subtract ∨ b = .cross) (self o : Vec S) (extra : List S) (rv : Vec S)
    (hs : self.ty.be = .obj) (ho : o.ty.be = .obj) (hm : self.ty.mom ≠ o.ty.mom)
    (h : binary ev K b self o extra = .ok (.vec rv)) :
    rv.ty.mom = true ∧ nbBin ev K b self o extra = .ok (.vec (rv.withMom false)) := by
  have key : ∃ rv', (Res.vec rv : Res S B) = Res.vec rv' ∧ rv'.ty.mom = (self.ty.mom || o.ty.mom) ∧
      nbBin ev K b self o extra = .ok (.vec (rv'.withMom (self.ty.mom && o.ty.mom))) := by
    rcases hb with rfl | rfl | rfl
    · exact c07_addsub ev hev K _ (Or.inl rfl) self o extra _ hs ho h
    · exact c07_addsub ev hev K _ (Or.inr rfl) self o extra _ hs ho h
    · exact c07_cross ev hev K self o extra _ hs ho h
  obtain ⟨rv', he, h1, h2⟩ := key
  cases he
  have : (self.ty.mom || o.ty.mom) = true ∧ (self.ty.mom && o.ty.mom) = false := by
    cases hs' : self.ty.mom <;> cases ho' : o.ty.mom <;> simp_all
  rw [this.1] at h1
  rw [this.2] at h2
  exact ⟨h1, h2⟩

/-- boosts: a generic `self` boosted by a momentum vector stays generic in compiled code, the interpreter makes it a
momentum vector (with a momentum `self` both give a momentum vector) -/
theorem c07_boost_flavor (ev : Ev S B) (hev : EvTables ev) (K : Consts S) (b : Bin)
    (hb : b ∈ [Bin.boost_p4, .boost_beta3, .boost, .boostCM_of_p4, .boostCM_of_beta3, .boostCM_of])
    (self o : Vec S) (extra : List S) (rv : Vec S) (hs : self.ty.be = .obj) (ho : o.ty.be = .obj)
    (hsm : self.ty.mom = false) (hom : o.ty.mom = true) (h : binary ev K b self o extra = .ok (.vec rv)) :
    rv.ty.mom = true ∧ nbBin ev K b self o extra = .ok (.vec (rv.withMom false)) := by
  obtain ⟨rv', he, h1, h2⟩ := c07_boost ev hev K b hb self o extra _ hs ho h
  cases he
  rw [hsm, hom] at h1
  rw [hsm] at h2
  exact ⟨h1, h2⟩

/-! ### 9. (b) DIFFERENCES — operands of different dimension -/

/-- the interpreter refuses operands of different dimension in all nine same-dimension methods -/
theorem c07_interp_dim_mismatch (ev : Ev S B) (K : Consts S) (b : Bin)
    (hb : b ∈ [Bin.add, .subtract, .dot, .equal, .not_equal, .isclose, .is_parallel, .is_antiparallel, .is_perpendicular])
    (self o : Vec S) (extra : List S) (hne : o.ty.dim ≠ self.ty.dim) :
    binary ev K b self o extra = .error .typeError := by
  each_mem hb <;> simp [binary, hne]

/-- compiled `equal`, `not_equal`, `isclose` refuse them too -/
theorem c07_numba_dim_mismatch (ev : Ev S B) (K : Consts S) (b : Bin)
    (hb : b = .equal ∨ b = .not_equal ∨ b = .isclose) (self o : Vec S) (extra : List S)
    (hne : o.ty.dim ≠ self.ty.dim) : nbBin ev K b self o extra = .error .typeError := by
  have hne' : self.ty.dim ≠ o.ty.dim := fun h => hne h.symm
  rcases hb with rfl | rfl | rfl <;> simp [nbBin, nbBinaryG, nbIsclose, Bin.nbGroup, hne, hne']

private theorem trunc_key (z : S) (v w : Vec S) (n : Nat) (hw : v.WF) (hn : n = 2 ∨ n = 3 ∨ n = 4) (hle : n ≤ v.ty.dim)
    (h : toDim z n v [] [] 0 = .ok w) :
    w.ty.dim = n ∧ w.ty.mom = v.ty.mom ∧ w.ty.be = v.ty.be ∧ w.WF ∧
      ∀ g, g + 1 ≤ n → operandKey w g = operandKey v g := by
  obtain ⟨⟨be, mom, az, lon, tmp⟩, c⟩ := v
  obtain ⟨h1, h2⟩ := hw
  simp only [VT.dim] at h2 hle h1
  rcases hn with rfl | rfl | rfl <;> cases lon <;> cases tmp <;> simp at h1 h2 hle <;>
    simp [toDim, VT.dim] at h <;> subst h <;>
    (refine ⟨by simp [VT.dim], rfl, rfl, ?_, ?_⟩) <;>
    (rcases c with _ | ⟨x0, _ | ⟨x1, _ | ⟨x2, _ | ⟨x3, _ | ⟨x4, c⟩⟩⟩⟩⟩ <;> simp at h2) <;>
    (first
      | (simp [Vec.WF, VT.dim, Vec.azEl, Vec.lonEl, Vec.tmpEl]; done)
      | (intro g hg
         have : g = 0 ∨ g = 1 ∨ g = 2 ∨ g = 3 := by omega
         rcases this with rfl | rfl | rfl | rfl <;>
           simp_all [operandKey, Vec.azEl, Vec.lonEl, Vec.tmpEl]))

/-- `to_Vector<n>D()` to a lower or equal dimension of a well-formed vector: dimension `n`, same flavor and backend,
and the first `n - 1` coordinate groups (type and values) are those of the original -/
theorem c07_to_Vector_trunc (z : S) (v w : Vec S) (n : Nat) (hw : v.WF) (hn : n = 2 ∨ n = 3 ∨ n = 4)
    (hle : n ≤ v.ty.dim) (h : nbToVector z n v = .ok w) :
    w.ty.dim = n ∧ w.ty.mom = v.ty.mom ∧ w.ty.be = v.ty.be ∧ w.WF ∧
      ∀ g, g + 1 ≤ n → operandKey w g = operandKey v g :=
  trunc_key z v w n hw hn hle h

private theorem nbLookup_congr (ev : Ev S B) (m : ModuleId) (sc : List S) (ord : Option Ord) (a a' b b' : Vec S)
    (k1 k2 : Nat) (h1 : operandKey a' k1 = operandKey a k1) (h2 : operandKey b' k2 = operandKey b k2) :
    nbLookup ev m sc ord [(a', k1), (b', k2)] = nbLookup ev m sc ord [(a, k1), (b, k2)] := by
  unfold nbLookup
  simp only [List.mapM_cons, List.mapM_nil, h1, h2]

private theorem nbVecRes_nopass (v v' : Vec S) (mom : Bool) (k : Nat) (out : Out S B) (ret : Ret) :
    nbVecRes v mom k false out ret = nbVecRes v' mom k false out ret := by
  unfold nbVecRes
  split
  · unfold nbWrap; split <;> rfl
  · rfl

/-- compiled `add`, `subtract`, `dot` on operands of ANY two dimensions: the result is the one the compiled code gives
on both operands projected to the lower dimension with `to_Vector<min>D()` -/
theorem c07_min_dim (ev : Ev S B) (K : Consts S) (b : Bin) (hb : b = .add ∨ b = .subtract ∨ b = .dot)
    (self o s' o' : Vec S) (extra : List S) (hw1 : self.WF) (hw2 : o.WF)
    (h1 : nbToVector K.zeroF (min self.ty.dim o.ty.dim) self = .ok s')
    (h2 : nbToVector K.zeroF (min self.ty.dim o.ty.dim) o = .ok o') :
    nbBin ev K b self o extra = nbBin ev K b s' o' extra := by
  have hn : min self.ty.dim o.ty.dim = 2 ∨ min self.ty.dim o.ty.dim = 3 ∨ min self.ty.dim o.ty.dim = 4 := by
    rcases c05_dim_range self.ty with a | a | a <;> rcases c05_dim_range o.ty with c | c | c <;> rw [a, c] <;> simp
  obtain ⟨d1, m1, _, _, k1⟩ := trunc_key K.zeroF self s' _ hw1 hn (Nat.min_le_left _ _) h1
  obtain ⟨d2, m2, _, _, k2⟩ := trunc_key K.zeroF o o' _ hw2 hn (Nat.min_le_right _ _) h2
  have e1 := k1 (min self.ty.dim o.ty.dim - 1) (by omega)
  have e2 := k2 (min self.ty.dim o.ty.dim - 1) (by omega)
  have e3 : ∀ mom k out ret, nbVecRes (B := B) s' mom k false out ret = nbVecRes self mom k false out ret :=
    fun _ _ _ _ => nbVecRes_nopass _ _ _ _ _ _
  have hg : (b == .equal || b == .not_equal) = false := by rcases hb with rfl | rfl | rfl <;> decide
  rcases hb with rfl | rfl | rfl <;>
    simp only [nbBin, nbBinaryG, nbLookup, List.mapM_cons, List.mapM_nil, e1, e2, e3, d1, d2, m1, m2, Nat.min_self,
      nbFlavor, Bin.nbGroup, hg, Bool.false_and, Bool.false_eq_true, if_false]

/-- … hence, for `add` / `subtract` of operands of different dimension: the interpreter raises `TypeError`; the compiled
code returns what the INTERPRETER returns on the projected operands, with flavor `self.mom && o.mom` -/
theorem c07_min_dim_addsub (ev : Ev S B) (hev : EvTables ev) (K : Consts S) (b : Bin) (hb : b = .add ∨ b = .subtract)
    (self o s' o' : Vec S) (r : Res S B) (hw1 : self.WF) (hw2 : o.WF) (hs : self.ty.be = .obj) (ho : o.ty.be = .obj)
    (hne : o.ty.dim ≠ self.ty.dim)
    (h1 : nbToVector K.zeroF (min self.ty.dim o.ty.dim) self = .ok s')
    (h2 : nbToVector K.zeroF (min self.ty.dim o.ty.dim) o = .ok o')
    (h : binary ev K b s' o' [] = .ok r) :
    binary ev K b self o [] = .error .typeError ∧
    ∃ rv, r = .vec rv ∧ rv.ty.dim = min self.ty.dim o.ty.dim ∧
      nbBin ev K b self o [] = .ok (.vec (rv.withMom (self.ty.mom && o.ty.mom))) := by
  have hn : min self.ty.dim o.ty.dim = 2 ∨ min self.ty.dim o.ty.dim = 3 ∨ min self.ty.dim o.ty.dim = 4 := by
    rcases c05_dim_range self.ty with a | a | a <;> rcases c05_dim_range o.ty with c | c | c <;> rw [a, c] <;> simp
  obtain ⟨d1, m1, b1, _, _⟩ := trunc_key K.zeroF self s' _ hw1 hn (Nat.min_le_left _ _) h1
  obtain ⟨d2, m2, b2, _, _⟩ := trunc_key K.zeroF o o' _ hw2 hn (Nat.min_le_right _ _) h2
  refine ⟨c07_interp_dim_mismatch ev K b (by rcases hb with rfl | rfl <;> simp) self o [] hne, ?_⟩
  obtain ⟨rv, hr, hm, hnb⟩ := c07_addsub ev hev K b hb s' o' [] r (by rw [b1, hs]) (by rw [b2, ho]) h
  refine ⟨rv, hr, ?_, ?_⟩
  · subst hr
    have := c05_binary_dim ev hev K b s' o' rv [] h
    rw [this, d1]
    rcases hb with rfl | rfl <;> simp
  · rw [c07_min_dim ev K b (by rcases hb with rfl | rfl <;> simp) self o s' o' [] hw1 hw2 h1 h2, hnb, m1, m2]

/-- … and for `dot`: `TypeError` in the interpreter, the interpreter's value on the projected operands in compiled code -/
theorem c07_min_dim_dot (ev : Ev S B) (hev : EvTables ev) (K : Consts S)
    (self o s' o' : Vec S) (r : Res S B) (hw1 : self.WF) (hw2 : o.WF) (hne : o.ty.dim ≠ self.ty.dim)
    (h1 : nbToVector K.zeroF (min self.ty.dim o.ty.dim) self = .ok s')
    (h2 : nbToVector K.zeroF (min self.ty.dim o.ty.dim) o = .ok o')
    (h : binary ev K .dot s' o' [] = .ok r) :
    binary ev K .dot self o [] = .error .typeError ∧ nbBin ev K .dot self o [] = .ok r := by
  refine ⟨c07_interp_dim_mismatch ev K .dot (by simp) self o [] hne, ?_⟩
  rw [c07_min_dim ev K .dot (Or.inr (Or.inr rfl)) self o s' o' [] hw1 hw2 h1 h2]
  exact c07_bin_sameDim_scalar ev hev K .dot (Or.inl rfl) s' o' [] r h

/-- compiled `is_parallel` / `is_antiparallel` / `is_perpendicular` with a 2D `self` and a 3D or 4D operand: the
implementation is `self.to_Vector3D().is_parallel(o, tolerance)` WHATEVER the method — so `is_antiparallel` and
`is_perpendicular` answer the question "is parallel?" (the interpreter raises `TypeError`) -/
theorem c07_tol_mixed2D_left (ev : Ev S B) (K : Consts S) (b : Bin)
    (hb : b = .is_parallel ∨ b = .is_antiparallel ∨ b = .is_perpendicular) (self o : Vec S) (extra : List S)
    (hd : self.ty.dim = 2) (ho : o.ty.dim ≠ 2) :
    nbBin ev K b self o extra = nbBin ev K .is_parallel self o extra := by
  rcases hb with rfl | rfl | rfl <;> simp [nbBin, nbTol, hd, ho]

/-- … and the same with a 3D or 4D `self` and a 2D operand: `self.is_parallel(o.to_Vector3D(), tolerance)` -/
theorem c07_tol_mixed2D_right (ev : Ev S B) (K : Consts S) (b : Bin)
    (hb : b = .is_parallel ∨ b = .is_antiparallel ∨ b = .is_perpendicular) (self o : Vec S) (extra : List S)
    (hd : self.ty.dim ≠ 2) (ho : o.ty.dim = 2) :
    nbBin ev K b self o extra = nbBin ev K .is_parallel self o extra := by
  rcases hb with rfl | rfl | rfl <;> simp [nbBin, nbTol, hd, ho]

/-- what the mixed 2D case computes: `is_parallel` of the lifted vector in the spatial group -/
theorem c07_tol_mixed2D_lift (ev : Ev S B) (K : Consts S) (b : Bin)
    (hb : b = .is_parallel ∨ b = .is_antiparallel ∨ b = .is_perpendicular) (self o w : Vec S) (t : S)
    (hd : self.ty.dim = 2) (ho : o.ty.dim ≠ 2) (hw : nbToVector K.zeroF 3 self = .ok w) :
    w.ty.dim = 3 ∧ nbBin ev K b self o [t] = nbBin ev K .is_parallel w o [t] := by
  have hw3 : w.ty.dim = 3 := by
    obtain ⟨⟨be, mom, az, lon, tmp⟩, c⟩ := self
    cases lon <;> cases tmp <;> simp [VT.dim] at hd
    simp [nbToVector, toDim, VT.dim] at hw
    subst hw
    simp [VT.dim]
  refine ⟨hw3, ?_⟩
  rw [c07_tol_mixed2D_left ev K b hb self o [t] hd ho]
  simp [nbBin, nbTol, hd, ho, hw, hw3]

/-- compiled tolerance methods on a 3D and a 4D operand (either order): computed in the spatial group on the azimuthal
and longitudinal coordinates of both, i.e. on the `to_Vector3D()` projections (the interpreter raises `TypeError`) -/
theorem c07_tol_mixed34 (ev : Ev S B) (K : Consts S) (b : Bin)
    (hb : b = .is_parallel ∨ b = .is_antiparallel ∨ b = .is_perpendicular) (self o s' o' : Vec S) (extra : List S)
    (hw1 : self.WF) (hw2 : o.WF) (hd1 : 3 ≤ self.ty.dim) (hd2 : 3 ≤ o.ty.dim)
    (h1 : nbToVector K.zeroF 3 self = .ok s') (h2 : nbToVector K.zeroF 3 o = .ok o') :
    nbBin ev K b self o extra = nbBin ev K b s' o' extra := by
  obtain ⟨d1, _, _, _, k1⟩ := trunc_key K.zeroF self s' 3 hw1 (Or.inr (Or.inl rfl)) hd1 h1
  obtain ⟨d2, _, _, _, k2⟩ := trunc_key K.zeroF o o' 3 hw2 (Or.inr (Or.inl rfl)) hd2 h2
  have e1 := k1 2 (by omega)
  have e2 := k2 2 (by omega)
  have n1 : (self.ty.dim == 2) = false := by simp; omega
  have n2 : (o.ty.dim == 2) = false := by simp; omega
  rcases hb with rfl | rfl | rfl <;>
    simp only [nbBin, nbTol, nbTolCore, nbLookup, List.mapM_cons, List.mapM_nil, e1, e2, d1, d2, n1, n2, Nat.reduceBEq,
      Bool.false_and, Bool.and_false, Bool.false_eq_true, if_false, bne, Bool.not_false, Bool.and_true]

/-- compiled `cross` accepts 4D operands: it is the `cross` of the `to_Vector3D()` projections (the interpreter raises
`TypeError` unless both are 3D) -/
theorem c07_cross_4D (ev : Ev S B) (K : Consts S) (self o s' o' : Vec S) (extra : List S)
    (hw1 : self.WF) (hw2 : o.WF) (hd1 : 3 ≤ self.ty.dim) (hd2 : 3 ≤ o.ty.dim)
    (h1 : nbToVector K.zeroF 3 self = .ok s') (h2 : nbToVector K.zeroF 3 o = .ok o') :
    nbBin ev K .cross self o extra = nbBin ev K .cross s' o' extra ∧
    (self.ty.dim = 4 ∨ o.ty.dim = 4 → binary ev K .cross self o extra = .error .typeError) := by
  obtain ⟨d1, _, _, _, _⟩ := trunc_key K.zeroF self s' 3 hw1 (Or.inr (Or.inl rfl)) hd1 h1
  obtain ⟨d2, _, _, _, _⟩ := trunc_key K.zeroF o o' 3 hw2 (Or.inr (Or.inl rfl)) hd2 h2
  have n1 : ¬ self.ty.dim < 3 := by omega
  have n2 : ¬ o.ty.dim < 3 := by omega
  refine ⟨?_, ?_⟩
  · simp only [nbBin, nbCross, h1, h2, d1, d2, n1, n2, decide_false, Bool.or_self, Bool.false_eq_true, if_false,
      nbToVector, toDim_same _ _ _ d1, toDim_same _ _ _ d2, Nat.lt_irrefl]
    simp only [nbToVector] at h1 h2
    simp only [h1, h2]
  · intro h4
    simp only [binary, n1, if_false]
    rcases h4 with h4 | h4 <;> simp [h4]

/-- compiled `boost_beta3` accepts a 4D "beta3" and uses its azimuthal and longitudinal coordinates, i.e. its
`to_Vector3D()` projection (the interpreter raises `TypeError`) -/
theorem c07_boost_beta3_4D (ev : Ev S B) (K : Consts S) (self o o' : Vec S) (extra : List S) (hw2 : o.WF)
    (hd : self.ty.dim = 4) (hd2 : o.ty.dim = 4) (h2 : nbToVector K.zeroF 3 o = .ok o') :
    nbBin ev K .boost_beta3 self o extra = nbBin ev K .boost_beta3 self o' extra ∧
    binary ev K .boost_beta3 self o extra = .error .typeError := by
  obtain ⟨d2, _, _, _, k2⟩ := trunc_key K.zeroF o o' 3 hw2 (Or.inr (Or.inl rfl)) (by omega) h2
  have e2 := k2 2 (by omega)
  refine ⟨?_, ?_⟩
  · simp only [nbBin, nbBoostBeta3, nbLookup, List.mapM_cons, List.mapM_nil, e2]
  · simp [binary, hd, hd2]

/-- compiled `rotate_axis` accepts a 4D axis and uses its `to_Vector3D()` projection (the interpreter raises
`TypeError`) -/
theorem c07_rotate_axis_4D (ev : Ev S B) (K : Consts S) (A : Arith S) (self axis axis' : Vec S) (a : S)
    (hw : axis.WF) (hd : 3 ≤ self.ty.dim) (hd2 : axis.ty.dim = 4) (h2 : nbToVector K.zeroF 3 axis = .ok axis') :
    nbRotateAxis ev self axis a = nbRotateAxis ev self axis' a ∧
    call ev K A "rotate_axis" self [.v axis, .sc a] = .error .typeError := by
  obtain ⟨d2, _, _, _, k2⟩ := trunc_key K.zeroF axis axis' 3 hw (Or.inr (Or.inl rfl)) (by omega) h2
  have e2 := k2 2 (by omega)
  refine ⟨?_, ?_⟩
  · simp only [nbRotateAxis, nbLookup, List.mapM_cons, List.mapM_nil, e2]
  · rw [c05_call_rotate_axis]
    have : ¬ self.ty.dim < 3 := by omega
    simp [this, hd2]

/-! ### 10. (b) DIFFERENCES — names, argument forms, error kinds -/

/-- names the interpreter defines (on momentum vectors: the eight short momentum spellings; on all vectors: `to_2D`,
`to_3D`, `to_4D`, the 20 momentum-spelled coordinate changes; and `like`) that have NO numba overload -/
def c07_unsupported : List String :=
  ["e", "e2", "m", "m2", "et", "et2", "mt", "mt2", "to_2D", "to_3D", "to_4D", "to_pxpy", "to_ptphi", "to_pxpypz", "to_pxpytheta", "to_pxpyeta", "to_ptphipz", "to_ptphitheta", "to_ptphieta", "to_pxpypzenergy", "to_pxpypzmass", "to_pxpythetaenergy", "to_pxpythetamass", "to_pxpyetaenergy", "to_pxpyetamass", "to_ptphipzenergy", "to_ptphipzmass", "to_ptphithetaenergy", "to_ptphithetamass", "to_ptphietaenergy", "to_ptphietamass"]

theorem c07_unsupported_disjoint : ∀ n ∈ c07_unsupported, nbSupported.contains n = false := by decide

/-- reading / calling one of them in compiled code does not compile -/
theorem c07_unsupported_unmodelled (ev : Ev S B) (K : Consts S) (A : Arith S) (self : Vec S) (n : String)
    (hn : n ∈ c07_unsupported) : numbaCall ev K A n self [] = .error .unmodelled := by
  unfold c07_unsupported at hn
  each_mem hn
  all_goals
    (refine Eq.trans (b := if nbGuard self [] = true then .error .unmodelled else .error .unmodelled) rfl ?_
     split <;> rfl)

theorem c07_like_unmodelled (ev : Ev S B) (K : Consts S) (A : Arith S) (self o : Vec S) :
    numbaCall ev K A "like" self [.v o] = .error .unmodelled := by
  refine Eq.trans (b := if nbGuard self [.v o] = true then .error .unmodelled else .error .unmodelled) rfl ?_
  split <;> rfl

/-- the coordinate changes and `to_Vector*D` take NO keyword argument in compiled code (the interpreter accepts the
value of an imputed coordinate, e.g. `v2.to_xyz(z=3)`, `v2.to_Vector3D(z=3)`) -/
theorem c07_conversion_kw (ev : Ev S B) (K : Consts S) (A : Arith S) (self : Vec S) (hbe : self.ty.be = .obj)
    (k : String) (a : S) :
    numbaCall ev K A "to_xyz" self [.kw k a] = .error .typeError ∧
    numbaCall ev K A "to_Vector3D" self [.kw k a] = .error .typeError ∧
    numbaCall ev K A "to_Vector4D" self [.kw k a] = .error .typeError := by
  have hg : nbGuard self [.kw k a] = false := by simp [nbGuard, hbe, Arg.isObj]
  refine ⟨?_, ?_, ?_⟩ <;>
  · refine Eq.trans (b := if nbGuard self [.kw k a] = true then .error .unmodelled else .error .typeError) rfl ?_
    rw [hg]; rfl

/-- `rotate_euler`: the interpreter lower-cases the order string, the compiled code looks the string up literally — an
order the interpreter accepts only after lower-casing (e.g. `"ZXZ"`) does not compile -/
theorem c07_rotate_euler_case (ev : Ev S B) (K : Consts S) (A : Arith S) (self : Vec S) (p t q : S) (s : String)
    (o : Ord) (hbe : self.ty.be = .obj) (hd : 3 ≤ self.ty.dim) (ho : ordOf s = some o) (hnb : nbOrdOf s = none) :
    call ev K A "rotate_euler" self [.sc p, .sc t, .sc q, .str s] =
      dispatch ev .spatial_rotate_euler [p, t, q] (some o) [self] [self] ∧
    numbaCall ev K A "rotate_euler" self [.sc p, .sc t, .sc q, .str s] = .error .typeError := by
  have e1 : call ev K A "rotate_euler" self [.sc p, .sc t, .sc q, .str s] =
      if self.ty.dim < 3 then .error .attributeError else
        match ordOf s with
        | some o => callU ev self .spatial_rotate_euler 3 [p, t, q] (some o)
        | none => .error .typeError := rfl
  have e2 : numbaCall ev K A "rotate_euler" self [.sc p, .sc t, .sc q, .str s] =
      if nbGuard self [.sc p, .sc t, .sc q, .str s] = true then .error .unmodelled else
      if self.ty.dim < 3 then .error .typeError else
        match nbOrdOf s with
        | some o => nbU ev self .spatial_rotate_euler 2 [p, t, q] (some o)
        | none => .error .typeError := rfl
  have hg : nbGuard self [.sc p, .sc t, .sc q, .str s] = false := by simp [nbGuard, hbe, Arg.isObj]
  have hd' : ¬ self.ty.dim < 3 := by omega
  refine ⟨?_, ?_⟩
  · rw [e1, ho]; simp [hd', callU]
  · rw [e2, hg, hnb]; simp [hd']

theorem c07_nbOrdOf_upper : nbOrdOf "ZXZ" = none ∧ nbOrdOf "ZYX" = none ∧ nbOrdOf "Zxz" = none := by decide

/-- error kinds: a property / method the vector's class does not have is an `AttributeError` in the interpreter and a
compile-time error (`.typeError` here) in compiled code, e.g. `z` on a 2D vector -/
theorem c07_missing_attr (ev : Ev S B) (a : Acc) (v : Vec S) (h : v.ty.dim < a.need) :
    getAcc ev a v = .error .attributeError ∧ nbProp ev a v = .error .typeError := by
  simp [getAcc, nbProp, h]

end

/-! ### 11. the generated executable compute layer satisfies the assumption; the main theorems for it -/

section Exec
open VE
variable {S : Type} [Scalar S]

/-- the compute layer the drivers use: the generated executable model at an arbitrary scalar type -/
abbrev evX : Ev S (VE.B S) := fun m k a => Compute.eval (S := S) m k a

theorem c07_exec_evTables : EvTables (evX (S := S)) := c05_exec_evTables

theorem c07_exec_acc_agree (K : Consts S) (A : Arith S) (self : Vec S) (r : Res S (VE.B S)) (hbe : self.ty.be = .obj)
    (p : String × Acc) (hp : p ∈ c07_accNames ++ c07_momNames) (h : call evX K A p.1 self [] = .ok r) :
    numbaCall evX K A p.1 self [] = .ok r := by
  rcases List.mem_append.mp hp with hp | hp
  · exact c07_acc_agree evX c07_exec_evTables K A self r hbe p hp h
  · exact c07_mom_agree evX c07_exec_evTables K A self r hbe p hp h

theorem c07_exec_selfMethods_agree (K : Consts S) (A : Arith S) (self : Vec S) (a b c d : S) (r : Res S (VE.B S))
    (hbe : self.ty.be = .obj) (e : String × List (Arg S) × ModuleId × Nat × List S × Option Ord)
    (he : e ∈ c07_selfMethods K a b c d) (h : call evX K A e.1 self e.2.1 = .ok r) :
    numbaCall evX K A e.1 self e.2.1 = .ok r :=
  c07_selfMethods_agree evX c07_exec_evTables K A self a b c d r hbe e he h

theorem c07_exec_to_agree (K : Consts S) (A : Arith S) (self : Vec S) (r : Res S (VE.B S)) (hbe : self.ty.be = .obj)
    (e : String × Az × Option Lon × Option Tmp) (he : e ∈ nbToTable) (h : call evX K A e.1 self [] = .ok r) :
    numbaCall evX K A e.1 self [] = .ok r :=
  c07_to_agree evX c07_exec_evTables K A self r hbe e he h

theorem c07_exec_binNames_agree (K : Consts S) (A : Arith S) (self o : Vec S) (r : Res S (VE.B S))
    (hs : self.ty.be = .obj) (ho : o.ty.be = .obj) (hm : self.ty.mom = o.ty.mom) (p : String × Bin)
    (hp : p ∈ c07_binNames) (h : call evX K A p.1 self [.v o] = .ok r) :
    numbaCall evX K A p.1 self [.v o] = .ok r :=
  c07_binNames_agree evX c07_exec_evTables K A self o r hs ho hm p hp h

theorem c07_exec_mixed_flavor (K : Consts S) (b : Bin) (hb : b = .add ∨ b = .subtract ∨ b = .cross) (self o rv : Vec S)
    (hs : self.ty.be = .obj) (ho : o.ty.be = .obj) (hm : self.ty.mom ≠ o.ty.mom)
    (h : binary evX K b self o [] = .ok (.vec rv)) :
    rv.ty.mom = true ∧ nbBin evX K b self o [] = .ok (.vec (rv.withMom false)) :=
  c07_mixed_flavor evX c07_exec_evTables K b hb self o [] rv hs ho hm h

theorem c07_exec_min_dim_addsub (K : Consts S) (b : Bin) (hb : b = .add ∨ b = .subtract) (self o s' o' : Vec S)
    (r : Res S (VE.B S)) (hw1 : self.WF) (hw2 : o.WF) (hs : self.ty.be = .obj) (ho : o.ty.be = .obj)
    (hne : o.ty.dim ≠ self.ty.dim)
    (h1 : nbToVector K.zeroF (min self.ty.dim o.ty.dim) self = .ok s')
    (h2 : nbToVector K.zeroF (min self.ty.dim o.ty.dim) o = .ok o') (h : binary evX K b s' o' [] = .ok r) :
    binary evX K b self o [] = .error .typeError ∧
    ∃ rv, r = .vec rv ∧ rv.ty.dim = min self.ty.dim o.ty.dim ∧
      nbBin evX K b self o [] = .ok (.vec (rv.withMom (self.ty.mom && o.ty.mom))) :=
  c07_min_dim_addsub evX c07_exec_evTables K b hb self o s' o' r hw1 hw2 hs ho hne h1 h2 h

end Exec

/-! ### 12. concrete examples (generated executable model at the symbolic scalar type) -/

section Examples
open VE

private def K0 : Consts Sym :=
  ⟨.app "neg" [.nat 1], .sci 0 false 0, .nat 0, .sci 1 true 5, .sci 1 true 5, .sci 1 true 8, .app "bFalse" []⟩
private def A0 : Arith Sym := ⟨fun f => .app "div" [.nat 1, f], fun a b => .app "pow" [a, b], .sci 25 true 2,
  .sci 16666666666666666 true 17, fun _ => false⟩
private def ev0 : Ev Sym Sym := evX

/-- type of a vector result / kind of error / success -/
private def tyOf : Except Err (Res Sym Sym) → Option VT
  | .ok (.vec v) => some v.ty
  | _ => none
private def errOf : Except Err (Res Sym Sym) → Option Err
  | .error e => some e
  | _ => none
private def isOk : Except Err (Res Sym Sym) → Bool
  | .ok _ => true
  | _ => false

private def vx (i : String) : List Sym := [.var ("x" ++ i), .var ("y" ++ i), .var ("z" ++ i), .var ("t" ++ i)]
private def g2 : Vec Sym := ⟨{ mom := false, az := .xy, lon := none, tmp := none }, (vx "1").take 2⟩
private def g3 : Vec Sym := ⟨{ mom := false, az := .xy, lon := some .z, tmp := none }, (vx "1").take 3⟩
private def g4 : Vec Sym := ⟨{ mom := false, az := .xy, lon := some .z, tmp := some .t }, vx "1"⟩
private def m2 : Vec Sym := ⟨{ mom := true, az := .xy, lon := none, tmp := none }, (vx "2").take 2⟩
private def m3 : Vec Sym := ⟨{ mom := true, az := .xy, lon := some .z, tmp := none }, (vx "2").take 3⟩
private def m4 : Vec Sym := ⟨{ mom := true, az := .xy, lon := some .z, tmp := some .t }, vx "2"⟩
private def g3' : Vec Sym := ⟨{ mom := false, az := .xy, lon := some .z, tmp := none }, (vx "2").take 3⟩
private def G3 : VT := { mom := false, az := .xy, lon := some .z, tmp := none }
private def M3 : VT := { mom := true, az := .xy, lon := some .z, tmp := none }
private def G2 : VT := { mom := false, az := .xy, lon := none, tmp := none }
private def G4 : VT := { mom := false, az := .xy, lon := some .z, tmp := some .t }
private def M4 : VT := { mom := true, az := .xy, lon := some .z, tmp := some .t }

-- agreement (same flavor): same class, flavor, dimension, coordinate system
example : tyOf (numbaCall ev0 K0 A0 "add" m3 [.v m3]) = some M3 ∧ tyOf (call ev0 K0 A0 "add" m3 [.v m3]) = some M3 := by
  decide
example : tyOf (numbaCall ev0 K0 A0 "rotateX" m4 [.sc (.var "a")]) = some M4 ∧
    tyOf (call ev0 K0 A0 "rotateX" m4 [.sc (.var "a")]) = some M4 := by decide
-- mixed flavors: same coordinates, `mom := false` in compiled code (in both operand orders)
example : tyOf (numbaCall ev0 K0 A0 "add" g3 [.v m3]) = some G3 ∧ tyOf (call ev0 K0 A0 "add" g3 [.v m3]) = some M3 := by
  decide
example : tyOf (numbaCall ev0 K0 A0 "subtract" m3 [.v g3]) = some G3 ∧
    tyOf (call ev0 K0 A0 "subtract" m3 [.v g3]) = some M3 := by decide
example : tyOf (numbaCall ev0 K0 A0 "cross" g3 [.v m3]) = some G3 ∧ tyOf (call ev0 K0 A0 "cross" g3 [.v m3]) = some M3 := by
  decide
-- boosts: the compiled result has the class of `self` alone
example : tyOf (numbaCall ev0 K0 A0 "boost_p4" g4 [.v m4]) = some G4 ∧
    tyOf (call ev0 K0 A0 "boost_p4" g4 [.v m4]) = some M4 := by decide
example : tyOf (numbaCall ev0 K0 A0 "boost" m4 [.v g3]) = some M4 ∧ tyOf (call ev0 K0 A0 "boost" m4 [.v g3]) = some M4 := by
  decide
-- different dimensions: interpreter `TypeError`, compiled code computes in the lower dimension
example : errOf (call ev0 K0 A0 "add" g4 [.v g3']) = some .typeError ∧
    tyOf (numbaCall ev0 K0 A0 "add" g4 [.v g3']) = some G3 := by decide
example : errOf (call ev0 K0 A0 "add" g2 [.v m4]) = some .typeError ∧
    tyOf (numbaCall ev0 K0 A0 "add" g2 [.v m4]) = some G2 := by decide
example : errOf (call ev0 K0 A0 "dot" g4 [.v m3]) = some .typeError ∧ isOk (numbaCall ev0 K0 A0 "dot" g4 [.v m3]) = true := by
  decide
-- … except `equal`, `not_equal`, `isclose`, which raise in both
example : errOf (call ev0 K0 A0 "equal" g4 [.v g3']) = some .typeError ∧
    errOf (numbaCall ev0 K0 A0 "equal" g4 [.v g3']) = some .typeError := by decide
-- tolerance methods with one 2D operand: `is_antiparallel` compiles to `is_parallel` of the lifted vector
example : errOf (call ev0 K0 A0 "is_antiparallel" g2 [.v g3']) = some .typeError ∧
    isOk (numbaCall ev0 K0 A0 "is_antiparallel" g2 [.v g3']) = true := by decide
-- `cross`, `boost_beta3`, `rotate_axis` accept a 4D second operand in compiled code
example : errOf (call ev0 K0 A0 "cross" g3 [.v m4]) = some .typeError ∧
    tyOf (numbaCall ev0 K0 A0 "cross" g3 [.v m4]) = some G3 := by decide
example : errOf (call ev0 K0 A0 "boost_beta3" g4 [.v m4]) = some .typeError ∧
    tyOf (numbaCall ev0 K0 A0 "boost_beta3" g4 [.v m4]) = some G4 := by decide
example : errOf (call ev0 K0 A0 "rotate_axis" g3 [.v m4, .sc (.var "a")]) = some .typeError ∧
    tyOf (numbaCall ev0 K0 A0 "rotate_axis" g3 [.v m4, .sc (.var "a")]) = some G3 := by decide
-- names without an overload, keyword arguments
example : isOk (call ev0 K0 A0 "e" m4 []) = true ∧ errOf (numbaCall ev0 K0 A0 "e" m4 []) = some .unmodelled := by decide
example : isOk (call ev0 K0 A0 "to_3D" g2 []) = true ∧ errOf (numbaCall ev0 K0 A0 "to_3D" g2 []) = some .unmodelled := by
  decide
example : isOk (call ev0 K0 A0 "to_xyz" g2 [.kw "z" (.var "a")]) = true ∧
    errOf (numbaCall ev0 K0 A0 "to_xyz" g2 [.kw "z" (.var "a")]) = some .typeError := by decide
-- the hypotheses of the theorems are satisfiable
example : g4.WF ∧ g3'.WF ∧ g4.ty.be = .obj ∧ g3'.ty.dim ≠ g4.ty.dim ∧ g3.ty.mom ≠ m3.ty.mom := by
  refine ⟨⟨by decide, by decide⟩, ⟨by decide, by decide⟩, rfl, by decide, by decide⟩

end Examples

end VG
