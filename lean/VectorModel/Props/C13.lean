/-
C13 — ranges, sign conventions and classification predicates are as documented.
Theorems about the *generated* real-number model of the compute modules
`planar.{phi,deltaphi,rho,rho2,is_parallel,is_antiparallel,is_perpendicular}`,
`spatial.{theta,costheta,cottheta,mag,mag2,deltaangle,is_parallel,is_antiparallel,is_perpendicular}`,
`lorentz.{t,t2,tau,tau2,beta,gamma,is_timelike,is_lightlike,is_spacelike}`.
-/
import VectorModel.Gen.Real.planar_phi
import VectorModel.Gen.Real.planar_deltaphi
import VectorModel.Gen.Real.planar_rho
import VectorModel.Gen.Real.planar_rho2
import VectorModel.Gen.Real.planar_dot
import VectorModel.Gen.Real.planar_is_parallel
import VectorModel.Gen.Real.planar_is_antiparallel
import VectorModel.Gen.Real.planar_is_perpendicular
import VectorModel.Gen.Real.spatial_costheta__spatial_theta
import VectorModel.Gen.Real.spatial_cottheta
import VectorModel.Gen.Real.spatial_mag
import VectorModel.Gen.Real.spatial_mag2
import VectorModel.Gen.Real.spatial_dot
import VectorModel.Gen.Real.spatial_deltaangle
import VectorModel.Gen.Real.spatial_is_parallel
import VectorModel.Gen.Real.spatial_is_antiparallel
import VectorModel.Gen.Real.spatial_is_perpendicular
import VectorModel.Gen.Real.lorentz_t
import VectorModel.Gen.Real.lorentz_t2
import VectorModel.Gen.Real.lorentz_tau
import VectorModel.Gen.Real.lorentz_tau2
import VectorModel.Gen.Real.lorentz_beta
import VectorModel.Gen.Real.lorentz_gamma
import VectorModel.Gen.Real.lorentz_dot
import VectorModel.Gen.Real.lorentz_is_timelike
import VectorModel.Gen.Real.lorentz_is_lightlike
import VectorModel.Gen.Real.lorentz_is_spacelike
import Mathlib.Tactic.Ring
import Mathlib.Tactic.Linarith
import Mathlib.Tactic.NormNum
import Mathlib.Tactic.Positivity
import Mathlib.Tactic.FieldSimp
import Mathlib.Tactic.Tauto
import Mathlib.Tactic.LinearCombination
import VectorModel.Lemmas.Prim

namespace VR
open VK

/-! ## 1. Causal classification: `is_timelike`, `is_lightlike`, `is_spacelike`

For every one of the 12 coordinate systems the three predicates are thresholds on the SAME number,
the Minkowski self-product `lorentz_dot.eval k k v v`. -/

theorem c13_is_timelike_iff_dot (k0 : Az) (k1 : Lon) (k2 : Tmp) (tol a1 a2 a3 a4 : ℝ) :
    lorentz_is_timelike.eval k0 k1 k2 tol a1 a2 a3 a4 ↔
      lorentz_dot.eval k0 k1 k2 k0 k1 k2 a1 a2 a3 a4 a1 a2 a3 a4 > |tol| := by
  induction k0 <;> induction k1 <;> induction k2 <;> exact Iff.rfl

theorem c13_is_lightlike_iff_dot (k0 : Az) (k1 : Lon) (k2 : Tmp) (tol a1 a2 a3 a4 : ℝ) :
    lorentz_is_lightlike.eval k0 k1 k2 tol a1 a2 a3 a4 ↔
      |lorentz_dot.eval k0 k1 k2 k0 k1 k2 a1 a2 a3 a4 a1 a2 a3 a4| < |tol| := by
  induction k0 <;> induction k1 <;> induction k2 <;> exact Iff.rfl

theorem c13_is_spacelike_iff_dot (k0 : Az) (k1 : Lon) (k2 : Tmp) (tol a1 a2 a3 a4 : ℝ) :
    lorentz_is_spacelike.eval k0 k1 k2 tol a1 a2 a3 a4 ↔
      lorentz_dot.eval k0 k1 k2 k0 k1 k2 a1 a2 a3 a4 a1 a2 a3 a4 < -|tol| := by
  induction k0 <;> induction k1 <;> induction k2 <;> exact Iff.rfl

/-- timelike and lightlike never hold together (any key, any tolerance, same tolerance). -/
theorem c13_not_timelike_and_lightlike (k0 : Az) (k1 : Lon) (k2 : Tmp) (tol a1 a2 a3 a4 : ℝ) :
    ¬ (lorentz_is_timelike.eval k0 k1 k2 tol a1 a2 a3 a4 ∧
        lorentz_is_lightlike.eval k0 k1 k2 tol a1 a2 a3 a4) := by
  rw [c13_is_timelike_iff_dot, c13_is_lightlike_iff_dot]
  rintro ⟨h1, h2⟩
  have := (abs_lt.mp h2).2
  linarith

/-- timelike and spacelike never hold together. -/
theorem c13_not_timelike_and_spacelike (k0 : Az) (k1 : Lon) (k2 : Tmp) (tol a1 a2 a3 a4 : ℝ) :
    ¬ (lorentz_is_timelike.eval k0 k1 k2 tol a1 a2 a3 a4 ∧
        lorentz_is_spacelike.eval k0 k1 k2 tol a1 a2 a3 a4) := by
  rw [c13_is_timelike_iff_dot, c13_is_spacelike_iff_dot]
  rintro ⟨h1, h2⟩
  have := abs_nonneg tol
  linarith

/-- lightlike and spacelike never hold together. -/
theorem c13_not_lightlike_and_spacelike (k0 : Az) (k1 : Lon) (k2 : Tmp) (tol a1 a2 a3 a4 : ℝ) :
    ¬ (lorentz_is_lightlike.eval k0 k1 k2 tol a1 a2 a3 a4 ∧
        lorentz_is_spacelike.eval k0 k1 k2 tol a1 a2 a3 a4) := by
  rw [c13_is_lightlike_iff_dot, c13_is_spacelike_iff_dot]
  rintro ⟨h1, h2⟩
  have := (abs_lt.mp h1).1
  linarith

/-- The three classes follow the sign of the self-product `s`: with `T = |tol|`,
`s > T` timelike, `s < -T` spacelike, `|s| < T` lightlike; the only vectors in no class are those
exactly on a threshold (`s = T` or `s = -T`). -/
theorem c13_causal_trichotomy (k0 : Az) (k1 : Lon) (k2 : Tmp) (tol a1 a2 a3 a4 : ℝ) :
    lorentz_is_timelike.eval k0 k1 k2 tol a1 a2 a3 a4 ∨
      lorentz_is_lightlike.eval k0 k1 k2 tol a1 a2 a3 a4 ∨
      lorentz_is_spacelike.eval k0 k1 k2 tol a1 a2 a3 a4 ∨
      lorentz_dot.eval k0 k1 k2 k0 k1 k2 a1 a2 a3 a4 a1 a2 a3 a4 = |tol| ∨
      lorentz_dot.eval k0 k1 k2 k0 k1 k2 a1 a2 a3 a4 a1 a2 a3 a4 = -|tol| := by
  rw [c13_is_timelike_iff_dot, c13_is_lightlike_iff_dot, c13_is_spacelike_iff_dot, abs_lt]
  rcases lt_trichotomy (lorentz_dot.eval k0 k1 k2 k0 k1 k2 a1 a2 a3 a4 a1 a2 a3 a4) |tol| with h | h | h
  · rcases lt_trichotomy (lorentz_dot.eval k0 k1 k2 k0 k1 k2 a1 a2 a3 a4 a1 a2 a3 a4) (-|tol|) with g | g | g
    · exact Or.inr (Or.inr (Or.inl g))
    · exact Or.inr (Or.inr (Or.inr (Or.inr g)))
    · exact Or.inr (Or.inl ⟨g, h⟩)
  · exact Or.inr (Or.inr (Or.inr (Or.inl h)))
  · exact Or.inl h

/-- Cartesian self-product: `t² - (x² + y² + z²)`. -/
theorem c13_lorentz_dot_self_cartesian (x y z t : ℝ) :
    lorentz_dot.eval .xy .z .t .xy .z .t x y z t x y z t = t ^ 2 - (x ^ 2 + y ^ 2 + z ^ 2) := by
  simp only [lorentz_dot.eval, lorentz_dot.k_xy_z_t_xy_z_t, lorentz_t.xy_z_t, spatial_dot.xy_z_xy_z]
  ring

theorem c13_is_timelike_cartesian (tol x y z t : ℝ) :
    lorentz_is_timelike.eval .xy .z .t tol x y z t ↔ t ^ 2 - (x ^ 2 + y ^ 2 + z ^ 2) > |tol| := by
  rw [c13_is_timelike_iff_dot, c13_lorentz_dot_self_cartesian]

theorem c13_is_spacelike_cartesian (tol x y z t : ℝ) :
    lorentz_is_spacelike.eval .xy .z .t tol x y z t ↔ t ^ 2 - (x ^ 2 + y ^ 2 + z ^ 2) < -|tol| := by
  rw [c13_is_spacelike_iff_dot, c13_lorentz_dot_self_cartesian]

theorem c13_is_lightlike_cartesian (tol x y z t : ℝ) :
    lorentz_is_lightlike.eval .xy .z .t tol x y z t ↔ |t ^ 2 - (x ^ 2 + y ^ 2 + z ^ 2)| < |tol| := by
  rw [c13_is_lightlike_iff_dot, c13_lorentz_dot_self_cartesian]

/-- every class is inhabited (tolerance 1/2): (0,0,0,1) timelike, (1,0,0,1) lightlike, (1,0,0,0) spacelike -/
example : lorentz_is_timelike.eval .xy .z .t (1/2) 0 0 0 1 ∧ lorentz_is_lightlike.eval .xy .z .t (1/2) 1 0 0 1 ∧
    lorentz_is_spacelike.eval .xy .z .t (1/2) 1 0 0 0 := by
  rw [c13_is_timelike_cartesian, c13_is_lightlike_cartesian, c13_is_spacelike_cartesian]
  norm_num [abs_of_pos]

/-! ## 2. Angle predicates `is_parallel`, `is_antiparallel`, `is_perpendicular`

### 2a. every key pair: the predicate is the documented threshold on `dot` against `|a|·|b|` -/

theorem c13_planar_is_perpendicular_iff (k0 k1 : Az) (tol a0 a1 b0 b1 : ℝ) :
    planar_is_perpendicular.eval k0 k1 tol a0 a1 b0 b1 ↔
      |planar_dot.eval k0 k1 a0 a1 b0 b1| < |tol| * planar_rho.eval k0 a0 a1 * planar_rho.eval k1 b0 b1 := by
  cases k0 <;> cases k1 <;> exact Iff.rfl

theorem c13_planar_is_parallel_iff (k0 k1 : Az) (tol a0 a1 b0 b1 : ℝ) :
    planar_is_parallel.eval k0 k1 tol a0 a1 b0 b1 ↔
      planar_dot.eval k0 k1 a0 a1 b0 b1 > (1 - |tol|) * planar_rho.eval k0 a0 a1 * planar_rho.eval k1 b0 b1 := by
  cases k0 <;> cases k1 <;> exact Iff.rfl

theorem c13_planar_is_antiparallel_iff (k0 k1 : Az) (tol a0 a1 b0 b1 : ℝ) :
    planar_is_antiparallel.eval k0 k1 tol a0 a1 b0 b1 ↔
      planar_dot.eval k0 k1 a0 a1 b0 b1 < (|tol| - 1) * planar_rho.eval k0 a0 a1 * planar_rho.eval k1 b0 b1 := by
  cases k0 <;> cases k1 <;> exact Iff.rfl

theorem c13_spatial_is_perpendicular_iff (k0 : Az) (k1 : Lon) (k2 : Az) (k3 : Lon) (tol a0 a1 a2 b0 b1 b2 : ℝ) :
    spatial_is_perpendicular.eval k0 k1 k2 k3 tol a0 a1 a2 b0 b1 b2 ↔
      |spatial_dot.eval k0 k1 k2 k3 a0 a1 a2 b0 b1 b2| <
        |tol| * spatial_mag.eval k0 k1 a0 a1 a2 * spatial_mag.eval k2 k3 b0 b1 b2 := by
  cases k0 <;> cases k1 <;> cases k2 <;> cases k3 <;> exact Iff.rfl

theorem c13_spatial_is_parallel_iff (k0 : Az) (k1 : Lon) (k2 : Az) (k3 : Lon) (tol a0 a1 a2 b0 b1 b2 : ℝ) :
    spatial_is_parallel.eval k0 k1 k2 k3 tol a0 a1 a2 b0 b1 b2 ↔
      spatial_dot.eval k0 k1 k2 k3 a0 a1 a2 b0 b1 b2 >
        (1 - |tol|) * spatial_mag.eval k0 k1 a0 a1 a2 * spatial_mag.eval k2 k3 b0 b1 b2 := by
  cases k0 <;> cases k1 <;> cases k2 <;> cases k3 <;> exact Iff.rfl

theorem c13_spatial_is_antiparallel_iff (k0 : Az) (k1 : Lon) (k2 : Az) (k3 : Lon) (tol a0 a1 a2 b0 b1 b2 : ℝ) :
    spatial_is_antiparallel.eval k0 k1 k2 k3 tol a0 a1 a2 b0 b1 b2 ↔
      spatial_dot.eval k0 k1 k2 k3 a0 a1 a2 b0 b1 b2 <
        (|tol| - 1) * spatial_mag.eval k0 k1 a0 a1 a2 * spatial_mag.eval k2 k3 b0 b1 b2 := by
  cases k0 <;> cases k1 <;> cases k2 <;> cases k3 <;> exact Iff.rfl

/-! ### 2b. in terms of the cosine `dot / (|a|·|b|)`, for vectors of non-zero length -/

private theorem par_div {d T m1 m2 : ℝ} (h1 : 0 < m1) (h2 : 0 < m2) :
    d > (1 - T) * m1 * m2 ↔ d / (m1 * m2) > 1 - T := by
  rw [gt_iff_lt, gt_iff_lt, lt_div_iff₀ (mul_pos h1 h2), mul_assoc]

private theorem anti_div {d T m1 m2 : ℝ} (h1 : 0 < m1) (h2 : 0 < m2) :
    d < (T - 1) * m1 * m2 ↔ d / (m1 * m2) < T - 1 := by
  rw [div_lt_iff₀ (mul_pos h1 h2), mul_assoc]

private theorem perp_div {d T m1 m2 : ℝ} (h1 : 0 < m1) (h2 : 0 < m2) :
    |d| < T * m1 * m2 ↔ |d / (m1 * m2)| < T := by
  rw [abs_div, abs_of_pos (mul_pos h1 h2), div_lt_iff₀ (mul_pos h1 h2), mul_assoc]

private theorem abs_cos_le_one {d m1 m2 : ℝ} (h1 : 0 < m1) (h2 : 0 < m2) (hcs : |d| ≤ m1 * m2) :
    |d / (m1 * m2)| ≤ 1 := by
  rw [abs_div, abs_of_pos (mul_pos h1 h2), div_le_one (mul_pos h1 h2)]
  exact hcs

private theorem near_one {c T : ℝ} (hc : |c| ≤ 1) : c > 1 - T ↔ |c - 1| < T := by
  have := (abs_le.mp hc).2
  rw [abs_lt]
  constructor
  · intro h; constructor <;> linarith
  · rintro ⟨h, _⟩; linarith

private theorem near_neg_one {c T : ℝ} (hc : |c| ≤ 1) : c < T - 1 ↔ |c + 1| < T := by
  have := (abs_le.mp hc).1
  rw [abs_lt]
  constructor
  · intro h; constructor <;> linarith
  · rintro ⟨_, h⟩; linarith

/-- Non-zero planar vector ⇔ positive generated `rho` (Cartesian key). -/
theorem c13_planar_rho_xy_pos_iff (x y : ℝ) : 0 < planar_rho.eval .xy x y ↔ (x ≠ 0 ∨ y ≠ 0) := by
  simp only [d_planar_rho, d_planar_rho2, Real.sqrt_pos]
  constructor
  · intro h
    by_contra hc
    push Not at hc
    rw [hc.1, hc.2] at h
    norm_num at h
  · rintro (h | h)
    · have : 0 < x ^ 2 := by positivity
      nlinarith [sq_nonneg y]
    · have : 0 < y ^ 2 := by positivity
      nlinarith [sq_nonneg x]

/-- Non-zero spatial vector ⇔ positive generated `mag` (Cartesian key). -/
theorem c13_spatial_mag_xyz_pos_iff (x y z : ℝ) :
    0 < spatial_mag.eval .xy .z x y z ↔ (x ≠ 0 ∨ y ≠ 0 ∨ z ≠ 0) := by
  simp only [d_spatial_mag, d_spatial_mag2, Real.sqrt_pos]
  constructor
  · intro h
    by_contra hc
    push Not at hc
    rw [hc.1, hc.2.1, hc.2.2] at h
    norm_num at h
  · rintro (h | h | h)
    · have : 0 < x ^ 2 := by positivity
      nlinarith [sq_nonneg y, sq_nonneg z]
    · have : 0 < y ^ 2 := by positivity
      nlinarith [sq_nonneg x, sq_nonneg z]
    · have : 0 < z ^ 2 := by positivity
      nlinarith [sq_nonneg x, sq_nonneg y]

/-- Every key pair, vectors with positive length: `is_parallel ⇔ cos∠ > 1 - |tol|`. -/
theorem c13_planar_is_parallel_iff_cos (k0 k1 : Az) (tol a0 a1 b0 b1 : ℝ)
    (ha : 0 < planar_rho.eval k0 a0 a1) (hb : 0 < planar_rho.eval k1 b0 b1) :
    planar_is_parallel.eval k0 k1 tol a0 a1 b0 b1 ↔
      planar_dot.eval k0 k1 a0 a1 b0 b1 / (planar_rho.eval k0 a0 a1 * planar_rho.eval k1 b0 b1) > 1 - |tol| := by
  rw [c13_planar_is_parallel_iff, par_div ha hb]

theorem c13_planar_is_antiparallel_iff_cos (k0 k1 : Az) (tol a0 a1 b0 b1 : ℝ)
    (ha : 0 < planar_rho.eval k0 a0 a1) (hb : 0 < planar_rho.eval k1 b0 b1) :
    planar_is_antiparallel.eval k0 k1 tol a0 a1 b0 b1 ↔
      planar_dot.eval k0 k1 a0 a1 b0 b1 / (planar_rho.eval k0 a0 a1 * planar_rho.eval k1 b0 b1) < |tol| - 1 := by
  rw [c13_planar_is_antiparallel_iff, anti_div ha hb]

theorem c13_planar_is_perpendicular_iff_cos (k0 k1 : Az) (tol a0 a1 b0 b1 : ℝ)
    (ha : 0 < planar_rho.eval k0 a0 a1) (hb : 0 < planar_rho.eval k1 b0 b1) :
    planar_is_perpendicular.eval k0 k1 tol a0 a1 b0 b1 ↔
      |planar_dot.eval k0 k1 a0 a1 b0 b1 / (planar_rho.eval k0 a0 a1 * planar_rho.eval k1 b0 b1)| < |tol| := by
  rw [c13_planar_is_perpendicular_iff, perp_div ha hb]

theorem c13_spatial_is_parallel_iff_cos (k0 : Az) (k1 : Lon) (k2 : Az) (k3 : Lon) (tol a0 a1 a2 b0 b1 b2 : ℝ)
    (ha : 0 < spatial_mag.eval k0 k1 a0 a1 a2) (hb : 0 < spatial_mag.eval k2 k3 b0 b1 b2) :
    spatial_is_parallel.eval k0 k1 k2 k3 tol a0 a1 a2 b0 b1 b2 ↔
      spatial_dot.eval k0 k1 k2 k3 a0 a1 a2 b0 b1 b2 /
        (spatial_mag.eval k0 k1 a0 a1 a2 * spatial_mag.eval k2 k3 b0 b1 b2) > 1 - |tol| := by
  rw [c13_spatial_is_parallel_iff, par_div ha hb]

theorem c13_spatial_is_antiparallel_iff_cos (k0 : Az) (k1 : Lon) (k2 : Az) (k3 : Lon) (tol a0 a1 a2 b0 b1 b2 : ℝ)
    (ha : 0 < spatial_mag.eval k0 k1 a0 a1 a2) (hb : 0 < spatial_mag.eval k2 k3 b0 b1 b2) :
    spatial_is_antiparallel.eval k0 k1 k2 k3 tol a0 a1 a2 b0 b1 b2 ↔
      spatial_dot.eval k0 k1 k2 k3 a0 a1 a2 b0 b1 b2 /
        (spatial_mag.eval k0 k1 a0 a1 a2 * spatial_mag.eval k2 k3 b0 b1 b2) < |tol| - 1 := by
  rw [c13_spatial_is_antiparallel_iff, anti_div ha hb]

theorem c13_spatial_is_perpendicular_iff_cos (k0 : Az) (k1 : Lon) (k2 : Az) (k3 : Lon) (tol a0 a1 a2 b0 b1 b2 : ℝ)
    (ha : 0 < spatial_mag.eval k0 k1 a0 a1 a2) (hb : 0 < spatial_mag.eval k2 k3 b0 b1 b2) :
    spatial_is_perpendicular.eval k0 k1 k2 k3 tol a0 a1 a2 b0 b1 b2 ↔
      |spatial_dot.eval k0 k1 k2 k3 a0 a1 a2 b0 b1 b2 /
        (spatial_mag.eval k0 k1 a0 a1 a2 * spatial_mag.eval k2 k3 b0 b1 b2)| < |tol| := by
  rw [c13_spatial_is_perpendicular_iff, perp_div ha hb]

/-! ### 2c. "within the tolerance of +1 / -1 / 0": Cauchy–Schwarz gives `|cos∠| ≤ 1`, so the one-sided
thresholds of the code are the same as two-sided closeness. -/

private theorem cs2 (x1 y1 x2 y2 : ℝ) :
    |x1 * x2 + y1 * y2| ≤ √(x1 ^ 2 + y1 ^ 2) * √(x2 ^ 2 + y2 ^ 2) := by
  rw [← Real.sqrt_mul (by positivity)]
  apply Real.abs_le_sqrt
  nlinarith [sq_nonneg (x1 * y2 - y1 * x2)]

private theorem cs3 (x1 y1 z1 x2 y2 z2 : ℝ) :
    |x1 * x2 + y1 * y2 + z1 * z2| ≤ √(x1 ^ 2 + y1 ^ 2 + z1 ^ 2) * √(x2 ^ 2 + y2 ^ 2 + z2 ^ 2) := by
  rw [← Real.sqrt_mul (by positivity)]
  apply Real.abs_le_sqrt
  nlinarith [sq_nonneg (x1 * y2 - y1 * x2), sq_nonneg (x1 * z2 - z1 * x2), sq_nonneg (y1 * z2 - z1 * y2)]

private theorem cs_polar (r p x y : ℝ) (hr : 0 ≤ r) :
    |r * Real.cos p * x + r * Real.sin p * y| ≤ r * √(x ^ 2 + y ^ 2) := by
  have h := cs2 (r * Real.cos p) (r * Real.sin p) x y
  have e : (r * Real.cos p) ^ 2 + (r * Real.sin p) ^ 2 = r ^ 2 := by
    linear_combination (r ^ 2) * Real.cos_sq_add_sin_sq p
  rwa [e, Real.sqrt_sq hr] at h

/-- Cauchy–Schwarz for the generated planar `dot` and `rho`, every key pair (polar radii non-negative). -/
theorem c13_planar_abs_dot_le (k0 k1 : Az) (a0 a1 b0 b1 : ℝ)
    (ha : 0 ≤ planar_rho.eval k0 a0 a1) (hb : 0 ≤ planar_rho.eval k1 b0 b1) :
    |planar_dot.eval k0 k1 a0 a1 b0 b1| ≤ planar_rho.eval k0 a0 a1 * planar_rho.eval k1 b0 b1 := by
  cases k0 <;> cases k1 <;>
    simp only [d_planar_dot, d_planar_rho, d_planar_rho2, d_planar_x, d_planar_y] at ha hb ⊢
  · exact cs2 _ _ _ _
  · have := cs_polar b0 b1 a0 a1 hb
    rw [mul_comm (√_) b0]
    convert this using 2
    ring
  · exact cs_polar a0 a1 b0 b1 ha
  · rw [abs_mul, abs_of_nonneg (mul_nonneg ha hb)]
    exact mul_le_of_le_one_right (mul_nonneg ha hb) (Real.abs_cos_le_one _)

/-- Cauchy–Schwarz for the generated Cartesian spatial `dot` and `mag`. -/
theorem c13_spatial_abs_dot_le_cartesian (x1 y1 z1 x2 y2 z2 : ℝ) :
    |spatial_dot.eval .xy .z .xy .z x1 y1 z1 x2 y2 z2| ≤
      spatial_mag.eval .xy .z x1 y1 z1 * spatial_mag.eval .xy .z x2 y2 z2 := by
  simp only [spatial_dot.eval, spatial_dot.xy_z_xy_z, d_spatial_mag, d_spatial_mag2]
  exact cs3 _ _ _ _ _ _

/-- Every planar key pair, non-zero vectors: `is_parallel` ⇔ `cos∠` within `|tol|` of `+1`. -/
theorem c13_planar_is_parallel_iff_cos_near (k0 k1 : Az) (tol a0 a1 b0 b1 : ℝ)
    (ha : 0 < planar_rho.eval k0 a0 a1) (hb : 0 < planar_rho.eval k1 b0 b1) :
    planar_is_parallel.eval k0 k1 tol a0 a1 b0 b1 ↔
      |planar_dot.eval k0 k1 a0 a1 b0 b1 / (planar_rho.eval k0 a0 a1 * planar_rho.eval k1 b0 b1) - 1| < |tol| := by
  rw [c13_planar_is_parallel_iff_cos k0 k1 tol a0 a1 b0 b1 ha hb]
  exact near_one (abs_cos_le_one ha hb (c13_planar_abs_dot_le k0 k1 a0 a1 b0 b1 ha.le hb.le))

/-- Every planar key pair, non-zero vectors: `is_antiparallel` ⇔ `cos∠` within `|tol|` of `-1`. -/
theorem c13_planar_is_antiparallel_iff_cos_near (k0 k1 : Az) (tol a0 a1 b0 b1 : ℝ)
    (ha : 0 < planar_rho.eval k0 a0 a1) (hb : 0 < planar_rho.eval k1 b0 b1) :
    planar_is_antiparallel.eval k0 k1 tol a0 a1 b0 b1 ↔
      |planar_dot.eval k0 k1 a0 a1 b0 b1 / (planar_rho.eval k0 a0 a1 * planar_rho.eval k1 b0 b1) + 1| < |tol| := by
  rw [c13_planar_is_antiparallel_iff_cos k0 k1 tol a0 a1 b0 b1 ha hb]
  exact near_neg_one (abs_cos_le_one ha hb (c13_planar_abs_dot_le k0 k1 a0 a1 b0 b1 ha.le hb.le))

/-- Cartesian spatial keys, non-zero vectors: `is_parallel` ⇔ `cos∠` within `|tol|` of `+1`. -/
theorem c13_spatial_is_parallel_cartesian (tol x1 y1 z1 x2 y2 z2 : ℝ)
    (ha : x1 ≠ 0 ∨ y1 ≠ 0 ∨ z1 ≠ 0) (hb : x2 ≠ 0 ∨ y2 ≠ 0 ∨ z2 ≠ 0) :
    spatial_is_parallel.eval .xy .z .xy .z tol x1 y1 z1 x2 y2 z2 ↔
      |spatial_dot.eval .xy .z .xy .z x1 y1 z1 x2 y2 z2 /
        (spatial_mag.eval .xy .z x1 y1 z1 * spatial_mag.eval .xy .z x2 y2 z2) - 1| < |tol| := by
  rw [← c13_spatial_mag_xyz_pos_iff] at ha hb
  rw [c13_spatial_is_parallel_iff_cos _ _ _ _ tol x1 y1 z1 x2 y2 z2 ha hb]
  exact near_one (abs_cos_le_one ha hb (c13_spatial_abs_dot_le_cartesian x1 y1 z1 x2 y2 z2))

/-- Cartesian spatial keys, non-zero vectors: `is_antiparallel` ⇔ `cos∠` within `|tol|` of `-1`. -/
theorem c13_spatial_is_antiparallel_cartesian (tol x1 y1 z1 x2 y2 z2 : ℝ)
    (ha : x1 ≠ 0 ∨ y1 ≠ 0 ∨ z1 ≠ 0) (hb : x2 ≠ 0 ∨ y2 ≠ 0 ∨ z2 ≠ 0) :
    spatial_is_antiparallel.eval .xy .z .xy .z tol x1 y1 z1 x2 y2 z2 ↔
      |spatial_dot.eval .xy .z .xy .z x1 y1 z1 x2 y2 z2 /
        (spatial_mag.eval .xy .z x1 y1 z1 * spatial_mag.eval .xy .z x2 y2 z2) + 1| < |tol| := by
  rw [← c13_spatial_mag_xyz_pos_iff] at ha hb
  rw [c13_spatial_is_antiparallel_iff_cos _ _ _ _ tol x1 y1 z1 x2 y2 z2 ha hb]
  exact near_neg_one (abs_cos_le_one ha hb (c13_spatial_abs_dot_le_cartesian x1 y1 z1 x2 y2 z2))

/-- Cartesian spatial keys, non-zero vectors: `is_perpendicular` ⇔ `cos∠` within `|tol|` of `0`. -/
theorem c13_spatial_is_perpendicular_cartesian (tol x1 y1 z1 x2 y2 z2 : ℝ)
    (ha : x1 ≠ 0 ∨ y1 ≠ 0 ∨ z1 ≠ 0) (hb : x2 ≠ 0 ∨ y2 ≠ 0 ∨ z2 ≠ 0) :
    spatial_is_perpendicular.eval .xy .z .xy .z tol x1 y1 z1 x2 y2 z2 ↔
      |spatial_dot.eval .xy .z .xy .z x1 y1 z1 x2 y2 z2 /
        (spatial_mag.eval .xy .z x1 y1 z1 * spatial_mag.eval .xy .z x2 y2 z2)| < |tol| := by
  rw [← c13_spatial_mag_xyz_pos_iff] at ha hb
  exact c13_spatial_is_perpendicular_iff_cos _ _ _ _ tol x1 y1 z1 x2 y2 z2 ha hb

/-- Fully explicit Cartesian planar forms. -/
theorem c13_planar_is_parallel_cartesian (tol x1 y1 x2 y2 : ℝ) (ha : x1 ≠ 0 ∨ y1 ≠ 0) (hb : x2 ≠ 0 ∨ y2 ≠ 0) :
    planar_is_parallel.eval .xy .xy tol x1 y1 x2 y2 ↔
      |(x1 * x2 + y1 * y2) / (√(x1 ^ 2 + y1 ^ 2) * √(x2 ^ 2 + y2 ^ 2)) - 1| < |tol| := by
  rw [← c13_planar_rho_xy_pos_iff] at ha hb
  exact c13_planar_is_parallel_iff_cos_near .xy .xy tol x1 y1 x2 y2 ha hb

theorem c13_planar_is_antiparallel_cartesian (tol x1 y1 x2 y2 : ℝ) (ha : x1 ≠ 0 ∨ y1 ≠ 0) (hb : x2 ≠ 0 ∨ y2 ≠ 0) :
    planar_is_antiparallel.eval .xy .xy tol x1 y1 x2 y2 ↔
      |(x1 * x2 + y1 * y2) / (√(x1 ^ 2 + y1 ^ 2) * √(x2 ^ 2 + y2 ^ 2)) + 1| < |tol| := by
  rw [← c13_planar_rho_xy_pos_iff] at ha hb
  exact c13_planar_is_antiparallel_iff_cos_near .xy .xy tol x1 y1 x2 y2 ha hb

theorem c13_planar_is_perpendicular_cartesian (tol x1 y1 x2 y2 : ℝ) (ha : x1 ≠ 0 ∨ y1 ≠ 0) (hb : x2 ≠ 0 ∨ y2 ≠ 0) :
    planar_is_perpendicular.eval .xy .xy tol x1 y1 x2 y2 ↔
      |(x1 * x2 + y1 * y2) / (√(x1 ^ 2 + y1 ^ 2) * √(x2 ^ 2 + y2 ^ 2))| < |tol| := by
  rw [← c13_planar_rho_xy_pos_iff] at ha hb
  exact c13_planar_is_perpendicular_iff_cos .xy .xy tol x1 y1 x2 y2 ha hb

/-! ### 2d. mutual exclusion of the three angle classes -/

private theorem par_anti_excl {d T m1 m2 : ℝ} (h1 : 0 ≤ m1) (h2 : 0 ≤ m2) (hT : T ≤ 1) :
    ¬ (d > (1 - T) * m1 * m2 ∧ d < (T - 1) * m1 * m2) := by
  rintro ⟨h, g⟩
  have : 0 ≤ (1 - T) * (m1 * m2) := mul_nonneg (by linarith) (mul_nonneg h1 h2)
  nlinarith

private theorem par_perp_excl {d T m1 m2 : ℝ} (h1 : 0 ≤ m1) (h2 : 0 ≤ m2) (hT : T ≤ 1 / 2) :
    ¬ (d > (1 - T) * m1 * m2 ∧ |d| < T * m1 * m2) := by
  rintro ⟨h, g⟩
  have := (abs_lt.mp g).2
  have : 0 ≤ (1 - 2 * T) * (m1 * m2) := mul_nonneg (by linarith) (mul_nonneg h1 h2)
  nlinarith

private theorem anti_perp_excl {d T m1 m2 : ℝ} (h1 : 0 ≤ m1) (h2 : 0 ≤ m2) (hT : T ≤ 1 / 2) :
    ¬ (d < (T - 1) * m1 * m2 ∧ |d| < T * m1 * m2) := by
  rintro ⟨h, g⟩
  have := (abs_lt.mp g).1
  have : 0 ≤ (1 - 2 * T) * (m1 * m2) := mul_nonneg (by linarith) (mul_nonneg h1 h2)
  nlinarith

/-- `|tol| ≤ 1`: never both parallel and antiparallel (every planar key pair, radii non-negative). -/
theorem c13_planar_not_parallel_and_antiparallel (k0 k1 : Az) (tol a0 a1 b0 b1 : ℝ) (ht : |tol| ≤ 1)
    (ha : 0 ≤ planar_rho.eval k0 a0 a1) (hb : 0 ≤ planar_rho.eval k1 b0 b1) :
    ¬ (planar_is_parallel.eval k0 k1 tol a0 a1 b0 b1 ∧ planar_is_antiparallel.eval k0 k1 tol a0 a1 b0 b1) := by
  rw [c13_planar_is_parallel_iff, c13_planar_is_antiparallel_iff]
  exact par_anti_excl ha hb ht

/-- `|tol| ≤ 1/2`: never both parallel and perpendicular. -/
theorem c13_planar_not_parallel_and_perpendicular (k0 k1 : Az) (tol a0 a1 b0 b1 : ℝ) (ht : |tol| ≤ 1 / 2)
    (ha : 0 ≤ planar_rho.eval k0 a0 a1) (hb : 0 ≤ planar_rho.eval k1 b0 b1) :
    ¬ (planar_is_parallel.eval k0 k1 tol a0 a1 b0 b1 ∧ planar_is_perpendicular.eval k0 k1 tol a0 a1 b0 b1) := by
  rw [c13_planar_is_parallel_iff, c13_planar_is_perpendicular_iff]
  exact par_perp_excl ha hb ht

/-- `|tol| ≤ 1/2`: never both antiparallel and perpendicular. -/
theorem c13_planar_not_antiparallel_and_perpendicular (k0 k1 : Az) (tol a0 a1 b0 b1 : ℝ) (ht : |tol| ≤ 1 / 2)
    (ha : 0 ≤ planar_rho.eval k0 a0 a1) (hb : 0 ≤ planar_rho.eval k1 b0 b1) :
    ¬ (planar_is_antiparallel.eval k0 k1 tol a0 a1 b0 b1 ∧ planar_is_perpendicular.eval k0 k1 tol a0 a1 b0 b1) := by
  rw [c13_planar_is_antiparallel_iff, c13_planar_is_perpendicular_iff]
  exact anti_perp_excl ha hb ht

theorem c13_spatial_not_parallel_and_antiparallel (k0 : Az) (k1 : Lon) (k2 : Az) (k3 : Lon)
    (tol a0 a1 a2 b0 b1 b2 : ℝ) (ht : |tol| ≤ 1)
    (ha : 0 ≤ spatial_mag.eval k0 k1 a0 a1 a2) (hb : 0 ≤ spatial_mag.eval k2 k3 b0 b1 b2) :
    ¬ (spatial_is_parallel.eval k0 k1 k2 k3 tol a0 a1 a2 b0 b1 b2 ∧
        spatial_is_antiparallel.eval k0 k1 k2 k3 tol a0 a1 a2 b0 b1 b2) := by
  rw [c13_spatial_is_parallel_iff, c13_spatial_is_antiparallel_iff]
  exact par_anti_excl ha hb ht

theorem c13_spatial_not_parallel_and_perpendicular (k0 : Az) (k1 : Lon) (k2 : Az) (k3 : Lon)
    (tol a0 a1 a2 b0 b1 b2 : ℝ) (ht : |tol| ≤ 1 / 2)
    (ha : 0 ≤ spatial_mag.eval k0 k1 a0 a1 a2) (hb : 0 ≤ spatial_mag.eval k2 k3 b0 b1 b2) :
    ¬ (spatial_is_parallel.eval k0 k1 k2 k3 tol a0 a1 a2 b0 b1 b2 ∧
        spatial_is_perpendicular.eval k0 k1 k2 k3 tol a0 a1 a2 b0 b1 b2) := by
  rw [c13_spatial_is_parallel_iff, c13_spatial_is_perpendicular_iff]
  exact par_perp_excl ha hb ht

theorem c13_spatial_not_antiparallel_and_perpendicular (k0 : Az) (k1 : Lon) (k2 : Az) (k3 : Lon)
    (tol a0 a1 a2 b0 b1 b2 : ℝ) (ht : |tol| ≤ 1 / 2)
    (ha : 0 ≤ spatial_mag.eval k0 k1 a0 a1 a2) (hb : 0 ≤ spatial_mag.eval k2 k3 b0 b1 b2) :
    ¬ (spatial_is_antiparallel.eval k0 k1 k2 k3 tol a0 a1 a2 b0 b1 b2 ∧
        spatial_is_perpendicular.eval k0 k1 k2 k3 tol a0 a1 a2 b0 b1 b2) := by
  rw [c13_spatial_is_antiparallel_iff, c13_spatial_is_perpendicular_iff]
  exact anti_perp_excl ha hb ht

/-- The generated Cartesian norms are never negative, so for Cartesian operands the
exclusion theorems need no hypothesis on the vectors at all. -/
theorem c13_planar_rho_xy_nonneg (x y : ℝ) : 0 ≤ planar_rho.eval .xy x y := by
  simp only [d_planar_rho]; exact Real.sqrt_nonneg _

theorem c13_spatial_mag_xyz_nonneg (x y z : ℝ) : 0 ≤ spatial_mag.eval .xy .z x y z := by
  simp only [d_spatial_mag]; exact Real.sqrt_nonneg _

/-- The bound `1/2` is sharp in the sense that a tolerance in `(1/2, 1)` does allow overlap:
with `tol = 7/10` the vectors `(1,0)` and `(3,4)` (cos∠ = 3/5) are both "parallel" and "perpendicular". -/
theorem c13_parallel_perpendicular_overlap_large_tol :
    planar_is_parallel.eval .xy .xy (7 / 10) 1 0 3 4 ∧ planar_is_perpendicular.eval .xy .xy (7 / 10) 1 0 3 4 := by
  have e1 : √((1 : ℝ) ^ 2 + 0 ^ 2) = 1 := by norm_num
  have e2 : √((3 : ℝ) ^ 2 + 4 ^ 2) = 5 := by
    rw [show (3 : ℝ) ^ 2 + 4 ^ 2 = 5 ^ 2 by norm_num]; exact Real.sqrt_sq (by norm_num)
  rw [c13_planar_is_parallel_iff, c13_planar_is_perpendicular_iff]
  simp only [d_planar_dot, d_planar_rho, d_planar_rho2, e1, e2]
  norm_num [abs_of_pos]

/-- hypotheses are satisfiable / the classes are inhabited: with `tol = 1/10`,
`(1,0) ∥ (2,0)`, `(1,0)` antiparallel to `(-2,0)` (polar: `(2, π)`), `(1,0) ⟂ (0,3)`. -/
example : planar_is_parallel.eval .rhophi .rhophi (1 / 10) 1 0 2 0 ∧
    planar_is_antiparallel.eval .rhophi .rhophi (1 / 10) 1 0 2 Real.pi ∧
    planar_is_perpendicular.eval .rhophi .rhophi (1 / 10) 1 0 3 (Real.pi / 2) := by
  rw [c13_planar_is_parallel_iff, c13_planar_is_antiparallel_iff, c13_planar_is_perpendicular_iff]
  simp only [d_planar_dot, d_planar_rho]
  norm_num [abs_of_pos]

example : 0 < planar_rho.eval .xy 3 4 ∧ 0 < spatial_mag.eval .xy .z 0 0 1 :=
  ⟨(c13_planar_rho_xy_pos_iff 3 4).2 (Or.inl (by norm_num)),
   (c13_spatial_mag_xyz_pos_iff 0 0 1).2 (Or.inr (Or.inr (by norm_num)))⟩

/-! ## 3. Ranges -/

/-- `phi` computed from Cartesian coordinates lies in `(-π, π]`. -/
theorem c13_planar_phi_xy_range (x y : ℝ) :
    -Real.pi < planar_phi.xy x y ∧ planar_phi.xy x y ≤ Real.pi := by
  simp only [d_planar_phi, P.arctan2]
  exact ⟨Complex.neg_pi_lt_arg _, Complex.arg_le_pi _⟩

/-- `phi` for every key: computed (`xy`) or the stored value returned unchanged (`rhophi`). -/
theorem c13_planar_phi_range (k : Az) (a0 a1 : ℝ) (h : k = .rhophi → -Real.pi < a1 ∧ a1 ≤ Real.pi) :
    -Real.pi < planar_phi.eval k a0 a1 ∧ planar_phi.eval k a0 a1 ≤ Real.pi := by
  cases k
  · exact c13_planar_phi_xy_range a0 a1
  · exact h rfl

theorem c13_planar_phi_rhophi_eq (rho phi : ℝ) : planar_phi.eval .rhophi rho phi = phi := rfl

example : -Real.pi < (0 : ℝ) ∧ (0 : ℝ) ≤ Real.pi := ⟨by linarith [Real.pi_pos], Real.pi_pos.le⟩

private theorem mod_nonneg (a : ℝ) {m : ℝ} (hm : 0 < m) : 0 ≤ P.mod a m := by
  unfold P.mod
  have h := Int.floor_le (a / m)
  rw [le_div_iff₀ hm] at h
  linarith

private theorem mod_lt (a : ℝ) {m : ℝ} (hm : 0 < m) : P.mod a m < m := by
  unfold P.mod
  have h := Int.lt_floor_add_one (a / m)
  rw [div_lt_iff₀ hm] at h
  linarith

/-- `rectify` maps every angle into `[-π, π)`. -/
theorem c13_rectify_range (phi : ℝ) :
    -Real.pi ≤ planar_deltaphi.rectify phi ∧ planar_deltaphi.rectify phi < Real.pi := by
  have h2 : (0 : ℝ) < 2 * Real.pi := by linarith [Real.pi_pos]
  have h0 := mod_nonneg (phi + Real.pi) h2
  have h1 := mod_lt (phi + Real.pi) h2
  simp only [planar_deltaphi.rectify]
  constructor <;> linarith

/-- `deltaphi` lies in `[-π, π)` for every pair of coordinate systems, whatever the stored angles are. -/
theorem c13_planar_deltaphi_range (k0 k1 : Az) (a0 a1 b0 b1 : ℝ) :
    -Real.pi ≤ planar_deltaphi.eval k0 k1 a0 a1 b0 b1 ∧ planar_deltaphi.eval k0 k1 a0 a1 b0 b1 < Real.pi := by
  cases k0 <;> cases k1 <;>
    simp only [planar_deltaphi.eval, planar_deltaphi.xy_xy, planar_deltaphi.xy_rhophi,
      planar_deltaphi.rhophi_xy, planar_deltaphi.rhophi_rhophi] <;>
    exact c13_rectify_range _

/-- `rho2 ≥ 0` for both keys. -/
theorem c13_planar_rho2_nonneg (k : Az) (a0 a1 : ℝ) : 0 ≤ planar_rho2.eval k a0 a1 := by
  cases k <;> simp only [d_planar_rho2] <;> positivity

/-- `rho ≥ 0`: computed as a square root (`xy`), or the stored `rho` (then the stored value must be ≥ 0). -/
theorem c13_planar_rho_nonneg (k : Az) (a0 a1 : ℝ) (h : k = .rhophi → 0 ≤ a0) : 0 ≤ planar_rho.eval k a0 a1 := by
  cases k
  · exact c13_planar_rho_xy_nonneg a0 a1
  · exact h rfl

/-- `mag2 ≥ 0` for all six keys (for `theta` keys away from the poles `sin θ = 0`, where the code divides by 0). -/
theorem c13_spatial_mag2_nonneg (k0 : Az) (k1 : Lon) (a0 a1 a2 : ℝ) (_hθ : k1 = .theta → Real.sin a2 ≠ 0) :
    0 ≤ spatial_mag2.eval k0 k1 a0 a1 a2 := by
  cases k0 <;> cases k1 <;> simp only [d_spatial_mag2] <;> positivity

theorem c13_spatial_mag2_xy_z_nonneg (x y z : ℝ) : 0 ≤ spatial_mag2.xy_z x y z :=
  c13_spatial_mag2_nonneg .xy .z x y z (fun h => by cases h)

/-- `mag ≥ 0` for all six keys; polar keys need the stored `rho ≥ 0` unless `mag` is a square root. -/
theorem c13_spatial_mag_nonneg (k0 : Az) (k1 : Lon) (a0 a1 a2 : ℝ)
    (hρ : k0 = .rhophi → 0 ≤ a0) (_hθ : k1 = .theta → Real.sin a2 ≠ 0) :
    0 ≤ spatial_mag.eval k0 k1 a0 a1 a2 := by
  cases k0 <;> cases k1 <;> simp only [d_spatial_mag] <;>
    first
    | exact Real.sqrt_nonneg _
    | positivity
    | (have := hρ rfl; positivity)

theorem c13_spatial_mag_xy_z_nonneg (x y z : ℝ) : 0 ≤ spatial_mag.xy_z x y z :=
  c13_spatial_mag_xyz_nonneg x y z

/-- `t2 ≥ 0` for all twelve keys: a square for `t` keys, clamped by `maximum(·, 0)` for `tau` keys. -/
theorem c13_lorentz_t2_nonneg (k0 : Az) (k1 : Lon) (k2 : Tmp) (a0 a1 a2 a3 : ℝ)
    (_hθ : k1 = .theta → Real.sin a2 ≠ 0) :
    0 ≤ lorentz_t2.eval k0 k1 k2 a0 a1 a2 a3 := by
  cases k0 <;> cases k1 <;> cases k2 <;>
    simp only [lorentz_t2.eval, lorentz_t2.xy_z_t, lorentz_t2.xy_theta_t, lorentz_t2.xy_eta_t,
      lorentz_t2.rhophi_z_t, lorentz_t2.rhophi_theta_t, lorentz_t2.rhophi_eta_t,
      lorentz_t2.xy_z_tau, lorentz_t2.xy_theta_tau, lorentz_t2.xy_eta_tau,
      lorentz_t2.rhophi_z_tau, lorentz_t2.rhophi_theta_tau, lorentz_t2.rhophi_eta_tau] <;>
    positivity

example : ((Lon.theta = .theta) → Real.sin (Real.pi / 2) ≠ 0) := fun _ => by norm_num

/-- `theta` computed by `arccos` from a non-zero Cartesian vector lies in `[0, π]`. -/
theorem c13_spatial_theta_xy_z_range (x y z : ℝ) (_h : x ≠ 0 ∨ y ≠ 0 ∨ z ≠ 0) :
    0 ≤ spatial_theta.xy_z x y z ∧ spatial_theta.xy_z x y z ≤ Real.pi := by
  simp only [spatial_theta.xy_z]
  exact ⟨Real.arccos_nonneg _, Real.arccos_le_pi _⟩

theorem c13_spatial_theta_rhophi_z_range (rho phi z : ℝ) (_h : rho ≠ 0 ∨ z ≠ 0) :
    0 ≤ spatial_theta.rhophi_z rho phi z ∧ spatial_theta.rhophi_z rho phi z ≤ Real.pi := by
  simp only [spatial_theta.rhophi_z]
  exact ⟨Real.arccos_nonneg _, Real.arccos_le_pi _⟩

/-- `theta` computed from `eta` (`2·arctan(exp(-η))`) lies strictly inside `(0, π)`. -/
theorem c13_spatial_theta_eta_range (k0 : Az) (a0 a1 eta : ℝ) :
    0 < spatial_theta.eval k0 .eta a0 a1 eta ∧ spatial_theta.eval k0 .eta a0 a1 eta < Real.pi := by
  have h1 := Real.arctan_pos.2 (Real.exp_pos (-eta))
  have h2 := Real.arctan_lt_pi_div_two (Real.exp (-eta))
  cases k0 <;> simp only [d_spatial_theta] <;> constructor <;> linarith

/-- for `theta` keys the stored value is returned unchanged … -/
theorem c13_spatial_theta_theta_eq (k0 : Az) (a0 a1 theta : ℝ) :
    spatial_theta.eval k0 .theta a0 a1 theta = theta := by
  cases k0 <;> rfl

/-- … so `theta ∈ [0, π]` for every key, given a non-zero vector for the `z` keys and a stored
`theta ∈ [0, π]` for the `theta` keys. -/
theorem c13_spatial_theta_range (k0 : Az) (k1 : Lon) (a0 a1 a2 : ℝ)
    (_hz : k1 = .z → 0 < spatial_mag.eval k0 .z a0 a1 a2)
    (hθ : k1 = .theta → 0 ≤ a2 ∧ a2 ≤ Real.pi) :
    0 ≤ spatial_theta.eval k0 k1 a0 a1 a2 ∧ spatial_theta.eval k0 k1 a0 a1 a2 ≤ Real.pi := by
  cases k1
  · cases k0 <;> simp only [d_spatial_theta] <;> exact ⟨Real.arccos_nonneg _, Real.arccos_le_pi _⟩
  · rw [c13_spatial_theta_theta_eq]; exact hθ rfl
  · have := c13_spatial_theta_eta_range k0 a0 a1 a2
    exact ⟨this.1.le, this.2.le⟩

/-- `deltaangle ∈ [0, π]` for all 36 key pairs (vectors of positive length). -/
theorem c13_spatial_deltaangle_range (k0 : Az) (k1 : Lon) (k2 : Az) (k3 : Lon) (a0 a1 a2 b0 b1 b2 : ℝ)
    (_ha : 0 < spatial_mag.eval k0 k1 a0 a1 a2) (_hb : 0 < spatial_mag.eval k2 k3 b0 b1 b2) :
    0 ≤ spatial_deltaangle.eval k0 k1 k2 k3 a0 a1 a2 b0 b1 b2 ∧
      spatial_deltaangle.eval k0 k1 k2 k3 a0 a1 a2 b0 b1 b2 ≤ Real.pi := by
  cases k0 <;> cases k1 <;> cases k2 <;> cases k3 <;> simp only [d_spatial_deltaangle] <;>
    exact ⟨Real.arccos_nonneg _, Real.arccos_le_pi _⟩

/-- Cartesian: non-zero vectors. -/
theorem c13_spatial_deltaangle_cartesian_range (x1 y1 z1 x2 y2 z2 : ℝ)
    (ha : x1 ≠ 0 ∨ y1 ≠ 0 ∨ z1 ≠ 0) (hb : x2 ≠ 0 ∨ y2 ≠ 0 ∨ z2 ≠ 0) :
    0 ≤ spatial_deltaangle.xy_z_xy_z x1 y1 z1 x2 y2 z2 ∧ spatial_deltaangle.xy_z_xy_z x1 y1 z1 x2 y2 z2 ≤ Real.pi :=
  c13_spatial_deltaangle_range .xy .z .xy .z x1 y1 z1 x2 y2 z2
    ((c13_spatial_mag_xyz_pos_iff _ _ _).2 ha) ((c13_spatial_mag_xyz_pos_iff _ _ _).2 hb)

/-! ## 4. Sign conventions: `costheta` and `cottheta` have the sign of `z` -/

private theorem div_sign_iff (z : ℝ) {m : ℝ} (hm : 0 < m) :
    (0 < z / m ↔ 0 < z) ∧ (z / m < 0 ↔ z < 0) ∧ (z / m = 0 ↔ z = 0) := by
  refine ⟨div_pos_iff_of_pos_right hm, ?_, ?_⟩
  · rw [div_lt_iff₀ hm, zero_mul]
  · rw [div_eq_zero_iff]
    constructor
    · rintro (h | h)
      · exact h
      · exact absurd h hm.ne'
    · exact Or.inl

/-- Cartesian `costheta = z / mag` has exactly the sign of `z` for a non-zero vector. -/
theorem c13_spatial_costheta_xy_z_sign (x y z : ℝ) (h : x ≠ 0 ∨ y ≠ 0 ∨ z ≠ 0) :
    (0 < spatial_costheta.xy_z x y z ↔ 0 < z) ∧ (spatial_costheta.xy_z x y z < 0 ↔ z < 0) ∧
      (spatial_costheta.xy_z x y z = 0 ↔ z = 0) := by
  have hm : 0 < spatial_mag.xy_z x y z := (c13_spatial_mag_xyz_pos_iff x y z).2 h
  simp only [spatial_costheta.xy_z, P.nanToNum_eq]
  exact div_sign_iff z hm

/-- and it is a cosine: `|costheta| ≤ 1`. -/
theorem c13_spatial_costheta_xy_z_abs_le_one (x y z : ℝ) (h : x ≠ 0 ∨ y ≠ 0 ∨ z ≠ 0) :
    |spatial_costheta.xy_z x y z| ≤ 1 := by
  have hm : 0 < spatial_mag.xy_z x y z := (c13_spatial_mag_xyz_pos_iff x y z).2 h
  simp only [spatial_costheta.xy_z, P.nanToNum_eq]
  rw [abs_div, abs_of_pos hm, div_le_one hm]
  simp only [d_spatial_mag, d_spatial_mag2]
  apply Real.abs_le_sqrt
  nlinarith [sq_nonneg x, sq_nonneg y]

theorem c13_spatial_costheta_rhophi_z_sign (rho phi z : ℝ) (h : rho ≠ 0 ∨ z ≠ 0) :
    (0 < spatial_costheta.rhophi_z rho phi z ↔ 0 < z) ∧ (spatial_costheta.rhophi_z rho phi z < 0 ↔ z < 0) ∧
      (spatial_costheta.rhophi_z rho phi z = 0 ↔ z = 0) := by
  have hm : 0 < spatial_mag.rhophi_z rho phi z := by
    simp only [d_spatial_mag, d_spatial_mag2, Real.sqrt_pos]
    rcases h with h | h
    · have : 0 < rho ^ 2 := by positivity
      nlinarith [sq_nonneg z]
    · have : 0 < z ^ 2 := by positivity
      nlinarith [sq_nonneg rho]
  simp only [spatial_costheta.rhophi_z, P.nanToNum_eq]
  exact div_sign_iff z hm

/-- Cartesian `cottheta = z / rho` has exactly the sign of `z` when `x² + y² > 0`. -/
theorem c13_spatial_cottheta_xy_z_sign (x y z : ℝ) (h : 0 < x ^ 2 + y ^ 2) :
    (0 < spatial_cottheta.xy_z x y z ↔ 0 < z) ∧ (spatial_cottheta.xy_z x y z < 0 ↔ z < 0) ∧
      (spatial_cottheta.xy_z x y z = 0 ↔ z = 0) := by
  have hm : 0 < planar_rho.xy x y := by
    simp only [d_planar_rho, d_planar_rho2, Real.sqrt_pos]; exact h
  simp only [spatial_cottheta.xy_z, P.nanToNum_eq]
  exact div_sign_iff z hm

theorem c13_spatial_cottheta_rhophi_z_sign (rho phi z : ℝ) (h : 0 < rho) :
    (0 < spatial_cottheta.rhophi_z rho phi z ↔ 0 < z) ∧ (spatial_cottheta.rhophi_z rho phi z < 0 ↔ z < 0) ∧
      (spatial_cottheta.rhophi_z rho phi z = 0 ↔ z = 0) := by
  simp only [spatial_cottheta.rhophi_z, P.nanToNum_eq]
  exact div_sign_iff z h

example : (1 : ℝ) ≠ 0 ∨ (0 : ℝ) ≠ 0 ∨ (-2 : ℝ) ≠ 0 := Or.inl one_ne_zero
example : (0 : ℝ) < 1 ^ 2 + 0 ^ 2 := by norm_num

/-! ## 5. `t` derived from `tau`, `tau` derived from `t` -/

/-- `t` from `tau` is a square root … -/
theorem c13_lorentz_t_tau_eq_sqrt (k0 : Az) (k1 : Lon) (a0 a1 a2 tau : ℝ) :
    lorentz_t.eval k0 k1 .tau a0 a1 a2 tau = √(lorentz_t2.eval k0 k1 .tau a0 a1 a2 tau) := by
  cases k0 <;> cases k1 <;> rfl

/-- … of a number that is never negative (this is what keeps it from being NaN) … -/
theorem c13_lorentz_t2_tau_nonneg (k0 : Az) (k1 : Lon) (a0 a1 a2 tau : ℝ) (hθ : k1 = .theta → Real.sin a2 ≠ 0) :
    0 ≤ lorentz_t2.eval k0 k1 .tau a0 a1 a2 tau :=
  c13_lorentz_t2_nonneg k0 k1 .tau a0 a1 a2 tau hθ

/-- … hence non-negative, for all six `tau` keys. -/
theorem c13_lorentz_t_tau_nonneg (k0 : Az) (k1 : Lon) (a0 a1 a2 tau : ℝ) (_hθ : k1 = .theta → Real.sin a2 ≠ 0) :
    0 ≤ lorentz_t.eval k0 k1 .tau a0 a1 a2 tau := by
  rw [c13_lorentz_t_tau_eq_sqrt]; exact Real.sqrt_nonneg _

/-- and it squares back to `t2`. -/
theorem c13_lorentz_t_tau_sq (k0 : Az) (k1 : Lon) (a0 a1 a2 tau : ℝ) (hθ : k1 = .theta → Real.sin a2 ≠ 0) :
    lorentz_t.eval k0 k1 .tau a0 a1 a2 tau ^ 2 = lorentz_t2.eval k0 k1 .tau a0 a1 a2 tau := by
  rw [c13_lorentz_t_tau_eq_sqrt]; exact Real.sq_sqrt (c13_lorentz_t2_tau_nonneg k0 k1 a0 a1 a2 tau hθ)

private theorem copysign_sq_of_nonneg {tau : ℝ} (h : 0 ≤ tau) : P.copysign (tau ^ 2) tau = tau ^ 2 := by
  unfold P.copysign; rw [if_pos h, abs_of_nonneg (sq_nonneg tau)]

private theorem copysign_sq_of_neg {tau : ℝ} (h : tau < 0) : P.copysign (tau ^ 2) tau = -tau ^ 2 := by
  unfold P.copysign; rw [if_neg (not_le.2 h), abs_of_nonneg (sq_nonneg tau)]

/-- Six `tau` keys, `0 ≤ tau` (timelike or lightlike): `t² = tau² + mag²`. -/
theorem c13_lorentz_t_tau_sq_of_nonneg (k0 : Az) (k1 : Lon) (a0 a1 a2 tau : ℝ)
    (hθ : k1 = .theta → Real.sin a2 ≠ 0) (htau : 0 ≤ tau) :
    lorentz_t.eval k0 k1 .tau a0 a1 a2 tau ^ 2 = tau ^ 2 + spatial_mag2.eval k0 k1 a0 a1 a2 := by
  rw [c13_lorentz_t_tau_sq k0 k1 a0 a1 a2 tau hθ]
  have hm := c13_spatial_mag2_nonneg k0 k1 a0 a1 a2 hθ
  have e : lorentz_t2.eval k0 k1 .tau a0 a1 a2 tau =
      max (P.copysign (tau ^ 2) tau + spatial_mag2.eval k0 k1 a0 a1 a2) 0 := by
    cases k0 <;> cases k1 <;> rfl
  rw [e, copysign_sq_of_nonneg htau]
  exact max_eq_left (by positivity)

/-- Six `tau` keys, `tau < 0` (the library's encoding of spacelike): `t² = max(mag² - tau², 0)`. -/
theorem c13_lorentz_t_tau_sq_of_neg (k0 : Az) (k1 : Lon) (a0 a1 a2 tau : ℝ)
    (hθ : k1 = .theta → Real.sin a2 ≠ 0) (htau : tau < 0) :
    lorentz_t.eval k0 k1 .tau a0 a1 a2 tau ^ 2 = max (spatial_mag2.eval k0 k1 a0 a1 a2 - tau ^ 2) 0 := by
  rw [c13_lorentz_t_tau_sq k0 k1 a0 a1 a2 tau hθ]
  have e : lorentz_t2.eval k0 k1 .tau a0 a1 a2 tau =
      max (P.copysign (tau ^ 2) tau + spatial_mag2.eval k0 k1 a0 a1 a2) 0 := by
    cases k0 <;> cases k1 <;> rfl
  rw [e, copysign_sq_of_neg htau]
  congr 1
  ring

/-- Cartesian-with-`tau` key, explicit. -/
theorem c13_lorentz_t_xy_z_tau_sq (x y z tau : ℝ) (htau : 0 ≤ tau) :
    lorentz_t.xy_z_tau x y z tau ^ 2 = tau ^ 2 + x ^ 2 + y ^ 2 + z ^ 2 := by
  have := c13_lorentz_t_tau_sq_of_nonneg .xy .z x y z tau (fun h => by cases h) htau
  simp only [lorentz_t.eval, spatial_mag2.eval, spatial_mag2.xy_z] at this
  rw [this]; ring

theorem c13_lorentz_t_xy_z_tau_nonneg (x y z tau : ℝ) : 0 ≤ lorentz_t.xy_z_tau x y z tau :=
  c13_lorentz_t_tau_nonneg .xy .z x y z tau (fun h => by cases h)

example : (0 : ℝ) ≤ 1 := zero_le_one

private theorem copysign_sqrt_abs_neg_iff (s : ℝ) : P.copysign (√|s|) s < 0 ↔ s < 0 := by
  unfold P.copysign
  split_ifs with h
  · constructor
    · intro g; exact absurd g (not_lt.2 (abs_nonneg _))
    · intro g; exact absurd h (not_le.2 g)
  · have hs : s < 0 := not_le.1 h
    have : 0 < √|s| := Real.sqrt_pos.2 (abs_pos.2 hs.ne)
    constructor
    · intro _; exact hs
    · intro _; rw [abs_of_pos this]; linarith

private theorem copysign_sqrt_abs_sq (s : ℝ) : P.copysign (√|s|) s ^ 2 = |s| := by
  unfold P.copysign
  split_ifs <;> simp only [neg_sq, sq_abs] <;> exact Real.sq_sqrt (abs_nonneg s)

/-- Six `t` keys: `tau` derived from `t` is negative exactly for spacelike vectors (`t² < mag²`). -/
theorem c13_lorentz_tau_neg_iff (k0 : Az) (k1 : Lon) (a0 a1 a2 t : ℝ) (_hθ : k1 = .theta → Real.sin a2 ≠ 0) :
    lorentz_tau.eval k0 k1 .t a0 a1 a2 t < 0 ↔ t ^ 2 < spatial_mag2.eval k0 k1 a0 a1 a2 := by
  have e : lorentz_tau.eval k0 k1 .t a0 a1 a2 t =
      P.copysign (√|t ^ 2 - spatial_mag2.eval k0 k1 a0 a1 a2|) (t ^ 2 - spatial_mag2.eval k0 k1 a0 a1 a2) := by
    cases k0 <;> cases k1 <;> rfl
  rw [e, copysign_sqrt_abs_neg_iff, sub_neg]

/-- and its square is `|t² - mag²|`. -/
theorem c13_lorentz_tau_sq (k0 : Az) (k1 : Lon) (a0 a1 a2 t : ℝ) (_hθ : k1 = .theta → Real.sin a2 ≠ 0) :
    lorentz_tau.eval k0 k1 .t a0 a1 a2 t ^ 2 = |t ^ 2 - spatial_mag2.eval k0 k1 a0 a1 a2| := by
  have e : lorentz_tau.eval k0 k1 .t a0 a1 a2 t =
      P.copysign (√|t ^ 2 - spatial_mag2.eval k0 k1 a0 a1 a2|) (t ^ 2 - spatial_mag2.eval k0 k1 a0 a1 a2) := by
    cases k0 <;> cases k1 <;> rfl
  rw [e, copysign_sqrt_abs_sq]

/-- Cartesian, explicit. -/
theorem c13_lorentz_tau_xy_z_t_neg_iff (x y z t : ℝ) :
    lorentz_tau.xy_z_t x y z t < 0 ↔ t ^ 2 < x ^ 2 + y ^ 2 + z ^ 2 :=
  c13_lorentz_tau_neg_iff .xy .z x y z t (fun h => by cases h)

/-! ## 6. `beta` and `gamma` -/

/-- Six `t` keys: for a forward vector with `0 ≤ mag < t` (forward timelike), `0 ≤ beta < 1`. -/
theorem c13_lorentz_beta_range (k0 : Az) (k1 : Lon) (a0 a1 a2 t : ℝ)
    (hm : 0 ≤ spatial_mag.eval k0 k1 a0 a1 a2) (hlt : spatial_mag.eval k0 k1 a0 a1 a2 < t) :
    0 ≤ lorentz_beta.eval k0 k1 .t a0 a1 a2 t ∧ lorentz_beta.eval k0 k1 .t a0 a1 a2 t < 1 := by
  have ht : 0 < t := lt_of_le_of_lt hm hlt
  have e : lorentz_beta.eval k0 k1 .t a0 a1 a2 t = spatial_mag.eval k0 k1 a0 a1 a2 / t := by
    cases k0 <;> cases k1 <;> rfl
  rw [e]
  exact ⟨div_nonneg hm ht.le, (div_lt_one ht).2 hlt⟩

/-- Six `t` keys: on the forward light cone (`mag = t > 0`) `beta = 1`. -/
theorem c13_lorentz_beta_lightlike (k0 : Az) (k1 : Lon) (a0 a1 a2 t : ℝ) (ht : 0 < t)
    (heq : spatial_mag.eval k0 k1 a0 a1 a2 = t) :
    lorentz_beta.eval k0 k1 .t a0 a1 a2 t = 1 := by
  have e : lorentz_beta.eval k0 k1 .t a0 a1 a2 t = spatial_mag.eval k0 k1 a0 a1 a2 / t := by
    cases k0 <;> cases k1 <;> rfl
  rw [e, heq, div_self ht.ne']

/-- Cartesian, forward timelike (`0 < t`, `x²+y²+z² < t²`): `0 ≤ beta < 1`. -/
theorem c13_lorentz_beta_xy_z_t_range (x y z t : ℝ) (ht : 0 < t) (h : x ^ 2 + y ^ 2 + z ^ 2 < t ^ 2) :
    0 ≤ lorentz_beta.xy_z_t x y z t ∧ lorentz_beta.xy_z_t x y z t < 1 := by
  apply c13_lorentz_beta_range .xy .z x y z t (c13_spatial_mag_xyz_nonneg x y z)
  simp only [d_spatial_mag, d_spatial_mag2]
  exact (Real.sqrt_lt' ht).2 h

/-- Cartesian, forward light cone (`0 < t`, `x²+y²+z² = t²`): `beta = 1`. -/
theorem c13_lorentz_beta_xy_z_t_lightlike (x y z t : ℝ) (ht : 0 < t) (h : x ^ 2 + y ^ 2 + z ^ 2 = t ^ 2) :
    lorentz_beta.xy_z_t x y z t = 1 := by
  apply c13_lorentz_beta_lightlike .xy .z x y z t ht
  simp only [d_spatial_mag, d_spatial_mag2]
  rw [h]; exact Real.sqrt_sq ht.le

/-- Six `t` keys, forward timelike (`0 < t`, `0 ≤ mag2 < t²`): `gamma = t / tau ≥ 1`. -/
theorem c13_lorentz_gamma_ge_one (k0 : Az) (k1 : Lon) (a0 a1 a2 t : ℝ) (ht : 0 < t)
    (hm : 0 ≤ spatial_mag2.eval k0 k1 a0 a1 a2) (hlt : spatial_mag2.eval k0 k1 a0 a1 a2 < t ^ 2) :
    1 ≤ lorentz_gamma.eval k0 k1 .t a0 a1 a2 t := by
  have e : lorentz_gamma.eval k0 k1 .t a0 a1 a2 t =
      t / P.copysign (√|t ^ 2 - spatial_mag2.eval k0 k1 a0 a1 a2|) (t ^ 2 - spatial_mag2.eval k0 k1 a0 a1 a2) := by
    cases k0 <;> cases k1 <;> rfl
  have hs : 0 < t ^ 2 - spatial_mag2.eval k0 k1 a0 a1 a2 := by linarith
  have hpos : 0 < √(t ^ 2 - spatial_mag2.eval k0 k1 a0 a1 a2) := Real.sqrt_pos.2 hs
  have hc : P.copysign (√|t ^ 2 - spatial_mag2.eval k0 k1 a0 a1 a2|) (t ^ 2 - spatial_mag2.eval k0 k1 a0 a1 a2) =
      √(t ^ 2 - spatial_mag2.eval k0 k1 a0 a1 a2) := by
    unfold P.copysign
    rw [if_pos hs.le, abs_of_pos hs, abs_of_pos hpos]
  rw [e, hc, one_le_div hpos, Real.sqrt_le_left ht.le]
  linarith

/-- Cartesian, forward timelike: `gamma ≥ 1`. -/
theorem c13_lorentz_gamma_xy_z_t_ge_one (x y z t : ℝ) (ht : 0 < t) (h : x ^ 2 + y ^ 2 + z ^ 2 < t ^ 2) :
    1 ≤ lorentz_gamma.xy_z_t x y z t := by
  apply c13_lorentz_gamma_ge_one .xy .z x y z t ht (c13_spatial_mag2_nonneg .xy .z x y z (fun h => by cases h))
  simp only [d_spatial_mag2]
  exact h

/-- hypotheses satisfiable: (x,y,z,t) = (1,0,0,2) is forward timelike, (3,4,0,5) is on the forward light cone. -/
example : (0 : ℝ) < 2 ∧ (1 : ℝ) ^ 2 + 0 ^ 2 + 0 ^ 2 < 2 ^ 2 := by norm_num
example : (0 : ℝ) < 5 ∧ (3 : ℝ) ^ 2 + 4 ^ 2 + 0 ^ 2 = 5 ^ 2 := by norm_num

/-! ## 4'. Sign conventions for every coordinate system: `costheta.eval` and `cottheta.eval` have the sign
of the generated `z.eval` of the same key (vectors off the beam axis: positive transverse radius). -/

/-- `a` and `b` have the same sign (positive / negative / zero together). -/
private def SS (a b : ℝ) : Prop := (0 < a ↔ 0 < b) ∧ (a < 0 ↔ b < 0) ∧ (a = 0 ↔ b = 0)

private theorem SS.of_eq {a b c : ℝ} (hc : 0 < c) (h : a = c * b) : SS a b := by
  subst h
  refine ⟨mul_pos_iff_of_pos_left hc, ?_, ?_⟩
  · rw [← neg_pos, ← mul_neg, mul_pos_iff_of_pos_left hc, neg_pos]
  · rw [mul_eq_zero]
    constructor
    · rintro (h | h)
      · exact absurd h hc.ne'
      · exact h
    · exact Or.inr

private theorem SS.symm {a b : ℝ} (h : SS a b) : SS b a := ⟨h.1.symm, h.2.1.symm, h.2.2.symm⟩
private theorem SS.trans {a b c : ℝ} (h : SS a b) (g : SS b c) : SS a c :=
  ⟨h.1.trans g.1, h.2.1.trans g.2.1, h.2.2.trans g.2.2⟩

private theorem two_arctan_exp_mem (eta : ℝ) :
    0 < 2 * Real.arctan (Real.exp (-eta)) ∧ 2 * Real.arctan (Real.exp (-eta)) < Real.pi := by
  have h1 := Real.arctan_pos.2 (Real.exp_pos (-eta))
  have h2 := Real.arctan_lt_pi_div_two (Real.exp (-eta))
  constructor <;> linarith

/-- `cos(2·arctan(e^{-η})) = c · (ρ·sinh η)` with `c > 0`. -/
private theorem cos_two_arctan_exp (rho eta : ℝ) (hρ : 0 < rho) :
    SS (Real.cos (2 * Real.arctan (Real.exp (-eta)))) (rho * Real.sinh eta) := by
  have hu : 0 < Real.exp (-eta) := Real.exp_pos _
  have hv : Real.exp eta = (Real.exp (-eta))⁻¹ := by rw [Real.exp_neg, inv_inv]
  apply SS.of_eq (c := 2 * Real.exp (-eta) / ((1 + Real.exp (-eta) ^ 2) * rho)) (by positivity)
  rw [Real.cos_two_mul, Real.cos_sq_arctan, Real.sinh_eq, hv]
  field_simp
  ring

private theorem cot_ss_cos {t : ℝ} (h0 : 0 < t) (hpi : t < Real.pi) : SS (1 / Real.tan t) (Real.cos t) := by
  have hs : 0 < Real.sin t := Real.sin_pos_of_pos_of_lt_pi h0 hpi
  apply SS.of_eq (c := 1 / Real.sin t) (by positivity)
  rw [Real.tan_eq_sin_div_cos, one_div_div]
  ring

private theorem z_theta_ss_cos {rho t : ℝ} (hρ : 0 < rho) (h0 : 0 < t) (hpi : t < Real.pi) :
    SS (rho / Real.tan t) (Real.cos t) := by
  have hs : 0 < Real.sin t := Real.sin_pos_of_pos_of_lt_pi h0 hpi
  apply SS.of_eq (c := rho / Real.sin t) (by positivity)
  rw [Real.tan_eq_sin_div_cos, div_div_eq_mul_div]
  ring

private theorem sqrt3_pos_of_sqrt2_pos {x y : ℝ} (z : ℝ) (h : 0 < √(x ^ 2 + y ^ 2)) :
    0 < √(x ^ 2 + y ^ 2 + z ^ 2) := by
  rw [Real.sqrt_pos] at h ⊢
  nlinarith [sq_nonneg z]

/-- All six keys: `costheta` has the sign of `z`. Hypotheses: positive transverse radius; for `theta`
keys the stored polar angle lies in `(0, π)` and is not exactly `π/2` (where the code's `z = rho / tan θ`
divides by an infinite tangent). -/
theorem c13_spatial_costheta_sign (k0 : Az) (k1 : Lon) (a0 a1 a2 : ℝ)
    (hρ : 0 < planar_rho.eval k0 a0 a1)
    (hθ : k1 = .theta → 0 < a2 ∧ a2 < Real.pi ∧ a2 ≠ Real.pi / 2) :
    (0 < spatial_costheta.eval k0 k1 a0 a1 a2 ↔ 0 < spatial_z.eval k0 k1 a0 a1 a2) ∧
      (spatial_costheta.eval k0 k1 a0 a1 a2 < 0 ↔ spatial_z.eval k0 k1 a0 a1 a2 < 0) ∧
      (spatial_costheta.eval k0 k1 a0 a1 a2 = 0 ↔ spatial_z.eval k0 k1 a0 a1 a2 = 0) := by
  have two : (2.0 : ℝ) = 2 := by norm_num
  cases k1
  · -- z keys
    cases k0 <;> simp only [planar_rho.eval, planar_rho.xy, planar_rho.rhophi, planar_rho2.xy] at hρ <;>
      simp only [spatial_costheta.eval, spatial_costheta.xy_z, spatial_costheta.rhophi_z, P.nanToNum_eq,
        spatial_z.eval, spatial_z.xy_z, spatial_z.rhophi_z, d_spatial_mag, d_spatial_mag2]
    · exact div_sign_iff a2 (sqrt3_pos_of_sqrt2_pos a2 hρ)
    · refine div_sign_iff a2 (Real.sqrt_pos.2 ?_)
      have : 0 < a0 ^ 2 := by positivity
      nlinarith [sq_nonneg a2]
  · -- theta keys
    obtain ⟨h0, hpi, _⟩ := hθ rfl
    cases k0 <;> simp only [planar_rho.eval, planar_rho.rhophi] at hρ <;>
      simp only [spatial_costheta.eval, spatial_costheta.xy_theta, spatial_costheta.rhophi_theta, P.nanToNum_eq,
        spatial_z.eval, spatial_z.xy_theta, spatial_z.rhophi_theta] <;>
      exact (z_theta_ss_cos hρ h0 hpi).symm
  · -- eta keys
    cases k0 <;> simp only [planar_rho.eval, planar_rho.rhophi] at hρ <;>
      simp only [spatial_costheta.eval, spatial_costheta.xy_eta, spatial_costheta.rhophi_eta,
        spatial_theta.xy_eta, spatial_theta.rhophi_eta, spatial_z.eval, spatial_z.xy_eta, spatial_z.rhophi_eta, two] <;>
      exact cos_two_arctan_exp _ a2 hρ

/-- All six keys: `cottheta` has the sign of `z`. Hypotheses: positive transverse radius; the singular
inputs of `1 / tan` are excluded (`theta` keys: `θ ∈ (0, π)`, `θ ≠ π/2`; `eta` keys: `η ≠ 0`). -/
theorem c13_spatial_cottheta_sign (k0 : Az) (k1 : Lon) (a0 a1 a2 : ℝ)
    (hρ : 0 < planar_rho.eval k0 a0 a1)
    (hθ : k1 = .theta → 0 < a2 ∧ a2 < Real.pi ∧ a2 ≠ Real.pi / 2)
    (_hη : k1 = .eta → a2 ≠ 0) :
    (0 < spatial_cottheta.eval k0 k1 a0 a1 a2 ↔ 0 < spatial_z.eval k0 k1 a0 a1 a2) ∧
      (spatial_cottheta.eval k0 k1 a0 a1 a2 < 0 ↔ spatial_z.eval k0 k1 a0 a1 a2 < 0) ∧
      (spatial_cottheta.eval k0 k1 a0 a1 a2 = 0 ↔ spatial_z.eval k0 k1 a0 a1 a2 = 0) := by
  have two : (2.0 : ℝ) = 2 := by norm_num
  cases k1
  · cases k0 <;> simp only [planar_rho.eval, planar_rho.rhophi] at hρ <;>
      simp only [spatial_cottheta.eval, spatial_cottheta.xy_z, spatial_cottheta.rhophi_z, P.nanToNum_eq,
        spatial_z.eval, spatial_z.xy_z, spatial_z.rhophi_z] <;>
      exact div_sign_iff a2 hρ
  · obtain ⟨h0, hpi, _⟩ := hθ rfl
    cases k0 <;> simp only [planar_rho.eval, planar_rho.rhophi] at hρ <;>
      simp only [spatial_cottheta.eval, spatial_cottheta.xy_theta, spatial_cottheta.rhophi_theta, P.nanToNum_eq,
        spatial_z.eval, spatial_z.xy_theta, spatial_z.rhophi_theta] <;>
      exact (cot_ss_cos h0 hpi).trans (z_theta_ss_cos hρ h0 hpi).symm
  · have hm := two_arctan_exp_mem a2
    cases k0 <;> simp only [planar_rho.eval, planar_rho.rhophi] at hρ <;>
      simp only [spatial_cottheta.eval, spatial_cottheta.xy_eta, spatial_cottheta.rhophi_eta,
        spatial_theta.xy_eta, spatial_theta.rhophi_eta, spatial_z.eval, spatial_z.xy_eta, spatial_z.rhophi_eta, two] <;>
      exact (cot_ss_cos hm.1 hm.2).trans (cos_two_arctan_exp _ a2 hρ)

example : 0 < planar_rho.eval .rhophi 1 0 ∧ 0 < Real.pi / 4 ∧ Real.pi / 4 < Real.pi ∧ Real.pi / 4 ≠ Real.pi / 2 := by
  have := Real.pi_pos
  refine ⟨by simp only [d_planar_rho]; norm_num, by linarith, by linarith, ?_⟩
  intro h; linarith

/-! ## Remarks on the boundary: all thresholds are strict

With `tolerance = 0` nothing is lightlike / perpendicular (not even an exactly null vector or exactly
orthogonal vectors), and no Cartesian pair is parallel or antiparallel (not even `v` with itself). -/

theorem c13_is_lightlike_tol_zero (k0 : Az) (k1 : Lon) (k2 : Tmp) (a1 a2 a3 a4 : ℝ) :
    ¬ lorentz_is_lightlike.eval k0 k1 k2 0 a1 a2 a3 a4 := by
  rw [c13_is_lightlike_iff_dot, abs_zero]
  exact not_lt.2 (abs_nonneg _)

theorem c13_spatial_is_perpendicular_tol_zero (k0 : Az) (k1 : Lon) (k2 : Az) (k3 : Lon) (a0 a1 a2 b0 b1 b2 : ℝ) :
    ¬ spatial_is_perpendicular.eval k0 k1 k2 k3 0 a0 a1 a2 b0 b1 b2 := by
  rw [c13_spatial_is_perpendicular_iff, abs_zero, zero_mul, zero_mul]
  exact not_lt.2 (abs_nonneg _)

theorem c13_planar_is_perpendicular_tol_zero (k0 k1 : Az) (a0 a1 b0 b1 : ℝ) :
    ¬ planar_is_perpendicular.eval k0 k1 0 a0 a1 b0 b1 := by
  rw [c13_planar_is_perpendicular_iff, abs_zero, zero_mul, zero_mul]
  exact not_lt.2 (abs_nonneg _)

theorem c13_spatial_is_parallel_cartesian_tol_zero (x1 y1 z1 x2 y2 z2 : ℝ) :
    ¬ spatial_is_parallel.eval .xy .z .xy .z 0 x1 y1 z1 x2 y2 z2 := by
  rw [c13_spatial_is_parallel_iff, abs_zero, sub_zero, one_mul]
  have := (abs_le.mp (c13_spatial_abs_dot_le_cartesian x1 y1 z1 x2 y2 z2)).2
  exact not_lt.2 this

theorem c13_spatial_is_antiparallel_cartesian_tol_zero (x1 y1 z1 x2 y2 z2 : ℝ) :
    ¬ spatial_is_antiparallel.eval .xy .z .xy .z 0 x1 y1 z1 x2 y2 z2 := by
  rw [c13_spatial_is_antiparallel_iff, abs_zero]
  have := (abs_le.mp (c13_spatial_abs_dot_le_cartesian x1 y1 z1 x2 y2 z2)).1
  intro h
  linarith

/-! ## 1'. Causal classification in every coordinate system follows `t² - mag²`

The spatial self-product equals the generated `mag2` of the same key, so for the six `t` keys the
Minkowski self-product is `t² - mag2`, and for the six `tau` keys with `0 ≤ tau` it is `tau²`. -/

/-- For `theta` keys the stored polar angle must not be a singular input of `tan` / `1/sin`. -/
theorem c13_spatial_dot_self (k0 : Az) (k1 : Lon) (a0 a1 a2 : ℝ)
    (hθ : k1 = .theta → Real.sin a2 ≠ 0 ∧ Real.cos a2 ≠ 0) :
    spatial_dot.eval k0 k1 k0 k1 a0 a1 a2 a0 a1 a2 = spatial_mag2.eval k0 k1 a0 a1 a2 := by
  have half : (0.5 : ℝ) = 1 / 2 := by norm_num
  induction k1
  · -- z keys
    induction k0
    · simp only [spatial_dot.eval, spatial_dot.xy_z_xy_z, d_spatial_mag2]; ring
    · simp only [spatial_dot.eval, spatial_dot.rhophi_z_rhophi_z, d_spatial_mag2, sub_self, Real.cos_zero]; ring
  · -- theta keys
    obtain ⟨hs, hc⟩ := hθ rfl
    induction k0
    · simp only [spatial_dot.eval, spatial_dot.xy_theta_xy_theta, spatial_dot.xy_z_xy_z, d_planar_x, d_planar_y,
        d_spatial_z, d_spatial_mag2, P.nanToNum_eq, d_planar_rho, d_planar_rho2]
      have hs2 : √(a0 ^ 2 + a1 ^ 2) ^ 2 = a0 ^ 2 + a1 ^ 2 := Real.sq_sqrt (by positivity)
      rw [Real.tan_eq_sin_div_cos]
      field_simp
      linear_combination (Real.cos a2 ^ 2) * hs2 + (a0 ^ 2 + a1 ^ 2) * Real.sin_sq_add_cos_sq a2
    · simp only [spatial_dot.eval, spatial_dot.rhophi_theta_rhophi_theta, d_spatial_mag2, sub_self, Real.cos_zero]
      rw [Real.tan_eq_sin_div_cos]
      field_simp
      linear_combination (a0 ^ 2) * Real.sin_sq_add_cos_sq a2
  · -- eta keys
    have hu : Real.exp (-a2) ≠ 0 := (Real.exp_pos _).ne'
    have hv : Real.exp a2 = (Real.exp (-a2))⁻¹ := by rw [Real.exp_neg, inv_inv]
    induction k0
    · simp only [spatial_dot.eval, spatial_dot.xy_eta_xy_eta, spatial_dot.xy_z_xy_z, d_planar_x, d_planar_y,
        d_spatial_z, d_spatial_mag2, d_planar_rho, d_planar_rho2, half]
      have hs2 : √(a0 ^ 2 + a1 ^ 2) ^ 2 = a0 ^ 2 + a1 ^ 2 := Real.sq_sqrt (by positivity)
      rw [Real.sinh_eq, hv]
      field_simp
      linear_combination ((1 - Real.exp (-a2) ^ 2) ^ 2) * hs2
    · simp only [spatial_dot.eval, spatial_dot.rhophi_eta_rhophi_eta, d_spatial_mag2, sub_self, Real.cos_zero, half]
      field_simp
      ring

theorem c13_lorentz_dot_self_t (k0 : Az) (k1 : Lon) (a0 a1 a2 t : ℝ)
    (hθ : k1 = .theta → Real.sin a2 ≠ 0 ∧ Real.cos a2 ≠ 0) :
    lorentz_dot.eval k0 k1 .t k0 k1 .t a0 a1 a2 t a0 a1 a2 t = t ^ 2 - spatial_mag2.eval k0 k1 a0 a1 a2 := by
  have e : lorentz_dot.eval k0 k1 .t k0 k1 .t a0 a1 a2 t a0 a1 a2 t =
      t * t - spatial_dot.eval k0 k1 k0 k1 a0 a1 a2 a0 a1 a2 := by
    induction k0 <;> induction k1 <;> rfl
  rw [e, c13_spatial_dot_self k0 k1 a0 a1 a2 hθ]; ring

theorem c13_lorentz_dot_self_tau (k0 : Az) (k1 : Lon) (a0 a1 a2 tau : ℝ)
    (hθ : k1 = .theta → Real.sin a2 ≠ 0 ∧ Real.cos a2 ≠ 0) (htau : 0 ≤ tau) :
    lorentz_dot.eval k0 k1 .tau k0 k1 .tau a0 a1 a2 tau a0 a1 a2 tau = tau ^ 2 := by
  have e : lorentz_dot.eval k0 k1 .tau k0 k1 .tau a0 a1 a2 tau a0 a1 a2 tau =
      lorentz_t.eval k0 k1 .tau a0 a1 a2 tau * lorentz_t.eval k0 k1 .tau a0 a1 a2 tau -
        spatial_dot.eval k0 k1 k0 k1 a0 a1 a2 a0 a1 a2 := by
    induction k0 <;> induction k1 <;> rfl
  have h := c13_lorentz_t_tau_sq_of_nonneg k0 k1 a0 a1 a2 tau (fun h => (hθ h).1) htau
  rw [e, c13_spatial_dot_self k0 k1 a0 a1 a2 hθ, ← sq, h]; ring

/-- Six `t` keys: timelike ⇔ `t² - mag² > |tol|`, spacelike ⇔ `t² - mag² < -|tol|`, lightlike ⇔ `|t² - mag²| < |tol|`. -/
theorem c13_causal_classes_t_keys (k0 : Az) (k1 : Lon) (tol a0 a1 a2 t : ℝ)
    (hθ : k1 = .theta → Real.sin a2 ≠ 0 ∧ Real.cos a2 ≠ 0) :
    (lorentz_is_timelike.eval k0 k1 .t tol a0 a1 a2 t ↔ t ^ 2 - spatial_mag2.eval k0 k1 a0 a1 a2 > |tol|) ∧
    (lorentz_is_spacelike.eval k0 k1 .t tol a0 a1 a2 t ↔ t ^ 2 - spatial_mag2.eval k0 k1 a0 a1 a2 < -|tol|) ∧
    (lorentz_is_lightlike.eval k0 k1 .t tol a0 a1 a2 t ↔ |t ^ 2 - spatial_mag2.eval k0 k1 a0 a1 a2| < |tol|) := by
  rw [c13_is_timelike_iff_dot, c13_is_spacelike_iff_dot, c13_is_lightlike_iff_dot,
    c13_lorentz_dot_self_t k0 k1 a0 a1 a2 t hθ]
  exact ⟨Iff.rfl, Iff.rfl, Iff.rfl⟩

/-- Six `tau` keys, `0 ≤ tau`: timelike ⇔ `tau² > |tol|`, lightlike ⇔ `tau² < |tol|`, never spacelike. -/
theorem c13_causal_classes_tau_keys (k0 : Az) (k1 : Lon) (tol a0 a1 a2 tau : ℝ)
    (hθ : k1 = .theta → Real.sin a2 ≠ 0 ∧ Real.cos a2 ≠ 0) (htau : 0 ≤ tau) :
    (lorentz_is_timelike.eval k0 k1 .tau tol a0 a1 a2 tau ↔ tau ^ 2 > |tol|) ∧
    (lorentz_is_lightlike.eval k0 k1 .tau tol a0 a1 a2 tau ↔ tau ^ 2 < |tol|) ∧
    ¬ lorentz_is_spacelike.eval k0 k1 .tau tol a0 a1 a2 tau := by
  rw [c13_is_timelike_iff_dot, c13_is_spacelike_iff_dot, c13_is_lightlike_iff_dot,
    c13_lorentz_dot_self_tau k0 k1 a0 a1 a2 tau hθ htau, abs_of_nonneg (sq_nonneg tau)]
  refine ⟨Iff.rfl, Iff.rfl, ?_⟩
  have := abs_nonneg tol
  have := sq_nonneg tau
  intro h; linarith

example : Real.sin (Real.pi / 4) ≠ 0 ∧ Real.cos (Real.pi / 4) ≠ 0 := by
  rw [Real.sin_pi_div_four, Real.cos_pi_div_four]
  have : (0 : ℝ) < √2 / 2 := by positivity
  exact ⟨this.ne', this.ne'⟩

end VR
