/-
C01 — coordinate independence.

For every operation with a scalar or vector result and for EVERY coordinate-system key `k`, the value computed by the
generated model of the variant found under `k` — interpreted through the DECLARED result type `ret k` for vector
results — equals the value computed by the all-Cartesian variant (`k₀ = (xy)`, `(xy, z)`, `(xy, z, t)`) on the Cartesian
components `xOf / yOf / zOf / tOf` of the vectors the operands denote.

All theorems are corollaries of the refinement theorems in `VectorModel/Refine/*.lean` (both sides equal `Spec.op` of the
denotations; at `k₀` the denotation map is the identity).  Hypotheses: the operands are representable (`Canon…`), `TanOK`
(`cos θ ≠ 0`: the code divides by `tan θ`), `SinOK` (`sin θ ≠ 0`), the exact result is representable in the declared
result system (`Representable3`, and for `subtract` of two τ-stored vectors a future-directed causal difference), and
the natural domain of the quantity (`0 < ρ`, `0 < |p|`, time-like, …).

`…_partial` theorems need a hypothesis that C01 does not grant (genuine key-dependence of the code, witnessed in
`VectorModel/Findings/C01.lean`): `Et` and `to_beta3` for `t < 0`, `scale` of a τ-stored vector by a negative factor.
-/
import VectorModel.Refine.Planar
import VectorModel.Refine.SpatialZ
import VectorModel.Refine.SpatialAcc
import VectorModel.Refine.SpatialBin
import VectorModel.Refine.SpatialRot
import VectorModel.Refine.LorentzAcc
import VectorModel.Refine.LorentzBin

namespace VR
open VK Spec Real

/-! ### helpers: the denotation map is the identity at the Cartesian key -/

private theorem canon2_of_pos {k : Az} {a b : ℝ} (h : 0 < rhoOf k a b) : Canon2 k a b := by
  cases k
  · trivial
  · exact h.le

private theorem rhoOf_cart (k : Az) (a b : ℝ) (h : Canon2 k a b) :
    rhoOf .xy (xOf k a b) (yOf k a b) = rhoOf k a b := by
  show sqrt (xOf k a b ^ 2 + yOf k a b ^ 2) = rhoOf k a b
  rw [Spec.sq_xOf_add_sq_yOf, sqrt_sq (Spec.rhoOf_nonneg h)]

private theorem rhoOf_cart_sq (k : Az) (a b : ℝ) :
    rhoOf .xy (xOf k a b) (yOf k a b) ^ 2 = rhoOf k a b ^ 2 := by
  show sqrt (xOf k a b ^ 2 + yOf k a b ^ 2) ^ 2 = rhoOf k a b ^ 2
  rw [L.sq_sqrt_sumsq, Spec.sq_xOf_add_sq_yOf]

private theorem rep3_cart_add (p : ℝ × ℝ × ℝ) : Representable3 (spatial_add.ret .xy .z .xy .z) p := Or.inl rfl
private theorem rep3_cart_sub (p : ℝ × ℝ × ℝ) : Representable3 (spatial_subtract.ret .xy .z .xy .z) p := Or.inl rfl

/-! ## 2D -/

theorem c01_planar_x (k : Az) (a b : ℝ) : planar_x.eval k a b = planar_x.eval .xy (xOf k a b) (yOf k a b) :=
  refine_planar_x k a b

theorem c01_planar_y (k : Az) (a b : ℝ) : planar_y.eval k a b = planar_y.eval .xy (xOf k a b) (yOf k a b) :=
  refine_planar_y k a b

/-- `rho`: needs `0 ≤ ρ` for polar storage (the Cartesian variant returns `√(x²+y²) ≥ 0`) -/
theorem c01_planar_rho (k : Az) (a b : ℝ) (h : Canon2 k a b) :
    planar_rho.eval k a b = planar_rho.eval .xy (xOf k a b) (yOf k a b) := by
  rw [refine_planar_rho, refine_planar_rho, rhoOf_cart k a b h]

theorem c01_planar_rho2 (k : Az) (a b : ℝ) :
    planar_rho2.eval k a b = planar_rho2.eval .xy (xOf k a b) (yOf k a b) := by
  rw [refine_planar_rho2, refine_planar_rho2]; rfl

/-- `phi`: off the origin and with the stored φ in `(-π, π]` -/
theorem c01_planar_phi (k : Az) (a b : ℝ) (h : 0 < rhoOf k a b) (hp : CanonPhi k a b) :
    planar_phi.eval k a b = planar_phi.eval .xy (xOf k a b) (yOf k a b) :=
  refine_planar_phi k a b h hp

theorem c01_planar_dot (k0 k1 : Az) (a0 a1 a2 a3 : ℝ) :
    planar_dot.eval k0 k1 a0 a1 a2 a3
      = planar_dot.eval .xy .xy (xOf k0 a0 a1) (yOf k0 a0 a1) (xOf k1 a2 a3) (yOf k1 a2 a3) := by
  rw [refine_planar_dot, refine_planar_dot]; rfl

theorem c01_planar_add (k0 k1 : Az) (a0 a1 a2 a3 : ℝ) :
    interp2 (planar_add.ret k0 k1) (planar_add.eval k0 k1 a0 a1 a2 a3)
      = interp2 (planar_add.ret .xy .xy)
          (planar_add.eval .xy .xy (xOf k0 a0 a1) (yOf k0 a0 a1) (xOf k1 a2 a3) (yOf k1 a2 a3)) := by
  rw [refine_planar_add, refine_planar_add]; rfl

theorem c01_planar_subtract (k0 k1 : Az) (a0 a1 a2 a3 : ℝ) :
    interp2 (planar_subtract.ret k0 k1) (planar_subtract.eval k0 k1 a0 a1 a2 a3)
      = interp2 (planar_subtract.ret .xy .xy)
          (planar_subtract.eval .xy .xy (xOf k0 a0 a1) (yOf k0 a0 a1) (xOf k1 a2 a3) (yOf k1 a2 a3)) := by
  rw [refine_planar_subtract, refine_planar_subtract]; rfl

theorem c01_planar_scale (k : Az) (f a b : ℝ) :
    interp2 (planar_scale.ret k) (planar_scale.eval k f a b)
      = interp2 (planar_scale.ret .xy) (planar_scale.eval .xy f (xOf k a b) (yOf k a b)) := by
  rw [refine_planar_scale, refine_planar_scale]; rfl

theorem c01_planar_rotateZ (k : Az) (ang a b : ℝ) :
    interp2 (planar_rotateZ.ret k) (planar_rotateZ.eval k ang a b)
      = interp2 (planar_rotateZ.ret .xy) (planar_rotateZ.eval .xy ang (xOf k a b) (yOf k a b)) := by
  rw [refine_planar_rotateZ, refine_planar_rotateZ]; rfl

theorem c01_planar_transform2D (k : Az) (xx xy yx yy a b : ℝ) :
    interp2 (planar_transform2D.ret k) (planar_transform2D.eval k xx xy yx yy a b)
      = interp2 (planar_transform2D.ret .xy) (planar_transform2D.eval .xy xx xy yx yy (xOf k a b) (yOf k a b)) := by
  rw [refine_planar_transform2D, refine_planar_transform2D]; rfl

theorem c01_planar_unit (k : Az) (a b : ℝ) (h : 0 < rhoOf k a b) :
    interp2 (planar_unit.ret k) (planar_unit.eval k a b)
      = interp2 (planar_unit.ret .xy) (planar_unit.eval .xy (xOf k a b) (yOf k a b)) := by
  have e := rhoOf_cart k a b (canon2_of_pos h)
  have hR := refine_planar_unit .xy (xOf k a b) (yOf k a b) (by rw [e]; exact h)
  rw [refine_planar_unit k a b h, hR, e]; rfl

/-- `deltaphi`: off the origin (the stored φ need not be canonical, `rectify` is 2π-periodic) -/
theorem c01_planar_deltaphi (k0 k1 : Az) (a0 a1 a2 a3 : ℝ) (h0 : 0 < rhoOf k0 a0 a1) (h1 : 0 < rhoOf k1 a2 a3) :
    planar_deltaphi.eval k0 k1 a0 a1 a2 a3
      = planar_deltaphi.eval .xy .xy (xOf k0 a0 a1) (yOf k0 a0 a1) (xOf k1 a2 a3) (yOf k1 a2 a3) :=
  refine_spatial_deltaphi_key k0 k1 a0 a1 a2 a3 h0 h1

example : 0 < rhoOf .rhophi 2 1 ∧ CanonPhi .rhophi 2 1 ∧ Canon2 .rhophi 2 1 := by
  refine ⟨by norm_num [rhoOf], ⟨?_, ?_⟩, by norm_num [Canon2]⟩ <;> linarith [Real.one_le_pi_div_two, Real.pi_pos]

/-! ## 3D accessors -/

theorem c01_spatial_z (k0 : Az) (k1 : Lon) (a b c : ℝ) (h : TanOK k1 c) :
    spatial_z.eval k0 k1 a b c = spatial_z.eval .xy .z (xOf k0 a b) (yOf k0 a b) (zOf k0 k1 a b c) :=
  refine_spatial_z k0 k1 a b c h

theorem c01_spatial_mag2 (k0 : Az) (k1 : Lon) (a b c : ℝ) (h : SinOK k1 c) :
    spatial_mag2.eval k0 k1 a b c = spatial_mag2.eval .xy .z (xOf k0 a b) (yOf k0 a b) (zOf k0 k1 a b c) := by
  rw [refine_spatial_mag2 k0 k1 a b c h, refine_spatial_mag2 .xy .z _ _ _ trivial]; rfl

theorem c01_spatial_mag (k0 : Az) (k1 : Lon) (a b c : ℝ) (h2 : Canon2 k0 a b) (h : SinOK k1 c) :
    spatial_mag.eval k0 k1 a b c = spatial_mag.eval .xy .z (xOf k0 a b) (yOf k0 a b) (zOf k0 k1 a b c) := by
  rw [refine_spatial_mag k0 k1 a b c h2 h, refine_spatial_mag .xy .z _ _ _ trivial trivial]; rfl

theorem c01_spatial_costheta (k0 : Az) (k1 : Lon) (a b c : ℝ) (h : Canon3 k0 k1 a b c)
    (hm : 0 < mag2Of k0 k1 a b c) :
    spatial_costheta.eval k0 k1 a b c
      = spatial_costheta.eval .xy .z (xOf k0 a b) (yOf k0 a b) (zOf k0 k1 a b c) := by
  have hR := refine_spatial_costheta .xy .z (xOf k0 a b) (yOf k0 a b) (zOf k0 k1 a b c) ⟨trivial, trivial⟩ hm
  rw [refine_spatial_costheta k0 k1 a b c h hm, hR]; rfl

theorem c01_spatial_theta (k0 : Az) (k1 : Lon) (a b c : ℝ) (h : Canon3 k0 k1 a b c)
    (hm : 0 < mag2Of k0 k1 a b c) :
    spatial_theta.eval k0 k1 a b c
      = spatial_theta.eval .xy .z (xOf k0 a b) (yOf k0 a b) (zOf k0 k1 a b c) := by
  have hR := refine_spatial_theta .xy .z (xOf k0 a b) (yOf k0 a b) (zOf k0 k1 a b c) ⟨trivial, trivial⟩ hm
  rw [refine_spatial_theta k0 k1 a b c h hm, hR]; rfl

theorem c01_spatial_cottheta (k0 : Az) (k1 : Lon) (a b c : ℝ) (hr : 0 < rhoOf k0 a b) (ht : TanOK k1 c) :
    spatial_cottheta.eval k0 k1 a b c
      = spatial_cottheta.eval .xy .z (xOf k0 a b) (yOf k0 a b) (zOf k0 k1 a b c) := by
  have e := rhoOf_cart k0 a b (canon2_of_pos hr)
  have hR := refine_spatial_cottheta .xy .z (xOf k0 a b) (yOf k0 a b) (zOf k0 k1 a b c) (by rw [e]; exact hr) trivial
  rw [refine_spatial_cottheta k0 k1 a b c hr ht, hR, e]; rfl

theorem c01_spatial_eta (k0 : Az) (k1 : Lon) (a b c : ℝ) (hr : 0 < rhoOf k0 a b) (h : CanonLon k0 k1 a b c) :
    spatial_eta.eval k0 k1 a b c
      = spatial_eta.eval .xy .z (xOf k0 a b) (yOf k0 a b) (zOf k0 k1 a b c) := by
  have e := rhoOf_cart k0 a b (canon2_of_pos hr)
  have hR := refine_spatial_eta .xy .z (xOf k0 a b) (yOf k0 a b) (zOf k0 k1 a b c) (by rw [e]; exact hr) trivial
  rw [refine_spatial_eta k0 k1 a b c hr h, hR, e]; rfl

example (k1 : Lon) : Canon3 .xy k1 3 4 1 ∧ 0 < mag2Of .xy k1 3 4 1 ∧ 0 < rhoOf .xy 3 4 ∧ TanOK k1 1 ∧ SinOK k1 1 := by
  have hr : 0 < rhoOf .xy 3 4 := L.sqrt_sumsq_pos (Or.inl (by norm_num))
  have hm : 0 < mag2Of .xy k1 3 4 1 := by rw [Spec.mag2Of_eq]; positivity
  have hc : CanonLon .xy k1 3 4 1 := by
    cases k1
    · trivial
    · exact ⟨hr, one_pos, by linarith [two_le_pi]⟩
    · exact hr
  refine ⟨⟨trivial, hc⟩, hm, hr, ?_, Spec.SinOK_of_canonLon hc⟩
  cases k1
  · trivial
  · exact ne_of_gt cos_one_pos
  · trivial

/-! ## 3D binary and vector-valued operations -/

theorem c01_spatial_dot (k0 : Az) (k1 : Lon) (k2 : Az) (k3 : Lon) (a0 a1 a2 a3 a4 a5 : ℝ)
    (h1 : TanOK k1 a2) (h2 : TanOK k3 a5) :
    spatial_dot.eval k0 k1 k2 k3 a0 a1 a2 a3 a4 a5
      = spatial_dot.eval .xy .z .xy .z (xOf k0 a0 a1) (yOf k0 a0 a1) (zOf k0 k1 a0 a1 a2)
          (xOf k2 a3 a4) (yOf k2 a3 a4) (zOf k2 k3 a3 a4 a5) := by
  rw [refine_spatial_dot k0 k1 k2 k3 a0 a1 a2 a3 a4 a5 h1 h2, refine_spatial_dot .xy .z .xy .z _ _ _ _ _ _ trivial trivial]
  rfl

theorem c01_spatial_cross (k0 : Az) (k1 : Lon) (k2 : Az) (k3 : Lon) (a0 a1 a2 a3 a4 a5 : ℝ)
    (h1 : TanOK k1 a2) (h2 : TanOK k3 a5) :
    interp3 (spatial_cross.ret k0 k1 k2 k3) (spatial_cross.eval k0 k1 k2 k3 a0 a1 a2 a3 a4 a5)
      = interp3 (spatial_cross.ret .xy .z .xy .z)
          (spatial_cross.eval .xy .z .xy .z (xOf k0 a0 a1) (yOf k0 a0 a1) (zOf k0 k1 a0 a1 a2)
            (xOf k2 a3 a4) (yOf k2 a3 a4) (zOf k2 k3 a3 a4 a5)) := by
  rw [refine_spatial_cross k0 k1 k2 k3 a0 a1 a2 a3 a4 a5 h1 h2,
    refine_spatial_cross .xy .z .xy .z _ _ _ _ _ _ trivial trivial]
  rfl

/-- `add`: the exact sum must be representable in the declared result system (off the z axis for θ/η results) -/
theorem c01_spatial_add (k0 : Az) (k1 : Lon) (k2 : Az) (k3 : Lon) (a0 a1 a2 a3 a4 a5 : ℝ)
    (h1 : TanOK k1 a2) (h2 : TanOK k3 a5)
    (hrep : Representable3 (spatial_add.ret k0 k1 k2 k3) (add3 (cart3 k0 k1 a0 a1 a2) (cart3 k2 k3 a3 a4 a5))) :
    interp3 (spatial_add.ret k0 k1 k2 k3) (spatial_add.eval k0 k1 k2 k3 a0 a1 a2 a3 a4 a5)
      = interp3 (spatial_add.ret .xy .z .xy .z)
          (spatial_add.eval .xy .z .xy .z (xOf k0 a0 a1) (yOf k0 a0 a1) (zOf k0 k1 a0 a1 a2)
            (xOf k2 a3 a4) (yOf k2 a3 a4) (zOf k2 k3 a3 a4 a5)) := by
  rw [refine_spatial_add k0 k1 k2 k3 a0 a1 a2 a3 a4 a5 h1 h2 hrep,
    refine_spatial_add .xy .z .xy .z _ _ _ _ _ _ trivial trivial (rep3_cart_add _)]
  rfl

theorem c01_spatial_subtract (k0 : Az) (k1 : Lon) (k2 : Az) (k3 : Lon) (a0 a1 a2 a3 a4 a5 : ℝ)
    (h1 : TanOK k1 a2) (h2 : TanOK k3 a5)
    (hrep : Representable3 (spatial_subtract.ret k0 k1 k2 k3) (sub3 (cart3 k0 k1 a0 a1 a2) (cart3 k2 k3 a3 a4 a5))) :
    interp3 (spatial_subtract.ret k0 k1 k2 k3) (spatial_subtract.eval k0 k1 k2 k3 a0 a1 a2 a3 a4 a5)
      = interp3 (spatial_subtract.ret .xy .z .xy .z)
          (spatial_subtract.eval .xy .z .xy .z (xOf k0 a0 a1) (yOf k0 a0 a1) (zOf k0 k1 a0 a1 a2)
            (xOf k2 a3 a4) (yOf k2 a3 a4) (zOf k2 k3 a3 a4 a5)) := by
  rw [refine_spatial_subtract k0 k1 k2 k3 a0 a1 a2 a3 a4 a5 h1 h2 hrep,
    refine_spatial_subtract .xy .z .xy .z _ _ _ _ _ _ trivial trivial (rep3_cart_sub _)]
  rfl

/-- `scale`, any factor; the stored θ must lie in `[0, π]` (implied by `CanonLon`) -/
theorem c01_spatial_scale (k0 : Az) (k1 : Lon) (f a b c : ℝ) (h : ThetaRange k1 c) :
    interp3 (spatial_scale.ret k0 k1) (spatial_scale.eval k0 k1 f a b c)
      = interp3 (spatial_scale.ret .xy .z)
          (spatial_scale.eval .xy .z f (xOf k0 a b) (yOf k0 a b) (zOf k0 k1 a b c)) := by
  rw [refine_spatial_scale k0 k1 f a b c h, refine_spatial_scale .xy .z f _ _ _ trivial]; rfl

theorem c01_spatial_unit (k0 : Az) (k1 : Lon) (a b c : ℝ) (h : Canon3 k0 k1 a b c) (hm : 0 < mag2Of k0 k1 a b c) :
    interp3 (spatial_unit.ret k0 k1) (spatial_unit.eval k0 k1 a b c)
      = interp3 (spatial_unit.ret .xy .z)
          (spatial_unit.eval .xy .z (xOf k0 a b) (yOf k0 a b) (zOf k0 k1 a b c)) := by
  have hR := refine_spatial_unit .xy .z (xOf k0 a b) (yOf k0 a b) (zOf k0 k1 a b c) ⟨trivial, trivial⟩ hm
  rw [refine_spatial_unit k0 k1 a b c h hm, hR]; rfl

/-! ## 3D rotations and linear transformations (all declared results are Cartesian) -/

theorem c01_spatial_rotateX (k0 : Az) (k1 : Lon) (ang a b c : ℝ) (h : TanOK k1 c) :
    interp3 (spatial_rotateX.ret k0 k1) (spatial_rotateX.eval k0 k1 ang a b c)
      = interp3 (spatial_rotateX.ret .xy .z)
          (spatial_rotateX.eval .xy .z ang (xOf k0 a b) (yOf k0 a b) (zOf k0 k1 a b c)) := by
  rw [refine_spatial_rotateX_ret k0 k1, refine_spatial_rotateX_key k0 k1 ang a b c h]; rfl

theorem c01_spatial_rotateY (k0 : Az) (k1 : Lon) (ang a b c : ℝ) (h : TanOK k1 c) :
    interp3 (spatial_rotateY.ret k0 k1) (spatial_rotateY.eval k0 k1 ang a b c)
      = interp3 (spatial_rotateY.ret .xy .z)
          (spatial_rotateY.eval .xy .z ang (xOf k0 a b) (yOf k0 a b) (zOf k0 k1 a b c)) := by
  rw [refine_spatial_rotateY_ret k0 k1, refine_spatial_rotateY_key k0 k1 ang a b c h]; rfl

theorem c01_spatial_rotate_axis (k0 : Az) (k1 : Lon) (k2 : Az) (k3 : Lon) (ang a b c d e f : ℝ)
    (h1 : TanOK k1 c) (h2 : TanOK k3 f) :
    interp3 (spatial_rotate_axis.ret k0 k1 k2 k3) (spatial_rotate_axis.eval k0 k1 k2 k3 ang a b c d e f)
      = interp3 (spatial_rotate_axis.ret .xy .z .xy .z)
          (spatial_rotate_axis.eval .xy .z .xy .z ang (xOf k0 a b) (yOf k0 a b) (zOf k0 k1 a b c)
            (xOf k2 d e) (yOf k2 d e) (zOf k2 k3 d e f)) := by
  rw [refine_spatial_rotate_axis_ret k0 k1 k2 k3, refine_spatial_rotate_axis k0 k1 k2 k3 ang a b c d e f h1 h2]; rfl

theorem c01_spatial_rotate_euler (k0 : Az) (k1 : Lon) (o : Ord) (phi theta psi a b c : ℝ) (h : TanOK k1 c) :
    interp3 (spatial_rotate_euler.ret k0 k1 o) (spatial_rotate_euler.eval k0 k1 o phi theta psi a b c)
      = interp3 (spatial_rotate_euler.ret .xy .z o)
          (spatial_rotate_euler.eval .xy .z o phi theta psi (xOf k0 a b) (yOf k0 a b) (zOf k0 k1 a b c)) := by
  rw [refine_spatial_rotate_euler_ret k0 k1 o, refine_spatial_rotate_euler k0 k1 o phi theta psi a b c h,
    refine_spatial_rotate_euler_ret .xy .z o]

theorem c01_spatial_rotate_quaternion (k0 : Az) (k1 : Lon) (u i j k a b c : ℝ) (h : TanOK k1 c) :
    interp3 (spatial_rotate_quaternion.ret k0 k1) (spatial_rotate_quaternion.eval k0 k1 u i j k a b c)
      = interp3 (spatial_rotate_quaternion.ret .xy .z)
          (spatial_rotate_quaternion.eval .xy .z u i j k (xOf k0 a b) (yOf k0 a b) (zOf k0 k1 a b c)) := by
  rw [refine_spatial_rotate_quaternion_ret k0 k1, refine_spatial_rotate_quaternion k0 k1 u i j k a b c h]; rfl

theorem c01_spatial_transform3D (k0 : Az) (k1 : Lon) (xx xy xz yx yy yz zx zy zz a b c : ℝ) (h : TanOK k1 c) :
    interp3 (spatial_transform3D.ret k0 k1) (spatial_transform3D.eval k0 k1 xx xy xz yx yy yz zx zy zz a b c)
      = interp3 (spatial_transform3D.ret .xy .z)
          (spatial_transform3D.eval .xy .z xx xy xz yx yy yz zx zy zz (xOf k0 a b) (yOf k0 a b) (zOf k0 k1 a b c)) := by
  rw [refine_spatial_transform3D_ret k0 k1, refine_spatial_transform3D k0 k1 xx xy xz yx yy yz zx zy zz a b c h]; rfl

/-! ## 3D delta functions (re-exports of the `…_key` refinement theorems) -/

theorem c01_spatial_deltaeta (k0 : Az) (k1 : Lon) (k2 : Az) (k3 : Lon) (a b c d e f : ℝ)
    (hr1 : 0 < rhoOf k0 a b) (hr2 : 0 < rhoOf k2 d e) (h1 : CanonLon k0 k1 a b c) (h2 : CanonLon k2 k3 d e f) :
    spatial_deltaeta.eval k0 k1 k2 k3 a b c d e f
      = spatial_deltaeta.eval .xy .z .xy .z (xOf k0 a b) (yOf k0 a b) (zOf k0 k1 a b c)
          (xOf k2 d e) (yOf k2 d e) (zOf k2 k3 d e f) :=
  refine_spatial_deltaeta_key k0 k1 k2 k3 a b c d e f hr1 hr2 h1 h2

theorem c01_spatial_deltaR2 (k0 : Az) (k1 : Lon) (k2 : Az) (k3 : Lon) (a b c d e f : ℝ)
    (hr1 : 0 < rhoOf k0 a b) (hr2 : 0 < rhoOf k2 d e) (h1 : CanonLon k0 k1 a b c) (h2 : CanonLon k2 k3 d e f) :
    spatial_deltaR2.eval k0 k1 k2 k3 a b c d e f
      = spatial_deltaR2.eval .xy .z .xy .z (xOf k0 a b) (yOf k0 a b) (zOf k0 k1 a b c)
          (xOf k2 d e) (yOf k2 d e) (zOf k2 k3 d e f) :=
  refine_spatial_deltaR2_key k0 k1 k2 k3 a b c d e f hr1 hr2 h1 h2

theorem c01_spatial_deltaR (k0 : Az) (k1 : Lon) (k2 : Az) (k3 : Lon) (a b c d e f : ℝ)
    (hr1 : 0 < rhoOf k0 a b) (hr2 : 0 < rhoOf k2 d e) (h1 : CanonLon k0 k1 a b c) (h2 : CanonLon k2 k3 d e f) :
    spatial_deltaR.eval k0 k1 k2 k3 a b c d e f
      = spatial_deltaR.eval .xy .z .xy .z (xOf k0 a b) (yOf k0 a b) (zOf k0 k1 a b c)
          (xOf k2 d e) (yOf k2 d e) (zOf k2 k3 d e f) :=
  refine_spatial_deltaR_key k0 k1 k2 k3 a b c d e f hr1 hr2 h1 h2

theorem c01_spatial_deltaangle (k0 : Az) (k1 : Lon) (k2 : Az) (k3 : Lon) (a b c d e f : ℝ)
    (hc1 : Canon3 k0 k1 a b c) (hc2 : Canon3 k2 k3 d e f) (ht1 : TanOK k1 c) (ht2 : TanOK k3 f) :
    spatial_deltaangle.eval k0 k1 k2 k3 a b c d e f
      = spatial_deltaangle.eval .xy .z .xy .z (xOf k0 a b) (yOf k0 a b) (zOf k0 k1 a b c)
          (xOf k2 d e) (yOf k2 d e) (zOf k2 k3 d e f) :=
  refine_spatial_deltaangle_canon k0 k1 k2 k3 a b c d e f hc1 hc2 ht1 ht2

example : 0 < rhoOf .xy 3 4 ∧ 0 < rhoOf .rhophi 2 7 ∧ CanonLon .xy .theta 3 4 1 ∧ CanonLon .rhophi .eta 2 7 (-1)
    ∧ TanOK .theta 1 ∧ ThetaRange .theta 1 := by
  have h : 0 < rhoOf .xy 3 4 := L.sqrt_sumsq_pos (Or.inl (by norm_num))
  have h' : 0 < rhoOf .rhophi 2 7 := by norm_num [rhoOf]
  exact ⟨h, h', ⟨h, one_pos, by linarith [two_le_pi]⟩, h', ne_of_gt cos_one_pos,
    ⟨by norm_num, by linarith [two_le_pi]⟩⟩

/-! ## 4D accessors (`k₀ = (xy, z, t)`) -/

theorem c01_lorentz_t (k0 : Az) (k1 : Lon) (k2 : Tmp) (a b c d : ℝ) (h : CanonLon k0 k1 a b c) (hd : CanonTmp k2 d) :
    lorentz_t.eval k0 k1 k2 a b c d
      = lorentz_t.eval .xy .z .t (xOf k0 a b) (yOf k0 a b) (zOf k0 k1 a b c) (tOf k0 k1 k2 a b c d) :=
  refine_lorentz_t k0 k1 k2 a b c d h hd

theorem c01_lorentz_t2 (k0 : Az) (k1 : Lon) (k2 : Tmp) (a b c d : ℝ) (h : CanonLon k0 k1 a b c) (hd : CanonTmp k2 d) :
    lorentz_t2.eval k0 k1 k2 a b c d
      = lorentz_t2.eval .xy .z .t (xOf k0 a b) (yOf k0 a b) (zOf k0 k1 a b c) (tOf k0 k1 k2 a b c d) :=
  refine_lorentz_t2 k0 k1 k2 a b c d h hd

theorem c01_lorentz_tau2 (k0 : Az) (k1 : Lon) (k2 : Tmp) (a b c d : ℝ) (h : CanonLon k0 k1 a b c) (hd : CanonTmp k2 d) :
    lorentz_tau2.eval k0 k1 k2 a b c d
      = lorentz_tau2.eval .xy .z .t (xOf k0 a b) (yOf k0 a b) (zOf k0 k1 a b c) (tOf k0 k1 k2 a b c d) := by
  rw [refine_lorentz_tau2 k0 k1 k2 a b c d h hd, refine_lorentz_tau2 .xy .z .t _ _ _ _ trivial trivial]; rfl

theorem c01_lorentz_tau (k0 : Az) (k1 : Lon) (k2 : Tmp) (a b c d : ℝ) (h : CanonLon k0 k1 a b c) (hd : CanonTmp k2 d) :
    lorentz_tau.eval k0 k1 k2 a b c d
      = lorentz_tau.eval .xy .z .t (xOf k0 a b) (yOf k0 a b) (zOf k0 k1 a b c) (tOf k0 k1 k2 a b c d) := by
  rw [refine_lorentz_tau k0 k1 k2 a b c d h hd, refine_lorentz_tau .xy .z .t _ _ _ _ trivial trivial]; rfl

theorem c01_lorentz_beta (k0 : Az) (k1 : Lon) (k2 : Tmp) (a b c d : ℝ) (h : Canon3 k0 k1 a b c) (hd : CanonTmp k2 d)
    (ht : tOf k0 k1 k2 a b c d ≠ 0) :
    lorentz_beta.eval k0 k1 k2 a b c d
      = lorentz_beta.eval .xy .z .t (xOf k0 a b) (yOf k0 a b) (zOf k0 k1 a b c) (tOf k0 k1 k2 a b c d) := by
  have hR := refine_lorentz_beta .xy .z .t (xOf k0 a b) (yOf k0 a b) (zOf k0 k1 a b c) (tOf k0 k1 k2 a b c d)
    ⟨trivial, trivial⟩ trivial ht
  rw [refine_lorentz_beta k0 k1 k2 a b c d h hd ht, hR]; rfl

theorem c01_lorentz_gamma (k0 : Az) (k1 : Lon) (k2 : Tmp) (a b c d : ℝ) (h : CanonLon k0 k1 a b c) (hd : CanonTmp k2 d)
    (hs : 0 < tOf k0 k1 k2 a b c d ^ 2 - mag2Of k0 k1 a b c) :
    lorentz_gamma.eval k0 k1 k2 a b c d
      = lorentz_gamma.eval .xy .z .t (xOf k0 a b) (yOf k0 a b) (zOf k0 k1 a b c) (tOf k0 k1 k2 a b c d) := by
  have hR := refine_lorentz_gamma .xy .z .t (xOf k0 a b) (yOf k0 a b) (zOf k0 k1 a b c) (tOf k0 k1 k2 a b c d)
    trivial trivial hs
  rw [refine_lorentz_gamma k0 k1 k2 a b c d h hd hs, hR]; rfl

theorem c01_lorentz_rapidity (k0 : Az) (k1 : Lon) (k2 : Tmp) (a b c d : ℝ) (h : CanonLon k0 k1 a b c)
    (htan : TanOK k1 c) (hd : CanonTmp k2 d) (hz : |zOf k0 k1 a b c| < tOf k0 k1 k2 a b c d) :
    lorentz_rapidity.eval k0 k1 k2 a b c d
      = lorentz_rapidity.eval .xy .z .t (xOf k0 a b) (yOf k0 a b) (zOf k0 k1 a b c) (tOf k0 k1 k2 a b c d) := by
  have hR := refine_lorentz_rapidity .xy .z .t (xOf k0 a b) (yOf k0 a b) (zOf k0 k1 a b c) (tOf k0 k1 k2 a b c d)
    trivial trivial trivial hz
  rw [refine_lorentz_rapidity k0 k1 k2 a b c d h htan hd hz, hR]; rfl

theorem c01_lorentz_Et2 (k0 : Az) (k1 : Lon) (k2 : Tmp) (a b c d : ℝ) (h : CanonLon k0 k1 a b c) (hd : CanonTmp k2 d)
    (hm : 0 < mag2Of k0 k1 a b c) :
    lorentz_Et2.eval k0 k1 k2 a b c d
      = lorentz_Et2.eval .xy .z .t (xOf k0 a b) (yOf k0 a b) (zOf k0 k1 a b c) (tOf k0 k1 k2 a b c d) := by
  have hR := refine_lorentz_Et2 .xy .z .t (xOf k0 a b) (yOf k0 a b) (zOf k0 k1 a b c) (tOf k0 k1 k2 a b c d)
    trivial trivial hm
  rw [refine_lorentz_Et2 k0 k1 k2 a b c d h hd hm, hR, rhoOf_cart_sq]; rfl

/-- `Et`: only for `0 ≤ t` — for `t < 0` the variants disagree (`Findings/C01.lean`, `lorentz_Et_neg_t_key_dependent`) -/
theorem c01_lorentz_Et_partial (k0 : Az) (k1 : Lon) (k2 : Tmp) (a b c d : ℝ) (h : Canon3 k0 k1 a b c)
    (hd : CanonTmp k2 d) (hm : 0 < mag2Of k0 k1 a b c) (ht : 0 ≤ tOf k0 k1 k2 a b c d) :
    lorentz_Et.eval k0 k1 k2 a b c d
      = lorentz_Et.eval .xy .z .t (xOf k0 a b) (yOf k0 a b) (zOf k0 k1 a b c) (tOf k0 k1 k2 a b c d) := by
  have hR := refine_lorentz_Et .xy .z .t (xOf k0 a b) (yOf k0 a b) (zOf k0 k1 a b c) (tOf k0 k1 k2 a b c d)
    ⟨trivial, trivial⟩ trivial hm ht
  rw [refine_lorentz_Et k0 k1 k2 a b c d h hd hm ht, hR, rhoOf_cart_sq]; rfl

theorem c01_lorentz_Mt2 (k0 : Az) (k1 : Lon) (k2 : Tmp) (a b c d : ℝ) (htan : TanOK k1 c) (hd : CanonTmp k2 d) :
    lorentz_Mt2.eval k0 k1 k2 a b c d
      = lorentz_Mt2.eval .xy .z .t (xOf k0 a b) (yOf k0 a b) (zOf k0 k1 a b c) (tOf k0 k1 k2 a b c d) := by
  rw [refine_lorentz_Mt2 k0 k1 k2 a b c d htan hd, refine_lorentz_Mt2 .xy .z .t _ _ _ _ trivial trivial]; rfl

theorem c01_lorentz_Mt (k0 : Az) (k1 : Lon) (k2 : Tmp) (a b c d : ℝ) (htan : TanOK k1 c) (hd : CanonTmp k2 d)
    (hs : 0 ≤ tOf k0 k1 k2 a b c d ^ 2 - zOf k0 k1 a b c ^ 2) :
    lorentz_Mt.eval k0 k1 k2 a b c d
      = lorentz_Mt.eval .xy .z .t (xOf k0 a b) (yOf k0 a b) (zOf k0 k1 a b c) (tOf k0 k1 k2 a b c d) := by
  have hR := refine_lorentz_Mt .xy .z .t (xOf k0 a b) (yOf k0 a b) (zOf k0 k1 a b c) (tOf k0 k1 k2 a b c d)
    trivial trivial hs
  rw [refine_lorentz_Mt k0 k1 k2 a b c d htan hd hs, hR]; rfl

/-- `to_beta3`: only for `0 < t` (C01 grants `t ≠ 0`) — for `t < 0` the `(x, y, θ/η)` variants return the wrong
hemisphere (`Findings/C01.lean`, `lorentz_to_beta3_neg_t_fails`) -/
theorem c01_lorentz_to_beta3_partial (k0 : Az) (k1 : Lon) (k2 : Tmp) (a b c d : ℝ) (h : CanonLon k0 k1 a b c)
    (hd : CanonTmp k2 d) (ht : 0 < tOf k0 k1 k2 a b c d) :
    interp3 (lorentz_to_beta3.ret k0 k1 k2) (lorentz_to_beta3.eval k0 k1 k2 a b c d)
      = interp3 (lorentz_to_beta3.ret .xy .z .t)
          (lorentz_to_beta3.eval .xy .z .t (xOf k0 a b) (yOf k0 a b) (zOf k0 k1 a b c) (tOf k0 k1 k2 a b c d)) := by
  have hR := refine_lorentz_to_beta3_partial .xy .z .t (xOf k0 a b) (yOf k0 a b) (zOf k0 k1 a b c)
    (tOf k0 k1 k2 a b c d) trivial trivial ht
  rw [refine_lorentz_to_beta3_partial k0 k1 k2 a b c d h hd ht, hR]; rfl

example : Canon3 .rhophi .eta 1 0 0 ∧ CanonTmp .t 2 ∧ tOf .rhophi .eta .t 1 0 0 2 ≠ 0
    ∧ 0 < tOf .rhophi .eta .t 1 0 0 2 ^ 2 - mag2Of .rhophi .eta 1 0 0
    ∧ |zOf .rhophi .eta 1 0 0| < tOf .rhophi .eta .t 1 0 0 2 ∧ 0 < mag2Of .rhophi .eta 1 0 0 := by
  simp [Canon3, Canon2, CanonLon, CanonTmp, tOf, mag2Of, xOf, yOf, zOf, rhoOf]

/-! ## 4D binary and vector-valued operations -/

theorem c01_lorentz_dot (k0 : Az) (k1 : Lon) (k2 : Tmp) (k3 : Az) (k4 : Lon) (k5 : Tmp)
    (a0 a1 a2 a3 a4 a5 a6 a7 : ℝ) (h1 : TanOK k1 a2) (h2 : TanOK k4 a6) (hs1 : SinOK k1 a2) (hs2 : SinOK k4 a6)
    (hd1 : CanonTmp k2 a3) (hd2 : CanonTmp k5 a7) :
    lorentz_dot.eval k0 k1 k2 k3 k4 k5 a0 a1 a2 a3 a4 a5 a6 a7
      = lorentz_dot.eval .xy .z .t .xy .z .t (xOf k0 a0 a1) (yOf k0 a0 a1) (zOf k0 k1 a0 a1 a2) (tOf k0 k1 k2 a0 a1 a2 a3)
          (xOf k3 a4 a5) (yOf k3 a4 a5) (zOf k3 k4 a4 a5 a6) (tOf k3 k4 k5 a4 a5 a6 a7) := by
  rw [refine_lorentz_dot k0 k1 k2 k3 k4 k5 a0 a1 a2 a3 a4 a5 a6 a7 h1 h2 hs1 hs2 hd1 hd2,
    refine_lorentz_dot .xy .z .t .xy .z .t _ _ _ _ _ _ _ _ trivial trivial trivial trivial trivial trivial]
  rfl

/-- `add`: the exact spatial sum must be representable in the declared result system (the temporal part always is) -/
theorem c01_lorentz_add (k0 : Az) (k1 : Lon) (k2 : Tmp) (k3 : Az) (k4 : Lon) (k5 : Tmp) (a0 a1 a2 a3 a4 a5 a6 a7 : ℝ)
    (h1 : TanOK k1 a2) (h2 : TanOK k4 a6) (hs1 : SinOK k1 a2) (hs2 : SinOK k4 a6)
    (hd1 : CanonTmp k2 a3) (hd2 : CanonTmp k5 a7)
    (hrep : Representable3 (spatial_add.ret k0 k1 k3 k4) (add3 (cart3 k0 k1 a0 a1 a2) (cart3 k3 k4 a4 a5 a6))) :
    interp4 (lorentz_add.ret k0 k1 k2 k3 k4 k5) (lorentz_add.eval k0 k1 k2 k3 k4 k5 a0 a1 a2 a3 a4 a5 a6 a7)
      = interp4 (lorentz_add.ret .xy .z .t .xy .z .t)
          (lorentz_add.eval .xy .z .t .xy .z .t (xOf k0 a0 a1) (yOf k0 a0 a1) (zOf k0 k1 a0 a1 a2) (tOf k0 k1 k2 a0 a1 a2 a3)
            (xOf k3 a4 a5) (yOf k3 a4 a5) (zOf k3 k4 a4 a5 a6) (tOf k3 k4 k5 a4 a5 a6 a7)) := by
  rw [refine_lorentz_add k0 k1 k2 k3 k4 k5 a0 a1 a2 a3 a4 a5 a6 a7 h1 h2 hs1 hs2 hd1 hd2 hrep,
    refine_lorentz_add .xy .z .t .xy .z .t _ _ _ _ _ _ _ _ trivial trivial trivial trivial trivial trivial (rep3_cart_add _)]
  rfl

/-- `subtract`: as `add`; for two τ-stored operands the exact difference must be representable in τ storage
(future-directed and causal) -/
theorem c01_lorentz_subtract (k0 : Az) (k1 : Lon) (k2 : Tmp) (k3 : Az) (k4 : Lon) (k5 : Tmp)
    (a0 a1 a2 a3 a4 a5 a6 a7 : ℝ)
    (h1 : TanOK k1 a2) (h2 : TanOK k4 a6) (hs1 : SinOK k1 a2) (hs2 : SinOK k4 a6)
    (hd1 : CanonTmp k2 a3) (hd2 : CanonTmp k5 a7)
    (hrep : Representable3 (spatial_subtract.ret k0 k1 k3 k4) (sub3 (cart3 k0 k1 a0 a1 a2) (cart3 k3 k4 a4 a5 a6)))
    (hc : k2 = .tau → k5 = .tau →
      0 ≤ tOf k0 k1 k2 a0 a1 a2 a3 - tOf k3 k4 k5 a4 a5 a6 a7 ∧
      (xOf k0 a0 a1 - xOf k3 a4 a5) ^ 2 + (yOf k0 a0 a1 - yOf k3 a4 a5) ^ 2 + (zOf k0 k1 a0 a1 a2 - zOf k3 k4 a4 a5 a6) ^ 2
        ≤ (tOf k0 k1 k2 a0 a1 a2 a3 - tOf k3 k4 k5 a4 a5 a6 a7) ^ 2) :
    interp4 (lorentz_subtract.ret k0 k1 k2 k3 k4 k5) (lorentz_subtract.eval k0 k1 k2 k3 k4 k5 a0 a1 a2 a3 a4 a5 a6 a7)
      = interp4 (lorentz_subtract.ret .xy .z .t .xy .z .t)
          (lorentz_subtract.eval .xy .z .t .xy .z .t (xOf k0 a0 a1) (yOf k0 a0 a1) (zOf k0 k1 a0 a1 a2)
            (tOf k0 k1 k2 a0 a1 a2 a3) (xOf k3 a4 a5) (yOf k3 a4 a5) (zOf k3 k4 a4 a5 a6) (tOf k3 k4 k5 a4 a5 a6 a7)) := by
  rw [refine_lorentz_subtract k0 k1 k2 k3 k4 k5 a0 a1 a2 a3 a4 a5 a6 a7 h1 h2 hs1 hs2 hd1 hd2 hrep hc,
    refine_lorentz_subtract .xy .z .t .xy .z .t _ _ _ _ _ _ _ _ trivial trivial trivial trivial trivial trivial
      (rep3_cart_sub _) (fun h => nomatch h)]
  rfl

/-- `scale`: for τ storage only for `0 ≤ f` (`Findings/C01.lean`, `refine_lorentz_scale_defect`: a τ-stored vector scaled
by a negative factor gets `τ·f < 0`, which does not denote `f·(p, t)`) -/
theorem c01_lorentz_scale_partial (k0 : Az) (k1 : Lon) (k2 : Tmp) (f a b c d : ℝ) (h : ThetaRange k1 c)
    (hf : k2 = .tau → 0 ≤ f) :
    interp4 (lorentz_scale.ret k0 k1 k2) (lorentz_scale.eval k0 k1 k2 f a b c d)
      = interp4 (lorentz_scale.ret .xy .z .t)
          (lorentz_scale.eval .xy .z .t f (xOf k0 a b) (yOf k0 a b) (zOf k0 k1 a b c) (tOf k0 k1 k2 a b c d)) := by
  rw [refine_lorentz_scale_partial k0 k1 k2 f a b c d h hf,
    refine_lorentz_scale_partial .xy .z .t f _ _ _ _ trivial (fun h => nomatch h)]
  rfl

/-- `unit`: not light-like -/
theorem c01_lorentz_unit (k0 : Az) (k1 : Lon) (k2 : Tmp) (a b c d : ℝ) (hs : SinOK k1 c) (hd : CanonTmp k2 d)
    (hm : tOf k0 k1 k2 a b c d ^ 2 - mag2Of k0 k1 a b c ≠ 0) :
    interp4 (lorentz_unit.ret k0 k1 k2) (lorentz_unit.eval k0 k1 k2 a b c d)
      = interp4 (lorentz_unit.ret .xy .z .t)
          (lorentz_unit.eval .xy .z .t (xOf k0 a b) (yOf k0 a b) (zOf k0 k1 a b c) (tOf k0 k1 k2 a b c d)) := by
  have hR := refine_lorentz_unit .xy .z .t (xOf k0 a b) (yOf k0 a b) (zOf k0 k1 a b c) (tOf k0 k1 k2 a b c d)
    trivial trivial hm
  rw [refine_lorentz_unit k0 k1 k2 a b c d hs hd hm, hR]; rfl

theorem c01_lorentz_transform4D (k0 : Az) (k1 : Lon) (k2 : Tmp)
    (xx xy xz xt yx yy yz yt zx zy zz zt tx ty tz tt a b c d : ℝ)
    (h : TanOK k1 c) (hs : SinOK k1 c) (hd : CanonTmp k2 d) :
    interp4 (lorentz_transform4D.ret k0 k1 k2)
        (lorentz_transform4D.eval k0 k1 k2 xx xy xz xt yx yy yz yt zx zy zz zt tx ty tz tt a b c d)
      = interp4 (lorentz_transform4D.ret .xy .z .t)
        (lorentz_transform4D.eval .xy .z .t xx xy xz xt yx yy yz yt zx zy zz zt tx ty tz tt
          (xOf k0 a b) (yOf k0 a b) (zOf k0 k1 a b c) (tOf k0 k1 k2 a b c d)) :=
  refine_lorentz_transform4D_cart k0 k1 k2 xx xy xz xt yx yy yz yt zx zy zz zt tx ty tz tt a b c d h hs hd

/-! ## boosts (re-exports of the `…_cart` refinement theorems).
For τ-stored operands the boost must be physical (`|β| < 1`, `1 ≤ |γ|`, time-like boost momentum): the τ-variants return
the STORED τ, which denotes the boosted time only because a Lorentz boost preserves the invariant mass. -/

theorem c01_lorentz_boostX_beta (k0 : Az) (k1 : Lon) (k2 : Tmp) (β a b c d : ℝ)
    (h : TanOK k1 c) (hs : SinOK k1 c) (hd : CanonTmp k2 d) (hβ : k2 = .tau → |β| < 1) :
    interp4 (lorentz_boostX_beta.ret k0 k1 k2) (lorentz_boostX_beta.eval k0 k1 k2 β a b c d)
      = interp4 (lorentz_boostX_beta.ret .xy .z .t)
          (lorentz_boostX_beta.eval .xy .z .t β (xOf k0 a b) (yOf k0 a b) (zOf k0 k1 a b c) (tOf k0 k1 k2 a b c d)) :=
  refine_lorentz_boostX_beta_cart k0 k1 k2 β a b c d h hs hd hβ

theorem c01_lorentz_boostY_beta (k0 : Az) (k1 : Lon) (k2 : Tmp) (β a b c d : ℝ)
    (h : TanOK k1 c) (hs : SinOK k1 c) (hd : CanonTmp k2 d) (hβ : k2 = .tau → |β| < 1) :
    interp4 (lorentz_boostY_beta.ret k0 k1 k2) (lorentz_boostY_beta.eval k0 k1 k2 β a b c d)
      = interp4 (lorentz_boostY_beta.ret .xy .z .t)
          (lorentz_boostY_beta.eval .xy .z .t β (xOf k0 a b) (yOf k0 a b) (zOf k0 k1 a b c) (tOf k0 k1 k2 a b c d)) :=
  refine_lorentz_boostY_beta_cart k0 k1 k2 β a b c d h hs hd hβ

theorem c01_lorentz_boostZ_beta (k0 : Az) (k1 : Lon) (k2 : Tmp) (β a b c d : ℝ)
    (h : TanOK k1 c) (hs : SinOK k1 c) (hd : CanonTmp k2 d) (hβ : k2 = .tau → |β| < 1) :
    interp4 (lorentz_boostZ_beta.ret k0 k1 k2) (lorentz_boostZ_beta.eval k0 k1 k2 β a b c d)
      = interp4 (lorentz_boostZ_beta.ret .xy .z .t)
          (lorentz_boostZ_beta.eval .xy .z .t β (xOf k0 a b) (yOf k0 a b) (zOf k0 k1 a b c) (tOf k0 k1 k2 a b c d)) :=
  refine_lorentz_boostZ_beta_cart k0 k1 k2 β a b c d h hs hd hβ

theorem c01_lorentz_boostX_gamma (k0 : Az) (k1 : Lon) (k2 : Tmp) (γ a b c d : ℝ)
    (h : TanOK k1 c) (hs : SinOK k1 c) (hd : CanonTmp k2 d) (hγ : k2 = .tau → 1 ≤ |γ|) :
    interp4 (lorentz_boostX_gamma.ret k0 k1 k2) (lorentz_boostX_gamma.eval k0 k1 k2 γ a b c d)
      = interp4 (lorentz_boostX_gamma.ret .xy .z .t)
          (lorentz_boostX_gamma.eval .xy .z .t γ (xOf k0 a b) (yOf k0 a b) (zOf k0 k1 a b c) (tOf k0 k1 k2 a b c d)) :=
  refine_lorentz_boostX_gamma_cart k0 k1 k2 γ a b c d h hs hd hγ

theorem c01_lorentz_boostY_gamma (k0 : Az) (k1 : Lon) (k2 : Tmp) (γ a b c d : ℝ)
    (h : TanOK k1 c) (hs : SinOK k1 c) (hd : CanonTmp k2 d) (hγ : k2 = .tau → 1 ≤ |γ|) :
    interp4 (lorentz_boostY_gamma.ret k0 k1 k2) (lorentz_boostY_gamma.eval k0 k1 k2 γ a b c d)
      = interp4 (lorentz_boostY_gamma.ret .xy .z .t)
          (lorentz_boostY_gamma.eval .xy .z .t γ (xOf k0 a b) (yOf k0 a b) (zOf k0 k1 a b c) (tOf k0 k1 k2 a b c d)) :=
  refine_lorentz_boostY_gamma_cart k0 k1 k2 γ a b c d h hs hd hγ

theorem c01_lorentz_boostZ_gamma (k0 : Az) (k1 : Lon) (k2 : Tmp) (γ a b c d : ℝ)
    (h : TanOK k1 c) (hs : SinOK k1 c) (hd : CanonTmp k2 d) (hγ : k2 = .tau → 1 ≤ |γ|) :
    interp4 (lorentz_boostZ_gamma.ret k0 k1 k2) (lorentz_boostZ_gamma.eval k0 k1 k2 γ a b c d)
      = interp4 (lorentz_boostZ_gamma.ret .xy .z .t)
          (lorentz_boostZ_gamma.eval .xy .z .t γ (xOf k0 a b) (yOf k0 a b) (zOf k0 k1 a b c) (tOf k0 k1 k2 a b c d)) :=
  refine_lorentz_boostZ_gamma_cart k0 k1 k2 γ a b c d h hs hd hγ

theorem c01_lorentz_boost_beta3 (k0 : Az) (k1 : Lon) (k2 : Tmp) (k3 : Az) (k4 : Lon) (a0 a1 a2 a3 a4 a5 a6 : ℝ)
    (h1 : TanOK k1 a2) (h2 : TanOK k4 a6) (hd : CanonTmp k2 a3) (hβ : k2 = .tau → mag2Of k3 k4 a4 a5 a6 < 1) :
    interp4 (lorentz_boost_beta3.ret k0 k1 k2 k3 k4) (lorentz_boost_beta3.eval k0 k1 k2 k3 k4 a0 a1 a2 a3 a4 a5 a6)
      = interp4 (lorentz_boost_beta3.ret .xy .z .t .xy .z)
          (lorentz_boost_beta3.eval .xy .z .t .xy .z (xOf k0 a0 a1) (yOf k0 a0 a1) (zOf k0 k1 a0 a1 a2)
            (tOf k0 k1 k2 a0 a1 a2 a3) (xOf k3 a4 a5) (yOf k3 a4 a5) (zOf k3 k4 a4 a5 a6)) :=
  refine_lorentz_boost_beta3_cart k0 k1 k2 k3 k4 a0 a1 a2 a3 a4 a5 a6 h1 h2 hd hβ

theorem c01_lorentz_boost_p4 (k0 : Az) (k1 : Lon) (k2 : Tmp) (k3 : Az) (k4 : Lon) (k5 : Tmp)
    (a0 a1 a2 a3 a4 a5 a6 a7 : ℝ) (h1 : TanOK k1 a2) (h2 : TanOK k4 a6) (hs2 : SinOK k4 a6)
    (hd1 : CanonTmp k2 a3) (hd2 : CanonTmp k5 a7)
    (hp : k2 = .tau → 0 < tOf k3 k4 k5 a4 a5 a6 a7 ^ 2 - mag2Of k3 k4 a4 a5 a6 ∧ 0 < tOf k3 k4 k5 a4 a5 a6 a7) :
    interp4 (lorentz_boost_p4.ret k0 k1 k2 k3 k4 k5) (lorentz_boost_p4.eval k0 k1 k2 k3 k4 k5 a0 a1 a2 a3 a4 a5 a6 a7)
      = interp4 (lorentz_boost_p4.ret .xy .z .t .xy .z .t)
          (lorentz_boost_p4.eval .xy .z .t .xy .z .t (xOf k0 a0 a1) (yOf k0 a0 a1) (zOf k0 k1 a0 a1 a2)
            (tOf k0 k1 k2 a0 a1 a2 a3) (xOf k3 a4 a5) (yOf k3 a4 a5) (zOf k3 k4 a4 a5 a6) (tOf k3 k4 k5 a4 a5 a6 a7)) :=
  refine_lorentz_boost_p4_cart k0 k1 k2 k3 k4 k5 a0 a1 a2 a3 a4 a5 a6 a7 h1 h2 hs2 hd1 hd2 hp

/-! ## deltaRapidityPhi / deltaRapidityPhi2 -/

theorem c01_lorentz_deltaRapidityPhi2 (k0 : Az) (k1 : Lon) (k2 : Tmp) (k3 : Az) (k4 : Lon) (k5 : Tmp)
    (a0 a1 a2 a3 a4 a5 a6 a7 : ℝ)
    (h1 : TanOK k1 a2) (h2 : TanOK k4 a6) (hs1 : SinOK k1 a2) (hs2 : SinOK k4 a6)
    (hd1 : CanonTmp k2 a3) (hd2 : CanonTmp k5 a7)
    (hz1 : |zOf k0 k1 a0 a1 a2| < tOf k0 k1 k2 a0 a1 a2 a3) (hz2 : |zOf k3 k4 a4 a5 a6| < tOf k3 k4 k5 a4 a5 a6 a7)
    (hr1 : 0 < rhoOf k0 a0 a1) (hr2 : 0 < rhoOf k3 a4 a5) :
    lorentz_deltaRapidityPhi2.eval k0 k1 k2 k3 k4 k5 a0 a1 a2 a3 a4 a5 a6 a7
      = lorentz_deltaRapidityPhi2.eval .xy .z .t .xy .z .t (xOf k0 a0 a1) (yOf k0 a0 a1) (zOf k0 k1 a0 a1 a2)
          (tOf k0 k1 k2 a0 a1 a2 a3) (xOf k3 a4 a5) (yOf k3 a4 a5) (zOf k3 k4 a4 a5 a6) (tOf k3 k4 k5 a4 a5 a6 a7) := by
  have hR := refine_lorentz_deltaRapidityPhi2 .xy .z .t .xy .z .t (xOf k0 a0 a1) (yOf k0 a0 a1) (zOf k0 k1 a0 a1 a2)
    (tOf k0 k1 k2 a0 a1 a2 a3) (xOf k3 a4 a5) (yOf k3 a4 a5) (zOf k3 k4 a4 a5 a6) (tOf k3 k4 k5 a4 a5 a6 a7)
    trivial trivial trivial trivial trivial trivial hz1 hz2
  rw [refine_lorentz_deltaRapidityPhi2 k0 k1 k2 k3 k4 k5 a0 a1 a2 a3 a4 a5 a6 a7 h1 h2 hs1 hs2 hd1 hd2 hz1 hz2, hR,
    refine_spatial_deltaphi_key k0 k3 a0 a1 a4 a5 hr1 hr2]
  rfl

theorem c01_lorentz_deltaRapidityPhi (k0 : Az) (k1 : Lon) (k2 : Tmp) (k3 : Az) (k4 : Lon) (k5 : Tmp)
    (a0 a1 a2 a3 a4 a5 a6 a7 : ℝ)
    (h1 : TanOK k1 a2) (h2 : TanOK k4 a6) (hs1 : SinOK k1 a2) (hs2 : SinOK k4 a6)
    (hd1 : CanonTmp k2 a3) (hd2 : CanonTmp k5 a7)
    (hz1 : |zOf k0 k1 a0 a1 a2| < tOf k0 k1 k2 a0 a1 a2 a3) (hz2 : |zOf k3 k4 a4 a5 a6| < tOf k3 k4 k5 a4 a5 a6 a7)
    (hr1 : 0 < rhoOf k0 a0 a1) (hr2 : 0 < rhoOf k3 a4 a5) :
    lorentz_deltaRapidityPhi.eval k0 k1 k2 k3 k4 k5 a0 a1 a2 a3 a4 a5 a6 a7
      = lorentz_deltaRapidityPhi.eval .xy .z .t .xy .z .t (xOf k0 a0 a1) (yOf k0 a0 a1) (zOf k0 k1 a0 a1 a2)
          (tOf k0 k1 k2 a0 a1 a2 a3) (xOf k3 a4 a5) (yOf k3 a4 a5) (zOf k3 k4 a4 a5 a6) (tOf k3 k4 k5 a4 a5 a6 a7) := by
  rw [lorentz_deltaRapidityPhi_eval_eq, lorentz_deltaRapidityPhi_eval_eq,
    c01_lorentz_deltaRapidityPhi2 k0 k1 k2 k3 k4 k5 a0 a1 a2 a3 a4 a5 a6 a7 h1 h2 hs1 hs2 hd1 hd2 hz1 hz2 hr1 hr2]

example : TanOK .theta 1 ∧ SinOK .theta 1 ∧ CanonTmp .tau 2 ∧ |zOf .xy .z 0 0 1| < tOf .xy .z .t 0 0 1 2
    ∧ |(1 / 2 : ℝ)| < 1 ∧ (1 : ℝ) ≤ |(-2)| ∧ mag2Of .xy .z (1 / 2) 0 0 < 1 := by
  refine ⟨ne_of_gt cos_one_pos, (sin_pos_of_pos_of_lt_pi one_pos (by linarith [two_le_pi])).ne', ?_, ?_, ?_, ?_, ?_⟩
  · show (0 : ℝ) ≤ 2; norm_num
  · norm_num [zOf, tOf]
  · rw [abs_of_pos] <;> norm_num
  · rw [abs_of_neg] <;> norm_num
  · norm_num [mag2Of, xOf, yOf, zOf]

end VR
