/-
C11 — vector-space, dot, cross and unit laws: the identities that tie `dot` and `cross` together, for ALL signature
combinations (every pairing of the coordinate systems of the three operands).  Same method as `Props/C11.lean`: each
law is the refinement theorems of the generated model (`Refine/*.lean`) composed with the law on ℝ³ (`ring` / `nlinarith`).

* scalar triple product is cyclic and alternating:  a·(b×c) = b·(c×a),  a·(b×c) = −a·(c×b),  a·(a×c) = 0;
* vector triple product (BAC−CAB):  a×(b×c) = b (a·c) − c (a·b);
* Jacobi identity:  a×(b×c) + b×(c×a) + c×(a×b) = 0;
* Cauchy-Schwarz:  (a·b)² ≤ |a|² |b|².
-/
import VectorModel.Props.C11

namespace VR
open VK Spec Real

namespace Spec
theorem triple3_cyclic (p q r : ℝ × ℝ × ℝ) : dot3 p (cross3 q r) = dot3 q (cross3 r p) := by
  simp only [dot3, cross3]; ring
theorem triple3_swap (p q r : ℝ × ℝ × ℝ) : dot3 p (cross3 q r) = -dot3 p (cross3 r q) := by
  simp only [dot3, cross3]; ring
theorem bac_cab3 (p q r : ℝ × ℝ × ℝ) :
    cross3 p (cross3 q r) = sub3 (smul3 (dot3 p r) q) (smul3 (dot3 p q) r) := by
  simp only [dot3, cross3, sub3, smul3]
  refine Prod.ext ?_ (Prod.ext ?_ ?_) <;> simp only <;> ring
theorem jacobi3 (p q r : ℝ × ℝ × ℝ) :
    add3 (add3 (cross3 p (cross3 q r)) (cross3 q (cross3 r p))) (cross3 r (cross3 p q)) = (0, 0, 0) := by
  simp only [cross3, add3]
  refine Prod.ext ?_ (Prod.ext ?_ ?_) <;> simp only <;> ring
theorem cauchy_schwarz3 (p q : ℝ × ℝ × ℝ) : dot3 p q ^ 2 ≤ dot3 p p * dot3 q q := by
  obtain ⟨a, b, c⟩ := p
  obtain ⟨d, e, f⟩ := q
  simp only [dot3]
  nlinarith [sq_nonneg (a * e - b * d), sq_nonneg (a * f - c * d), sq_nonneg (b * f - c * e)]
end Spec

/-- `a·(b×c) = b·(c×a)` in every coordinate system of `a`, `b`, `c` -/
theorem c11_spatial_triple_cyclic (k0 : Az) (k1 : Lon) (k2 : Az) (k3 : Lon) (k4 : Az) (k5 : Lon)
    (a0 a1 a2 b0 b1 b2 c0 c1 c2 : ℝ) (ha : TanOK k1 a2) (hb : TanOK k3 b2) (hc : TanOK k5 c2) :
    let bc := spatial_cross.eval k2 k3 k4 k5 b0 b1 b2 c0 c1 c2
    let ca := spatial_cross.eval k4 k5 k0 k1 c0 c1 c2 a0 a1 a2
    spatial_dot.eval k0 k1 .xy .z a0 a1 a2 bc.1 bc.2.1 bc.2.2
      = spatial_dot.eval k2 k3 .xy .z b0 b1 b2 ca.1 ca.2.1 ca.2.2 := by
  intro bc ca
  have e1 : cart3 .xy .z bc.1 bc.2.1 bc.2.2 = _ := spatial_cross_den k2 k3 k4 k5 b0 b1 b2 c0 c1 c2 hb hc
  have e2 : cart3 .xy .z ca.1 ca.2.1 ca.2.2 = _ := spatial_cross_den k4 k5 k0 k1 c0 c1 c2 a0 a1 a2 hc ha
  rw [refine_spatial_dot k0 k1 .xy .z a0 a1 a2 bc.1 bc.2.1 bc.2.2 ha trivial,
    refine_spatial_dot k2 k3 .xy .z b0 b1 b2 ca.1 ca.2.1 ca.2.2 hb trivial, e1, e2, triple3_cyclic]

/-- `a·(b×c) = −a·(c×b)` -/
theorem c11_spatial_triple_swap (k0 : Az) (k1 : Lon) (k2 : Az) (k3 : Lon) (k4 : Az) (k5 : Lon)
    (a0 a1 a2 b0 b1 b2 c0 c1 c2 : ℝ) (ha : TanOK k1 a2) (hb : TanOK k3 b2) (hc : TanOK k5 c2) :
    let bc := spatial_cross.eval k2 k3 k4 k5 b0 b1 b2 c0 c1 c2
    let cb := spatial_cross.eval k4 k5 k2 k3 c0 c1 c2 b0 b1 b2
    spatial_dot.eval k0 k1 .xy .z a0 a1 a2 bc.1 bc.2.1 bc.2.2
      = -spatial_dot.eval k0 k1 .xy .z a0 a1 a2 cb.1 cb.2.1 cb.2.2 := by
  intro bc cb
  have e1 : cart3 .xy .z bc.1 bc.2.1 bc.2.2 = _ := spatial_cross_den k2 k3 k4 k5 b0 b1 b2 c0 c1 c2 hb hc
  have e2 : cart3 .xy .z cb.1 cb.2.1 cb.2.2 = _ := spatial_cross_den k4 k5 k2 k3 c0 c1 c2 b0 b1 b2 hc hb
  rw [refine_spatial_dot k0 k1 .xy .z a0 a1 a2 bc.1 bc.2.1 bc.2.2 ha trivial,
    refine_spatial_dot k0 k1 .xy .z a0 a1 a2 cb.1 cb.2.1 cb.2.2 ha trivial, e1, e2, triple3_swap]

/-- BAC−CAB at the level of denotations: the raw result of `a.cross(b.cross(c))` denotes `b (a·c) − c (a·b)` -/
theorem c11_spatial_bac_cab (k0 : Az) (k1 : Lon) (k2 : Az) (k3 : Lon) (k4 : Az) (k5 : Lon)
    (a0 a1 a2 b0 b1 b2 c0 c1 c2 : ℝ) (ha : TanOK k1 a2) (hb : TanOK k3 b2) (hc : TanOK k5 c2) :
    let bc := spatial_cross.eval k2 k3 k4 k5 b0 b1 b2 c0 c1 c2
    let abc := spatial_cross.eval k0 k1 .xy .z a0 a1 a2 bc.1 bc.2.1 bc.2.2
    cart3 .xy .z abc.1 abc.2.1 abc.2.2
      = sub3 (smul3 (spatial_dot.eval k0 k1 k4 k5 a0 a1 a2 c0 c1 c2) (cart3 k2 k3 b0 b1 b2))
          (smul3 (spatial_dot.eval k0 k1 k2 k3 a0 a1 a2 b0 b1 b2) (cart3 k4 k5 c0 c1 c2)) := by
  intro bc abc
  have e1 : cart3 .xy .z bc.1 bc.2.1 bc.2.2 = _ := spatial_cross_den k2 k3 k4 k5 b0 b1 b2 c0 c1 c2 hb hc
  have e2 : cart3 .xy .z abc.1 abc.2.1 abc.2.2 = _ :=
    spatial_cross_den k0 k1 .xy .z a0 a1 a2 bc.1 bc.2.1 bc.2.2 ha trivial
  rw [e2, e1, refine_spatial_dot k0 k1 k4 k5 a0 a1 a2 c0 c1 c2 ha hc,
    refine_spatial_dot k0 k1 k2 k3 a0 a1 a2 b0 b1 b2 ha hb, bac_cab3]

/-- Jacobi identity at the level of denotations, every coordinate system of the three operands -/
theorem c11_spatial_jacobi (k0 : Az) (k1 : Lon) (k2 : Az) (k3 : Lon) (k4 : Az) (k5 : Lon)
    (a0 a1 a2 b0 b1 b2 c0 c1 c2 : ℝ) (ha : TanOK k1 a2) (hb : TanOK k3 b2) (hc : TanOK k5 c2) :
    let bc := spatial_cross.eval k2 k3 k4 k5 b0 b1 b2 c0 c1 c2
    let ca := spatial_cross.eval k4 k5 k0 k1 c0 c1 c2 a0 a1 a2
    let ab := spatial_cross.eval k0 k1 k2 k3 a0 a1 a2 b0 b1 b2
    let x := spatial_cross.eval k0 k1 .xy .z a0 a1 a2 bc.1 bc.2.1 bc.2.2
    let y := spatial_cross.eval k2 k3 .xy .z b0 b1 b2 ca.1 ca.2.1 ca.2.2
    let z := spatial_cross.eval k4 k5 .xy .z c0 c1 c2 ab.1 ab.2.1 ab.2.2
    add3 (add3 (cart3 .xy .z x.1 x.2.1 x.2.2) (cart3 .xy .z y.1 y.2.1 y.2.2)) (cart3 .xy .z z.1 z.2.1 z.2.2)
      = (0, 0, 0) := by
  intro bc ca ab x y z
  have e1 : cart3 .xy .z bc.1 bc.2.1 bc.2.2 = _ := spatial_cross_den k2 k3 k4 k5 b0 b1 b2 c0 c1 c2 hb hc
  have e2 : cart3 .xy .z ca.1 ca.2.1 ca.2.2 = _ := spatial_cross_den k4 k5 k0 k1 c0 c1 c2 a0 a1 a2 hc ha
  have e3 : cart3 .xy .z ab.1 ab.2.1 ab.2.2 = _ := spatial_cross_den k0 k1 k2 k3 a0 a1 a2 b0 b1 b2 ha hb
  have f1 : cart3 .xy .z x.1 x.2.1 x.2.2 = _ := spatial_cross_den k0 k1 .xy .z a0 a1 a2 bc.1 bc.2.1 bc.2.2 ha trivial
  have f2 : cart3 .xy .z y.1 y.2.1 y.2.2 = _ := spatial_cross_den k2 k3 .xy .z b0 b1 b2 ca.1 ca.2.1 ca.2.2 hb trivial
  have f3 : cart3 .xy .z z.1 z.2.1 z.2.2 = _ := spatial_cross_den k4 k5 .xy .z c0 c1 c2 ab.1 ab.2.1 ab.2.2 hc trivial
  rw [f1, f2, f3, e1, e2, e3, jacobi3]

/-- Cauchy-Schwarz for the generated `dot` and `mag2`, every pairing of coordinate systems -/
theorem c11_spatial_cauchy_schwarz (k0 : Az) (k1 : Lon) (k2 : Az) (k3 : Lon) (a0 a1 a2 b0 b1 b2 : ℝ)
    (ha : TanOK k1 a2) (hb : TanOK k3 b2) (sa : SinOK k1 a2) (sb : SinOK k3 b2) :
    spatial_dot.eval k0 k1 k2 k3 a0 a1 a2 b0 b1 b2 ^ 2
      ≤ spatial_mag2.eval k0 k1 a0 a1 a2 * spatial_mag2.eval k2 k3 b0 b1 b2 := by
  have m : ∀ (k0 : Az) (k1 : Lon) (a b c : ℝ), mag2Of k0 k1 a b c = dot3 (cart3 k0 k1 a b c) (cart3 k0 k1 a b c) := by
    intro k0 k1 a b c; simp only [mag2Of, dot3, cart3]; ring
  rw [refine_spatial_mag2 k0 k1 a0 a1 a2 sa, refine_spatial_mag2 k2 k3 b0 b1 b2 sb,
    refine_spatial_dot k0 k1 k2 k3 a0 a1 a2 b0 b1 b2 ha hb, m, m]
  exact cauchy_schwarz3 _ _

-- the hypotheses are satisfiable for a θ-stored and an η-stored operand
example : TanOK .theta (1 : ℝ) ∧ TanOK .eta (0.5 : ℝ) ∧ TanOK .z (3 : ℝ) := by
  refine ⟨?_, trivial, trivial⟩
  show Real.cos 1 ≠ 0
  exact (Real.cos_one_pos).ne'

end VR
