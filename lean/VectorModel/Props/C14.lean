/-
C14 — "Momentum names are exact synonyms of the geometric names" (glue part).

Theorems about the hand-written glue model (`VectorModel/Glue/Core.lean`, `Methods.lean`): the synonym tables of the
string layer (`momAccOfName`, `setterOfName`), the public `call` through a momentum spelling, assignment through a
momentum spelling (`stepOfSet`), and `dispatch`: the flavor (`mom`) of the operands never changes a number.
All statements hold for every scalar type `S`, truth type `B`, compute layer `ev`, constants `K` and arithmetic `A`.
-/
import VectorModel.Glue.Methods

set_option linter.unusedVariables false
namespace VG
open VK

namespace C14

/-- the documented synonyms: (momentum spelling, generic name) -/
def synonyms : List (String × String) :=
  [("px", "x"), ("py", "y"), ("pt", "rho"), ("pt2", "rho2"), ("pz", "z"), ("pseudorapidity", "eta"),
   ("p", "mag"), ("p2", "mag2"),
   ("E", "t"), ("e", "t"), ("energy", "t"), ("E2", "t2"), ("e2", "t2"), ("energy2", "t2"),
   ("M", "tau"), ("m", "tau"), ("mass", "tau"), ("M2", "tau2"), ("m2", "tau2"), ("mass2", "tau2"),
   ("et", "Et"), ("transverse_energy", "Et"), ("et2", "Et2"), ("transverse_energy2", "Et2"),
   ("mt", "Mt"), ("transverse_mass", "Mt"), ("mt2", "Mt2"), ("transverse_mass2", "Mt2")]

/-- the documented setter synonyms -/
def setterSynonyms : List (String × String) :=
  [("px", "x"), ("py", "y"), ("pt", "rho"), ("pz", "z"), ("E", "t"), ("e", "t"), ("energy", "t"),
   ("M", "tau"), ("m", "tau"), ("mass", "tau")]

/-- generic (geometric) name of an accessor -/
def genericName : Acc → String
  | .x => "x" | .y => "y" | .rho => "rho" | .rho2 => "rho2" | .phi => "phi"
  | .z => "z" | .theta => "theta" | .eta => "eta" | .costheta => "costheta" | .cottheta => "cottheta"
  | .mag => "mag" | .mag2 => "mag2" | .t => "t" | .t2 => "t2" | .tau => "tau" | .tau2 => "tau2" | .beta => "beta"
  | .gamma => "gamma" | .rapidity => "rapidity" | .Et => "Et" | .Et2 => "Et2" | .Mt => "Mt" | .Mt2 => "Mt2"

end C14
open C14

/-! ### 1. the accessor synonym table -/

/-- every momentum spelling resolves to the accessor of its documented generic name -/
theorem c14_acc_synonyms :
    momAccOfName "px" = accOfName "x" ∧ momAccOfName "py" = accOfName "y" ∧
    momAccOfName "pt" = accOfName "rho" ∧ momAccOfName "pt2" = accOfName "rho2" ∧
    momAccOfName "pz" = accOfName "z" ∧ momAccOfName "pseudorapidity" = accOfName "eta" ∧
    momAccOfName "p" = accOfName "mag" ∧ momAccOfName "p2" = accOfName "mag2" ∧
    momAccOfName "E" = accOfName "t" ∧ momAccOfName "e" = accOfName "t" ∧ momAccOfName "energy" = accOfName "t" ∧
    momAccOfName "E2" = accOfName "t2" ∧ momAccOfName "e2" = accOfName "t2" ∧ momAccOfName "energy2" = accOfName "t2" ∧
    momAccOfName "M" = accOfName "tau" ∧ momAccOfName "m" = accOfName "tau" ∧ momAccOfName "mass" = accOfName "tau" ∧
    momAccOfName "M2" = accOfName "tau2" ∧ momAccOfName "m2" = accOfName "tau2" ∧
    momAccOfName "mass2" = accOfName "tau2" ∧
    momAccOfName "et" = accOfName "Et" ∧ momAccOfName "transverse_energy" = accOfName "Et" ∧
    momAccOfName "et2" = accOfName "Et2" ∧ momAccOfName "transverse_energy2" = accOfName "Et2" ∧
    momAccOfName "mt" = accOfName "Mt" ∧ momAccOfName "transverse_mass" = accOfName "Mt" ∧
    momAccOfName "mt2" = accOfName "Mt2" ∧ momAccOfName "transverse_mass2" = accOfName "Mt2" := by
  decide

/-- the same, over the table `synonyms`; the generic name is a defined accessor -/
theorem c14_acc_synonyms_table :
    ∀ p ∈ synonyms, (accOfName p.2).isSome ∧ momAccOfName p.1 = accOfName p.2 := by decide

/-- `synonyms` lists ALL momentum spellings: a name that `momAccOfName` resolves is in the table -/
theorem c14_acc_synonyms_complete (n : String) (a : Acc) (h : momAccOfName n = some a) :
    (n, genericName a) ∈ synonyms := by
  unfold momAccOfName at h
  split at h <;> first | (cases h; decide) | cases h

/-- the generic names are the names of `genericName` -/
theorem c14_accOfName_genericName (a : Acc) : accOfName (genericName a) = some a := by
  cases a <;> rfl

theorem c14_accOfName_eq (g : String) (a : Acc) (h : accOfName g = some a) : g = genericName a := by
  unfold accOfName at h
  split at h <;> first | (cases h; rfl) | cases h

/-- consequently every momentum spelling has a generic counterpart with the same accessor -/
theorem c14_mom_has_generic (n : String) (a : Acc) (h : momAccOfName n = some a) :
    ∃ g, accOfName g = some a ∧ (n, g) ∈ synonyms :=
  ⟨genericName a, c14_accOfName_genericName a, c14_acc_synonyms_complete n a h⟩

/-- no name is both a generic accessor name and a momentum spelling, nor a `to_<system>` method -/
theorem c14_generic_not_mom (g : String) (a : Acc) (h : accOfName g = some a) :
    momAccOfName g = none ∧ toTable.find? (·.1 == g) = none := by
  rw [c14_accOfName_eq g a h]
  cases a <;> decide

/-! ### 2. reading through a momentum spelling -/

section
variable {S B : Type}

/-- a momentum spelling on a momentum vector: the accessor `a` (with any argument it is a `TypeError`, on a vector of
too small dimension an `AttributeError`) -/
theorem c14_call_mom (ev : Ev S B) (K : Consts S) (A : Arith S) (n : String) (a : Acc) (v : Vec S)
    (args : List (Arg S)) (hn : momAccOfName n = some a) (hm : v.ty.mom = true) :
    call ev K A n v args =
      if v.ty.dim < a.need then .error .attributeError else if !args.isEmpty then .error .typeError
      else getAcc ev a v := by
  unfold call
  simp only [hn, hm]
  simp

/-- a momentum spelling does not exist on a geometric (non-momentum) vector -/
theorem c14_call_mom_on_geometric (ev : Ev S B) (K : Consts S) (A : Arith S) (n : String) (a : Acc) (v : Vec S)
    (args : List (Arg S)) (hn : momAccOfName n = some a) (hm : v.ty.mom = false) :
    call ev K A n v args = .error .attributeError := by
  unfold call
  simp only [hn, hm]
  simp

/-- a generic accessor name on any vector -/
theorem c14_call_generic (ev : Ev S B) (K : Consts S) (A : Arith S) (g : String) (a : Acc) (v : Vec S)
    (args : List (Arg S)) (hg : accOfName g = some a) :
    call ev K A g v args =
      if args.isEmpty then getAcc ev a v
      else if v.ty.dim < a.need || (a.momOnly && !v.ty.mom) then .error .attributeError else .error .typeError := by
  obtain ⟨h1, h2⟩ := c14_generic_not_mom g a hg
  unfold call
  simp only [h1, h2, hg]

/-- **synonymy of the accessors**: on a momentum vector a momentum spelling and a generic name of the same accessor are
the same call — same value, same error, for any argument list and any dimension -/
theorem c14_call_synonym (ev : Ev S B) (K : Consts S) (A : Arith S) (n g : String) (a : Acc) (v : Vec S)
    (args : List (Arg S)) (hn : momAccOfName n = some a) (hg : accOfName g = some a) (hm : v.ty.mom = true) :
    call ev K A n v args = call ev K A g v args := by
  rw [c14_call_mom ev K A n a v args hn hm, c14_call_generic ev K A g a v args hg]
  by_cases hd : v.ty.dim < a.need
  · cases args <;> simp [hd, getAcc]
  · cases args <;> simp [hd, hm]

/-- … and, when the vector has the dimension, both are the accessor itself -/
theorem c14_call_synonym_getAcc (ev : Ev S B) (K : Consts S) (A : Arith S) (n g : String) (a : Acc) (v : Vec S)
    (hn : momAccOfName n = some a) (hg : accOfName g = some a) (hm : v.ty.mom = true) (hd : a.need ≤ v.ty.dim) :
    call ev K A n v [] = getAcc ev a v ∧ call ev K A g v [] = getAcc ev a v := by
  rw [c14_call_mom ev K A n a v [] hn hm, c14_call_generic ev K A g a v [] hg]
  have : ¬ v.ty.dim < a.need := by omega
  simp [this]

/-- every pair of the documented table, on every momentum vector -/
theorem c14_call_synonyms_table (ev : Ev S B) (K : Consts S) (A : Arith S) (v : Vec S) (args : List (Arg S))
    (hm : v.ty.mom = true) : ∀ p ∈ synonyms, call ev K A p.1 v args = call ev K A p.2 v args := by
  intro p hp
  obtain ⟨h1, h2⟩ := c14_acc_synonyms_table p hp
  obtain ⟨a, ha⟩ := Option.isSome_iff_exists.mp h1
  exact c14_call_synonym ev K A p.1 p.2 a v args (h2.trans ha) ha hm

/-- e.g. `v.px = v.x`, `v.pt = v.rho`, `v.E = v.t`, `v.mass = v.tau` -/
theorem c14_call_examples (ev : Ev S B) (K : Consts S) (A : Arith S) (v : Vec S) (hm : v.ty.mom = true) :
    call ev K A "px" v [] = call ev K A "x" v [] ∧ call ev K A "py" v [] = call ev K A "y" v [] ∧
    call ev K A "pt" v [] = call ev K A "rho" v [] ∧ call ev K A "pz" v [] = call ev K A "z" v [] ∧
    call ev K A "E" v [] = call ev K A "t" v [] ∧ call ev K A "energy" v [] = call ev K A "t" v [] ∧
    call ev K A "M" v [] = call ev K A "tau" v [] ∧ call ev K A "mass" v [] = call ev K A "tau" v [] ∧
    call ev K A "transverse_energy" v [] = call ev K A "Et" v [] := by
  have h := c14_call_synonyms_table ev K A v [] hm
  refine ⟨h ("px", "x") (by decide), h ("py", "y") (by decide), h ("pt", "rho") (by decide), h ("pz", "z") (by decide),
    h ("E", "t") (by decide), h ("energy", "t") (by decide), h ("M", "tau") (by decide), h ("mass", "tau") (by decide),
    h ("transverse_energy", "Et") (by decide)⟩

/-! ### 3. assigning through a momentum spelling -/

/-- the setter synonym table -/
theorem c14_setter_synonyms :
    setterOfName true "px" = setterOfName true "x" ∧ setterOfName true "py" = setterOfName true "y" ∧
    setterOfName true "pt" = setterOfName true "rho" ∧ setterOfName true "pz" = setterOfName true "z" ∧
    setterOfName true "E" = setterOfName true "t" ∧ setterOfName true "e" = setterOfName true "t" ∧
    setterOfName true "energy" = setterOfName true "t" ∧ setterOfName true "M" = setterOfName true "tau" ∧
    setterOfName true "m" = setterOfName true "tau" ∧ setterOfName true "mass" = setterOfName true "tau" := by
  decide

theorem c14_setter_synonyms_table :
    ∀ p ∈ setterSynonyms, (setterOfName true p.2).isSome ∧ setterOfName true p.1 = setterOfName true p.2 ∧
      setterOfName false p.1 = none := by decide

/-- the setter synonyms are accessor synonyms (one assigns to what one reads) -/
theorem c14_setter_synonyms_sub : ∀ p ∈ setterSynonyms, p ∈ synonyms := by decide

/-- `isReadOnlyProp` only looks at the dimension and the flavor of the type -/
private def roByDim (d : Nat) (mom : Bool) (name : String) : Bool :=
  let hasAcc (a : Acc) : Bool := d ≥ a.need && (!a.momOnly || mom)
  (match accOfName name with | some a => hasAcc a | none => false)
  || (mom && (match momAccOfName name with | some a => hasAcc a | none => false))
  || name == "neg2D" || (name == "neg3D" && d ≥ 3) || (name == "neg4D" && d ≥ 4)

private theorem isReadOnlyProp_eq (ty : VT) (name : String) : isReadOnlyProp ty name = roByDim ty.dim ty.mom name := rfl

private theorem roByDim_syn : ∀ d ∈ [2, 3, 4], ∀ p ∈ setterSynonyms, roByDim d true p.1 = roByDim d true p.2 := by
  decide

private theorem dim_mem (ty : VT) : ty.dim ∈ [2, 3, 4] := by
  unfold VT.dim; split <;> split <;> simp

/-- assignment through a momentum spelling is the same step as assignment through the generic name, on every momentum
type (whatever its dimension) -/
theorem c14_stepOfSet_synonym (ty : VT) (hm : ty.mom = true) (a : S) :
    ∀ p ∈ setterSynonyms, stepOfSet ty p.1 a = stepOfSet ty p.2 a := by
  intro p hp
  obtain ⟨h1, h2, h3⟩ := c14_setter_synonyms_table p hp
  unfold stepOfSet
  rw [hm, h2, isReadOnlyProp_eq, isReadOnlyProp_eq, hm, roByDim_syn _ (dim_mem ty) p hp]

theorem c14_stepOfSet_examples (ty : VT) (hm : ty.mom = true) (a : S) :
    stepOfSet ty "px" a = stepOfSet ty "x" a ∧ stepOfSet ty "py" a = stepOfSet ty "y" a ∧
    stepOfSet ty "pt" a = stepOfSet ty "rho" a ∧ stepOfSet ty "pz" a = stepOfSet ty "z" a ∧
    stepOfSet ty "E" a = stepOfSet ty "t" a ∧ stepOfSet ty "e" a = stepOfSet ty "t" a ∧
    stepOfSet ty "energy" a = stepOfSet ty "t" a ∧ stepOfSet ty "M" a = stepOfSet ty "tau" a ∧
    stepOfSet ty "m" a = stepOfSet ty "tau" a ∧ stepOfSet ty "mass" a = stepOfSet ty "tau" a := by
  have h := c14_stepOfSet_synonym ty hm a
  exact ⟨h ("px", "x") (by decide), h ("py", "y") (by decide), h ("pt", "rho") (by decide), h ("pz", "z") (by decide),
    h ("E", "t") (by decide), h ("e", "t") (by decide), h ("energy", "t") (by decide), h ("M", "tau") (by decide),
    h ("m", "tau") (by decide), h ("mass", "tau") (by decide)⟩

end

/-! ### 4. the flavor never changes a number -/

section
variable {S B : Type}

/-- re-label the flavor of a vector -/
def setMom (b : Bool) (v : Vec S) : Vec S := { v with ty := { v.ty with mom := b } }

/-- forget the flavor of a result (scalars and truth values are untouched) -/
def Res.unmom : Res S B → Res S B
  | .vec v => .vec (setMom false v)
  | r => r

@[simp] theorem c14_setMom_c (b : Bool) (v : Vec S) : (setMom b v).c = v.c := rfl
@[simp] theorem c14_setMom_be (b : Bool) (v : Vec S) : (setMom b v).ty.be = v.ty.be := rfl
@[simp] theorem c14_setMom_az (b : Bool) (v : Vec S) : (setMom b v).ty.az = v.ty.az := rfl
@[simp] theorem c14_setMom_lon (b : Bool) (v : Vec S) : (setMom b v).ty.lon = v.ty.lon := rfl
@[simp] theorem c14_setMom_tmp (b : Bool) (v : Vec S) : (setMom b v).ty.tmp = v.ty.tmp := rfl
@[simp] theorem c14_setMom_mom (b : Bool) (v : Vec S) : (setMom b v).ty.mom = b := rfl
@[simp] theorem c14_setMom_dim (b : Bool) (v : Vec S) : (setMom b v).ty.dim = v.ty.dim := rfl
@[simp] theorem c14_setMom_setMom (b b' : Bool) (v : Vec S) : setMom b (setMom b' v) = setMom b v := rfl
theorem c14_setMom_self (v : Vec S) : setMom v.ty.mom v = v := rfl

/-- two vectors agree up to flavor iff they agree after forgetting it -/
theorem c14_setMom_false_eq_iff (v w : Vec S) :
    setMom false v = setMom false w ↔
      v.c = w.c ∧ v.ty.be = w.ty.be ∧ v.ty.az = w.ty.az ∧ v.ty.lon = w.ty.lon ∧ v.ty.tmp = w.ty.tmp := by
  obtain ⟨⟨be, mom, az, lon, tmp⟩, c⟩ := v
  obtain ⟨⟨be', mom', az', lon', tmp'⟩, c'⟩ := w
  simp [setMom]
  constructor <;> (intro h; simp [h])

private theorem operandKey_setMom (b : Bool) (v : Vec S) (n : Nat) : operandKey (setMom b v) n = operandKey v n := rfl

private theorem mapM_key_setMom (f : Vec S → Vec S) (hf : ∀ v n, operandKey (f v) n = operandKey v n)
    (ops : List (Vec S)) (slots : List Nat) :
    ((ops.map f).zip slots).mapM (fun (p : Vec S × Nat) => operandKey p.1 p.2) =
      (ops.zip slots).mapM (fun (p : Vec S × Nat) => operandKey p.1 p.2) := by
  induction ops generalizing slots with
  | nil => rfl
  | cons v ops ih =>
    cases slots with
    | nil => rfl
    | cons n slots => simp [List.mapM_cons, hf, ih]

private theorem handlerOf_fold_setMom (b : Bool) (vs : List (Vec S)) (h : Option (Vec S)) :
    (vs.map (setMom b)).foldl (fun h v => match h with
      | none => some v
      | some h => if v.ty.be.prio > h.ty.be.prio then some v else some h) (h.map (setMom b)) =
    (vs.foldl (fun h v => match h with
      | none => some v
      | some h => if v.ty.be.prio > h.ty.be.prio then some v else some h) h).map (setMom b) := by
  induction vs generalizing h with
  | nil => rfl
  | cons v vs ih =>
    simp only [List.map_cons, List.foldl_cons]
    rw [← ih]
    congr 1
    cases h with
    | none => rfl
    | some h =>
      by_cases hp : v.ty.be.prio > h.ty.be.prio <;> simp [hp]

/-- the handler is chosen by backend priority only -/
theorem c14_handlerOf_setMom (b : Bool) (vs : List (Vec S)) :
    handlerOf (vs.map (setMom b)) = (handlerOf vs).map (setMom b) :=
  handlerOf_fold_setMom b vs none

private theorem wrapVec_self_setMom (b : Bool) (h : Vec S) (be : Backend) (mom : Bool) (raw : List S) (parts : List RP) :
    wrapVec (setMom b h) be mom raw parts = wrapVec h be mom raw parts := rfl

private theorem wrapVec_unmom (h : Vec S) (be : Backend) (mom mom' : Bool) (raw : List S) (parts : List RP) :
    (wrapVec h be mom raw parts).map (setMom false) = (wrapVec h be mom' raw parts).map (setMom false) := by
  unfold wrapVec
  split <;> (try split) <;> rfl

private theorem map_vec_unmom (e : Except Err (Vec S)) :
    (e.map (Res.vec (B := B))).map Res.unmom = (e.map (setMom false)).map Res.vec := by
  cases e <;> rfl

/-- `_wrap_result`: the flavor of the handler and the flavor given to the result influence only the `mom` flag of a
vector result -/
theorem c14_wrapResult_flavor (b : Bool) (h : Vec S) (be : Backend) (mom mom' : Bool) (out : Out S B) (ret : Ret) :
    (wrapResult (setMom b h) be mom out ret).map Res.unmom = (wrapResult h be mom' out ret).map Res.unmom := by
  unfold wrapResult
  split
  · rfl
  · rfl
  · rename_i parts raw
    rw [wrapVec_self_setMom, map_vec_unmom, map_vec_unmom, wrapVec_unmom h be mom mom']
  · rfl

/-- `dispatch` after forgetting the flavor of every operand: same outcome up to the flavor of a vector result -/
theorem c14_dispatch_forget (ev : Ev S B) (m : ModuleId) (sc : List S) (ord : Option Ord) (ops counted : List (Vec S)) :
    (dispatch ev m sc ord (ops.map (setMom false)) (counted.map (setMom false))).map Res.unmom =
      (dispatch ev m sc ord ops counted).map Res.unmom := by
  unfold dispatch
  simp only [List.length_map]
  split
  · rfl
  · have hk := mapM_key_setMom (setMom false) (operandKey_setMom false) ops (operandSlots m.info.shape)
    rw [hk]
    cases List.mapM (fun p : Vec S × Nat => operandKey p.fst p.snd) (ops.zip (operandSlots m.info.shape)) with
    | none => rfl
    | some parts =>
      dsimp only
      cases ev m ((List.map (fun x => x.fst) parts).flatten ++ match ord with | some o => [KA.ord o] | none => [])
          (sc ++ (List.map (fun x => x.snd) parts).flatten) with
      | none => rfl
      | some r =>
        obtain ⟨out, ret⟩ := r
        dsimp only
        rw [c14_handlerOf_setMom]
        cases handlerOf counted with
        | none => rfl
        | some h => exact c14_wrapResult_flavor false h h.ty.be _ _ out ret

/-- **the flavor never changes a number**: two `dispatch` calls whose operands differ only in their `mom` flags have the
same outcome — the same error, the same scalar, the same truth value, or vectors that differ at most in `ty.mom` -/
theorem c14_dispatch_flavor (ev : Ev S B) (m : ModuleId) (sc : List S) (ord : Option Ord)
    (ops ops' counted counted' : List (Vec S)) (hops : ops.map (setMom false) = ops'.map (setMom false))
    (hc : counted.map (setMom false) = counted'.map (setMom false)) :
    (dispatch ev m sc ord ops counted).map Res.unmom = (dispatch ev m sc ord ops' counted').map Res.unmom := by
  rw [← c14_dispatch_forget ev m sc ord ops counted, ← c14_dispatch_forget ev m sc ord ops' counted', hops, hc]

/-- re-labelling the operands one by one (`flags`) satisfies the hypothesis of `c14_dispatch_flavor` -/
theorem c14_zipWith_setMom (flags : List Bool) (vs : List (Vec S)) (h : vs.length ≤ flags.length) :
    (List.zipWith setMom flags vs).map (setMom false) = vs.map (setMom false) := by
  induction vs generalizing flags with
  | nil => cases flags <;> rfl
  | cons v vs ih =>
    cases flags with
    | nil => simp at h
    | cons b flags =>
      simp only [List.zipWith_cons_cons, List.map_cons, c14_setMom_setMom]
      rw [ih flags (by simpa using h)]

/-- the four outcomes spelled out -/
theorem c14_dispatch_flavor_scalar (ev : Ev S B) (m : ModuleId) (sc : List S) (ord : Option Ord)
    (ops ops' counted counted' : List (Vec S)) (hops : ops.map (setMom false) = ops'.map (setMom false))
    (hc : counted.map (setMom false) = counted'.map (setMom false)) (s : S)
    (h : dispatch ev m sc ord ops counted = .ok (.scalar s)) : dispatch ev m sc ord ops' counted' = .ok (.scalar s) := by
  have := c14_dispatch_flavor ev m sc ord ops ops' counted counted' hops hc
  rw [h] at this
  rcases h' : dispatch ev m sc ord ops' counted' with e | r
  · rw [h'] at this; cases this
  · rw [h'] at this
    cases r <;> simp [Except.map, Res.unmom] at this
    rw [this]

theorem c14_dispatch_flavor_truth (ev : Ev S B) (m : ModuleId) (sc : List S) (ord : Option Ord)
    (ops ops' counted counted' : List (Vec S)) (hops : ops.map (setMom false) = ops'.map (setMom false))
    (hc : counted.map (setMom false) = counted'.map (setMom false)) (b : B)
    (h : dispatch ev m sc ord ops counted = .ok (.truth b)) : dispatch ev m sc ord ops' counted' = .ok (.truth b) := by
  have := c14_dispatch_flavor ev m sc ord ops ops' counted counted' hops hc
  rw [h] at this
  rcases h' : dispatch ev m sc ord ops' counted' with e | r
  · rw [h'] at this; cases this
  · rw [h'] at this
    cases r <;> simp [Except.map, Res.unmom] at this
    rw [this]

theorem c14_dispatch_flavor_error (ev : Ev S B) (m : ModuleId) (sc : List S) (ord : Option Ord)
    (ops ops' counted counted' : List (Vec S)) (hops : ops.map (setMom false) = ops'.map (setMom false))
    (hc : counted.map (setMom false) = counted'.map (setMom false)) (e : Err)
    (h : dispatch ev m sc ord ops counted = .error e) : dispatch ev m sc ord ops' counted' = .error e := by
  have := c14_dispatch_flavor ev m sc ord ops ops' counted counted' hops hc
  rw [h] at this
  rcases h' : dispatch ev m sc ord ops' counted' with e' | r
  · rw [h'] at this; simp [Except.map] at this; rw [this]
  · rw [h'] at this; cases this

/-- a vector result has the same coordinate list, backend and coordinate systems; only `ty.mom` may differ -/
theorem c14_dispatch_flavor_vec (ev : Ev S B) (m : ModuleId) (sc : List S) (ord : Option Ord)
    (ops ops' counted counted' : List (Vec S)) (hops : ops.map (setMom false) = ops'.map (setMom false))
    (hc : counted.map (setMom false) = counted'.map (setMom false)) (r : Vec S)
    (h : dispatch ev m sc ord ops counted = .ok (.vec r)) :
    ∃ r', dispatch ev m sc ord ops' counted' = .ok (.vec r') ∧ r'.c = r.c ∧ r'.ty.be = r.ty.be ∧ r'.ty.az = r.ty.az ∧
      r'.ty.lon = r.ty.lon ∧ r'.ty.tmp = r.ty.tmp := by
  have := c14_dispatch_flavor ev m sc ord ops ops' counted counted' hops hc
  rw [h] at this
  rcases h' : dispatch ev m sc ord ops' counted' with e | r'
  · rw [h'] at this; cases this
  · rw [h'] at this
    cases r' <;> simp [Except.map, Res.unmom] at this
    rename_i r'
    exact ⟨r', rfl, (c14_setMom_false_eq_iff r' r).mp this.symm⟩

/-- the flavor of a vector result: momentum iff some counted operand is momentum -/
theorem c14_dispatch_result_mom (ev : Ev S B) (m : ModuleId) (sc : List S) (ord : Option Ord)
    (ops counted : List (Vec S)) (r : Vec S) (h : dispatch ev m sc ord ops counted = .ok (.vec r)) :
    r.ty.mom = counted.any (·.ty.mom) := by
  unfold dispatch at h
  dsimp only at h
  split at h
  · cases h
  split at h
  · cases h
  split at h
  · cases h
  split at h
  · cases h
  rename_i hh _ _
  unfold wrapResult at h
  split at h
  · cases h
  · cases h
  · unfold wrapVec at h
    split at h <;> (try split at h) <;> cases h <;> rfl
  · cases h

/-- e.g. a binary operation on `(v, w)` and on `(setMom b₁ v, setMom b₂ w)` -/
example (ev : Ev S B) (m : ModuleId) (v w : Vec S) (b₁ b₂ : Bool) :
    (dispatch ev m [] none [setMom b₁ v, setMom b₂ w] [setMom b₁ v, setMom b₂ w]).map Res.unmom =
      (dispatch ev m [] none [v, w] [v, w]).map Res.unmom :=
  c14_dispatch_flavor ev m [] none _ _ _ _ rfl rfl

/-- consequently every accessor that exists on both flavors reads the same on a vector and on its re-labelled copy -/
theorem c14_getAcc_flavor (ev : Ev S B) (a : Acc) (ha : a.momOnly = false) (b : Bool) (v : Vec S) :
    (getAcc ev a (setMom b v)).map Res.unmom = (getAcc ev a v).map Res.unmom := by
  unfold getAcc
  simp only [ha, c14_setMom_dim, Bool.false_and, Bool.or_false]
  by_cases hd : v.ty.dim < a.need
  · simp [hd]
  · simp only [hd, decide_false, Bool.false_eq_true, if_false]
    exact c14_dispatch_flavor ev a.mod [] none [setMom b v] [v] [setMom b v] [v] rfl rfl

/-- … and `scale` / `neg` / `*` / `/` compute the same coordinates -/
theorem c14_scaleN_flavor (ev : Ev S B) (n : Nat) (f : S) (b : Bool) (v : Vec S) :
    (scaleN ev n f (setMom b v)).map Res.unmom = (scaleN ev n f v).map Res.unmom := by
  unfold scaleN
  simp only [c14_setMom_dim]
  by_cases hd : v.ty.dim < n
  · simp [hd]
  · simp only [hd, if_false]
    exact c14_dispatch_flavor ev (scaleMod n) [f] none [setMom b v] [v] [setMom b v] [v] rfl rfl

/-! the hypotheses are satisfiable -/

example : momAccOfName "pt" = some .rho ∧ accOfName "rho" = some .rho := ⟨rfl, rfl⟩
example (ev : Ev S B) (K : Consts S) (A : Arith S) (a b c d : S) :
    call ev K A "mass" ⟨⟨.obj, true, .xy, some .z, some .t⟩, [a, b, c, d]⟩ [] =
      call ev K A "tau" ⟨⟨.obj, true, .xy, some .z, some .t⟩, [a, b, c, d]⟩ [] :=
  c14_call_synonym ev K A "mass" "tau" .tau _ [] rfl rfl rfl
example (a : S) : stepOfSet ⟨.obj, true, .rhophi, some .eta, none⟩ "pt" a = Step.set .rho a := rfl
example (a b : S) : setMom false (⟨⟨.obj, true, .xy, none, none⟩, [a, b]⟩ : Vec S) = ⟨⟨.obj, false, .xy, none, none⟩, [a, b]⟩ :=
  rfl

end

end VG
