/-
C14 — "Momentum names are exact synonyms of the geometric names" (glue part).

Theorems about the hand-written glue model (`VectorModel/Glue/Core.lean`, `Methods.lean`): the synonym tables of the
string layer (`momAccOfName`, `setterOfName`), the public `call` through a momentum spelling, assignment through a
momentum spelling (`stepOfSet`), and `dispatch`: the flavor (`mom`) of the operands never changes a number.
All statements hold for every scalar type `S`, truth type `B`, compute layer `ev`, constants `K` and arithmetic `A`.
-/
import VectorModel.Glue.Methods

set_option linter.unusedVariables false
namespace VG
open VK

namespace C14

/-- the documented synonyms: (momentum spelling, generic name) -/
def synonyms : List (String × String) :=
  [("px", "x"), ("py", "y"), ("pt", "rho"), ("pt2", "rho2"), ("pz", "z"), ("pseudorapidity", "eta"),
   ("p", "mag"), ("p2", "mag2"),
   ("E", "t"), ("e", "t"), ("energy", "t"), ("E2", "t2"), ("e2", "t2"), ("energy2", "t2"),
   ("M", "tau"), ("m", "tau"), ("mass", "tau"), ("M2", "tau2"), ("m2", "tau2"), ("mass2", "tau2"),
   ("et", "Et"), ("transverse_energy", "Et"), ("et2", "Et2"), ("transverse_energy2", "Et2"),
   ("mt", "Mt"), ("transverse_mass", "Mt"), ("mt2", "Mt2"), ("transverse_mass2", "Mt2")]

/-- the documented setter synonyms -/
def setterSynonyms : List (String × String) :=
  [("px", "x"), ("py", "y"), ("pt", "rho"), ("pz", "z"), ("E", "t"), ("e", "t"), ("energy", "t"),
   ("M", "tau"), ("m", "tau"), ("mass", "tau")]

/-- generic (geometric) name of an accessor -/
def genericName : Acc → String
  | .x => "x" | .y => "y" | .rho => "rho" | .rho2 => "rho2" | .phi => "phi"
  | .z => "z" | .theta => "theta" | .eta => "eta" | .costheta => "costheta" | .cottheta => "cottheta"
  | .mag => "mag" | .mag2 => "mag2" | .t => "t" | .t2 => "t2" | .tau => "tau" | .tau2 => "tau2" | .beta => "beta"
  | .gamma => "gamma" | .rapidity => "rapidity" | .Et => "Et" | .Et2 => "Et2" | .Mt => "Mt" | .Mt2 => "Mt2"

end C14
open C14

/-! ### 1. the accessor synonym table -/

/-- every momentum spelling resolves to the accessor of its documented generic name -/
theorem c14_acc_synonyms :
    momAccOfName "px" = accOfName "x" ∧ momAccOfName "py" = accOfName "y" ∧
    momAccOfName "pt" = accOfName "rho" ∧ momAccOfName "pt2" = accOfName "rho2" ∧
    momAccOfName "pz" = accOfName "z" ∧ momAccOfName "pseudorapidity" = accOfName "eta" ∧
    momAccOfName "p" = accOfName "mag" ∧ momAccOfName "p2" = accOfName "mag2" ∧
    momAccOfName "E" = accOfName "t" ∧ momAccOfName "e" = accOfName "t" ∧ momAccOfName "energy" = accOfName "t" ∧
    momAccOfName "E2" = accOfName "t2" ∧ momAccOfName "e2" = accOfName "t2" ∧ momAccOfName "energy2" = accOfName "t2" ∧
    momAccOfName "M" = accOfName "tau" ∧ momAccOfName "m" = accOfName "tau" ∧ momAccOfName "mass" = accOfName "tau" ∧
    momAccOfName "M2" = accOfName "tau2" ∧ momAccOfName "m2" = accOfName "tau2" ∧
    momAccOfName "mass2" = accOfName "tau2" ∧
    momAccOfName "et" = accOfName "Et" ∧ momAccOfName "transverse_energy" = accOfName "Et" ∧
    momAccOfName "et2" = accOfName "Et2" ∧ momAccOfName "transverse_energy2" = accOfName "Et2" ∧
    momAccOfName "mt" = accOfName "Mt" ∧ momAccOfName "transverse_mass" = accOfName "Mt" ∧
    momAccOfName "mt2" = accOfName "Mt2" ∧ momAccOfName "transverse_mass2" = accOfName "Mt2" := by
  decide

/-- the same, over the table `synonyms`; the generic name is a defined accessor -/
theorem c14_acc_synonyms_table :
    ∀ p ∈ synonyms, (accOfName p.2).isSome ∧ momAccOfName p.1 = accOfName p.2 := by decide

/-- `synonyms` lists ALL momentum spellings: a name that `momAccOfName` resolves is in the table -/
theorem c14_acc_synonyms_complete (n : String) (a : Acc) (h : momAccOfName n = some a) :
    (n, genericName a) ∈ synonyms := by
  unfold momAccOfName at h
  split at h <;> first | (cases h; decide) | cases h

/-- the generic names are the names of `genericName` -/
theorem c14_accOfName_genericName (a : Acc) : accOfName (genericName a) = some a := by
  cases a <;> rfl

theorem c14_accOfName_eq (g : String) (a : Acc) (h : accOfName g = some a) : g = genericName a := by
  unfold accOfName at h
  split at h <;> first | (cases h; rfl) | cases h

/-- consequently every momentum spelling has a generic counterpart with the same accessor -/
theorem c14_mom_has_generic (n : String) (a : Acc) (h : momAccOfName n = some a) :
    ∃ g, accOfName g = some a ∧ (n, g) ∈ synonyms :=
  ⟨genericName a, c14_accOfName_genericName a, c14_acc_synonyms_complete n a h⟩

/-- no name is both a generic accessor name and a momentum spelling, nor a `to_<system>` method -/
theorem c14_generic_not_mom (g : String) (a : Acc) (h : accOfName g = some a) :
    momAccOfName g = none ∧ toTable.find? (·.1 == g) = none := by
  rw [c14_accOfName_eq g a h]
  cases a <;> decide

end VG
