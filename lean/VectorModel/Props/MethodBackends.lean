import VectorModel.Props.C07
import VectorModel.Props.C01Method
import VectorModel.Props.MethodBin
import VectorModel.Props.MethodLorentz
import VectorModel.Props.MethodConv
import VectorModel.Props.C08

set_option linter.constructorNameAsVariable false
set_option linter.unusedVariables false
set_option linter.unusedSimpArgs false
set_option maxRecDepth 4096

namespace VR
namespace MB
open VK VG Spec C01M

open Lean Elab Tactic Meta in
/-- `cases` on the first hypothesis whose type is the given constant -/
local elab "mb_cases_one " t:ident : tactic => withMainContext do
  let n ← realizeGlobalConstNoOverloadWithInfo t
  for d in (← getLCtx) do
    if d.isImplementationDetail then continue
    let ty ← instantiateMVars d.type
    if ty.isConstOf n then
      let gs ← (← getMainGoal).cases d.fvarId
      replaceMainGoal (gs.map (·.mvarId)).toList
      return
  throwError "no hypothesis of type {n}"

open Lean Elab Tactic Meta in
/-- revert every key variable (hypotheses of type `Az`, `Lon`, `Tmp`, `Ord`) -/
local elab "mb_revert_keys" : tactic => withMainContext do
  let mut fvs : Array FVarId := #[]
  for d in (← getLCtx) do
    if d.isImplementationDetail then continue
    let ty ← instantiateMVars d.type
    if ty.isConstOf ``VK.Az || ty.isConstOf ``VK.Lon || ty.isConstOf ``VK.Tmp || ty.isConstOf ``VK.Ord then
      fvs := fvs.push d.fvarId
  let (_, g) ← (← getMainGoal).revert fvs
  replaceMainGoal [g]

open Lean in
/-- `mb_tab_thm M`: if `VR.M.evalL k a = some (out, ret)` then `ret` is the declared result of `k` in the generated
table of `M` (the proof of `Props/C05` for the executable copy, repeated for the REAL copy) -/
local macro "mb_tab_thm " m:ident : command => do
  let f := mkIdent (`VR ++ m.getId ++ `evalL)
  let thm := mkIdent (`real_tab ++ m.getId)
  let c := mkIdent (`VK.ModuleId ++ m.getId)
  `(command|
    set_option maxRecDepth 100000 in
    private theorem $thm (k : List KA) (a : List ℝ) (out : Out ℝ Prop) (ret : Ret)
        (h : $f k a = some (out, ret)) : declared $c k = some ret := by
      unfold $f at h
      split at h
      · repeat (mb_cases_one KA <;> simp [KA.az?, KA.lon?, KA.tmp?, KA.ord?] at h)
        obtain ⟨-, h2⟩ := h
        subst h2
        mb_revert_keys
        decide +kernel
      · cases h)

mb_tab_thm lorentz_Et
mb_tab_thm lorentz_Et2
mb_tab_thm lorentz_Mt
mb_tab_thm lorentz_Mt2
mb_tab_thm lorentz_add
mb_tab_thm lorentz_beta
mb_tab_thm lorentz_boostX_beta
mb_tab_thm lorentz_boostX_gamma
mb_tab_thm lorentz_boostY_beta
mb_tab_thm lorentz_boostY_gamma
mb_tab_thm lorentz_boostZ_beta
mb_tab_thm lorentz_boostZ_gamma
mb_tab_thm lorentz_boost_beta3
mb_tab_thm lorentz_boost_p4
mb_tab_thm lorentz_deltaRapidityPhi
mb_tab_thm lorentz_deltaRapidityPhi2
mb_tab_thm lorentz_dot
mb_tab_thm lorentz_equal
mb_tab_thm lorentz_gamma
mb_tab_thm lorentz_is_lightlike
mb_tab_thm lorentz_is_spacelike
mb_tab_thm lorentz_is_timelike
mb_tab_thm lorentz_isclose
mb_tab_thm lorentz_not_equal
mb_tab_thm lorentz_rapidity
mb_tab_thm lorentz_scale
mb_tab_thm lorentz_subtract
mb_tab_thm lorentz_t
mb_tab_thm lorentz_t2
mb_tab_thm lorentz_tau
mb_tab_thm lorentz_tau2
mb_tab_thm lorentz_to_beta3
mb_tab_thm lorentz_transform4D
mb_tab_thm lorentz_unit
mb_tab_thm planar_add
mb_tab_thm planar_deltaphi
mb_tab_thm planar_dot
mb_tab_thm planar_equal
mb_tab_thm planar_is_antiparallel
mb_tab_thm planar_is_parallel
mb_tab_thm planar_is_perpendicular
mb_tab_thm planar_isclose
mb_tab_thm planar_not_equal
mb_tab_thm planar_phi
mb_tab_thm planar_rho
mb_tab_thm planar_rho2
mb_tab_thm planar_rotateZ
mb_tab_thm planar_scale
mb_tab_thm planar_subtract
mb_tab_thm planar_transform2D
mb_tab_thm planar_unit
mb_tab_thm planar_x
mb_tab_thm planar_y
mb_tab_thm spatial_add
mb_tab_thm spatial_costheta
mb_tab_thm spatial_cottheta
mb_tab_thm spatial_cross
mb_tab_thm spatial_deltaR
mb_tab_thm spatial_deltaR2
mb_tab_thm spatial_deltaangle
mb_tab_thm spatial_deltaeta
mb_tab_thm spatial_dot
mb_tab_thm spatial_equal
mb_tab_thm spatial_eta
mb_tab_thm spatial_is_antiparallel
mb_tab_thm spatial_is_parallel
mb_tab_thm spatial_is_perpendicular
mb_tab_thm spatial_isclose
mb_tab_thm spatial_mag
mb_tab_thm spatial_mag2
mb_tab_thm spatial_not_equal
mb_tab_thm spatial_rotateX
mb_tab_thm spatial_rotateY
mb_tab_thm spatial_rotate_axis
mb_tab_thm spatial_rotate_euler
mb_tab_thm spatial_rotate_quaternion
mb_tab_thm spatial_scale
mb_tab_thm spatial_subtract
mb_tab_thm spatial_theta
mb_tab_thm spatial_transform3D
mb_tab_thm spatial_unit
mb_tab_thm spatial_z

private theorem real_ret_declared (m : ModuleId) (k : List KA) (a : List ℝ) (out : Out ℝ Prop) (ret : Ret)
    (h : VR.Compute.eval m k a = some (out, ret)) : declared m k = some ret :=
  match m, h with
  | .lorentz_Et, h => real_tab.lorentz_Et k a out ret h
  | .lorentz_Et2, h => real_tab.lorentz_Et2 k a out ret h
  | .lorentz_Mt, h => real_tab.lorentz_Mt k a out ret h
  | .lorentz_Mt2, h => real_tab.lorentz_Mt2 k a out ret h
  | .lorentz_add, h => real_tab.lorentz_add k a out ret h
  | .lorentz_beta, h => real_tab.lorentz_beta k a out ret h
  | .lorentz_boostX_beta, h => real_tab.lorentz_boostX_beta k a out ret h
  | .lorentz_boostX_gamma, h => real_tab.lorentz_boostX_gamma k a out ret h
  | .lorentz_boostY_beta, h => real_tab.lorentz_boostY_beta k a out ret h
  | .lorentz_boostY_gamma, h => real_tab.lorentz_boostY_gamma k a out ret h
  | .lorentz_boostZ_beta, h => real_tab.lorentz_boostZ_beta k a out ret h
  | .lorentz_boostZ_gamma, h => real_tab.lorentz_boostZ_gamma k a out ret h
  | .lorentz_boost_beta3, h => real_tab.lorentz_boost_beta3 k a out ret h
  | .lorentz_boost_p4, h => real_tab.lorentz_boost_p4 k a out ret h
  | .lorentz_deltaRapidityPhi, h => real_tab.lorentz_deltaRapidityPhi k a out ret h
  | .lorentz_deltaRapidityPhi2, h => real_tab.lorentz_deltaRapidityPhi2 k a out ret h
  | .lorentz_dot, h => real_tab.lorentz_dot k a out ret h
  | .lorentz_equal, h => real_tab.lorentz_equal k a out ret h
  | .lorentz_gamma, h => real_tab.lorentz_gamma k a out ret h
  | .lorentz_is_lightlike, h => real_tab.lorentz_is_lightlike k a out ret h
  | .lorentz_is_spacelike, h => real_tab.lorentz_is_spacelike k a out ret h
  | .lorentz_is_timelike, h => real_tab.lorentz_is_timelike k a out ret h
  | .lorentz_isclose, h => real_tab.lorentz_isclose k a out ret h
  | .lorentz_not_equal, h => real_tab.lorentz_not_equal k a out ret h
  | .lorentz_rapidity, h => real_tab.lorentz_rapidity k a out ret h
  | .lorentz_scale, h => real_tab.lorentz_scale k a out ret h
  | .lorentz_subtract, h => real_tab.lorentz_subtract k a out ret h
  | .lorentz_t, h => real_tab.lorentz_t k a out ret h
  | .lorentz_t2, h => real_tab.lorentz_t2 k a out ret h
  | .lorentz_tau, h => real_tab.lorentz_tau k a out ret h
  | .lorentz_tau2, h => real_tab.lorentz_tau2 k a out ret h
  | .lorentz_to_beta3, h => real_tab.lorentz_to_beta3 k a out ret h
  | .lorentz_transform4D, h => real_tab.lorentz_transform4D k a out ret h
  | .lorentz_unit, h => real_tab.lorentz_unit k a out ret h
  | .planar_add, h => real_tab.planar_add k a out ret h
  | .planar_deltaphi, h => real_tab.planar_deltaphi k a out ret h
  | .planar_dot, h => real_tab.planar_dot k a out ret h
  | .planar_equal, h => real_tab.planar_equal k a out ret h
  | .planar_is_antiparallel, h => real_tab.planar_is_antiparallel k a out ret h
  | .planar_is_parallel, h => real_tab.planar_is_parallel k a out ret h
  | .planar_is_perpendicular, h => real_tab.planar_is_perpendicular k a out ret h
  | .planar_isclose, h => real_tab.planar_isclose k a out ret h
  | .planar_not_equal, h => real_tab.planar_not_equal k a out ret h
  | .planar_phi, h => real_tab.planar_phi k a out ret h
  | .planar_rho, h => real_tab.planar_rho k a out ret h
  | .planar_rho2, h => real_tab.planar_rho2 k a out ret h
  | .planar_rotateZ, h => real_tab.planar_rotateZ k a out ret h
  | .planar_scale, h => real_tab.planar_scale k a out ret h
  | .planar_subtract, h => real_tab.planar_subtract k a out ret h
  | .planar_transform2D, h => real_tab.planar_transform2D k a out ret h
  | .planar_unit, h => real_tab.planar_unit k a out ret h
  | .planar_x, h => real_tab.planar_x k a out ret h
  | .planar_y, h => real_tab.planar_y k a out ret h
  | .spatial_add, h => real_tab.spatial_add k a out ret h
  | .spatial_costheta, h => real_tab.spatial_costheta k a out ret h
  | .spatial_cottheta, h => real_tab.spatial_cottheta k a out ret h
  | .spatial_cross, h => real_tab.spatial_cross k a out ret h
  | .spatial_deltaR, h => real_tab.spatial_deltaR k a out ret h
  | .spatial_deltaR2, h => real_tab.spatial_deltaR2 k a out ret h
  | .spatial_deltaangle, h => real_tab.spatial_deltaangle k a out ret h
  | .spatial_deltaeta, h => real_tab.spatial_deltaeta k a out ret h
  | .spatial_dot, h => real_tab.spatial_dot k a out ret h
  | .spatial_equal, h => real_tab.spatial_equal k a out ret h
  | .spatial_eta, h => real_tab.spatial_eta k a out ret h
  | .spatial_is_antiparallel, h => real_tab.spatial_is_antiparallel k a out ret h
  | .spatial_is_parallel, h => real_tab.spatial_is_parallel k a out ret h
  | .spatial_is_perpendicular, h => real_tab.spatial_is_perpendicular k a out ret h
  | .spatial_isclose, h => real_tab.spatial_isclose k a out ret h
  | .spatial_mag, h => real_tab.spatial_mag k a out ret h
  | .spatial_mag2, h => real_tab.spatial_mag2 k a out ret h
  | .spatial_not_equal, h => real_tab.spatial_not_equal k a out ret h
  | .spatial_rotateX, h => real_tab.spatial_rotateX k a out ret h
  | .spatial_rotateY, h => real_tab.spatial_rotateY k a out ret h
  | .spatial_rotate_axis, h => real_tab.spatial_rotate_axis k a out ret h
  | .spatial_rotate_euler, h => real_tab.spatial_rotate_euler k a out ret h
  | .spatial_rotate_quaternion, h => real_tab.spatial_rotate_quaternion k a out ret h
  | .spatial_scale, h => real_tab.spatial_scale k a out ret h
  | .spatial_subtract, h => real_tab.spatial_subtract k a out ret h
  | .spatial_theta, h => real_tab.spatial_theta k a out ret h
  | .spatial_transform3D, h => real_tab.spatial_transform3D k a out ret h
  | .spatial_unit, h => real_tab.spatial_unit k a out ret h
  | .spatial_z, h => real_tab.spatial_z k a out ret h


/-! ## Part A — Numba over the reals (C07 instantiated at the REAL compute layer `evR`) -/

/-- A.1: the real compute layer returns, for every key it accepts, the declared result of the generated table -/
theorem c07m_evTables : EvTables evR :=
  ⟨fun m k a out ret h => real_ret_declared m k a out ret h⟩

/-! ### A.2 agreement, family by family (object operands; equal flavors where a second vector is involved) -/

/-- the 23 generic accessor names and the 20 momentum spellings numba defines -/
theorem c07m_acc_agree (K : Consts ℝ) (A : Arith ℝ) (self : Vec ℝ) (r : Res ℝ Prop) (hbe : self.ty.be = .obj)
    (p : String × Acc) (hp : p ∈ c07_accNames ++ c07_momNames) (h : call evR K A p.1 self [] = .ok r) :
    numbaCall evR K A p.1 self [] = call evR K A p.1 self [] := by
  rw [h]
  rcases List.mem_append.mp hp with hp | hp
  · exact c07_acc_agree evR c07m_evTables K A self r hbe p hp h
  · exact c07_mom_agree evR c07m_evTables K A self r hbe p hp h

/-- rotations, `scale2D/3D/4D`, `neg2D/3D/4D`, `boostX/Y/Z` (positional, `beta=`, `gamma=`) -/
theorem c07m_selfMethods_agree (K : Consts ℝ) (A : Arith ℝ) (self : Vec ℝ) (a b c d : ℝ) (r : Res ℝ Prop)
    (hbe : self.ty.be = .obj) (e : String × List (Arg ℝ) × ModuleId × Nat × List ℝ × Option Ord)
    (he : e ∈ c07_selfMethods K a b c d) (h : call evR K A e.1 self e.2.1 = .ok r) :
    numbaCall evR K A e.1 self e.2.1 = call evR K A e.1 self e.2.1 := by
  rw [h]; exact c07_selfMethods_agree evR c07m_evTables K A self a b c d r hbe e he h

theorem c07m_scale_agree (K : Consts ℝ) (A : Arith ℝ) (self : Vec ℝ) (f : ℝ) (r : Res ℝ Prop)
    (hbe : self.ty.be = .obj) (h : call evR K A "scale" self [.sc f] = .ok r) :
    numbaCall evR K A "scale" self [.sc f] = call evR K A "scale" self [.sc f] := by
  rw [h]; exact c07_scale_agree evR c07m_evTables K A self f r hbe h

theorem c07m_unit_agree (K : Consts ℝ) (A : Arith ℝ) (self : Vec ℝ) (r : Res ℝ Prop)
    (hbe : self.ty.be = .obj) (h : call evR K A "unit" self [] = .ok r) :
    numbaCall evR K A "unit" self [] = call evR K A "unit" self [] := by
  rw [h]; exact c07_unit_agree evR c07m_evTables K A self r hbe h

theorem c07m_rotate_euler_ord_agree (K : Consts ℝ) (A : Arith ℝ) (self : Vec ℝ) (p t q : ℝ) (s : String) (o : Ord)
    (r : Res ℝ Prop) (hbe : self.ty.be = .obj) (ho : ordOf s = some o) (hnb : nbOrdOf s = some o)
    (h : call evR K A "rotate_euler" self [.sc p, .sc t, .sc q, .str s] = .ok r) :
    numbaCall evR K A "rotate_euler" self [.sc p, .sc t, .sc q, .str s] =
      call evR K A "rotate_euler" self [.sc p, .sc t, .sc q, .str s] := by
  rw [h]; exact c07_rotate_euler_ord_agree evR c07m_evTables K A self p t q s o r hbe ho hnb h

theorem c07m_transform_agree (K : Consts ℝ) (A : Arith ℝ) (self : Vec ℝ) (l : List ℝ) (r : Res ℝ Prop)
    (hbe : self.ty.be = .obj) (e : String × Nat × ModuleId × Nat)
    (he : e ∈ [("transform2D", 4, ModuleId.planar_transform2D, 1), ("transform3D", 9, .spatial_transform3D, 2),
               ("transform4D", 16, .lorentz_transform4D, 3)])
    (hl : l.length = e.2.1) (h : call evR K A e.1 self (l.map Arg.sc) = .ok r) :
    numbaCall evR K A e.1 self (l.map Arg.sc) = call evR K A e.1 self (l.map Arg.sc) := by
  rw [h]; exact c07_transform_agree evR c07m_evTables K A self l r hbe e he hl h

/-- `is_timelike`, `is_spacelike`, `is_lightlike` (default and explicit tolerance) -/
theorem c07m_predicates_agree (K : Consts ℝ) (A : Arith ℝ) (self : Vec ℝ) (t : ℝ) (r : Res ℝ Prop)
    (hbe : self.ty.be = .obj) (e : String × List (Arg ℝ) × ModuleId × List ℝ) (he : e ∈ c07_predicates K t)
    (h : call evR K A e.1 self e.2.1 = .ok r) :
    numbaCall evR K A e.1 self e.2.1 = call evR K A e.1 self e.2.1 := by
  rw [h]; exact c07_predicates_agree evR c07m_evTables K A self t r hbe e he h

theorem c07m_to_beta3_agree (K : Consts ℝ) (A : Arith ℝ) (self : Vec ℝ) (r : Res ℝ Prop)
    (hbe : self.ty.be = .obj) (h : call evR K A "to_beta3" self [] = .ok r) :
    numbaCall evR K A "to_beta3" self [] = call evR K A "to_beta3" self [] := by
  rw [h]; exact c07_to_beta3_agree evR c07m_evTables K A self r hbe h

/-- `to_Vector2D/3D/4D()` without arguments: equal unconditionally (also when both fail) -/
theorem c07m_to_Vector_agree (K : Consts ℝ) (A : Arith ℝ) (self : Vec ℝ) (hbe : self.ty.be = .obj)
    (n : String) (hn : n ∈ ["to_Vector2D", "to_Vector3D", "to_Vector4D"]) :
    numbaCall evR K A n self [] = call evR K A n self [] :=
  c07_to_Vector_agree evR K A self hbe n hn

/-- the 20 coordinate changes `to_xy … to_rhophietatau` -/
theorem c07m_to_agree (K : Consts ℝ) (A : Arith ℝ) (self : Vec ℝ) (r : Res ℝ Prop) (hbe : self.ty.be = .obj)
    (e : String × Az × Option Lon × Option Tmp) (he : e ∈ nbToTable) (h : call evR K A e.1 self [] = .ok r) :
    numbaCall evR K A e.1 self [] = call evR K A e.1 self [] := by
  rw [h]; exact c07_to_agree evR c07m_evTables K A self r hbe e he h

/-- the 23 two-vector methods on operands of the same flavor -/
theorem c07m_binNames_agree (K : Consts ℝ) (A : Arith ℝ) (self o : Vec ℝ) (r : Res ℝ Prop)
    (hs : self.ty.be = .obj) (ho : o.ty.be = .obj) (hm : self.ty.mom = o.ty.mom) (p : String × Bin)
    (hp : p ∈ c07_binNames) (h : call evR K A p.1 self [.v o] = .ok r) :
    numbaCall evR K A p.1 self [.v o] = call evR K A p.1 self [.v o] := by
  rw [h]; exact c07_binNames_agree evR c07m_evTables K A self o r hs ho hm p hp h

/-- `is_parallel / is_antiparallel / is_perpendicular` with an explicit tolerance (any flavors) -/
theorem c07m_tolNames_agree (K : Consts ℝ) (A : Arith ℝ) (self o : Vec ℝ) (t : ℝ) (r : Res ℝ Prop)
    (hs : self.ty.be = .obj) (ho : o.ty.be = .obj)
    (n : String) (hn : n ∈ ["is_parallel", "is_antiparallel", "is_perpendicular"])
    (h : call evR K A n self [.v o, .sc t] = .ok r) :
    numbaCall evR K A n self [.v o, .sc t] = call evR K A n self [.v o, .sc t] := by
  rw [h]; exact c07_tolNames_agree evR c07m_evTables K A self o t r hs ho n hn h

theorem c07m_rotate_axis_agree (K : Consts ℝ) (A : Arith ℝ) (self axis : Vec ℝ) (a : ℝ) (r : Res ℝ Prop)
    (hs : self.ty.be = .obj) (ha : axis.ty.be = .obj)
    (h : call evR K A "rotate_axis" self [.v axis, .sc a] = .ok r) :
    numbaCall evR K A "rotate_axis" self [.v axis, .sc a] = call evR K A "rotate_axis" self [.v axis, .sc a] := by
  rw [h]; exact c07_rotate_axis_agree evR c07m_evTables K A self axis a r hs ha h

/-- scalar- and truth-valued two-vector methods agree WHATEVER the flavors -/
theorem c07m_binary_scalar_agree (K : Consts ℝ) (b : Bin) (self o : Vec ℝ) (extra : List ℝ) (r : Res ℝ Prop)
    (hb : b ∉ [Bin.add, .subtract, .cross, .boost_p4, .boost_beta3, .boost, .boostCM_of_p4, .boostCM_of_beta3, .boostCM_of])
    (hx : extra = [] ∨ ∃ t, extra = [t]) (h : binary evR K b self o extra = .ok r) :
    nbBin evR K b self o extra = binary evR K b self o extra := by
  rw [h]; exact c07_binary_scalar_agree evR c07m_evTables K b self o extra r hb hx h


/-! ### A.3 corollaries at the DENOTATION level

Every method-level theorem (`c01m_*`, `c11m_*`, `c09m_*`, `c04m_*`) is of the form "`call evR … = .ok res` and `res` denotes …";
by A.2 the compiled call returns the same `res` (same flavors) or `res` relabelled with the flavor the overload chooses (mixed
flavors, boosts) — the coordinates, hence the denotation, are the same. -/

theorem withMom_denote (r : Vec ℝ) (m : Bool) : denote (r.withMom m) = denote r := rfl
theorem withMom_wfv (r : Vec ℝ) (m : Bool) : C01M.WFV (r.withMom m) ↔ C01M.WFV r := Iff.rfl

/-- on object vectors the compiled `self.<name>(o)` is `nbBin`, the interpreted one `binary` -/
theorem nb_binName {S B : Type} (ev : Ev S B) (K : Consts S) (A : Arith S) (a b : Vec S) (ha : a.ty.be = .obj)
    (hb : b.ty.be = .obj) (p : String × Bin) (hp : p ∈ c07_binNames) :
    numbaCall ev K A p.1 a [.v b] = nbBin ev K p.2 a b [] ∧ call ev K A p.1 a [.v b] = binary ev K p.2 a b [] := by
  have hg : nbGuard a [.v b] = false := by simp [nbGuard, ha, hb, Arg.isObj]
  unfold c07_binNames at hp
  each_mem hp
  all_goals
    refine ⟨Eq.trans (b := if nbGuard a [.v b] = true then .error .unmodelled else nbBin ev K _ a b []) rfl ?_, rfl⟩
    simp only [hg, Bool.false_eq_true, if_false]

/-- generic transfer for the accessors: a scalar the interpreter returns is the scalar compiled code returns -/
theorem c07m_acc_denote (K : Consts ℝ) (A : Arith ℝ) (v : Vec ℝ) (hbe : v.ty.be = .obj) (p : String × Acc)
    (hp : p ∈ c07_accNames ++ c07_momNames) (s : ℝ) (h : call evR K A p.1 v [] = .ok (.scalar s)) :
    numbaCall evR K A p.1 v [] = .ok (.scalar s) := by
  rw [c07m_acc_agree K A v _ hbe p hp h, h]

/-- compiled planar accessors return the components / functions of the DENOTATION (transfer of `c01m_acc_*`) -/
theorem c07m_acc_xy_denote (K : Consts ℝ) (A : Arith ℝ) (v : Vec ℝ) (hbe : v.ty.be = .obj) (hv : C01M.WFV v) (x y : ℝ)
    (rest : List ℝ) (h : denote v = some (x :: y :: rest)) :
    numbaCall evR K A "x" v [] = .ok (.scalar x) ∧ numbaCall evR K A "y" v [] = .ok (.scalar y) ∧
    numbaCall evR K A "rho2" v [] = .ok (.scalar (x ^ 2 + y ^ 2)) :=
  ⟨c07m_acc_denote K A v hbe ("x", .x) (by simp [c07_accNames]) _ (c01m_acc_x K A v hv x y rest h),
   c07m_acc_denote K A v hbe ("y", .y) (by simp [c07_accNames]) _ (c01m_acc_y K A v hv x y rest h),
   c07m_acc_denote K A v hbe ("rho2", .rho2) (by simp [c07_accNames]) _ (c01m_acc_rho2 K A v hv x y rest h)⟩

theorem c07m_acc_rho_denote (K : Consts ℝ) (A : Arith ℝ) (v : Vec ℝ) (hbe : v.ty.be = .obj) (hv : C01M.WFV v)
    (hc : Stored2 Canon2 v) (x y : ℝ) (rest : List ℝ) (h : denote v = some (x :: y :: rest)) :
    numbaCall evR K A "rho" v [] = .ok (.scalar (Real.sqrt (x ^ 2 + y ^ 2))) :=
  c07m_acc_denote K A v hbe ("rho", .rho) (by simp [c07_accNames]) _ (c01m_acc_rho K A v hv hc x y rest h)

theorem c07m_acc_phi_denote (K : Consts ℝ) (A : Arith ℝ) (v : Vec ℝ) (hbe : v.ty.be = .obj) (hv : C01M.WFV v)
    (hc : Stored2 (fun k a b => 0 < rhoOf k a b ∧ CanonPhi k a b) v) (x y : ℝ) (rest : List ℝ)
    (h : denote v = some (x :: y :: rest)) : numbaCall evR K A "phi" v [] = .ok (.scalar (P.arctan2 y x)) :=
  c07m_acc_denote K A v hbe ("phi", .phi) (by simp [c07_accNames]) _ (c01m_acc_phi K A v hv hc x y rest h)

theorem c07m_acc_z_denote (K : Consts ℝ) (A : Arith ℝ) (v : Vec ℝ) (hbe : v.ty.be = .obj) (hv : C01M.WFV v)
    (hc : Stored3 (fun _ l _ _ c => TanOK l c) v) (x y z : ℝ) (rest : List ℝ)
    (h : denote v = some (x :: y :: z :: rest)) : numbaCall evR K A "z" v [] = .ok (.scalar z) :=
  c07m_acc_denote K A v hbe ("z", .z) (by simp [c07_accNames]) _ (c01m_acc_z K A v hv hc x y z rest h)

theorem c07m_acc_mag2_denote (K : Consts ℝ) (A : Arith ℝ) (v : Vec ℝ) (hbe : v.ty.be = .obj) (hv : C01M.WFV v)
    (hc : Stored3 (fun _ l _ _ c => SinOK l c) v) (x y z : ℝ) (rest : List ℝ)
    (h : denote v = some (x :: y :: z :: rest)) :
    numbaCall evR K A "mag2" v [] = .ok (.scalar (x ^ 2 + y ^ 2 + z ^ 2)) :=
  c07m_acc_denote K A v hbe ("mag2", .mag2) (by simp [c07_accNames]) _ (c01m_acc_mag2 K A v hv hc x y z rest h)

theorem c07m_acc_t_denote (K : Consts ℝ) (A : Arith ℝ) (v : Vec ℝ) (hbe : v.ty.be = .obj) (hv : C01M.WFV v)
    (hc : Stored4 (fun _ l t _ _ c d => SinOK l c ∧ CanonTmp t d) v) (x y z t : ℝ)
    (h : denote v = some [x, y, z, t]) : numbaCall evR K A "t" v [] = .ok (.scalar t) :=
  c07m_acc_denote K A v hbe ("t", .t) (by simp [c07_accNames]) _ (c09m_acc_t K A v hv hc x y z t h)

theorem c07m_acc_tau_denote (K : Consts ℝ) (A : Arith ℝ) (v : Vec ℝ) (hbe : v.ty.be = .obj) (hv : C01M.WFV v)
    (hc : Stored4 (fun k l t a b c d => CanonLon k l a b c ∧ CanonTmp t d) v) (x y z t : ℝ)
    (h : denote v = some [x, y, z, t]) :
    numbaCall evR K A "tau" v [] = .ok (.scalar (Real.sign (t ^ 2 - (x ^ 2 + y ^ 2 + z ^ 2))
      * Real.sqrt |t ^ 2 - (x ^ 2 + y ^ 2 + z ^ 2)|)) :=
  c07m_acc_denote K A v hbe ("tau", .tau) (by simp [c07_accNames]) _ (c09m_acc_tau K A v hv hc x y z t h)

/-- … and the momentum spelling `mass` of a momentum vector -/
theorem c07m_acc_mass_denote (K : Consts ℝ) (A : Arith ℝ) (v : Vec ℝ) (hbe : v.ty.be = .obj) (s : ℝ)
    (h : call evR K A "mass" v [] = .ok (.scalar s)) : numbaCall evR K A "mass" v [] = .ok (.scalar s) :=
  c07m_acc_denote K A v hbe ("mass", .tau) (by simp [c07_accNames, c07_momNames]) _ h

/-- **compiled `add`**, operands of ANY flavors: same hypotheses and same conclusion as `c11m_add`, except that the
result is a momentum vector only if BOTH operands are (`&&` instead of `||`) -/
theorem c07m_add_denote (K : Consts ℝ) (A : Arith ℝ) (a b : Vec ℝ) (hoa : a.ty.be = .obj) (hob : b.ty.be = .obj)
    (ha : C01M.WFV a) (hb : C01M.WFV b) (hd : a.ty.dim = b.ty.dim)
    (hT1 : TanOKV a) (hT2 : TanOKV b) (hS1 : C11M.SinOKV a) (hS2 : C11M.SinOKV b) (hC1 : C11M.CanonTmpV a)
    (hC2 : C11M.CanonTmpV b) (hrep : C11M.RepAdd a b) :
    ∃ r p q, numbaCall evR K A "add" a [.v b] = .ok (.vec r) ∧ C01M.WFV r ∧ r.ty.dim = a.ty.dim ∧
      r.ty.mom = (a.ty.mom && b.ty.mom) ∧ r.ty.be = .obj ∧ r.ty.tmp = C11M.tmpRes? a.ty.tmp b.ty.tmp ∧
      denote a = some p ∧ denote b = some q ∧ denote r = some (List.zipWith (· + ·) p q) := by
  obtain ⟨r, p, q, hcall, hw, hdim, hmom, hbe', htmp, hp, hq, hr⟩ :=
    C11M.c11m_add K A a b ha hb hd hT1 hT2 hS1 hS2 hC1 hC2 hrep
  obtain ⟨e1, e2⟩ := nb_binName evR K A a b hoa hob ("add", .add) (by simp [c07_binNames])
  rw [e2] at hcall
  obtain ⟨rv, hrv, _, hnb⟩ := c07_addsub evR c07m_evTables K .add (Or.inl rfl) a b [] _ hoa hob hcall
  cases hrv
  refine ⟨r.withMom (a.ty.mom && b.ty.mom), p, q, e1.trans hnb, hw, hdim, rfl, ?_, htmp, hp, hq, hr⟩
  show r.ty.be = .obj
  rw [hbe', hoa, hob]; rfl

/-- **compiled `subtract`**, any flavors (transfer of `c11m_subtract`) -/
theorem c07m_subtract_denote (K : Consts ℝ) (A : Arith ℝ) (a b : Vec ℝ) (hoa : a.ty.be = .obj) (hob : b.ty.be = .obj)
    (ha : C01M.WFV a) (hb : C01M.WFV b) (hd : a.ty.dim = b.ty.dim)
    (hT1 : TanOKV a) (hT2 : TanOKV b) (hS1 : C11M.SinOKV a) (hS2 : C11M.SinOKV b) (hC1 : C11M.CanonTmpV a)
    (hC2 : C11M.CanonTmpV b) (hrep : C11M.RepSub a b) (hcaus : C11M.SubCausal a b) :
    ∃ r p q, numbaCall evR K A "subtract" a [.v b] = .ok (.vec r) ∧ C01M.WFV r ∧ r.ty.dim = a.ty.dim ∧
      r.ty.mom = (a.ty.mom && b.ty.mom) ∧ r.ty.be = .obj ∧ r.ty.tmp = C11M.tmpRes? a.ty.tmp b.ty.tmp ∧
      denote a = some p ∧ denote b = some q ∧ denote r = some (List.zipWith (· - ·) p q) := by
  obtain ⟨r, p, q, hcall, hw, hdim, hmom, hbe', htmp, hp, hq, hr⟩ :=
    C11M.c11m_subtract K A a b ha hb hd hT1 hT2 hS1 hS2 hC1 hC2 hrep hcaus
  obtain ⟨e1, e2⟩ := nb_binName evR K A a b hoa hob ("subtract", .subtract) (by simp [c07_binNames])
  rw [e2] at hcall
  obtain ⟨rv, hrv, _, hnb⟩ := c07_addsub evR c07m_evTables K .subtract (Or.inr rfl) a b [] _ hoa hob hcall
  cases hrv
  refine ⟨r.withMom (a.ty.mom && b.ty.mom), p, q, e1.trans hnb, hw, hdim, rfl, ?_, htmp, hp, hq, hr⟩
  show r.ty.be = .obj
  rw [hbe', hoa, hob]; rfl

/-- **compiled `dot`**, any flavors: Euclidean (2D, 3D) / Minkowski (4D) product of the denotations -/
theorem c07m_dot_denote (K : Consts ℝ) (A : Arith ℝ) (a b : Vec ℝ) (hoa : a.ty.be = .obj) (hob : b.ty.be = .obj)
    (ha : C01M.WFV a) (hb : C01M.WFV b) (hd : a.ty.dim = b.ty.dim)
    (hT1 : TanOKV a) (hT2 : TanOKV b) (hS1 : C11M.SinOKV a) (hS2 : C11M.SinOKV b) (hC1 : C11M.CanonTmpV a)
    (hC2 : C11M.CanonTmpV b) :
    ∃ p q, denote a = some p ∧ denote b = some q ∧
      numbaCall evR K A "dot" a [.v b] = .ok (.scalar (C11M.dotL p q)) := by
  obtain ⟨p, q, hp, hq, hcall⟩ := C11M.c11m_dot K A a b ha hb hd hT1 hT2 hS1 hS2 hC1 hC2
  obtain ⟨e1, e2⟩ := nb_binName evR K A a b hoa hob ("dot", .dot) (by simp [c07_binNames])
  rw [e2] at hcall
  exact ⟨p, q, hp, hq, e1.trans (c07_bin_sameDim_scalar evR c07m_evTables K .dot (Or.inl rfl) a b [] _ hcall)⟩

/-- **compiled `cross`** of two 3D vectors, any flavors -/
theorem c07m_cross_denote (K : Consts ℝ) (A : Arith ℝ) (a b : Vec ℝ) (hoa : a.ty.be = .obj) (hob : b.ty.be = .obj)
    (ha : C01M.WFV a) (hb : C01M.WFV b) (hda : a.ty.dim = 3) (hdb : b.ty.dim = 3) (hT1 : TanOKV a) (hT2 : TanOKV b) :
    ∃ r p q, numbaCall evR K A "cross" a [.v b] = .ok (.vec r) ∧ C01M.WFV r ∧
      r.ty = ⟨.obj, a.ty.mom && b.ty.mom, .xy, some .z, none⟩ ∧
      denote a = some p ∧ denote b = some q ∧ denote r = some (C11M.crossL p q) := by
  obtain ⟨r, p, q, hcall, hw, hty, hp, hq, hr⟩ := C11M.c11m_cross K A a b ha hb hda hdb hT1 hT2
  obtain ⟨e1, e2⟩ := nb_binName evR K A a b hoa hob ("cross", .cross) (by simp [c07_binNames])
  rw [e2] at hcall
  obtain ⟨rv, hrv, _, hnb⟩ := c07_cross evR c07m_evTables K a b [] _ hoa hob hcall
  cases hrv
  refine ⟨r.withMom (a.ty.mom && b.ty.mom), p, q, e1.trans hnb, hw, ?_, hp, hq, hr⟩
  show ({ r.ty with mom := a.ty.mom && b.ty.mom } : VT) = _
  rw [hty, hoa, hob]; rfl

/-- **compiled `scale`** (transfer of `c11m_scale`) -/
theorem c07m_scale_denote (K : Consts ℝ) (A : Arith ℝ) (v : Vec ℝ) (hbe : v.ty.be = .obj) (hv : C01M.WFV v) (f : ℝ)
    (hθ : C11M.ThetaRangeV v) (hf : v.ty.tmp = some .tau → 0 ≤ f) :
    ∃ r p, numbaCall evR K A "scale" v [.sc f] = .ok (.vec r) ∧ r.ty = v.ty ∧ C01M.WFV r ∧
      denote v = some p ∧ denote r = some (p.map (f * ·)) := by
  obtain ⟨r, p, hcall, rest⟩ := C11M.c11m_scale K A v hv f hθ hf
  exact ⟨r, p, (c07m_scale_agree K A v f _ hbe hcall).trans hcall, rest⟩

/-- **compiled `rotateZ`** on 2D, 3D, 4D vectors in every storage (transfer of `c01m_rotateZ`) -/
theorem c07m_rotateZ_denote (K : Consts ℝ) (A : Arith ℝ) (v : Vec ℝ) (hbe : v.ty.be = .obj) (hv : C01M.WFV v) (ang : ℝ) :
    ∃ w, numbaCall evR K A "rotateZ" v [.sc ang] = .ok (.vec w) ∧ w.ty = v.ty ∧ C01M.WFV w ∧
      denote w = (denote v).map (onPlanar (rotZ2 ang)) := by
  obtain ⟨w, hcall, rest⟩ := c01m_rotateZ K A v hv ang
  exact ⟨w, (c07m_selfMethods_agree K A v ang 0 0 0 _ hbe ("rotateZ", [.sc ang], .planar_rotateZ, 1, [ang], none)
    (by simp [c07_selfMethods]) hcall).trans hcall, rest⟩

/-- **compiled `rotateX`** on 3D and 4D vectors in every storage (transfer of `c01m_rotateX`) -/
theorem c07m_rotateX_denote (K : Consts ℝ) (A : Arith ℝ) (v : Vec ℝ) (hbe : v.ty.be = .obj) (hv : C01M.WFV v)
    (hd : 3 ≤ v.ty.dim) (hT : TanOKV v) (ang : ℝ) :
    ∃ w, numbaCall evR K A "rotateX" v [.sc ang] = .ok (.vec w) ∧ w.ty = { v.ty with az := .xy, lon := some .z } ∧
      C01M.WFV w ∧ denote w = (denote v).map (onSpatial (rotX ang)) := by
  obtain ⟨w, hcall, rest⟩ := c01m_rotateX K A v hv hd hT ang
  exact ⟨w, (c07m_selfMethods_agree K A v ang 0 0 0 _ hbe ("rotateX", [.sc ang], .spatial_rotateX, 2, [ang], none)
    (by simp [c07_selfMethods]) hcall).trans hcall, rest⟩

/-- **compiled `rotateY`** (transfer of `c01m_rotateY`) -/
theorem c07m_rotateY_denote (K : Consts ℝ) (A : Arith ℝ) (v : Vec ℝ) (hbe : v.ty.be = .obj) (hv : C01M.WFV v)
    (hd : 3 ≤ v.ty.dim) (hT : TanOKV v) (ang : ℝ) :
    ∃ w, numbaCall evR K A "rotateY" v [.sc ang] = .ok (.vec w) ∧ w.ty = { v.ty with az := .xy, lon := some .z } ∧
      C01M.WFV w ∧ denote w = (denote v).map (onSpatial (rotY ang)) := by
  obtain ⟨w, hcall, rest⟩ := c01m_rotateY K A v hv hd hT ang
  exact ⟨w, (c07m_selfMethods_agree K A v ang 0 0 0 _ hbe ("rotateY", [.sc ang], .spatial_rotateY, 2, [ang], none)
    (by simp [c07_selfMethods]) hcall).trans hcall, rest⟩


/-- **compiled `boostX(beta=β)` and positional `boostX(β)`** (transfer of `c09m_boostX_beta`) -/
theorem c07m_boostX_beta_denote (K : Consts ℝ) (A : Arith ℝ) (v : Vec ℝ) (hbe : v.ty.be = .obj) (hv : C01M.WFV v)
    (hd : v.ty.dim = 4) (hc : BoostOK v) (β : ℝ) (hβ : v.ty.tmp = some .tau → |β| < 1) :
    ∃ w, numbaCall evR K A "boostX" v [.kw "beta" β] = .ok (.vec w) ∧
      numbaCall evR K A "boostX" v [.sc β] = .ok (.vec w) ∧
      w.ty = { v.ty with az := .xy, lon := some .z } ∧ C01M.WFV w ∧ denote w = (denote v).map (on4 (bXβ β)) := by
  obtain ⟨w, h1, h2, rest⟩ := c09m_boostX_beta K A v hv hd hc β hβ
  exact ⟨w,
    (c07m_selfMethods_agree K A v β 0 0 0 _ hbe ("boostX", [.kw "beta" β], .lorentz_boostX_beta, 3, [β], none)
      (by simp [c07_selfMethods]) h1).trans h1,
    (c07m_selfMethods_agree K A v β 0 0 0 _ hbe ("boostX", [.sc β], .lorentz_boostX_beta, 3, [β], none)
      (by simp [c07_selfMethods]) h2).trans h2, rest⟩

/-- **compiled `boostX(gamma=γ)`** (transfer of `c09m_boostX_gamma`) -/
theorem c07m_boostX_gamma_denote (K : Consts ℝ) (A : Arith ℝ) (v : Vec ℝ) (hbe : v.ty.be = .obj) (hv : C01M.WFV v)
    (hd : v.ty.dim = 4) (hc : BoostOK v) (γ : ℝ) (hγ : v.ty.tmp = some .tau → 1 ≤ |γ|) :
    ∃ w, numbaCall evR K A "boostX" v [.kw "gamma" γ] = .ok (.vec w) ∧
      w.ty = { v.ty with az := .xy, lon := some .z } ∧ C01M.WFV w ∧ denote w = (denote v).map (on4 (bXγ γ)) := by
  obtain ⟨w, h1, rest⟩ := c09m_boostX_gamma K A v hv hd hc γ hγ
  exact ⟨w,
    (c07m_selfMethods_agree K A v γ 0 0 0 _ hbe ("boostX", [.kw "gamma" γ], .lorentz_boostX_gamma, 3, [γ], none)
      (by simp [c07_selfMethods]) h1).trans h1, rest⟩

/-- **compiled `boostY(beta=β)` and positional `boostY(β)`** (transfer of `c09m_boostY_beta`) -/
theorem c07m_boostY_beta_denote (K : Consts ℝ) (A : Arith ℝ) (v : Vec ℝ) (hbe : v.ty.be = .obj) (hv : C01M.WFV v)
    (hd : v.ty.dim = 4) (hc : BoostOK v) (β : ℝ) (hβ : v.ty.tmp = some .tau → |β| < 1) :
    ∃ w, numbaCall evR K A "boostY" v [.kw "beta" β] = .ok (.vec w) ∧
      numbaCall evR K A "boostY" v [.sc β] = .ok (.vec w) ∧
      w.ty = { v.ty with az := .xy, lon := some .z } ∧ C01M.WFV w ∧ denote w = (denote v).map (on4 (bYβ β)) := by
  obtain ⟨w, h1, h2, rest⟩ := c09m_boostY_beta K A v hv hd hc β hβ
  exact ⟨w,
    (c07m_selfMethods_agree K A v β 0 0 0 _ hbe ("boostY", [.kw "beta" β], .lorentz_boostY_beta, 3, [β], none)
      (by simp [c07_selfMethods]) h1).trans h1,
    (c07m_selfMethods_agree K A v β 0 0 0 _ hbe ("boostY", [.sc β], .lorentz_boostY_beta, 3, [β], none)
      (by simp [c07_selfMethods]) h2).trans h2, rest⟩

/-- **compiled `boostY(gamma=γ)`** (transfer of `c09m_boostY_gamma`) -/
theorem c07m_boostY_gamma_denote (K : Consts ℝ) (A : Arith ℝ) (v : Vec ℝ) (hbe : v.ty.be = .obj) (hv : C01M.WFV v)
    (hd : v.ty.dim = 4) (hc : BoostOK v) (γ : ℝ) (hγ : v.ty.tmp = some .tau → 1 ≤ |γ|) :
    ∃ w, numbaCall evR K A "boostY" v [.kw "gamma" γ] = .ok (.vec w) ∧
      w.ty = { v.ty with az := .xy, lon := some .z } ∧ C01M.WFV w ∧ denote w = (denote v).map (on4 (bYγ γ)) := by
  obtain ⟨w, h1, rest⟩ := c09m_boostY_gamma K A v hv hd hc γ hγ
  exact ⟨w,
    (c07m_selfMethods_agree K A v γ 0 0 0 _ hbe ("boostY", [.kw "gamma" γ], .lorentz_boostY_gamma, 3, [γ], none)
      (by simp [c07_selfMethods]) h1).trans h1, rest⟩

/-- **compiled `boostZ(beta=β)` and positional `boostZ(β)`** (transfer of `c09m_boostZ_beta`) -/
theorem c07m_boostZ_beta_denote (K : Consts ℝ) (A : Arith ℝ) (v : Vec ℝ) (hbe : v.ty.be = .obj) (hv : C01M.WFV v)
    (hd : v.ty.dim = 4) (hc : BoostOK v) (β : ℝ) (hβ : v.ty.tmp = some .tau → |β| < 1) :
    ∃ w, numbaCall evR K A "boostZ" v [.kw "beta" β] = .ok (.vec w) ∧
      numbaCall evR K A "boostZ" v [.sc β] = .ok (.vec w) ∧
      w.ty = { v.ty with lon := some .z } ∧ C01M.WFV w ∧ denote w = (denote v).map (on4 (bZβ β)) := by
  obtain ⟨w, h1, h2, rest⟩ := c09m_boostZ_beta K A v hv hd hc β hβ
  exact ⟨w,
    (c07m_selfMethods_agree K A v β 0 0 0 _ hbe ("boostZ", [.kw "beta" β], .lorentz_boostZ_beta, 3, [β], none)
      (by simp [c07_selfMethods]) h1).trans h1,
    (c07m_selfMethods_agree K A v β 0 0 0 _ hbe ("boostZ", [.sc β], .lorentz_boostZ_beta, 3, [β], none)
      (by simp [c07_selfMethods]) h2).trans h2, rest⟩

/-- **compiled `boostZ(gamma=γ)`** (transfer of `c09m_boostZ_gamma`) -/
theorem c07m_boostZ_gamma_denote (K : Consts ℝ) (A : Arith ℝ) (v : Vec ℝ) (hbe : v.ty.be = .obj) (hv : C01M.WFV v)
    (hd : v.ty.dim = 4) (hc : BoostOK v) (γ : ℝ) (hγ : v.ty.tmp = some .tau → 1 ≤ |γ|) :
    ∃ w, numbaCall evR K A "boostZ" v [.kw "gamma" γ] = .ok (.vec w) ∧
      w.ty = { v.ty with lon := some .z } ∧ C01M.WFV w ∧ denote w = (denote v).map (on4 (bZγ γ)) := by
  obtain ⟨w, h1, rest⟩ := c09m_boostZ_gamma K A v hv hd hc γ hγ
  exact ⟨w,
    (c07m_selfMethods_agree K A v γ 0 0 0 _ hbe ("boostZ", [.kw "gamma" γ], .lorentz_boostZ_gamma, 3, [γ], none)
      (by simp [c07_selfMethods]) h1).trans h1, rest⟩

/-- **compiled `boost_p4`**, operands of ANY flavors: the hypotheses and the denotation of `c09m_boost_p4`; the compiled
result has the flavor of `v` ALONE (interpreter: momentum if either operand is) -/
theorem c07m_boost_p4_denote (K : Consts ℝ) (A : Arith ℝ) (v p : Vec ℝ) (hov : v.ty.be = .obj) (hop : p.ty.be = .obj)
    (hv : C01M.WFV v) (hd : v.ty.dim = 4) (hp : C01M.WFV p) (hdp : p.ty.dim = 4)
    (hc : Stored4 (fun _ l t _ _ c d => TanOK l c ∧ CanonTmp t d) v) (hcp : BoostOK p)
    (x y z t px py pz E : ℝ) (h : denote v = some [x, y, z, t]) (h' : denote p = some [px, py, pz, E])
    (hphys : v.ty.tmp = some .tau → px ^ 2 + py ^ 2 + pz ^ 2 < E ^ 2 ∧ 0 < E) :
    ∃ w, numbaCall evR K A "boost_p4" v [.v p] = .ok (.vec w) ∧
      w.ty = ⟨.obj, v.ty.mom, .xy, some .z, v.ty.tmp⟩ ∧ C01M.WFV w ∧
      denote w = some (l4 (bp4 (x, y, z, t) (px, py, pz, E))) := by
  obtain ⟨w, hcall, hty, hw, hden⟩ := c09m_boost_p4 K A v p hv hd hp hdp hc hcp x y z t px py pz E h h' hphys
  obtain ⟨e1, e2⟩ := nb_binName evR K A v p hov hop ("boost_p4", .boost_p4) (by simp [c07_binNames])
  rw [e2] at hcall
  obtain ⟨rv, hrv, _, hnb⟩ := c07_boost evR c07m_evTables K .boost_p4 (by simp) v p [] _ hov hop hcall
  cases hrv
  refine ⟨w.withMom v.ty.mom, e1.trans hnb, ?_, hw, hden⟩
  show ({ w.ty with mom := v.ty.mom } : VT) = _
  rw [hty, hov, hop]; rfl

/-- **compiled `boost_beta3`** by a 3D velocity, any flavors (transfer of `c09m_boost_beta3`) -/
theorem c07m_boost_beta3_denote (K : Consts ℝ) (A : Arith ℝ) (v p : Vec ℝ) (hov : v.ty.be = .obj) (hop : p.ty.be = .obj)
    (hv : C01M.WFV v) (hd : v.ty.dim = 4) (hp : C01M.WFV p) (hdp : p.ty.dim = 3)
    (hc : Stored4 (fun _ l t _ _ c d => TanOK l c ∧ CanonTmp t d) v)
    (hcp : Stored3 (fun _ l _ _ c => TanOK l c) p)
    (x y z t bx by' bz : ℝ) (h : denote v = some [x, y, z, t]) (h' : denote p = some [bx, by', bz])
    (hphys : v.ty.tmp = some .tau → bx ^ 2 + by' ^ 2 + bz ^ 2 < 1) :
    ∃ w, numbaCall evR K A "boost_beta3" v [.v p] = .ok (.vec w) ∧
      w.ty = ⟨.obj, v.ty.mom, .xy, some .z, v.ty.tmp⟩ ∧ C01M.WFV w ∧
      denote w = some (l4 (bβ3 (x, y, z, t) (bx, by', bz))) := by
  obtain ⟨w, hcall, hty, hw, hden⟩ := c09m_boost_beta3 K A v p hv hd hp hdp hc hcp x y z t bx by' bz h h' hphys
  obtain ⟨e1, e2⟩ := nb_binName evR K A v p hov hop ("boost_beta3", .boost_beta3) (by simp [c07_binNames])
  rw [e2] at hcall
  obtain ⟨rv, hrv, _, hnb⟩ := c07_boost evR c07m_evTables K .boost_beta3 (by simp) v p [] _ hov hop hcall
  cases hrv
  refine ⟨w.withMom v.ty.mom, e1.trans hnb, ?_, hw, hden⟩
  show ({ w.ty with mom := v.ty.mom } : VT) = _
  rw [hty, hov, hop]; rfl

/-- each of the 20 names numba defines is one of the interpreter's 40, with the same target system -/
theorem nbToTable_target : ∀ e ∈ nbToTable, C04.toTarget e.1 = some (e.2.1, e.2.2.1, e.2.2.2) := by decide

/-- **all 20 compiled `to_<system>()` conversions** on a vector of the dimension of the target, in every storage: a vector
with the flavor of `v`, stored in the target system, with THE SAME denotation (transfer of `c04m_to_denote`) -/
theorem c07m_to_denote (K : Consts ℝ) (A : Arith ℝ) (e : String × Az × Option Lon × Option Tmp) (he : e ∈ nbToTable)
    (v : Vec ℝ) (hbe : v.ty.be = .obj) (hv : C01M.WFV v) (hl : e.2.2.1.isSome = v.ty.lon.isSome)
    (ht : e.2.2.2.isSome = v.ty.tmp.isSome) (h : C04M.FwdOK v e.2.2.1 e.2.2.2) :
    ∃ r, numbaCall evR K A e.1 v [] = .ok (.vec r) ∧
      r.ty = { v.ty with az := e.2.1, lon := e.2.2.1, tmp := e.2.2.2 } ∧ C01M.WFV r ∧ denote r = denote v := by
  obtain ⟨r, hcall, rest⟩ :=
    C04M.c04m_to_denote_name K A e.1 e.2.1 e.2.2.1 e.2.2.2 (nbToTable_target e he) v hv hl ht h
  exact ⟨r, (c07m_to_agree K A v _ hbe e he hcall).trans hcall, rest⟩

/-- **compiled `to_Vector2D()` / `to_Vector3D()` projections** denote the `[x, y]` / `[x, y, z]` prefix -/
theorem c07m_to_Vector_proj_denote (K : Consts ℝ) (A : Arith ℝ) (v : Vec ℝ) (hbe : v.ty.be = .obj) (hv : C01M.WFV v) :
    (∃ w, numbaCall evR K A "to_Vector2D" v [] = .ok (.vec w) ∧ C01M.WFV w ∧ w.ty.dim = 2 ∧
      denote w = (denote v).map (List.take 2)) ∧
    (3 ≤ v.ty.dim → ∃ w, numbaCall evR K A "to_Vector3D" v [] = .ok (.vec w) ∧ C01M.WFV w ∧ w.ty.dim = 3 ∧
      denote w = (denote v).map (List.take 3)) := by
  refine ⟨?_, fun hd => ?_⟩
  · obtain ⟨w, hcall, rest⟩ := c01m_to_Vector2D K A v hv
    exact ⟨w, (c07m_to_Vector_agree K A v hbe _ (by simp)).trans hcall, rest⟩
  · obtain ⟨w, hcall, rest⟩ := c01m_to_Vector3D_proj K A v hv hd
    exact ⟨w, (c07m_to_Vector_agree K A v hbe _ (by simp)).trans hcall, rest⟩

/-! ### A.4 the documented differences, over ℝ -/

/-- mixed flavors, `add` / `subtract` / `cross`: interpreter → momentum vector, compiled → generic vector with THE SAME
coordinates (hence the same denotation, `withMom_denote`) -/
theorem c07m_mixed_flavor (K : Consts ℝ) (b : Bin) (hb : b = .add ∨ b = .subtract ∨ b = .cross) (self o rv : Vec ℝ)
    (hs : self.ty.be = .obj) (ho : o.ty.be = .obj) (hm : self.ty.mom ≠ o.ty.mom)
    (h : binary evR K b self o [] = .ok (.vec rv)) :
    rv.ty.mom = true ∧ nbBin evR K b self o [] = .ok (.vec (rv.withMom false)) ∧
      denote (rv.withMom false) = denote rv :=
  ⟨(c07_mixed_flavor evR c07m_evTables K b hb self o [] rv hs ho hm h).1,
   (c07_mixed_flavor evR c07m_evTables K b hb self o [] rv hs ho hm h).2, rfl⟩

/-- boosts of a generic vector by a momentum vector: compiled result generic, interpreter's momentum; same coordinates -/
theorem c07m_boost_flavor (K : Consts ℝ) (b : Bin)
    (hb : b ∈ [Bin.boost_p4, .boost_beta3, .boost, .boostCM_of_p4, .boostCM_of_beta3, .boostCM_of])
    (self o rv : Vec ℝ) (hs : self.ty.be = .obj) (ho : o.ty.be = .obj)
    (hsm : self.ty.mom = false) (hom : o.ty.mom = true) (h : binary evR K b self o [] = .ok (.vec rv)) :
    rv.ty.mom = true ∧ nbBin evR K b self o [] = .ok (.vec (rv.withMom false)) ∧
      denote (rv.withMom false) = denote rv :=
  ⟨(c07_boost_flavor evR c07m_evTables K b hb self o [] rv hs ho hsm hom h).1,
   (c07_boost_flavor evR c07m_evTables K b hb self o [] rv hs ho hsm hom h).2, rfl⟩

/-- operands of different dimension, `add` / `subtract`: the interpreter raises `TypeError`; compiled code returns what
the interpreter returns on both operands projected with `to_Vector<min>D()`, with flavor `&&` -/
theorem c07m_min_dim_addsub (K : Consts ℝ) (b : Bin) (hb : b = .add ∨ b = .subtract) (self o s' o' : Vec ℝ)
    (r : Res ℝ Prop) (hw1 : self.WF) (hw2 : o.WF) (hs : self.ty.be = .obj) (ho : o.ty.be = .obj)
    (hne : o.ty.dim ≠ self.ty.dim)
    (h1 : nbToVector K.zeroF (min self.ty.dim o.ty.dim) self = .ok s')
    (h2 : nbToVector K.zeroF (min self.ty.dim o.ty.dim) o = .ok o') (h : binary evR K b s' o' [] = .ok r) :
    binary evR K b self o [] = .error .typeError ∧
    ∃ rv, r = .vec rv ∧ rv.ty.dim = min self.ty.dim o.ty.dim ∧
      nbBin evR K b self o [] = .ok (.vec (rv.withMom (self.ty.mom && o.ty.mom))) :=
  c07_min_dim_addsub evR c07m_evTables K b hb self o s' o' r hw1 hw2 hs ho hne h1 h2 h

/-- … and `dot` -/
theorem c07m_min_dim_dot (K : Consts ℝ) (self o s' o' : Vec ℝ) (r : Res ℝ Prop) (hw1 : self.WF) (hw2 : o.WF)
    (hne : o.ty.dim ≠ self.ty.dim)
    (h1 : nbToVector K.zeroF (min self.ty.dim o.ty.dim) self = .ok s')
    (h2 : nbToVector K.zeroF (min self.ty.dim o.ty.dim) o = .ok o') (h : binary evR K .dot s' o' [] = .ok r) :
    binary evR K .dot self o [] = .error .typeError ∧ nbBin evR K .dot self o [] = .ok r :=
  c07_min_dim_dot evR c07m_evTables K self o s' o' r hw1 hw2 hne h1 h2 h

/-- concrete instance over ℝ of the mixed-dimension difference at the DENOTATION level: compiled `add` of the 3D vector
`(1, 2, 3)` and the 2D vector `(10, 20)` is the 2D vector `(11, 22)`; the interpreter raises `TypeError` -/
theorem c07m_min_dim_example (K : Consts ℝ) (A : Arith ℝ) :
    call evR K A "add" ⟨⟨.obj, false, .xy, some .z, none⟩, [1, 2, 3]⟩ [.v ⟨⟨.obj, false, .xy, none, none⟩, [10, 20]⟩] =
      .error .typeError ∧
    ∃ w, numbaCall evR K A "add" ⟨⟨.obj, false, .xy, some .z, none⟩, [1, 2, 3]⟩
        [.v ⟨⟨.obj, false, .xy, none, none⟩, [10, 20]⟩] = .ok (.vec w) ∧ denote w = some [1 + 10, 2 + 20] := by
  refine ⟨rfl, ⟨⟨.obj, false, .xy, none, none⟩, [1 + 10, 2 + 20]⟩, rfl, rfl⟩

-- the hypotheses of Part A are satisfiable: a well-formed object momentum 4-vector (1, 2, 3, 10) in Cartesian storage
example : (⟨⟨.obj, true, .xy, some .z, some .t⟩, [1, 2, 3, 10]⟩ : Vec ℝ).ty.be = .obj ∧
    C01M.WFV (⟨⟨.obj, true, .xy, some .z, some .t⟩, [1, 2, 3, 10]⟩ : Vec ℝ) ∧
    denote (⟨⟨.obj, true, .xy, some .z, some .t⟩, [1, 2, 3, 10]⟩ : Vec ℝ) = some [1, 2, 3, 10] :=
  ⟨rfl, ⟨by simp, rfl⟩, rfl⟩

/-! ## Part B — SymPy over the reals (C08)

`evS`: the compute layer as `vector._lib.SympyLib` evaluates it (`Gen/Sym`, namespace `VS`), assembled from the per-module
`VS.<module>.evalL` wrappers exactly as `Gen/Real/All.lean` assembles `VR.Compute.eval` (`Gen/Sym/All.lean` has no
`Compute.eval`). -/

/-- the SymPy compute layer over ℝ, as the glue sees it -/
noncomputable def evS : VG.Ev ℝ Prop := fun m k a =>
  match m with
  | .lorentz_Et => VS.lorentz_Et.evalL k a
  | .lorentz_Et2 => VS.lorentz_Et2.evalL k a
  | .lorentz_Mt => VS.lorentz_Mt.evalL k a
  | .lorentz_Mt2 => VS.lorentz_Mt2.evalL k a
  | .lorentz_add => VS.lorentz_add.evalL k a
  | .lorentz_beta => VS.lorentz_beta.evalL k a
  | .lorentz_boostX_beta => VS.lorentz_boostX_beta.evalL k a
  | .lorentz_boostX_gamma => VS.lorentz_boostX_gamma.evalL k a
  | .lorentz_boostY_beta => VS.lorentz_boostY_beta.evalL k a
  | .lorentz_boostY_gamma => VS.lorentz_boostY_gamma.evalL k a
  | .lorentz_boostZ_beta => VS.lorentz_boostZ_beta.evalL k a
  | .lorentz_boostZ_gamma => VS.lorentz_boostZ_gamma.evalL k a
  | .lorentz_boost_beta3 => VS.lorentz_boost_beta3.evalL k a
  | .lorentz_boost_p4 => VS.lorentz_boost_p4.evalL k a
  | .lorentz_deltaRapidityPhi => VS.lorentz_deltaRapidityPhi.evalL k a
  | .lorentz_deltaRapidityPhi2 => VS.lorentz_deltaRapidityPhi2.evalL k a
  | .lorentz_dot => VS.lorentz_dot.evalL k a
  | .lorentz_equal => VS.lorentz_equal.evalL k a
  | .lorentz_gamma => VS.lorentz_gamma.evalL k a
  | .lorentz_is_lightlike => VS.lorentz_is_lightlike.evalL k a
  | .lorentz_is_spacelike => VS.lorentz_is_spacelike.evalL k a
  | .lorentz_is_timelike => VS.lorentz_is_timelike.evalL k a
  | .lorentz_isclose => VS.lorentz_isclose.evalL k a
  | .lorentz_not_equal => VS.lorentz_not_equal.evalL k a
  | .lorentz_rapidity => VS.lorentz_rapidity.evalL k a
  | .lorentz_scale => VS.lorentz_scale.evalL k a
  | .lorentz_subtract => VS.lorentz_subtract.evalL k a
  | .lorentz_t => VS.lorentz_t.evalL k a
  | .lorentz_t2 => VS.lorentz_t2.evalL k a
  | .lorentz_tau => VS.lorentz_tau.evalL k a
  | .lorentz_tau2 => VS.lorentz_tau2.evalL k a
  | .lorentz_to_beta3 => VS.lorentz_to_beta3.evalL k a
  | .lorentz_transform4D => VS.lorentz_transform4D.evalL k a
  | .lorentz_unit => VS.lorentz_unit.evalL k a
  | .planar_add => VS.planar_add.evalL k a
  | .planar_deltaphi => VS.planar_deltaphi.evalL k a
  | .planar_dot => VS.planar_dot.evalL k a
  | .planar_equal => VS.planar_equal.evalL k a
  | .planar_is_antiparallel => VS.planar_is_antiparallel.evalL k a
  | .planar_is_parallel => VS.planar_is_parallel.evalL k a
  | .planar_is_perpendicular => VS.planar_is_perpendicular.evalL k a
  | .planar_isclose => VS.planar_isclose.evalL k a
  | .planar_not_equal => VS.planar_not_equal.evalL k a
  | .planar_phi => VS.planar_phi.evalL k a
  | .planar_rho => VS.planar_rho.evalL k a
  | .planar_rho2 => VS.planar_rho2.evalL k a
  | .planar_rotateZ => VS.planar_rotateZ.evalL k a
  | .planar_scale => VS.planar_scale.evalL k a
  | .planar_subtract => VS.planar_subtract.evalL k a
  | .planar_transform2D => VS.planar_transform2D.evalL k a
  | .planar_unit => VS.planar_unit.evalL k a
  | .planar_x => VS.planar_x.evalL k a
  | .planar_y => VS.planar_y.evalL k a
  | .spatial_add => VS.spatial_add.evalL k a
  | .spatial_costheta => VS.spatial_costheta.evalL k a
  | .spatial_cottheta => VS.spatial_cottheta.evalL k a
  | .spatial_cross => VS.spatial_cross.evalL k a
  | .spatial_deltaR => VS.spatial_deltaR.evalL k a
  | .spatial_deltaR2 => VS.spatial_deltaR2.evalL k a
  | .spatial_deltaangle => VS.spatial_deltaangle.evalL k a
  | .spatial_deltaeta => VS.spatial_deltaeta.evalL k a
  | .spatial_dot => VS.spatial_dot.evalL k a
  | .spatial_equal => VS.spatial_equal.evalL k a
  | .spatial_eta => VS.spatial_eta.evalL k a
  | .spatial_is_antiparallel => VS.spatial_is_antiparallel.evalL k a
  | .spatial_is_parallel => VS.spatial_is_parallel.evalL k a
  | .spatial_is_perpendicular => VS.spatial_is_perpendicular.evalL k a
  | .spatial_isclose => VS.spatial_isclose.evalL k a
  | .spatial_mag => VS.spatial_mag.evalL k a
  | .spatial_mag2 => VS.spatial_mag2.evalL k a
  | .spatial_not_equal => VS.spatial_not_equal.evalL k a
  | .spatial_rotateX => VS.spatial_rotateX.evalL k a
  | .spatial_rotateY => VS.spatial_rotateY.evalL k a
  | .spatial_rotate_axis => VS.spatial_rotate_axis.evalL k a
  | .spatial_rotate_euler => VS.spatial_rotate_euler.evalL k a
  | .spatial_rotate_quaternion => VS.spatial_rotate_quaternion.evalL k a
  | .spatial_scale => VS.spatial_scale.evalL k a
  | .spatial_subtract => VS.spatial_subtract.evalL k a
  | .spatial_theta => VS.spatial_theta.evalL k a
  | .spatial_transform3D => VS.spatial_transform3D.evalL k a
  | .spatial_unit => VS.spatial_unit.evalL k a
  | .spatial_z => VS.spatial_z.evalL k a

/-- `evalL` of a module whose `eval` agrees for all keys and arguments: destructure key and argument lists -/
local macro "mb_evalL_eq " vs:ident vr:ident e:ident : tactic =>
  `(tactic| (
    unfold $vs $vr
    split
    · repeat (mb_cases_one KA <;> simp [KA.az?, KA.lon?, KA.tmp?, KA.ord?, $e:ident])
      all_goals
        (repeat (first | mb_cases_one VK.Az | mb_cases_one VK.Lon | mb_cases_one VK.Tmp | mb_cases_one VK.Ord))
      all_goals rfl
    · split
      · first
          | (exfalso; simp_all; done)
          | (exfalso; simp_all; rename_i hx; apply hx <;> rfl)
      · rfl))

private theorem sym_evalL_eq.planar_add (k : List KA) (a : List ℝ) : VS.planar_add.evalL k a = VR.planar_add.evalL k a := by
  mb_evalL_eq VS.planar_add.evalL VR.planar_add.evalL VS.planar_add.eval_eq
private theorem sym_evalL_eq.planar_deltaphi (k : List KA) (a : List ℝ) : VS.planar_deltaphi.evalL k a = VR.planar_deltaphi.evalL k a := by
  mb_evalL_eq VS.planar_deltaphi.evalL VR.planar_deltaphi.evalL VS.planar_deltaphi.eval_eq
private theorem sym_evalL_eq.planar_dot (k : List KA) (a : List ℝ) : VS.planar_dot.evalL k a = VR.planar_dot.evalL k a := by
  mb_evalL_eq VS.planar_dot.evalL VR.planar_dot.evalL VS.planar_dot.eval_eq
private theorem sym_evalL_eq.planar_equal (k : List KA) (a : List ℝ) : VS.planar_equal.evalL k a = VR.planar_equal.evalL k a := by
  mb_evalL_eq VS.planar_equal.evalL VR.planar_equal.evalL VS.planar_equal.eval_eq
private theorem sym_evalL_eq.planar_is_antiparallel (k : List KA) (a : List ℝ) : VS.planar_is_antiparallel.evalL k a = VR.planar_is_antiparallel.evalL k a := by
  mb_evalL_eq VS.planar_is_antiparallel.evalL VR.planar_is_antiparallel.evalL VS.planar_is_antiparallel.eval_eq
private theorem sym_evalL_eq.planar_is_parallel (k : List KA) (a : List ℝ) : VS.planar_is_parallel.evalL k a = VR.planar_is_parallel.evalL k a := by
  mb_evalL_eq VS.planar_is_parallel.evalL VR.planar_is_parallel.evalL VS.planar_is_parallel.eval_eq
private theorem sym_evalL_eq.planar_is_perpendicular (k : List KA) (a : List ℝ) : VS.planar_is_perpendicular.evalL k a = VR.planar_is_perpendicular.evalL k a := by
  mb_evalL_eq VS.planar_is_perpendicular.evalL VR.planar_is_perpendicular.evalL VS.planar_is_perpendicular.eval_eq
private theorem sym_evalL_eq.planar_not_equal (k : List KA) (a : List ℝ) : VS.planar_not_equal.evalL k a = VR.planar_not_equal.evalL k a := by
  mb_evalL_eq VS.planar_not_equal.evalL VR.planar_not_equal.evalL VS.planar_not_equal.eval_eq
private theorem sym_evalL_eq.planar_phi (k : List KA) (a : List ℝ) : VS.planar_phi.evalL k a = VR.planar_phi.evalL k a := by
  mb_evalL_eq VS.planar_phi.evalL VR.planar_phi.evalL VS.planar_phi.eval_eq
private theorem sym_evalL_eq.planar_rho (k : List KA) (a : List ℝ) : VS.planar_rho.evalL k a = VR.planar_rho.evalL k a := by
  mb_evalL_eq VS.planar_rho.evalL VR.planar_rho.evalL VS.planar_rho.eval_eq
private theorem sym_evalL_eq.planar_rho2 (k : List KA) (a : List ℝ) : VS.planar_rho2.evalL k a = VR.planar_rho2.evalL k a := by
  mb_evalL_eq VS.planar_rho2.evalL VR.planar_rho2.evalL VS.planar_rho2.eval_eq
private theorem sym_evalL_eq.planar_rotateZ (k : List KA) (a : List ℝ) : VS.planar_rotateZ.evalL k a = VR.planar_rotateZ.evalL k a := by
  mb_evalL_eq VS.planar_rotateZ.evalL VR.planar_rotateZ.evalL VS.planar_rotateZ.eval_eq
private theorem sym_evalL_eq.planar_subtract (k : List KA) (a : List ℝ) : VS.planar_subtract.evalL k a = VR.planar_subtract.evalL k a := by
  mb_evalL_eq VS.planar_subtract.evalL VR.planar_subtract.evalL VS.planar_subtract.eval_eq
private theorem sym_evalL_eq.planar_transform2D (k : List KA) (a : List ℝ) : VS.planar_transform2D.evalL k a = VR.planar_transform2D.evalL k a := by
  mb_evalL_eq VS.planar_transform2D.evalL VR.planar_transform2D.evalL VS.planar_transform2D.eval_eq
private theorem sym_evalL_eq.planar_unit (k : List KA) (a : List ℝ) : VS.planar_unit.evalL k a = VR.planar_unit.evalL k a := by
  mb_evalL_eq VS.planar_unit.evalL VR.planar_unit.evalL VS.planar_unit.eval_eq
private theorem sym_evalL_eq.planar_x (k : List KA) (a : List ℝ) : VS.planar_x.evalL k a = VR.planar_x.evalL k a := by
  mb_evalL_eq VS.planar_x.evalL VR.planar_x.evalL VS.planar_x.eval_eq
private theorem sym_evalL_eq.planar_y (k : List KA) (a : List ℝ) : VS.planar_y.evalL k a = VR.planar_y.evalL k a := by
  mb_evalL_eq VS.planar_y.evalL VR.planar_y.evalL VS.planar_y.eval_eq
private theorem sym_evalL_eq.spatial_add (k : List KA) (a : List ℝ) : VS.spatial_add.evalL k a = VR.spatial_add.evalL k a := by
  mb_evalL_eq VS.spatial_add.evalL VR.spatial_add.evalL VS.spatial_add.eval_eq
private theorem sym_evalL_eq.spatial_costheta (k : List KA) (a : List ℝ) : VS.spatial_costheta.evalL k a = VR.spatial_costheta.evalL k a := by
  mb_evalL_eq VS.spatial_costheta.evalL VR.spatial_costheta.evalL VS.spatial_costheta.eval_eq
private theorem sym_evalL_eq.spatial_cottheta (k : List KA) (a : List ℝ) : VS.spatial_cottheta.evalL k a = VR.spatial_cottheta.evalL k a := by
  mb_evalL_eq VS.spatial_cottheta.evalL VR.spatial_cottheta.evalL VS.spatial_cottheta.eval_eq
private theorem sym_evalL_eq.spatial_cross (k : List KA) (a : List ℝ) : VS.spatial_cross.evalL k a = VR.spatial_cross.evalL k a := by
  mb_evalL_eq VS.spatial_cross.evalL VR.spatial_cross.evalL VS.spatial_cross.eval_eq
private theorem sym_evalL_eq.spatial_deltaR (k : List KA) (a : List ℝ) : VS.spatial_deltaR.evalL k a = VR.spatial_deltaR.evalL k a := by
  mb_evalL_eq VS.spatial_deltaR.evalL VR.spatial_deltaR.evalL VS.spatial_deltaR.eval_eq
private theorem sym_evalL_eq.spatial_deltaR2 (k : List KA) (a : List ℝ) : VS.spatial_deltaR2.evalL k a = VR.spatial_deltaR2.evalL k a := by
  mb_evalL_eq VS.spatial_deltaR2.evalL VR.spatial_deltaR2.evalL VS.spatial_deltaR2.eval_eq
private theorem sym_evalL_eq.spatial_deltaeta (k : List KA) (a : List ℝ) : VS.spatial_deltaeta.evalL k a = VR.spatial_deltaeta.evalL k a := by
  mb_evalL_eq VS.spatial_deltaeta.evalL VR.spatial_deltaeta.evalL VS.spatial_deltaeta.eval_eq
private theorem sym_evalL_eq.spatial_dot (k : List KA) (a : List ℝ) : VS.spatial_dot.evalL k a = VR.spatial_dot.evalL k a := by
  mb_evalL_eq VS.spatial_dot.evalL VR.spatial_dot.evalL VS.spatial_dot.eval_eq
private theorem sym_evalL_eq.spatial_equal (k : List KA) (a : List ℝ) : VS.spatial_equal.evalL k a = VR.spatial_equal.evalL k a := by
  mb_evalL_eq VS.spatial_equal.evalL VR.spatial_equal.evalL VS.spatial_equal.eval_eq
private theorem sym_evalL_eq.spatial_eta (k : List KA) (a : List ℝ) : VS.spatial_eta.evalL k a = VR.spatial_eta.evalL k a := by
  mb_evalL_eq VS.spatial_eta.evalL VR.spatial_eta.evalL VS.spatial_eta.eval_eq
private theorem sym_evalL_eq.spatial_is_antiparallel (k : List KA) (a : List ℝ) : VS.spatial_is_antiparallel.evalL k a = VR.spatial_is_antiparallel.evalL k a := by
  mb_evalL_eq VS.spatial_is_antiparallel.evalL VR.spatial_is_antiparallel.evalL VS.spatial_is_antiparallel.eval_eq
private theorem sym_evalL_eq.spatial_is_parallel (k : List KA) (a : List ℝ) : VS.spatial_is_parallel.evalL k a = VR.spatial_is_parallel.evalL k a := by
  mb_evalL_eq VS.spatial_is_parallel.evalL VR.spatial_is_parallel.evalL VS.spatial_is_parallel.eval_eq
private theorem sym_evalL_eq.spatial_is_perpendicular (k : List KA) (a : List ℝ) : VS.spatial_is_perpendicular.evalL k a = VR.spatial_is_perpendicular.evalL k a := by
  mb_evalL_eq VS.spatial_is_perpendicular.evalL VR.spatial_is_perpendicular.evalL VS.spatial_is_perpendicular.eval_eq
private theorem sym_evalL_eq.spatial_mag (k : List KA) (a : List ℝ) : VS.spatial_mag.evalL k a = VR.spatial_mag.evalL k a := by
  mb_evalL_eq VS.spatial_mag.evalL VR.spatial_mag.evalL VS.spatial_mag.eval_eq
private theorem sym_evalL_eq.spatial_mag2 (k : List KA) (a : List ℝ) : VS.spatial_mag2.evalL k a = VR.spatial_mag2.evalL k a := by
  mb_evalL_eq VS.spatial_mag2.evalL VR.spatial_mag2.evalL VS.spatial_mag2.eval_eq
private theorem sym_evalL_eq.spatial_not_equal (k : List KA) (a : List ℝ) : VS.spatial_not_equal.evalL k a = VR.spatial_not_equal.evalL k a := by
  mb_evalL_eq VS.spatial_not_equal.evalL VR.spatial_not_equal.evalL VS.spatial_not_equal.eval_eq
private theorem sym_evalL_eq.spatial_rotateX (k : List KA) (a : List ℝ) : VS.spatial_rotateX.evalL k a = VR.spatial_rotateX.evalL k a := by
  mb_evalL_eq VS.spatial_rotateX.evalL VR.spatial_rotateX.evalL VS.spatial_rotateX.eval_eq
private theorem sym_evalL_eq.spatial_rotateY (k : List KA) (a : List ℝ) : VS.spatial_rotateY.evalL k a = VR.spatial_rotateY.evalL k a := by
  mb_evalL_eq VS.spatial_rotateY.evalL VR.spatial_rotateY.evalL VS.spatial_rotateY.eval_eq
private theorem sym_evalL_eq.spatial_rotate_axis (k : List KA) (a : List ℝ) : VS.spatial_rotate_axis.evalL k a = VR.spatial_rotate_axis.evalL k a := by
  mb_evalL_eq VS.spatial_rotate_axis.evalL VR.spatial_rotate_axis.evalL VS.spatial_rotate_axis.eval_eq
private theorem sym_evalL_eq.spatial_rotate_euler (k : List KA) (a : List ℝ) : VS.spatial_rotate_euler.evalL k a = VR.spatial_rotate_euler.evalL k a := by
  mb_evalL_eq VS.spatial_rotate_euler.evalL VR.spatial_rotate_euler.evalL VS.spatial_rotate_euler.eval_eq
private theorem sym_evalL_eq.spatial_rotate_quaternion (k : List KA) (a : List ℝ) : VS.spatial_rotate_quaternion.evalL k a = VR.spatial_rotate_quaternion.evalL k a := by
  mb_evalL_eq VS.spatial_rotate_quaternion.evalL VR.spatial_rotate_quaternion.evalL VS.spatial_rotate_quaternion.eval_eq
private theorem sym_evalL_eq.spatial_subtract (k : List KA) (a : List ℝ) : VS.spatial_subtract.evalL k a = VR.spatial_subtract.evalL k a := by
  mb_evalL_eq VS.spatial_subtract.evalL VR.spatial_subtract.evalL VS.spatial_subtract.eval_eq
private theorem sym_evalL_eq.spatial_theta (k : List KA) (a : List ℝ) : VS.spatial_theta.evalL k a = VR.spatial_theta.evalL k a := by
  mb_evalL_eq VS.spatial_theta.evalL VR.spatial_theta.evalL VS.spatial_theta.eval_eq
private theorem sym_evalL_eq.spatial_transform3D (k : List KA) (a : List ℝ) : VS.spatial_transform3D.evalL k a = VR.spatial_transform3D.evalL k a := by
  mb_evalL_eq VS.spatial_transform3D.evalL VR.spatial_transform3D.evalL VS.spatial_transform3D.eval_eq
private theorem sym_evalL_eq.spatial_unit (k : List KA) (a : List ℝ) : VS.spatial_unit.evalL k a = VR.spatial_unit.evalL k a := by
  mb_evalL_eq VS.spatial_unit.evalL VR.spatial_unit.evalL VS.spatial_unit.eval_eq
private theorem sym_evalL_eq.spatial_z (k : List KA) (a : List ℝ) : VS.spatial_z.evalL k a = VR.spatial_z.evalL k a := by
  mb_evalL_eq VS.spatial_z.evalL VR.spatial_z.evalL VS.spatial_z.eval_eq
private theorem sym_evalL_eq.planar_scale (k : List KA) (a : List ℝ) : VS.planar_scale.evalL k a = VR.planar_scale.evalL k a := by
  mb_evalL_eq VS.planar_scale.evalL VR.planar_scale.evalL VR.c08_planar_scale
private theorem sym_evalL_eq.spatial_scale (k : List KA) (a : List ℝ) : VS.spatial_scale.evalL k a = VR.spatial_scale.evalL k a := by
  mb_evalL_eq VS.spatial_scale.evalL VR.spatial_scale.evalL VR.c08_spatial_scale
private theorem sym_evalL_eq.lorentz_scale (k : List KA) (a : List ℝ) : VS.lorentz_scale.evalL k a = VR.lorentz_scale.evalL k a := by
  mb_evalL_eq VS.lorentz_scale.evalL VR.lorentz_scale.evalL VR.c08_lorentz_scale

/-- the modules on which the SymPy and the numeric evaluation agree for ALL keys and ALL arguments (43 syntactically equal
modules + the three `scale` modules, `Props/C08`): everything planar and spatial except `deltaangle` and `isclose`, and
`lorentz_scale` -/
def symUncond : ModuleId → Bool
  | .lorentz_Et => false
  | .lorentz_Et2 => false
  | .lorentz_Mt => false
  | .lorentz_Mt2 => false
  | .lorentz_add => false
  | .lorentz_beta => false
  | .lorentz_boostX_beta => false
  | .lorentz_boostX_gamma => false
  | .lorentz_boostY_beta => false
  | .lorentz_boostY_gamma => false
  | .lorentz_boostZ_beta => false
  | .lorentz_boostZ_gamma => false
  | .lorentz_boost_beta3 => false
  | .lorentz_boost_p4 => false
  | .lorentz_deltaRapidityPhi => false
  | .lorentz_deltaRapidityPhi2 => false
  | .lorentz_dot => false
  | .lorentz_equal => false
  | .lorentz_gamma => false
  | .lorentz_is_lightlike => false
  | .lorentz_is_spacelike => false
  | .lorentz_is_timelike => false
  | .lorentz_isclose => false
  | .lorentz_not_equal => false
  | .lorentz_rapidity => false
  | .lorentz_scale => true
  | .lorentz_subtract => false
  | .lorentz_t => false
  | .lorentz_t2 => false
  | .lorentz_tau => false
  | .lorentz_tau2 => false
  | .lorentz_to_beta3 => false
  | .lorentz_transform4D => false
  | .lorentz_unit => false
  | .planar_add => true
  | .planar_deltaphi => true
  | .planar_dot => true
  | .planar_equal => true
  | .planar_is_antiparallel => true
  | .planar_is_parallel => true
  | .planar_is_perpendicular => true
  | .planar_isclose => false
  | .planar_not_equal => true
  | .planar_phi => true
  | .planar_rho => true
  | .planar_rho2 => true
  | .planar_rotateZ => true
  | .planar_scale => true
  | .planar_subtract => true
  | .planar_transform2D => true
  | .planar_unit => true
  | .planar_x => true
  | .planar_y => true
  | .spatial_add => true
  | .spatial_costheta => true
  | .spatial_cottheta => true
  | .spatial_cross => true
  | .spatial_deltaR => true
  | .spatial_deltaR2 => true
  | .spatial_deltaangle => false
  | .spatial_deltaeta => true
  | .spatial_dot => true
  | .spatial_equal => true
  | .spatial_eta => true
  | .spatial_is_antiparallel => true
  | .spatial_is_parallel => true
  | .spatial_is_perpendicular => true
  | .spatial_isclose => false
  | .spatial_mag => true
  | .spatial_mag2 => true
  | .spatial_not_equal => true
  | .spatial_rotateX => true
  | .spatial_rotateY => true
  | .spatial_rotate_axis => true
  | .spatial_rotate_euler => true
  | .spatial_rotate_quaternion => true
  | .spatial_scale => true
  | .spatial_subtract => true
  | .spatial_theta => true
  | .spatial_transform3D => true
  | .spatial_unit => true
  | .spatial_z => true

/-- B.5 (unconditional part): `evS = evR` on these modules, for every key and every argument list -/
theorem c08m_ev_eq (m : ModuleId) (hm : symUncond m = true) (k : List KA) (a : List ℝ) : evS m k a = evR m k a :=
  match m, hm with
  | .planar_add, _ => sym_evalL_eq.planar_add k a
  | .planar_deltaphi, _ => sym_evalL_eq.planar_deltaphi k a
  | .planar_dot, _ => sym_evalL_eq.planar_dot k a
  | .planar_equal, _ => sym_evalL_eq.planar_equal k a
  | .planar_is_antiparallel, _ => sym_evalL_eq.planar_is_antiparallel k a
  | .planar_is_parallel, _ => sym_evalL_eq.planar_is_parallel k a
  | .planar_is_perpendicular, _ => sym_evalL_eq.planar_is_perpendicular k a
  | .planar_not_equal, _ => sym_evalL_eq.planar_not_equal k a
  | .planar_phi, _ => sym_evalL_eq.planar_phi k a
  | .planar_rho, _ => sym_evalL_eq.planar_rho k a
  | .planar_rho2, _ => sym_evalL_eq.planar_rho2 k a
  | .planar_rotateZ, _ => sym_evalL_eq.planar_rotateZ k a
  | .planar_subtract, _ => sym_evalL_eq.planar_subtract k a
  | .planar_transform2D, _ => sym_evalL_eq.planar_transform2D k a
  | .planar_unit, _ => sym_evalL_eq.planar_unit k a
  | .planar_x, _ => sym_evalL_eq.planar_x k a
  | .planar_y, _ => sym_evalL_eq.planar_y k a
  | .spatial_add, _ => sym_evalL_eq.spatial_add k a
  | .spatial_costheta, _ => sym_evalL_eq.spatial_costheta k a
  | .spatial_cottheta, _ => sym_evalL_eq.spatial_cottheta k a
  | .spatial_cross, _ => sym_evalL_eq.spatial_cross k a
  | .spatial_deltaR, _ => sym_evalL_eq.spatial_deltaR k a
  | .spatial_deltaR2, _ => sym_evalL_eq.spatial_deltaR2 k a
  | .spatial_deltaeta, _ => sym_evalL_eq.spatial_deltaeta k a
  | .spatial_dot, _ => sym_evalL_eq.spatial_dot k a
  | .spatial_equal, _ => sym_evalL_eq.spatial_equal k a
  | .spatial_eta, _ => sym_evalL_eq.spatial_eta k a
  | .spatial_is_antiparallel, _ => sym_evalL_eq.spatial_is_antiparallel k a
  | .spatial_is_parallel, _ => sym_evalL_eq.spatial_is_parallel k a
  | .spatial_is_perpendicular, _ => sym_evalL_eq.spatial_is_perpendicular k a
  | .spatial_mag, _ => sym_evalL_eq.spatial_mag k a
  | .spatial_mag2, _ => sym_evalL_eq.spatial_mag2 k a
  | .spatial_not_equal, _ => sym_evalL_eq.spatial_not_equal k a
  | .spatial_rotateX, _ => sym_evalL_eq.spatial_rotateX k a
  | .spatial_rotateY, _ => sym_evalL_eq.spatial_rotateY k a
  | .spatial_rotate_axis, _ => sym_evalL_eq.spatial_rotate_axis k a
  | .spatial_rotate_euler, _ => sym_evalL_eq.spatial_rotate_euler k a
  | .spatial_rotate_quaternion, _ => sym_evalL_eq.spatial_rotate_quaternion k a
  | .spatial_subtract, _ => sym_evalL_eq.spatial_subtract k a
  | .spatial_theta, _ => sym_evalL_eq.spatial_theta k a
  | .spatial_transform3D, _ => sym_evalL_eq.spatial_transform3D k a
  | .spatial_unit, _ => sym_evalL_eq.spatial_unit k a
  | .spatial_z, _ => sym_evalL_eq.spatial_z k a
  | .planar_scale, _ => sym_evalL_eq.planar_scale k a
  | .spatial_scale, _ => sym_evalL_eq.spatial_scale k a
  | .lorentz_scale, _ => sym_evalL_eq.lorentz_scale k a

/-! B.5 (conditional part): the other modules, on well-shaped keys, under the regular-domain hypotheses of `Props/C08` -/

theorem c08m_ev_lorentz_Et (k0 : Az) (k1 : Lon) (k2 : Tmp) (a0 a1 a2 a3 : ℝ)
    (hc3 : Spec.CanonTmp k2 a3) :
    evS .lorentz_Et [KA.az k0, KA.lon k1, KA.tmp k2] [a0, a1, a2, a3] = evR .lorentz_Et [KA.az k0, KA.lon k1, KA.tmp k2] [a0, a1, a2, a3] := by
  have h := VR.c08_lorentz_Et k0 k1 k2 a0 a1 a2 a3 hc3
  show VS.lorentz_Et.evalL [KA.az k0, KA.lon k1, KA.tmp k2] [a0, a1, a2, a3] = VR.lorentz_Et.evalL [KA.az k0, KA.lon k1, KA.tmp k2] [a0, a1, a2, a3]
  simp only [VS.lorentz_Et.evalL, VR.lorentz_Et.evalL, KA.az?, KA.lon?, KA.tmp?, KA.ord?, Option.bind_eq_bind, Option.bind_some, h]
  cases k0 <;> cases k1 <;> cases k2 <;> rfl

theorem c08m_ev_lorentz_Et2 (k0 : Az) (k1 : Lon) (k2 : Tmp) (a0 a1 a2 a3 : ℝ)
    (hc3 : Spec.CanonTmp k2 a3) :
    evS .lorentz_Et2 [KA.az k0, KA.lon k1, KA.tmp k2] [a0, a1, a2, a3] = evR .lorentz_Et2 [KA.az k0, KA.lon k1, KA.tmp k2] [a0, a1, a2, a3] := by
  have h := VR.c08_lorentz_Et2 k0 k1 k2 a0 a1 a2 a3 hc3
  show VS.lorentz_Et2.evalL [KA.az k0, KA.lon k1, KA.tmp k2] [a0, a1, a2, a3] = VR.lorentz_Et2.evalL [KA.az k0, KA.lon k1, KA.tmp k2] [a0, a1, a2, a3]
  simp only [VS.lorentz_Et2.evalL, VR.lorentz_Et2.evalL, KA.az?, KA.lon?, KA.tmp?, KA.ord?, Option.bind_eq_bind, Option.bind_some, h]
  cases k0 <;> cases k1 <;> cases k2 <;> rfl

theorem c08m_ev_lorentz_Mt (k0 : Az) (k1 : Lon) (k2 : Tmp) (a0 a1 a2 a3 : ℝ)
    (hc3 : Spec.CanonTmp k2 a3) :
    evS .lorentz_Mt [KA.az k0, KA.lon k1, KA.tmp k2] [a0, a1, a2, a3] = evR .lorentz_Mt [KA.az k0, KA.lon k1, KA.tmp k2] [a0, a1, a2, a3] := by
  have h := VR.c08_lorentz_Mt k0 k1 k2 a0 a1 a2 a3 hc3
  show VS.lorentz_Mt.evalL [KA.az k0, KA.lon k1, KA.tmp k2] [a0, a1, a2, a3] = VR.lorentz_Mt.evalL [KA.az k0, KA.lon k1, KA.tmp k2] [a0, a1, a2, a3]
  simp only [VS.lorentz_Mt.evalL, VR.lorentz_Mt.evalL, KA.az?, KA.lon?, KA.tmp?, KA.ord?, Option.bind_eq_bind, Option.bind_some, h]
  cases k0 <;> cases k1 <;> cases k2 <;> rfl

theorem c08m_ev_lorentz_Mt2 (k0 : Az) (k1 : Lon) (k2 : Tmp) (a0 a1 a2 a3 : ℝ)
    (hc3 : Spec.CanonTmp k2 a3) :
    evS .lorentz_Mt2 [KA.az k0, KA.lon k1, KA.tmp k2] [a0, a1, a2, a3] = evR .lorentz_Mt2 [KA.az k0, KA.lon k1, KA.tmp k2] [a0, a1, a2, a3] := by
  have h := VR.c08_lorentz_Mt2 k0 k1 k2 a0 a1 a2 a3 hc3
  show VS.lorentz_Mt2.evalL [KA.az k0, KA.lon k1, KA.tmp k2] [a0, a1, a2, a3] = VR.lorentz_Mt2.evalL [KA.az k0, KA.lon k1, KA.tmp k2] [a0, a1, a2, a3]
  simp only [VS.lorentz_Mt2.evalL, VR.lorentz_Mt2.evalL, KA.az?, KA.lon?, KA.tmp?, KA.ord?, Option.bind_eq_bind, Option.bind_some, h]
  cases k0 <;> cases k1 <;> cases k2 <;> rfl

theorem c08m_ev_lorentz_add (k0 : Az) (k1 : Lon) (k2 : Tmp) (k3 : Az) (k4 : Lon) (k5 : Tmp) (a0 a1 a2 a3 a4 a5 a6 a7 : ℝ)
    (hc3 : Spec.CanonTmp k2 a3) (hc7 : Spec.CanonTmp k5 a7) (hres : k2 = .tau → k5 = .tau → 0 ≤ (VR.lorentz_add.eval k0 k1 k2 k3 k4 k5 a0 a1 a2 a3 a4 a5 a6 a7).2.2.2) :
    evS .lorentz_add [KA.az k0, KA.lon k1, KA.tmp k2, KA.az k3, KA.lon k4, KA.tmp k5] [a0, a1, a2, a3, a4, a5, a6, a7] = evR .lorentz_add [KA.az k0, KA.lon k1, KA.tmp k2, KA.az k3, KA.lon k4, KA.tmp k5] [a0, a1, a2, a3, a4, a5, a6, a7] := by
  have h := VR.c08_lorentz_add k0 k1 k2 k3 k4 k5 a0 a1 a2 a3 a4 a5 a6 a7 hc3 hc7 hres
  show VS.lorentz_add.evalL [KA.az k0, KA.lon k1, KA.tmp k2, KA.az k3, KA.lon k4, KA.tmp k5] [a0, a1, a2, a3, a4, a5, a6, a7] = VR.lorentz_add.evalL [KA.az k0, KA.lon k1, KA.tmp k2, KA.az k3, KA.lon k4, KA.tmp k5] [a0, a1, a2, a3, a4, a5, a6, a7]
  simp only [VS.lorentz_add.evalL, VR.lorentz_add.evalL, KA.az?, KA.lon?, KA.tmp?, KA.ord?, Option.bind_eq_bind, Option.bind_some, h]
  cases k0 <;> cases k1 <;> cases k2 <;> cases k3 <;> cases k4 <;> cases k5 <;> rfl

theorem c08m_ev_lorentz_beta (k0 : Az) (k1 : Lon) (k2 : Tmp) (a0 a1 a2 a3 : ℝ)
    (hc3 : Spec.CanonTmp k2 a3) :
    evS .lorentz_beta [KA.az k0, KA.lon k1, KA.tmp k2] [a0, a1, a2, a3] = evR .lorentz_beta [KA.az k0, KA.lon k1, KA.tmp k2] [a0, a1, a2, a3] := by
  have h := VR.c08_lorentz_beta k0 k1 k2 a0 a1 a2 a3 hc3
  show VS.lorentz_beta.evalL [KA.az k0, KA.lon k1, KA.tmp k2] [a0, a1, a2, a3] = VR.lorentz_beta.evalL [KA.az k0, KA.lon k1, KA.tmp k2] [a0, a1, a2, a3]
  simp only [VS.lorentz_beta.evalL, VR.lorentz_beta.evalL, KA.az?, KA.lon?, KA.tmp?, KA.ord?, Option.bind_eq_bind, Option.bind_some, h]
  cases k0 <;> cases k1 <;> cases k2 <;> rfl

theorem c08m_ev_lorentz_boostX_beta (k0 : Az) (k1 : Lon) (k2 : Tmp) (a0 a1 a2 a3 a4 : ℝ)
    (hc4 : Spec.CanonTmp k2 a4) :
    evS .lorentz_boostX_beta [KA.az k0, KA.lon k1, KA.tmp k2] [a0, a1, a2, a3, a4] = evR .lorentz_boostX_beta [KA.az k0, KA.lon k1, KA.tmp k2] [a0, a1, a2, a3, a4] := by
  have h := VR.c08_lorentz_boostX_beta k0 k1 k2 a0 a1 a2 a3 a4 hc4
  show VS.lorentz_boostX_beta.evalL [KA.az k0, KA.lon k1, KA.tmp k2] [a0, a1, a2, a3, a4] = VR.lorentz_boostX_beta.evalL [KA.az k0, KA.lon k1, KA.tmp k2] [a0, a1, a2, a3, a4]
  simp only [VS.lorentz_boostX_beta.evalL, VR.lorentz_boostX_beta.evalL, KA.az?, KA.lon?, KA.tmp?, KA.ord?, Option.bind_eq_bind, Option.bind_some, h]
  cases k0 <;> cases k1 <;> cases k2 <;> rfl

theorem c08m_ev_lorentz_boostX_gamma (k0 : Az) (k1 : Lon) (k2 : Tmp) (a0 a1 a2 a3 a4 : ℝ)
    (ha0 : 0 ≤ a0) (hc4 : Spec.CanonTmp k2 a4) :
    evS .lorentz_boostX_gamma [KA.az k0, KA.lon k1, KA.tmp k2] [a0, a1, a2, a3, a4] = evR .lorentz_boostX_gamma [KA.az k0, KA.lon k1, KA.tmp k2] [a0, a1, a2, a3, a4] := by
  have h := VR.c08_lorentz_boostX_gamma k0 k1 k2 a0 a1 a2 a3 a4 ha0 hc4
  show VS.lorentz_boostX_gamma.evalL [KA.az k0, KA.lon k1, KA.tmp k2] [a0, a1, a2, a3, a4] = VR.lorentz_boostX_gamma.evalL [KA.az k0, KA.lon k1, KA.tmp k2] [a0, a1, a2, a3, a4]
  simp only [VS.lorentz_boostX_gamma.evalL, VR.lorentz_boostX_gamma.evalL, KA.az?, KA.lon?, KA.tmp?, KA.ord?, Option.bind_eq_bind, Option.bind_some, h]
  cases k0 <;> cases k1 <;> cases k2 <;> rfl

theorem c08m_ev_lorentz_boostY_beta (k0 : Az) (k1 : Lon) (k2 : Tmp) (a0 a1 a2 a3 a4 : ℝ)
    (hc4 : Spec.CanonTmp k2 a4) :
    evS .lorentz_boostY_beta [KA.az k0, KA.lon k1, KA.tmp k2] [a0, a1, a2, a3, a4] = evR .lorentz_boostY_beta [KA.az k0, KA.lon k1, KA.tmp k2] [a0, a1, a2, a3, a4] := by
  have h := VR.c08_lorentz_boostY_beta k0 k1 k2 a0 a1 a2 a3 a4 hc4
  show VS.lorentz_boostY_beta.evalL [KA.az k0, KA.lon k1, KA.tmp k2] [a0, a1, a2, a3, a4] = VR.lorentz_boostY_beta.evalL [KA.az k0, KA.lon k1, KA.tmp k2] [a0, a1, a2, a3, a4]
  simp only [VS.lorentz_boostY_beta.evalL, VR.lorentz_boostY_beta.evalL, KA.az?, KA.lon?, KA.tmp?, KA.ord?, Option.bind_eq_bind, Option.bind_some, h]
  cases k0 <;> cases k1 <;> cases k2 <;> rfl

theorem c08m_ev_lorentz_boostY_gamma (k0 : Az) (k1 : Lon) (k2 : Tmp) (a0 a1 a2 a3 a4 : ℝ)
    (ha0 : 0 ≤ a0) (hc4 : Spec.CanonTmp k2 a4) :
    evS .lorentz_boostY_gamma [KA.az k0, KA.lon k1, KA.tmp k2] [a0, a1, a2, a3, a4] = evR .lorentz_boostY_gamma [KA.az k0, KA.lon k1, KA.tmp k2] [a0, a1, a2, a3, a4] := by
  have h := VR.c08_lorentz_boostY_gamma k0 k1 k2 a0 a1 a2 a3 a4 ha0 hc4
  show VS.lorentz_boostY_gamma.evalL [KA.az k0, KA.lon k1, KA.tmp k2] [a0, a1, a2, a3, a4] = VR.lorentz_boostY_gamma.evalL [KA.az k0, KA.lon k1, KA.tmp k2] [a0, a1, a2, a3, a4]
  simp only [VS.lorentz_boostY_gamma.evalL, VR.lorentz_boostY_gamma.evalL, KA.az?, KA.lon?, KA.tmp?, KA.ord?, Option.bind_eq_bind, Option.bind_some, h]
  cases k0 <;> cases k1 <;> cases k2 <;> rfl

theorem c08m_ev_lorentz_boostZ_beta (k0 : Az) (k1 : Lon) (k2 : Tmp) (a0 a1 a2 a3 a4 : ℝ)
    (hc4 : Spec.CanonTmp k2 a4) :
    evS .lorentz_boostZ_beta [KA.az k0, KA.lon k1, KA.tmp k2] [a0, a1, a2, a3, a4] = evR .lorentz_boostZ_beta [KA.az k0, KA.lon k1, KA.tmp k2] [a0, a1, a2, a3, a4] := by
  have h := VR.c08_lorentz_boostZ_beta k0 k1 k2 a0 a1 a2 a3 a4 hc4
  show VS.lorentz_boostZ_beta.evalL [KA.az k0, KA.lon k1, KA.tmp k2] [a0, a1, a2, a3, a4] = VR.lorentz_boostZ_beta.evalL [KA.az k0, KA.lon k1, KA.tmp k2] [a0, a1, a2, a3, a4]
  simp only [VS.lorentz_boostZ_beta.evalL, VR.lorentz_boostZ_beta.evalL, KA.az?, KA.lon?, KA.tmp?, KA.ord?, Option.bind_eq_bind, Option.bind_some, h]
  cases k0 <;> cases k1 <;> cases k2 <;> rfl

theorem c08m_ev_lorentz_boostZ_gamma (k0 : Az) (k1 : Lon) (k2 : Tmp) (a0 a1 a2 a3 a4 : ℝ)
    (ha0 : 0 ≤ a0) (hc4 : Spec.CanonTmp k2 a4) :
    evS .lorentz_boostZ_gamma [KA.az k0, KA.lon k1, KA.tmp k2] [a0, a1, a2, a3, a4] = evR .lorentz_boostZ_gamma [KA.az k0, KA.lon k1, KA.tmp k2] [a0, a1, a2, a3, a4] := by
  have h := VR.c08_lorentz_boostZ_gamma k0 k1 k2 a0 a1 a2 a3 a4 ha0 hc4
  show VS.lorentz_boostZ_gamma.evalL [KA.az k0, KA.lon k1, KA.tmp k2] [a0, a1, a2, a3, a4] = VR.lorentz_boostZ_gamma.evalL [KA.az k0, KA.lon k1, KA.tmp k2] [a0, a1, a2, a3, a4]
  simp only [VS.lorentz_boostZ_gamma.evalL, VR.lorentz_boostZ_gamma.evalL, KA.az?, KA.lon?, KA.tmp?, KA.ord?, Option.bind_eq_bind, Option.bind_some, h]
  cases k0 <;> cases k1 <;> cases k2 <;> rfl

theorem c08m_ev_lorentz_boost_beta3 (k0 : Az) (k1 : Lon) (k2 : Tmp) (k3 : Az) (k4 : Lon) (a0 a1 a2 a3 a4 a5 a6 : ℝ)
    (hc3 : Spec.CanonTmp k2 a3) :
    evS .lorentz_boost_beta3 [KA.az k0, KA.lon k1, KA.tmp k2, KA.az k3, KA.lon k4] [a0, a1, a2, a3, a4, a5, a6] = evR .lorentz_boost_beta3 [KA.az k0, KA.lon k1, KA.tmp k2, KA.az k3, KA.lon k4] [a0, a1, a2, a3, a4, a5, a6] := by
  have h := VR.c08_lorentz_boost_beta3 k0 k1 k2 k3 k4 a0 a1 a2 a3 a4 a5 a6 hc3
  show VS.lorentz_boost_beta3.evalL [KA.az k0, KA.lon k1, KA.tmp k2, KA.az k3, KA.lon k4] [a0, a1, a2, a3, a4, a5, a6] = VR.lorentz_boost_beta3.evalL [KA.az k0, KA.lon k1, KA.tmp k2, KA.az k3, KA.lon k4] [a0, a1, a2, a3, a4, a5, a6]
  simp only [VS.lorentz_boost_beta3.evalL, VR.lorentz_boost_beta3.evalL, KA.az?, KA.lon?, KA.tmp?, KA.ord?, Option.bind_eq_bind, Option.bind_some, h]
  cases k0 <;> cases k1 <;> cases k2 <;> cases k3 <;> cases k4 <;> rfl

theorem c08m_ev_lorentz_boost_p4 (k0 : Az) (k1 : Lon) (k2 : Tmp) (k3 : Az) (k4 : Lon) (k5 : Tmp) (a0 a1 a2 a3 a4 a5 a6 a7 : ℝ)
    (hc3 : Spec.CanonTmp k2 a3) :
    evS .lorentz_boost_p4 [KA.az k0, KA.lon k1, KA.tmp k2, KA.az k3, KA.lon k4, KA.tmp k5] [a0, a1, a2, a3, a4, a5, a6, a7] = evR .lorentz_boost_p4 [KA.az k0, KA.lon k1, KA.tmp k2, KA.az k3, KA.lon k4, KA.tmp k5] [a0, a1, a2, a3, a4, a5, a6, a7] := by
  have h := VR.c08_lorentz_boost_p4 k0 k1 k2 k3 k4 k5 a0 a1 a2 a3 a4 a5 a6 a7 hc3
  show VS.lorentz_boost_p4.evalL [KA.az k0, KA.lon k1, KA.tmp k2, KA.az k3, KA.lon k4, KA.tmp k5] [a0, a1, a2, a3, a4, a5, a6, a7] = VR.lorentz_boost_p4.evalL [KA.az k0, KA.lon k1, KA.tmp k2, KA.az k3, KA.lon k4, KA.tmp k5] [a0, a1, a2, a3, a4, a5, a6, a7]
  simp only [VS.lorentz_boost_p4.evalL, VR.lorentz_boost_p4.evalL, KA.az?, KA.lon?, KA.tmp?, KA.ord?, Option.bind_eq_bind, Option.bind_some, h]
  cases k0 <;> cases k1 <;> cases k2 <;> cases k3 <;> cases k4 <;> cases k5 <;> rfl

theorem c08m_ev_lorentz_deltaRapidityPhi (k0 : Az) (k1 : Lon) (k2 : Tmp) (k3 : Az) (k4 : Lon) (k5 : Tmp) (a0 a1 a2 a3 a4 a5 a6 a7 : ℝ)
    (hc3 : Spec.CanonTmp k2 a3) (hc7 : Spec.CanonTmp k5 a7) :
    evS .lorentz_deltaRapidityPhi [KA.az k0, KA.lon k1, KA.tmp k2, KA.az k3, KA.lon k4, KA.tmp k5] [a0, a1, a2, a3, a4, a5, a6, a7] = evR .lorentz_deltaRapidityPhi [KA.az k0, KA.lon k1, KA.tmp k2, KA.az k3, KA.lon k4, KA.tmp k5] [a0, a1, a2, a3, a4, a5, a6, a7] := by
  have h := VR.c08_lorentz_deltaRapidityPhi k0 k1 k2 k3 k4 k5 a0 a1 a2 a3 a4 a5 a6 a7 hc3 hc7
  show VS.lorentz_deltaRapidityPhi.evalL [KA.az k0, KA.lon k1, KA.tmp k2, KA.az k3, KA.lon k4, KA.tmp k5] [a0, a1, a2, a3, a4, a5, a6, a7] = VR.lorentz_deltaRapidityPhi.evalL [KA.az k0, KA.lon k1, KA.tmp k2, KA.az k3, KA.lon k4, KA.tmp k5] [a0, a1, a2, a3, a4, a5, a6, a7]
  simp only [VS.lorentz_deltaRapidityPhi.evalL, VR.lorentz_deltaRapidityPhi.evalL, KA.az?, KA.lon?, KA.tmp?, KA.ord?, Option.bind_eq_bind, Option.bind_some, h]
  cases k0 <;> cases k1 <;> cases k2 <;> cases k3 <;> cases k4 <;> cases k5 <;> rfl

theorem c08m_ev_lorentz_deltaRapidityPhi2 (k0 : Az) (k1 : Lon) (k2 : Tmp) (k3 : Az) (k4 : Lon) (k5 : Tmp) (a0 a1 a2 a3 a4 a5 a6 a7 : ℝ)
    (hc3 : Spec.CanonTmp k2 a3) (hc7 : Spec.CanonTmp k5 a7) :
    evS .lorentz_deltaRapidityPhi2 [KA.az k0, KA.lon k1, KA.tmp k2, KA.az k3, KA.lon k4, KA.tmp k5] [a0, a1, a2, a3, a4, a5, a6, a7] = evR .lorentz_deltaRapidityPhi2 [KA.az k0, KA.lon k1, KA.tmp k2, KA.az k3, KA.lon k4, KA.tmp k5] [a0, a1, a2, a3, a4, a5, a6, a7] := by
  have h := VR.c08_lorentz_deltaRapidityPhi2 k0 k1 k2 k3 k4 k5 a0 a1 a2 a3 a4 a5 a6 a7 hc3 hc7
  show VS.lorentz_deltaRapidityPhi2.evalL [KA.az k0, KA.lon k1, KA.tmp k2, KA.az k3, KA.lon k4, KA.tmp k5] [a0, a1, a2, a3, a4, a5, a6, a7] = VR.lorentz_deltaRapidityPhi2.evalL [KA.az k0, KA.lon k1, KA.tmp k2, KA.az k3, KA.lon k4, KA.tmp k5] [a0, a1, a2, a3, a4, a5, a6, a7]
  simp only [VS.lorentz_deltaRapidityPhi2.evalL, VR.lorentz_deltaRapidityPhi2.evalL, KA.az?, KA.lon?, KA.tmp?, KA.ord?, Option.bind_eq_bind, Option.bind_some, h]
  cases k0 <;> cases k1 <;> cases k2 <;> cases k3 <;> cases k4 <;> cases k5 <;> rfl

theorem c08m_ev_lorentz_dot (k0 : Az) (k1 : Lon) (k2 : Tmp) (k3 : Az) (k4 : Lon) (k5 : Tmp) (a0 a1 a2 a3 a4 a5 a6 a7 : ℝ)
    (hc3 : Spec.CanonTmp k2 a3) (hc7 : Spec.CanonTmp k5 a7) :
    evS .lorentz_dot [KA.az k0, KA.lon k1, KA.tmp k2, KA.az k3, KA.lon k4, KA.tmp k5] [a0, a1, a2, a3, a4, a5, a6, a7] = evR .lorentz_dot [KA.az k0, KA.lon k1, KA.tmp k2, KA.az k3, KA.lon k4, KA.tmp k5] [a0, a1, a2, a3, a4, a5, a6, a7] := by
  have h := VR.c08_lorentz_dot k0 k1 k2 k3 k4 k5 a0 a1 a2 a3 a4 a5 a6 a7 hc3 hc7
  show VS.lorentz_dot.evalL [KA.az k0, KA.lon k1, KA.tmp k2, KA.az k3, KA.lon k4, KA.tmp k5] [a0, a1, a2, a3, a4, a5, a6, a7] = VR.lorentz_dot.evalL [KA.az k0, KA.lon k1, KA.tmp k2, KA.az k3, KA.lon k4, KA.tmp k5] [a0, a1, a2, a3, a4, a5, a6, a7]
  simp only [VS.lorentz_dot.evalL, VR.lorentz_dot.evalL, KA.az?, KA.lon?, KA.tmp?, KA.ord?, Option.bind_eq_bind, Option.bind_some, h]
  cases k0 <;> cases k1 <;> cases k2 <;> cases k3 <;> cases k4 <;> cases k5 <;> rfl

theorem c08m_ev_lorentz_equal (k0 : Az) (k1 : Lon) (k2 : Tmp) (k3 : Az) (k4 : Lon) (k5 : Tmp) (a0 a1 a2 a3 a4 a5 a6 a7 : ℝ)
    (hc3 : Spec.CanonTmp k2 a3) (hc7 : Spec.CanonTmp k5 a7) :
    evS .lorentz_equal [KA.az k0, KA.lon k1, KA.tmp k2, KA.az k3, KA.lon k4, KA.tmp k5] [a0, a1, a2, a3, a4, a5, a6, a7] = evR .lorentz_equal [KA.az k0, KA.lon k1, KA.tmp k2, KA.az k3, KA.lon k4, KA.tmp k5] [a0, a1, a2, a3, a4, a5, a6, a7] := by
  have h := propext (VR.c08_lorentz_equal k0 k1 k2 k3 k4 k5 a0 a1 a2 a3 a4 a5 a6 a7 hc3 hc7)
  show VS.lorentz_equal.evalL [KA.az k0, KA.lon k1, KA.tmp k2, KA.az k3, KA.lon k4, KA.tmp k5] [a0, a1, a2, a3, a4, a5, a6, a7] = VR.lorentz_equal.evalL [KA.az k0, KA.lon k1, KA.tmp k2, KA.az k3, KA.lon k4, KA.tmp k5] [a0, a1, a2, a3, a4, a5, a6, a7]
  simp only [VS.lorentz_equal.evalL, VR.lorentz_equal.evalL, KA.az?, KA.lon?, KA.tmp?, KA.ord?, Option.bind_eq_bind, Option.bind_some, h]
  cases k0 <;> cases k1 <;> cases k2 <;> cases k3 <;> cases k4 <;> cases k5 <;> rfl

theorem c08m_ev_lorentz_gamma (k0 : Az) (k1 : Lon) (k2 : Tmp) (a0 a1 a2 a3 : ℝ)
    (hs : 0 ≤ VR.lorentz_tau2.eval k0 k1 k2 a0 a1 a2 a3) :
    evS .lorentz_gamma [KA.az k0, KA.lon k1, KA.tmp k2] [a0, a1, a2, a3] = evR .lorentz_gamma [KA.az k0, KA.lon k1, KA.tmp k2] [a0, a1, a2, a3] := by
  have h := VR.c08_lorentz_gamma k0 k1 k2 a0 a1 a2 a3 hs
  show VS.lorentz_gamma.evalL [KA.az k0, KA.lon k1, KA.tmp k2] [a0, a1, a2, a3] = VR.lorentz_gamma.evalL [KA.az k0, KA.lon k1, KA.tmp k2] [a0, a1, a2, a3]
  simp only [VS.lorentz_gamma.evalL, VR.lorentz_gamma.evalL, KA.az?, KA.lon?, KA.tmp?, KA.ord?, Option.bind_eq_bind, Option.bind_some, h]
  cases k0 <;> cases k1 <;> cases k2 <;> rfl

theorem c08m_ev_lorentz_is_lightlike (k0 : Az) (k1 : Lon) (k2 : Tmp) (a0 a1 a2 a3 a4 : ℝ)
    (hc4 : Spec.CanonTmp k2 a4) :
    evS .lorentz_is_lightlike [KA.az k0, KA.lon k1, KA.tmp k2] [a0, a1, a2, a3, a4] = evR .lorentz_is_lightlike [KA.az k0, KA.lon k1, KA.tmp k2] [a0, a1, a2, a3, a4] := by
  have h := propext (VR.c08_lorentz_is_lightlike k0 k1 k2 a0 a1 a2 a3 a4 hc4)
  show VS.lorentz_is_lightlike.evalL [KA.az k0, KA.lon k1, KA.tmp k2] [a0, a1, a2, a3, a4] = VR.lorentz_is_lightlike.evalL [KA.az k0, KA.lon k1, KA.tmp k2] [a0, a1, a2, a3, a4]
  simp only [VS.lorentz_is_lightlike.evalL, VR.lorentz_is_lightlike.evalL, KA.az?, KA.lon?, KA.tmp?, KA.ord?, Option.bind_eq_bind, Option.bind_some, h]
  cases k0 <;> cases k1 <;> cases k2 <;> rfl

theorem c08m_ev_lorentz_is_spacelike (k0 : Az) (k1 : Lon) (k2 : Tmp) (a0 a1 a2 a3 a4 : ℝ)
    (hc4 : Spec.CanonTmp k2 a4) :
    evS .lorentz_is_spacelike [KA.az k0, KA.lon k1, KA.tmp k2] [a0, a1, a2, a3, a4] = evR .lorentz_is_spacelike [KA.az k0, KA.lon k1, KA.tmp k2] [a0, a1, a2, a3, a4] := by
  have h := propext (VR.c08_lorentz_is_spacelike k0 k1 k2 a0 a1 a2 a3 a4 hc4)
  show VS.lorentz_is_spacelike.evalL [KA.az k0, KA.lon k1, KA.tmp k2] [a0, a1, a2, a3, a4] = VR.lorentz_is_spacelike.evalL [KA.az k0, KA.lon k1, KA.tmp k2] [a0, a1, a2, a3, a4]
  simp only [VS.lorentz_is_spacelike.evalL, VR.lorentz_is_spacelike.evalL, KA.az?, KA.lon?, KA.tmp?, KA.ord?, Option.bind_eq_bind, Option.bind_some, h]
  cases k0 <;> cases k1 <;> cases k2 <;> rfl

theorem c08m_ev_lorentz_is_timelike (k0 : Az) (k1 : Lon) (k2 : Tmp) (a0 a1 a2 a3 a4 : ℝ)
    (hc4 : Spec.CanonTmp k2 a4) :
    evS .lorentz_is_timelike [KA.az k0, KA.lon k1, KA.tmp k2] [a0, a1, a2, a3, a4] = evR .lorentz_is_timelike [KA.az k0, KA.lon k1, KA.tmp k2] [a0, a1, a2, a3, a4] := by
  have h := propext (VR.c08_lorentz_is_timelike k0 k1 k2 a0 a1 a2 a3 a4 hc4)
  show VS.lorentz_is_timelike.evalL [KA.az k0, KA.lon k1, KA.tmp k2] [a0, a1, a2, a3, a4] = VR.lorentz_is_timelike.evalL [KA.az k0, KA.lon k1, KA.tmp k2] [a0, a1, a2, a3, a4]
  simp only [VS.lorentz_is_timelike.evalL, VR.lorentz_is_timelike.evalL, KA.az?, KA.lon?, KA.tmp?, KA.ord?, Option.bind_eq_bind, Option.bind_some, h]
  cases k0 <;> cases k1 <;> cases k2 <;> rfl

theorem c08m_ev_lorentz_not_equal (k0 : Az) (k1 : Lon) (k2 : Tmp) (k3 : Az) (k4 : Lon) (k5 : Tmp) (a0 a1 a2 a3 a4 a5 a6 a7 : ℝ)
    (hc3 : Spec.CanonTmp k2 a3) (hc7 : Spec.CanonTmp k5 a7) :
    evS .lorentz_not_equal [KA.az k0, KA.lon k1, KA.tmp k2, KA.az k3, KA.lon k4, KA.tmp k5] [a0, a1, a2, a3, a4, a5, a6, a7] = evR .lorentz_not_equal [KA.az k0, KA.lon k1, KA.tmp k2, KA.az k3, KA.lon k4, KA.tmp k5] [a0, a1, a2, a3, a4, a5, a6, a7] := by
  have h := propext (VR.c08_lorentz_not_equal k0 k1 k2 k3 k4 k5 a0 a1 a2 a3 a4 a5 a6 a7 hc3 hc7)
  show VS.lorentz_not_equal.evalL [KA.az k0, KA.lon k1, KA.tmp k2, KA.az k3, KA.lon k4, KA.tmp k5] [a0, a1, a2, a3, a4, a5, a6, a7] = VR.lorentz_not_equal.evalL [KA.az k0, KA.lon k1, KA.tmp k2, KA.az k3, KA.lon k4, KA.tmp k5] [a0, a1, a2, a3, a4, a5, a6, a7]
  simp only [VS.lorentz_not_equal.evalL, VR.lorentz_not_equal.evalL, KA.az?, KA.lon?, KA.tmp?, KA.ord?, Option.bind_eq_bind, Option.bind_some, h]
  cases k0 <;> cases k1 <;> cases k2 <;> cases k3 <;> cases k4 <;> cases k5 <;> rfl

theorem c08m_ev_lorentz_rapidity (k0 : Az) (k1 : Lon) (k2 : Tmp) (a0 a1 a2 a3 : ℝ)
    (hc3 : Spec.CanonTmp k2 a3) :
    evS .lorentz_rapidity [KA.az k0, KA.lon k1, KA.tmp k2] [a0, a1, a2, a3] = evR .lorentz_rapidity [KA.az k0, KA.lon k1, KA.tmp k2] [a0, a1, a2, a3] := by
  have h := VR.c08_lorentz_rapidity k0 k1 k2 a0 a1 a2 a3 hc3
  show VS.lorentz_rapidity.evalL [KA.az k0, KA.lon k1, KA.tmp k2] [a0, a1, a2, a3] = VR.lorentz_rapidity.evalL [KA.az k0, KA.lon k1, KA.tmp k2] [a0, a1, a2, a3]
  simp only [VS.lorentz_rapidity.evalL, VR.lorentz_rapidity.evalL, KA.az?, KA.lon?, KA.tmp?, KA.ord?, Option.bind_eq_bind, Option.bind_some, h]
  cases k0 <;> cases k1 <;> cases k2 <;> rfl

theorem c08m_ev_lorentz_subtract (k0 : Az) (k1 : Lon) (k2 : Tmp) (k3 : Az) (k4 : Lon) (k5 : Tmp) (a0 a1 a2 a3 a4 a5 a6 a7 : ℝ)
    (hc3 : Spec.CanonTmp k2 a3) (hc7 : Spec.CanonTmp k5 a7) (hres : k2 = .tau → k5 = .tau → 0 ≤ (VR.lorentz_subtract.eval k0 k1 k2 k3 k4 k5 a0 a1 a2 a3 a4 a5 a6 a7).2.2.2) :
    evS .lorentz_subtract [KA.az k0, KA.lon k1, KA.tmp k2, KA.az k3, KA.lon k4, KA.tmp k5] [a0, a1, a2, a3, a4, a5, a6, a7] = evR .lorentz_subtract [KA.az k0, KA.lon k1, KA.tmp k2, KA.az k3, KA.lon k4, KA.tmp k5] [a0, a1, a2, a3, a4, a5, a6, a7] := by
  have h := VR.c08_lorentz_subtract k0 k1 k2 k3 k4 k5 a0 a1 a2 a3 a4 a5 a6 a7 hc3 hc7 hres
  show VS.lorentz_subtract.evalL [KA.az k0, KA.lon k1, KA.tmp k2, KA.az k3, KA.lon k4, KA.tmp k5] [a0, a1, a2, a3, a4, a5, a6, a7] = VR.lorentz_subtract.evalL [KA.az k0, KA.lon k1, KA.tmp k2, KA.az k3, KA.lon k4, KA.tmp k5] [a0, a1, a2, a3, a4, a5, a6, a7]
  simp only [VS.lorentz_subtract.evalL, VR.lorentz_subtract.evalL, KA.az?, KA.lon?, KA.tmp?, KA.ord?, Option.bind_eq_bind, Option.bind_some, h]
  cases k0 <;> cases k1 <;> cases k2 <;> cases k3 <;> cases k4 <;> cases k5 <;> rfl

theorem c08m_ev_lorentz_t (k0 : Az) (k1 : Lon) (k2 : Tmp) (a0 a1 a2 a3 : ℝ)
    (hc3 : Spec.CanonTmp k2 a3) :
    evS .lorentz_t [KA.az k0, KA.lon k1, KA.tmp k2] [a0, a1, a2, a3] = evR .lorentz_t [KA.az k0, KA.lon k1, KA.tmp k2] [a0, a1, a2, a3] := by
  have h := VR.c08_lorentz_t k0 k1 k2 a0 a1 a2 a3 hc3
  show VS.lorentz_t.evalL [KA.az k0, KA.lon k1, KA.tmp k2] [a0, a1, a2, a3] = VR.lorentz_t.evalL [KA.az k0, KA.lon k1, KA.tmp k2] [a0, a1, a2, a3]
  simp only [VS.lorentz_t.evalL, VR.lorentz_t.evalL, KA.az?, KA.lon?, KA.tmp?, KA.ord?, Option.bind_eq_bind, Option.bind_some, h]
  cases k0 <;> cases k1 <;> cases k2 <;> rfl

theorem c08m_ev_lorentz_t2 (k0 : Az) (k1 : Lon) (k2 : Tmp) (a0 a1 a2 a3 : ℝ)
    (hc3 : Spec.CanonTmp k2 a3) :
    evS .lorentz_t2 [KA.az k0, KA.lon k1, KA.tmp k2] [a0, a1, a2, a3] = evR .lorentz_t2 [KA.az k0, KA.lon k1, KA.tmp k2] [a0, a1, a2, a3] := by
  have h := VR.c08_lorentz_t2 k0 k1 k2 a0 a1 a2 a3 hc3
  show VS.lorentz_t2.evalL [KA.az k0, KA.lon k1, KA.tmp k2] [a0, a1, a2, a3] = VR.lorentz_t2.evalL [KA.az k0, KA.lon k1, KA.tmp k2] [a0, a1, a2, a3]
  simp only [VS.lorentz_t2.evalL, VR.lorentz_t2.evalL, KA.az?, KA.lon?, KA.tmp?, KA.ord?, Option.bind_eq_bind, Option.bind_some, h]
  cases k0 <;> cases k1 <;> cases k2 <;> rfl

theorem c08m_ev_lorentz_tau (k0 : Az) (k1 : Lon) (k2 : Tmp) (a0 a1 a2 a3 : ℝ)
    (hs : 0 ≤ VR.lorentz_tau2.eval k0 k1 k2 a0 a1 a2 a3) :
    evS .lorentz_tau [KA.az k0, KA.lon k1, KA.tmp k2] [a0, a1, a2, a3] = evR .lorentz_tau [KA.az k0, KA.lon k1, KA.tmp k2] [a0, a1, a2, a3] := by
  have h := VR.c08_lorentz_tau k0 k1 k2 a0 a1 a2 a3 hs
  show VS.lorentz_tau.evalL [KA.az k0, KA.lon k1, KA.tmp k2] [a0, a1, a2, a3] = VR.lorentz_tau.evalL [KA.az k0, KA.lon k1, KA.tmp k2] [a0, a1, a2, a3]
  simp only [VS.lorentz_tau.evalL, VR.lorentz_tau.evalL, KA.az?, KA.lon?, KA.tmp?, KA.ord?, Option.bind_eq_bind, Option.bind_some, h]
  cases k0 <;> cases k1 <;> cases k2 <;> rfl

theorem c08m_ev_lorentz_tau2 (k0 : Az) (k1 : Lon) (k2 : Tmp) (a0 a1 a2 a3 : ℝ)
    (hc3 : Spec.CanonTmp k2 a3) :
    evS .lorentz_tau2 [KA.az k0, KA.lon k1, KA.tmp k2] [a0, a1, a2, a3] = evR .lorentz_tau2 [KA.az k0, KA.lon k1, KA.tmp k2] [a0, a1, a2, a3] := by
  have h := VR.c08_lorentz_tau2 k0 k1 k2 a0 a1 a2 a3 hc3
  show VS.lorentz_tau2.evalL [KA.az k0, KA.lon k1, KA.tmp k2] [a0, a1, a2, a3] = VR.lorentz_tau2.evalL [KA.az k0, KA.lon k1, KA.tmp k2] [a0, a1, a2, a3]
  simp only [VS.lorentz_tau2.evalL, VR.lorentz_tau2.evalL, KA.az?, KA.lon?, KA.tmp?, KA.ord?, Option.bind_eq_bind, Option.bind_some, h]
  cases k0 <;> cases k1 <;> cases k2 <;> rfl

theorem c08m_ev_lorentz_to_beta3 (k0 : Az) (k1 : Lon) (k2 : Tmp) (a0 a1 a2 a3 : ℝ)
    (hc3 : Spec.CanonTmp k2 a3) :
    evS .lorentz_to_beta3 [KA.az k0, KA.lon k1, KA.tmp k2] [a0, a1, a2, a3] = evR .lorentz_to_beta3 [KA.az k0, KA.lon k1, KA.tmp k2] [a0, a1, a2, a3] := by
  have h := VR.c08_lorentz_to_beta3 k0 k1 k2 a0 a1 a2 a3 hc3
  show VS.lorentz_to_beta3.evalL [KA.az k0, KA.lon k1, KA.tmp k2] [a0, a1, a2, a3] = VR.lorentz_to_beta3.evalL [KA.az k0, KA.lon k1, KA.tmp k2] [a0, a1, a2, a3]
  simp only [VS.lorentz_to_beta3.evalL, VR.lorentz_to_beta3.evalL, KA.az?, KA.lon?, KA.tmp?, KA.ord?, Option.bind_eq_bind, Option.bind_some, h]
  cases k0 <;> cases k1 <;> cases k2 <;> rfl

theorem c08m_ev_lorentz_transform4D (k0 : Az) (k1 : Lon) (k2 : Tmp) (a0 a1 a2 a3 a4 a5 a6 a7 a8 a9 a10 a11 a12 a13 a14 a15 a16 a17 a18 a19 : ℝ)
    (hc19 : Spec.CanonTmp k2 a19) :
    evS .lorentz_transform4D [KA.az k0, KA.lon k1, KA.tmp k2] [a0, a1, a2, a3, a4, a5, a6, a7, a8, a9, a10, a11, a12, a13, a14, a15, a16, a17, a18, a19] = evR .lorentz_transform4D [KA.az k0, KA.lon k1, KA.tmp k2] [a0, a1, a2, a3, a4, a5, a6, a7, a8, a9, a10, a11, a12, a13, a14, a15, a16, a17, a18, a19] := by
  have h := VR.c08_lorentz_transform4D k0 k1 k2 a0 a1 a2 a3 a4 a5 a6 a7 a8 a9 a10 a11 a12 a13 a14 a15 a16 a17 a18 a19 hc19
  show VS.lorentz_transform4D.evalL [KA.az k0, KA.lon k1, KA.tmp k2] [a0, a1, a2, a3, a4, a5, a6, a7, a8, a9, a10, a11, a12, a13, a14, a15, a16, a17, a18, a19] = VR.lorentz_transform4D.evalL [KA.az k0, KA.lon k1, KA.tmp k2] [a0, a1, a2, a3, a4, a5, a6, a7, a8, a9, a10, a11, a12, a13, a14, a15, a16, a17, a18, a19]
  simp only [VS.lorentz_transform4D.evalL, VR.lorentz_transform4D.evalL, KA.az?, KA.lon?, KA.tmp?, KA.ord?, Option.bind_eq_bind, Option.bind_some, h]
  cases k0 <;> cases k1 <;> cases k2 <;> rfl

theorem c08m_ev_lorentz_unit (k0 : Az) (k1 : Lon) (k2 : Tmp) (a0 a1 a2 a3 : ℝ)
    (hc3 : Spec.CanonTmp k2 a3) :
    evS .lorentz_unit [KA.az k0, KA.lon k1, KA.tmp k2] [a0, a1, a2, a3] = evR .lorentz_unit [KA.az k0, KA.lon k1, KA.tmp k2] [a0, a1, a2, a3] := by
  have h := VR.c08_lorentz_unit k0 k1 k2 a0 a1 a2 a3 hc3
  show VS.lorentz_unit.evalL [KA.az k0, KA.lon k1, KA.tmp k2] [a0, a1, a2, a3] = VR.lorentz_unit.evalL [KA.az k0, KA.lon k1, KA.tmp k2] [a0, a1, a2, a3]
  simp only [VS.lorentz_unit.evalL, VR.lorentz_unit.evalL, KA.az?, KA.lon?, KA.tmp?, KA.ord?, Option.bind_eq_bind, Option.bind_some, h]
  cases k0 <;> cases k1 <;> cases k2 <;> rfl

theorem c08m_ev_spatial_deltaangle (k0 : Az) (k1 : Lon) (k2 : Az) (k3 : Lon) (a0 a1 a2 a3 a4 a5 : ℝ)
    (hlo : -1 ≤ VR.spatial_dot.eval k0 k1 k2 k3 a0 a1 a2 a3 a4 a5 / VR.spatial_mag.eval k0 k1 a0 a1 a2 / VR.spatial_mag.eval k2 k3 a3 a4 a5) (hhi : VR.spatial_dot.eval k0 k1 k2 k3 a0 a1 a2 a3 a4 a5 / VR.spatial_mag.eval k0 k1 a0 a1 a2 / VR.spatial_mag.eval k2 k3 a3 a4 a5 ≤ 1) :
    evS .spatial_deltaangle [KA.az k0, KA.lon k1, KA.az k2, KA.lon k3] [a0, a1, a2, a3, a4, a5] = evR .spatial_deltaangle [KA.az k0, KA.lon k1, KA.az k2, KA.lon k3] [a0, a1, a2, a3, a4, a5] := by
  have h := VR.c08_spatial_deltaangle k0 k1 k2 k3 a0 a1 a2 a3 a4 a5 hlo hhi
  show VS.spatial_deltaangle.evalL [KA.az k0, KA.lon k1, KA.az k2, KA.lon k3] [a0, a1, a2, a3, a4, a5] = VR.spatial_deltaangle.evalL [KA.az k0, KA.lon k1, KA.az k2, KA.lon k3] [a0, a1, a2, a3, a4, a5]
  simp only [VS.spatial_deltaangle.evalL, VR.spatial_deltaangle.evalL, KA.az?, KA.lon?, KA.tmp?, KA.ord?, Option.bind_eq_bind, Option.bind_some, h]
  cases k0 <;> cases k1 <;> cases k2 <;> cases k3 <;> rfl

/-! ### B.6 congruence of the glue in the compute layer, and the public methods that use only agreeing modules -/

/-- `dispatch` consults the compute layer exactly once: at the module of the method, on the key and the arguments built
from the operands.  Two compute layers that agree there give the same result. -/
theorem c08m_dispatch_congr {S B : Type} (ev ev' : Ev S B) (m : ModuleId) (sc : List S) (ord : Option Ord)
    (ops counted : List (Vec S))
    (h : ∀ parts, (ops.zip (operandSlots m.info.shape)).mapM (fun (v, n) => operandKey v n) = some parts →
      ev m ((parts.map (·.1)).flatten ++ (match ord with | some o => [KA.ord o] | none => []))
          (sc ++ (parts.map (·.2)).flatten) =
      ev' m ((parts.map (·.1)).flatten ++ (match ord with | some o => [KA.ord o] | none => []))
          (sc ++ (parts.map (·.2)).flatten)) :
    dispatch ev m sc ord ops counted = dispatch ev' m sc ord ops counted := by
  cases ord <;>
  · unfold dispatch
    simp only []
    split
    · rfl
    · split
      · rfl
      · rename_i parts hp
        have e := h parts hp
        simp only [] at e
        rw [e]

/-- one operand with a known key -/
theorem c08m_dispatch_congr1 {S B : Type} (ev ev' : Ev S B) (m : ModuleId) (sc : List S) (v : Vec S)
    (counted : List (Vec S)) (n : Nat) (k : List KA) (c : List S) (hs : operandSlots m.info.shape = [n])
    (hk : operandKey v n = some (k, c)) (h : ev m k (sc ++ c) = ev' m k (sc ++ c)) :
    dispatch ev m sc none [v] counted = dispatch ev' m sc none [v] counted := by
  apply c08m_dispatch_congr
  intro parts hp
  rw [hs] at hp
  simp only [List.zip_cons_cons, List.zip_nil_right, List.mapM_cons, List.mapM_nil, hk, Option.pure_def,
    Option.bind_eq_bind, Option.bind_some, Option.some.injEq] at hp
  subst hp
  simpa using h

/-- two operands with known keys -/
theorem c08m_dispatch_congr2 {S B : Type} (ev ev' : Ev S B) (m : ModuleId) (sc : List S) (a b : Vec S)
    (counted : List (Vec S)) (n1 n2 : Nat) (k1 k2 : List KA) (c1 c2 : List S)
    (hs : operandSlots m.info.shape = [n1, n2]) (h1 : operandKey a n1 = some (k1, c1))
    (h2 : operandKey b n2 = some (k2, c2))
    (h : ev m (k1 ++ k2) (sc ++ (c1 ++ c2)) = ev' m (k1 ++ k2) (sc ++ (c1 ++ c2))) :
    dispatch ev m sc none [a, b] counted = dispatch ev' m sc none [a, b] counted := by
  apply c08m_dispatch_congr
  intro parts hp
  rw [hs] at hp
  simp only [List.zip_cons_cons, List.zip_nil_right, List.mapM_cons, List.mapM_nil, h1, h2, Option.pure_def,
    Option.bind_eq_bind, Option.bind_some, Option.some.injEq] at hp
  subst hp
  simpa using h

/-- on the modules of `symUncond` the SymPy and the numeric `dispatch` coincide — all operands, scalars, Euler orders -/
theorem c08m_dispatch_eq (m : ModuleId) (hm : symUncond m = true) (sc : List ℝ) (ord : Option Ord)
    (ops counted : List (Vec ℝ)) : dispatch evS m sc ord ops counted = dispatch evR m sc ord ops counted :=
  c08m_dispatch_congr evS evR m sc ord ops counted (fun _ _ => c08m_ev_eq m hm _ _)

/-- rewrite every `dispatch evS m …` with `m` one of the 46 agreeing modules into `dispatch evR m …` -/
local macro "mb_disp" : tactic =>
  `(tactic| simp only [c08m_dispatch_eq .lorentz_scale rfl, c08m_dispatch_eq .planar_add rfl, c08m_dispatch_eq .planar_deltaphi rfl, c08m_dispatch_eq .planar_dot rfl, c08m_dispatch_eq .planar_equal rfl, c08m_dispatch_eq .planar_is_antiparallel rfl, c08m_dispatch_eq .planar_is_parallel rfl, c08m_dispatch_eq .planar_is_perpendicular rfl, c08m_dispatch_eq .planar_not_equal rfl, c08m_dispatch_eq .planar_phi rfl, c08m_dispatch_eq .planar_rho rfl, c08m_dispatch_eq .planar_rho2 rfl, c08m_dispatch_eq .planar_rotateZ rfl, c08m_dispatch_eq .planar_scale rfl, c08m_dispatch_eq .planar_subtract rfl, c08m_dispatch_eq .planar_transform2D rfl, c08m_dispatch_eq .planar_unit rfl, c08m_dispatch_eq .planar_x rfl, c08m_dispatch_eq .planar_y rfl, c08m_dispatch_eq .spatial_add rfl, c08m_dispatch_eq .spatial_costheta rfl, c08m_dispatch_eq .spatial_cottheta rfl, c08m_dispatch_eq .spatial_cross rfl, c08m_dispatch_eq .spatial_deltaR rfl, c08m_dispatch_eq .spatial_deltaR2 rfl, c08m_dispatch_eq .spatial_deltaeta rfl, c08m_dispatch_eq .spatial_dot rfl, c08m_dispatch_eq .spatial_equal rfl, c08m_dispatch_eq .spatial_eta rfl, c08m_dispatch_eq .spatial_is_antiparallel rfl, c08m_dispatch_eq .spatial_is_parallel rfl, c08m_dispatch_eq .spatial_is_perpendicular rfl, c08m_dispatch_eq .spatial_mag rfl, c08m_dispatch_eq .spatial_mag2 rfl, c08m_dispatch_eq .spatial_not_equal rfl, c08m_dispatch_eq .spatial_rotateX rfl, c08m_dispatch_eq .spatial_rotateY rfl, c08m_dispatch_eq .spatial_rotate_axis rfl, c08m_dispatch_eq .spatial_rotate_euler rfl, c08m_dispatch_eq .spatial_rotate_quaternion rfl, c08m_dispatch_eq .spatial_scale rfl, c08m_dispatch_eq .spatial_subtract rfl, c08m_dispatch_eq .spatial_theta rfl, c08m_dispatch_eq .spatial_transform3D rfl, c08m_dispatch_eq .spatial_unit rfl, c08m_dispatch_eq .spatial_z rfl])

/-- the twelve planar and spatial accessors -/
theorem c08m_getAcc_eq (a : Acc) (ha : a.need ≤ 3) (v : Vec ℝ) : getAcc evS a v = getAcc evR a v := by
  unfold getAcc
  rw [c08m_dispatch_eq a.mod (by cases a <;> first | rfl | (simp [Acc.need] at ha))]

theorem c08m_getS_eq (a : Acc) (ha : a.need ≤ 3) (v : Vec ℝ) : getS evS a v = getS evR a v := by
  unfold getS; rw [c08m_getAcc_eq a ha v]

/-- `scale2D/3D/4D`, `scale`, `neg*D`, `*`, `/`, unary `-`: no hypothesis (the SymPy copy keeps `sign`) -/
theorem c08m_scaleN_eq (n : Nat) (f : ℝ) (v : Vec ℝ) : scaleN evS n f v = scaleN evR n f v := by
  unfold scaleN
  rw [c08m_dispatch_eq (scaleMod n) (by unfold scaleMod; split <;> rfl)]

theorem c08m_negN_eq (K : Consts ℝ) (n : Nat) (v : Vec ℝ) : negN evS K n v = negN evR K n v := c08m_scaleN_eq n _ v

/-- the two-vector methods that use planar / spatial modules only: `add subtract dot equal not_equal` and the tolerance
predicates on 2D and 3D operands; `deltaphi deltaeta deltaR deltaR2 cross` on all operands (`deltaangle`, `isclose`, the
Lorentz methods are conditional / different, see below) -/
def symBin : Bin → Nat → Bool
  | .add, d | .subtract, d | .dot, d | .equal, d | .not_equal, d => decide (d ≤ 3)
  | .is_parallel, _ | .is_antiparallel, _ | .is_perpendicular, _ => true
  | .deltaphi, _ | .deltaeta, _ | .deltaR, _ | .deltaR2, _ | .cross, _ => true
  | _, _ => false

theorem c08m_binary_eq (K : Consts ℝ) (b : Bin) (self o : Vec ℝ) (extra : List ℝ)
    (hb : symBin b self.ty.dim = true) : binary evS K b self o extra = binary evR K b self o extra := by
  rcases c05_dim_range self.ty with hd | hd | hd <;> cases b <;> simp [symBin, hd] at hb <;>
    simp only [binary, hd, Bin.sameDimMod] <;> mb_disp

/-- every `to_<system>` conversion whose TARGET is 2D or 3D, on every vector; 4D targets on 2D / 3D vectors (the temporal
coordinate is imputed, not computed) -/
theorem c08m_toSystem_eq (z : ℝ) (v : Vec ℝ) (az : Az) (lon : Option Lon) (tmp : Option Tmp) (kl kt : Option ℝ)
    (h : tmp = none ∨ v.ty.dim ≤ 3) :
    toSystem evS z v az lon tmp kl kt = toSystem evR z v az lon tmp kl kt := by
  have h4 : tmp = none ∨ ¬ v.ty.dim ≥ 4 := by rcases h with h | h; exact Or.inl h; exact Or.inr (by omega)
  have g : ∀ a : Acc, a.need ≤ 3 → getS evS a v = getS evR a v := fun a ha => c08m_getS_eq a ha v
  unfold toSystem
  have e1 : (azCNames az).mapM (fun n => getS evS n.acc v) = (azCNames az).mapM (fun n => getS evR n.acc v) := by
    cases az <;> simp only [azCNames, List.mapM_cons, List.mapM_nil, CName.acc] <;>
      rw [g _ (by decide), g _ (by decide)]
  rw [e1]
  rcases h4 with rfl | h4
  · cases lon with
    | none => rfl
    | some l => cases l <;> simp only [lonCName, CName.acc] <;> rw [g _ (by decide)]
  · cases lon with
    | none => cases tmp <;> simp only [h4, if_false]
    | some l =>
      cases tmp <;> cases l <;> simp only [h4, if_false, lonCName, CName.acc] <;> rw [g _ (by decide)]

/-! #### string level — the public methods that use only agreeing modules (NO hypothesis on the operands) -/

theorem call_accName {S B : Type} (ev : Ev S B) (K : Consts S) (A : Arith S) (self : Vec S) (p : String × Acc)
    (hp : p ∈ c07_accNames) : call ev K A p.1 self [] = getAcc ev p.2 self := by
  unfold c07_accNames at hp
  each_mem hp
  all_goals rfl

theorem call_momName {S B : Type} (ev : Ev S B) (K : Consts S) (A : Arith S) (self : Vec S) (p : String × Acc)
    (hp : p ∈ c07_momNames) : call ev K A p.1 self [] =
      if !self.ty.mom then .error .attributeError else
      if self.ty.dim < p.2.need then .error .attributeError else getAcc ev p.2 self := by
  unfold c07_momNames at hp
  each_mem hp
  all_goals rfl

theorem call_selfMethod {S B : Type} (ev : Ev S B) (K : Consts S) (A : Arith S) (self : Vec S) (a b c d : S)
    (e : String × List (Arg S) × ModuleId × Nat × List S × Option Ord) (he : e ∈ c07_selfMethods K a b c d) :
    call ev K A e.1 self e.2.1 = callU ev self e.2.2.1 (e.2.2.2.1 + 1) e.2.2.2.2.1 e.2.2.2.2.2 := by
  unfold c07_selfMethods at he
  each_mem he
  all_goals rfl

theorem call_binName {S B : Type} (ev : Ev S B) (K : Consts S) (A : Arith S) (a b : Vec S) (p : String × Bin)
    (hp : p ∈ c07_binNames) : call ev K A p.1 a [.v b] = binary ev K p.2 a b [] := by
  unfold c07_binNames at hp
  each_mem hp
  all_goals rfl

/-- B.6 `x y rho rho2 phi z theta eta costheta cottheta mag mag2` and their momentum spellings, on EVERY vector -/
theorem c08m_call_acc_eq (K : Consts ℝ) (A : Arith ℝ) (v : Vec ℝ) (p : String × Acc)
    (hp : p ∈ c07_accNames ++ c07_momNames) (h3 : p.2.need ≤ 3) :
    call evS K A p.1 v [] = call evR K A p.1 v [] := by
  rcases List.mem_append.mp hp with hp | hp
  · rw [call_accName _ K A v p hp, call_accName _ K A v p hp, c08m_getAcc_eq p.2 h3 v]
  · rw [call_momName _ K A v p hp, call_momName _ K A v p hp, c08m_getAcc_eq p.2 h3 v]

/-- B.6 `rotateZ rotateX rotateY rotate_euler rotate_nautical rotate_quaternion scale2D scale3D scale4D neg2D neg3D neg4D`
on EVERY vector -/
theorem c08m_call_self_eq (K : Consts ℝ) (A : Arith ℝ) (v : Vec ℝ) (a b c d : ℝ)
    (e : String × List (Arg ℝ) × ModuleId × Nat × List ℝ × Option Ord) (he : e ∈ c07_selfMethods K a b c d)
    (hm : symUncond e.2.2.1 = true) : call evS K A e.1 v e.2.1 = call evR K A e.1 v e.2.1 := by
  rw [call_selfMethod _ K A v a b c d e he, call_selfMethod _ K A v a b c d e he]
  unfold callU
  rw [c08m_dispatch_eq _ hm]

theorem c08m_call_scale_eq (K : Consts ℝ) (A : Arith ℝ) (v : Vec ℝ) (f : ℝ) :
    call evS K A "scale" v [.sc f] = call evR K A "scale" v [.sc f] := c08m_scaleN_eq _ f v

theorem c08m_call_rotate_axis_eq (K : Consts ℝ) (A : Arith ℝ) (v axis : Vec ℝ) (a : ℝ) :
    call evS K A "rotate_axis" v [.v axis, .sc a] = call evR K A "rotate_axis" v [.v axis, .sc a] := by
  rw [c05_call_rotate_axis, c05_call_rotate_axis, c08m_dispatch_eq _ rfl]

/-- B.6 `add subtract dot equal not_equal` of 2D / 3D vectors, the tolerance predicates, `deltaphi deltaeta deltaR deltaR2
cross` -/
theorem c08m_call_bin_eq (K : Consts ℝ) (A : Arith ℝ) (a b : Vec ℝ) (p : String × Bin) (hp : p ∈ c07_binNames)
    (hb : symBin p.2 a.ty.dim = true) : call evS K A p.1 a [.v b] = call evR K A p.1 a [.v b] := by
  rw [call_binName _ K A a b p hp, call_binName _ K A a b p hp, c08m_binary_eq K p.2 a b [] hb]

/-- B.6 the conversions `to_<system>` (all 40 spellings) with a 2D or 3D target on EVERY vector, and with a 4D target on
2D / 3D vectors -/
theorem c08m_call_to_eq (K : Consts ℝ) (A : Arith ℝ) (v : Vec ℝ)
    (e : String × Az × Option Lon × Option Tmp × String × String) (he : e ∈ toTable)
    (h : e.2.2.2.1 = none ∨ v.ty.dim ≤ 3) : call evS K A e.1 v [] = call evR K A e.1 v [] := by
  rw [c04_call_to evS K A e.1 v e (C04M.toTable_find e he), c04_call_to evR K A e.1 v e (C04M.toTable_find e he),
    c08m_toSystem_eq _ v _ _ _ _ _ h]

/-! #### the Lorentz methods: on the regular domain (`0 ≤ τ` for a τ-stored operand; time-like where `tau` is computed) -/

theorem c08m_getAcc4_eq (a : Acc) (ha : a.need = 4) (be : Backend) (mom : Bool) (az : Az) (l : Lon) (t : Tmp)
    (x y z w : ℝ)
    (h : evS a.mod [.az az, .lon l, .tmp t] [x, y, z, w] = evR a.mod [.az az, .lon l, .tmp t] [x, y, z, w]) :
    getAcc evS a (C11M.V4 be mom az l t x y z w) = getAcc evR a (C11M.V4 be mom az l t x y z w) := by
  unfold getAcc
  rw [c08m_dispatch_congr1 evS evR a.mod [] _ _ 3 [.az az, .lon l, .tmp t] [x, y, z, w]
    (by cases a <;> simp [Acc.need] at ha <;> rfl) rfl (by simpa using h)]

theorem c08m_call_t_eq (K : Consts ℝ) (A : Arith ℝ) (be : Backend) (mom : Bool) (az : Az) (l : Lon) (t : Tmp) (x y z w : ℝ)
    (hc : CanonTmp t w) :
    call evS K A "t" (C11M.V4 be mom az l t x y z w) [] = call evR K A "t" (C11M.V4 be mom az l t x y z w) [] :=
  c08m_getAcc4_eq .t rfl be mom az l t x y z w (c08m_ev_lorentz_t az l t x y z w hc)

theorem c08m_call_t2_eq (K : Consts ℝ) (A : Arith ℝ) (be : Backend) (mom : Bool) (az : Az) (l : Lon) (t : Tmp) (x y z w : ℝ)
    (hc : CanonTmp t w) :
    call evS K A "t2" (C11M.V4 be mom az l t x y z w) [] = call evR K A "t2" (C11M.V4 be mom az l t x y z w) [] :=
  c08m_getAcc4_eq .t2 rfl be mom az l t x y z w (c08m_ev_lorentz_t2 az l t x y z w hc)

theorem c08m_call_tau2_eq (K : Consts ℝ) (A : Arith ℝ) (be : Backend) (mom : Bool) (az : Az) (l : Lon) (t : Tmp) (x y z w : ℝ)
    (hc : CanonTmp t w) :
    call evS K A "tau2" (C11M.V4 be mom az l t x y z w) [] = call evR K A "tau2" (C11M.V4 be mom az l t x y z w) [] :=
  c08m_getAcc4_eq .tau2 rfl be mom az l t x y z w (c08m_ev_lorentz_tau2 az l t x y z w hc)

theorem c08m_call_beta_eq (K : Consts ℝ) (A : Arith ℝ) (be : Backend) (mom : Bool) (az : Az) (l : Lon) (t : Tmp) (x y z w : ℝ)
    (hc : CanonTmp t w) :
    call evS K A "beta" (C11M.V4 be mom az l t x y z w) [] = call evR K A "beta" (C11M.V4 be mom az l t x y z w) [] :=
  c08m_getAcc4_eq .beta rfl be mom az l t x y z w (c08m_ev_lorentz_beta az l t x y z w hc)

theorem c08m_call_rapidity_eq (K : Consts ℝ) (A : Arith ℝ) (be : Backend) (mom : Bool) (az : Az) (l : Lon) (t : Tmp) (x y z w : ℝ)
    (hc : CanonTmp t w) :
    call evS K A "rapidity" (C11M.V4 be mom az l t x y z w) [] = call evR K A "rapidity" (C11M.V4 be mom az l t x y z w) [] :=
  c08m_getAcc4_eq .rapidity rfl be mom az l t x y z w (c08m_ev_lorentz_rapidity az l t x y z w hc)

theorem c08m_call_Et_eq (K : Consts ℝ) (A : Arith ℝ) (be : Backend) (mom : Bool) (az : Az) (l : Lon) (t : Tmp) (x y z w : ℝ)
    (hc : CanonTmp t w) :
    call evS K A "Et" (C11M.V4 be mom az l t x y z w) [] = call evR K A "Et" (C11M.V4 be mom az l t x y z w) [] :=
  c08m_getAcc4_eq .Et rfl be mom az l t x y z w (c08m_ev_lorentz_Et az l t x y z w hc)

theorem c08m_call_Et2_eq (K : Consts ℝ) (A : Arith ℝ) (be : Backend) (mom : Bool) (az : Az) (l : Lon) (t : Tmp) (x y z w : ℝ)
    (hc : CanonTmp t w) :
    call evS K A "Et2" (C11M.V4 be mom az l t x y z w) [] = call evR K A "Et2" (C11M.V4 be mom az l t x y z w) [] :=
  c08m_getAcc4_eq .Et2 rfl be mom az l t x y z w (c08m_ev_lorentz_Et2 az l t x y z w hc)

theorem c08m_call_Mt_eq (K : Consts ℝ) (A : Arith ℝ) (be : Backend) (mom : Bool) (az : Az) (l : Lon) (t : Tmp) (x y z w : ℝ)
    (hc : CanonTmp t w) :
    call evS K A "Mt" (C11M.V4 be mom az l t x y z w) [] = call evR K A "Mt" (C11M.V4 be mom az l t x y z w) [] :=
  c08m_getAcc4_eq .Mt rfl be mom az l t x y z w (c08m_ev_lorentz_Mt az l t x y z w hc)

theorem c08m_call_Mt2_eq (K : Consts ℝ) (A : Arith ℝ) (be : Backend) (mom : Bool) (az : Az) (l : Lon) (t : Tmp) (x y z w : ℝ)
    (hc : CanonTmp t w) :
    call evS K A "Mt2" (C11M.V4 be mom az l t x y z w) [] = call evR K A "Mt2" (C11M.V4 be mom az l t x y z w) [] :=
  c08m_getAcc4_eq .Mt2 rfl be mom az l t x y z w (c08m_ev_lorentz_Mt2 az l t x y z w hc)

/-- `tau`: where the numeric `tau2` is non-negative (time-like or light-like; for a τ-stored vector: always) -/
theorem c08m_call_tau_eq (K : Consts ℝ) (A : Arith ℝ) (be : Backend) (mom : Bool) (az : Az) (l : Lon) (t : Tmp) (x y z w : ℝ)
    (hs : 0 ≤ VR.lorentz_tau2.eval az l t x y z w) :
    call evS K A "tau" (C11M.V4 be mom az l t x y z w) [] = call evR K A "tau" (C11M.V4 be mom az l t x y z w) [] :=
  c08m_getAcc4_eq .tau rfl be mom az l t x y z w (c08m_ev_lorentz_tau az l t x y z w hs)

/-- `gamma`: where the numeric `tau2` is non-negative (time-like or light-like; for a τ-stored vector: always) -/
theorem c08m_call_gamma_eq (K : Consts ℝ) (A : Arith ℝ) (be : Backend) (mom : Bool) (az : Az) (l : Lon) (t : Tmp) (x y z w : ℝ)
    (hs : 0 ≤ VR.lorentz_tau2.eval az l t x y z w) :
    call evS K A "gamma" (C11M.V4 be mom az l t x y z w) [] = call evR K A "gamma" (C11M.V4 be mom az l t x y z w) [] :=
  c08m_getAcc4_eq .gamma rfl be mom az l t x y z w (c08m_ev_lorentz_gamma az l t x y z w hs)

theorem c08m_call_boostX_eq (K : Consts ℝ) (A : Arith ℝ) (be : Backend) (mom : Bool) (az : Az) (l : Lon) (t : Tmp) (x y z w s : ℝ)
    (hc : CanonTmp t w) :
    call evS K A "boostX" (C11M.V4 be mom az l t x y z w) [.kw "beta" s] =
      call evR K A "boostX" (C11M.V4 be mom az l t x y z w) [.kw "beta" s] ∧
    call evS K A "boostX" (C11M.V4 be mom az l t x y z w) [.sc s] =
      call evR K A "boostX" (C11M.V4 be mom az l t x y z w) [.sc s] ∧
    (0 ≤ s → call evS K A "boostX" (C11M.V4 be mom az l t x y z w) [.kw "gamma" s] =
      call evR K A "boostX" (C11M.V4 be mom az l t x y z w) [.kw "gamma" s]) := by
  have e1 : dispatch evS .lorentz_boostX_beta [s] none [C11M.V4 be mom az l t x y z w] [C11M.V4 be mom az l t x y z w] =
      dispatch evR .lorentz_boostX_beta [s] none [C11M.V4 be mom az l t x y z w] [C11M.V4 be mom az l t x y z w] :=
    c08m_dispatch_congr1 evS evR _ [s] _ _ 3 [.az az, .lon l, .tmp t] [x, y, z, w] rfl rfl
      (by simpa using c08m_ev_lorentz_boostX_beta az l t s x y z w hc)
  refine ⟨?_, ?_, fun hs => ?_⟩
  · exact congrArg (fun r => if (C11M.V4 be mom az l t x y z w).ty.dim < 4 then Except.error Err.attributeError else r) e1
  · exact congrArg (fun r => if (C11M.V4 be mom az l t x y z w).ty.dim < 4 then Except.error Err.attributeError else r) e1
  · have e2 : dispatch evS .lorentz_boostX_gamma [s] none [C11M.V4 be mom az l t x y z w] [C11M.V4 be mom az l t x y z w] =
        dispatch evR .lorentz_boostX_gamma [s] none [C11M.V4 be mom az l t x y z w] [C11M.V4 be mom az l t x y z w] :=
      c08m_dispatch_congr1 evS evR _ [s] _ _ 3 [.az az, .lon l, .tmp t] [x, y, z, w] rfl rfl
        (by simpa using c08m_ev_lorentz_boostX_gamma az l t s x y z w hs hc)
    exact congrArg (fun r => if (C11M.V4 be mom az l t x y z w).ty.dim < 4 then Except.error Err.attributeError else r) e2

theorem c08m_call_boostY_eq (K : Consts ℝ) (A : Arith ℝ) (be : Backend) (mom : Bool) (az : Az) (l : Lon) (t : Tmp) (x y z w s : ℝ)
    (hc : CanonTmp t w) :
    call evS K A "boostY" (C11M.V4 be mom az l t x y z w) [.kw "beta" s] =
      call evR K A "boostY" (C11M.V4 be mom az l t x y z w) [.kw "beta" s] ∧
    call evS K A "boostY" (C11M.V4 be mom az l t x y z w) [.sc s] =
      call evR K A "boostY" (C11M.V4 be mom az l t x y z w) [.sc s] ∧
    (0 ≤ s → call evS K A "boostY" (C11M.V4 be mom az l t x y z w) [.kw "gamma" s] =
      call evR K A "boostY" (C11M.V4 be mom az l t x y z w) [.kw "gamma" s]) := by
  have e1 : dispatch evS .lorentz_boostY_beta [s] none [C11M.V4 be mom az l t x y z w] [C11M.V4 be mom az l t x y z w] =
      dispatch evR .lorentz_boostY_beta [s] none [C11M.V4 be mom az l t x y z w] [C11M.V4 be mom az l t x y z w] :=
    c08m_dispatch_congr1 evS evR _ [s] _ _ 3 [.az az, .lon l, .tmp t] [x, y, z, w] rfl rfl
      (by simpa using c08m_ev_lorentz_boostY_beta az l t s x y z w hc)
  refine ⟨?_, ?_, fun hs => ?_⟩
  · exact congrArg (fun r => if (C11M.V4 be mom az l t x y z w).ty.dim < 4 then Except.error Err.attributeError else r) e1
  · exact congrArg (fun r => if (C11M.V4 be mom az l t x y z w).ty.dim < 4 then Except.error Err.attributeError else r) e1
  · have e2 : dispatch evS .lorentz_boostY_gamma [s] none [C11M.V4 be mom az l t x y z w] [C11M.V4 be mom az l t x y z w] =
        dispatch evR .lorentz_boostY_gamma [s] none [C11M.V4 be mom az l t x y z w] [C11M.V4 be mom az l t x y z w] :=
      c08m_dispatch_congr1 evS evR _ [s] _ _ 3 [.az az, .lon l, .tmp t] [x, y, z, w] rfl rfl
        (by simpa using c08m_ev_lorentz_boostY_gamma az l t s x y z w hs hc)
    exact congrArg (fun r => if (C11M.V4 be mom az l t x y z w).ty.dim < 4 then Except.error Err.attributeError else r) e2

theorem c08m_call_boostZ_eq (K : Consts ℝ) (A : Arith ℝ) (be : Backend) (mom : Bool) (az : Az) (l : Lon) (t : Tmp) (x y z w s : ℝ)
    (hc : CanonTmp t w) :
    call evS K A "boostZ" (C11M.V4 be mom az l t x y z w) [.kw "beta" s] =
      call evR K A "boostZ" (C11M.V4 be mom az l t x y z w) [.kw "beta" s] ∧
    call evS K A "boostZ" (C11M.V4 be mom az l t x y z w) [.sc s] =
      call evR K A "boostZ" (C11M.V4 be mom az l t x y z w) [.sc s] ∧
    (0 ≤ s → call evS K A "boostZ" (C11M.V4 be mom az l t x y z w) [.kw "gamma" s] =
      call evR K A "boostZ" (C11M.V4 be mom az l t x y z w) [.kw "gamma" s]) := by
  have e1 : dispatch evS .lorentz_boostZ_beta [s] none [C11M.V4 be mom az l t x y z w] [C11M.V4 be mom az l t x y z w] =
      dispatch evR .lorentz_boostZ_beta [s] none [C11M.V4 be mom az l t x y z w] [C11M.V4 be mom az l t x y z w] :=
    c08m_dispatch_congr1 evS evR _ [s] _ _ 3 [.az az, .lon l, .tmp t] [x, y, z, w] rfl rfl
      (by simpa using c08m_ev_lorentz_boostZ_beta az l t s x y z w hc)
  refine ⟨?_, ?_, fun hs => ?_⟩
  · exact congrArg (fun r => if (C11M.V4 be mom az l t x y z w).ty.dim < 4 then Except.error Err.attributeError else r) e1
  · exact congrArg (fun r => if (C11M.V4 be mom az l t x y z w).ty.dim < 4 then Except.error Err.attributeError else r) e1
  · have e2 : dispatch evS .lorentz_boostZ_gamma [s] none [C11M.V4 be mom az l t x y z w] [C11M.V4 be mom az l t x y z w] =
        dispatch evR .lorentz_boostZ_gamma [s] none [C11M.V4 be mom az l t x y z w] [C11M.V4 be mom az l t x y z w] :=
      c08m_dispatch_congr1 evS evR _ [s] _ _ 3 [.az az, .lon l, .tmp t] [x, y, z, w] rfl rfl
        (by simpa using c08m_ev_lorentz_boostZ_gamma az l t s x y z w hs hc)
    exact congrArg (fun r => if (C11M.V4 be mom az l t x y z w).ty.dim < 4 then Except.error Err.attributeError else r) e2

/-- `boost_p4`: only the BOOSTED vector's τ is read through a dropped `copysign` -/
theorem c08m_call_boost_p4_eq (K : Consts ℝ) (A : Arith ℝ) (be : Backend) (mom : Bool) (az : Az) (l : Lon) (t : Tmp)
    (a b c d : ℝ) (be' : Backend) (mom' : Bool) (az' : Az) (l' : Lon) (t' : Tmp) (a' b' c' d' : ℝ) (hc : CanonTmp t d) :
    call evS K A "boost_p4" (C11M.V4 be mom az l t a b c d) [.v (C11M.V4 be' mom' az' l' t' a' b' c' d')] =
      call evR K A "boost_p4" (C11M.V4 be mom az l t a b c d) [.v (C11M.V4 be' mom' az' l' t' a' b' c' d')] := by
  rw [call_boost_p4, call_boost_p4, dispatch_44 evS _ rfl, dispatch_44 evR _ rfl,
    c08m_ev_lorentz_boost_p4 az l t az' l' t' a b c d a' b' c' d' hc]

theorem c08m_call_boost_beta3_eq (K : Consts ℝ) (A : Arith ℝ) (be : Backend) (mom : Bool) (az : Az) (l : Lon) (t : Tmp)
    (a b c d : ℝ) (be' : Backend) (mom' : Bool) (az' : Az) (l' : Lon) (a' b' c' : ℝ) (hc : CanonTmp t d) :
    call evS K A "boost_beta3" (C11M.V4 be mom az l t a b c d) [.v (C11M.V3 be' mom' az' l' a' b' c')] =
      call evR K A "boost_beta3" (C11M.V4 be mom az l t a b c d) [.v (C11M.V3 be' mom' az' l' a' b' c')] := by
  rw [call_boost_beta3, call_boost_beta3, dispatch_43 evS _ rfl, dispatch_43 evR _ rfl,
    c08m_ev_lorentz_boost_beta3 az l t az' l' a b c d a' b' c' hc]

/-- 4D `add` / `subtract` / `dot`: both stored τ non-negative; for `add` / `subtract` of two τ-stored operands moreover
the numeric result τ non-negative (`Props/C08`: `hres`) -/
theorem c08m_call_add4_eq (K : Consts ℝ) (A : Arith ℝ) (be : Backend) (mom : Bool) (az : Az) (l : Lon) (t : Tmp)
    (a b c d : ℝ) (be' : Backend) (mom' : Bool) (az' : Az) (l' : Lon) (t' : Tmp) (a' b' c' d' : ℝ) (hc : CanonTmp t d)
    (hc' : CanonTmp t' d')
    (hres : t = .tau → t' = .tau → 0 ≤ (VR.lorentz_add.eval az l t az' l' t' a b c d a' b' c' d').2.2.2) :
    call evS K A "add" (C11M.V4 be mom az l t a b c d) [.v (C11M.V4 be' mom' az' l' t' a' b' c' d')] =
      call evR K A "add" (C11M.V4 be mom az l t a b c d) [.v (C11M.V4 be' mom' az' l' t' a' b' c' d')] := by
  have hd : (C11M.V4 be mom az l t a b c d).ty.dim = 4 := rfl
  have hd' : (C11M.V4 be' mom' az' l' t' a' b' c' d').ty.dim = 4 := rfl
  rw [call_binName evS K A _ _ ("add", .add) (by simp [c07_binNames]),
    call_binName evR K A _ _ ("add", .add) (by simp [c07_binNames])]
  simp only [binary, hd, hd', bne_self_eq_false, Bool.false_eq_true, if_false, Bin.sameDimMod]
  rw [dispatch_44 evS _ rfl, dispatch_44 evR _ rfl, c08m_ev_lorentz_add az l t az' l' t' a b c d a' b' c' d' hc hc' hres]

theorem c08m_call_dot4_eq (K : Consts ℝ) (A : Arith ℝ) (be : Backend) (mom : Bool) (az : Az) (l : Lon) (t : Tmp)
    (a b c d : ℝ) (be' : Backend) (mom' : Bool) (az' : Az) (l' : Lon) (t' : Tmp) (a' b' c' d' : ℝ) (hc : CanonTmp t d)
    (hc' : CanonTmp t' d') :
    call evS K A "dot" (C11M.V4 be mom az l t a b c d) [.v (C11M.V4 be' mom' az' l' t' a' b' c' d')] =
      call evR K A "dot" (C11M.V4 be mom az l t a b c d) [.v (C11M.V4 be' mom' az' l' t' a' b' c' d')] := by
  have hd : (C11M.V4 be mom az l t a b c d).ty.dim = 4 := rfl
  have hd' : (C11M.V4 be' mom' az' l' t' a' b' c' d').ty.dim = 4 := rfl
  rw [call_binName evS K A _ _ ("dot", .dot) (by simp [c07_binNames]),
    call_binName evR K A _ _ ("dot", .dot) (by simp [c07_binNames])]
  simp only [binary, hd, hd', bne_self_eq_false, Bool.false_eq_true, if_false, Bin.sameDimMod]
  rw [dispatch_44 evS _ rfl, dispatch_44 evR _ rfl, c08m_ev_lorentz_dot az l t az' l' t' a b c d a' b' c' d' hc hc']

/-! ### B.7 corollaries: the SymPy backend's methods denote what the numeric ones denote (transfer of `c01m_*`, `c11m_*`,
`c09m_*`, `c04m_*`; the hypotheses are those of the numeric theorems — for the Lorentz methods they already contain the
regular-domain hypothesis `CanonTmp` that the SymPy copy needs) -/

theorem c08m_rotateZ_denote (K : Consts ℝ) (A : Arith ℝ) (v : Vec ℝ) (hv : C01M.WFV v) (ang : ℝ) :
    ∃ w, call evS K A "rotateZ" v [.sc ang] = .ok (.vec w) ∧ w.ty = v.ty ∧ C01M.WFV w ∧
      denote w = (denote v).map (onPlanar (rotZ2 ang)) := by
  have e : call evS K A "rotateZ" v [.sc ang] = call evR K A "rotateZ" v [.sc ang] :=
    c08m_call_self_eq K A v ang 0 0 0 ("rotateZ", [.sc ang], .planar_rotateZ, 1, [ang], none)
      (by simp [c07_selfMethods]) rfl
  rw [e]; exact c01m_rotateZ K A v hv ang

theorem c08m_rotateX_denote (K : Consts ℝ) (A : Arith ℝ) (v : Vec ℝ) (hv : C01M.WFV v) (hd : 3 ≤ v.ty.dim)
    (hT : TanOKV v) (ang : ℝ) :
    ∃ w, call evS K A "rotateX" v [.sc ang] = .ok (.vec w) ∧ w.ty = { v.ty with az := .xy, lon := some .z } ∧
      C01M.WFV w ∧ denote w = (denote v).map (onSpatial (rotX ang)) := by
  have e : call evS K A "rotateX" v [.sc ang] = call evR K A "rotateX" v [.sc ang] :=
    c08m_call_self_eq K A v ang 0 0 0 ("rotateX", [.sc ang], .spatial_rotateX, 2, [ang], none)
      (by simp [c07_selfMethods]) rfl
  rw [e]; exact c01m_rotateX K A v hv hd hT ang

theorem c08m_scale_denote (K : Consts ℝ) (A : Arith ℝ) (v : Vec ℝ) (hv : C01M.WFV v) (f : ℝ)
    (hθ : C11M.ThetaRangeV v) (hf : v.ty.tmp = some .tau → 0 ≤ f) :
    ∃ r p, call evS K A "scale" v [.sc f] = .ok (.vec r) ∧ r.ty = v.ty ∧ C01M.WFV r ∧
      denote v = some p ∧ denote r = some (p.map (f * ·)) := by
  rw [c08m_call_scale_eq]; exact C11M.c11m_scale K A v hv f hθ hf

/-- `add` of 2D / 3D vectors in every storage pairing -/
theorem c08m_add_denote (K : Consts ℝ) (A : Arith ℝ) (a b : Vec ℝ) (ha : C01M.WFV a) (hb : C01M.WFV b)
    (hd : a.ty.dim = b.ty.dim) (hd3 : a.ty.dim ≤ 3)
    (hT1 : TanOKV a) (hT2 : TanOKV b) (hS1 : C11M.SinOKV a) (hS2 : C11M.SinOKV b) (hC1 : C11M.CanonTmpV a)
    (hC2 : C11M.CanonTmpV b) (hrep : C11M.RepAdd a b) :
    ∃ r p q, call evS K A "add" a [.v b] = .ok (.vec r) ∧ C01M.WFV r ∧ r.ty.dim = a.ty.dim ∧
      r.ty.mom = (a.ty.mom || b.ty.mom) ∧ r.ty.be = C11M.hbe a.ty.be b.ty.be ∧
      r.ty.tmp = C11M.tmpRes? a.ty.tmp b.ty.tmp ∧
      denote a = some p ∧ denote b = some q ∧ denote r = some (List.zipWith (· + ·) p q) := by
  have e : call evS K A "add" a [.v b] = call evR K A "add" a [.v b] :=
    c08m_call_bin_eq K A a b ("add", .add) (by simp [c07_binNames]) (by simp [symBin, hd3])
  rw [e]; exact C11M.c11m_add K A a b ha hb hd hT1 hT2 hS1 hS2 hC1 hC2 hrep

/-- `boost_p4` on the regular domain: the hypotheses of `c09m_boost_p4` (they contain `0 ≤ τ` for a τ-stored `v`) -/
theorem c08m_boost_p4_denote (K : Consts ℝ) (A : Arith ℝ) (v p : Vec ℝ) (hv : C01M.WFV v) (hd : v.ty.dim = 4)
    (hp : C01M.WFV p) (hdp : p.ty.dim = 4) (hc : Stored4 (fun _ l t _ _ c d => TanOK l c ∧ CanonTmp t d) v)
    (hcp : BoostOK p) (x y z t px py pz E : ℝ) (h : denote v = some [x, y, z, t])
    (h' : denote p = some [px, py, pz, E])
    (hphys : v.ty.tmp = some .tau → px ^ 2 + py ^ 2 + pz ^ 2 < E ^ 2 ∧ 0 < E) :
    ∃ w, call evS K A "boost_p4" v [.v p] = .ok (.vec w) ∧
      w.ty = ⟨C01M.hbe v.ty.be p.ty.be, v.ty.mom || p.ty.mom, .xy, some .z, v.ty.tmp⟩ ∧ C01M.WFV w ∧
      denote w = some (l4 (bp4 (x, y, z, t) (px, py, pz, E))) := by
  have e : call evS K A "boost_p4" v [.v p] = call evR K A "boost_p4" v [.v p] := by
    obtain ⟨be, mom, az, l, t0, a, b, c, d, rfl⟩ := wfv4 hv hd
    obtain ⟨be', mom', az', l', t', a', b', c', d', rfl⟩ := wfv4 hp hdp
    exact c08m_call_boost_p4_eq K A be mom az l t0 a b c d be' mom' az' l' t' a' b' c' d' hc.2
  rw [e]; exact c09m_boost_p4 K A v p hv hd hp hdp hc hcp x y z t px py pz E h h' hphys

/-- `boostX(beta=β)` / positional on the regular domain (`BoostOK` contains `0 ≤ τ`) -/
theorem c08m_boostX_denote (K : Consts ℝ) (A : Arith ℝ) (v : Vec ℝ) (hv : C01M.WFV v) (hd : v.ty.dim = 4)
    (hc : BoostOK v) (β : ℝ) (hβ : v.ty.tmp = some .tau → |β| < 1) :
    ∃ w, call evS K A "boostX" v [.kw "beta" β] = .ok (.vec w) ∧ call evS K A "boostX" v [.sc β] = .ok (.vec w) ∧
      w.ty = { v.ty with az := .xy, lon := some .z } ∧ C01M.WFV w ∧ denote w = (denote v).map (on4 (bXβ β)) := by
  have e : call evS K A "boostX" v [.kw "beta" β] = call evR K A "boostX" v [.kw "beta" β] ∧
      call evS K A "boostX" v [.sc β] = call evR K A "boostX" v [.sc β] := by
    obtain ⟨be, mom, az, l, t0, a, b, c, d, rfl⟩ := wfv4 hv hd
    exact ⟨(c08m_call_boostX_eq K A be mom az l t0 a b c d β hc.2.2).1,
      (c08m_call_boostX_eq K A be mom az l t0 a b c d β hc.2.2).2.1⟩
  rw [e.1, e.2]; exact c09m_boostX_beta K A v hv hd hc β hβ

/-- all `to_<system>` conversions to a 2D / 3D system (e.g. `to_rhophieta`, `to_xyz`, `to_ptphi`) on a vector of that
dimension, in every storage: same denotation -/
theorem c08m_to_denote (K : Consts ℝ) (A : Arith ℝ) (e : String × Az × Option Lon × Option Tmp × String × String)
    (he : e ∈ toTable) (htmp : e.2.2.2.1 = none) (v : Vec ℝ) (hv : C01M.WFV v)
    (hl : e.2.2.1.isSome = v.ty.lon.isSome) (ht : e.2.2.2.1.isSome = v.ty.tmp.isSome)
    (h : C04M.FwdOK v e.2.2.1 e.2.2.2.1) :
    ∃ r, call evS K A e.1 v [] = .ok (.vec r) ∧
      r.ty = { v.ty with az := e.2.1, lon := e.2.2.1, tmp := e.2.2.2.1 } ∧ C01M.WFV r ∧ denote r = denote v := by
  rw [c08m_call_to_eq K A v e he (Or.inl htmp)]; exact C04M.c04m_to_denote K A e he v hv hl ht h

/-- `tau` of a τ-stored vector with `0 ≤ τ`: the SymPy backend returns the stored τ, as the numeric one does -/
theorem c08m_tau_stored (K : Consts ℝ) (A : Arith ℝ) (v : Vec ℝ) (hv : C01M.WFV v) (hd : v.ty.dim = 4)
    (ht : v.ty.tmp = some .tau) (h0 : 0 ≤ (C01M.c4 v).2.2.2) :
    call evS K A "tau" v [] = .ok (.scalar (C01M.c4 v).2.2.2) := by
  obtain ⟨be, mom, az, l, t0, a, b, c, d, rfl⟩ := wfv4 hv hd
  obtain rfl : t0 = .tau := by simpa using ht
  have h0' : 0 ≤ d := h0
  have hs : 0 ≤ VR.lorentz_tau2.eval az l .tau a b c d := by
    cases az <;> cases l <;> simp only [d_lorentz_tau2] <;>
      exact le_trans (sq_nonneg d) (le_of_eq (c08_copysign_sq h0').symm)
  rw [c08m_call_tau_eq K A be mom az l .tau a b c d hs]
  exact c09m_acc_tau_stored K A _ hv hd ht

-- the regular-domain hypotheses are satisfiable: the τ-stored momentum (x, y, z, τ) = (1, 2, 3, 5)
example : C01M.WFV (C11M.V4 .obj true .xy .z .tau 1 2 3 5) ∧ CanonTmp .tau (5 : ℝ) ∧
    symUncond .spatial_rotateX = true ∧ symBin .add 3 = true :=
  ⟨⟨by simp, rfl⟩, by show (0 : ℝ) ≤ 5; norm_num, rfl, rfl⟩

end MB
end VR
