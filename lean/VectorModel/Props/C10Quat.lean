/-
C10 — rotations are proper rotations and their spellings agree: the GROUP structure of `rotate_quaternion`.
Theorems about the generated real-number model of `_compute/spatial/rotate_quaternion.py` (Cartesian variant; the
all-keys statements of Props/C10.lean section 5 carry them to every coordinate system):

* rotating by `q₁` and then by `q₂` is rotating by the Hamilton product `q₂ q₁` - for ALL quaternions, unit or not;
* the identity quaternion `(1,0,0,0)` does nothing;
* for a unit quaternion the conjugate undoes the rotation (and in general gives the factor `|q|⁴`);
* the scalar triple product (orientation) is preserved by a unit quaternion: the map is a PROPER rotation;
* a unit quaternion keeps its own axis `(i,j,k)` fixed.
-/
import VectorModel.Props.C10

namespace VR
open VK Spec10

/-- Hamilton product `p q` of two quaternions `(u, i, j, k)` -/
def Spec10.hmul (p q : ℝ × ℝ × ℝ × ℝ) : ℝ × ℝ × ℝ × ℝ :=
  (p.1 * q.1 - p.2.1 * q.2.1 - p.2.2.1 * q.2.2.1 - p.2.2.2 * q.2.2.2,
   p.1 * q.2.1 + p.2.1 * q.1 + p.2.2.1 * q.2.2.2 - p.2.2.2 * q.2.2.1,
   p.1 * q.2.2.1 - p.2.1 * q.2.2.2 + p.2.2.1 * q.1 + p.2.2.2 * q.2.1,
   p.1 * q.2.2.2 + p.2.1 * q.2.2.1 - p.2.2.1 * q.2.1 + p.2.2.2 * q.1)

/-- the generated Cartesian variant as a map of ℝ³ indexed by a quaternion tuple -/
noncomputable def Spec10.qrot (q : ℝ × ℝ × ℝ × ℝ) (v : V3) : V3 :=
  ap (spatial_rotate_quaternion.cartesian q.1 q.2.1 q.2.2.1 q.2.2.2) v

/-- composition: `rotate_quaternion(q₂) ∘ rotate_quaternion(q₁) = rotate_quaternion(q₂ q₁)`, no hypothesis on the norms -/
theorem c10_quaternion_comp (p q : ℝ × ℝ × ℝ × ℝ) (v : V3) :
    qrot p (qrot q v) = qrot (hmul p q) v := by
  obtain ⟨u, i, j, k⟩ := p
  obtain ⟨u2, i2, j2, k2⟩ := q
  obtain ⟨x, y, z⟩ := v
  simp only [qrot, hmul, ap, spatial_rotate_quaternion.cartesian]
  refine Prod.ext ?_ (Prod.ext ?_ ?_) <;> simp only <;> ring

/-- the norm is multiplicative for the Hamilton product (so unit quaternions are closed under composition) -/
theorem c10_hmul_norm (p q : ℝ × ℝ × ℝ × ℝ) :
    (hmul p q).1 ^ 2 + (hmul p q).2.1 ^ 2 + (hmul p q).2.2.1 ^ 2 + (hmul p q).2.2.2 ^ 2 =
      (p.1 ^ 2 + p.2.1 ^ 2 + p.2.2.1 ^ 2 + p.2.2.2 ^ 2) * (q.1 ^ 2 + q.2.1 ^ 2 + q.2.2.1 ^ 2 + q.2.2.2 ^ 2) := by
  obtain ⟨u, i, j, k⟩ := p
  obtain ⟨u2, i2, j2, k2⟩ := q
  simp only [hmul]
  ring

/-- the identity quaternion does nothing -/
theorem c10_quaternion_one (v : V3) : qrot (1, 0, 0, 0) v = v := by
  obtain ⟨x, y, z⟩ := v
  simp only [qrot, ap, spatial_rotate_quaternion.cartesian]
  refine Prod.ext ?_ (Prod.ext ?_ ?_) <;> simp only <;> ring

/-- the conjugate quaternion gives the inverse map up to the factor `|q|⁴` (all quaternions) -/
theorem c10_quaternion_conj_general (u i j k : ℝ) (v : V3) :
    qrot (u, -i, -j, -k) (qrot (u, i, j, k) v) =
      ((u ^ 2 + i ^ 2 + j ^ 2 + k ^ 2) ^ 2 * v.1, (u ^ 2 + i ^ 2 + j ^ 2 + k ^ 2) ^ 2 * v.2.1,
        (u ^ 2 + i ^ 2 + j ^ 2 + k ^ 2) ^ 2 * v.2.2) := by
  obtain ⟨x, y, z⟩ := v
  simp only [qrot, ap, spatial_rotate_quaternion.cartesian]
  refine Prod.ext ?_ (Prod.ext ?_ ?_) <;> simp only <;> ring

/-- for a unit quaternion the conjugate undoes the rotation -/
theorem c10_quaternion_inv (u i j k : ℝ) (hq : u ^ 2 + i ^ 2 + j ^ 2 + k ^ 2 = 1) (v : V3) :
    qrot (u, -i, -j, -k) (qrot (u, i, j, k) v) = v := by
  rw [c10_quaternion_conj_general, hq]
  obtain ⟨x, y, z⟩ := v
  simp

/-- ... and on the other side -/
theorem c10_quaternion_inv' (u i j k : ℝ) (hq : u ^ 2 + i ^ 2 + j ^ 2 + k ^ 2 = 1) (v : V3) :
    qrot (u, i, j, k) (qrot (u, -i, -j, -k) v) = v := by
  have h := c10_quaternion_inv u (-i) (-j) (-k) (by rw [← hq]; ring) v
  simpa only [neg_neg] using h

/-- orientation: the scalar triple product is preserved by a unit quaternion, so the map is a proper rotation
(determinant +1), not a reflection -/
theorem c10_quaternion_triple (u i j k : ℝ) (hq : u ^ 2 + i ^ 2 + j ^ 2 + k ^ 2 = 1) (a b c : V3) :
    dot3 (qrot (u, i, j, k) a) (cross3 (qrot (u, i, j, k) b) (qrot (u, i, j, k) c)) = dot3 a (cross3 b c) := by
  simp only [qrot]
  rw [← c10_quaternion_cross u i j k hq, c10_quaternion_dot u i j k hq]

/-- a unit quaternion keeps its own vector part fixed (the rotation axis) -/
theorem c10_quaternion_fixes_axis (u i j k : ℝ) (hq : u ^ 2 + i ^ 2 + j ^ 2 + k ^ 2 = 1) :
    qrot (u, i, j, k) (i, j, k) = (i, j, k) := by
  simp only [qrot, ap, spatial_rotate_quaternion.cartesian]
  refine Prod.ext ?_ (Prod.ext ?_ ?_) <;> simp only
  · linear_combination i * hq
  · linear_combination j * hq
  · linear_combination k * hq

/-- composition at every coordinate system: via `c10_quaternion_eval` each non-Cartesian dispatch entry is `qrot` on the
Cartesian components, so two successive calls whose intermediate result is stored as Cartesian `(x, y, z)` (what the
method returns, `c10_quaternion_ret`) compose by the Hamilton product -/
theorem c10_quaternion_comp_eval (k0 : Az) (k1 : Lon) (p q : ℝ × ℝ × ℝ × ℝ) (c1 c2 c3 : ℝ) :
    qrot p (spatial_rotate_quaternion.eval k0 k1 q.1 q.2.1 q.2.2.1 q.2.2.2 c1 c2 c3) =
      qrot (hmul p q) (Spec10.cart k0 k1 c1 c2 c3) := by
  rw [c10_quaternion_eval, ← c10_quaternion_comp]
  rfl

-- the hypotheses are satisfiable, and the statements are not vacuous
example : qrot (0, 1, 0, 0) (qrot (0, 0, 1, 0) (1, 2, 3)) = qrot (hmul (0, 1, 0, 0) (0, 0, 1, 0)) (1, 2, 3) :=
  c10_quaternion_comp _ _ _
example : hmul (0, 1, 0, 0) (0, 0, 1, 0) = (0, 0, 0, 1) := by simp [hmul]
example : qrot (0, 0, 0, 1) (1, 2, 3) = (-1, -2, 3) := by
  simp only [qrot, ap, spatial_rotate_quaternion.cartesian]; norm_num
example : qrot (0, -1, 0, 0) (qrot (0, 1, 0, 0) (1, 2, 3)) = (1, 2, 3) := by
  simpa using c10_quaternion_inv 0 1 0 0 (by norm_num) (1, 2, 3)

end VR
