/-
Vector-space / dot / cross laws at the level of PUBLIC METHODS (glue ∘ compute), every storage pairing.

The glue model is instantiated at `S := ℝ`, `B := Prop` with the generated REAL compute layer `evR`
(`Props/C01Method.lean`); the theorems say what the BINARY public methods (`add`, `subtract`, `dot`, `cross`)
and `scale` / `unit` DENOTE, for all well-formed operands in every storage pairing, any flavors and backends.

Method: `dispatch_pair` / `dispatch_single` evaluate `VG.dispatch` once for arbitrary operands and compute layer; the
`*_eval2/3/4` lemmas reduce `call evR K A "<name>" a [.v b]` to the generated `<module>.eval k… coords` for ARBITRARY key
variables (no 144-fold case split); the `c11m_*` theorems rewrite with the all-keys refinement theorems
(`refine_planar_* / refine_spatial_* / refine_lorentz_*`), whose hypotheses are taken over verbatim as hypotheses on the
stored coordinates (`TanOKV`, `SinOKV`, `CanonTmpV`, `RepAdd`, `RepSub`, `SubCausal`, `ThetaRangeV`, `UnitOK`).

* `c11m_add`, `c11m_subtract`      2D (4 pairings), 3D (36), 4D (144): component-wise sum / difference, result type
* `c11m_dot`                       Euclidean (2D/3D) / Minkowski (4D) product of the denotations
* `c11m_cross`, `c11m_cross_guard` 3D × 3D cross product; every other dimension pairing is an error
* `c11m_scale`, `c11m_neg`, `c11m_neg_denote`, `c11m_neg_tau_discrepancy`
* `c11m_unit`                      denotation divided by its norm, norm one
* `c11m_dim_guard`, `c11m_dim_guard_tol`, `c11m_operators`
* `c11m_add_comm`, `c11m_dot_comm`, `c11m_add_indep`
* `c11m_*_regular`                 the compute call behind each method is regular (Props/Regular.lean)
-/
import VectorModel.Props.C01Method
import VectorModel.Refine.SpatialBin
import VectorModel.Refine.LorentzBin
import VectorModel.Props.Regular

set_option linter.unusedVariables false
set_option linter.constructorNameAsVariable false
set_option maxRecDepth 4096

namespace VR
namespace C11M
open VK VG Spec Real C01M

/-! ### generic facts about `dispatch` with two / one counted operands -/

/-- the handler of a two-operand call: the operand of higher backend priority, the first wins ties -/
def hand {S : Type} (a b : Vec S) : Vec S := if b.ty.be.prio > a.ty.be.prio then b else a

/-- backend of higher priority (first wins ties) -/
def hbe (x y : Backend) : Backend := if y.prio > x.prio then y else x

/-- `hbe` is the operand backend of maximal priority; on a tie the first operand's backend -/
theorem hbe_prio (x y : Backend) : (hbe x y).prio = max x.prio y.prio := by
  cases x <;> cases y <;> rfl
theorem hbe_tie (x y : Backend) (h : x.prio = y.prio) : hbe x y = x := by
  cases x <;> cases y <;> first | rfl | (simp [Backend.prio] at h)
theorem hbe_mem (x y : Backend) : hbe x y = x ∨ hbe x y = y := by
  cases x <;> cases y <;> simp [hbe, Backend.prio]

theorem hand_be {S : Type} (a b : Vec S) : (hand a b).ty.be = hbe a.ty.be b.ty.be := by
  unfold hand hbe; split <;> rfl

theorem dispatch_pair {S B : Type} (ev : Ev S B) (m : ModuleId) (sc : List S) (a b : Vec S) (n1 n2 : Nat)
    (hs : operandSlots m.info.shape = [n1, n2]) (k1 k2 : List KA) (c1 c2 : List S)
    (h1 : operandKey a n1 = some (k1, c1)) (h2 : operandKey b n2 = some (k2, c2))
    (out : Out S B) (ret : Ret) (he : ev m (k1 ++ k2) (sc ++ (c1 ++ c2)) = some (out, ret)) :
    dispatch ev m sc none [a, b] [a, b] =
      wrapResult (hand a b) (hand a b).ty.be (a.ty.mom || b.ty.mom) out ret := by
  unfold dispatch
  simp only [hs, List.length_cons, List.length_nil, bne_self_eq_false, Bool.false_eq_true, ↓reduceIte,
    List.zip_cons_cons, List.zip_nil_right, List.mapM_cons, List.mapM_nil, h1, h2, Option.pure_def,
    Option.bind_eq_bind, Option.bind_some, List.map_cons, List.map_nil, List.flatten_cons, List.flatten_nil,
    List.append_nil, he, handlerOf, List.foldl_cons, List.foldl_nil, hand, List.any_cons, List.any_nil, Bool.or_false]
  split_ifs <;> rfl

/-- one-operand version -/
theorem dispatch_single {S B : Type} (ev : Ev S B) (m : ModuleId) (sc : List S) (a : Vec S) (n1 : Nat)
    (hs : operandSlots m.info.shape = [n1]) (k1 : List KA) (c1 : List S)
    (h1 : operandKey a n1 = some (k1, c1))
    (out : Out S B) (ret : Ret) (he : ev m k1 (sc ++ c1) = some (out, ret)) :
    dispatch ev m sc none [a] [a] = wrapResult a a.ty.be a.ty.mom out ret := by
  unfold dispatch
  simp only [hs, List.length_cons, List.length_nil, bne_self_eq_false, Bool.false_eq_true, ↓reduceIte,
    List.zip_cons_cons, List.zip_nil_right, List.mapM_cons, List.mapM_nil, h1, Option.pure_def,
    Option.bind_eq_bind, Option.bind_some, List.map_cons, List.map_nil, List.flatten_cons, List.flatten_nil,
    List.append_nil, he, handlerOf, List.foldl_cons, List.foldl_nil, List.any_cons, List.any_nil, Bool.or_false]

/-! ### the string layer -/

theorem call_bin {S B : Type} (ev : Ev S B) (K : Consts S) (A : Arith S) (self o : Vec S) :
    call ev K A "add" self [.v o] = binary ev K .add self o [] ∧
    call ev K A "subtract" self [.v o] = binary ev K .subtract self o [] ∧
    call ev K A "dot" self [.v o] = binary ev K .dot self o [] ∧
    call ev K A "cross" self [.v o] = binary ev K .cross self o [] := ⟨rfl, rfl, rfl, rfl⟩

theorem binary_same {S B : Type} (ev : Ev S B) (K : Consts S) (self o : Vec S) (m : ModuleId) (b : Bin)
    (hb : b = .add ∨ b = .subtract ∨ b = .dot) (h : o.ty.dim = self.ty.dim)
    (hm : b.sameDimMod self.ty.dim = some m) :
    binary ev K b self o [] = dispatch ev m [] none [self, o] [self, o] := by
  rcases hb with rfl | rfl | rfl <;> simp only [binary, h, bne_self_eq_false, Bool.false_eq_true, ↓reduceIte, hm]

/-- 2D shapes -/
abbrev V2 (be : Backend) (mom : Bool) (az : Az) (a b : ℝ) : Vec ℝ := ⟨⟨be, mom, az, none, none⟩, [a, b]⟩
abbrev V3 (be : Backend) (mom : Bool) (az : Az) (l : Lon) (a b c : ℝ) : Vec ℝ := ⟨⟨be, mom, az, some l, none⟩, [a, b, c]⟩
abbrev V4 (be : Backend) (mom : Bool) (az : Az) (l : Lon) (t : Tmp) (a b c d : ℝ) : Vec ℝ :=
  ⟨⟨be, mom, az, some l, some t⟩, [a, b, c, d]⟩

theorem planar_add_ret_eq (k0 k1 : Az) : planar_add.ret k0 k1 = Ret.vec [RP.az (azOfRet (planar_add.ret k0 k1))] := by
  cases k0 <;> cases k1 <;> rfl
theorem planar_subtract_ret_eq (k0 k1 : Az) :
    planar_subtract.ret k0 k1 = Ret.vec [RP.az (azOfRet (planar_subtract.ret k0 k1))] := by
  cases k0 <;> cases k1 <;> rfl

theorem planar_scale_ret_eq (k0 : Az) : planar_scale.ret k0 = Ret.vec [RP.az k0] := by cases k0 <;> rfl
theorem planar_unit_ret_eq (k0 : Az) : planar_unit.ret k0 = Ret.vec [RP.az k0] := by cases k0 <;> rfl
theorem spatial_scale_ret_eq (k0 : Az) (k1 : Lon) : spatial_scale.ret k0 k1 = Ret.vec [RP.az k0, RP.lon k1] := by
  cases k0 <;> cases k1 <;> rfl
theorem lorentz_scale_ret_eq (k0 : Az) (k1 : Lon) (k2 : Tmp) :
    lorentz_scale.ret k0 k1 k2 = Ret.vec [RP.az k0, RP.lon k1, RP.tmp k2] := by
  cases k0 <;> cases k1 <;> cases k2 <;> rfl
theorem spatial_cross_ret_eq (k0 : Az) (k1 : Lon) (k2 : Az) (k3 : Lon) :
    spatial_cross.ret k0 k1 k2 k3 = Ret.vec [RP.az .xy, RP.lon .z, RP.none] := by
  cases k0 <;> cases k1 <;> cases k2 <;> cases k3 <;> rfl

/-- temporal system of a 4D sum / difference: `tau` only when both operands are stored with `tau` -/
def tmpRes : Tmp → Tmp → Tmp
  | .tau, .tau => .tau
  | _, _ => .t

/-! ### evaluation of the calls on the three shapes (all keys at once; backends and flavors arbitrary) -/

theorem add_eval2 (K : Consts ℝ) (A : Arith ℝ) (be1 mom1 az1 be2 mom2 az2) (a0 a1 a2 a3 : ℝ) :
    call evR K A "add" (V2 be1 mom1 az1 a0 a1) [.v (V2 be2 mom2 az2 a2 a3)] =
      .ok (.vec (V2 (hbe be1 be2) (mom1 || mom2) (azOfRet (planar_add.ret az1 az2))
        (planar_add.eval az1 az2 a0 a1 a2 a3).1 (planar_add.eval az1 az2 a0 a1 a2 a3).2)) := by
  rw [(call_bin evR K A _ _).1]
  rw [binary_same evR K (V2 be1 mom1 az1 a0 a1) (V2 be2 mom2 az2 a2 a3) .planar_add .add (by simp) rfl rfl,
    dispatch_pair evR .planar_add [] _ _ 1 1 rfl [.az az1] [.az az2] [a0, a1] [a2, a3] rfl rfl _ _ rfl,
    planar_add_ret_eq, hand_be]
  unfold hand; split <;> rfl

theorem subtract_eval2 (K : Consts ℝ) (A : Arith ℝ) (be1 mom1 az1 be2 mom2 az2) (a0 a1 a2 a3 : ℝ) :
    call evR K A "subtract" (V2 be1 mom1 az1 a0 a1) [.v (V2 be2 mom2 az2 a2 a3)] =
      .ok (.vec (V2 (hbe be1 be2) (mom1 || mom2) (azOfRet (planar_subtract.ret az1 az2))
        (planar_subtract.eval az1 az2 a0 a1 a2 a3).1 (planar_subtract.eval az1 az2 a0 a1 a2 a3).2)) := by
  rw [(call_bin evR K A _ _).2.1]
  rw [binary_same evR K (V2 be1 mom1 az1 a0 a1) (V2 be2 mom2 az2 a2 a3) .planar_subtract .subtract (by simp) rfl rfl,
    dispatch_pair evR .planar_subtract [] _ _ 1 1 rfl [.az az1] [.az az2] [a0, a1] [a2, a3] rfl rfl _ _ rfl,
    planar_subtract_ret_eq, hand_be]
  unfold hand; split <;> rfl

theorem dot_eval2 (K : Consts ℝ) (A : Arith ℝ) (be1 mom1 az1 be2 mom2 az2) (a0 a1 a2 a3 : ℝ) :
    call evR K A "dot" (V2 be1 mom1 az1 a0 a1) [.v (V2 be2 mom2 az2 a2 a3)] =
      .ok (.scalar (planar_dot.eval az1 az2 a0 a1 a2 a3)) := by
  rw [(call_bin evR K A _ _).2.2.1]
  rw [binary_same evR K (V2 be1 mom1 az1 a0 a1) (V2 be2 mom2 az2 a2 a3) .planar_dot .dot (by simp) rfl rfl,
    dispatch_pair evR .planar_dot [] _ _ 1 1 rfl [.az az1] [.az az2] [a0, a1] [a2, a3] rfl rfl _ _ rfl]
  cases az1 <;> cases az2 <;> rfl

theorem add_eval3 (K : Consts ℝ) (A : Arith ℝ) (be1 mom1 az1 l1 be2 mom2 az2 l2) (a0 a1 a2 a3 a4 a5 : ℝ) :
    call evR K A "add" (V3 be1 mom1 az1 l1 a0 a1 a2) [.v (V3 be2 mom2 az2 l2 a3 a4 a5)] =
      .ok (.vec (V3 (hbe be1 be2) (mom1 || mom2) (azOfRet (spatial_add.ret az1 l1 az2 l2))
        (lonOfRet (spatial_add.ret az1 l1 az2 l2))
        (spatial_add.eval az1 l1 az2 l2 a0 a1 a2 a3 a4 a5).1 (spatial_add.eval az1 l1 az2 l2 a0 a1 a2 a3 a4 a5).2.1
        (spatial_add.eval az1 l1 az2 l2 a0 a1 a2 a3 a4 a5).2.2)) := by
  rw [(call_bin evR K A _ _).1]
  rw [binary_same evR K (V3 be1 mom1 az1 l1 a0 a1 a2) (V3 be2 mom2 az2 l2 a3 a4 a5) .spatial_add .add (by simp) rfl rfl,
    dispatch_pair evR .spatial_add [] _ _ 2 2 rfl [.az az1, .lon l1] [.az az2, .lon l2] [a0, a1, a2] [a3, a4, a5]
      rfl rfl _ _ rfl,
    spatial_add_ret_eq, hand_be]
  unfold hand; split <;> rfl

theorem subtract_eval3 (K : Consts ℝ) (A : Arith ℝ) (be1 mom1 az1 l1 be2 mom2 az2 l2) (a0 a1 a2 a3 a4 a5 : ℝ) :
    call evR K A "subtract" (V3 be1 mom1 az1 l1 a0 a1 a2) [.v (V3 be2 mom2 az2 l2 a3 a4 a5)] =
      .ok (.vec (V3 (hbe be1 be2) (mom1 || mom2) (azOfRet (spatial_subtract.ret az1 l1 az2 l2))
        (lonOfRet (spatial_subtract.ret az1 l1 az2 l2))
        (spatial_subtract.eval az1 l1 az2 l2 a0 a1 a2 a3 a4 a5).1 (spatial_subtract.eval az1 l1 az2 l2 a0 a1 a2 a3 a4 a5).2.1
        (spatial_subtract.eval az1 l1 az2 l2 a0 a1 a2 a3 a4 a5).2.2)) := by
  rw [(call_bin evR K A _ _).2.1]
  rw [binary_same evR K (V3 be1 mom1 az1 l1 a0 a1 a2) (V3 be2 mom2 az2 l2 a3 a4 a5) .spatial_subtract .subtract
      (by simp) rfl rfl,
    dispatch_pair evR .spatial_subtract [] _ _ 2 2 rfl [.az az1, .lon l1] [.az az2, .lon l2] [a0, a1, a2] [a3, a4, a5]
      rfl rfl _ _ rfl,
    spatial_subtract_ret_eq, hand_be]
  unfold hand; split <;> rfl

theorem dot_eval3 (K : Consts ℝ) (A : Arith ℝ) (be1 mom1 az1 l1 be2 mom2 az2 l2) (a0 a1 a2 a3 a4 a5 : ℝ) :
    call evR K A "dot" (V3 be1 mom1 az1 l1 a0 a1 a2) [.v (V3 be2 mom2 az2 l2 a3 a4 a5)] =
      .ok (.scalar (spatial_dot.eval az1 l1 az2 l2 a0 a1 a2 a3 a4 a5)) := by
  rw [(call_bin evR K A _ _).2.2.1]
  rw [binary_same evR K (V3 be1 mom1 az1 l1 a0 a1 a2) (V3 be2 mom2 az2 l2 a3 a4 a5) .spatial_dot .dot (by simp) rfl rfl,
    dispatch_pair evR .spatial_dot [] _ _ 2 2 rfl [.az az1, .lon l1] [.az az2, .lon l2] [a0, a1, a2] [a3, a4, a5]
      rfl rfl _ _ rfl]
  cases az1 <;> cases l1 <;> cases az2 <;> cases l2 <;> rfl

theorem cross_eval3 (K : Consts ℝ) (A : Arith ℝ) (be1 mom1 az1 l1 be2 mom2 az2 l2) (a0 a1 a2 a3 a4 a5 : ℝ) :
    call evR K A "cross" (V3 be1 mom1 az1 l1 a0 a1 a2) [.v (V3 be2 mom2 az2 l2 a3 a4 a5)] =
      .ok (.vec (V3 (hbe be1 be2) (mom1 || mom2) .xy .z
        (spatial_cross.eval az1 l1 az2 l2 a0 a1 a2 a3 a4 a5).1 (spatial_cross.eval az1 l1 az2 l2 a0 a1 a2 a3 a4 a5).2.1
        (spatial_cross.eval az1 l1 az2 l2 a0 a1 a2 a3 a4 a5).2.2)) := by
  rw [(call_bin evR K A _ _).2.2.2]
  have e : binary evR K .cross (V3 be1 mom1 az1 l1 a0 a1 a2) (V3 be2 mom2 az2 l2 a3 a4 a5) [] =
      dispatch evR .spatial_cross [] none [V3 be1 mom1 az1 l1 a0 a1 a2, V3 be2 mom2 az2 l2 a3 a4 a5]
        [V3 be1 mom1 az1 l1 a0 a1 a2, V3 be2 mom2 az2 l2 a3 a4 a5] := rfl
  rw [e, dispatch_pair evR .spatial_cross [] _ _ 2 2 rfl [.az az1, .lon l1] [.az az2, .lon l2] [a0, a1, a2] [a3, a4, a5]
      rfl rfl _ _ rfl,
    spatial_cross_ret_eq, hand_be]
  unfold hand; split <;> rfl

theorem add_eval4 (K : Consts ℝ) (A : Arith ℝ) (be1 mom1 az1 l1 t1 be2 mom2 az2 l2 t2) (a0 a1 a2 a3 a4 a5 a6 a7 : ℝ) :
    call evR K A "add" (V4 be1 mom1 az1 l1 t1 a0 a1 a2 a3) [.v (V4 be2 mom2 az2 l2 t2 a4 a5 a6 a7)] =
      .ok (.vec (V4 (hbe be1 be2) (mom1 || mom2) (azOfRet (spatial_add.ret az1 l1 az2 l2))
        (lonOfRet (spatial_add.ret az1 l1 az2 l2)) (tmpRes t1 t2)
        (lorentz_add.eval az1 l1 t1 az2 l2 t2 a0 a1 a2 a3 a4 a5 a6 a7).1
        (lorentz_add.eval az1 l1 t1 az2 l2 t2 a0 a1 a2 a3 a4 a5 a6 a7).2.1
        (lorentz_add.eval az1 l1 t1 az2 l2 t2 a0 a1 a2 a3 a4 a5 a6 a7).2.2.1
        (lorentz_add.eval az1 l1 t1 az2 l2 t2 a0 a1 a2 a3 a4 a5 a6 a7).2.2.2)) := by
  rw [(call_bin evR K A _ _).1]
  rw [binary_same evR K (V4 be1 mom1 az1 l1 t1 a0 a1 a2 a3) (V4 be2 mom2 az2 l2 t2 a4 a5 a6 a7) .lorentz_add .add
      (by simp) rfl rfl,
    dispatch_pair evR .lorentz_add [] _ _ 3 3 rfl [.az az1, .lon l1, .tmp t1] [.az az2, .lon l2, .tmp t2]
      [a0, a1, a2, a3] [a4, a5, a6, a7] rfl rfl _ _ rfl,
    lorentz_add_ret_eq, hand_be]
  unfold hand; split <;> cases t1 <;> cases t2 <;> rfl

theorem subtract_eval4 (K : Consts ℝ) (A : Arith ℝ) (be1 mom1 az1 l1 t1 be2 mom2 az2 l2 t2)
    (a0 a1 a2 a3 a4 a5 a6 a7 : ℝ) :
    call evR K A "subtract" (V4 be1 mom1 az1 l1 t1 a0 a1 a2 a3) [.v (V4 be2 mom2 az2 l2 t2 a4 a5 a6 a7)] =
      .ok (.vec (V4 (hbe be1 be2) (mom1 || mom2) (azOfRet (spatial_subtract.ret az1 l1 az2 l2))
        (lonOfRet (spatial_subtract.ret az1 l1 az2 l2)) (tmpRes t1 t2)
        (lorentz_subtract.eval az1 l1 t1 az2 l2 t2 a0 a1 a2 a3 a4 a5 a6 a7).1
        (lorentz_subtract.eval az1 l1 t1 az2 l2 t2 a0 a1 a2 a3 a4 a5 a6 a7).2.1
        (lorentz_subtract.eval az1 l1 t1 az2 l2 t2 a0 a1 a2 a3 a4 a5 a6 a7).2.2.1
        (lorentz_subtract.eval az1 l1 t1 az2 l2 t2 a0 a1 a2 a3 a4 a5 a6 a7).2.2.2)) := by
  rw [(call_bin evR K A _ _).2.1]
  rw [binary_same evR K (V4 be1 mom1 az1 l1 t1 a0 a1 a2 a3) (V4 be2 mom2 az2 l2 t2 a4 a5 a6 a7) .lorentz_subtract .subtract
      (by simp) rfl rfl,
    dispatch_pair evR .lorentz_subtract [] _ _ 3 3 rfl [.az az1, .lon l1, .tmp t1] [.az az2, .lon l2, .tmp t2]
      [a0, a1, a2, a3] [a4, a5, a6, a7] rfl rfl _ _ rfl,
    lorentz_subtract_ret_eq, hand_be]
  unfold hand; split <;> cases t1 <;> cases t2 <;> rfl

theorem dot_eval4 (K : Consts ℝ) (A : Arith ℝ) (be1 mom1 az1 l1 t1 be2 mom2 az2 l2 t2) (a0 a1 a2 a3 a4 a5 a6 a7 : ℝ) :
    call evR K A "dot" (V4 be1 mom1 az1 l1 t1 a0 a1 a2 a3) [.v (V4 be2 mom2 az2 l2 t2 a4 a5 a6 a7)] =
      .ok (.scalar (lorentz_dot.eval az1 l1 t1 az2 l2 t2 a0 a1 a2 a3 a4 a5 a6 a7)) := by
  rw [(call_bin evR K A _ _).2.2.1]
  rw [binary_same evR K (V4 be1 mom1 az1 l1 t1 a0 a1 a2 a3) (V4 be2 mom2 az2 l2 t2 a4 a5 a6 a7) .lorentz_dot .dot
      (by simp) rfl rfl,
    dispatch_pair evR .lorentz_dot [] _ _ 3 3 rfl [.az az1, .lon l1, .tmp t1] [.az az2, .lon l2, .tmp t2]
      [a0, a1, a2, a3] [a4, a5, a6, a7] rfl rfl _ _ rfl]
  cases az1 <;> cases l1 <;> cases t1 <;> cases az2 <;> cases l2 <;> cases t2 <;> rfl

/-! ### denotations -/

def toL2 (p : ℝ × ℝ) : List ℝ := [p.1, p.2]
def toL3 (p : ℝ × ℝ × ℝ) : List ℝ := [p.1, p.2.1, p.2.2]
def toL4 (p : ℝ × ℝ × ℝ × ℝ) : List ℝ := [p.1, p.2.1, p.2.2.1, p.2.2.2]

theorem denote_V2 (be mom az) (a b : ℝ) : denote (V2 be mom az a b) = some (toL2 (cart2 az a b)) := rfl
theorem denote_V3 (be mom az l) (a b c : ℝ) : denote (V3 be mom az l a b c) = some (toL3 (cart3 az l a b c)) := rfl
theorem denote_V4 (be mom az l t) (a b c d : ℝ) :
    denote (V4 be mom az l t a b c d) = some (toL4 (cart4 az l t a b c d)) := rfl

theorem denote2_of_interp (be mom az) (rest : List RP) (v p : ℝ × ℝ) (h : interp2 (Ret.vec (RP.az az :: rest)) v = some p) :
    denote (V2 be mom az v.1 v.2) = some (toL2 p) := by
  rw [denote_V2]; exact congrArg (fun o => o.map toL2) h
theorem denote3_of_interp (be mom az l) (rest : List RP) (v p : ℝ × ℝ × ℝ)
    (h : interp3 (Ret.vec (RP.az az :: RP.lon l :: rest)) v = some p) :
    denote (V3 be mom az l v.1 v.2.1 v.2.2) = some (toL3 p) := by
  rw [denote_V3]; exact congrArg (fun o => o.map toL3) h
theorem denote4_of_interp (be mom az l t) (rest : List RP) (v p : ℝ × ℝ × ℝ × ℝ)
    (h : interp4 (Ret.vec (RP.az az :: RP.lon l :: RP.tmp t :: rest)) v = some p) :
    denote (V4 be mom az l t v.1 v.2.1 v.2.2.1 v.2.2.2) = some (toL4 p) := by
  rw [denote_V4]; exact congrArg (fun o => o.map toL4) h

/-! ### hypotheses on the stored coordinates of the operands (those of the `refine_*` theorems, verbatim) -/

/-- the stored temporal coordinate and key, totalised -/
def c4 (v : Vec ℝ) : ℝ := match v.c with | [_, _, _, d] => d | _ => 0
def tmpOf (v : Vec ℝ) : Tmp := v.ty.tmp.getD .t

/-- 4D operands: `sin θ ≠ 0` for θ storage (the temporal accessors divide by it) -/
def SinOKV (v : Vec ℝ) : Prop := v.ty.tmp.isSome → SinOK (lonOf v) (c3 v).2.2
/-- 4D operands: `0 ≤ τ` for τ storage -/
def CanonTmpV (v : Vec ℝ) : Prop := CanonTmp (tmpOf v) (c4 v)
/-- the spatial part and the time component a 3D / 4D vector denotes -/
noncomputable def sp (v : Vec ℝ) : ℝ × ℝ × ℝ := cart3 v.ty.az (lonOf v) (c3 v).1 (c3 v).2.1 (c3 v).2.2
noncomputable def st (v : Vec ℝ) : ℝ := tOf v.ty.az (lonOf v) (tmpOf v) (c3 v).1 (c3 v).2.1 (c3 v).2.2 (c4 v)

/-- 3D / 4D sums: the exact result is representable in the DECLARED result system (declared `z`, or off the z axis) -/
def RepAdd (a b : Vec ℝ) : Prop :=
  a.ty.lon.isSome → Representable3 (spatial_add.ret a.ty.az (lonOf a) b.ty.az (lonOf b)) (add3 (sp a) (sp b))
def RepSub (a b : Vec ℝ) : Prop :=
  a.ty.lon.isSome → Representable3 (spatial_subtract.ret a.ty.az (lonOf a) b.ty.az (lonOf b)) (sub3 (sp a) (sp b))
/-- τ,τ differences: the exact difference is future-directed and causal (representable in τ storage) -/
def SubCausal (a b : Vec ℝ) : Prop :=
  a.ty.tmp = some .tau → b.ty.tmp = some .tau →
    0 ≤ st a - st b ∧
    ((sp a).1 - (sp b).1) ^ 2 + ((sp a).2.1 - (sp b).2.1) ^ 2 + ((sp a).2.2 - (sp b).2.2) ^ 2 ≤ (st a - st b) ^ 2

/-- temporal system of the result of `add` / `subtract` -/
def tmpRes? (a b : Option Tmp) : Option Tmp := a.bind fun t1 => b.map fun t2 => tmpRes t1 t2

/-! ### 1. add / subtract -/

/-- **add in every storage pairing (2D: 4, 3D: 36, 4D: 144), any flavors and backends**: the result denotes the
component-wise sum of the Cartesian denotations -/
theorem c11m_add (K : Consts ℝ) (A : Arith ℝ) (a b : Vec ℝ) (ha : WFV a) (hb : WFV b) (hd : a.ty.dim = b.ty.dim)
    (hT1 : TanOKV a) (hT2 : TanOKV b) (hS1 : SinOKV a) (hS2 : SinOKV b) (hC1 : CanonTmpV a) (hC2 : CanonTmpV b)
    (hrep : RepAdd a b) :
    ∃ r p q, call evR K A "add" a [.v b] = .ok (.vec r) ∧ WFV r ∧ r.ty.dim = a.ty.dim ∧
      r.ty.mom = (a.ty.mom || b.ty.mom) ∧ r.ty.be = hbe a.ty.be b.ty.be ∧ r.ty.tmp = tmpRes? a.ty.tmp b.ty.tmp ∧
      denote a = some p ∧ denote b = some q ∧ denote r = some (List.zipWith (· + ·) p q) := by
  rcases wfv_cases ha with ⟨be1, mom1, az1, a0, a1, rfl⟩ | ⟨be1, mom1, az1, l1, a0, a1, a2, rfl⟩ |
    ⟨be1, mom1, az1, l1, t1, a0, a1, a2, a3, rfl⟩ <;>
  rcases wfv_cases hb with ⟨be2, mom2, az2, b0, b1, rfl⟩ | ⟨be2, mom2, az2, l2, b0, b1, b2, rfl⟩ |
    ⟨be2, mom2, az2, l2, t2, b0, b1, b2, b3, rfl⟩ <;> try (simp [VT.dim] at hd; done)
  · refine ⟨_, _, _, add_eval2 K A be1 mom1 az1 be2 mom2 az2 a0 a1 b0 b1, ⟨by simp, rfl⟩, rfl, rfl, rfl, rfl,
      denote_V2 .., denote_V2 .., ?_⟩
    have h := refine_planar_add az1 az2 a0 a1 b0 b1
    rw [planar_add_ret_eq] at h
    exact denote2_of_interp _ _ _ _ _ _ h
  · refine ⟨_, _, _, add_eval3 K A be1 mom1 az1 l1 be2 mom2 az2 l2 a0 a1 a2 b0 b1 b2, ⟨by simp, rfl⟩, rfl, rfl, rfl, rfl,
      denote_V3 .., denote_V3 .., ?_⟩
    have h := refine_spatial_add az1 l1 az2 l2 a0 a1 a2 b0 b1 b2 hT1 hT2 (hrep rfl)
    rw [spatial_add_ret_eq] at h
    exact denote3_of_interp _ _ _ _ _ _ _ h
  · refine ⟨_, _, _, add_eval4 K A be1 mom1 az1 l1 t1 be2 mom2 az2 l2 t2 a0 a1 a2 a3 b0 b1 b2 b3, ⟨by simp, rfl⟩, rfl, rfl,
      rfl, rfl, denote_V4 .., denote_V4 .., ?_⟩
    have h := refine_lorentz_add az1 l1 t1 az2 l2 t2 a0 a1 a2 a3 b0 b1 b2 b3 hT1 hT2 (hS1 rfl) (hS2 rfl) hC1 hC2 (hrep rfl)
    rw [lorentz_add_ret_eq] at h
    exact denote4_of_interp _ _ _ _ _ _ _ _ h

/-- **subtract in every storage pairing**; for τ,τ-stored 4D operands the exact difference must be representable in τ
storage (`SubCausal`) -/
theorem c11m_subtract (K : Consts ℝ) (A : Arith ℝ) (a b : Vec ℝ) (ha : WFV a) (hb : WFV b) (hd : a.ty.dim = b.ty.dim)
    (hT1 : TanOKV a) (hT2 : TanOKV b) (hS1 : SinOKV a) (hS2 : SinOKV b) (hC1 : CanonTmpV a) (hC2 : CanonTmpV b)
    (hrep : RepSub a b) (hcaus : SubCausal a b) :
    ∃ r p q, call evR K A "subtract" a [.v b] = .ok (.vec r) ∧ WFV r ∧ r.ty.dim = a.ty.dim ∧
      r.ty.mom = (a.ty.mom || b.ty.mom) ∧ r.ty.be = hbe a.ty.be b.ty.be ∧ r.ty.tmp = tmpRes? a.ty.tmp b.ty.tmp ∧
      denote a = some p ∧ denote b = some q ∧ denote r = some (List.zipWith (· - ·) p q) := by
  rcases wfv_cases ha with ⟨be1, mom1, az1, a0, a1, rfl⟩ | ⟨be1, mom1, az1, l1, a0, a1, a2, rfl⟩ |
    ⟨be1, mom1, az1, l1, t1, a0, a1, a2, a3, rfl⟩ <;>
  rcases wfv_cases hb with ⟨be2, mom2, az2, b0, b1, rfl⟩ | ⟨be2, mom2, az2, l2, b0, b1, b2, rfl⟩ |
    ⟨be2, mom2, az2, l2, t2, b0, b1, b2, b3, rfl⟩ <;> try (simp [VT.dim] at hd; done)
  · refine ⟨_, _, _, subtract_eval2 K A be1 mom1 az1 be2 mom2 az2 a0 a1 b0 b1, ⟨by simp, rfl⟩, rfl, rfl, rfl, rfl,
      denote_V2 .., denote_V2 .., ?_⟩
    have h := refine_planar_subtract az1 az2 a0 a1 b0 b1
    rw [planar_subtract_ret_eq] at h
    exact denote2_of_interp _ _ _ _ _ _ h
  · refine ⟨_, _, _, subtract_eval3 K A be1 mom1 az1 l1 be2 mom2 az2 l2 a0 a1 a2 b0 b1 b2, ⟨by simp, rfl⟩, rfl, rfl, rfl,
      rfl, denote_V3 .., denote_V3 .., ?_⟩
    have h := refine_spatial_subtract az1 l1 az2 l2 a0 a1 a2 b0 b1 b2 hT1 hT2 (hrep rfl)
    rw [spatial_subtract_ret_eq] at h
    exact denote3_of_interp _ _ _ _ _ _ _ h
  · refine ⟨_, _, _, subtract_eval4 K A be1 mom1 az1 l1 t1 be2 mom2 az2 l2 t2 a0 a1 a2 a3 b0 b1 b2 b3, ⟨by simp, rfl⟩,
      rfl, rfl, rfl, rfl, denote_V4 .., denote_V4 .., ?_⟩
    have h := refine_lorentz_subtract az1 l1 t1 az2 l2 t2 a0 a1 a2 a3 b0 b1 b2 b3 hT1 hT2 (hS1 rfl) (hS2 rfl) hC1 hC2
      (hrep rfl) (fun e1 e2 => hcaus (congrArg some e1) (congrArg some e2))
    rw [lorentz_subtract_ret_eq] at h
    exact denote4_of_interp _ _ _ _ _ _ _ _ h

/-! ### 2. dot -/

/-- Euclidean product of two component lists of length 2 / 3; Minkowski product `t₁t₂ − x₁x₂ − y₁y₂ − z₁z₂` for length 4 -/
def dotL : List ℝ → List ℝ → ℝ
  | [x1, y1], [x2, y2] => x1 * x2 + y1 * y2
  | [x1, y1, z1], [x2, y2, z2] => x1 * x2 + y1 * y2 + z1 * z2
  | [x1, y1, z1, t1], [x2, y2, z2, t2] => t1 * t2 - x1 * x2 - y1 * y2 - z1 * z2
  | _, _ => 0

/-- **dot in every storage pairing**: Euclidean product of the denotations for 2D/3D, Minkowski product for 4D -/
theorem c11m_dot (K : Consts ℝ) (A : Arith ℝ) (a b : Vec ℝ) (ha : WFV a) (hb : WFV b) (hd : a.ty.dim = b.ty.dim)
    (hT1 : TanOKV a) (hT2 : TanOKV b) (hS1 : SinOKV a) (hS2 : SinOKV b) (hC1 : CanonTmpV a) (hC2 : CanonTmpV b) :
    ∃ p q, denote a = some p ∧ denote b = some q ∧ call evR K A "dot" a [.v b] = .ok (.scalar (dotL p q)) := by
  rcases wfv_cases ha with ⟨be1, mom1, az1, a0, a1, rfl⟩ | ⟨be1, mom1, az1, l1, a0, a1, a2, rfl⟩ |
    ⟨be1, mom1, az1, l1, t1, a0, a1, a2, a3, rfl⟩ <;>
  rcases wfv_cases hb with ⟨be2, mom2, az2, b0, b1, rfl⟩ | ⟨be2, mom2, az2, l2, b0, b1, b2, rfl⟩ |
    ⟨be2, mom2, az2, l2, t2, b0, b1, b2, b3, rfl⟩ <;> try (simp [VT.dim] at hd; done)
  · refine ⟨_, _, denote_V2 .., denote_V2 .., ?_⟩
    rw [dot_eval2, refine_planar_dot]; rfl
  · refine ⟨_, _, denote_V3 .., denote_V3 .., ?_⟩
    rw [dot_eval3, refine_spatial_dot az1 l1 az2 l2 a0 a1 a2 b0 b1 b2 hT1 hT2]; rfl
  · refine ⟨_, _, denote_V4 .., denote_V4 .., ?_⟩
    rw [dot_eval4, refine_lorentz_dot az1 l1 t1 az2 l2 t2 a0 a1 a2 a3 b0 b1 b2 b3 hT1 hT2 (hS1 rfl) (hS2 rfl) hC1 hC2]; rfl

/-! ### 3. cross -/

def crossL : List ℝ → List ℝ → List ℝ
  | [x1, y1, z1], [x2, y2, z2] => [y1 * z2 - z1 * y2, z1 * x2 - x1 * z2, x1 * y2 - y1 * x2]
  | _, _ => []

/-- **cross, 3D × 3D in every storage pairing (36)**: a Cartesian 3D vector denoting the cross product -/
theorem c11m_cross (K : Consts ℝ) (A : Arith ℝ) (a b : Vec ℝ) (ha : WFV a) (hb : WFV b) (hda : a.ty.dim = 3)
    (hdb : b.ty.dim = 3) (hT1 : TanOKV a) (hT2 : TanOKV b) :
    ∃ r p q, call evR K A "cross" a [.v b] = .ok (.vec r) ∧ WFV r ∧
      r.ty = ⟨hbe a.ty.be b.ty.be, a.ty.mom || b.ty.mom, .xy, some .z, none⟩ ∧
      denote a = some p ∧ denote b = some q ∧ denote r = some (crossL p q) := by
  rcases wfv_cases ha with ⟨be1, mom1, az1, a0, a1, rfl⟩ | ⟨be1, mom1, az1, l1, a0, a1, a2, rfl⟩ |
    ⟨be1, mom1, az1, l1, t1, a0, a1, a2, a3, rfl⟩ <;>
  rcases wfv_cases hb with ⟨be2, mom2, az2, b0, b1, rfl⟩ | ⟨be2, mom2, az2, l2, b0, b1, b2, rfl⟩ |
    ⟨be2, mom2, az2, l2, t2, b0, b1, b2, b3, rfl⟩ <;> try (simp [VT.dim] at hda hdb; done)
  refine ⟨_, _, _, cross_eval3 K A be1 mom1 az1 l1 be2 mom2 az2 l2 a0 a1 a2 b0 b1 b2, ⟨by simp, rfl⟩, rfl,
    denote_V3 .., denote_V3 .., ?_⟩
  have h := refine_spatial_cross az1 l1 az2 l2 a0 a1 a2 b0 b1 b2 hT1 hT2
  rw [spatial_cross_ret_eq] at h
  exact denote3_of_interp _ _ _ _ _ _ _ h

/-- **cross, any other dimension pairing**: `AttributeError` when `self` is 2D, `TypeError` otherwise — for ALL operands
(no well-formedness needed), any compute layer -/
theorem c11m_cross_guard {S B : Type} (ev : Ev S B) (K : Consts S) (A : Arith S) (a b : Vec S)
    (h : ¬ (a.ty.dim = 3 ∧ b.ty.dim = 3)) :
    call ev K A "cross" a [.v b] = .error (if a.ty.dim < 3 then .attributeError else .typeError) := by
  rw [(call_bin ev K A a b).2.2.2]
  simp only [binary]
  by_cases h1 : a.ty.dim < 3
  · simp [h1]
  · by_cases h2 : a.ty.dim = 3
    · have h3 : b.ty.dim ≠ 3 := fun e => h ⟨h2, e⟩
      simp [h2, h3]
    · simp [h1, h2]

/-! ### 4. scale, neg -/

theorem call_scale {S B : Type} (ev : Ev S B) (K : Consts S) (A : Arith S) (v : Vec S) (f : S) :
    call ev K A "scale" v [.sc f] = scaleN ev v.ty.dim f v := rfl

theorem scale_eval2 (K : Consts ℝ) (A : Arith ℝ) (be mom az) (f a b : ℝ) :
    call evR K A "scale" (V2 be mom az a b) [.sc f] =
      .ok (.vec (V2 be mom az (planar_scale.eval az f a b).1 (planar_scale.eval az f a b).2)) := by
  rw [call_scale]
  show dispatch evR .planar_scale [f] none [V2 be mom az a b] [V2 be mom az a b] = _
  rw [dispatch_single evR .planar_scale [f] _ 1 rfl [.az az] [a, b] rfl _ _ rfl, planar_scale_ret_eq]
  rfl

theorem scale_eval3 (K : Consts ℝ) (A : Arith ℝ) (be mom az l) (f a b c : ℝ) :
    call evR K A "scale" (V3 be mom az l a b c) [.sc f] =
      .ok (.vec (V3 be mom az l (spatial_scale.eval az l f a b c).1 (spatial_scale.eval az l f a b c).2.1
        (spatial_scale.eval az l f a b c).2.2)) := by
  rw [call_scale]
  show dispatch evR .spatial_scale [f] none [V3 be mom az l a b c] [V3 be mom az l a b c] = _
  rw [dispatch_single evR .spatial_scale [f] _ 2 rfl [.az az, .lon l] [a, b, c] rfl _ _ rfl, spatial_scale_ret_eq]
  rfl

theorem scale_eval4 (K : Consts ℝ) (A : Arith ℝ) (be mom az l t) (f a b c d : ℝ) :
    call evR K A "scale" (V4 be mom az l t a b c d) [.sc f] =
      .ok (.vec (V4 be mom az l t (lorentz_scale.eval az l t f a b c d).1 (lorentz_scale.eval az l t f a b c d).2.1
        (lorentz_scale.eval az l t f a b c d).2.2.1 (lorentz_scale.eval az l t f a b c d).2.2.2)) := by
  rw [call_scale]
  show dispatch evR .lorentz_scale [f] none [V4 be mom az l t a b c d] [V4 be mom az l t a b c d] = _
  rw [dispatch_single evR .lorentz_scale [f] _ 3 rfl [.az az, .lon l, .tmp t] [a, b, c, d] rfl _ _ rfl,
    lorentz_scale_ret_eq]
  rfl

/-- the stored θ of a θ-stored operand lies in `[0, π]` (the code flips θ for negative factors) -/
def ThetaRangeV (v : Vec ℝ) : Prop := ThetaRange (lonOf v) (c3 v).2.2

/-- **scale in every storage (2 + 6 + 12), every factor** (for τ-stored 4D vectors only `0 ≤ f`: a τ-stored vector always
denotes `t ≥ 0`): the type is unchanged and the result denotes `f •` the denotation -/
theorem c11m_scale (K : Consts ℝ) (A : Arith ℝ) (v : Vec ℝ) (hv : WFV v) (f : ℝ) (hθ : ThetaRangeV v)
    (hf : v.ty.tmp = some .tau → 0 ≤ f) :
    ∃ r p, call evR K A "scale" v [.sc f] = .ok (.vec r) ∧ r.ty = v.ty ∧ WFV r ∧
      denote v = some p ∧ denote r = some (p.map (f * ·)) := by
  rcases wfv_cases hv with ⟨be, mom, az, a, b, rfl⟩ | ⟨be, mom, az, l, a, b, c, rfl⟩ |
    ⟨be, mom, az, l, t, a, b, c, d, rfl⟩
  · refine ⟨_, _, scale_eval2 K A be mom az f a b, rfl, ⟨by simp, rfl⟩, denote_V2 .., ?_⟩
    have h := refine_planar_scale az f a b
    rw [planar_scale_ret_eq] at h
    exact denote2_of_interp _ _ _ _ _ _ h
  · refine ⟨_, _, scale_eval3 K A be mom az l f a b c, rfl, ⟨by simp, rfl⟩, denote_V3 .., ?_⟩
    have h := refine_spatial_scale az l f a b c hθ
    rw [spatial_scale_ret_eq] at h
    exact denote3_of_interp _ _ _ _ _ _ _ h
  · refine ⟨_, _, scale_eval4 K A be mom az l t f a b c d, rfl, ⟨by simp, rfl⟩, denote_V4 .., ?_⟩
    have h := refine_lorentz_scale_partial az l t f a b c d hθ (fun e => hf (congrArg some e))
    rw [lorentz_scale_ret_eq] at h
    exact denote4_of_interp _ _ _ _ _ _ _ _ h

/-- **unary minus is `scale(-1)`** (also `__mul__`, `__rmul__`, `__truediv__` are `scale`) -/
theorem c11m_neg {S B : Type} (ev : Ev S B) (K : Consts S) (A : Arith S) (v : Vec S) (f : S) :
    operator ev K A "neg" v [] = call ev K A "scale" v [.sc K.negOne] ∧
    operator ev K A "mul" v [.sc f] = call ev K A "scale" v [.sc f] ∧
    operator ev K A "rmul" v [.sc f] = call ev K A "scale" v [.sc f] ∧
    operator ev K A "truediv" v [.sc f] = call ev K A "scale" v [.sc (A.inv f)] := ⟨rfl, rfl, rfl, rfl⟩

/-- unary minus denotes the negated vector, for every storage except τ-stored 4D vectors -/
theorem c11m_neg_denote (K : Consts ℝ) (A : Arith ℝ) (hK : K.negOne = -1) (v : Vec ℝ) (hv : WFV v) (hθ : ThetaRangeV v)
    (hτ : v.ty.tmp ≠ some .tau) :
    ∃ r p, operator evR K A "neg" v [] = .ok (.vec r) ∧ r.ty = v.ty ∧ denote v = some p ∧
      denote r = some (p.map (fun x => -x)) := by
  obtain ⟨r, p, h1, h2, -, h3, h4⟩ := c11m_scale K A v hv (-1) hθ (fun e => absurd e hτ)
  refine ⟨r, p, by rw [(c11m_neg evR K A v 0).1, hK]; exact h1, h2, h3, ?_⟩
  rw [h4]; congr 1; exact List.map_congr_left (fun x _ => by ring)

/-! ### 5. unit -/

theorem planar_unit_ret_eq' (k0 : Az) : planar_unit.ret k0 = Ret.vec [RP.az k0] := planar_unit_ret_eq k0
theorem spatial_unit_ret_eq (k0 : Az) (k1 : Lon) : spatial_unit.ret k0 k1 = Ret.vec [RP.az k0, RP.lon k1] := by
  cases k0 <;> cases k1 <;> rfl
theorem lorentz_unit_ret_eq (k0 : Az) (k1 : Lon) (k2 : Tmp) :
    lorentz_unit.ret k0 k1 k2 = Ret.vec [RP.az k0, RP.lon k1, RP.tmp k2] := by
  cases k0 <;> cases k1 <;> cases k2 <;> rfl

theorem unit_eval2 (K : Consts ℝ) (A : Arith ℝ) (be mom az) (a b : ℝ) :
    call evR K A "unit" (V2 be mom az a b) [] =
      .ok (.vec (V2 be mom az (planar_unit.eval az a b).1 (planar_unit.eval az a b).2)) := by
  show dispatch evR .planar_unit [] none [V2 be mom az a b] [V2 be mom az a b] = _
  rw [dispatch_single evR .planar_unit [] _ 1 rfl [.az az] [a, b] rfl _ _ rfl, planar_unit_ret_eq]
  rfl

theorem unit_eval3 (K : Consts ℝ) (A : Arith ℝ) (be mom az l) (a b c : ℝ) :
    call evR K A "unit" (V3 be mom az l a b c) [] =
      .ok (.vec (V3 be mom az l (spatial_unit.eval az l a b c).1 (spatial_unit.eval az l a b c).2.1
        (spatial_unit.eval az l a b c).2.2)) := by
  show dispatch evR .spatial_unit [] none [V3 be mom az l a b c] [V3 be mom az l a b c] = _
  rw [dispatch_single evR .spatial_unit [] _ 2 rfl [.az az, .lon l] [a, b, c] rfl _ _ rfl, spatial_unit_ret_eq]
  rfl

theorem unit_eval4 (K : Consts ℝ) (A : Arith ℝ) (be mom az l t) (a b c d : ℝ) :
    call evR K A "unit" (V4 be mom az l t a b c d) [] =
      .ok (.vec (V4 be mom az l t (lorentz_unit.eval az l t a b c d).1 (lorentz_unit.eval az l t a b c d).2.1
        (lorentz_unit.eval az l t a b c d).2.2.1 (lorentz_unit.eval az l t a b c d).2.2.2)) := by
  show dispatch evR .lorentz_unit [] none [V4 be mom az l t a b c d] [V4 be mom az l t a b c d] = _
  rw [dispatch_single evR .lorentz_unit [] _ 3 rfl [.az az, .lon l, .tmp t] [a, b, c, d] rfl _ _ rfl,
    lorentz_unit_ret_eq]
  rfl

/-- the norm of a component list: Euclidean for length 2 / 3, `√|t² − |p|²|` for length 4 -/
noncomputable def normL : List ℝ → ℝ
  | [x, y] => sqrt (x ^ 2 + y ^ 2)
  | [x, y, z] => sqrt (x ^ 2 + y ^ 2 + z ^ 2)
  | [x, y, z, t] => sqrt |t ^ 2 - (x ^ 2 + y ^ 2 + z ^ 2)|
  | _ => 0

/-- hypotheses of `refine_planar_unit` / `refine_spatial_unit` / `refine_lorentz_unit` on the stored coordinates:
2D `0 < ρ`; 3D representable storage and `0 < |p|²`; 4D `sin θ ≠ 0`, `0 ≤ τ`, not light-like -/
def UnitOK (v : Vec ℝ) : Prop :=
  match v.ty.lon, v.ty.tmp with
  | none, _ => 0 < rhoOf v.ty.az (c3 v).1 (c3 v).2.1
  | some l, none => Canon3 v.ty.az l (c3 v).1 (c3 v).2.1 (c3 v).2.2 ∧ 0 < mag2Of v.ty.az l (c3 v).1 (c3 v).2.1 (c3 v).2.2
  | some l, some t => SinOK l (c3 v).2.2 ∧ CanonTmp t (c4 v) ∧
      tOf v.ty.az l t (c3 v).1 (c3 v).2.1 (c3 v).2.2 (c4 v) ^ 2 - mag2Of v.ty.az l (c3 v).1 (c3 v).2.1 (c3 v).2.2 ≠ 0

theorem normL_unit : ∀ p : List ℝ, 0 < normL p → normL (p.map (fun x => 1 / normL p * x)) = 1
  | [x, y], h => by
    simp only [normL] at h ⊢
    simp only [List.map_cons, List.map_nil]
    have e := sq_sqrt (show 0 ≤ x ^ 2 + y ^ 2 by positivity)
    generalize sqrt (x ^ 2 + y ^ 2) = n at h e ⊢
    have : (1 / n * x) ^ 2 + (1 / n * y) ^ 2 = 1 := by
      have hn : n ≠ 0 := h.ne'
      field_simp; linarith
    rw [this, sqrt_one]
  | [x, y, z], h => by
    simp only [normL] at h ⊢
    simp only [List.map_cons, List.map_nil]
    have e := sq_sqrt (show 0 ≤ x ^ 2 + y ^ 2 + z ^ 2 by positivity)
    generalize sqrt (x ^ 2 + y ^ 2 + z ^ 2) = n at h e ⊢
    have : (1 / n * x) ^ 2 + (1 / n * y) ^ 2 + (1 / n * z) ^ 2 = 1 := by
      have hn : n ≠ 0 := h.ne'
      field_simp; linarith
    rw [this, sqrt_one]
  | [x, y, z, t], h => by
    simp only [normL] at h ⊢
    simp only [List.map_cons, List.map_nil]
    have e := sq_sqrt (abs_nonneg (t ^ 2 - (x ^ 2 + y ^ 2 + z ^ 2)))
    generalize sqrt |t ^ 2 - (x ^ 2 + y ^ 2 + z ^ 2)| = n at h e ⊢
    have hn : n ≠ 0 := h.ne'
    have : (1 / n * t) ^ 2 - ((1 / n * x) ^ 2 + (1 / n * y) ^ 2 + (1 / n * z) ^ 2)
        = (t ^ 2 - (x ^ 2 + y ^ 2 + z ^ 2)) / n ^ 2 := by field_simp
    rw [this, abs_div, abs_of_pos (by positivity : 0 < n ^ 2), ← e, div_self (by positivity), sqrt_one]
  | [], h => by simp [normL] at h
  | [_], h => by simp [normL] at h
  | _ :: _ :: _ :: _ :: _ :: _, h => by simp [normL] at h

/-- **unit in every storage (2 + 6 + 12)**: the type is unchanged, the result denotes the denotation divided by its
(positive) norm — hence parallel to it and of norm one -/
theorem c11m_unit (K : Consts ℝ) (A : Arith ℝ) (v : Vec ℝ) (hv : WFV v) (hu : UnitOK v) :
    ∃ r p u, call evR K A "unit" v [] = .ok (.vec r) ∧ r.ty = v.ty ∧ WFV r ∧ denote v = some p ∧ 0 < normL p ∧
      denote r = some u ∧ u = p.map (fun x => 1 / normL p * x) ∧ normL u = 1 := by
  rcases wfv_cases hv with ⟨be, mom, az, a, b, rfl⟩ | ⟨be, mom, az, l, a, b, c, rfl⟩ |
    ⟨be, mom, az, l, t, a, b, c, d, rfl⟩
  · have hr : 0 < rhoOf az a b := hu
    have h2 : Canon2 az a b := by
      revert hr; cases az <;> simp only [Canon2, rhoOf] <;> intro h <;> first | trivial | exact h.le
    have hn : normL (toL2 (cart2 az a b)) = rhoOf az a b := (rhoOf_eq_sqrt h2).symm
    have h := refine_planar_unit az a b hr
    rw [planar_unit_ret_eq] at h
    have hpos : 0 < normL (toL2 (cart2 az a b)) := hn ▸ hr
    have hu' : toL2 (xOf az a b / rhoOf az a b, yOf az a b / rhoOf az a b)
        = (toL2 (cart2 az a b)).map (fun x => 1 / normL (toL2 (cart2 az a b)) * x) := by
      rw [hn]
      simp only [toL2, cart2, List.map_cons, List.map_nil, List.cons.injEq, and_true]
      constructor <;> ring
    refine ⟨_, _, _, unit_eval2 K A be mom az a b, rfl, ⟨by simp, rfl⟩, denote_V2 .., hpos,
      denote2_of_interp _ _ _ _ _ _ h, hu', ?_⟩
    rw [hu']; exact normL_unit _ hpos
  · obtain ⟨hc, hm⟩ : Canon3 az l a b c ∧ 0 < mag2Of az l a b c := hu
    have hn : normL (toL3 (cart3 az l a b c)) = sqrt (mag2Of az l a b c) := rfl
    have h := refine_spatial_unit az l a b c hc hm
    rw [spatial_unit_ret_eq] at h
    have hpos : 0 < normL (toL3 (cart3 az l a b c)) := hn ▸ sqrt_pos.mpr hm
    refine ⟨_, _, _, unit_eval3 K A be mom az l a b c, rfl, ⟨by simp, rfl⟩, denote_V3 .., hpos,
      denote3_of_interp _ _ _ _ _ _ _ h, rfl, ?_⟩
    exact normL_unit _ hpos
  · obtain ⟨hs, hc, hm⟩ : SinOK l c ∧ CanonTmp t d ∧ tOf az l t a b c d ^ 2 - mag2Of az l a b c ≠ 0 := hu
    have hn : normL (toL4 (cart4 az l t a b c d)) = sqrt |tOf az l t a b c d ^ 2 - mag2Of az l a b c| := rfl
    have h := refine_lorentz_unit az l t a b c d hs hc hm
    rw [lorentz_unit_ret_eq] at h
    have hpos : 0 < normL (toL4 (cart4 az l t a b c d)) := hn ▸ sqrt_pos.mpr (abs_pos.mpr hm)
    refine ⟨_, _, _, unit_eval4 K A be mom az l t a b c d, rfl, ⟨by simp, rfl⟩, denote_V4 .., hpos,
      denote4_of_interp _ _ _ _ _ _ _ _ h, rfl, ?_⟩
    exact normL_unit _ hpos

/-! ### 6. dimension guard of the nine same-dimension methods -/

theorem call_bin9 {S B : Type} (ev : Ev S B) (K : Consts S) (A : Arith S) (self o : Vec S) :
    call ev K A "equal" self [.v o] = binary ev K .equal self o [] ∧
    call ev K A "not_equal" self [.v o] = binary ev K .not_equal self o [] ∧
    call ev K A "isclose" self [.v o] = binary ev K .isclose self o [] ∧
    call ev K A "is_parallel" self [.v o] = binary ev K .is_parallel self o [] ∧
    call ev K A "is_antiparallel" self [.v o] = binary ev K .is_antiparallel self o [] ∧
    call ev K A "is_perpendicular" self [.v o] = binary ev K .is_perpendicular self o [] :=
  ⟨rfl, rfl, rfl, rfl, rfl, rfl⟩

/-- **operands of different dimension are rejected with `TypeError`** by the nine same-dimension methods — for ALL
operands (no well-formedness needed) and any compute layer -/
theorem c11m_dim_guard {S B : Type} (ev : Ev S B) (K : Consts S) (A : Arith S) (a b : Vec S) (h : a.ty.dim ≠ b.ty.dim) :
    ∀ m ∈ ["add", "subtract", "dot", "equal", "not_equal", "isclose", "is_parallel", "is_antiparallel",
        "is_perpendicular"], call ev K A m a [.v b] = .error .typeError := by
  have h' : (b.ty.dim != a.ty.dim) = true := by simpa using fun e => h e.symm
  intro m hm
  simp only [List.mem_cons, List.not_mem_nil, or_false] at hm
  obtain ⟨c1, c2, c3, _⟩ := call_bin ev K A a b
  obtain ⟨c4, c5, c6, c7, c8, c9⟩ := call_bin9 ev K A a b
  rcases hm with rfl | rfl | rfl | rfl | rfl | rfl | rfl | rfl | rfl
  · rw [c1]; simp only [binary, h', ↓reduceIte]
  · rw [c2]; simp only [binary, h', ↓reduceIte]
  · rw [c3]; simp only [binary, h', ↓reduceIte]
  · rw [c4]; simp only [binary, h', ↓reduceIte]
  · rw [c5]; simp only [binary, h', ↓reduceIte]
  · rw [c6]; simp only [binary, h', ↓reduceIte]
  · rw [c7]; simp only [binary, h', ↓reduceIte]
  · rw [c8]; simp only [binary, h', ↓reduceIte]
  · rw [c9]; simp only [binary, h', ↓reduceIte]

/-- the same with an explicit tolerance argument -/
theorem c11m_dim_guard_tol {S B : Type} (ev : Ev S B) (K : Consts S) (A : Arith S) (a b : Vec S) (t : S)
    (h : a.ty.dim ≠ b.ty.dim) :
    ∀ m ∈ ["is_parallel", "is_antiparallel", "is_perpendicular"], call ev K A m a [.v b, .sc t] = .error .typeError := by
  have h' : (b.ty.dim != a.ty.dim) = true := by simpa using fun e => h e.symm
  intro m hm
  simp only [List.mem_cons, List.not_mem_nil, or_false] at hm
  rcases hm with rfl | rfl | rfl
  · show binary ev K .is_parallel a b [t] = _; simp only [binary, h', ↓reduceIte]
  · show binary ev K .is_antiparallel a b [t] = _; simp only [binary, h', ↓reduceIte]
  · show binary ev K .is_perpendicular a b [t] = _; simp only [binary, h', ↓reduceIte]

/-! ### 7. operators -/

/-- **`+`, `-`, `@`, `==`, `!=` are the methods `add`, `subtract`, `dot`, `equal`, `not_equal`** -/
theorem c11m_operators {S B : Type} (ev : Ev S B) (K : Consts S) (A : Arith S) (self o : Vec S) :
    operator ev K A "add" self [.v o] = call ev K A "add" self [.v o] ∧
    operator ev K A "sub" self [.v o] = call ev K A "subtract" self [.v o] ∧
    operator ev K A "matmul" self [.v o] = call ev K A "dot" self [.v o] ∧
    operator ev K A "eq" self [.v o] = call ev K A "equal" self [.v o] ∧
    operator ev K A "ne" self [.v o] = call ev K A "not_equal" self [.v o] := ⟨rfl, rfl, rfl, rfl, rfl⟩

/-! ### 8. commutativity at method level (the two calls use DIFFERENT keys `(k₁, k₂)` / `(k₂, k₁)`) -/

theorem zipWith_add_comm (p q : List ℝ) : List.zipWith (· + ·) p q = List.zipWith (· + ·) q p := by
  induction p generalizing q with
  | nil => cases q <;> rfl
  | cons x xs ih =>
    cases q with
    | nil => rfl
    | cons y ys => simp only [List.zipWith_cons_cons, add_comm x y, ih ys]

/-- **`a + b` and `b + a` denote the same vector, in every storage pairing**; the flavor is the same, and the result
backend is the same unless the backends tie (first wins) -/
theorem c11m_add_comm (K : Consts ℝ) (A : Arith ℝ) (a b : Vec ℝ) (ha : WFV a) (hb : WFV b) (hd : a.ty.dim = b.ty.dim)
    (hT1 : TanOKV a) (hT2 : TanOKV b) (hS1 : SinOKV a) (hS2 : SinOKV b) (hC1 : CanonTmpV a) (hC2 : CanonTmpV b)
    (hrep : RepAdd a b) (hrep' : RepAdd b a) :
    ∃ r₁ r₂, call evR K A "add" a [.v b] = .ok (.vec r₁) ∧ call evR K A "add" b [.v a] = .ok (.vec r₂) ∧
      denote r₁ = denote r₂ ∧ r₁.ty.mom = r₂.ty.mom ∧ r₁.ty.dim = r₂.ty.dim := by
  obtain ⟨r₁, p, q, e₁, -, d₁, m₁, -, -, hp, hq, h₁⟩ := c11m_add K A a b ha hb hd hT1 hT2 hS1 hS2 hC1 hC2 hrep
  obtain ⟨r₂, q', p', e₂, -, d₂, m₂, -, -, hq', hp', h₂⟩ := c11m_add K A b a hb ha hd.symm hT2 hT1 hS2 hS1 hC2 hC1 hrep'
  refine ⟨r₁, r₂, e₁, e₂, ?_, by rw [m₁, m₂, Bool.or_comm], by rw [d₁, d₂, hd]⟩
  rw [hp] at hp'; rw [hq] at hq'
  cases hp'; cases hq'
  rw [h₁, h₂, zipWith_add_comm]

theorem dotL_comm (p q : List ℝ) : dotL p q = dotL q p := by
  unfold dotL
  split
  · ring
  · ring
  · ring
  · rename_i h1 h2 h3
    split
    · exact (h1 _ _ _ _ rfl rfl).elim
    · exact (h2 _ _ _ _ _ _ rfl rfl).elim
    · exact (h3 _ _ _ _ _ _ _ _ rfl rfl).elim
    · rfl

/-- **`a @ b = b @ a` in every storage pairing** -/
theorem c11m_dot_comm (K : Consts ℝ) (A : Arith ℝ) (a b : Vec ℝ) (ha : WFV a) (hb : WFV b) (hd : a.ty.dim = b.ty.dim)
    (hT1 : TanOKV a) (hT2 : TanOKV b) (hS1 : SinOKV a) (hS2 : SinOKV b) (hC1 : CanonTmpV a) (hC2 : CanonTmpV b) :
    call evR K A "dot" a [.v b] = call evR K A "dot" b [.v a] := by
  obtain ⟨p, q, hp, hq, e₁⟩ := c11m_dot K A a b ha hb hd hT1 hT2 hS1 hS2 hC1 hC2
  obtain ⟨q', p', hq', hp', e₂⟩ := c11m_dot K A b a hb ha hd.symm hT2 hT1 hS2 hS1 hC2 hC1
  rw [hp] at hp'; rw [hq] at hq'
  cases hp'; cases hq'
  rw [e₁, e₂, dotL_comm]

/-- **coordinate independence of `add`** (C01 at method level, binary form): operands with the same denotations — in
whatever storages, flavors, backends — give sums with the same denotation -/
theorem c11m_add_indep (K : Consts ℝ) (A : Arith ℝ) (a₁ b₁ a₂ b₂ : Vec ℝ)
    (ha₁ : WFV a₁) (hb₁ : WFV b₁) (hd₁ : a₁.ty.dim = b₁.ty.dim) (ha₂ : WFV a₂) (hb₂ : WFV b₂) (hd₂ : a₂.ty.dim = b₂.ty.dim)
    (hTa₁ : TanOKV a₁) (hTb₁ : TanOKV b₁) (hSa₁ : SinOKV a₁) (hSb₁ : SinOKV b₁) (hCa₁ : CanonTmpV a₁) (hCb₁ : CanonTmpV b₁)
    (hTa₂ : TanOKV a₂) (hTb₂ : TanOKV b₂) (hSa₂ : SinOKV a₂) (hSb₂ : SinOKV b₂) (hCa₂ : CanonTmpV a₂) (hCb₂ : CanonTmpV b₂)
    (hrep₁ : RepAdd a₁ b₁) (hrep₂ : RepAdd a₂ b₂) (hab : denote a₁ = denote a₂) (hbb : denote b₁ = denote b₂) :
    ∃ r₁ r₂, call evR K A "add" a₁ [.v b₁] = .ok (.vec r₁) ∧ call evR K A "add" a₂ [.v b₂] = .ok (.vec r₂) ∧
      denote r₁ = denote r₂ := by
  obtain ⟨r₁, p, q, e₁, -, -, -, -, -, hp, hq, h₁⟩ := c11m_add K A a₁ b₁ ha₁ hb₁ hd₁ hTa₁ hTb₁ hSa₁ hSb₁ hCa₁ hCb₁ hrep₁
  obtain ⟨r₂, p', q', e₂, -, -, -, -, -, hp', hq', h₂⟩ := c11m_add K A a₂ b₂ ha₂ hb₂ hd₂ hTa₂ hTb₂ hSa₂ hSb₂ hCa₂ hCb₂ hrep₂
  rw [hab, hp'] at hp; rw [hbb, hq'] at hq
  cases hp; cases hq
  exact ⟨r₁, r₂, e₁, e₂, by rw [h₁, h₂]⟩

/-! ### regular forms (Props/Regular.lean): the compute call behind each method applies no partial primitive
(`/`, `sqrt`, `tan`, `log`, …) at a singular point — the denotation theorems above do not hold "by accident" through
Lean's totalised arithmetic.  Beyond the hypotheses of the denotation theorems this needs `sin θ ≠ 0` for θ-stored 3D
operands too (the code computes `ρ / tan θ`), and `η ≠ 0` for `dot` on the (ρ,φ,η) × (ρ,φ,θ) pairings. -/

/-- `sin θ ≠ 0` for θ storage, any dimension -/
def SinOKAll (v : Vec ℝ) : Prop := SinOK (lonOf v) (c3 v).2.2
/-- `η ≠ 0` of the η-stored operand of a (ρ,φ,η) × (ρ,φ,θ) / (ρ,φ,θ) × (ρ,φ,η) pairing (`tan(2 arctan e^{-η})`) -/
def DotEtaV (a b : Vec ℝ) : Prop := DotEtaOK a.ty.az (lonOf a) b.ty.az (lonOf b) (c3 a).2.2 (c3 b).2.2

/-- the regularity predicate of the compute function a same-dimension binary method calls, by dimension of `self` -/
def BinDom (d2 : Az → Az → ℝ → ℝ → ℝ → ℝ → Prop)
    (d3 : Az → Lon → Az → Lon → ℝ → ℝ → ℝ → ℝ → ℝ → ℝ → Prop)
    (d4 : Az → Lon → Tmp → Az → Lon → Tmp → ℝ → ℝ → ℝ → ℝ → ℝ → ℝ → ℝ → ℝ → Prop) (a b : Vec ℝ) : Prop :=
  match a.ty.lon, a.ty.tmp with
  | none, _ => d2 a.ty.az b.ty.az (c3 a).1 (c3 a).2.1 (c3 b).1 (c3 b).2.1
  | some _, none => d3 a.ty.az (lonOf a) b.ty.az (lonOf b) (c3 a).1 (c3 a).2.1 (c3 a).2.2 (c3 b).1 (c3 b).2.1 (c3 b).2.2
  | some _, some _ => d4 a.ty.az (lonOf a) (tmpOf a) b.ty.az (lonOf b) (tmpOf b) (c3 a).1 (c3 a).2.1 (c3 a).2.2 (c4 a)
      (c3 b).1 (c3 b).2.1 (c3 b).2.2 (c4 b)

/-- the same for the unary methods `scale` (`pre` = the factor) and `unit` -/
def UnDom (d2 : Az → ℝ → ℝ → Prop) (d3 : Az → Lon → ℝ → ℝ → ℝ → Prop) (d4 : Az → Lon → Tmp → ℝ → ℝ → ℝ → ℝ → Prop)
    (v : Vec ℝ) : Prop :=
  match v.ty.lon, v.ty.tmp with
  | none, _ => d2 v.ty.az (c3 v).1 (c3 v).2.1
  | some _, none => d3 v.ty.az (lonOf v) (c3 v).1 (c3 v).2.1 (c3 v).2.2
  | some _, some _ => d4 v.ty.az (lonOf v) (tmpOf v) (c3 v).1 (c3 v).2.1 (c3 v).2.2 (c4 v)

theorem dotEta_lb {k0 k1 k2 k3} {c f : ℝ} (h : DotEtaOK k0 k1 k2 k3 c f) : LB.DotEtaOK k0 k1 k2 k3 c f := by
  cases k0 <;> cases k1 <;> cases k2 <;> cases k3 <;> exact h

theorem c11m_add_regular (a b : Vec ℝ) (ha : WFV a) (hb : WFV b) (hd : a.ty.dim = b.ty.dim)
    (hT1 : TanOKV a) (hT2 : TanOKV b) (hS1 : SinOKAll a) (hS2 : SinOKAll b) (hC1 : CanonTmpV a) (hC2 : CanonTmpV b)
    (hrep : RepAdd a b) : BinDom planar_add.evalDom spatial_add.evalDom lorentz_add.evalDom a b := by
  rcases wfv_cases ha with ⟨be1, mom1, az1, a0, a1, rfl⟩ | ⟨be1, mom1, az1, l1, a0, a1, a2, rfl⟩ |
    ⟨be1, mom1, az1, l1, t1, a0, a1, a2, a3, rfl⟩ <;>
  rcases wfv_cases hb with ⟨be2, mom2, az2, b0, b1, rfl⟩ | ⟨be2, mom2, az2, l2, b0, b1, b2, rfl⟩ |
    ⟨be2, mom2, az2, l2, t2, b0, b1, b2, b3, rfl⟩ <;> try (simp [VT.dim] at hd; done)
  · exact (regular_planar_add az1 az2 a0 a1 b0 b1).1
  · exact (regular_spatial_add az1 l1 az2 l2 a0 a1 a2 b0 b1 b2 hT1 hT2 (hrep rfl) hS1 hS2).1
  · exact (regular_lorentz_add az1 l1 t1 az2 l2 t2 a0 a1 a2 a3 b0 b1 b2 b3 hT1 hT2 hS1 hS2 hC1 hC2 (hrep rfl)).1

theorem c11m_subtract_regular (a b : Vec ℝ) (ha : WFV a) (hb : WFV b) (hd : a.ty.dim = b.ty.dim)
    (hT1 : TanOKV a) (hT2 : TanOKV b) (hS1 : SinOKAll a) (hS2 : SinOKAll b) (hC1 : CanonTmpV a) (hC2 : CanonTmpV b)
    (hrep : RepSub a b) (hcaus : SubCausal a b) :
    BinDom planar_subtract.evalDom spatial_subtract.evalDom lorentz_subtract.evalDom a b := by
  rcases wfv_cases ha with ⟨be1, mom1, az1, a0, a1, rfl⟩ | ⟨be1, mom1, az1, l1, a0, a1, a2, rfl⟩ |
    ⟨be1, mom1, az1, l1, t1, a0, a1, a2, a3, rfl⟩ <;>
  rcases wfv_cases hb with ⟨be2, mom2, az2, b0, b1, rfl⟩ | ⟨be2, mom2, az2, l2, b0, b1, b2, rfl⟩ |
    ⟨be2, mom2, az2, l2, t2, b0, b1, b2, b3, rfl⟩ <;> try (simp [VT.dim] at hd; done)
  · exact (regular_planar_subtract az1 az2 a0 a1 b0 b1).1
  · exact (regular_spatial_subtract az1 l1 az2 l2 a0 a1 a2 b0 b1 b2 hT1 hT2 (hrep rfl) hS1 hS2).1
  · exact (regular_lorentz_subtract az1 l1 t1 az2 l2 t2 a0 a1 a2 a3 b0 b1 b2 b3 hT1 hT2 hS1 hS2 hC1 hC2 (hrep rfl)
      (fun e1 e2 => hcaus (congrArg some e1) (congrArg some e2))).1

theorem c11m_dot_regular (a b : Vec ℝ) (ha : WFV a) (hb : WFV b) (hd : a.ty.dim = b.ty.dim)
    (hT1 : TanOKV a) (hT2 : TanOKV b) (hS1 : SinOKAll a) (hS2 : SinOKAll b) (hC1 : CanonTmpV a) (hC2 : CanonTmpV b)
    (he : DotEtaV a b) : BinDom planar_dot.evalDom spatial_dot.evalDom lorentz_dot.evalDom a b := by
  rcases wfv_cases ha with ⟨be1, mom1, az1, a0, a1, rfl⟩ | ⟨be1, mom1, az1, l1, a0, a1, a2, rfl⟩ |
    ⟨be1, mom1, az1, l1, t1, a0, a1, a2, a3, rfl⟩ <;>
  rcases wfv_cases hb with ⟨be2, mom2, az2, b0, b1, rfl⟩ | ⟨be2, mom2, az2, l2, b0, b1, b2, rfl⟩ |
    ⟨be2, mom2, az2, l2, t2, b0, b1, b2, b3, rfl⟩ <;> try (simp [VT.dim] at hd; done)
  · exact (regular_planar_dot az1 az2 a0 a1 b0 b1).1
  · exact (regular_spatial_dot az1 l1 az2 l2 a0 a1 a2 b0 b1 b2 hT1 hT2 hS1 hS2 he).1
  · exact (regular_lorentz_dot az1 l1 t1 az2 l2 t2 a0 a1 a2 a3 b0 b1 b2 b3 hT1 hT2 hS1 hS2 hC1 hC2 (dotEta_lb he)).1

theorem c11m_cross_regular (a b : Vec ℝ) (ha : WFV a) (hb : WFV b) (hda : a.ty.dim = 3) (hdb : b.ty.dim = 3)
    (hT1 : TanOKV a) (hT2 : TanOKV b) (hS1 : SinOKAll a) (hS2 : SinOKAll b) :
    spatial_cross.evalDom a.ty.az (lonOf a) b.ty.az (lonOf b) (c3 a).1 (c3 a).2.1 (c3 a).2.2 (c3 b).1 (c3 b).2.1
      (c3 b).2.2 := by
  rcases wfv_cases ha with ⟨be1, mom1, az1, a0, a1, rfl⟩ | ⟨be1, mom1, az1, l1, a0, a1, a2, rfl⟩ |
    ⟨be1, mom1, az1, l1, t1, a0, a1, a2, a3, rfl⟩ <;>
  rcases wfv_cases hb with ⟨be2, mom2, az2, b0, b1, rfl⟩ | ⟨be2, mom2, az2, l2, b0, b1, b2, rfl⟩ |
    ⟨be2, mom2, az2, l2, t2, b0, b1, b2, b3, rfl⟩ <;> try (simp [VT.dim] at hda hdb; done)
  exact (regular_spatial_cross az1 l1 az2 l2 a0 a1 a2 b0 b1 b2 hT1 hT2 hS1 hS2).1

theorem c11m_scale_regular (v : Vec ℝ) (hv : WFV v) (f : ℝ) (hθ : ThetaRangeV v) (hf : v.ty.tmp = some .tau → 0 ≤ f) :
    UnDom (planar_scale.evalDom · f) (spatial_scale.evalDom · · f) (lorentz_scale.evalDom · · · f) v := by
  rcases wfv_cases hv with ⟨be, mom, az, a, b, rfl⟩ | ⟨be, mom, az, l, a, b, c, rfl⟩ |
    ⟨be, mom, az, l, t, a, b, c, d, rfl⟩
  · exact (regular_planar_scale az f a b).1
  · exact (regular_spatial_scale az l f a b c hθ).1
  · exact (regular_lorentz_scale az l t f a b c d hθ (fun e => hf (congrArg some e))).1

theorem c11m_unit_regular (v : Vec ℝ) (hv : WFV v) (hu : UnitOK v) :
    UnDom planar_unit.evalDom spatial_unit.evalDom lorentz_unit.evalDom v := by
  rcases wfv_cases hv with ⟨be, mom, az, a, b, rfl⟩ | ⟨be, mom, az, l, a, b, c, rfl⟩ |
    ⟨be, mom, az, l, t, a, b, c, d, rfl⟩
  · exact (regular_planar_unit az a b hu).1
  · exact (regular_spatial_unit az l a b c hu.1 hu.2).1
  · exact (regular_lorentz_unit az l t a b c d hu.1 hu.2.1 hu.2.2).1

/-! ### the hypothesis `τ storage → 0 ≤ f` of `c11m_scale` is necessary -/

/-- unary minus of a τ-stored 4D vector with `t > 0`: the stored τ is negated, but a τ-stored vector always denotes
`t ≥ 0` (`Spec.tOf`) — the result does NOT denote the negated time component (known finding of C01, `scale` with `f < 0`
on τ storage; under the signed-τ reading of `Spec/SignedTau.lean` the sign of τ carries the sign of `t`) -/
theorem c11m_neg_tau_discrepancy (K : Consts ℝ) (A : Arith ℝ) (be mom az l) (a b c d : ℝ)
    (ht : 0 < tOf az l .tau a b c d) :
    ∃ r x y z t', operator evR K A "neg" (V4 be mom az l .tau a b c d) [] = .ok (.vec r) ∧
      denote r = some [x, y, z, t'] ∧ t' ≠ -tOf az l .tau a b c d := by
  refine ⟨_, _, _, _, _, by rw [(c11m_neg evR K A _ 0).1, scale_eval4], denote_V4 .., ?_⟩
  have h0 : 0 ≤ (cart4 az l Tmp.tau (lorentz_scale.eval az l Tmp.tau K.negOne a b c d).1
      (lorentz_scale.eval az l Tmp.tau K.negOne a b c d).2.1 (lorentz_scale.eval az l Tmp.tau K.negOne a b c d).2.2.1
      (lorentz_scale.eval az l Tmp.tau K.negOne a b c d).2.2.2).2.2.2 := by
    show 0 ≤ tOf az l .tau _ _ _ _
    rw [tOf_tau_eq]; exact sqrt_nonneg _
  intro e
  rw [e] at h0
  linarith

/-! ### non-vacuity of the hypotheses -/

/-- a (ρ, φ, η) momentum object and an (x, y, θ) numpy vector satisfy every hypothesis of `add`, `subtract`, `dot`,
`cross`, `scale` (in both operand orders) -/
example : let a : Vec ℝ := V3 .obj true .rhophi .eta 2 1 (1 / 2)
    let b : Vec ℝ := V3 .np false .xy .theta 1 2 1
    WFV a ∧ WFV b ∧ a.ty.dim = b.ty.dim ∧ TanOKV a ∧ TanOKV b ∧ SinOKV a ∧ SinOKV b ∧ CanonTmpV a ∧ CanonTmpV b ∧
      RepAdd a b ∧ RepAdd b a ∧ RepSub a b ∧ RepSub b a ∧ SubCausal a b ∧ ThetaRangeV a ∧ ThetaRangeV b := by
  intro a b
  exact ⟨⟨by simp [a], rfl⟩, ⟨by simp [b], rfl⟩, rfl, trivial, ne_of_gt cos_one_pos, (fun h => by cases h),
    (fun h => by cases h), trivial, trivial, fun _ => Or.inl rfl, fun _ => Or.inl rfl, fun _ => Or.inl rfl,
    fun _ => Or.inl rfl, (fun h => by cases h), trivial,
    show (0 : ℝ) ≤ 1 ∧ (1 : ℝ) ≤ π from ⟨by norm_num, by linarith [two_le_pi]⟩⟩

/-- the same pair satisfies the additional hypotheses of the regular forms -/
example : let a : Vec ℝ := V3 .obj true .rhophi .eta 2 1 (1 / 2)
    let b : Vec ℝ := V3 .np false .xy .theta 1 2 1
    SinOKAll a ∧ SinOKAll b ∧ DotEtaV a b ∧ DotEtaV b a := by
  intro a b
  exact ⟨trivial, (sin_pos_of_pos_of_lt_pi one_pos (by linarith [two_le_pi])).ne', trivial, trivial⟩

/-- two (ρ, φ, θ, τ)-stored 4D vectors (the result is declared in (ρ, φ, θ, τ) again): the hypotheses of `add` / `dot`,
including representability of the sum off the z axis -/
example : let a : Vec ℝ := V4 .obj true .rhophi .theta .tau 2 1 1 3
    let b : Vec ℝ := V4 .obj true .rhophi .theta .tau 1 (1 / 2) 1 1
    WFV a ∧ WFV b ∧ a.ty.dim = b.ty.dim ∧ TanOKV a ∧ TanOKV b ∧ SinOKV a ∧ SinOKV b ∧ CanonTmpV a ∧ CanonTmpV b ∧
      RepAdd a b ∧ ThetaRangeV a ∧ (a.ty.tmp = some .tau → (0 : ℝ) ≤ 2) := by
  intro a b
  have hpi : (1 : ℝ) < π := by linarith [two_le_pi]
  have hs1 : 0 < sin 1 := sin_pos_of_pos_of_lt_pi one_pos hpi
  have hs2 : 0 < sin (1 / 2) := sin_pos_of_pos_of_lt_pi (by norm_num) (by linarith)
  refine ⟨⟨by simp [a], rfl⟩, ⟨by simp [b], rfl⟩, rfl, ne_of_gt cos_one_pos, ne_of_gt cos_one_pos, fun _ => hs1.ne',
    fun _ => hs1.ne', show (0 : ℝ) ≤ 3 by norm_num, show (0 : ℝ) ≤ 1 by norm_num, fun _ => Or.inr ?_,
    show (0 : ℝ) ≤ 1 ∧ (1 : ℝ) ≤ π from ⟨by norm_num, hpi.le⟩, fun _ => by norm_num⟩
  show 0 < (2 * cos 1 + 1 * cos (1 / 2)) ^ 2 + (2 * sin 1 + 1 * sin (1 / 2)) ^ 2
  have : 0 < 2 * sin 1 + 1 * sin (1 / 2) := by linarith
  positivity

/-- a t-stored minus a τ-stored 4D vector: `SubCausal` is only a condition for τ,τ pairs -/
example : SubCausal (V4 .obj false .xy .z .t 1 2 3 4) (V4 .obj false .rhophi .eta .tau 1 2 3 4) := fun h => by cases h

/-- `unit`: a polar 2D vector with `ρ = 2` -/
example : UnitOK (V2 .obj false .rhophi 2 1) := show (0 : ℝ) < 2 by norm_num

end C11M
end VR
