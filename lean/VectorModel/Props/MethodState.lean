/-
Property C15 at the level of VALUES over ℝ (prefix `c15m_`): coordinate assignment and in-place operators of object
vectors — the glue state machine (`Glue/Methods.lean`: `setC`, `replaceData`, `stepE`, `step`, `run`, `runFinal`)
instantiated with the generated REAL compute layer `evR`.

`Props/C15.lean` proves the STRUCTURAL half for every compute layer (type / class / coordinate system kept, exact
read-back, a raising step changes nothing).  This file proves the VALUE half: what the vector DENOTES (Cartesian
components, `C01M.denote`) after an assignment / an in-place operator / a whole history.

1. assignment            `c15m_setC_denote` (all nine names: success, type, exact read-back, partner value, other groups)
                         `c15m_setC_az_denote`, `c15m_setC_phi_denote`, `c15m_setC_lon_denote`, `c15m_setC_tmp_denote`
                         `c15m_setC_noGroup`
2. `_replace_data`       `c15m_replaceData_eq_toSystem` (all `S B ev`), `c15m_replaceData_denote`,
                         `c15m_replaceData_same_system`
   in-place operators    `c15m_iop_add`, `c15m_iop_sub` (every storage pairing; hypothesis `FwdOK` on the functional result)
                         `c15m_iop_add_same`, `c15m_iop_sub_same` (operand in the object's system: no extra hypothesis)
                         `c15m_iop_add_mixed`, `c15m_iop_sub_mixed` (different spatial systems: hypothesis `CartOK` on the
                         Cartesian sum / difference only), `c15m_iop_mul`, `c15m_iop_div`
                         `c15m_axis_unrepresentable`, `c15m_tau_unrepresentable`, `c15m_iop_tau_causal`,
                         `c15m_iop_sub_spacelike_counterexample` (the hypotheses are necessary: in-place ≠ functional)
3. functional equivalence `c15m_iop_functional` (all `S B ev`), `c15m_iop_functional_denote`
4. histories             `c15m_step_denote`, `c15m_run_denote` (conditional on the invariant `GoodRun`),
                         `goodRun_iff_prefix`, `goodRun_scalars`, `c15m_goodRun_of_denotations`,
                         `c15m_run_denote_of_denotations` (invariant PROVED for objects not stored with θ)
5. raising steps         `c15m_raise_unchanged`, `c15m_raising_steps`, `c15m_run_raise_skip`
-/
import VectorModel.Props.C15
import VectorModel.Props.C01Method
import VectorModel.Props.MethodBin
import VectorModel.Props.MethodConv

set_option linter.unusedVariables false
set_option linter.constructorNameAsVariable false
set_option maxRecDepth 8192

namespace VR
namespace C15M
open VK VG Spec Real C01M C11M C04M

/-! ### 0. reading the azimuthal accessors of a well-formed vector over `evR` -/

/-- the four azimuthal accessors on a well-formed vector of any dimension and storage -/
theorem getS_az (v : Vec ℝ) (hv : C01M.WFV v) :
    getS evR .x v = .ok (planar_x.eval v.ty.az (c3 v).1 (c3 v).2.1) ∧
    getS evR .y v = .ok (planar_y.eval v.ty.az (c3 v).1 (c3 v).2.1) ∧
    getS evR .rho v = .ok (planar_rho.eval v.ty.az (c3 v).1 (c3 v).2.1) ∧
    getS evR .phi v = .ok (planar_phi.eval v.ty.az (c3 v).1 (c3 v).2.1) := by
  rcases wfv_cases hv with ⟨be, mom, az, a, b, rfl⟩ | ⟨be, mom, az, l, a, b, c, rfl⟩ |
    ⟨be, mom, az, l, t, a, b, c, d, rfl⟩
  all_goals cases az <;> exact ⟨rfl, rfl, rfl, rfl⟩

/-- the partner value stored by an azimuthal assignment, and the assigned pair -/
noncomputable def azPair (c : CName) (a : ℝ) (az : Az) (p q : ℝ) : ℝ × ℝ :=
  match c with
  | .x => (a, planar_y.eval az p q)
  | .y => (planar_x.eval az p q, a)
  | .rho => (a, planar_phi.eval az p q)
  | .phi => (planar_rho.eval az p q, a)
  | _ => (p, q)

/-- **evaluation of an azimuthal assignment**: the group is re-stored in the system of the assigned name, the partner is
the value its accessor read BEFORE, the other groups' stored coordinates are kept verbatim -/
theorem setC_az_eval (v : Vec ℝ) (hv : C01M.WFV v) (c : CName) (hc : c.grp = .az) (a : ℝ) :
    setC evR c a v = .ok ⟨c.newTy v.ty,
      (azPair c a v.ty.az (c3 v).1 (c3 v).2.1).1 :: (azPair c a v.ty.az (c3 v).1 (c3 v).2.1).2 ::
        (v.lonEl ++ v.tmpEl)⟩ := by
  obtain ⟨h1, h2, h3, h4⟩ := getS_az v hv
  cases c <;> simp [CName.grp] at hc
  · simp only [setC, h2]; rfl
  · simp only [setC, h1]; rfl
  · simp only [setC, h4]; rfl
  · simp only [setC, h3]; rfl

/-! ### 1. coordinate assignment: existence, read-back, what the vector denotes afterwards -/

/-- an assignment to a coordinate name never raises on a well-formed vector (real compute layer) -/
theorem setC_ok (v : Vec ℝ) (hv : C01M.WFV v) (c : CName) (a : ℝ) : ∃ v', setC evR c a v = .ok v' := by
  cases hc : c.grp with
  | az => exact ⟨_, setC_az_eval v hv c hc a⟩
  | lon => cases c <;> simp [CName.grp] at hc <;> (simp only [setC]; split <;> exact ⟨_, rfl⟩)
  | tmp => cases c <;> simp [CName.grp] at hc <;> (simp only [setC]; split <;> exact ⟨_, rfl⟩)

/-- **`v.<c> = a` for each of the nine coordinate names the class has, every dimension and storage** (structural part
and read-back, `Props/C15` instantiated with `c04m_idLaws`): the assignment succeeds; the result is well-formed, stored
in the documented system; the coordinate just assigned reads back EXACTLY; the partner coordinate of an azimuthal name
reads the same VALUE as before the assignment (no hypothesis: the partner is read through its accessor once, stored, and
read back through the identity accessor); the stored coordinates of the other groups are verbatim the old ones -/
theorem c15m_setC_denote (v : Vec ℝ) (hv : C01M.WFV v) (c : CName) (hg : c.hasGroup v.ty) (a : ℝ) :
    ∃ v', setC evR c a v = .ok v' ∧ C01M.WFV v' ∧ v'.ty = c.newTy v.ty ∧
      getS evR c.acc v' = .ok a ∧
      (∀ p, c.partner = some p → getS evR p.acc v' = getS evR p.acc v) ∧
      (c.grp ≠ .az → v'.azEl = v.azEl) ∧ (c.grp ≠ .lon → v'.lonEl = v.lonEl) ∧ (c.grp ≠ .tmp → v'.tmpEl = v.tmpEl) ∧
      (∀ n ∈ coordNames v.ty, n.grp ≠ c.grp → getS evR n.acc v' = getS evR n.acc v) := by
  obtain ⟨v', h⟩ := setC_ok v hv c a
  have hv' : VG.WFV v := hv
  obtain ⟨hty, -, -, h1, h2, h3⟩ := c15_setC_spec hv' hg h
  refine ⟨v', h, (c15_setC_inv hv' h).2.2.2, hty, c15_readback c04m_idLaws hv' hg h, ?_, h1, h2, h3, ?_⟩
  · intro p hp
    obtain ⟨b, hb1, -, hb2⟩ := c15_readback_partner c04m_idLaws hv' h hp
    rw [hb1, hb2]
  · intro n hn hgrp
    exact c15_readback_other c04m_idLaws hv' hg h hn hgrp

/-- the assigned group of a coordinate name a class does not have: the assignment is a plain attribute, no effect -/
theorem c15m_setC_noGroup (v : Vec ℝ) (hv : C01M.WFV v) (c : CName) (hg : ¬ c.hasGroup v.ty) (a : ℝ) :
    setC evR c a v = .ok v := c15_setC_noGroup (show VG.WFV v from hv) hg

theorem zOf_congr_rho {az az' : Az} {p q a b : ℝ} (h : rhoOf az' p q = rhoOf az a b) (l : Lon) (c : ℝ) :
    zOf az' l p q c = zOf az l a b c := by
  cases l <;> simp only [zOf, h]

theorem tOf_congr {az az' : Az} {p q a b : ℝ} (h : rhoOf az' p q = rhoOf az a b) (l : Lon) (t : Tmp) (c d : ℝ) :
    tOf az' l t p q c d = tOf az l t a b c d := by
  cases t
  · rfl
  · have hz := zOf_congr_rho h l c
    have hxy : xOf az' p q ^ 2 + yOf az' p q ^ 2 = xOf az a b ^ 2 + yOf az a b ^ 2 := by
      rw [Spec.sq_xOf_add_sq_yOf, Spec.sq_xOf_add_sq_yOf, h]
    simp only [tOf, mag2Of, hz, hxy]

/-- re-storing the azimuthal group of a well-formed vector as `(p', q')` in the system `az'`, the other groups' stored
coordinates verbatim: the planar part is what `(p', q')` denotes; the rest (`z`, `t`) is unchanged when it is stored
Cartesian, and in EVERY storage when the transverse length is unchanged -/
theorem restore_az_denote (v : Vec ℝ) (hv : C01M.WFV v) (az' : Az) (p' q' x y : ℝ) (rest : List ℝ)
    (h : denote v = some (x :: y :: rest)) :
    ∃ rest', denote ⟨{ v.ty with az := az' }, p' :: q' :: (v.lonEl ++ v.tmpEl)⟩ =
        some (xOf az' p' q' :: yOf az' p' q' :: rest') ∧ rest'.length = rest.length ∧
      (v.ty.lon ≠ some .theta → v.ty.lon ≠ some .eta → v.ty.tmp ≠ some .tau → rest' = rest) ∧
      (rhoOf az' p' q' = rhoOf v.ty.az (c3 v).1 (c3 v).2.1 → rest' = rest) := by
  rcases wfv_cases hv with ⟨be, mom, az, p, q, rfl⟩ | ⟨be, mom, az, l, p, q, r, rfl⟩ |
    ⟨be, mom, az, l, t, p, q, r, s, rfl⟩
  all_goals
    simp only [denote, Option.some.injEq, List.cons.injEq] at h
    obtain ⟨hx, hy, hr⟩ := h
    subst hr
  · exact ⟨[], rfl, rfl, fun _ _ _ => rfl, fun _ => rfl⟩
  · refine ⟨[zOf az' l p' q' r], rfl, rfl, ?_, ?_⟩
    · intro h1 h2 _
      cases l <;> simp at h1 h2
      rfl
    · intro hρ
      rw [zOf_congr_rho (az := az) (a := p) (b := q) hρ l r]
  · refine ⟨[zOf az' l p' q' r, tOf az' l t p' q' r s], rfl, rfl, ?_, ?_⟩
    · intro h1 h2 h3
      cases l <;> simp at h1 h2
      cases t <;> simp at h3
      rfl
    · intro hρ
      rw [zOf_congr_rho (az := az) (a := p) (b := q) hρ l r, tOf_congr (az := az) (a := p) (b := q) hρ l t r s]

/-- **azimuthal assignment (`x`, `y`, `rho`, `phi`), every dimension and storage — what the vector denotes**:
`x`/`y` replace that Cartesian component and keep the other; `rho` keeps the azimuth the accessor `phi` read, `phi`
keeps the transverse length the accessor `rho` read.  The STORED longitudinal / temporal coordinates are kept (that is
the documented behaviour), hence the Cartesian `z`, `t` they denote are unchanged when they are stored as `z` / `t`
(for θ/η/τ storage they follow the new `ρ`: see the example after `c15m_setC_phi_denote`) -/
theorem c15m_setC_az_denote (v : Vec ℝ) (hv : C01M.WFV v) (c : CName) (hc : c.grp = .az) (a x y : ℝ) (rest : List ℝ)
    (h : denote v = some (x :: y :: rest)) :
    ∃ v' x' y' rest', setC evR c a v = .ok v' ∧ denote v' = some (x' :: y' :: rest') ∧ rest'.length = rest.length ∧
      (c = .x → x' = a ∧ y' = y) ∧ (c = .y → x' = x ∧ y' = a) ∧
      (c = .rho → ∃ φ, getS evR .phi v = .ok φ ∧ x' = a * cos φ ∧ y' = a * sin φ) ∧
      (c = .phi → ∃ ρ, getS evR .rho v = .ok ρ ∧ x' = ρ * cos a ∧ y' = ρ * sin a) ∧
      v'.lonEl = v.lonEl ∧ v'.tmpEl = v.tmpEl ∧
      (v.ty.lon ≠ some .theta → v.ty.lon ≠ some .eta → v.ty.tmp ≠ some .tau → rest' = rest) := by
  obtain ⟨g1, g2, g3, g4⟩ := getS_az v hv
  have he := setC_az_eval v hv c hc a
  obtain ⟨hx, hy⟩ := denote_planar hv h
  obtain ⟨w, hw, -, -, -, -, -, hl, ht, -⟩ := c15m_setC_denote v hv c (by simp [CName.hasGroup, hc]) a
  rw [he] at hw
  cases hw
  cases c <;> simp [CName.grp] at hc
  · obtain ⟨rest', h1, h2, h3, -⟩ := restore_az_denote v hv .xy a (planar_y.eval v.ty.az (c3 v).1 (c3 v).2.1) x y rest h
    exact ⟨_, _, _, rest', he, h1, h2, fun _ => ⟨rfl, by show planar_y.eval _ _ _ = y; rw [refine_planar_y, hy]⟩, (fun h => by cases h),
      (fun h => by cases h), (fun h => by cases h), hl (by simp [CName.grp]), ht (by simp [CName.grp]), h3⟩
  · obtain ⟨rest', h1, h2, h3, -⟩ := restore_az_denote v hv .xy (planar_x.eval v.ty.az (c3 v).1 (c3 v).2.1) a x y rest h
    exact ⟨_, _, _, rest', he, h1, h2, (fun h => by cases h), fun _ => ⟨by show planar_x.eval _ _ _ = x; rw [refine_planar_x, hx], rfl⟩,
      (fun h => by cases h), (fun h => by cases h), hl (by simp [CName.grp]), ht (by simp [CName.grp]), h3⟩
  · obtain ⟨rest', h1, h2, h3, -⟩ :=
      restore_az_denote v hv .rhophi a (planar_phi.eval v.ty.az (c3 v).1 (c3 v).2.1) x y rest h
    exact ⟨_, _, _, rest', he, h1, h2, (fun h => by cases h), (fun h => by cases h), fun _ => ⟨_, g4, rfl, rfl⟩,
      (fun h => by cases h), hl (by simp [CName.grp]), ht (by simp [CName.grp]), h3⟩
  · obtain ⟨rest', h1, h2, h3, -⟩ :=
      restore_az_denote v hv .rhophi (planar_rho.eval v.ty.az (c3 v).1 (c3 v).2.1) a x y rest h
    exact ⟨_, _, _, rest', he, h1, h2, (fun h => by cases h), (fun h => by cases h), (fun h => by cases h),
      fun _ => ⟨_, g3, rfl, rfl⟩, hl (by simp [CName.grp]), ht (by simp [CName.grp]), h3⟩

/-- **`v.phi = a` in every dimension and storage**: the vector afterwards denotes `(ρ cos a, ρ sin a, z, t)` with the
SAME `z` and `t` — also for θ/η/τ storage, because the transverse length `ρ` (the value the accessor `rho` read) is kept.
No hypothesis on the stored coordinates. -/
theorem c15m_setC_phi_denote (v : Vec ℝ) (hv : C01M.WFV v) (a x y : ℝ) (rest : List ℝ)
    (h : denote v = some (x :: y :: rest)) :
    ∃ v' ρ, setC evR .phi a v = .ok v' ∧ getS evR .rho v = .ok ρ ∧ ρ ^ 2 = x ^ 2 + y ^ 2 ∧
      denote v' = some (ρ * cos a :: ρ * sin a :: rest) := by
  obtain ⟨g1, g2, g3, g4⟩ := getS_az v hv
  have he := setC_az_eval v hv .phi rfl a
  obtain ⟨hx, hy⟩ := denote_planar hv h
  obtain ⟨rest', h1, h2, -, h4⟩ :=
    restore_az_denote v hv .rhophi (planar_rho.eval v.ty.az (c3 v).1 (c3 v).2.1) a x y rest h
  have hρ : rhoOf .rhophi (planar_rho.eval v.ty.az (c3 v).1 (c3 v).2.1) a = rhoOf v.ty.az (c3 v).1 (c3 v).2.1 :=
    refine_planar_rho _ _ _
  refine ⟨_, _, he, g3, ?_, ?_⟩
  · rw [refine_planar_rho, hx, hy, Spec.sq_xOf_add_sq_yOf]
  · rw [← h4 hρ]; exact h1

/-- the documented caveat, concretely: `v.x = 2` on the (x, y, θ)-stored vector `(1, 0, π/4)` keeps the STORED `θ`, so the
Cartesian `z` it denotes follows the new `ρ` (`z = ρ / tan θ`: 1 before, 2 after) -/
example :
    denote ⟨⟨.obj, false, .xy, some .theta, none⟩, [1, 0, π / 4]⟩ = some [1, 0, 1] ∧
    ∃ v', setC evR .x 2 ⟨⟨.obj, false, .xy, some .theta, none⟩, [1, 0, π / 4]⟩ = .ok v' ∧
      v'.c = [2, 0, π / 4] ∧ denote v' = some [2, 0, 2] := by
  have hcot : cos (π / 4) / sin (π / 4) = 1 := by
    rw [cos_pi_div_four, sin_pi_div_four]; exact div_self (by positivity)
  refine ⟨?_, _, rfl, rfl, ?_⟩
  · simp only [denote, xOf, yOf, zOf, rhoOf, hcot]; norm_num
  · show some [xOf .xy 2 (planar_y.eval .xy 1 0), yOf .xy 2 (planar_y.eval .xy 1 0),
      zOf .xy .theta 2 (planar_y.eval .xy 1 0) (π / 4)] = _
    simp only [refine_planar_y, xOf, yOf, zOf, rhoOf, hcot]; norm_num
    rw [show (4 : ℝ) = 2 ^ 2 by norm_num, sqrt_sq (by norm_num)]

/-- **longitudinal assignment (`z`, `theta`, `eta`) on 3D and 4D vectors in every storage**: `x`, `y` are unchanged;
the new `z` is `a`, resp. `ρ / tan a`, `ρ sinh a` with the (unchanged) transverse length `ρ`; the stored azimuthal and
temporal coordinates are kept, so `t` is unchanged when it is stored as `t`; a stored `τ` is kept and then denotes
`t = √(τ² + |p'|²)` of the NEW momentum -/
theorem c15m_setC_lon_denote (v : Vec ℝ) (hv : C01M.WFV v) (c : CName) (hc : c.grp = .lon) (a x y z : ℝ)
    (rest : List ℝ) (h : denote v = some (x :: y :: z :: rest)) :
    ∃ v' z' rest', setC evR c a v = .ok v' ∧ denote v' = some (x :: y :: z' :: rest') ∧ rest'.length = rest.length ∧
      (c = .z → z' = a) ∧
      (c = .theta → ∃ ρ, getS evR .rho v = .ok ρ ∧ z' = ρ * (cos a / sin a)) ∧
      (c = .eta → ∃ ρ, getS evR .rho v = .ok ρ ∧ z' = ρ * sinh a) ∧
      v'.azEl = v.azEl ∧ v'.tmpEl = v.tmpEl ∧
      (v.ty.tmp ≠ some .tau → rest' = rest) ∧
      (∀ τ, v.ty.tmp = some .tau → v.tmpEl = [τ] → rest' = [sqrt (τ ^ 2 + (x ^ 2 + y ^ 2 + z' ^ 2))]) := by
  obtain ⟨-, -, g3, -⟩ := getS_az v hv
  rw [refine_planar_rho] at g3
  rcases wfv_cases hv with ⟨be, mom, az, p, q, rfl⟩ | ⟨be, mom, az, l, p, q, r, rfl⟩ |
    ⟨be, mom, az, l, t, p, q, r, s, rfl⟩
  · simp [denote] at h
  all_goals
    simp only [denote, Option.some.injEq, List.cons.injEq] at h
    obtain ⟨hx, hy, hz, hr⟩ := h
    subst hx hy hz hr
  · cases c <;> simp [CName.grp] at hc
    · exact ⟨_, _, _, rfl, rfl, rfl, fun _ => rfl, (fun h => by cases h), (fun h => by cases h), rfl, rfl,
        fun _ => rfl, fun τ h => by cases h⟩
    · exact ⟨_, _, _, rfl, rfl, rfl, (fun h => by cases h), fun _ => ⟨_, g3, rfl⟩, (fun h => by cases h), rfl, rfl,
        fun _ => rfl, fun τ h => by cases h⟩
    · exact ⟨_, _, _, rfl, rfl, rfl, (fun h => by cases h), (fun h => by cases h), fun _ => ⟨_, g3, rfl⟩, rfl, rfl,
        fun _ => rfl, fun τ h => by cases h⟩
  · have ht : ∀ (l' : Lon) (τ : ℝ), (⟨⟨be, mom, az, some l, some t⟩, [p, q, r, s]⟩ : Vec ℝ).ty.tmp = some .tau →
        (⟨⟨be, mom, az, some l, some t⟩, [p, q, r, s]⟩ : Vec ℝ).tmpEl = [τ] →
        [tOf az l' t p q a s] = [sqrt (τ ^ 2 + (xOf az p q ^ 2 + yOf az p q ^ 2 + zOf az l' p q a ^ 2))] := by
      intro l' τ h1 h2
      simp only [Option.some.injEq] at h1
      subst h1
      simp only [Vec.tmpEl, Option.isSome_some, if_true, List.drop, List.take, List.cons.injEq, and_true] at h2
      subst h2
      rfl
    have hnt : ∀ (l' : Lon), (⟨⟨be, mom, az, some l, some t⟩, [p, q, r, s]⟩ : Vec ℝ).ty.tmp ≠ some .tau →
        [tOf az l' t p q a s] = [tOf az l t p q r s] := by
      intro l' h1
      cases t
      · rfl
      · exact absurd rfl h1
    cases c <;> simp [CName.grp] at hc
    · exact ⟨_, _, _, rfl, rfl, rfl, fun _ => rfl, (fun h => by cases h), (fun h => by cases h), rfl, rfl,
        hnt .z, ht .z⟩
    · exact ⟨_, _, _, rfl, rfl, rfl, (fun h => by cases h), fun _ => ⟨_, g3, rfl⟩, (fun h => by cases h), rfl, rfl,
        hnt .theta, ht .theta⟩
    · exact ⟨_, _, _, rfl, rfl, rfl, (fun h => by cases h), (fun h => by cases h), fun _ => ⟨_, g3, rfl⟩, rfl, rfl,
        hnt .eta, ht .eta⟩

/-- **temporal assignment (`t`, `tau`) on 4D vectors in every storage**: `x`, `y`, `z` are unchanged (the stored
azimuthal and longitudinal coordinates are kept verbatim); the new time component is `a`, resp. `√(a² + |p|²)` -/
theorem c15m_setC_tmp_denote (v : Vec ℝ) (hv : C01M.WFV v) (c : CName) (hc : c.grp = .tmp) (a x y z t : ℝ)
    (h : denote v = some [x, y, z, t]) :
    ∃ v' t', setC evR c a v = .ok v' ∧ denote v' = some [x, y, z, t'] ∧
      (c = .t → t' = a) ∧ (c = .tau → t' = sqrt (a ^ 2 + (x ^ 2 + y ^ 2 + z ^ 2))) ∧
      v'.azEl = v.azEl ∧ v'.lonEl = v.lonEl := by
  rcases wfv_cases hv with ⟨be, mom, az, p, q, rfl⟩ | ⟨be, mom, az, l, p, q, r, rfl⟩ |
    ⟨be, mom, az, l, t0, p, q, r, s, rfl⟩
  · simp [denote] at h
  · simp [denote] at h
  · simp only [denote, Option.some.injEq, List.cons.injEq] at h
    obtain ⟨hx, hy, hz, ht, -⟩ := h
    subst hx hy hz ht
    cases c <;> simp [CName.grp] at hc
    · exact ⟨_, _, rfl, rfl, fun _ => rfl, (fun h => by cases h), rfl, rfl⟩
    · exact ⟨_, _, rfl, rfl, (fun h => by cases h), fun _ => rfl, rfl, rfl⟩

/-- the hypotheses are satisfiable: a (ρ, φ, η, τ) momentum vector; `v.theta = 1` then `v.t = 7` -/
example : ∃ v' v'', setC evR .theta 1 ⟨⟨.obj, true, .rhophi, some .eta, some .tau⟩, [3, 0, 0, 4]⟩ = .ok v' ∧
    v'.ty = ⟨.obj, true, .rhophi, some .theta, some .tau⟩ ∧ v'.c = [3, 0, 1, 4] ∧
    setC evR .t 7 v' = .ok v'' ∧ v''.ty = ⟨.obj, true, .rhophi, some .theta, some .t⟩ ∧ v''.c = [3, 0, 1, 7] :=
  ⟨_, _, rfl, rfl, rfl, rfl, rfl, rfl⟩

/-! ### 2. `_replace_data` is the conversion of the functional result into the object's own coordinate system -/

/-- **`replaceData ev v r` is `toSystem` of `r` into the system of `v`, carrying `v`'s type** (class, flavor, backend of the
OBJECT, not of the result) — for every scalar type and compute layer; `r` of the dimension of the well-formed `v`, so no
coordinate is imputed and the keyword values `kl`, `kt` and the zero `z` are irrelevant -/
theorem c15m_replaceData_eq_toSystem {S B : Type} (ev : Ev S B) (z : S) (v r : Vec S) (hw : VG.WF v.ty)
    (hd : r.ty.dim = v.ty.dim) (kl kt : Option S) :
    replaceData ev v r =
      (toSystem ev z r v.ty.az v.ty.lon v.ty.tmp kl kt).map (fun w => (⟨v.ty, w.c⟩ : Vec S)) := by
  have h3 : v.ty.lon.isSome → 3 ≤ r.ty.dim := by rw [hd]; intro h; simp [VT.dim, h]
  have h4 : v.ty.tmp.isSome → 4 ≤ r.ty.dim := by rw [hd]; intro h; have := hw h; simp [VT.dim, h, this]
  clear hd
  obtain ⟨⟨be, mom, az, lon, tmp⟩, c⟩ := v
  cases lon <;> cases tmp <;> simp [VG.WF] at hw h3 h4 <;> cases az <;>
    simp [replaceData, toSystem, h3, h4, azCNames, List.mapM_cons, List.mapM_nil, Except.map, bind, Except.bind,
      pure, Except.pure] <;>
    (repeat (generalize getS ev _ r = g; cases g <;> simp))

/-- the denotation only depends on the coordinate system and the stored coordinates, not on class / flavor / backend -/
theorem denote_retype (ty : VT) (w : Vec ℝ) (h1 : w.ty.az = ty.az) (h2 : w.ty.lon = ty.lon) (h3 : w.ty.tmp = ty.tmp) :
    denote ⟨ty, w.c⟩ = denote w := by
  simp only [denote, h1, h2, h3]

theorem isSome_of_dim {a b : VT} (ha : VG.WF a) (hb : VG.WF b) (hd : a.dim = b.dim) :
    a.lon.isSome = b.lon.isSome ∧ a.tmp.isSome = b.tmp.isSome := by
  obtain ⟨be1, m1, az1, l1, t1⟩ := a
  obtain ⟨be2, m2, az2, l2, t2⟩ := b
  cases l1 <;> cases t1 <;> cases l2 <;> cases t2 <;> simp [VG.WF, VT.dim] at ha hb hd ⊢

/-- **what `_replace_data` denotes**: for a well-formed object `v` and a well-formed functional result `r` of the same
dimension (any storage, any class), under the representability hypotheses `FwdOK` of reading `r` through the accessors
of `v`'s system (`Props/MethodConv`), the object afterwards has `v`'s WHOLE type and denotes what `r` denotes -/
theorem c15m_replaceData_denote (v r : Vec ℝ) (hv : C01M.WFV v) (hr : C01M.WFV r) (hd : r.ty.dim = v.ty.dim)
    (h : FwdOK r v.ty.lon v.ty.tmp) :
    ∃ v', replaceData evR v r = .ok v' ∧ v'.ty = v.ty ∧ C01M.WFV v' ∧ denote v' = denote r := by
  obtain ⟨hl, ht⟩ := isSome_of_dim (a := v.ty) (b := r.ty) hv.1 hr.1 hd.symm
  obtain ⟨w, hw, hty, hwf, hden⟩ := c04m_toSystem_denote 0 r hr v.ty.az v.ty.lon v.ty.tmp hl ht h none none
  have he := c15m_replaceData_eq_toSystem evR 0 v r hv.1 hd none none
  rw [hw] at he
  refine ⟨⟨v.ty, w.c⟩, he, rfl, ⟨hv.1, ?_⟩, ?_⟩
  · show w.c.length = v.ty.dim
    rw [hwf.2, hty]; rfl
  · rw [← hden]
    exact denote_retype v.ty w (by rw [hty]) (by rw [hty]) (by rw [hty])

/-- … and when the functional result is stored in the SAME system as the object, no hypothesis at all: the coordinates
are copied verbatim -/
theorem c15m_replaceData_same_system (v r : Vec ℝ) (hr : C01M.WFV r) (haz : r.ty.az = v.ty.az)
    (hlon : r.ty.lon = v.ty.lon) (htmp : r.ty.tmp = v.ty.tmp) :
    replaceData evR v r = .ok ⟨v.ty, r.c⟩ ∧ denote (⟨v.ty, r.c⟩ : Vec ℝ) = denote r :=
  ⟨c15_replaceData_same_system c04m_idLaws (show VG.WFV r from hr) haz hlon htmp, denote_retype v.ty r haz hlon htmp⟩

/-- the stored `τ` after `_replace_data` is non-negative (`CanonTmpV`): it is copied when the functional result is
τ-stored, and is `√(t² − |p|²)` of a causal future-directed result otherwise (part of `FwdOK`) -/
theorem replaceData_canonTmp (v r v' : Vec ℝ) (hv : C01M.WFV v) (hr : C01M.WFV r) (hd : r.ty.dim = v.ty.dim)
    (h : FwdOK r v.ty.lon v.ty.tmp) (hrt : r.ty.tmp = some .tau → CanonTmpV r)
    (he : replaceData evR v r = .ok v') : CanonTmpV v' := by
  obtain ⟨hl, ht⟩ := isSome_of_dim (a := v.ty) (b := r.ty) hv.1 hr.1 hd.symm
  rw [c15m_replaceData_eq_toSystem evR 0 v r hv.1 hd none none] at he
  obtain ⟨⟨bev, momv, azv, lv, tv⟩, cv⟩ := v
  rcases wfv_cases hr with ⟨be, mom, az0, a, b, rfl⟩ | ⟨be, mom, az0, l0, a, b, c, rfl⟩ |
    ⟨be, mom, az0, l0, t0, a, b, c, d, rfl⟩
  · rcases lv with _ | l <;> rcases tv with _ | tm <;> simp at hl ht
    rw [toSystem_eval2] at he
    cases he
    trivial
  · rcases lv with _ | l <;> rcases tv with _ | tm <;> simp at hl ht
    rw [toSystem_eval3] at he
    cases he
    trivial
  · rcases lv with _ | l <;> rcases tv with _ | tm <;> simp at hl ht
    rw [toSystem_eval4] at he
    cases he
    have h' : LonOK az0 l0 l a b c ∧ TmpOK az0 l0 t0 tm a b c d := h
    cases tm
    · trivial
    · show 0 ≤ convTmp az0 l0 t0 .tau a b c d
      cases t0
      · obtain ⟨hcl, hd0, hm⟩ := h'.2
        show 0 ≤ lorentz_tau.eval az0 l0 .t a b c d
        rw [refine_lorentz_tau az0 l0 .t a b c d hcl trivial]
        apply sign_mul_sqrt_abs_nonneg
        simp only [tOf]; linarith
      · show 0 ≤ lorentz_tau.eval az0 l0 .tau a b c d
        rw [refine_lorentz_tau_of_tau]
        exact hrt rfl

theorem lorentz_scale_tau_eq (az : Az) (l : Lon) (f a b c d : ℝ) :
    (lorentz_scale.eval az l .tau f a b c d).2.2.2 = d * f := by
  cases az <;> cases l <;> rfl

/-- `scale` by a non-negative factor keeps the stored `τ` non-negative -/
theorem scale_canonTmp (K : Consts ℝ) (A : Arith ℝ) (v r : Vec ℝ) (hv : C01M.WFV v) (f : ℝ) (hf : 0 ≤ f)
    (hC : CanonTmpV v) (he : call evR K A "scale" v [.sc f] = .ok (.vec r)) : CanonTmpV r := by
  rcases wfv_cases hv with ⟨be, mom, az, a, b, rfl⟩ | ⟨be, mom, az, l, a, b, c, rfl⟩ |
    ⟨be, mom, az, l, t, a, b, c, d, rfl⟩
  · rw [scale_eval2] at he; cases he; trivial
  · rw [scale_eval3] at he; cases he; trivial
  · rw [scale_eval4] at he
    cases he
    cases t
    · trivial
    · show 0 ≤ (lorentz_scale.eval az l .tau f a b c d).2.2.2
      rw [lorentz_scale_tau_eq]
      exact mul_nonneg hC hf

/-! ### 3. in-place operators: functional equivalence -/

/-- the functional result behind each in-place operator is the PUBLIC method / operator of that name -/
theorem iopResult_call {S B : Type} (ev : Ev S B) (K : Consts S) (A : Arith S) (v o : Vec S) (f : S) :
    iopResult ev K A v (.iopV .add o) = call ev K A "add" v [.v o] ∧
    iopResult ev K A v (.iopV .sub o) = call ev K A "subtract" v [.v o] ∧
    iopResult ev K A v (.iopS .mul f) = call ev K A "scale" v [.sc f] ∧
    iopResult ev K A v (.iopS .div f) = call ev K A "scale" v [.sc (A.inv f)] ∧
    iopResult ev K A v (.iopV .add o) = operator ev K A "add" v [.v o] ∧
    iopResult ev K A v (.iopV .sub o) = operator ev K A "sub" v [.v o] ∧
    iopResult ev K A v (.iopS .mul f) = operator ev K A "mul" v [.sc f] ∧
    iopResult ev K A v (.iopS .div f) = operator ev K A "truediv" v [.sc f] :=
  ⟨rfl, rfl, rfl, rfl, rfl, rfl, rfl, rfl⟩

/-- `_replace_data` applied to a functional result: vectors are converted into the object, anything else is a TypeError -/
def intoObject {S B : Type} (ev : Ev S B) (v : Vec S) : Res S B → Except Err (Vec S)
  | .vec r => replaceData ev v r
  | _ => .error .typeError

/-- **functional equivalence, every compute layer** (definitional): the in-place operator is the functional operator
followed by `_replace_data` into the object -/
theorem c15m_iop_functional {S B : Type} (ev : Ev S B) (K : Consts S) (A : Arith S) (v o : Vec S) (f : S) :
    stepE ev K A v (.iopV .add o) = (binary ev K .add v o []).bind (intoObject ev v) ∧
    stepE ev K A v (.iopV .sub o) = (binary ev K .subtract v o []).bind (intoObject ev v) ∧
    stepE ev K A v (.iopS .mul f) = (scaleN ev v.ty.dim f v).bind (intoObject ev v) ∧
    stepE ev K A v (.iopS .div f) = (scaleN ev v.ty.dim (A.inv f) v).bind (intoObject ev v) := by
  refine ⟨?_, ?_, ?_, ?_⟩ <;> simp only [stepE, iopResult] <;>
    (split <;> simp_all [Except.bind, intoObject])

theorem vec_eta {S : Type} (ty : VT) (r : Vec S) (h : r.ty = ty) : (⟨ty, r.c⟩ : Vec S) = r := by
  cases r; cases h; rfl

/-- **`v += o` in EVERY storage pairing of operands of equal dimension (2D 4, 3D 36, 4D 144), any classes**: under the
hypotheses of `c11m_add` and the representability `FwdOK` of the functional sum `r = v + o` in `v`'s OWN stored system,
the step succeeds, the object keeps its WHOLE type (class, flavor, backend, coordinate system), and denotes the
component-wise sum of the denotations — exactly what the functional `v + o` denotes -/
theorem c15m_iop_add (K : Consts ℝ) (A : Arith ℝ) (v o : Vec ℝ) (hv : C01M.WFV v) (ho : C01M.WFV o)
    (hd : v.ty.dim = o.ty.dim) (hT1 : TanOKV v) (hT2 : TanOKV o) (hS1 : SinOKV v) (hS2 : SinOKV o)
    (hC1 : CanonTmpV v) (hC2 : CanonTmpV o) (hrep : RepAdd v o)
    (hfwd : ∀ r, call evR K A "add" v [.v o] = .ok (.vec r) → FwdOK r v.ty.lon v.ty.tmp) :
    ∃ v' r p q, call evR K A "add" v [.v o] = .ok (.vec r) ∧ stepE evR K A v (.iopV .add o) = .ok v' ∧
      v'.ty = v.ty ∧ C01M.WFV v' ∧ denote v = some p ∧ denote o = some q ∧
      denote r = some (List.zipWith (· + ·) p q) ∧ denote v' = some (List.zipWith (· + ·) p q) := by
  obtain ⟨r, p, q, h1, h2, h3, -, -, -, h4, h5, h6⟩ := c11m_add K A v o hv ho hd hT1 hT2 hS1 hS2 hC1 hC2 hrep
  obtain ⟨v', g1, g2, g3, g4⟩ := c15m_replaceData_denote v r hv h2 h3 (hfwd r h1)
  have hs : stepE evR K A v (.iopV .add o) = replaceData evR v r :=
    c15_stepE_functional (st := .iopV .add o) (show iopResult evR K A v (.iopV .add o) = _ from h1)
  exact ⟨v', r, p, q, h1, hs.trans g1, g2, g3, h4, h5, h6, g4.trans h6⟩

/-- **`v -= o`**, likewise (hypotheses of `c11m_subtract`) -/
theorem c15m_iop_sub (K : Consts ℝ) (A : Arith ℝ) (v o : Vec ℝ) (hv : C01M.WFV v) (ho : C01M.WFV o)
    (hd : v.ty.dim = o.ty.dim) (hT1 : TanOKV v) (hT2 : TanOKV o) (hS1 : SinOKV v) (hS2 : SinOKV o)
    (hC1 : CanonTmpV v) (hC2 : CanonTmpV o) (hrep : RepSub v o) (hcaus : SubCausal v o)
    (hfwd : ∀ r, call evR K A "subtract" v [.v o] = .ok (.vec r) → FwdOK r v.ty.lon v.ty.tmp) :
    ∃ v' r p q, call evR K A "subtract" v [.v o] = .ok (.vec r) ∧ stepE evR K A v (.iopV .sub o) = .ok v' ∧
      v'.ty = v.ty ∧ C01M.WFV v' ∧ denote v = some p ∧ denote o = some q ∧
      denote r = some (List.zipWith (· - ·) p q) ∧ denote v' = some (List.zipWith (· - ·) p q) := by
  obtain ⟨r, p, q, h1, h2, h3, -, -, -, h4, h5, h6⟩ :=
    c11m_subtract K A v o hv ho hd hT1 hT2 hS1 hS2 hC1 hC2 hrep hcaus
  obtain ⟨v', g1, g2, g3, g4⟩ := c15m_replaceData_denote v r hv h2 h3 (hfwd r h1)
  have hs : stepE evR K A v (.iopV .sub o) = replaceData evR v r :=
    c15_stepE_functional (st := .iopV .sub o) (show iopResult evR K A v (.iopV .sub o) = _ from h1)
  exact ⟨v', r, p, q, h1, hs.trans g1, g2, g3, h4, h5, h6, g4.trans h6⟩

/-- **`v *= f` in every storage (2 + 6 + 12)** (hypotheses of `c11m_scale`; none on the conversion: `scale` returns the
object's own system, so `_replace_data` copies the coordinates verbatim): the object afterwards IS the functional result
`v * f` (same type, same stored coordinates), and denotes `f •` the denotation -/
theorem c15m_iop_mul (K : Consts ℝ) (A : Arith ℝ) (v : Vec ℝ) (hv : C01M.WFV v) (f : ℝ) (hθ : ThetaRangeV v)
    (hf : v.ty.tmp = some .tau → 0 ≤ f) :
    ∃ v' p, stepE evR K A v (.iopS .mul f) = .ok v' ∧ call evR K A "scale" v [.sc f] = .ok (.vec v') ∧
      v'.ty = v.ty ∧ C01M.WFV v' ∧ denote v = some p ∧ denote v' = some (p.map (f * ·)) := by
  obtain ⟨r, p, h1, h2, h3, h4, h5⟩ := c11m_scale K A v hv f hθ hf
  have hs : stepE evR K A v (.iopS .mul f) = replaceData evR v r :=
    c15_stepE_functional (st := .iopS .mul f) (show iopResult evR K A v (.iopS .mul f) = _ from h1)
  have hr := (c15m_replaceData_same_system v r h3 (by rw [h2]) (by rw [h2]) (by rw [h2])).1
  rw [vec_eta v.ty r h2] at hr
  exact ⟨r, p, hs.trans hr, h1, h2, h3, h4, h5⟩

/-- **`v /= f`** for `f ≠ 0` (`0 < f` for τ-stored vectors), given that the method layer's reciprocal is the real one -/
theorem c15m_iop_div (K : Consts ℝ) (A : Arith ℝ) (v : Vec ℝ) (hv : C01M.WFV v) (f : ℝ) (hA : A.inv f = f⁻¹)
    (hf0 : f ≠ 0) (hθ : ThetaRangeV v) (hf : v.ty.tmp = some .tau → 0 < f) :
    ∃ v' p, stepE evR K A v (.iopS .div f) = .ok v' ∧ call evR K A "scale" v [.sc (A.inv f)] = .ok (.vec v') ∧
      v'.ty = v.ty ∧ C01M.WFV v' ∧ denote v = some p ∧ denote v' = some (p.map (· / f)) := by
  obtain ⟨r, p, h1, h2, h3, h4, h5⟩ :=
    c11m_scale K A v hv (A.inv f) hθ (fun h => by rw [hA]; exact (inv_pos.mpr (hf h)).le)
  have hs : stepE evR K A v (.iopS .div f) = replaceData evR v r :=
    c15_stepE_functional (st := .iopS .div f) (show iopResult evR K A v (.iopS .div f) = _ from h1)
  have hr := (c15m_replaceData_same_system v r h3 (by rw [h2]) (by rw [h2]) (by rw [h2])).1
  rw [vec_eta v.ty r h2] at hr
  refine ⟨r, p, hs.trans hr, h1, h2, h3, h4, ?_⟩
  rw [h5, hA]
  congr 1
  exact List.map_congr_left (fun x _ => by rw [div_eq_inv_mul])

/-- **in-place = functional, at the level of denotations**: whenever the in-place operator succeeds and the functional
result `r` is representable in the object's system, the object afterwards denotes what `r` denotes -/
theorem c15m_iop_functional_denote (K : Consts ℝ) (A : Arith ℝ) (v r v' : Vec ℝ) (st : Step ℝ) (hv : C01M.WFV v)
    (hr : C01M.WFV r) (hd : r.ty.dim = v.ty.dim) (hres : iopResult evR K A v st = .ok (.vec r))
    (h : FwdOK r v.ty.lon v.ty.tmp) (hstep : stepE evR K A v st = .ok v') :
    v'.ty = v.ty ∧ C01M.WFV v' ∧ denote v' = denote r := by
  obtain ⟨w, g1, g2, g3, g4⟩ := c15m_replaceData_denote v r hv hr hd h
  rw [c15_stepE_functional hres, g1] at hstep
  cases hstep
  exact ⟨g2, g3, g4⟩

/-! #### the representability hypothesis in terms of the Cartesian sum (functional result stored Cartesian) -/

/-- representability of Cartesian components `p` in the longitudinal / temporal systems `lon`, `tmp`: off the z axis for
θ/η; future-directed and causal (`0 ≤ t`, `|p|² ≤ t²`) for τ -/
def CartOK (lon : Option Lon) (tmp : Option Tmp) : List ℝ → Prop
  | [X, Y, _] => (lon = some .theta ∨ lon = some .eta) → 0 < X ^ 2 + Y ^ 2
  | [X, Y, Z, T] => ((lon = some .theta ∨ lon = some .eta) → 0 < X ^ 2 + Y ^ 2) ∧
      (tmp = some .tau → 0 ≤ T ∧ X ^ 2 + Y ^ 2 + Z ^ 2 ≤ T ^ 2)
  | _ => True

theorem fwdOK_none (r : Vec ℝ) (tmp : Option Tmp) : FwdOK r none tmp := by
  unfold FwdOK
  split <;> trivial

theorem lonOK_cart (l : Lon) (a b c : ℝ) (h : l = .theta ∨ l = .eta → 0 < a ^ 2 + b ^ 2) : LonOK .xy .z l a b c := by
  cases l
  · trivial
  · exact sqrt_pos.mpr (h (Or.inl rfl))
  · exact ⟨sqrt_pos.mpr (h (Or.inr rfl)), trivial⟩

/-- a functional result stored Cartesian (`x, y[, z[, t]]`) is representable in the systems `lon`, `tmp` as soon as the
components it denotes are (`CartOK`) -/
theorem fwdOK_of_cart (r : Vec ℝ) (hr : C01M.WFV r) (haz : r.ty.az = .xy) (hl : r.ty.lon ≠ some .theta)
    (hl' : r.ty.lon ≠ some .eta) (ht : r.ty.tmp ≠ some .tau) (lon : Option Lon) (tmp : Option Tmp) (p : List ℝ)
    (hd : denote r = some p) (H : CartOK lon tmp p) : FwdOK r lon tmp := by
  rcases lon with _ | l
  · exact fwdOK_none r tmp
  rcases wfv_cases hr with ⟨be, mom, az, a, b, rfl⟩ | ⟨be, mom, az, l0, a, b, c, rfl⟩ |
    ⟨be, mom, az, l0, t0, a, b, c, d, rfl⟩
  · trivial
  · simp only at haz hl hl'
    subst haz
    cases l0 <;> simp at hl hl'
    simp only [denote, Option.some.injEq] at hd
    subst hd
    exact lonOK_cart l a b c (fun h => H (by simpa using h))
  · simp only at haz hl hl' ht
    subst haz
    cases l0 <;> simp at hl hl'
    cases t0 <;> simp at ht
    simp only [denote, Option.some.injEq] at hd
    subst hd
    obtain ⟨H1, H2⟩ := H
    have hL : LonOK .xy .z l a b c := lonOK_cart l a b c (fun h => H1 (by simpa using h))
    rcases tmp with _ | tm
    · exact hL
    · refine ⟨hL, ?_⟩
      cases tm
      · trivial
      · obtain ⟨h1, h2⟩ := H2 rfl
        exact ⟨trivial, h1, by simpa only [mag2Of, xOf, yOf, zOf, tOf] using h2⟩

theorem spatial_add_ret_mixed (az1 : Az) (l1 : Lon) (az2 : Az) (l2 : Lon) (h : (az1, l1) ≠ (az2, l2)) :
    spatial_add.ret az1 l1 az2 l2 = Ret.vec [RP.az .xy, RP.lon .z] := by
  cases az1 <;> cases l1 <;> cases az2 <;> cases l2 <;> first | rfl | exact absurd rfl h

theorem spatial_subtract_ret_mixed (az1 : Az) (l1 : Lon) (az2 : Az) (l2 : Lon) (h : (az1, l1) ≠ (az2, l2)) :
    spatial_subtract.ret az1 l1 az2 l2 = Ret.vec [RP.az .xy, RP.lon .z] := by
  cases az1 <;> cases l1 <;> cases az2 <;> cases l2 <;> first | rfl | exact absurd rfl h

/-- **`v += o` for 3D / 4D operands stored in DIFFERENT spatial systems** (e.g. a (ρ,φ,η,τ) vector and an (x,y,z,t) one),
not both τ-stored: the functional sum is Cartesian, so the representability hypothesis is a condition on the SUM of the
denotations only (`CartOK`: off the z axis if `v` stores θ/η; `0 ≤ t`, `|p|² ≤ t²` if `v` stores τ).  The stored `τ`
afterwards is again non-negative. -/
theorem c15m_iop_add_mixed (K : Consts ℝ) (A : Arith ℝ) (v o : Vec ℝ) (hv : C01M.WFV v) (ho : C01M.WFV o)
    (hd : v.ty.dim = o.ty.dim) (hT1 : TanOKV v) (hT2 : TanOKV o) (hS1 : SinOKV v) (hS2 : SinOKV o)
    (hC1 : CanonTmpV v) (hC2 : CanonTmpV o) (h3 : v.ty.lon.isSome)
    (hmix : (v.ty.az, v.ty.lon) ≠ (o.ty.az, o.ty.lon))
    (hτ : ¬ (v.ty.tmp = some .tau ∧ o.ty.tmp = some .tau)) (p q : List ℝ) (hp : denote v = some p)
    (hq : denote o = some q) (H : CartOK v.ty.lon v.ty.tmp (List.zipWith (· + ·) p q)) :
    RepAdd v o ∧ (∀ r, call evR K A "add" v [.v o] = .ok (.vec r) → FwdOK r v.ty.lon v.ty.tmp) ∧
    ∃ v', stepE evR K A v (.iopV .add o) = .ok v' ∧ v'.ty = v.ty ∧ C01M.WFV v' ∧ CanonTmpV v' ∧
      denote v' = some (List.zipWith (· + ·) p q) := by
  have hmix' : (v.ty.az, lonOf v) ≠ (o.ty.az, lonOf o) := by
    intro e
    apply hmix
    simp only [Prod.mk.injEq] at e ⊢
    refine ⟨e.1, ?_⟩
    have e2 := e.2
    rcases wfv_cases hv with ⟨be1, mom1, az1, a0, a1, rfl⟩ | ⟨be1, mom1, az1, l1, a0, a1, a2, rfl⟩ |
      ⟨be1, mom1, az1, l1, t1, a0, a1, a2, a3, rfl⟩ <;>
    rcases wfv_cases ho with ⟨be2, mom2, az2, b0, b1, rfl⟩ | ⟨be2, mom2, az2, l2, b0, b1, b2, rfl⟩ |
      ⟨be2, mom2, az2, l2, t2, b0, b1, b2, b3, rfl⟩ <;> simp [VT.dim, lonOf] at hd e2 ⊢ <;> exact e2
  have hret := spatial_add_ret_mixed _ _ _ _ hmix'
  have hrep : RepAdd v o := fun _ => Or.inl (by rw [hret]; rfl)
  have hR : ∀ r, call evR K A "add" v [.v o] = .ok (.vec r) →
      C01M.WFV r ∧ r.ty.dim = v.ty.dim ∧ r.ty.tmp ≠ some .tau ∧ FwdOK r v.ty.lon v.ty.tmp := by
    intro r hcall
    obtain ⟨r0, p0, q0, g1, g2, g3, -, -, g4, g5, g6, g7⟩ := c11m_add K A v o hv ho hd hT1 hT2 hS1 hS2 hC1 hC2 hrep
    rw [hcall] at g1
    cases g1
    rw [hp] at g5; cases g5
    rw [hq] at g6; cases g6
    have hty : r.ty.az = .xy ∧ r.ty.lon = some .z := by
      rcases wfv_cases hv with ⟨be1, mom1, az1, a0, a1, rfl⟩ | ⟨be1, mom1, az1, l1, a0, a1, a2, rfl⟩ |
        ⟨be1, mom1, az1, l1, t1, a0, a1, a2, a3, rfl⟩ <;>
      rcases wfv_cases ho with ⟨be2, mom2, az2, b0, b1, rfl⟩ | ⟨be2, mom2, az2, l2, b0, b1, b2, rfl⟩ |
        ⟨be2, mom2, az2, l2, t2, b0, b1, b2, b3, rfl⟩ <;> try (simp [VT.dim] at hd h3; done)
      · rw [add_eval3] at hcall
        cases hcall
        have hret' : spatial_add.ret az1 l1 az2 l2 = _ := hret
        simp only [hret']
        exact ⟨rfl, rfl⟩
      · rw [add_eval4] at hcall
        cases hcall
        have hret' : spatial_add.ret az1 l1 az2 l2 = _ := hret
        simp only [hret']
        exact ⟨rfl, rfl⟩
    have htmp : r.ty.tmp ≠ some .tau := by
      rw [g4]
      intro e
      apply hτ
      rcases hvt : v.ty.tmp with _ | t1 <;> rcases hot : o.ty.tmp with _ | t2 <;> rw [hvt, hot] at e <;>
        simp [tmpRes?] at e
      cases t1 <;> cases t2 <;> simp [tmpRes] at e
      exact ⟨rfl, rfl⟩
    exact ⟨g2, g3, htmp, fwdOK_of_cart r g2 hty.1 (by rw [hty.2]; simp) (by rw [hty.2]; simp) htmp _ _ _ g7 H⟩
  have hfwd : ∀ r, call evR K A "add" v [.v o] = .ok (.vec r) → FwdOK r v.ty.lon v.ty.tmp :=
    fun r h => (hR r h).2.2.2
  refine ⟨hrep, hfwd, ?_⟩
  obtain ⟨v', r, p0, q0, gc, g1, g2, g3, g4, g5, -, g6⟩ :=
    c15m_iop_add K A v o hv ho hd hT1 hT2 hS1 hS2 hC1 hC2 hrep hfwd
  rw [hp] at g4; cases g4
  rw [hq] at g5; cases g5
  have hs : stepE evR K A v (.iopV .add o) = replaceData evR v r :=
    c15_stepE_functional (st := .iopV .add o) (show iopResult evR K A v (.iopV .add o) = _ from gc)
  obtain ⟨r1, r2, r3, r4⟩ := hR r gc
  exact ⟨v', g1, g2, g3, replaceData_canonTmp v r v' hv r1 r2 r4 (fun e => absurd e r3) (hs ▸ g1), g6⟩

/-- **`v -= o`**, likewise (operands stored in different spatial systems,
not both τ-stored: the functional difference is Cartesian, so the representability hypothesis is a condition on the DIFFERENCE of the
denotations only (`CartOK`: off the z axis if `v` stores θ/η; `0 ≤ t`, `|p|² ≤ t²` if `v` stores τ).  The stored `τ`
afterwards is again non-negative. -/
theorem c15m_iop_sub_mixed (K : Consts ℝ) (A : Arith ℝ) (v o : Vec ℝ) (hv : C01M.WFV v) (ho : C01M.WFV o)
    (hd : v.ty.dim = o.ty.dim) (hT1 : TanOKV v) (hT2 : TanOKV o) (hS1 : SinOKV v) (hS2 : SinOKV o)
    (hC1 : CanonTmpV v) (hC2 : CanonTmpV o) (h3 : v.ty.lon.isSome)
    (hmix : (v.ty.az, v.ty.lon) ≠ (o.ty.az, o.ty.lon))
    (hτ : ¬ (v.ty.tmp = some .tau ∧ o.ty.tmp = some .tau)) (p q : List ℝ) (hp : denote v = some p)
    (hq : denote o = some q) (H : CartOK v.ty.lon v.ty.tmp (List.zipWith (· - ·) p q)) :
    RepSub v o ∧ (∀ r, call evR K A "subtract" v [.v o] = .ok (.vec r) → FwdOK r v.ty.lon v.ty.tmp) ∧
    ∃ v', stepE evR K A v (.iopV .sub o) = .ok v' ∧ v'.ty = v.ty ∧ C01M.WFV v' ∧ CanonTmpV v' ∧
      denote v' = some (List.zipWith (· - ·) p q) := by
  have hmix' : (v.ty.az, lonOf v) ≠ (o.ty.az, lonOf o) := by
    intro e
    apply hmix
    simp only [Prod.mk.injEq] at e ⊢
    refine ⟨e.1, ?_⟩
    have e2 := e.2
    rcases wfv_cases hv with ⟨be1, mom1, az1, a0, a1, rfl⟩ | ⟨be1, mom1, az1, l1, a0, a1, a2, rfl⟩ |
      ⟨be1, mom1, az1, l1, t1, a0, a1, a2, a3, rfl⟩ <;>
    rcases wfv_cases ho with ⟨be2, mom2, az2, b0, b1, rfl⟩ | ⟨be2, mom2, az2, l2, b0, b1, b2, rfl⟩ |
      ⟨be2, mom2, az2, l2, t2, b0, b1, b2, b3, rfl⟩ <;> simp [VT.dim, lonOf] at hd e2 ⊢ <;> exact e2
  have hret := spatial_subtract_ret_mixed _ _ _ _ hmix'
  have hrep : RepSub v o := fun _ => Or.inl (by rw [hret]; rfl)
  have hcaus : SubCausal v o := fun e1 e2 => absurd ⟨e1, e2⟩ hτ
  have hR : ∀ r, call evR K A "subtract" v [.v o] = .ok (.vec r) →
      C01M.WFV r ∧ r.ty.dim = v.ty.dim ∧ r.ty.tmp ≠ some .tau ∧ FwdOK r v.ty.lon v.ty.tmp := by
    intro r hcall
    obtain ⟨r0, p0, q0, g1, g2, g3, -, -, g4, g5, g6, g7⟩ := c11m_subtract K A v o hv ho hd hT1 hT2 hS1 hS2 hC1 hC2 hrep hcaus
    rw [hcall] at g1
    cases g1
    rw [hp] at g5; cases g5
    rw [hq] at g6; cases g6
    have hty : r.ty.az = .xy ∧ r.ty.lon = some .z := by
      rcases wfv_cases hv with ⟨be1, mom1, az1, a0, a1, rfl⟩ | ⟨be1, mom1, az1, l1, a0, a1, a2, rfl⟩ |
        ⟨be1, mom1, az1, l1, t1, a0, a1, a2, a3, rfl⟩ <;>
      rcases wfv_cases ho with ⟨be2, mom2, az2, b0, b1, rfl⟩ | ⟨be2, mom2, az2, l2, b0, b1, b2, rfl⟩ |
        ⟨be2, mom2, az2, l2, t2, b0, b1, b2, b3, rfl⟩ <;> try (simp [VT.dim] at hd h3; done)
      · rw [subtract_eval3] at hcall
        cases hcall
        have hret' : spatial_subtract.ret az1 l1 az2 l2 = _ := hret
        simp only [hret']
        exact ⟨rfl, rfl⟩
      · rw [subtract_eval4] at hcall
        cases hcall
        have hret' : spatial_subtract.ret az1 l1 az2 l2 = _ := hret
        simp only [hret']
        exact ⟨rfl, rfl⟩
    have htmp : r.ty.tmp ≠ some .tau := by
      rw [g4]
      intro e
      apply hτ
      rcases hvt : v.ty.tmp with _ | t1 <;> rcases hot : o.ty.tmp with _ | t2 <;> rw [hvt, hot] at e <;>
        simp [tmpRes?] at e
      cases t1 <;> cases t2 <;> simp [tmpRes] at e
      exact ⟨rfl, rfl⟩
    exact ⟨g2, g3, htmp, fwdOK_of_cart r g2 hty.1 (by rw [hty.2]; simp) (by rw [hty.2]; simp) htmp _ _ _ g7 H⟩
  have hfwd : ∀ r, call evR K A "subtract" v [.v o] = .ok (.vec r) → FwdOK r v.ty.lon v.ty.tmp :=
    fun r h => (hR r h).2.2.2
  refine ⟨hrep, hfwd, ?_⟩
  obtain ⟨v', r, p0, q0, gc, g1, g2, g3, g4, g5, -, g6⟩ :=
    c15m_iop_sub K A v o hv ho hd hT1 hT2 hS1 hS2 hC1 hC2 hrep hcaus hfwd
  rw [hp] at g4; cases g4
  rw [hq] at g5; cases g5
  have hs : stepE evR K A v (.iopV .sub o) = replaceData evR v r :=
    c15_stepE_functional (st := .iopV .sub o) (show iopResult evR K A v (.iopV .sub o) = _ from gc)
  obtain ⟨r1, r2, r3, r4⟩ := hR r gc
  exact ⟨v', g1, g2, g3, replaceData_canonTmp v r v' hv r1 r2 r4 (fun e => absurd e r3) (hs ▸ g1), g6⟩

/-! #### operands stored in the SAME system: no representability hypothesis on the conversion -/

theorem planar_add_ret_same (az : Az) : planar_add.ret az az = Ret.vec [RP.az az] := by cases az <;> rfl
theorem spatial_add_ret_same (az : Az) (l : Lon) : spatial_add.ret az l az l = Ret.vec [RP.az az, RP.lon l] := by
  cases az <;> cases l <;> rfl
theorem planar_subtract_ret_same (az : Az) : planar_subtract.ret az az = Ret.vec [RP.az az] := by cases az <;> rfl
theorem spatial_subtract_ret_same (az : Az) (l : Lon) :
    spatial_subtract.ret az l az l = Ret.vec [RP.az az, RP.lon l] := by
  cases az <;> cases l <;> rfl
theorem tmpRes_same (t : Tmp) : tmpRes t t = t := by cases t <;> rfl

/-- **`v += o` when `o` is stored in the SAME coordinate system as `v`** (the everyday case; any classes / flavors): the
functional sum is returned in that system, so `_replace_data` copies its coordinates VERBATIM — only the hypotheses of
`c11m_add`, none on the conversion -/
theorem c15m_iop_add_same (K : Consts ℝ) (A : Arith ℝ) (v o : Vec ℝ) (hv : C01M.WFV v) (ho : C01M.WFV o)
    (haz : o.ty.az = v.ty.az) (hlon : o.ty.lon = v.ty.lon) (htmp : o.ty.tmp = v.ty.tmp)
    (hT1 : TanOKV v) (hT2 : TanOKV o) (hS1 : SinOKV v) (hS2 : SinOKV o)
    (hC1 : CanonTmpV v) (hC2 : CanonTmpV o) (hrep : RepAdd v o) :
    ∃ v' r p q, call evR K A "add" v [.v o] = .ok (.vec r) ∧ stepE evR K A v (.iopV .add o) = .ok v' ∧
      v'.ty = v.ty ∧ v'.c = r.c ∧ C01M.WFV v' ∧ denote v = some p ∧ denote o = some q ∧
      denote v' = some (List.zipWith (· + ·) p q) := by
  have hd : v.ty.dim = o.ty.dim := by simp only [VT.dim, hlon, htmp]
  obtain ⟨r, p, q, h1, h2, h3, -, -, -, h4, h5, h6⟩ := c11m_add K A v o hv ho hd hT1 hT2 hS1 hS2 hC1 hC2 hrep
  have hty : r.ty.az = v.ty.az ∧ r.ty.lon = v.ty.lon ∧ r.ty.tmp = v.ty.tmp := by
    rcases wfv_cases hv with ⟨be1, mom1, az1, a0, a1, rfl⟩ | ⟨be1, mom1, az1, l1, a0, a1, a2, rfl⟩ |
      ⟨be1, mom1, az1, l1, t1, a0, a1, a2, a3, rfl⟩ <;>
    rcases wfv_cases ho with ⟨be2, mom2, az2, b0, b1, rfl⟩ | ⟨be2, mom2, az2, l2, b0, b1, b2, rfl⟩ |
      ⟨be2, mom2, az2, l2, t2, b0, b1, b2, b3, rfl⟩ <;> try (simp [VT.dim] at hd; done)
    · simp only at haz; subst haz
      rw [add_eval2] at h1; cases h1
      simp only [planar_add_ret_same]
      exact ⟨rfl, trivial, trivial⟩
    · simp only [Option.some.injEq] at haz hlon; subst haz hlon
      rw [add_eval3] at h1; cases h1
      simp only [spatial_add_ret_same]
      exact ⟨rfl, rfl, trivial⟩
    · simp only [Option.some.injEq] at haz hlon htmp; subst haz hlon htmp
      rw [add_eval4] at h1; cases h1
      simp only [spatial_add_ret_same, tmpRes_same]
      exact ⟨rfl, rfl, trivial⟩
  obtain ⟨g1, g2⟩ := c15m_replaceData_same_system v r h2 hty.1 hty.2.1 hty.2.2
  have hs : stepE evR K A v (.iopV .add o) = replaceData evR v r :=
    c15_stepE_functional (st := .iopV .add o) (show iopResult evR K A v (.iopV .add o) = _ from h1)
  exact ⟨⟨v.ty, r.c⟩, r, p, q, h1, hs.trans g1, rfl, rfl, ⟨hv.1, by show r.c.length = _; rw [h2.2, h3]⟩, h4, h5,
    g2.trans h6⟩

/-- **`v -= o`**, likewise (for τ,τ storage the difference must be future-directed causal, `SubCausal`): the
functional difference is returned in that system, so `_replace_data` copies its coordinates VERBATIM — only the hypotheses of
`c11m_subtract`, none on the conversion -/
theorem c15m_iop_sub_same (K : Consts ℝ) (A : Arith ℝ) (v o : Vec ℝ) (hv : C01M.WFV v) (ho : C01M.WFV o)
    (haz : o.ty.az = v.ty.az) (hlon : o.ty.lon = v.ty.lon) (htmp : o.ty.tmp = v.ty.tmp)
    (hT1 : TanOKV v) (hT2 : TanOKV o) (hS1 : SinOKV v) (hS2 : SinOKV o)
    (hC1 : CanonTmpV v) (hC2 : CanonTmpV o) (hrep : RepSub v o) (hcaus : SubCausal v o) :
    ∃ v' r p q, call evR K A "subtract" v [.v o] = .ok (.vec r) ∧ stepE evR K A v (.iopV .sub o) = .ok v' ∧
      v'.ty = v.ty ∧ v'.c = r.c ∧ C01M.WFV v' ∧ denote v = some p ∧ denote o = some q ∧
      denote v' = some (List.zipWith (· - ·) p q) := by
  have hd : v.ty.dim = o.ty.dim := by simp only [VT.dim, hlon, htmp]
  obtain ⟨r, p, q, h1, h2, h3, -, -, -, h4, h5, h6⟩ := c11m_subtract K A v o hv ho hd hT1 hT2 hS1 hS2 hC1 hC2 hrep hcaus
  have hty : r.ty.az = v.ty.az ∧ r.ty.lon = v.ty.lon ∧ r.ty.tmp = v.ty.tmp := by
    rcases wfv_cases hv with ⟨be1, mom1, az1, a0, a1, rfl⟩ | ⟨be1, mom1, az1, l1, a0, a1, a2, rfl⟩ |
      ⟨be1, mom1, az1, l1, t1, a0, a1, a2, a3, rfl⟩ <;>
    rcases wfv_cases ho with ⟨be2, mom2, az2, b0, b1, rfl⟩ | ⟨be2, mom2, az2, l2, b0, b1, b2, rfl⟩ |
      ⟨be2, mom2, az2, l2, t2, b0, b1, b2, b3, rfl⟩ <;> try (simp [VT.dim] at hd; done)
    · simp only at haz; subst haz
      rw [subtract_eval2] at h1; cases h1
      simp only [planar_subtract_ret_same]
      exact ⟨rfl, trivial, trivial⟩
    · simp only [Option.some.injEq] at haz hlon; subst haz hlon
      rw [subtract_eval3] at h1; cases h1
      simp only [spatial_subtract_ret_same]
      exact ⟨rfl, rfl, trivial⟩
    · simp only [Option.some.injEq] at haz hlon htmp; subst haz hlon htmp
      rw [subtract_eval4] at h1; cases h1
      simp only [spatial_subtract_ret_same, tmpRes_same]
      exact ⟨rfl, rfl, trivial⟩
  obtain ⟨g1, g2⟩ := c15m_replaceData_same_system v r h2 hty.1 hty.2.1 hty.2.2
  have hs : stepE evR K A v (.iopV .sub o) = replaceData evR v r :=
    c15_stepE_functional (st := .iopV .sub o) (show iopResult evR K A v (.iopV .sub o) = _ from h1)
  exact ⟨⟨v.ty, r.c⟩, r, p, q, h1, hs.trans g1, rfl, rfl, ⟨hv.1, by show r.c.length = _; rw [h2.2, h3]⟩, h4, h5,
    g2.trans h6⟩

/-- the hypotheses are satisfiable: two (x, y, z, t) vectors of different flavor; the object keeps ITS flavor -/
example (K : Consts ℝ) (A : Arith ℝ) :
    ∃ v', stepE evR K A ⟨⟨.obj, false, .xy, some .z, some .t⟩, [1, 2, 3, 4]⟩
        (.iopV .add ⟨⟨.obj, true, .xy, some .z, some .t⟩, [5, 6, 7, 8]⟩) = .ok v' ∧
      v'.ty = ⟨.obj, false, .xy, some .z, some .t⟩ ∧ denote v' = some [6, 8, 10, 12] := by
  obtain ⟨v', r, p, q, -, h1, h2, -, -, h3, h4, h5⟩ := c15m_iop_add_same K A
    ⟨⟨.obj, false, .xy, some .z, some .t⟩, [1, 2, 3, 4]⟩ ⟨⟨.obj, true, .xy, some .z, some .t⟩, [5, 6, 7, 8]⟩
    ⟨fun _ => rfl, rfl⟩ ⟨fun _ => rfl, rfl⟩ rfl rfl rfl trivial trivial (fun _ => trivial) (fun _ => trivial) trivial
    trivial (fun _ => Or.inl rfl)
  refine ⟨v', h1, h2, ?_⟩
  have e3 : p = [1, 2, 3, 4] := by
    have : denote (⟨⟨.obj, false, .xy, some .z, some .t⟩, [1, 2, 3, 4]⟩ : Vec ℝ) = some [1, 2, 3, 4] := rfl
    rw [this] at h3; exact (Option.some.inj h3).symm
  have e4 : q = [5, 6, 7, 8] := by
    have : denote (⟨⟨.obj, true, .xy, some .z, some .t⟩, [5, 6, 7, 8]⟩ : Vec ℝ) = some [5, 6, 7, 8] := rfl
    rw [this] at h4; exact (Option.some.inj h4).symm
  rw [h5, e3, e4]
  simp only [List.zipWith]
  norm_num

/-! #### the representability hypotheses are NECESSARY (they are not artifacts of the proof) -/

/-- a vector stored with θ or η cannot denote a point ON the z axis other than the origin: whatever `_replace_data`
stores, if the functional result has `x = y = 0 ≠ z`, the object (which keeps its θ/η system) cannot denote it -/
theorem c15m_axis_unrepresentable (v' : Vec ℝ) (hv : C01M.WFV v')
    (h : v'.ty.lon = some .theta ∨ v'.ty.lon = some .eta) (x y z : ℝ) (rest : List ℝ)
    (hd : denote v' = some (x :: y :: z :: rest)) (hxy : x ^ 2 + y ^ 2 = 0) : z = 0 := by
  obtain ⟨-, hx, hy, hz⟩ := denote_spatial hv hd
  have hρ : rhoOf v'.ty.az (c3 v').1 (c3 v').2.1 = 0 := by
    have := Spec.sq_xOf_add_sq_yOf v'.ty.az (c3 v').1 (c3 v').2.1
    rw [← hx, ← hy, hxy] at this
    exact pow_eq_zero_iff (two_ne_zero) |>.mp this.symm
  rw [hz]
  rcases h with h | h <;> simp only [lonOf, h, Option.getD_some, zOf, hρ, zero_mul]

/-- a τ-stored vector always denotes a future-directed causal 4-vector (`0 ≤ t`, `|p|² ≤ t²`): if the functional
result of `+=` / `-=` is space-like or has negative energy, NO value of the stored coordinates of the (τ-keeping)
object denotes it — the in-place and the functional result necessarily differ -/
theorem c15m_tau_unrepresentable (v' : Vec ℝ) (h : v'.ty.tmp = some .tau) (x y z t : ℝ)
    (hd : denote v' = some [x, y, z, t]) : 0 ≤ t ∧ x ^ 2 + y ^ 2 + z ^ 2 ≤ t ^ 2 := by
  unfold denote at hd
  split at hd <;> try (simp at hd; done)
  next l t0 a b c d hl ht hc =>
    rw [h] at ht
    cases ht
    simp only [Option.some.injEq, List.cons.injEq, and_true] at hd
    obtain ⟨rfl, rfl, rfl, rfl⟩ := hd
    have hm : 0 ≤ mag2Of v'.ty.az l a b c := by unfold mag2Of; positivity
    simp only [tOf]
    refine ⟨sqrt_nonneg _, ?_⟩
    rw [sq_sqrt (by positivity)]
    have : xOf v'.ty.az a b ^ 2 + yOf v'.ty.az a b ^ 2 + zOf v'.ty.az l a b c ^ 2 = mag2Of v'.ty.az l a b c := rfl
    rw [this]
    nlinarith [sq_nonneg d]

/-- after ANY successful in-place operator on a τ-stored 4D object, the object denotes a future-directed causal
4-vector (its type, hence the τ storage, is kept) -/
theorem c15m_iop_tau_causal (K : Consts ℝ) (A : Arith ℝ) (v v' : Vec ℝ) (st : Step ℝ) (hst : st.isIop)
    (hτ : v.ty.tmp = some .tau) (h : stepE evR K A v st = .ok v') (x y z t : ℝ) (hd : denote v' = some [x, y, z, t]) :
    0 ≤ t ∧ x ^ 2 + y ^ 2 + z ^ 2 ≤ t ^ 2 :=
  c15m_tau_unrepresentable v' (by rw [(c15_stepE_iop_ty hst h).1]; exact hτ) x y z t hd

/-- **DISCREPANCY with the property text (in-place ≠ functional), concrete instance**: `p = (px=3, py=0, pz=0, mass=4)`
(so `E = 5`), `q = (0, 0, 0, E=9/2)`.  The functional `p - q` is the (x, y, z, t) vector denoting `(3, 0, 0, 1/2)`
(space-like); `p -= q` keeps the τ storage and therefore — whatever it stores — CANNOT denote that vector.  The
hypothesis `CartOK` (`|p|² ≤ t²` of the result for a τ-stored object) cannot be dropped. -/
theorem c15m_iop_sub_spacelike_counterexample (K : Consts ℝ) (A : Arith ℝ) :
    let p : Vec ℝ := ⟨⟨.obj, true, .xy, some .z, some .tau⟩, [3, 0, 0, 4]⟩
    let q : Vec ℝ := ⟨⟨.obj, true, .xy, some .z, some .t⟩, [0, 0, 0, 9 / 2]⟩
    ∃ r, call evR K A "subtract" p [.v q] = .ok (.vec r) ∧ denote r = some [3, 0, 0, 1 / 2] ∧
      ∀ v', stepE evR K A p (.iopV .sub q) = .ok v' → denote v' ≠ denote r := by
  intro p q
  have h25 : sqrt (25 : ℝ) = 5 := by
    rw [show (25 : ℝ) = 5 ^ 2 by norm_num]; exact sqrt_sq (by norm_num)
  have hdp : denote p = some [3, 0, 0, 5] := by
    simp only [p, denote, xOf, yOf, zOf, tOf, mag2Of]
    norm_num [h25]
  have hdq : denote q = some [0, 0, 0, 9 / 2] := rfl
  obtain ⟨r, p0, q0, h1, -, -, -, -, -, h4, h5, h6⟩ := c11m_subtract K A p q ⟨fun _ => rfl, rfl⟩ ⟨fun _ => rfl, rfl⟩
    rfl trivial trivial (fun _ => trivial) (fun _ => trivial) (show (0 : ℝ) ≤ 4 by norm_num) trivial
    (fun _ => Or.inl rfl) (fun _ e => by simp [q] at e)
  rw [hdp] at h4; cases h4
  rw [hdq] at h5; cases h5
  have hr : denote r = some [3, 0, 0, 1 / 2] := by
    rw [h6]; simp only [List.zipWith]; norm_num
  refine ⟨r, h1, hr, ?_⟩
  intro v' hs e
  rw [hr] at e
  have := (c15m_iop_tau_causal K A p v' (.iopV .sub q) rfl rfl hs 3 0 0 (1 / 2) e).2
  norm_num at this

/-! ### 4. whole histories of in-place operators -/

/-- the operation on Cartesian component lists behind an in-place arithmetic step -/
noncomputable def applyD : Step ℝ → List ℝ → Option (List ℝ)
  | .iopV .add o, p => (denote o).map (List.zipWith (· + ·) p)
  | .iopV .sub o, p => (denote o).map (List.zipWith (· - ·) p)
  | .iopS .mul f, p => some (p.map (f * ·))
  | .iopS .div f, p => some (p.map (· / f))
  | _, _ => none

/-- the fold of the operations of a history on a denotation -/
noncomputable def foldD : Option (List ℝ) → List (Step ℝ) → Option (List ℝ)
  | d, [] => d
  | d, st :: rest => foldD (d.bind (applyD st)) rest

/-- the representability predicate of ONE in-place step in state `v`: exactly the hypotheses of `c15m_iop_add`,
`c15m_iop_sub`, `c15m_iop_mul`, `c15m_iop_div` (other steps are not arithmetic in-place operators: `False`) -/
def Good (K : Consts ℝ) (A : Arith ℝ) (v : Vec ℝ) : Step ℝ → Prop
  | .iopV .add o => C01M.WFV o ∧ v.ty.dim = o.ty.dim ∧ TanOKV v ∧ TanOKV o ∧ SinOKV v ∧ SinOKV o ∧ CanonTmpV v ∧
      CanonTmpV o ∧ RepAdd v o ∧ ∀ r, call evR K A "add" v [.v o] = .ok (.vec r) → FwdOK r v.ty.lon v.ty.tmp
  | .iopV .sub o => C01M.WFV o ∧ v.ty.dim = o.ty.dim ∧ TanOKV v ∧ TanOKV o ∧ SinOKV v ∧ SinOKV o ∧ CanonTmpV v ∧
      CanonTmpV o ∧ RepSub v o ∧ SubCausal v o ∧
      ∀ r, call evR K A "subtract" v [.v o] = .ok (.vec r) → FwdOK r v.ty.lon v.ty.tmp
  | .iopS .mul f => ThetaRangeV v ∧ (v.ty.tmp = some .tau → 0 ≤ f)
  | .iopS .div f => A.inv f = f⁻¹ ∧ f ≠ 0 ∧ ThetaRangeV v ∧ (v.ty.tmp = some .tau → 0 < f)
  | _ => False

/-- **one good step**: it does not raise, keeps the whole type, and acts on the denotation as `applyD` -/
theorem c15m_step_denote (K : Consts ℝ) (A : Arith ℝ) (v : Vec ℝ) (hv : C01M.WFV v) (st : Step ℝ)
    (hg : Good K A v st) :
    ∃ v' p p', stepE evR K A v st = .ok v' ∧ step evR K A v st = (v', none) ∧ v'.ty = v.ty ∧ C01M.WFV v' ∧
      denote v = some p ∧ applyD st p = some p' ∧ denote v' = some p' := by
  rcases st with _ | _ | _ | ⟨op, o⟩ | ⟨op, f⟩
  · exact hg.elim
  · exact hg.elim
  · exact hg.elim
  · cases op
    · obtain ⟨ho, hd, hT1, hT2, hS1, hS2, hC1, hC2, hrep, hfwd⟩ := hg
      obtain ⟨v', r, p, q, -, h1, h2, h3, h4, h5, -, h6⟩ :=
        c15m_iop_add K A v o hv ho hd hT1 hT2 hS1 hS2 hC1 hC2 hrep hfwd
      exact ⟨v', p, _, h1, c15_step_ok h1, h2, h3, h4, by simp only [applyD, h5, Option.map_some], h6⟩
    · obtain ⟨ho, hd, hT1, hT2, hS1, hS2, hC1, hC2, hrep, hcaus, hfwd⟩ := hg
      obtain ⟨v', r, p, q, -, h1, h2, h3, h4, h5, -, h6⟩ :=
        c15m_iop_sub K A v o hv ho hd hT1 hT2 hS1 hS2 hC1 hC2 hrep hcaus hfwd
      exact ⟨v', p, _, h1, c15_step_ok h1, h2, h3, h4, by simp only [applyD, h5, Option.map_some], h6⟩
    · exact hg.elim
    · exact hg.elim
  · cases op
    · exact hg.elim
    · exact hg.elim
    · obtain ⟨hθ, hf⟩ := hg
      obtain ⟨v', p, h1, -, h2, h3, h4, h5⟩ := c15m_iop_mul K A v hv f hθ hf
      exact ⟨v', p, _, h1, c15_step_ok h1, h2, h3, h4, rfl, h5⟩
    · obtain ⟨hA, hf0, hθ, hf⟩ := hg
      obtain ⟨v', p, h1, -, h2, h3, h4, h5⟩ := c15m_iop_div K A v hv f hA hf0 hθ hf
      exact ⟨v', p, _, h1, c15_step_ok h1, h2, h3, h4, rfl, h5⟩

/-- every intermediate state of the history satisfies `Good` for the step applied to it (the explicit INVARIANT
hypothesis of `c15m_run_denote`, by recursion over the history: `Good` now, and `GoodRun` from the next state on) -/
def GoodRun (K : Consts ℝ) (A : Arith ℝ) : Vec ℝ → List (Step ℝ) → Prop
  | _, [] => True
  | v, st :: rest => Good K A v st ∧ GoodRun K A (step evR K A v st).1 rest

/-- the same invariant, stated over prefixes: for every split `steps = pre ++ st :: post`, the step `st` is `Good` in
the state reached after `pre` -/
theorem goodRun_iff_prefix (K : Consts ℝ) (A : Arith ℝ) :
    ∀ (steps : List (Step ℝ)) (v : Vec ℝ), GoodRun K A v steps ↔
      ∀ pre st post, steps = pre ++ st :: post → Good K A (runFinal evR K A v pre) st
  | [], v => by
    simp only [GoodRun, true_iff]
    intro pre st post h
    exact absurd h (by simp)
  | s :: rest, v => by
    rw [GoodRun, goodRun_iff_prefix K A rest]
    constructor
    · rintro ⟨h1, h2⟩ pre st post h
      cases pre with
      | nil => simp only [List.nil_append, List.cons.injEq] at h; rw [← h.1]; exact h1
      | cons a pre =>
        simp only [List.cons_append, List.cons.injEq] at h
        obtain ⟨rfl, h⟩ := h
        exact h2 pre st post h
    · intro h
      exact ⟨h [] s rest rfl, fun pre st post e => h (s :: pre) st post (by rw [e]; rfl)⟩

/-- **histories of in-place operators (`+=`, `-=` with vectors, `*=`, `/=` with scalars) on a vector in ANY storage**.
CONDITIONAL on the invariant `GoodRun` (every intermediate state satisfies the representability predicate `Good` of
the step applied to it; preservation of `Good` is NOT proved in general — it is a property of the particular numbers):
no step raises, the type (class, flavor, backend, coordinate system) never changes, and the final state denotes the
fold of the corresponding functional operations on the denotation of the initial state -/
theorem c15m_run_denote (K : Consts ℝ) (A : Arith ℝ) :
    ∀ (steps : List (Step ℝ)) (v : Vec ℝ), C01M.WFV v → GoodRun K A v steps →
      (runFinal evR K A v steps).ty = v.ty ∧ C01M.WFV (runFinal evR K A v steps) ∧
      (∀ r ∈ run evR K A v steps, r.2 = none ∧ r.1.ty = v.ty) ∧
      (∃ p, foldD (denote v) steps = some p ∧ denote (runFinal evR K A v steps) = some p)
  | [], v, hv, _ => by
    refine ⟨rfl, hv, by simp [run], ?_⟩
    rcases wfv_cases hv with ⟨be, mom, az, a, b, rfl⟩ | ⟨be, mom, az, l, a, b, c, rfl⟩ |
      ⟨be, mom, az, l, t, a, b, c, d, rfl⟩ <;> exact ⟨_, rfl, rfl⟩
  | st :: rest, v, hv, hg => by
    obtain ⟨hg1, hg2⟩ := hg
    obtain ⟨v', p, p', h1, h2, h3, h4, h5, h6, h7⟩ := c15m_step_denote K A v hv st hg1
    rw [h2] at hg2
    obtain ⟨i1, i2, i3, q, i4, i5⟩ := c15m_run_denote K A rest v' h4 hg2
    refine ⟨?_, ?_, ?_, q, ?_, ?_⟩
    · simp only [runFinal, h2]; rw [i1, h3]
    · simp only [runFinal, h2]; exact i2
    · intro r hr
      simp only [run, h2, List.mem_cons] at hr
      rcases hr with rfl | hr
      · exact ⟨rfl, h3⟩
      · exact ⟨(i3 r hr).1, (i3 r hr).2.trans h3⟩
    · simp only [foldD, h5, Option.bind_some, h6]; rw [← h7]; exact i4
    · simp only [runFinal, h2]; exact i5

/-! #### preservation of `Good` for scalar steps, and an example history -/

/-- admissible scalar steps: `*= f` with `0 ≤ f`, `/= f` with `0 < f` (and the reciprocal of the method layer the real one) -/
def ScalarOK (A : Arith ℝ) : Step ℝ → Prop
  | .iopS .mul f => 0 ≤ f
  | .iopS .div f => A.inv f = f⁻¹ ∧ 0 < f
  | _ => False

theorem thetaRangeV_of_ne (v : Vec ℝ) (h : v.ty.lon ≠ some .theta) : ThetaRangeV v := by
  unfold ThetaRangeV lonOf
  rcases hl : v.ty.lon with _ | l
  · trivial
  · cases l
    · trivial
    · exact absurd hl h
    · trivial

/-- **`Good` is PRESERVED along histories of admissible scalar steps on a vector not stored with θ** (the type never
changes, and for `z`/`η` storage `scale` has no hypothesis on the stored coordinates) -/
theorem goodRun_scalars (K : Consts ℝ) (A : Arith ℝ) :
    ∀ (steps : List (Step ℝ)) (v : Vec ℝ), v.ty.lon ≠ some .theta → (∀ st ∈ steps, ScalarOK A st) →
      GoodRun K A v steps
  | [], _, _, _ => trivial
  | st :: rest, v, hl, h => by
    have h1 := h st (by simp)
    have hty : (step evR K A v st).1.ty = v.ty := by
      rcases st with _ | _ | _ | ⟨op, o⟩ | ⟨op, f⟩ <;> first | exact h1.elim | exact c15_step_iop_ty rfl
    refine ⟨?_, goodRun_scalars K A rest _ (by rw [hty]; exact hl) (fun s hs => h s (by simp [hs]))⟩
    rcases st with _ | _ | _ | ⟨op, o⟩ | ⟨op, f⟩ <;> try exact h1.elim
    cases op <;> try exact h1.elim
    · exact ⟨thetaRangeV_of_ne v hl, fun _ => h1⟩
    · exact ⟨h1.1, h1.2.ne', thetaRangeV_of_ne v hl, fun _ => h1.2⟩

theorem lonOf_ne_theta (v : Vec ℝ) (h : v.ty.lon ≠ some .theta) : lonOf v ≠ .theta := by
  unfold lonOf
  rcases hl : v.ty.lon with _ | l
  · simp
  · intro e
    simp only [Option.getD_some] at e
    exact h (by rw [hl, e])

theorem tanOKV_of_ne (v : Vec ℝ) (h : v.ty.lon ≠ some .theta) : TanOKV v := by
  unfold TanOKV
  split
  · next l _ _ _ _ hl _ =>
    cases l
    · trivial
    · exact absurd hl h
    · trivial
  · trivial

theorem sinOKV_of_ne (v : Vec ℝ) (h : v.ty.lon ≠ some .theta) : SinOKV v := by
  intro _
  have := lonOf_ne_theta v h
  revert this
  cases lonOf v <;> intro h' <;> trivial

theorem canonTmpV_of_ne (o : Vec ℝ) (h : o.ty.tmp ≠ some .tau) : CanonTmpV o := by
  unfold CanonTmpV tmpOf
  rcases ht : o.ty.tmp with _ | t
  · trivial
  · cases t
    · trivial
    · exact absurd ht h

/-- the hypotheses of one step on the TYPE of the object, the operand, and on DENOTATIONS only (`d`: what the object
denotes before the step): scalar steps as in `ScalarOK`; `+=` / `-=` with a well-formed vector of the same dimension
stored in a different spatial system, not τ-stored (for a θ-stored operand: `cos θ ≠ 0`, `sin θ ≠ 0`), whose sum /
difference with `d` is representable in the object's system (`CartOK`) -/
def StepOKD (A : Arith ℝ) (ty : VT) (d : List ℝ) : Step ℝ → Prop
  | .iopV .add o => C01M.WFV o ∧ ty.dim = o.ty.dim ∧ (ty.az, ty.lon) ≠ (o.ty.az, o.ty.lon) ∧ o.ty.tmp ≠ some .tau ∧
      TanOKV o ∧ SinOKV o ∧ ∃ q, denote o = some q ∧ CartOK ty.lon ty.tmp (List.zipWith (· + ·) d q)
  | .iopV .sub o => C01M.WFV o ∧ ty.dim = o.ty.dim ∧ (ty.az, ty.lon) ≠ (o.ty.az, o.ty.lon) ∧ o.ty.tmp ≠ some .tau ∧
      TanOKV o ∧ SinOKV o ∧ ∃ q, denote o = some q ∧ CartOK ty.lon ty.tmp (List.zipWith (· - ·) d q)
  | .iopS .mul f => 0 ≤ f
  | .iopS .div f => A.inv f = f⁻¹ ∧ 0 < f
  | _ => False

/-- `StepOKD` along the history, the denotation evolving by `applyD` — a condition on real numbers only, no
intermediate STATE occurs -/
def RunOKD (A : Arith ℝ) (ty : VT) : List ℝ → List (Step ℝ) → Prop
  | _, [] => True
  | d, st :: rest => StepOKD A ty d st ∧ ∀ d', applyD st d = some d' → RunOKD A ty d' rest

/-- **preservation of `Good`, proved**: for a 3D / 4D object not stored with θ (any azimuthal system, `z` or `η`, `t` or
`τ ≥ 0`) the invariant `GoodRun` FOLLOWS from the condition `RunOKD` on the denotations -/
theorem c15m_goodRun_of_denotations (K : Consts ℝ) (A : Arith ℝ) :
    ∀ (steps : List (Step ℝ)) (v : Vec ℝ) (p : List ℝ), C01M.WFV v → v.ty.lon.isSome → v.ty.lon ≠ some .theta →
      CanonTmpV v → denote v = some p → RunOKD A v.ty p steps → GoodRun K A v steps
  | [], _, _, _, _, _, _, _, _ => trivial
  | st :: rest, v, p, hv, h3, hl, hC, hp, hrun => by
    obtain ⟨h1, h2⟩ := hrun
    rcases st with _ | _ | _ | ⟨op, o⟩ | ⟨op, f⟩
    · exact h1.elim
    · exact h1.elim
    · exact h1.elim
    · cases op
      · obtain ⟨ho, hd, hmix, hot, hT2, hS2, q, hq, H⟩ := h1
        obtain ⟨hrep, hfwd, v', g1, g2, g3, g4, g5⟩ := c15m_iop_add_mixed K A v o hv ho hd (tanOKV_of_ne v hl) hT2
          (sinOKV_of_ne v hl) hS2 hC (canonTmpV_of_ne o hot) h3 hmix (fun e => hot e.2) p q hp hq H
        refine ⟨⟨ho, hd, tanOKV_of_ne v hl, hT2, sinOKV_of_ne v hl, hS2, hC, canonTmpV_of_ne o hot, hrep, hfwd⟩, ?_⟩
        rw [c15_step_ok g1]
        exact c15m_goodRun_of_denotations K A rest v' _ g3 (g2 ▸ h3) (g2 ▸ hl) g4 g5
          (g2 ▸ h2 _ (by simp only [applyD, hq, Option.map_some]))
      · obtain ⟨ho, hd, hmix, hot, hT2, hS2, q, hq, H⟩ := h1
        obtain ⟨hrep, hfwd, v', g1, g2, g3, g4, g5⟩ := c15m_iop_sub_mixed K A v o hv ho hd (tanOKV_of_ne v hl) hT2
          (sinOKV_of_ne v hl) hS2 hC (canonTmpV_of_ne o hot) h3 hmix (fun e => hot e.2) p q hp hq H
        refine ⟨⟨ho, hd, tanOKV_of_ne v hl, hT2, sinOKV_of_ne v hl, hS2, hC, canonTmpV_of_ne o hot, hrep,
          fun e1 e2 => absurd e2 hot, hfwd⟩, ?_⟩
        rw [c15_step_ok g1]
        exact c15m_goodRun_of_denotations K A rest v' _ g3 (g2 ▸ h3) (g2 ▸ hl) g4 g5
          (g2 ▸ h2 _ (by simp only [applyD, hq, Option.map_some]))
      · exact h1.elim
      · exact h1.elim
    · cases op
      · exact h1.elim
      · exact h1.elim
      · obtain ⟨v', p0, g1, gc, g2, g3, g4, g5⟩ := c15m_iop_mul K A v hv f (thetaRangeV_of_ne v hl) (fun _ => h1)
        rw [hp] at g4; cases g4
        refine ⟨⟨thetaRangeV_of_ne v hl, fun _ => h1⟩, ?_⟩
        rw [c15_step_ok g1]
        exact c15m_goodRun_of_denotations K A rest v' _ g3 (g2 ▸ h3) (g2 ▸ hl) (scale_canonTmp K A v v' hv f h1 hC gc)
          g5 (g2 ▸ h2 _ rfl)
      · have hf' : 0 ≤ A.inv f := by rw [h1.1]; exact (inv_pos.mpr h1.2).le
        obtain ⟨v', p0, g1, gc, g2, g3, g4, g5⟩ :=
          c15m_iop_div K A v hv f h1.1 h1.2.ne' (thetaRangeV_of_ne v hl) (fun _ => h1.2)
        rw [hp] at g4; cases g4
        refine ⟨⟨h1.1, h1.2.ne', thetaRangeV_of_ne v hl, fun _ => h1.2⟩, ?_⟩
        rw [c15_step_ok g1]
        exact c15m_goodRun_of_denotations K A rest v' _ g3 (g2 ▸ h3) (g2 ▸ hl)
          (scale_canonTmp K A v v' hv (A.inv f) hf' hC gc) g5 (g2 ▸ h2 _ rfl)

/-- **histories on a 3D / 4D object not stored with θ, UNCONDITIONAL on intermediate states**: `RunOKD` (a condition on
the denotations only) implies that no step raises, the type is kept, and the final state denotes the fold -/
theorem c15m_run_denote_of_denotations (K : Consts ℝ) (A : Arith ℝ) (steps : List (Step ℝ)) (v : Vec ℝ) (p : List ℝ)
    (hv : C01M.WFV v) (h3 : v.ty.lon.isSome) (hl : v.ty.lon ≠ some .theta) (hC : CanonTmpV v) (hp : denote v = some p)
    (hrun : RunOKD A v.ty p steps) :
    (runFinal evR K A v steps).ty = v.ty ∧ C01M.WFV (runFinal evR K A v steps) ∧
      (∀ r ∈ run evR K A v steps, r.2 = none ∧ r.1.ty = v.ty) ∧
      (∃ p', foldD (some p) steps = some p' ∧ denote (runFinal evR K A v steps) = some p') := by
  have := c15m_run_denote K A steps v hv (c15m_goodRun_of_denotations K A steps v p hv h3 hl hC hp hrun)
  rwa [hp] at this

/-- **example history of length 3 on a (ρ, φ, η, τ) momentum vector**, `Good` throughout:
`p = MomentumObject4D(pt=3, phi=0, eta=0, mass=4)` (denoting `(3, 0, 0, 5)`); `p += (px=1, py=0, pz=0, E=2)`; `p *= 2`;
`p /= 4`.  The object stays a (ρ, φ, η, τ) momentum vector and finally denotes `((3,0,0,5) + (1,0,0,2)) · 2 / 4` -/
example (K : Consts ℝ) (A : Arith ℝ) (hA : A.inv 4 = 4⁻¹) :
    let v0 : Vec ℝ := ⟨⟨.obj, true, .rhophi, some .eta, some .tau⟩, [3, 0, 0, 4]⟩
    let o : Vec ℝ := ⟨⟨.obj, true, .xy, some .z, some .t⟩, [1, 0, 0, 2]⟩
    let hist : List (Step ℝ) := [.iopV .add o, .iopS .mul 2, .iopS .div 4]
    GoodRun K A v0 hist ∧ (runFinal evR K A v0 hist).ty = v0.ty ∧
      denote (runFinal evR K A v0 hist) = some [2, 0, 0, 7 / 2] := by
  intro v0 o hist
  have hv0 : C01M.WFV v0 := ⟨fun _ => rfl, rfl⟩
  have ho : C01M.WFV o := ⟨fun _ => rfl, rfl⟩
  have h25 : sqrt (25 : ℝ) = 5 := by
    rw [show (25 : ℝ) = 5 ^ 2 by norm_num]; exact sqrt_sq (by norm_num)
  have hd0 : denote v0 = some [3, 0, 0, 5] := by
    simp only [v0, denote, xOf, yOf, zOf, rhoOf, tOf, mag2Of, cos_zero, sin_zero, sinh_zero]
    norm_num [h25]
  have hdo : denote o = some [1, 0, 0, 2] := rfl
  have hmixed := c15m_iop_add_mixed K A v0 o hv0 ho rfl trivial trivial (fun _ => trivial) (fun _ => trivial)
    (show (0 : ℝ) ≤ 4 by norm_num) trivial rfl (by simp [v0, o]) (by simp [v0, o]) _ _ hd0 hdo
    (by simp only [CartOK, List.zipWith]; norm_num)
  obtain ⟨hrep, hfwd, -⟩ := hmixed
  have hG : GoodRun K A v0 hist := by
    refine ⟨⟨ho, rfl, trivial, trivial, fun _ => trivial, fun _ => trivial, show (0 : ℝ) ≤ 4 by norm_num, trivial,
      hrep, hfwd⟩, ?_⟩
    refine goodRun_scalars K A _ _ ?_ ?_
    · rw [c15_step_iop_ty (st := .iopV .add o) rfl]; simp [v0]
    · intro st hst
      simp only [List.mem_cons, List.mem_nil_iff, or_false] at hst
      rcases hst with rfl | rfl
      · exact (by norm_num : (0 : ℝ) ≤ 2)
      · exact ⟨hA, by norm_num⟩
  obtain ⟨h1, -, -, p, h2, h3⟩ := c15m_run_denote K A hist v0 hv0 hG
  refine ⟨hG, h1, ?_⟩
  rw [h3, ← h2, hd0]
  simp only [hist, foldD, applyD, hdo, Option.bind_some, Option.map_some, List.zipWith, List.map]
  norm_num

/-- **example history of length 4 with `+=` and `-=` in the middle**, same (ρ, φ, η, τ) momentum vector, through the
unconditional theorem: `p += (1,0,0,2)`; `p *= 2`; `p -= (1,0,0,1)`; `p /= 4`: denotations
`(3,0,0,5) → (4,0,0,7) → (8,0,0,14) → (7,0,0,13) → (7/4,0,0,13/4)`; `Good` holds throughout -/
example (K : Consts ℝ) (A : Arith ℝ) (hA : A.inv 4 = 4⁻¹) :
    let v0 : Vec ℝ := ⟨⟨.obj, true, .rhophi, some .eta, some .tau⟩, [3, 0, 0, 4]⟩
    let o1 : Vec ℝ := ⟨⟨.obj, true, .xy, some .z, some .t⟩, [1, 0, 0, 2]⟩
    let o2 : Vec ℝ := ⟨⟨.obj, false, .xy, some .z, some .t⟩, [1, 0, 0, 1]⟩
    let hist : List (Step ℝ) := [.iopV .add o1, .iopS .mul 2, .iopV .sub o2, .iopS .div 4]
    GoodRun K A v0 hist ∧ (runFinal evR K A v0 hist).ty = v0.ty ∧
      (∀ r ∈ run evR K A v0 hist, r.2 = none) ∧
      denote (runFinal evR K A v0 hist) = some [7 / 4, 0, 0, 13 / 4] := by
  intro v0 o1 o2 hist
  have hv0 : C01M.WFV v0 := ⟨fun _ => rfl, rfl⟩
  have h25 : sqrt (25 : ℝ) = 5 := by
    rw [show (25 : ℝ) = 5 ^ 2 by norm_num]; exact sqrt_sq (by norm_num)
  have hd0 : denote v0 = some [3, 0, 0, 5] := by
    simp only [v0, denote, xOf, yOf, zOf, rhoOf, tOf, mag2Of, cos_zero, sin_zero, sinh_zero]
    norm_num [h25]
  have hrun : RunOKD A v0.ty [3, 0, 0, 5] hist := by
    refine ⟨⟨⟨fun _ => rfl, rfl⟩, rfl, by simp [v0, o1], by simp [o1], trivial, fun _ => trivial, [1, 0, 0, 2], rfl, ?_⟩, ?_⟩
    · simp only [CartOK, List.zipWith]; norm_num
    intro d1 h1
    simp only [applyD, show denote o1 = some [1, 0, 0, 2] from rfl, Option.map_some, List.zipWith,
      Option.some.injEq] at h1
    subst h1
    refine ⟨(by norm_num : (0 : ℝ) ≤ 2), ?_⟩
    intro d2 h2
    simp only [applyD, List.map, Option.some.injEq] at h2
    subst h2
    refine ⟨⟨⟨fun _ => rfl, rfl⟩, rfl, by simp [v0, o2], by simp [o2], trivial, fun _ => trivial, [1, 0, 0, 1], rfl, ?_⟩, ?_⟩
    · simp only [CartOK, List.zipWith]; norm_num
    intro d3 h3
    simp only [applyD, show denote o2 = some [1, 0, 0, 1] from rfl, Option.map_some, List.zipWith,
      Option.some.injEq] at h3
    subst h3
    exact ⟨⟨hA, by norm_num⟩, fun _ _ => trivial⟩
  have hG := c15m_goodRun_of_denotations K A hist v0 _ hv0 rfl (by simp [v0]) (show (0 : ℝ) ≤ 4 by norm_num) hd0 hrun
  obtain ⟨h1, -, h2, p, h3, h4⟩ :=
    c15m_run_denote_of_denotations K A hist v0 _ hv0 rfl (by simp [v0]) (show (0 : ℝ) ≤ 4 by norm_num) hd0 hrun
  refine ⟨hG, h1, fun r hr => (h2 r hr).1, ?_⟩
  rw [h4, ← h3]
  simp only [hist, foldD, applyD, show denote o1 = some [1, 0, 0, 2] from rfl,
    show denote o2 = some [1, 0, 0, 1] from rfl, Option.bind_some, Option.map_some, List.zipWith, List.map]
  norm_num

/-! ### 5. a step that raises leaves the state AND the denotation unchanged -/

/-- **raising steps** (`Props/C15` instantiated for `evR`): the object — hence its type, stored coordinates and
denotation — is unchanged -/
theorem c15m_raise_unchanged (K : Consts ℝ) (A : Arith ℝ) (v : Vec ℝ) (st : Step ℝ) (e : Err)
    (h : (step evR K A v st).2 = some e) :
    (step evR K A v st).1 = v ∧ denote (step evR K A v st).1 = denote v ∧ stepE evR K A v st = .error e := by
  obtain ⟨h1, h2⟩ := c15_step_raise_unchanged h
  exact ⟨h1, by rw [h1], h2⟩

/-- the raising steps of the property text: `+=` / `-=` with a vector of a DIFFERENT dimension (TypeError), `*=` / `/=`
with a vector (TypeError), `+=` / `-=` with a scalar (TypeError), assignment to a read-only property (AttributeError) -/
theorem c15m_raising_steps (K : Consts ℝ) (A : Arith ℝ) (v o : Vec ℝ) (f : ℝ) :
    (o.ty.dim ≠ v.ty.dim → step evR K A v (.iopV .add o) = (v, some .typeError) ∧
      step evR K A v (.iopV .sub o) = (v, some .typeError)) ∧
    step evR K A v (.iopV .mul o) = (v, some .typeError) ∧
    step evR K A v (.iopV .div o) = (v, some .typeError) ∧
    step evR K A v (.iopS .add f) = (v, some .typeError) ∧
    step evR K A v (.iopS .sub f) = (v, some .typeError) ∧
    step evR K A v .setReadOnly = (v, some .attributeError) := by
  refine ⟨fun hd => ?_, rfl, rfl, rfl, rfl, rfl⟩
  have hb : (o.ty.dim != v.ty.dim) = true := by simpa using hd
  constructor <;> simp [step, stepE, iopResult, binary, hb]

/-- … and a history continues from the unchanged state after a raising step -/
theorem c15m_run_raise_skip (K : Consts ℝ) (A : Arith ℝ) (v : Vec ℝ) (st : Step ℝ) (e : Err) (rest : List (Step ℝ))
    (h : stepE evR K A v st = .error e) :
    runFinal evR K A v (st :: rest) = runFinal evR K A v rest ∧
    denote (runFinal evR K A v (st :: rest)) = denote (runFinal evR K A v rest) := by
  have := (c15_run_raise_skip (K := K) (A := A) rest h).2
  exact ⟨this, by rw [this]⟩

end C15M
end VR
