/-
C06 — constructors accept the documented coordinate sets and store them verbatim.

Theorems about the hand-written constructor model `VectorModel/Glue/Ctor.lean` (`vector.obj`, the
`VectorObject*D` / `MomentumObject*D` classes, `vector.array`, `vector.zip`, `vector.Array`) for ALL 2^19 sets of the
19 recognised names (+ the bit "an unrecognised name is present").  A name set is `n : NS` (membership bits grouped into
azimuthal / longitudinal / temporal names); every statement is proved by exhaustive evaluation of the group functions
(128 / 16 / 256 cases) and a symbolic composition.  List versions (`objModel s`, `Doc s`, …) are instances at
`n := NS.ofList s`.

Summary of what is TRUE of the code (see the individual theorems):
* `vector.obj` = documented grammar, EXCEPT on the 48 sets whose temporal names are exactly {E, e} or exactly {M, m}
  (complete azimuthal pair + one longitudinal name): accepted, `e` resp. `m` silently wins.
* the object classes accept exactly the sets whose GENERIC IMAGE is a documented set of their dimension: they agree with
  the grammar on sets without two spellings of one coordinate, accept every set with repeated spellings
  (`VectorObject2D(x=, px=, y=)`: the later keyword wins), and the flavor is the class, never the spelling.
* the array constructors build a vector only from a complete documented subset, the rest is carried as extra fields;
  `vector.array` decides flavor and dimension from ALL names (extras included) and raises `ValueError` (not `TypeError`)
  on repeated spellings.
-/
import VectorModel.Glue.Ctor

set_option linter.unusedVariables false
set_option linter.constructorNameAsVariable false

namespace VG
open VK

/-! ### bookkeeping -/

/-- a documented result, or `TypeError` -/
def docE : Option CtorRes → Except CtorErr CtorRes
  | some r => .ok r
  | none => .error .typeError

/-- the slots of `r` hold supplied names of `n`, each a spelling of the slot's own coordinate ("stored verbatim") -/
def Stored (n : NS) (r : CtorRes) : Prop := r.wf = true ∧ ∀ k ∈ r.fillers, n.has k = true

def azGood (a : AzN) (c : AzC) : Bool :=
  c.2.1.coord == c.1.c1 && c.2.2.coord == c.1.c2 && a.has c.2.1 && a.has c.2.2
def lonGood (l : LonN) (c : LonC) : Bool := c.2.coord == c.1.coord && l.has c.2
def tmpGood (t : TmpN) (c : TmpC) : Bool := c.2.coord == c.1.coord && t.has c.2
def lonGoodO (l : LonN) : Option LonC → Bool | some c => lonGood l c | none => true
def tmpGoodO (t : TmpN) : Option TmpC → Bool | some c => tmpGood t c | none => true

private theorem AzN.forall {P : AzN → Prop} (h : ∀ x px y py rho pt phi, P ⟨x, px, y, py, rho, pt, phi⟩) : ∀ a, P a :=
  fun ⟨x, px, y, py, rho, pt, phi⟩ => h x px y py rho pt phi
private theorem LonN.forall {P : LonN → Prop} (h : ∀ z pz theta eta, P ⟨z, pz, theta, eta⟩) : ∀ l, P l :=
  fun ⟨z, pz, theta, eta⟩ => h z pz theta eta
private theorem TmpN.forall {P : TmpN → Prop} (h : ∀ t E e energy tau M m mass, P ⟨t, E, e, energy, tau, M, m, mass⟩) :
    ∀ t, P t :=
  fun ⟨t, E, e, energy, tau, M, m, mass⟩ => h t E e energy tau M m mass

theorem NS.has_ofList (s : List CN) (k : CN) : (NS.ofList s).has k = s.contains k := by
  cases k <;> simp [NS.ofList, NS.ofP, NS.has, AzN.ofP, LonN.ofP, TmpN.ofP, AzN.has, LonN.has, TmpN.has]

/-- a name set only depends on membership: order and repetitions of the list are irrelevant -/
theorem NS.ofList_congr {s s' : List CN} (h : ∀ k, k ∈ s ↔ k ∈ s') : NS.ofList s = NS.ofList s' := by
  have hc : ∀ k, s.contains k = s'.contains k := by
    intro k
    have := h k
    rw [Bool.eq_iff_iff]; simpa using this
  simp only [NS.ofList, NS.ofP, AzN.ofP, LonN.ofP, TmpN.ofP, hc]

private theorem stored_of_parts' {n : NS} {mom : Bool} {az : Az} {a1 a2 : CN} {lon : Option LonC} {tmp : Option TmpC}
    (h1 : a1.coord = az.c1) (h2 : a2.coord = az.c2) (h3 : n.has a1 = true) (h4 : n.has a2 = true)
    (hl : ∀ c k, lon = some (c, k) → k.coord = c.coord ∧ n.has k = true)
    (ht : ∀ c k, tmp = some (c, k) → k.coord = c.coord ∧ n.has k = true)
    (htl : tmp.isSome = true → lon.isSome = true) : Stored n ⟨mom, az, a1, a2, lon, tmp⟩ := by
  rcases lon with _ | ⟨lc, lk⟩ <;> rcases tmp with _ | ⟨tc, tk⟩
  · simp_all [Stored, CtorRes.wf, CtorRes.fillers, CtorRes.slots]
  · simp at htl
  · have := hl lc lk rfl
    simp_all [Stored, CtorRes.wf, CtorRes.fillers, CtorRes.slots]
  · have := hl lc lk rfl
    have := ht tc tk rfl
    simp_all [Stored, CtorRes.wf, CtorRes.fillers, CtorRes.slots]

private theorem stored_of_parts {n : NS} {mom : Bool} {az : Az} {a1 a2 : CN} {lon : Option LonC} {tmp : Option TmpC}
    (ha : azGood n.a (az, a1, a2) = true) (hl : lonGoodO n.l lon = true) (ht : tmpGoodO n.t tmp = true)
    (htl : tmp.isSome = true → lon.isSome = true) : Stored n ⟨mom, az, a1, a2, lon, tmp⟩ := by
  simp only [azGood, Bool.and_eq_true, beq_iff_eq] at ha
  obtain ⟨⟨⟨h1, h2⟩, h3⟩, h4⟩ := ha
  refine stored_of_parts' h1 h2 (by simp [NS.has, h3]) (by simp [NS.has, h4]) ?_ ?_ htl
  · rintro c k rfl
    simp only [lonGoodO, lonGood, Bool.and_eq_true, beq_iff_eq] at hl
    exact ⟨hl.1, by simp [NS.has, hl.2]⟩
  · rintro c k rfl
    simp only [tmpGoodO, tmpGood, Bool.and_eq_true, beq_iff_eq] at ht
    exact ⟨ht.1, by simp [NS.has, ht.2]⟩

/-! ### (a) `vector.obj` against the documented grammar -/

/-- the temporal names are exactly {E, e} or exactly {M, m} -/
def TmpN.aliasPair (t : TmpN) : Bool :=
  t == ⟨false, true, true, false, false, false, false, false⟩ || t == ⟨false, false, false, false, false, true, true, false⟩

theorem c06_obj_az_eq_doc : ∀ a, objAz a = docAz a := AzN.forall (by decide)
theorem c06_obj_lon_eq_doc : ∀ l, objLon l = docLon l := LonN.forall (by decide)
theorem c06_obj_tmp_eq_doc : ∀ t, t.aliasPair = false → objTmp t = docTmp t := TmpN.forall (by decide)

/-- {E, e}: both are popped into `generic_coordinates["t"]`, `e` overwrites `E`; the grammar forbids the set -/
theorem c06_obj_tmp_Ee : objTmp ⟨false, true, true, false, false, false, false, false⟩ = some (some (.t, .e))
    ∧ docTmp ⟨false, true, true, false, false, false, false, false⟩ = none := by decide
/-- {M, m}: `m` overwrites `M` -/
theorem c06_obj_tmp_Mm : objTmp ⟨false, false, false, false, false, true, true, false⟩ = some (some (.tau, .m))
    ∧ docTmp ⟨false, false, false, false, false, true, true, false⟩ = none := by decide

/-- **`vector.obj` = documented grammar** on every name set whose temporal names are not exactly {E, e} / {M, m}:
the documented sets are accepted with the documented dimension, coordinate system, flavor and slot contents, every other
set (missing partner, two coordinates of one group, a coordinate spelled twice through synonyms, temporal without
longitudinal, unrecognised name) raises `TypeError`. -/
theorem c06_obj_partial (n : NS) (h : n.t.aliasPair = false) : objB n = docE (docB n) := by
  unfold objB docB
  rw [c06_obj_az_eq_doc, c06_obj_lon_eq_doc, c06_obj_tmp_eq_doc _ h]
  cases n.other <;> simp only [Bool.false_eq_true, if_true, if_false, docE]
  rcases docAz n.a with _ | ⟨az, a1, a2⟩ <;> rcases docLon n.l with _ | _ | l <;> rcases docTmp n.t with _ | _ | t <;> rfl

def TmpN.Ee : TmpN := ⟨false, true, true, false, false, false, false, false⟩
def TmpN.Mm : TmpN := ⟨false, false, false, false, false, true, true, false⟩

theorem TmpN.aliasPair_iff : ∀ t : TmpN, t.aliasPair = true ↔ t = .Ee ∨ t = .Mm := TmpN.forall (by decide)

/-- **the exceptions**: with a documented azimuthal pair and exactly one longitudinal name, `E=` together with `e=`
(resp. `M=` with `m=`) is ACCEPTED by `vector.obj` — a momentum 4D vector whose `t` holds the value given as `e`
(resp. `tau` the value given as `m`) — although the grammar forbids spelling one coordinate twice.
Real code: `vector.obj(x=1, y=2, z=3, E=4, e=5)` → `MomentumObject4D(px=1, py=2, pz=3, E=5)`. -/
theorem c06_obj_accepts_duplicate_temporal (n : NS) (ho : n.other = false) {az : Az} {a1 a2 : CN} {l : LonC}
    (ha : docAz n.a = some (az, a1, a2)) (hl : docLon n.l = some (some l)) :
    (n.t = .Ee → objB n = .ok ⟨true, az, a1, a2, some l, some (.t, .e)⟩ ∧ docB n = none) ∧
    (n.t = .Mm → objB n = .ok ⟨true, az, a1, a2, some l, some (.tau, .m)⟩ ∧ docB n = none) := by
  constructor <;> intro ht
  · have h1 := c06_obj_tmp_Ee
    have hm : n.anyMom = true := by simp [NS.anyMom, ht, TmpN.Ee, TmpN.anyMom]
    simp only [objB, docB, ho, c06_obj_az_eq_doc, c06_obj_lon_eq_doc, ha, hl, ht, TmpN.Ee, h1.1, h1.2, hm]
    simp
  · have h1 := c06_obj_tmp_Mm
    have hm : n.anyMom = true := by simp [NS.anyMom, ht, TmpN.Mm, TmpN.anyMom]
    simp only [objB, docB, ho, c06_obj_az_eq_doc, c06_obj_lon_eq_doc, ha, hl, ht, TmpN.Mm, h1.1, h1.2, hm]
    simp

/-- characteristic function of the exceptions -/
def objCex (n : NS) : Bool :=
  !n.other && n.t.aliasPair && (docAz n.a).isSome && (match docLon n.l with | some (some _) => true | _ => false)

/-- **exact set of disagreements** between `vector.obj` and the documented grammar -/
theorem c06_obj_eq_doc_iff (n : NS) : objB n = docE (docB n) ↔ objCex n = false := by
  cases hp : n.t.aliasPair
  · simp [c06_obj_partial n hp, objCex, hp]
  · rcases (TmpN.aliasPair_iff _).1 hp with ht | ht
    · have h1 := c06_obj_tmp_Ee
      rw [ht] at hp; simp only [TmpN.Ee] at hp
      simp only [objB, docB, objCex, hp, c06_obj_az_eq_doc, c06_obj_lon_eq_doc, ht, TmpN.Ee, h1.1, h1.2]
      cases n.other <;> rcases docAz n.a with _ | ⟨az, a1, a2⟩ <;> rcases docLon n.l with _ | _ | l <;> simp [docE]
    · have h1 := c06_obj_tmp_Mm
      rw [ht] at hp; simp only [TmpN.Mm] at hp
      simp only [objB, docB, objCex, hp, c06_obj_az_eq_doc, c06_obj_lon_eq_doc, ht, TmpN.Mm, h1.1, h1.2]
      cases n.other <;> rcases docAz n.a with _ | ⟨az, a1, a2⟩ <;> rcases docLon n.l with _ | _ | l <;> simp [docE]

def boolUniv : List Bool := [false, true]
def AzN.univ : List AzN :=
  boolUniv.flatMap fun x => boolUniv.flatMap fun px => boolUniv.flatMap fun y => boolUniv.flatMap fun py =>
  boolUniv.flatMap fun rho => boolUniv.flatMap fun pt => boolUniv.map fun phi => ⟨x, px, y, py, rho, pt, phi⟩
def LonN.univ : List LonN :=
  boolUniv.flatMap fun z => boolUniv.flatMap fun pz => boolUniv.flatMap fun theta => boolUniv.map fun eta => ⟨z, pz, theta, eta⟩
def TmpN.univ : List TmpN :=
  boolUniv.flatMap fun t => boolUniv.flatMap fun E => boolUniv.flatMap fun e => boolUniv.flatMap fun energy =>
  boolUniv.flatMap fun tau => boolUniv.flatMap fun M => boolUniv.flatMap fun m => boolUniv.map fun mass =>
    ⟨t, E, e, energy, tau, M, m, mass⟩
theorem mem_boolUniv (b : Bool) : b ∈ boolUniv := by cases b <;> simp [boolUniv]
theorem AzN.mem_univ : ∀ a : AzN, a ∈ AzN.univ := by
  intro ⟨x, px, y, py, rho, pt, phi⟩
  simp only [AzN.univ, List.mem_flatMap, List.mem_map]
  exact ⟨x, mem_boolUniv _, px, mem_boolUniv _, y, mem_boolUniv _, py, mem_boolUniv _, rho, mem_boolUniv _,
    pt, mem_boolUniv _, phi, mem_boolUniv _, rfl⟩
theorem LonN.mem_univ : ∀ l : LonN, l ∈ LonN.univ := by
  intro ⟨z, pz, theta, eta⟩
  simp only [LonN.univ, List.mem_flatMap, List.mem_map]
  exact ⟨z, mem_boolUniv _, pz, mem_boolUniv _, theta, mem_boolUniv _, eta, mem_boolUniv _, rfl⟩
theorem TmpN.mem_univ : ∀ t : TmpN, t ∈ TmpN.univ := by
  intro ⟨t, E, e, energy, tau, M, m, mass⟩
  simp only [TmpN.univ, List.mem_flatMap, List.mem_map]
  exact ⟨t, mem_boolUniv _, E, mem_boolUniv _, e, mem_boolUniv _, energy, mem_boolUniv _, tau, mem_boolUniv _,
    M, mem_boolUniv _, m, mem_boolUniv _, mass, mem_boolUniv _, rfl⟩

/-- the name sets on which `vector.obj` deviates from the grammar, listed -/
def objCexList : List NS :=
  (AzN.univ.filter fun a => (docAz a).isSome).flatMap fun a =>
  (LonN.univ.filter fun l => match docLon l with | some (some _) => true | _ => false).flatMap fun l =>
  (TmpN.univ.filter TmpN.aliasPair).map fun t => ⟨a, l, t, false⟩

/-- there are exactly 48 of them: 6 azimuthal pairs × 4 longitudinal names × {E+e, M+m} -/
theorem c06_obj_counterexamples_count : objCexList.length = 48 := by decide

theorem c06_obj_counterexamples_mem (n : NS) : n ∈ objCexList ↔ objB n ≠ docE (docB n) := by
  rw [Ne, c06_obj_eq_doc_iff]
  rcases n with ⟨a, l, t, o⟩
  simp only [objCexList, List.mem_flatMap, List.mem_map, List.mem_filter, AzN.mem_univ, LonN.mem_univ, TmpN.mem_univ,
    true_and, objCex]
  constructor
  · rintro ⟨a', ha, l', hl, t', ht, h⟩
    cases h
    simp [ha, hl, ht]
  · intro h
    cases o <;> simp at h
    obtain ⟨h1, h2, h3⟩ := h
    exact ⟨a, h2, l, h3, t, h1, rfl⟩

/-- on a documented set `vector.obj` builds exactly the documented vector -/
theorem c06_obj_documented (n : NS) {d : CtorRes} (h : docB n = some d) : objB n = .ok d := by
  have hp : n.t.aliasPair = false := by
    cases hp : n.t.aliasPair
    · rfl
    · exfalso
      have : docTmp n.t = none := by
        rcases (TmpN.aliasPair_iff _).1 hp with ht | ht
        · rw [ht]; exact c06_obj_tmp_Ee.2
        · rw [ht]; exact c06_obj_tmp_Mm.2
      simp only [docB, this] at h
      cases n.other <;> rcases docAz n.a with _ | ⟨az, a1, a2⟩ <;> rcases docLon n.l with _ | _ | l <;> simp at h
  rw [c06_obj_partial n hp, h]; rfl

/-- `vector.obj` rejects with `TypeError` every undocumented set (outside the 48 exceptions) -/
theorem c06_obj_rejects (n : NS) (h : docB n = none) (hp : n.t.aliasPair = false) : objB n = .error .typeError := by
  rw [c06_obj_partial n hp, h]; rfl

/-- an unrecognised name is always a `TypeError` -/
theorem c06_obj_unknown_rejected (n : NS) (h : n.other = true) : objB n = .error .typeError := by
  simp [objB, h]

/-! list versions -/

theorem c06_obj_model_partial (s : List CN) (h : (NS.ofList s).t.aliasPair = false) : objModel s = docE (Doc s) :=
  c06_obj_partial _ h

/-- the result of `vector.obj` does not depend on the order of the keywords -/
theorem c06_obj_order_irrelevant {s s' : List CN} (h : ∀ k, k ∈ s ↔ k ∈ s') : objModel s = objModel s' := by
  unfold objModel; rw [NS.ofList_congr h]

theorem c06_doc_order_irrelevant {s s' : List CN} (h : ∀ k, k ∈ s ↔ k ∈ s') : Doc s = Doc s' := by
  unfold Doc; rw [NS.ofList_congr h]

example : objModel [.x, .y, .z, .E, .e] = .ok ⟨true, .xy, .x, .y, some (.z, .z), some (.t, .e)⟩ ∧ Doc [.x, .y, .z, .E, .e] = none := by decide
example : objModel [.pt, .phi, .eta, .m, .M] = .ok ⟨true, .rhophi, .pt, .phi, some (.eta, .eta), some (.tau, .m)⟩ := by decide
example : objModel [.x, .y, .z, .E, .energy] = .error .typeError := by decide
example : objModel [.x, .px, .y] = .error .typeError := by decide
example : objModel [.x, .y, .t] = .error .typeError := by decide
example : objModel [.pt, .phi, .eta, .mass] = .ok ⟨true, .rhophi, .pt, .phi, some (.eta, .eta), some (.tau, .mass)⟩ := by decide

/-! ### (b) stored verbatim -/

private theorem objAz_good : ∀ a, (match objAz a with | some c => azGood a c | none => true) = true := AzN.forall (by decide)
private theorem objLon_good : ∀ l, (match objLon l with | some c => lonGoodO l c | none => true) = true := LonN.forall (by decide)
private theorem objTmp_good : ∀ t, (match objTmp t with | some c => tmpGoodO t c | none => true) = true := TmpN.forall (by decide)

/-- **`vector.obj` stores verbatim**: whenever it accepts (the 48 exceptions included), every slot of the result holds the
value supplied under a name of the call that is a spelling of exactly that slot's coordinate; no value is computed,
converted or moved to another coordinate. -/
theorem c06_obj_verbatim (n : NS) {r : CtorRes} (h : objB n = .ok r) : Stored n r := by
  have hA := objAz_good n.a; have hL := objLon_good n.l; have hT := objTmp_good n.t
  unfold objB at h
  cases ho : n.other <;> simp only [ho, if_true, if_false, Bool.false_eq_true] at h
  · rcases hA' : objAz n.a with _ | ⟨az, a1, a2⟩ <;> rcases hL' : objLon n.l with _ | _ | l <;>
      rcases hT' : objTmp n.t with _ | _ | t <;> simp only [hA', hL', hT'] at h hA hL hT <;> cases h
    · exact stored_of_parts hA hL hT (by simp)
    · exact stored_of_parts hA hL hT (by simp)
    · exact stored_of_parts hA hL hT (by simp)
  · cases h

/-- the pairs (coordinate system, names) that are well-formed -/
private theorem wf_az : ∀ (az : Az) (a1 a2 : CN), (a1.coord == az.c1 && a2.coord == az.c2) = true →
    (az, a1, a2) ∈ [(Az.xy, CN.x, CN.y), (.xy, .x, .py), (.xy, .px, .y), (.xy, .px, .py), (.rhophi, .rho, .phi), (.rhophi, .pt, .phi)] := by
  intro az a1 a2; cases az <;> cases a1 <;> cases a2 <;> decide
private theorem wf_lon : ∀ (c : Lon) (k : CN), (k.coord == c.coord) = true →
    (c, k) ∈ [(Lon.z, CN.z), (.z, .pz), (.theta, .theta), (.eta, .eta)] := by
  intro c k; cases c <;> cases k <;> decide
private theorem wf_tmp : ∀ (c : Tmp) (k : CN), (k.coord == c.coord) = true →
    (c, k) ∈ [(Tmp.t, CN.t), (.t, .E), (.t, .e), (.t, .energy), (.tau, .tau), (.tau, .M), (.tau, .m), (.tau, .mass)] := by
  intro c k; cases c <;> cases k <;> decide

/-- **a well-formed result is a documented vector**: the names stored in its slots form a documented (in particular
COMPLETE) coordinate set, and the documented meaning of that set is the result itself — same coordinate system, same
dimension, same slot contents — with the documented flavor "momentum iff one of the names is a momentum spelling". -/
theorem c06_wf_documented (r : CtorRes) (h : r.wf = true) :
    Doc r.fillers = some { r with mom := r.fillers.any CN.isMom } := by
  rcases r with ⟨mom, az, a1, a2, lon, tmp⟩
  rcases lon with _ | ⟨lc, lk⟩ <;> rcases tmp with _ | ⟨tc, tk⟩ <;>
    simp only [CtorRes.wf, CtorRes.fillers, CtorRes.slots, List.map, List.cons_append, List.nil_append, List.append_nil,
      Option.isNone_none, Option.isSome_none, Option.isNone_some, Option.isSome_some, Bool.or_false, Bool.or_true,
      Bool.and_true, Bool.and_false, beq_iff_eq, List.cons.injEq, and_true, Bool.false_eq_true] at h
  · have ha := wf_az az a1 a2 (by simp [h.1, h.2])
    simp only [List.mem_cons, List.not_mem_nil, or_false, Prod.mk.injEq] at ha
    rcases ha with ⟨rfl, rfl, rfl⟩ | ⟨rfl, rfl, rfl⟩ | ⟨rfl, rfl, rfl⟩ | ⟨rfl, rfl, rfl⟩ | ⟨rfl, rfl, rfl⟩ | ⟨rfl, rfl, rfl⟩ <;> rfl
  · have ha := wf_az az a1 a2 (by simp [h.1, h.2.1])
    have hl := wf_lon lc lk (by simp [h.2.2])
    simp only [List.mem_cons, List.not_mem_nil, or_false, Prod.mk.injEq] at ha hl
    rcases ha with ⟨rfl, rfl, rfl⟩ | ⟨rfl, rfl, rfl⟩ | ⟨rfl, rfl, rfl⟩ | ⟨rfl, rfl, rfl⟩ | ⟨rfl, rfl, rfl⟩ | ⟨rfl, rfl, rfl⟩ <;>
      rcases hl with ⟨rfl, rfl⟩ | ⟨rfl, rfl⟩ | ⟨rfl, rfl⟩ | ⟨rfl, rfl⟩ <;> rfl
  · have ha := wf_az az a1 a2 (by simp [h.1, h.2.1])
    have hl := wf_lon lc lk (by simp [h.2.2.1])
    have ht := wf_tmp tc tk (by simp [h.2.2.2])
    simp only [List.mem_cons, List.not_mem_nil, or_false, Prod.mk.injEq] at ha hl ht
    rcases ha with ⟨rfl, rfl, rfl⟩ | ⟨rfl, rfl, rfl⟩ | ⟨rfl, rfl, rfl⟩ | ⟨rfl, rfl, rfl⟩ | ⟨rfl, rfl, rfl⟩ | ⟨rfl, rfl, rfl⟩ <;>
      rcases hl with ⟨rfl, rfl⟩ | ⟨rfl, rfl⟩ | ⟨rfl, rfl⟩ | ⟨rfl, rfl⟩ <;>
      rcases ht with ⟨rfl, rfl⟩ | ⟨rfl, rfl⟩ | ⟨rfl, rfl⟩ | ⟨rfl, rfl⟩ | ⟨rfl, rfl⟩ | ⟨rfl, rfl⟩ | ⟨rfl, rfl⟩ | ⟨rfl, rfl⟩ <;> rfl

/-! ### (a) the object classes `VectorObject{2,3,4}D`, `MomentumObject{2,3,4}D` -/

/-- `kwargs[c]` after the renaming loop: the last given spelling of `c` -/
def pick (n : NS) (pr : CN → Nat) (c : Coord) : Option CN := pickMax pr (c.syn.filter n.has)

theorem pickMax_mem (pr : CN → Nat) : ∀ (l : List CN) (k : CN), pickMax pr l = some k → k ∈ l := by
  intro l
  induction l with
  | nil => intro k h; cases h
  | cons a rest ih =>
    intro k h
    unfold pickMax at h
    rcases hr : pickMax pr rest with _ | k'
    · simp only [hr] at h; cases h; simp
    · simp only [hr] at h
      split at h <;> cases h
      · exact List.mem_cons_of_mem _ (ih _ hr)
      · simp

theorem pickMax_isSome (pr : CN → Nat) : ∀ l : List CN, (pickMax pr l).isSome = !l.isEmpty := by
  intro l
  cases l with
  | nil => rfl
  | cons a rest =>
    unfold pickMax
    rcases pickMax pr rest with _ | k'
    · rfl
    · simp only []; split <;> rfl

theorem syn_coord : ∀ (c : Coord) (k : CN), k ∈ c.syn → k.coord = c := by
  intro c k; cases c <;> cases k <;> decide

/-- the value stored under the generic key `c` was given under a spelling of `c` -/
theorem pick_good {n : NS} {pr : CN → Nat} {c : Coord} {k : CN} (h : pick n pr c = some k) : k.coord = c ∧ n.has k = true := by
  have := pickMax_mem pr _ _ h
  rw [List.mem_filter] at this
  exact ⟨syn_coord _ _ this.1, this.2⟩

theorem pick_isSome (n : NS) (pr : CN → Nat) (c : Coord) : (pick n pr c).isSome = c.syn.any n.has := by
  unfold pick; rw [pickMax_isSome]
  cases c <;> simp only [Coord.syn, List.filter, List.any] <;> (repeat' split) <;> simp_all

def azOfKW : Option CN → Option CN → Option CN → Option CN → Option AzC
  | some vx, some vy, none, none => some (.xy, vx, vy)
  | none, none, some vr, some vp => some (.rhophi, vr, vp)
  | _, _, _, _ => none
def lonOfKW : Option CN → Option CN → Option CN → Option (Option LonC)
  | none, none, none => some none
  | some v, none, none => some (some (.z, v))
  | none, some v, none => some (some (.theta, v))
  | none, none, some v => some (some (.eta, v))
  | _, _, _ => none
def tmpOfKW : Option CN → Option CN → Option (Option TmpC)
  | none, none => some none
  | some v, none => some (some (.t, v))
  | none, some v => some (some (.tau, v))
  | _, _ => none

/-- the three class constructors as ONE rule: a complete azimuthal pair, at most one longitudinal and at most one temporal
generic key, temporal only with longitudinal, and the number of coordinates must be the dimension of the class -/
def classComb (dim : Nat) (mom : Bool) : Option AzC → Option (Option LonC) → Option (Option TmpC) → Except CtorErr CtorRes
  | some (az, a1, a2), some lon, some tmp =>
    if tmp.isSome && lon.isNone then .error .typeError
    else if 2 + (if lon.isSome then 1 else 0) + (if tmp.isSome then 1 else 0) = dim then .ok ⟨mom, az, a1, a2, lon, tmp⟩
    else .error .typeError
  | _, _, _ => .error .typeError

private theorem class2_comb (mom : Bool) (kw : KW) :
    class2 mom kw = classComb 2 mom (azOfKW kw.x kw.y kw.rho kw.phi) (lonOfKW kw.z kw.theta kw.eta) (tmpOfKW kw.t kw.tau) := by
  rcases kw with ⟨x, y, rho, phi, z, theta, eta, t, tau⟩
  cases x <;> cases y <;> cases rho <;> cases phi <;> cases z <;> cases theta <;> cases eta <;> cases t <;> cases tau <;> rfl
private theorem class3_comb (mom : Bool) (kw : KW) :
    class3 mom kw = classComb 3 mom (azOfKW kw.x kw.y kw.rho kw.phi) (lonOfKW kw.z kw.theta kw.eta) (tmpOfKW kw.t kw.tau) := by
  rcases kw with ⟨x, y, rho, phi, z, theta, eta, t, tau⟩
  cases x <;> cases y <;> cases rho <;> cases phi <;> cases z <;> cases theta <;> cases eta <;> cases t <;> cases tau <;> rfl
private theorem class4_comb (mom : Bool) (kw : KW) :
    class4 mom kw = classComb 4 mom (azOfKW kw.x kw.y kw.rho kw.phi) (lonOfKW kw.z kw.theta kw.eta) (tmpOfKW kw.t kw.tau) := by
  rcases kw with ⟨x, y, rho, phi, z, theta, eta, t, tau⟩
  cases x <;> cases y <;> cases rho <;> cases phi <;> cases z <;> cases theta <;> cases eta <;> cases t <;> cases tau <;> rfl

def clsAz (n : NS) (pr : CN → Nat) : Option AzC := azOfKW (pick n pr .x) (pick n pr .y) (pick n pr .rho) (pick n pr .phi)
def clsLon (n : NS) (pr : CN → Nat) : Option (Option LonC) := lonOfKW (pick n pr .z) (pick n pr .theta) (pick n pr .eta)
def clsTmp (n : NS) (pr : CN → Nat) : Option (Option TmpC) := tmpOfKW (pick n pr .t) (pick n pr .tau)

private theorem classComb_baddim {dim : Nat} (mom : Bool) (A : Option AzC) (L : Option (Option LonC)) (T : Option (Option TmpC))
    (h2 : dim ≠ 2) (h3 : dim ≠ 3) (h4 : dim ≠ 4) : classComb dim mom A L T = .error .typeError := by
  rcases A with _ | ⟨az, a1, a2⟩ <;> rcases L with _ | _ | l <;> rcases T with _ | _ | t <;> simp [classComb] <;> omega

private theorem classComb_ok {dim : Nat} {mom : Bool} {A : Option AzC} {L : Option (Option LonC)} {T : Option (Option TmpC)}
    {r : CtorRes} (h : classComb dim mom A L T = .ok r) :
    ∃ az a1 a2 lon tmp, A = some (az, a1, a2) ∧ L = some lon ∧ T = some tmp ∧ (tmp.isSome = true → lon.isSome = true) ∧
      r = ⟨mom, az, a1, a2, lon, tmp⟩ ∧ r.dim = dim := by
  rcases A with _ | ⟨az, a1, a2⟩ <;> rcases L with _ | lon <;> rcases T with _ | tmp <;>
    simp only [classComb] at h <;> try cases h
  by_cases hc : (tmp.isSome && lon.isNone) = true
  · simp [hc] at h
  · by_cases hd : 2 + (if lon.isSome then 1 else 0) + (if tmp.isSome then 1 else 0) = dim
    · simp only [hc, hd, if_true, if_false, Bool.false_eq_true] at h
      cases h
      refine ⟨_, _, _, _, _, rfl, rfl, rfl, ?_, rfl, hd⟩
      intro ht
      cases lon with
      | none => simp [ht] at hc
      | some _ => rfl
    · simp [hc, hd] at h

/-- the row-by-row class constructors (l. 671-682, 1039-1068, 1702-1767) are the single rule `classComb` -/
theorem classB_comb (dim : Nat) (mom : Bool) (n : NS) (pr : CN → Nat) :
    classB dim mom n pr = if n.other then .error .typeError else classComb dim mom (clsAz n pr) (clsLon n pr) (clsTmp n pr) := by
  unfold classB
  cases n.other <;> simp only [if_true, if_false, Bool.false_eq_true]
  split
  · exact class2_comb _ _
  · exact class3_comb _ _
  · exact class4_comb _ _
  · rename_i h2 h3 h4
    exact (classComb_baddim mom _ _ _ (fun h => h2 h) (fun h => h3 h) (fun h => h4 h)).symm

private theorem cls_az_doc (n : NS) (pr : CN → Nat) (c : AzC) : docAz n.a = some c → clsAz n pr = some c := by
  rcases n with ⟨⟨x, px, y, py, rho, pt, phi⟩, l, t, o⟩
  cases x <;> cases px <;> cases y <;> cases py <;> cases rho <;> cases pt <;> cases phi <;>
    intro h <;> first | (cases h; rfl) | (cases h)
private theorem cls_lon_doc (n : NS) (pr : CN → Nat) (c : Option LonC) : docLon n.l = some c → clsLon n pr = some c := by
  rcases n with ⟨a, ⟨z, pz, theta, eta⟩, t, o⟩
  cases z <;> cases pz <;> cases theta <;> cases eta <;> intro h <;> first | (cases h; rfl) | (cases h)
private theorem cls_tmp_doc (n : NS) (pr : CN → Nat) (c : Option TmpC) : docTmp n.t = some c → clsTmp n pr = some c := by
  rcases n with ⟨a, l, ⟨t, E, e, energy, tau, M, m, mass⟩, o⟩
  cases t <;> cases E <;> cases e <;> cases energy <;> cases tau <;> cases M <;> cases m <;> cases mass <;>
    intro h <;> first | (cases h; rfl) | (cases h)

/-- **the classes on documented sets**: the class of the right dimension builds the documented vector (coordinate system and
slot contents as documented, in any keyword order); its flavor is the CLASS (`mom`), whatever the spelling of the names;
the classes of the other dimensions raise `TypeError`. -/
theorem c06_class_documented (dim : Nat) (mom : Bool) (n : NS) (pr : CN → Nat) {d : CtorRes} (h : docB n = some d) :
    classB dim mom n pr = if d.dim = dim then .ok { d with mom := mom } else .error .typeError := by
  rw [classB_comb]
  unfold docB at h
  cases ho : n.other <;> simp only [ho, if_true, if_false, Bool.false_eq_true] at h ⊢
  · rcases hA : docAz n.a with _ | ⟨az, a1, a2⟩ <;> rcases hL : docLon n.l with _ | lon <;>
      rcases hT : docTmp n.t with _ | tmp <;> simp only [hA, hL, hT] at h <;> try cases h
    rw [cls_az_doc n pr _ hA, cls_lon_doc n pr _ hL, cls_tmp_doc n pr _ hT]
    unfold classComb
    split at h
    · cases h
    · cases h
      rename_i hc
      simp only [hc, if_false, Bool.false_eq_true, CtorRes.dim]
      split <;> simp
  · cases h

/-- the flavor of a class result is the class -/
theorem c06_class_flavor {dim : Nat} {mom : Bool} {n : NS} {pr : CN → Nat} {r : CtorRes} (h : classB dim mom n pr = .ok r) :
    r.mom = mom := by
  rw [classB_comb] at h
  cases ho : n.other <;> simp only [ho, if_true, if_false, Bool.false_eq_true] at h
  · obtain ⟨az, a1, a2, lon, tmp, _, _, _, _, rfl, _⟩ := classComb_ok h
    rfl
  · cases h

/-- **the classes store verbatim**: whenever a class accepts, every slot holds the value given under a spelling of that
slot's coordinate (with several spellings of one coordinate: under the LAST of them in keyword order). -/
theorem c06_class_verbatim {dim : Nat} {mom : Bool} {n : NS} {pr : CN → Nat} {r : CtorRes} (h : classB dim mom n pr = .ok r) :
    Stored n r := by
  rw [classB_comb] at h
  cases ho : n.other <;> simp only [ho, if_true, if_false, Bool.false_eq_true] at h
  · obtain ⟨az, a1, a2, lon, tmp, hA, hL, hT, htl, rfl, hdim⟩ := classComb_ok h
    have hax : a1.coord = az.c1 ∧ a2.coord = az.c2 ∧ n.has a1 = true ∧ n.has a2 = true := by
      unfold clsAz at hA
      rcases hx : pick n pr .x with _ | vx <;> rcases hy : pick n pr .y with _ | vy <;>
        rcases hr : pick n pr .rho with _ | vr <;> rcases hp : pick n pr .phi with _ | vp <;>
        simp only [hx, hy, hr, hp, azOfKW] at hA <;> cases hA
      · exact ⟨(pick_good hr).1, (pick_good hp).1, (pick_good hr).2, (pick_good hp).2⟩
      · exact ⟨(pick_good hx).1, (pick_good hy).1, (pick_good hx).2, (pick_good hy).2⟩
    refine stored_of_parts' hax.1 hax.2.1 hax.2.2.1 hax.2.2.2 ?_ ?_ htl
    · rintro c k rfl
      unfold clsLon at hL
      rcases hz : pick n pr .z with _ | vz <;> rcases hth : pick n pr .theta with _ | vth <;>
        rcases he : pick n pr .eta with _ | ve <;> simp only [hz, hth, he, lonOfKW] at hL <;> cases hL
      · exact pick_good he
      · exact pick_good hth
      · exact pick_good hz
    · rintro c k rfl
      unfold clsTmp at hT
      rcases ht : pick n pr .t with _ | vt <;> rcases hta : pick n pr .tau with _ | vta <;>
        simp only [ht, hta, tmpOfKW] at hT <;> cases hT
      · exact pick_good hta
      · exact pick_good ht
  · cases h

private theorem classComb_err {dim : Nat} {mom : Bool} {A : Option AzC} {L : Option (Option LonC)} {T : Option (Option TmpC)}
    {e : CtorErr} (h : classComb dim mom A L T = .error e) : e = .typeError := by
  rcases A with _ | ⟨az, a1, a2⟩ <;> rcases L with _ | lon <;> rcases T with _ | tmp <;>
    (try simp only [classComb] at h) <;> (try (cases h; rfl))
  by_cases hc : (tmp.isSome && lon.isNone) = true
  · simp only [hc, if_true] at h; cases h; rfl
  · by_cases hd : 2 + (if lon.isSome then 1 else 0) + (if tmp.isSome then 1 else 0) = dim
    · simp [hc, hd] at h
    · simp only [hc, hd, if_false, Bool.false_eq_true] at h; cases h; rfl

/-- the classes only ever raise `TypeError` -/
theorem c06_class_error_kind {dim : Nat} {mom : Bool} {n : NS} {pr : CN → Nat} {e : CtorErr} (h : classB dim mom n pr = .error e) :
    e = .typeError := by
  rw [classB_comb] at h
  cases ho : n.other <;> simp only [ho, if_true, if_false, Bool.false_eq_true] at h
  · exact classComb_err h
  · cases h; rfl

/-- the generic image of a name set: every name replaced by its generic spelling -/
def AzN.collapse (a : AzN) : AzN := ⟨a.x || a.px, false, a.y || a.py, false, a.rho || a.pt, false, a.phi⟩
def LonN.collapse (l : LonN) : LonN := ⟨l.z || l.pz, false, l.theta, l.eta⟩
def TmpN.collapse (t : TmpN) : TmpN :=
  ⟨t.t || t.E || t.e || t.energy, false, false, false, t.tau || t.M || t.m || t.mass, false, false, false⟩
def NS.collapse (n : NS) : NS := ⟨n.a.collapse, n.l.collapse, n.t.collapse, n.other⟩
/-- some coordinate is spelled twice (`x` and `px`, `t` and `E`, `E` and `energy`, …) -/
def NS.synDup (n : NS) : Bool := n.a.dup || n.l.dup || n.t.dup

def okB {α : Type} : Except CtorErr α → Bool | .ok _ => true | .error _ => false

/-- the dimension of a combination of (coordinate system)s, if it is a legal one -/
def shapeDim : Option Az → Option (Option Lon) → Option (Option Tmp) → Option Nat
  | some _, some lon, some tmp =>
    if tmp.isSome && lon.isNone then none else some (2 + (if lon.isSome then 1 else 0) + (if tmp.isSome then 1 else 0))
  | _, _, _ => none

private theorem docB_dim (n : NS) : (docB n).map CtorRes.dim =
    if n.other then none else
      shapeDim ((docAz n.a).map (·.1)) ((docLon n.l).map (·.map (·.1))) ((docTmp n.t).map (·.map (·.1))) := by
  unfold docB
  cases n.other <;> simp only [if_true, if_false, Bool.false_eq_true, Option.map_none]
  rcases docAz n.a with _ | ⟨az, a1, a2⟩ <;> rcases docLon n.l with _ | _ | l <;> rcases docTmp n.t with _ | _ | t <;> rfl

private theorem okB_ite {α : Type} (c : Prop) [Decidable c] (r : α) (e : CtorErr) :
    okB (if c then Except.ok r else Except.error e) = decide c := by
  split <;> simp_all [okB]

private theorem dec_beq (a b : Nat) : decide (a = b) = (a == b) := by by_cases h : a = b <;> simp [h]

private theorem classComb_okB (dim : Nat) (mom : Bool) (A : Option AzC) (L : Option (Option LonC)) (T : Option (Option TmpC)) :
    okB (classComb dim mom A L T) = (shapeDim (A.map (·.1)) (L.map (·.map (·.1))) (T.map (·.map (·.1))) == some dim) := by
  rcases A with _ | ⟨az, a1, a2⟩ <;> rcases L with _ | _ | l <;> rcases T with _ | _ | t <;>
    simp [classComb, shapeDim, okB_ite] <;> first | rfl | exact dec_beq _ _

def azShape : Bool → Bool → Bool → Bool → Option Az
  | true, true, false, false => some .xy
  | false, false, true, true => some .rhophi
  | _, _, _, _ => none
def lonShape : Bool → Bool → Bool → Option (Option Lon)
  | false, false, false => some none
  | true, false, false => some (some .z)
  | false, true, false => some (some .theta)
  | false, false, true => some (some .eta)
  | _, _, _ => none
def tmpShape : Bool → Bool → Option (Option Tmp)
  | false, false => some none
  | true, false => some (some .t)
  | false, true => some (some .tau)
  | _, _ => none

private theorem azOfKW_map (x y r p : Option CN) : (azOfKW x y r p).map (·.1) = azShape x.isSome y.isSome r.isSome p.isSome := by
  cases x <;> cases y <;> cases r <;> cases p <;> rfl
private theorem lonOfKW_map (z th e : Option CN) : (lonOfKW z th e).map (·.map (·.1)) = lonShape z.isSome th.isSome e.isSome := by
  cases z <;> cases th <;> cases e <;> rfl
private theorem tmpOfKW_map (t ta : Option CN) : (tmpOfKW t ta).map (·.map (·.1)) = tmpShape t.isSome ta.isSome := by
  cases t <;> cases ta <;> rfl

private theorem cls_az_shape (n : NS) (pr : CN → Nat) : (clsAz n pr).map (·.1) = (docAz n.a.collapse).map (·.1) := by
  unfold clsAz; rw [azOfKW_map]; simp only [pick_isSome]
  rcases n with ⟨⟨x, px, y, py, rho, pt, phi⟩, l, t, o⟩
  cases x <;> cases px <;> cases y <;> cases py <;> cases rho <;> cases pt <;> cases phi <;> rfl
private theorem cls_lon_shape (n : NS) (pr : CN → Nat) : (clsLon n pr).map (·.map (·.1)) = (docLon n.l.collapse).map (·.map (·.1)) := by
  unfold clsLon; rw [lonOfKW_map]; simp only [pick_isSome]
  rcases n with ⟨a, ⟨z, pz, theta, eta⟩, t, o⟩
  cases z <;> cases pz <;> cases theta <;> cases eta <;> rfl
private theorem cls_tmp_shape (n : NS) (pr : CN → Nat) : (clsTmp n pr).map (·.map (·.1)) = (docTmp n.t.collapse).map (·.map (·.1)) := by
  unfold clsTmp; rw [tmpOfKW_map]; simp only [pick_isSome]
  rcases n with ⟨a, l, ⟨t, E, e, energy, tau, M, m, mass⟩, o⟩
  cases t <;> cases E <;> cases e <;> cases energy <;> cases tau <;> cases M <;> cases m <;> cases mass <;> rfl

/-- **exact acceptance set of the classes**: `VectorObject<dim>D` / `MomentumObject<dim>D` accept a name set iff its GENERIC
IMAGE (every name replaced by its generic spelling, repetitions merged) is a documented set of dimension `dim`. -/
theorem c06_class_accepts_iff (dim : Nat) (mom : Bool) (n : NS) (pr : CN → Nat) :
    okB (classB dim mom n pr) = ((docB n.collapse).map CtorRes.dim == some dim) := by
  rw [classB_comb, docB_dim]
  show okB (if n.other then _ else _) = ((if n.other then _ else _) == some dim)
  cases n.other <;> simp only [if_true, if_false, Bool.false_eq_true]
  · rw [classComb_okB, cls_az_shape, cls_lon_shape, cls_tmp_shape]; rfl
  · rfl

theorem c06_class_accepts_iff' (dim : Nat) (mom : Bool) (n : NS) (pr : CN → Nat) :
    (∃ r, classB dim mom n pr = .ok r) ↔ ∃ d, docB n.collapse = some d ∧ d.dim = dim := by
  have h := c06_class_accepts_iff dim mom n pr
  constructor
  · rintro ⟨r, hr⟩
    rw [hr] at h
    rcases hd : docB n.collapse with _ | d
    · simp [hd, okB] at h
    · simp [hd, okB] at h; exact ⟨d, rfl, h⟩
  · rintro ⟨d, hd, hdim⟩
    rw [hd] at h
    rcases hr : classB dim mom n pr with e | r
    · simp [hr, okB, hdim] at h
    · exact ⟨r, rfl⟩

private theorem doc_az_nodup : ∀ a : AzN, a.dup = false → (docAz a.collapse).map (·.1) = (docAz a).map (·.1) := AzN.forall (by decide)
private theorem doc_lon_nodup : ∀ l : LonN, l.dup = false → (docLon l.collapse).map (·.map (·.1)) = (docLon l).map (·.map (·.1)) :=
  LonN.forall (by decide)
private theorem doc_tmp_nodup : ∀ t : TmpN, t.dup = false → (docTmp t.collapse).map (·.map (·.1)) = (docTmp t).map (·.map (·.1)) :=
  TmpN.forall (by decide)

/-- **the classes against the grammar**: on a name set WITHOUT two spellings of one coordinate the classes raise `TypeError`
unless the set is documented (then see `c06_class_documented`). -/
theorem c06_class_partial (dim : Nat) (mom : Bool) (n : NS) (pr : CN → Nat) (h : docB n = none) (hd : n.synDup = false) :
    classB dim mom n pr = .error .typeError := by
  simp only [NS.synDup, Bool.or_eq_false_iff] at hd
  have hdim : (docB n.collapse).map CtorRes.dim = (docB n).map CtorRes.dim := by
    rw [docB_dim, docB_dim]
    show (if n.other then _ else shapeDim ((docAz n.a.collapse).map _) ((docLon n.l.collapse).map _) ((docTmp n.t.collapse).map _)) = _
    rw [doc_az_nodup _ hd.1.1, doc_lon_nodup _ hd.1.2, doc_tmp_nodup _ hd.2]
  have hk := c06_class_accepts_iff dim mom n pr
  rw [hdim, h] at hk
  rcases hr : classB dim mom n pr with e | r
  · rw [c06_class_error_kind hr]
  · simp [hr, okB] at hk

/-- **the discrepancies of the classes** (all are ACCEPTED although the grammar forbids them or prescribes another flavor) -/
theorem c06_class_accepts_synonym_duplicates :
    -- `VectorObject2D(x=1, px=2, y=3)` → `VectorObject2D(x=2, y=3)`: the later keyword wins
    classModel 2 false [.x, .px, .y] = .ok ⟨false, .xy, .px, .y, none, none⟩ ∧ Doc [.x, .px, .y] = none ∧
    classModel 2 false [.px, .x, .y] = .ok ⟨false, .xy, .x, .y, none, none⟩ ∧
    -- `MomentumObject4D(px=, py=, pz=, E=, e=, energy=, t=)`: four spellings of `t`
    classModel 4 true [.px, .py, .pz, .E, .e, .energy, .t] = .ok ⟨true, .xy, .px, .py, some (.z, .pz), some (.t, .t)⟩ ∧
    -- the flavor is the class: momentum spellings build a generic vector, generic spellings a momentum vector
    classModel 2 false [.px, .py] = .ok ⟨false, .xy, .px, .py, none, none⟩ ∧
    Doc [.px, .py] = some ⟨true, .xy, .px, .py, none, none⟩ ∧
    classModel 3 true [.rho, .phi, .eta] = .ok ⟨true, .rhophi, .rho, .phi, some (.eta, .eta), none⟩ ∧
    Doc [.rho, .phi, .eta] = some ⟨false, .rhophi, .rho, .phi, some (.eta, .eta), none⟩ := by decide

/-! ### (c) `vector.array` -/

theorem CN.all_all (p : CN → Bool) (h : CN.all.all p = true) (k : CN) : p k = true := by
  simp only [CN.all, List.all_cons, List.all_nil, Bool.and_true, Bool.and_eq_true] at h
  cases k <;> simp [h]

theorem NS.mem_toList (n : NS) (k : CN) : k ∈ n.toList ↔ n.has k = true := by
  cases k <;> simp [NS.toList, AzN.toList, LonN.toList, TmpN.toList, NS.has, AzN.has, LonN.has, TmpN.has, List.mem_filter]

private theorem doc_az_covers : ∀ a, (match docAz a with
    | some c => CN.all.all (fun k => !a.has k || k == c.2.1 || k == c.2.2) | none => true) = true := AzN.forall (by decide)
private theorem doc_lon_covers : ∀ l, (match docLon l with
    | some (some c) => CN.all.all (fun k => !l.has k || k == c.2)
    | some none => CN.all.all (fun k => !l.has k) | none => true) = true := LonN.forall (by decide)
private theorem doc_tmp_covers : ∀ t, (match docTmp t with
    | some (some c) => CN.all.all (fun k => !t.has k || k == c.2)
    | some none => CN.all.all (fun k => !t.has k) | none => true) = true := TmpN.forall (by decide)

/-- a documented result uses ALL the names of the set -/
theorem c06_doc_covers {n : NS} {d : CtorRes} (h : docB n = some d) (k : CN) (hk : n.has k = true) : k ∈ d.fillers := by
  have hA := doc_az_covers n.a; have hL := doc_lon_covers n.l; have hT := doc_tmp_covers n.t
  unfold docB at h
  cases ho : n.other <;> simp only [ho, if_true, if_false, Bool.false_eq_true] at h
  · rcases hA' : docAz n.a with _ | ⟨az, a1, a2⟩ <;> rcases hL' : docLon n.l with _ | _ | l <;>
      rcases hT' : docTmp n.t with _ | _ | t <;> simp only [hA', hL', hT'] at h hA hL hT <;> (try cases h) <;>
      (try (simp at h; done))
    all_goals
      simp only [Option.isSome_none, Option.isNone_none, Option.isSome_some, Option.isNone_some, Bool.and_false, Bool.false_and,
        Bool.and_true, if_false, Bool.false_eq_true, Option.some.injEq] at h
      subst h
      have h1 := CN.all_all _ hA k; have h2 := CN.all_all _ hL k; have h3 := CN.all_all _ hT k
      simp only [NS.has, Bool.or_eq_true] at hk
      simp only [Bool.or_eq_true, Bool.not_eq_true', beq_iff_eq] at h1 h2 h3
      simp only [CtorRes.fillers, List.mem_append, List.mem_cons, List.not_mem_nil, or_false]
      rcases hk with (hk | hk) | hk <;> simp_all
  · cases h

private theorem npAz_good : ∀ a, (match npAz a with | some c => azGood a c | none => true) = true := AzN.forall (by decide)
private theorem npLon_good : ∀ l, (match npLon l with | some c => lonGood l c | none => true) = true := LonN.forall (by decide)
private theorem npTmp_good : ∀ t, (match npTmp t with | some c => tmpGood t c | none => true) = true := TmpN.forall (by decide)

/-- **`vector.array` stores verbatim and never builds a vector from an incomplete set**: whenever it accepts, the slots
hold supplied names of the right coordinates (`Stored`), hence (`c06_wf_documented`) the names used form a documented,
complete coordinate set, interpreted as documented; the flavor is taken from ALL names, extras included. -/
theorem c06_array_verbatim {n : NS} {r : CtorRes} (h : npB n = .ok r) : Stored n r ∧ r.mom = n.anyMom := by
  have hA := npAz_good n.a; have hL := npLon_good n.l; have hT := npTmp_good n.t
  simp only [npB] at h
  split at h
  · cases h
  · split at h
    · cases h
    · rcases hA' : npAz n.a with _ | ⟨az, a1, a2⟩ <;> simp only [hA'] at h hA
      · cases h
      · split at h
        · cases h; exact ⟨stored_of_parts hA rfl rfl (by simp), rfl⟩
        · rcases hL' : npLon n.l with _ | l <;> simp only [hL'] at h hL
          · cases h
          · split at h
            · cases h; exact ⟨stored_of_parts hA hL rfl (by simp), rfl⟩
            · rcases hT' : npTmp n.t with _ | t <;> simp only [hT'] at h hT
              · cases h
              · cases h; exact ⟨stored_of_parts hA hL hT (by simp), rfl⟩

theorem c06_array_extras (n : NS) (r : CtorRes) (k : CN) : k ∈ npExtra n r ↔ n.has k = true ∧ k ∉ r.fillers := by
  simp [npExtra, List.mem_filter, NS.mem_toList]

private theorem np_az_doc : ∀ a, (match docAz a with | some c => npAz a == some c && !a.dup && a.any | none => true) = true :=
  AzN.forall (by decide)
private theorem np_lon_doc : ∀ l, (match docLon l with
    | some (some c) => npLon l == some c && !l.dup && l.any | some none => !l.any && !l.dup | none => true) = true :=
  LonN.forall (by decide)
private theorem np_tmp_doc : ∀ t, (match docTmp t with
    | some (some c) => npTmp t == some c && !t.dup && t.any | some none => !t.any && !t.dup | none => true) = true :=
  TmpN.forall (by decide)

/-- on a documented set `vector.array` builds exactly the documented vector, without extra fields -/
theorem c06_array_documented {n : NS} {d : CtorRes} (h : docB n = some d) : npB n = .ok d ∧ npExtra n d = [] := by
  refine ⟨?_, ?_⟩
  · have hA := np_az_doc n.a; have hL := np_lon_doc n.l; have hT := np_tmp_doc n.t
    unfold docB at h
    cases ho : n.other <;> simp only [ho, if_true, if_false, Bool.false_eq_true] at h
    · rcases hA' : docAz n.a with _ | ⟨az, a1, a2⟩ <;> rcases hL' : docLon n.l with _ | _ | l <;>
        rcases hT' : docTmp n.t with _ | _ | t <;> simp only [hA', hL', hT'] at h hA hL hT <;> (try cases h) <;>
        (try (simp at h; done))
      all_goals
        simp only [Option.isSome_none, Option.isNone_none, Option.isSome_some, Option.isNone_some, Bool.and_false, Bool.false_and,
          Bool.and_true, if_false, Bool.false_eq_true, Option.some.injEq] at h
        subst h
        simp only [Bool.and_eq_true, beq_iff_eq, Bool.not_eq_true'] at hA hL hT
        simp [npB, hA, hL, hT, ho]
    · cases h
  · simp only [npExtra, List.filter_eq_nil_iff, NS.mem_toList]
    intro k hk
    simp [c06_doc_covers h k hk]

/-- discrepancies of `vector.array` with the other constructors outside the documented sets -/
theorem c06_array_examples :
    -- an extra momentum-spelled field turns a generic vector into a momentum vector
    arrayModel [.x, .y, .pt] = .ok ⟨⟨true, .xy, .x, .y, none, none⟩, [.pt]⟩ ∧
    -- both azimuthal systems: the Cartesian one wins, the other is carried along
    arrayModel [.x, .y, .rho, .phi] = .ok ⟨⟨false, .xy, .x, .y, none, none⟩, [.rho, .phi]⟩ ∧
    -- repeated spellings: `ValueError` (duplicate field name after renaming), not `TypeError`
    arrayModel [.x, .px, .y] = .error .valueError ∧
    arrayModel [.x, .y, .z, .E, .e] = .error .valueError ∧
    -- an incomplete set is never a vector
    arrayModel [.x, .y, .t] = .error .typeError ∧ arrayModel [.x, .z] = .error .typeError ∧
    arrayModel [.px, .py, .pz, .theta, .E, .M] = .ok ⟨⟨true, .xy, .px, .py, some (.z, .pz), some (.t, .E)⟩, [.theta, .M]⟩ := by decide

end VG
