/-
C06 — constructors accept the documented coordinate sets and store them verbatim.

Theorems about the hand-written constructor model `VectorModel/Glue/Ctor.lean` (`vector.obj`, the
`VectorObject*D` / `MomentumObject*D` classes, `vector.array`, `vector.zip`, `vector.Array`) for ALL 2^19 sets of the
19 recognised names (+ the bit "an unrecognised name is present").  A name set is `n : NS` (membership bits grouped into
azimuthal / longitudinal / temporal names); every statement is proved by exhaustive evaluation of the group functions
(128 / 16 / 256 cases) and a symbolic composition.  List versions (`objModel s`, `Doc s`, …) are instances at
`n := NS.ofList s`.

Summary of what is TRUE of the code (tree /repo at cc3adc8, after the fixes of `vector.obj` E+e / M+m, of the repeated
spellings in the object classes and of the `VectorObject4D` type check):
* `vector.obj` = documented grammar on ALL name sets (`c06_obj_eq_doc`).
* the object classes accept exactly the documented sets of their dimension, in any documented spelling, and build the
  documented vector (`c06_class_eq_doc`); the only deviation left is the FLAVOR, which is the class, never the spelling
  (`VectorObject2D(px=, py=)` is a generic vector, `MomentumObject3D(rho=, phi=, eta=)` a momentum vector).
* the array constructors build a vector only from a complete documented subset, the rest is carried as extra fields;
  `vector.array` decides flavor and dimension from ALL names (extras included) and raises `ValueError` (not `TypeError`)
  on repeated spellings.
-/
import VectorModel.Glue.Ctor

set_option linter.unusedVariables false
set_option linter.constructorNameAsVariable false

namespace VG
open VK

/-! ### bookkeeping -/

/-- a documented result, or `TypeError` -/
def docE : Option CtorRes → Except CtorErr CtorRes
  | some r => .ok r
  | none => .error .typeError

/-- the slots of `r` hold supplied names of `n`, each a spelling of the slot's own coordinate ("stored verbatim") -/
def Stored (n : NS) (r : CtorRes) : Prop := r.wf = true ∧ ∀ k ∈ r.fillers, n.has k = true

def azGood (a : AzN) (c : AzC) : Bool :=
  c.2.1.coord == c.1.c1 && c.2.2.coord == c.1.c2 && a.has c.2.1 && a.has c.2.2
def lonGood (l : LonN) (c : LonC) : Bool := c.2.coord == c.1.coord && l.has c.2
def tmpGood (t : TmpN) (c : TmpC) : Bool := c.2.coord == c.1.coord && t.has c.2
def lonGoodO (l : LonN) : Option LonC → Bool | some c => lonGood l c | none => true
def tmpGoodO (t : TmpN) : Option TmpC → Bool | some c => tmpGood t c | none => true

private theorem AzN.forall {P : AzN → Prop} (h : ∀ x px y py rho pt phi, P ⟨x, px, y, py, rho, pt, phi⟩) : ∀ a, P a :=
  fun ⟨x, px, y, py, rho, pt, phi⟩ => h x px y py rho pt phi
private theorem LonN.forall {P : LonN → Prop} (h : ∀ z pz theta eta, P ⟨z, pz, theta, eta⟩) : ∀ l, P l :=
  fun ⟨z, pz, theta, eta⟩ => h z pz theta eta
private theorem TmpN.forall {P : TmpN → Prop} (h : ∀ t E e energy tau M m mass, P ⟨t, E, e, energy, tau, M, m, mass⟩) :
    ∀ t, P t :=
  fun ⟨t, E, e, energy, tau, M, m, mass⟩ => h t E e energy tau M m mass

theorem NS.has_ofList (s : List CN) (k : CN) : (NS.ofList s).has k = s.contains k := by
  cases k <;> simp [NS.ofList, NS.ofP, NS.has, AzN.ofP, LonN.ofP, TmpN.ofP, AzN.has, LonN.has, TmpN.has]

/-- a name set only depends on membership: order and repetitions of the list are irrelevant -/
theorem NS.ofList_congr {s s' : List CN} (h : ∀ k, k ∈ s ↔ k ∈ s') : NS.ofList s = NS.ofList s' := by
  have hc : ∀ k, s.contains k = s'.contains k := by
    intro k
    have := h k
    rw [Bool.eq_iff_iff]; simpa using this
  simp only [NS.ofList, NS.ofP, AzN.ofP, LonN.ofP, TmpN.ofP, hc]

private theorem stored_of_parts' {n : NS} {mom : Bool} {az : Az} {a1 a2 : CN} {lon : Option LonC} {tmp : Option TmpC}
    (h1 : a1.coord = az.c1) (h2 : a2.coord = az.c2) (h3 : n.has a1 = true) (h4 : n.has a2 = true)
    (hl : ∀ c k, lon = some (c, k) → k.coord = c.coord ∧ n.has k = true)
    (ht : ∀ c k, tmp = some (c, k) → k.coord = c.coord ∧ n.has k = true)
    (htl : tmp.isSome = true → lon.isSome = true) : Stored n ⟨mom, az, a1, a2, lon, tmp⟩ := by
  rcases lon with _ | ⟨lc, lk⟩ <;> rcases tmp with _ | ⟨tc, tk⟩
  · simp_all [Stored, CtorRes.wf, CtorRes.fillers, CtorRes.slots]
  · simp at htl
  · have := hl lc lk rfl
    simp_all [Stored, CtorRes.wf, CtorRes.fillers, CtorRes.slots]
  · have := hl lc lk rfl
    have := ht tc tk rfl
    simp_all [Stored, CtorRes.wf, CtorRes.fillers, CtorRes.slots]

private theorem stored_of_parts {n : NS} {mom : Bool} {az : Az} {a1 a2 : CN} {lon : Option LonC} {tmp : Option TmpC}
    (ha : azGood n.a (az, a1, a2) = true) (hl : lonGoodO n.l lon = true) (ht : tmpGoodO n.t tmp = true)
    (htl : tmp.isSome = true → lon.isSome = true) : Stored n ⟨mom, az, a1, a2, lon, tmp⟩ := by
  simp only [azGood, Bool.and_eq_true, beq_iff_eq] at ha
  obtain ⟨⟨⟨h1, h2⟩, h3⟩, h4⟩ := ha
  refine stored_of_parts' h1 h2 (by simp [NS.has, h3]) (by simp [NS.has, h4]) ?_ ?_ htl
  · rintro c k rfl
    simp only [lonGoodO, lonGood, Bool.and_eq_true, beq_iff_eq] at hl
    exact ⟨hl.1, by simp [NS.has, hl.2]⟩
  · rintro c k rfl
    simp only [tmpGoodO, tmpGood, Bool.and_eq_true, beq_iff_eq] at ht
    exact ⟨ht.1, by simp [NS.has, ht.2]⟩

/-! ### (a) `vector.obj` against the documented grammar -/

theorem c06_obj_az_eq_doc : ∀ a, objAz a = docAz a := AzN.forall (by decide)
theorem c06_obj_lon_eq_doc : ∀ l, objLon l = docLon l := LonN.forall (by decide)
theorem c06_obj_tmp_eq_doc : ∀ t, objTmp t = docTmp t := TmpN.forall (by decide)

/-- **`vector.obj` = documented grammar** on EVERY name set: the documented sets are accepted with the documented
dimension, coordinate system, flavor and slot contents, every other set (missing partner, two coordinates of one group, a
coordinate spelled twice through synonyms — `E` with `e` and `M` with `m` included —, temporal without longitudinal,
unrecognised name) raises `TypeError`. -/
theorem c06_obj_eq_doc (n : NS) : objB n = docE (docB n) := by
  unfold objB docB
  rw [c06_obj_az_eq_doc, c06_obj_lon_eq_doc, c06_obj_tmp_eq_doc]
  cases n.other <;> simp only [Bool.false_eq_true, if_true, if_false, docE]
  rcases docAz n.a with _ | ⟨az, a1, a2⟩ <;> rcases docLon n.l with _ | _ | l <;> rcases docTmp n.t with _ | _ | t <;> rfl

/-- the formerly accepted sets (`E` with `e`, `M` with `m`) are now rejected: the second spelling is not popped (l. 3191 /
3200), becomes a key of its own in `generic_coordinates` (l. 3206) and is never consumed by `_gather_coordinates` -/
theorem c06_obj_rejects_duplicate_temporal :
    objTmp ⟨false, true, true, false, false, false, false, false⟩ = none ∧
    objTmp ⟨false, false, false, false, false, true, true, false⟩ = none := by decide

def boolUniv : List Bool := [false, true]
def AzN.univ : List AzN :=
  boolUniv.flatMap fun x => boolUniv.flatMap fun px => boolUniv.flatMap fun y => boolUniv.flatMap fun py =>
  boolUniv.flatMap fun rho => boolUniv.flatMap fun pt => boolUniv.map fun phi => ⟨x, px, y, py, rho, pt, phi⟩
def LonN.univ : List LonN :=
  boolUniv.flatMap fun z => boolUniv.flatMap fun pz => boolUniv.flatMap fun theta => boolUniv.map fun eta => ⟨z, pz, theta, eta⟩
def TmpN.univ : List TmpN :=
  boolUniv.flatMap fun t => boolUniv.flatMap fun E => boolUniv.flatMap fun e => boolUniv.flatMap fun energy =>
  boolUniv.flatMap fun tau => boolUniv.flatMap fun M => boolUniv.flatMap fun m => boolUniv.map fun mass =>
    ⟨t, E, e, energy, tau, M, m, mass⟩

/-- on a documented set `vector.obj` builds exactly the documented vector -/
theorem c06_obj_documented (n : NS) {d : CtorRes} (h : docB n = some d) : objB n = .ok d := by
  rw [c06_obj_eq_doc, h]; rfl

/-- `vector.obj` rejects with `TypeError` every undocumented set -/
theorem c06_obj_rejects (n : NS) (h : docB n = none) : objB n = .error .typeError := by
  rw [c06_obj_eq_doc, h]; rfl

/-- an unrecognised name is always a `TypeError` -/
theorem c06_obj_unknown_rejected (n : NS) (h : n.other = true) : objB n = .error .typeError := by
  simp [objB, h]

/-! list versions -/

theorem c06_obj_model_eq_doc (s : List CN) : objModel s = docE (Doc s) := c06_obj_eq_doc _

/-- the result of `vector.obj` does not depend on the order of the keywords -/
theorem c06_obj_order_irrelevant {s s' : List CN} (h : ∀ k, k ∈ s ↔ k ∈ s') : objModel s = objModel s' := by
  unfold objModel; rw [NS.ofList_congr h]

theorem c06_doc_order_irrelevant {s s' : List CN} (h : ∀ k, k ∈ s ↔ k ∈ s') : Doc s = Doc s' := by
  unfold Doc; rw [NS.ofList_congr h]

example : objModel [.x, .y, .z, .E, .e] = .error .typeError ∧ Doc [.x, .y, .z, .E, .e] = none := by decide
example : objModel [.pt, .phi, .eta, .m, .M] = .error .typeError := by decide
example : objModel [.x, .y, .z, .E, .energy] = .error .typeError := by decide
example : objModel [.x, .px, .y] = .error .typeError := by decide
example : objModel [.x, .y, .t] = .error .typeError := by decide
example : objModel [.pt, .phi, .eta, .mass] = .ok ⟨true, .rhophi, .pt, .phi, some (.eta, .eta), some (.tau, .mass)⟩ := by decide

/-! ### (b) stored verbatim -/

private theorem objAz_good : ∀ a, (match objAz a with | some c => azGood a c | none => true) = true := AzN.forall (by decide)
private theorem objLon_good : ∀ l, (match objLon l with | some c => lonGoodO l c | none => true) = true := LonN.forall (by decide)
private theorem objTmp_good : ∀ t, (match objTmp t with | some c => tmpGoodO t c | none => true) = true := TmpN.forall (by decide)

/-- **`vector.obj` stores verbatim**: whenever it accepts, every slot of the result holds the
value supplied under a name of the call that is a spelling of exactly that slot's coordinate; no value is computed,
converted or moved to another coordinate. -/
theorem c06_obj_verbatim (n : NS) {r : CtorRes} (h : objB n = .ok r) : Stored n r := by
  have hA := objAz_good n.a; have hL := objLon_good n.l; have hT := objTmp_good n.t
  unfold objB at h
  cases ho : n.other <;> simp only [ho, if_true, if_false, Bool.false_eq_true] at h
  · rcases hA' : objAz n.a with _ | ⟨az, a1, a2⟩ <;> rcases hL' : objLon n.l with _ | _ | l <;>
      rcases hT' : objTmp n.t with _ | _ | t <;> simp only [hA', hL', hT'] at h hA hL hT <;> cases h
    · exact stored_of_parts hA hL hT (by simp)
    · exact stored_of_parts hA hL hT (by simp)
    · exact stored_of_parts hA hL hT (by simp)
  · cases h

/-- the pairs (coordinate system, names) that are well-formed -/
private theorem wf_az : ∀ (az : Az) (a1 a2 : CN), (a1.coord == az.c1 && a2.coord == az.c2) = true →
    (az, a1, a2) ∈ [(Az.xy, CN.x, CN.y), (.xy, .x, .py), (.xy, .px, .y), (.xy, .px, .py), (.rhophi, .rho, .phi), (.rhophi, .pt, .phi)] := by
  intro az a1 a2; cases az <;> cases a1 <;> cases a2 <;> decide
private theorem wf_lon : ∀ (c : Lon) (k : CN), (k.coord == c.coord) = true →
    (c, k) ∈ [(Lon.z, CN.z), (.z, .pz), (.theta, .theta), (.eta, .eta)] := by
  intro c k; cases c <;> cases k <;> decide
private theorem wf_tmp : ∀ (c : Tmp) (k : CN), (k.coord == c.coord) = true →
    (c, k) ∈ [(Tmp.t, CN.t), (.t, .E), (.t, .e), (.t, .energy), (.tau, .tau), (.tau, .M), (.tau, .m), (.tau, .mass)] := by
  intro c k; cases c <;> cases k <;> decide

/-- **a well-formed result is a documented vector**: the names stored in its slots form a documented (in particular
COMPLETE) coordinate set, and the documented meaning of that set is the result itself — same coordinate system, same
dimension, same slot contents — with the documented flavor "momentum iff one of the names is a momentum spelling". -/
theorem c06_wf_documented (r : CtorRes) (h : r.wf = true) :
    Doc r.fillers = some { r with mom := r.fillers.any CN.isMom } := by
  rcases r with ⟨mom, az, a1, a2, lon, tmp⟩
  rcases lon with _ | ⟨lc, lk⟩ <;> rcases tmp with _ | ⟨tc, tk⟩ <;>
    simp only [CtorRes.wf, CtorRes.fillers, CtorRes.slots, List.map, List.cons_append, List.nil_append, List.append_nil,
      Option.isNone_none, Option.isSome_none, Option.isNone_some, Option.isSome_some, Bool.or_false, Bool.or_true,
      Bool.and_true, Bool.and_false, beq_iff_eq, List.cons.injEq, and_true, Bool.false_eq_true] at h
  · have ha := wf_az az a1 a2 (by simp [h.1, h.2])
    simp only [List.mem_cons, List.not_mem_nil, or_false, Prod.mk.injEq] at ha
    rcases ha with ⟨rfl, rfl, rfl⟩ | ⟨rfl, rfl, rfl⟩ | ⟨rfl, rfl, rfl⟩ | ⟨rfl, rfl, rfl⟩ | ⟨rfl, rfl, rfl⟩ | ⟨rfl, rfl, rfl⟩ <;> rfl
  · have ha := wf_az az a1 a2 (by simp [h.1, h.2.1])
    have hl := wf_lon lc lk (by simp [h.2.2])
    simp only [List.mem_cons, List.not_mem_nil, or_false, Prod.mk.injEq] at ha hl
    rcases ha with ⟨rfl, rfl, rfl⟩ | ⟨rfl, rfl, rfl⟩ | ⟨rfl, rfl, rfl⟩ | ⟨rfl, rfl, rfl⟩ | ⟨rfl, rfl, rfl⟩ | ⟨rfl, rfl, rfl⟩ <;>
      rcases hl with ⟨rfl, rfl⟩ | ⟨rfl, rfl⟩ | ⟨rfl, rfl⟩ | ⟨rfl, rfl⟩ <;> rfl
  · have ha := wf_az az a1 a2 (by simp [h.1, h.2.1])
    have hl := wf_lon lc lk (by simp [h.2.2.1])
    have ht := wf_tmp tc tk (by simp [h.2.2.2])
    simp only [List.mem_cons, List.not_mem_nil, or_false, Prod.mk.injEq] at ha hl ht
    rcases ha with ⟨rfl, rfl, rfl⟩ | ⟨rfl, rfl, rfl⟩ | ⟨rfl, rfl, rfl⟩ | ⟨rfl, rfl, rfl⟩ | ⟨rfl, rfl, rfl⟩ | ⟨rfl, rfl, rfl⟩ <;>
      rcases hl with ⟨rfl, rfl⟩ | ⟨rfl, rfl⟩ | ⟨rfl, rfl⟩ | ⟨rfl, rfl⟩ <;>
      rcases ht with ⟨rfl, rfl⟩ | ⟨rfl, rfl⟩ | ⟨rfl, rfl⟩ | ⟨rfl, rfl⟩ | ⟨rfl, rfl⟩ | ⟨rfl, rfl⟩ | ⟨rfl, rfl⟩ | ⟨rfl, rfl⟩ <;> rfl

/-! ### (a) the object classes `VectorObject{2,3,4}D`, `MomentumObject{2,3,4}D` -/

def azOfKW : Option CN → Option CN → Option CN → Option CN → Option AzC
  | some vx, some vy, none, none => some (.xy, vx, vy)
  | none, none, some vr, some vp => some (.rhophi, vr, vp)
  | _, _, _, _ => none
def lonOfKW : Option CN → Option CN → Option CN → Option (Option LonC)
  | none, none, none => some none
  | some v, none, none => some (some (.z, v))
  | none, some v, none => some (some (.theta, v))
  | none, none, some v => some (some (.eta, v))
  | _, _, _ => none
def tmpOfKW : Option CN → Option CN → Option (Option TmpC)
  | none, none => some none
  | some v, none => some (some (.t, v))
  | none, some v => some (some (.tau, v))
  | _, _ => none

/-- the three class constructors as ONE rule: a complete azimuthal pair, at most one longitudinal and at most one temporal
generic key, temporal only with longitudinal, and the number of coordinates must be the dimension of the class -/
def classComb (dim : Nat) (mom : Bool) : Option AzC → Option (Option LonC) → Option (Option TmpC) → Except CtorErr CtorRes
  | some (az, a1, a2), some lon, some tmp =>
    if tmp.isSome && lon.isNone then .error .typeError
    else if 2 + (if lon.isSome then 1 else 0) + (if tmp.isSome then 1 else 0) = dim then .ok ⟨mom, az, a1, a2, lon, tmp⟩
    else .error .typeError
  | _, _, _ => .error .typeError

private theorem class2_comb (mom : Bool) (kw : KW) :
    class2 mom kw = classComb 2 mom (azOfKW kw.x kw.y kw.rho kw.phi) (lonOfKW kw.z kw.theta kw.eta) (tmpOfKW kw.t kw.tau) := by
  rcases kw with ⟨x, y, rho, phi, z, theta, eta, t, tau⟩
  cases x <;> cases y <;> cases rho <;> cases phi <;> cases z <;> cases theta <;> cases eta <;> cases t <;> cases tau <;> rfl
private theorem class3_comb (mom : Bool) (kw : KW) :
    class3 mom kw = classComb 3 mom (azOfKW kw.x kw.y kw.rho kw.phi) (lonOfKW kw.z kw.theta kw.eta) (tmpOfKW kw.t kw.tau) := by
  rcases kw with ⟨x, y, rho, phi, z, theta, eta, t, tau⟩
  cases x <;> cases y <;> cases rho <;> cases phi <;> cases z <;> cases theta <;> cases eta <;> cases t <;> cases tau <;> rfl
private theorem class4_comb (mom : Bool) (kw : KW) :
    class4 mom kw = classComb 4 mom (azOfKW kw.x kw.y kw.rho kw.phi) (lonOfKW kw.z kw.theta kw.eta) (tmpOfKW kw.t kw.tau) := by
  rcases kw with ⟨x, y, rho, phi, z, theta, eta, t, tau⟩
  cases x <;> cases y <;> cases rho <;> cases phi <;> cases z <;> cases theta <;> cases eta <;> cases t <;> cases tau <;> rfl

/-- the group parts of `kwargs` after the renaming loop -/
def clsAz (a : AzN) : Option AzC := azOfKW (fieldOf a.has .x) (fieldOf a.has .y) (fieldOf a.has .rho) (fieldOf a.has .phi)
def clsLon (l : LonN) : Option (Option LonC) := lonOfKW (fieldOf l.has .z) (fieldOf l.has .theta) (fieldOf l.has .eta)
def clsTmp (t : TmpN) : Option (Option TmpC) := tmpOfKW (fieldOf t.has .t) (fieldOf t.has .tau)

private theorem classComb_baddim {dim : Nat} (mom : Bool) (A : Option AzC) (L : Option (Option LonC)) (T : Option (Option TmpC))
    (h2 : dim ≠ 2) (h3 : dim ≠ 3) (h4 : dim ≠ 4) : classComb dim mom A L T = .error .typeError := by
  rcases A with _ | ⟨az, a1, a2⟩ <;> rcases L with _ | _ | l <;> rcases T with _ | _ | t <;> simp [classComb] <;> omega

private theorem classComb_ok {dim : Nat} {mom : Bool} {A : Option AzC} {L : Option (Option LonC)} {T : Option (Option TmpC)}
    {r : CtorRes} (h : classComb dim mom A L T = .ok r) :
    ∃ az a1 a2 lon tmp, A = some (az, a1, a2) ∧ L = some lon ∧ T = some tmp ∧ (tmp.isSome = true → lon.isSome = true) ∧
      r = ⟨mom, az, a1, a2, lon, tmp⟩ ∧ r.dim = dim := by
  rcases A with _ | ⟨az, a1, a2⟩ <;> rcases L with _ | lon <;> rcases T with _ | tmp <;>
    simp only [classComb] at h <;> try cases h
  by_cases hc : (tmp.isSome && lon.isNone) = true
  · simp [hc] at h
  · by_cases hd : 2 + (if lon.isSome then 1 else 0) + (if tmp.isSome then 1 else 0) = dim
    · simp only [hc, hd, if_true, if_false, Bool.false_eq_true] at h
      cases h
      refine ⟨_, _, _, _, _, rfl, rfl, rfl, ?_, rfl, hd⟩
      intro ht
      cases lon with
      | none => simp [ht] at hc
      | some _ => rfl
    · simp [hc, hd] at h

private theorem classComb_err {dim : Nat} {mom : Bool} {A : Option AzC} {L : Option (Option LonC)} {T : Option (Option TmpC)}
    {e : CtorErr} (h : classComb dim mom A L T = .error e) : e = .typeError := by
  rcases A with _ | ⟨az, a1, a2⟩ <;> rcases L with _ | lon <;> rcases T with _ | tmp <;>
    (try simp only [classComb] at h) <;> (try (cases h; rfl))
  by_cases hc : (tmp.isSome && lon.isNone) = true
  · simp only [hc, if_true] at h; cases h; rfl
  · by_cases hd : 2 + (if lon.isSome then 1 else 0) + (if tmp.isSome then 1 else 0) = dim
    · simp [hc, hd] at h
    · simp only [hc, hd, if_false, Bool.false_eq_true] at h; cases h; rfl

/-- the row-by-row class constructors (l. 676-687, 1049-1078, 1720-1785) are the single rule `classComb` -/
theorem classB_comb (dim : Nat) (mom : Bool) (n : NS) :
    classB dim mom n = if n.other then .error .typeError else if n.synDup then .error .typeError else
      classComb dim mom (clsAz n.a) (clsLon n.l) (clsTmp n.t) := by
  unfold classB
  cases n.other <;> simp only [if_true, if_false, Bool.false_eq_true]
  cases n.synDup <;> simp only [if_true, if_false, Bool.false_eq_true]
  split
  · exact class2_comb _ _
  · exact class3_comb _ _
  · exact class4_comb _ _
  · rename_i h2 h3 h4
    exact (classComb_baddim mom _ _ _ (fun h => h2 h) (fun h => h3 h) (fun h => h4 h)).symm

/-- on a name set in which no coordinate is spelled twice the group parts of `kwargs` are the documented reading of the group;
a name set in which a coordinate is spelled twice is not documented -/
private theorem cls_az_doc : ∀ a : AzN, (if a.dup then docAz a = none else clsAz a = docAz a) := AzN.forall (by decide)
private theorem cls_lon_doc : ∀ l : LonN, (if l.dup then docLon l = none else clsLon l = docLon l) := LonN.forall (by decide)
private theorem cls_tmp_doc : ∀ t : TmpN, (if t.dup then docTmp t = none else clsTmp t = docTmp t) := TmpN.forall (by decide)

/-- a name set with a repeated spelling is undocumented -/
theorem c06_doc_synDup {n : NS} (h : n.synDup = true) : docB n = none := by
  have hA := cls_az_doc n.a; have hL := cls_lon_doc n.l; have hT := cls_tmp_doc n.t
  simp only [NS.synDup, Bool.or_eq_true] at h
  unfold docB
  cases n.other <;> simp only [if_true, if_false, Bool.false_eq_true]
  rcases h with (h | h) | h <;> simp only [h, if_true] at hA hL hT
  · rw [hA]
  · rw [hL]; rcases docAz n.a with _ | ⟨az, a1, a2⟩ <;> rfl
  · rw [hT]; rcases docAz n.a with _ | ⟨az, a1, a2⟩ <;> rcases docLon n.l with _ | l <;> rfl

/-- **the object classes = documented grammar, up to the flavor**: `VectorObject<dim>D(**kw)` (`mom = false`) and
`MomentumObject<dim>D(**kw)` (`mom = true`) accept EXACTLY the documented name sets of dimension `dim` (generic or momentum
spellings, any keyword order) and build the documented vector — coordinate system and slot contents as documented — whose
flavor is the CLASS; every other name set (another dimension, missing partner, two coordinates of one group, a coordinate
spelled twice, temporal without longitudinal, unrecognised name) raises `TypeError`. -/
theorem c06_class_eq_doc (dim : Nat) (mom : Bool) (n : NS) :
    classB dim mom n = match docB n with
      | some d => if d.dim = dim then .ok { d with mom := mom } else .error .typeError
      | none => .error .typeError := by
  rw [classB_comb]
  cases hs : n.synDup
  · have hA := cls_az_doc n.a; have hL := cls_lon_doc n.l; have hT := cls_tmp_doc n.t
    simp only [NS.synDup, Bool.or_eq_false_iff] at hs
    simp only [hs.1.1, hs.1.2, hs.2, if_false, Bool.false_eq_true] at hA hL hT
    rw [hA, hL, hT]
    unfold docB
    cases n.other <;> simp only [if_true, if_false, Bool.false_eq_true]
    rcases docAz n.a with _ | ⟨az, a1, a2⟩ <;> rcases docLon n.l with _ | _ | l <;> rcases docTmp n.t with _ | _ | t <;>
      simp [classComb, CtorRes.dim]
  · rw [c06_doc_synDup hs]
    cases n.other <;> rfl

theorem c06_class_documented (dim : Nat) (mom : Bool) (n : NS) {d : CtorRes} (h : docB n = some d) :
    classB dim mom n = if d.dim = dim then .ok { d with mom := mom } else .error .typeError := by
  rw [c06_class_eq_doc, h]

/-- the classes reject every undocumented name set with `TypeError` (in particular every repeated spelling:
`VectorObject2D(x=1, px=2, y=3)`, `MomentumObject4D(px=, py=, pz=, E=, e=)`) -/
theorem c06_class_rejects (dim : Nat) (mom : Bool) (n : NS) (h : docB n = none) : classB dim mom n = .error .typeError := by
  rw [c06_class_eq_doc, h]

def okB {α : Type} : Except CtorErr α → Bool | .ok _ => true | .error _ => false

/-- **exact acceptance set of the classes**: the documented sets of dimension `dim` -/
theorem c06_class_accepts_iff (dim : Nat) (mom : Bool) (n : NS) :
    okB (classB dim mom n) = ((docB n).map CtorRes.dim == some dim) := by
  rw [c06_class_eq_doc]
  rcases docB n with _ | d
  · rfl
  · by_cases hd : d.dim = dim <;> simp [hd, okB]

theorem c06_class_accepts_iff' (dim : Nat) (mom : Bool) (n : NS) :
    (∃ r, classB dim mom n = .ok r) ↔ ∃ d, docB n = some d ∧ d.dim = dim := by
  rw [c06_class_eq_doc]
  rcases docB n with _ | d
  · simp
  · by_cases hd : d.dim = dim <;> simp [hd]

/-- the flavor of a class result is the class -/
theorem c06_class_flavor {dim : Nat} {mom : Bool} {n : NS} {r : CtorRes} (h : classB dim mom n = .ok r) : r.mom = mom := by
  rw [c06_class_eq_doc] at h
  rcases hd' : docB n with _ | d <;> simp only [hd'] at h
  · cases h
  · by_cases hd : d.dim = dim <;> simp only [hd, if_true, if_false] at h <;> cases h
    rfl

/-- the classes only ever raise `TypeError` -/
theorem c06_class_error_kind {dim : Nat} {mom : Bool} {n : NS} {e : CtorErr} (h : classB dim mom n = .error e) :
    e = .typeError := by
  rw [c06_class_eq_doc] at h
  rcases hd' : docB n with _ | d <;> simp only [hd'] at h
  · cases h; rfl
  · by_cases hd : d.dim = dim <;> simp only [hd, if_true, if_false] at h <;> cases h
    rfl

private theorem stored_with_mom {n : NS} {r : CtorRes} (m : Bool) (h : Stored n r) : Stored n { r with mom := m } := by
  cases r; exact h

/-- a documented vector holds the supplied names verbatim -/
theorem c06_doc_stored {n : NS} {d : CtorRes} (h : docB n = some d) : Stored n d :=
  c06_obj_verbatim n (c06_obj_documented n h)

/-- **the classes store verbatim**: whenever a class accepts, every slot holds the value given under the (unique) supplied
spelling of that slot's coordinate. -/
theorem c06_class_verbatim {dim : Nat} {mom : Bool} {n : NS} {r : CtorRes} (h : classB dim mom n = .ok r) : Stored n r := by
  rw [c06_class_eq_doc] at h
  rcases hd' : docB n with _ | d <;> simp only [hd'] at h
  · cases h
  · by_cases hd : d.dim = dim <;> simp only [hd, if_true, if_false] at h <;> cases h
    exact stored_with_mom mom (c06_doc_stored hd')

theorem c06_class_order_irrelevant (dim : Nat) (mom : Bool) {s s' : List CN} (h : ∀ k, k ∈ s ↔ k ∈ s') :
    classModel dim mom s = classModel dim mom s' := by
  unfold classModel; rw [NS.ofList_congr h]

/-- the one deviation of the classes from the grammar that is left: the flavor is the class, not the spelling; and the
formerly accepted repeated spellings are rejected -/
theorem c06_class_examples :
    classModel 2 false [.px, .py] = .ok ⟨false, .xy, .px, .py, none, none⟩ ∧
    Doc [.px, .py] = some ⟨true, .xy, .px, .py, none, none⟩ ∧
    classModel 3 true [.rho, .phi, .eta] = .ok ⟨true, .rhophi, .rho, .phi, some (.eta, .eta), none⟩ ∧
    Doc [.rho, .phi, .eta] = some ⟨false, .rhophi, .rho, .phi, some (.eta, .eta), none⟩ ∧
    classModel 2 false [.x, .px, .y] = .error .typeError ∧ classModel 2 false [.px, .x, .y] = .error .typeError ∧
    classModel 4 true [.px, .py, .pz, .E, .e] = .error .typeError ∧
    classModel 4 false [.x, .y, .z, .E, .t] = .error .typeError ∧
    classModel 3 false [.x, .y, .z, .t] = .error .typeError := by decide

/-! ### (c) `vector.array` -/

theorem CN.all_all (p : CN → Bool) (h : CN.all.all p = true) (k : CN) : p k = true := by
  simp only [CN.all, List.all_cons, List.all_nil, Bool.and_true, Bool.and_eq_true] at h
  cases k <;> simp [h]

theorem NS.mem_toList (n : NS) (k : CN) : k ∈ n.toList ↔ n.has k = true := by
  cases k <;> simp [NS.toList, AzN.toList, LonN.toList, TmpN.toList, NS.has, AzN.has, LonN.has, TmpN.has, List.mem_filter]

private theorem doc_az_covers : ∀ a, (match docAz a with
    | some c => CN.all.all (fun k => !a.has k || k == c.2.1 || k == c.2.2) | none => true) = true := AzN.forall (by decide)
private theorem doc_lon_covers : ∀ l, (match docLon l with
    | some (some c) => CN.all.all (fun k => !l.has k || k == c.2)
    | some none => CN.all.all (fun k => !l.has k) | none => true) = true := LonN.forall (by decide)
private theorem doc_tmp_covers : ∀ t, (match docTmp t with
    | some (some c) => CN.all.all (fun k => !t.has k || k == c.2)
    | some none => CN.all.all (fun k => !t.has k) | none => true) = true := TmpN.forall (by decide)

/-- a documented result uses ALL the names of the set -/
theorem c06_doc_covers {n : NS} {d : CtorRes} (h : docB n = some d) (k : CN) (hk : n.has k = true) : k ∈ d.fillers := by
  have hA := doc_az_covers n.a; have hL := doc_lon_covers n.l; have hT := doc_tmp_covers n.t
  unfold docB at h
  cases ho : n.other <;> simp only [ho, if_true, if_false, Bool.false_eq_true] at h
  · rcases hA' : docAz n.a with _ | ⟨az, a1, a2⟩ <;> rcases hL' : docLon n.l with _ | _ | l <;>
      rcases hT' : docTmp n.t with _ | _ | t <;> simp only [hA', hL', hT'] at h hA hL hT <;> (try cases h) <;>
      (try (simp at h; done))
    all_goals
      have h1 := CN.all_all _ hA k; have h2 := CN.all_all _ hL k; have h3 := CN.all_all _ hT k
      simp only [NS.has, Bool.or_eq_true] at hk
      simp only [Bool.or_eq_true, Bool.not_eq_true', beq_iff_eq] at h1 h2 h3
      simp only [CtorRes.fillers, List.mem_append, List.mem_cons, List.not_mem_nil, or_false]
      rcases hk with (hk | hk) | hk <;> simp_all
  · cases h

private theorem npAz_good : ∀ a, (match npAz a with | some c => azGood a c | none => true) = true := AzN.forall (by decide)
private theorem npLon_good : ∀ l, (match npLon l with | some c => lonGood l c | none => true) = true := LonN.forall (by decide)
private theorem npTmp_good : ∀ t, (match npTmp t with | some c => tmpGood t c | none => true) = true := TmpN.forall (by decide)

/-- `npB` with the class choice (l. 2159-2164) spelled out -/
theorem npB_cases (n : NS) : npB n =
    if !(n.a.any || n.l.any || n.t.any || n.other) then .error .valueError else
    if n.anyMom && (n.a.dup || n.l.dup || n.t.dup) then .error .valueError else
    match npAz n.a with
    | none => .error .typeError
    | some (az, a1, a2) =>
      if n.t.any then
        (match npLon n.l with
         | none => .error .typeError
         | some l => match npTmp n.t with
           | none => .error .typeError
           | some t => .ok ⟨n.anyMom, az, a1, a2, some l, some t⟩)
      else if n.l.any then
        (match npLon n.l with
         | none => .error .typeError
         | some l => .ok ⟨n.anyMom, az, a1, a2, some l, none⟩)
      else .ok ⟨n.anyMom, az, a1, a2, none, none⟩ := by
  simp only [npB]
  cases n.t.any <;> cases n.l.any <;> rfl

/-- **`vector.array` stores verbatim and never builds a vector from an incomplete set**: whenever it accepts, the slots
hold supplied names of the right coordinates (`Stored`), hence (`c06_wf_documented`) the names used form a documented,
complete coordinate set, interpreted as documented; the flavor is taken from ALL names, extras included. -/
theorem c06_array_verbatim {n : NS} {r : CtorRes} (h : npB n = .ok r) : Stored n r ∧ r.mom = n.anyMom := by
  have hA := npAz_good n.a; have hL := npLon_good n.l; have hT := npTmp_good n.t
  rw [npB_cases] at h
  cases h0 : (!(n.a.any || n.l.any || n.t.any || n.other)) <;> simp only [h0, if_true, if_false, Bool.false_eq_true] at h
  · cases h1 : (n.anyMom && (n.a.dup || n.l.dup || n.t.dup)) <;> simp only [h1, if_true, if_false, Bool.false_eq_true] at h
    · rcases hA' : npAz n.a with _ | ⟨az, a1, a2⟩ <;> simp only [hA'] at h hA
      · cases h
      · cases hta : n.t.any <;> cases hla : n.l.any <;> simp only [hta, hla, if_true, if_false, Bool.false_eq_true] at h
        · cases h; exact ⟨stored_of_parts hA rfl rfl (by simp), rfl⟩
        · rcases hL' : npLon n.l with _ | l <;> simp only [hL'] at h hL <;> cases h
          exact ⟨stored_of_parts hA hL rfl (by simp), rfl⟩
        · rcases hL' : npLon n.l with _ | l <;> simp only [hL'] at h hL
          · cases h
          · rcases hT' : npTmp n.t with _ | t <;> simp only [hT'] at h hT <;> cases h
            exact ⟨stored_of_parts hA hL hT (by simp), rfl⟩
        · rcases hL' : npLon n.l with _ | l <;> simp only [hL'] at h hL
          · cases h
          · rcases hT' : npTmp n.t with _ | t <;> simp only [hT'] at h hT <;> cases h
            exact ⟨stored_of_parts hA hL hT (by simp), rfl⟩
    · cases h
  · cases h

theorem c06_array_extras (n : NS) (r : CtorRes) (k : CN) : k ∈ npExtra n r ↔ n.has k = true ∧ k ∉ r.fillers := by
  simp [npExtra, List.mem_filter, NS.mem_toList]

private theorem np_az_doc : ∀ a, (match docAz a with | some c => npAz a == some c && !a.dup && a.any | none => true) = true :=
  AzN.forall (by decide)
private theorem np_lon_doc : ∀ l, (match docLon l with
    | some (some c) => npLon l == some c && !l.dup && l.any | some none => !l.any && !l.dup | none => true) = true :=
  LonN.forall (by decide)
private theorem np_tmp_doc : ∀ t, (match docTmp t with
    | some (some c) => npTmp t == some c && !t.dup && t.any | some none => !t.any && !t.dup | none => true) = true :=
  TmpN.forall (by decide)

/-- on a documented set `vector.array` builds exactly the documented vector, without extra fields -/
theorem c06_array_documented {n : NS} {d : CtorRes} (h : docB n = some d) : npB n = .ok d ∧ npExtra n d = [] := by
  refine ⟨?_, ?_⟩
  · have hA := np_az_doc n.a; have hL := np_lon_doc n.l; have hT := np_tmp_doc n.t
    unfold docB at h
    cases ho : n.other <;> simp only [ho, if_true, if_false, Bool.false_eq_true] at h
    · rcases hA' : docAz n.a with _ | ⟨az, a1, a2⟩ <;> rcases hL' : docLon n.l with _ | _ | l <;>
        rcases hT' : docTmp n.t with _ | _ | t <;> simp only [hA', hL', hT'] at h hA hL hT <;> (try cases h) <;>
        (try (simp at h; done))
      all_goals
        simp only [Bool.and_eq_true, beq_iff_eq, Bool.not_eq_true'] at hA hL hT
        simp [npB, hA, hL, hT, ho]
    · cases h
  · simp only [npExtra, List.filter_eq_nil_iff, NS.mem_toList]
    intro k hk
    simp [c06_doc_covers h k hk]

/-- discrepancies of `vector.array` with the other constructors outside the documented sets -/
theorem c06_array_examples :
    -- an extra momentum-spelled field turns a generic vector into a momentum vector
    arrayModel [.x, .y, .pt] = .ok ⟨⟨true, .xy, .x, .y, none, none⟩, [.pt]⟩ ∧
    -- both azimuthal systems: the Cartesian one wins, the other is carried along
    arrayModel [.x, .y, .rho, .phi] = .ok ⟨⟨false, .xy, .x, .y, none, none⟩, [.rho, .phi]⟩ ∧
    -- repeated spellings: `ValueError` (duplicate field name after renaming), not `TypeError`
    arrayModel [.x, .px, .y] = .error .valueError ∧
    arrayModel [.x, .y, .z, .E, .e] = .error .valueError ∧
    -- an incomplete set is never a vector
    arrayModel [.x, .y, .t] = .error .typeError ∧ arrayModel [.x, .z] = .error .typeError ∧
    arrayModel [.px, .py, .pz, .theta, .E, .M] = .ok ⟨⟨true, .xy, .px, .py, some (.z, .pz), some (.t, .E)⟩, [.theta, .M]⟩ := by decide

/-! ### (c) `vector.zip`, `vector.Array` (`_check_names`) -/

private theorem akAz_spec : ∀ a, (match akAz a with
    | .ok st => (match st.c with
        | some c => azGood a c && (st.mom == (c.2.1.isMom || c.2.2.isMom)) &&
            CN.all.all (fun k => a.has k == (k == c.2.1 || k == c.2.2 || st.rem.has k)) &&
            !st.rem.has c.2.1 && !st.rem.has c.2.2
        | none => true)
    | .error e => e == .typeError) = true := AzN.forall (by decide)

def akLonSpec (dim : Nat) (l : LonN) : Bool :=
  match akLon dim l with
  | .ok (d, lon) => (d == (if lon.isSome then 3 else dim)) && lonGoodO l lon && (!lon.isSome || dim == 2) &&
      CN.all.all (fun k => l.has k == (match lon with | some (_, j) => k == j | none => false))
  | .error e => e == .typeError
def akTmpSpec (dim : Nat) (t : TmpN) : Bool :=
  match akTmp dim t with
  | .ok (d, tmp) => (d == (if tmp.isSome then 4 else dim)) && tmpGoodO t tmp && (!tmp.isSome || dim == 3) &&
      CN.all.all (fun k => t.has k == (match tmp with | some (_, j) => k == j | none => false))
  | .error e => e == .typeError
private theorem akLon_spec : ∀ l, (akLonSpec 0 l && akLonSpec 2 l) = true := LonN.forall (by decide)
private theorem akTmp_spec : ∀ t, (akTmpSpec 0 t && akTmpSpec 2 t && akTmpSpec 3 t) = true := TmpN.forall (by decide)

theorem c06_zip_verbatim {n : NS} {r : CtorRes} {rem : AzN} (h : akB n = .ok (r, rem)) :
    Stored n r ∧ r.mom = r.fillers.any CN.isMom ∧ (∀ k, n.has k = true → k ∈ r.fillers ∨ rem.has k = true) ∧
    (∀ k, rem.has k = true → n.a.has k = true ∧ k ≠ r.a1 ∧ k ≠ r.a2) := by
  have hA := akAz_spec n.a; have hL := akLon_spec n.l; have hT := akTmp_spec n.t
  rcases h1 : akAz n.a with e | st
  · simp [akB, h1, bind, Except.bind] at h
  · simp only [akB, h1, bind, Except.bind] at h
    simp only [Bool.and_eq_true] at hL hT
    obtain ⟨_, hL2⟩ := hL
    obtain ⟨⟨_, hT2⟩, hT3⟩ := hT
    rcases hc : st.c with _ | ⟨az, a1, a2⟩
    · simp only [hc, Option.isSome_none, Bool.false_eq_true, if_false] at h
      rcases h2 : akLon 0 n.l with e | v <;> simp only [h2] at h
      · cases h
      · rcases h3 : akTmp v.fst n.t with e | v1 <;> simp only [h3] at h <;> cases h
    · simp only [hc, h1, Option.isSome_some, if_true] at h hA
      rcases h2 : akLon 2 n.l with e | ⟨d1, lon⟩ <;> simp only [h2] at h
      · cases h
      · unfold akLonSpec at hL2
        simp only [h2, Bool.and_eq_true, beq_iff_eq] at hL2
        obtain ⟨⟨⟨hd1, hLg⟩, _⟩, hLall⟩ := hL2
        subst hd1
        have key : ∀ (tmp : Option TmpC) (d2 : Nat), akTmp (if lon.isSome = true then 3 else 2) n.t = .ok (d2, tmp) →
            tmpGoodO n.t tmp = true ∧ (tmp.isSome = true → lon.isSome = true) ∧
            (CN.all.all fun k => n.t.has k == (match tmp with | some (_, j) => k == j | none => false)) = true := by
          intro tmp d2 h3
          cases lon with
          | none =>
            simp only [Option.isSome_none, Bool.false_eq_true, if_false] at h3
            unfold akTmpSpec at hT2
            simp only [h3, Bool.and_eq_true, beq_iff_eq, Bool.or_eq_true, Bool.not_eq_true'] at hT2
            obtain ⟨⟨⟨_, hg⟩, hd⟩, hall⟩ := hT2
            refine ⟨hg, ?_, hall⟩
            intro ht; rw [ht] at hd; simp at hd
          | some lc =>
            simp only [Option.isSome_some, if_true] at h3
            unfold akTmpSpec at hT3
            simp only [h3, Bool.and_eq_true, beq_iff_eq] at hT3
            exact ⟨hT3.1.1.2, fun _ => rfl, hT3.2⟩
        rcases h3 : akTmp (if lon.isSome = true then 3 else 2) n.t with e | ⟨d2, tmp⟩ <;> simp only [h3] at h
        · cases h
        · obtain ⟨hTg, htl, hTall⟩ := key tmp d2 h3
          simp only [Except.ok.injEq, Prod.mk.injEq] at h
          obtain ⟨rfl, rfl⟩ := h
          simp only [Bool.and_eq_true, beq_iff_eq, Bool.not_eq_true'] at hA
          obtain ⟨⟨⟨⟨hAg, hmom⟩, hAall⟩, hr1⟩, hr2⟩ := hA
          refine ⟨stored_of_parts hAg hLg hTg htl, ?_, ?_, ?_⟩
          · rw [hmom]
            rcases lon with _ | ⟨lc, lk⟩ <;> rcases tmp with _ | ⟨tc, tk⟩ <;> simp [CtorRes.fillers, Bool.or_assoc]
          · intro k hk
            have h1 := CN.all_all _ hAall k; have h2 := CN.all_all _ hLall k; have h3 := CN.all_all _ hTall k
            simp only [beq_iff_eq] at h1 h2 h3
            simp only [NS.has, Bool.or_eq_true] at hk
            rcases lon with _ | ⟨lc, lk⟩ <;> rcases tmp with _ | ⟨tc, tk⟩ <;>
              simp only [CtorRes.fillers, List.mem_append, List.mem_cons, List.not_mem_nil, or_false] <;>
              rcases hk with (hk | hk) | hk <;> simp_all <;> (try (rcases h1 with (h | h) | h <;> simp [h]))
          · intro k hk
            have h1 := CN.all_all _ hAall k
            simp only [beq_iff_eq] at h1
            refine ⟨by simp [h1, hk], ?_, ?_⟩
            · rintro rfl; simp [hk] at hr1
            · rintro rfl; simp [hk] at hr2

private theorem ak_az_doc : ∀ a, (match docAz a with
    | some c => akAz a == .ok ⟨some c, c.2.1.isMom || c.2.2.isMom, .empty⟩ && (a.anyMom == (c.2.1.isMom || c.2.2.isMom))
    | none => true) = true := AzN.forall (by decide)
private theorem ak_lon_doc : ∀ l, (match docLon l with
    | some lon => akLon 2 l == .ok (if lon.isSome then 3 else 2, lon) &&
        (l.anyMom == (match lon with | some (_, k) => k.isMom | none => false))
    | none => true) = true := LonN.forall (by decide)
private theorem ak_tmp_doc : ∀ t, (match docTmp t with
    | some tmp => akTmp 3 t == .ok (if tmp.isSome then 4 else 3, tmp) && (tmp.isSome || akTmp 2 t == .ok (2, none)) &&
        (t.anyMom == (match tmp with | some (_, k) => k.isMom | none => false))
    | none => true) = true := TmpN.forall (by decide)

/-- on a documented set `vector.zip` / `vector.Array` build exactly the documented vector, without extra fields -/
theorem c06_zip_documented {n : NS} {d : CtorRes} (h : docB n = some d) : akB n = .ok (d, .empty) := by
  have hA := ak_az_doc n.a; have hL := ak_lon_doc n.l; have hT := ak_tmp_doc n.t
  unfold docB at h
  cases ho : n.other <;> simp only [ho, if_true, if_false, Bool.false_eq_true] at h
  · rcases hA' : docAz n.a with _ | ⟨az, a1, a2⟩ <;> rcases hL' : docLon n.l with _ | _ | l <;>
      rcases hT' : docTmp n.t with _ | _ | t <;> simp only [hA', hL', hT'] at h hA hL hT <;> (try cases h) <;>
      (try (simp at h; done))
    all_goals
      simp only [Bool.and_eq_true, beq_iff_eq, Bool.or_eq_true, Option.isSome_none, Option.isSome_some, Bool.false_eq_true,
        false_or, true_or, if_true, if_false] at hA hL hT
      simp [akB, bind, Except.bind, hA, hL, hT, NS.anyMom]
  · cases h

/-! ### C06 assembled, for lists of names -/

/-- list form of `Stored`: the result is well formed (every slot holds a spelling of its own coordinate; temporal only with
longitudinal) and every stored name was supplied -/
def StoredL (s : List CN) (r : CtorRes) : Prop := r.wf = true ∧ ∀ k ∈ r.fillers, k ∈ s

theorem Stored.toList {s : List CN} {r : CtorRes} (h : Stored (.ofList s) r) : StoredL s r :=
  ⟨h.1, fun k hk => by simpa [NS.has_ofList] using h.2 k hk⟩

theorem NS.anyMom_ofList (s : List CN) : (NS.ofList s).anyMom = s.any CN.isMom := by
  rw [Bool.eq_iff_iff]
  simp only [NS.anyMom, AzN.anyMom, LonN.anyMom, TmpN.anyMom, NS.ofList, NS.ofP, AzN.ofP, LonN.ofP, TmpN.ofP,
    Bool.or_eq_true, List.contains_iff_mem, List.any_eq_true]
  constructor
  · rintro ((((h | h) | h) | h) | (((((h | h) | h) | h) | h) | h)) <;> exact ⟨_, h, rfl⟩
  · rintro ⟨k, hk, hm⟩
    cases k <;> simp_all [CN.isMom]

private theorem with_mom_self (d : CtorRes) : (⟨d.mom, d.az, d.a1, d.a2, d.lon, d.tmp⟩ : CtorRes) = d := by cases d; rfl

/-- **C06, positive part**: on every documented coordinate-name set (in any order, any documented momentum spelling) all
constructors build the documented vector — dimension, coordinate system, flavor, and each slot holding the value
supplied under the corresponding name — and they agree with each other; the array constructors add no extra field; the
classes of the other dimensions raise `TypeError`.  (The classes take their flavor from the class: `MomentumObject*`
with generic spellings / `VectorObject*` with momentum spellings is accepted too, see `c06_class_documented`.) -/
theorem c06_all_agree_on_documented (s : List CN) {d : CtorRes} (h : Doc s = some d) :
    objModel s = .ok d ∧ classModel d.dim d.mom s = .ok d ∧
    (∀ mom, classModel d.dim mom s = .ok { d with mom := mom }) ∧
    (∀ dim mom, dim ≠ d.dim → classModel dim mom s = .error .typeError) ∧
    arrayModel s = .ok ⟨d, []⟩ ∧ zipModel s = .ok ⟨d, []⟩ ∧ akArrayModel s = .ok ⟨d, []⟩ := by
  have hz : zipModel s = .ok ⟨d, []⟩ := by
    unfold zipModel
    rw [c06_zip_documented h]
    simp only [Except.map, ArrRes.mk.injEq, Except.ok.injEq, true_and, List.filter_eq_nil_iff]
    intro k hk
    have := c06_doc_covers h k (by rw [NS.has_ofList]; simpa using hk)
    simpa using this
  refine ⟨c06_obj_documented _ h, ?_, ?_, ?_, ?_, hz, hz⟩
  · unfold classModel; rw [c06_class_documented _ _ _ h, if_pos rfl, with_mom_self]
  · intro mom; unfold classModel; rw [c06_class_documented _ _ _ h, if_pos rfl]
  · intro dim mom hd; unfold classModel; rw [c06_class_documented _ _ _ h, if_neg (fun e => hd e.symm)]
  · unfold arrayModel
    rw [(c06_array_documented h).1]
    simp only [Except.map, (c06_array_documented h).2]

/-- **C06, verbatim storage**: whatever any constructor accepts, each slot of the vector holds the value supplied under
a name of the call which is a spelling of exactly that slot's coordinate, and the stored names form a documented
(complete) coordinate set whose documented coordinate system and dimension are those of the vector built. -/
theorem c06_stored_is_documented {s : List CN} {r : CtorRes} (h : StoredL s r) :
    Doc r.fillers = some { r with mom := r.fillers.any CN.isMom } := c06_wf_documented r h.1

theorem c06_obj_model_verbatim {s : List CN} {r : CtorRes} (h : objModel s = .ok r) :
    StoredL s r ∧ r.mom = s.any CN.isMom := by
  refine ⟨(c06_obj_verbatim _ h).toList, ?_⟩
  rw [← NS.anyMom_ofList]
  unfold objModel objB at h
  split at h
  · cases h
  · split at h <;> cases h <;> rfl

theorem c06_class_model_verbatim {dim : Nat} {mom : Bool} {s : List CN} {r : CtorRes} (h : classModel dim mom s = .ok r) :
    StoredL s r ∧ r.mom = mom ∧ r.dim = dim := by
  refine ⟨(c06_class_verbatim h).toList, c06_class_flavor h, ?_⟩
  unfold classModel at h
  rw [c06_class_eq_doc] at h
  rcases hd' : docB (NS.ofList s) with _ | d <;> simp only [hd'] at h
  · cases h
  · by_cases hd : d.dim = dim <;> simp only [hd, if_true, if_false] at h <;> cases h
    exact hd

/-- `vector.obj` and the classes reject with `TypeError`, never with another exception -/
theorem c06_obj_error_kind {n : NS} {e : CtorErr} (h : objB n = .error e) : e = .typeError := by
  unfold objB at h
  split at h
  · cases h; rfl
  · split at h <;> cases h <;> rfl

/-- **C06, negative part**: every undocumented set of names (a missing partner, two coordinates of one group, the same
coordinate spelled twice through synonyms, a temporal coordinate without a longitudinal one, unknown names) is rejected with
`TypeError` by `vector.obj` and by every object class -/
theorem c06_rejects (s : List CN) (h : Doc s = none) (dim : Nat) (mom : Bool) :
    objModel s = .error .typeError ∧ classModel dim mom s = .error .typeError :=
  ⟨c06_obj_rejects _ h, c06_class_rejects _ _ _ h⟩

/-- `vector.obj` and each object class, as functions of the name list, ARE the documented grammar (the classes up to the
dimension test and the flavor) -/
theorem c06_obj_class_eq_doc (s : List CN) (dim : Nat) (mom : Bool) :
    objModel s = docE (Doc s) ∧
    classModel dim mom s = (match Doc s with
      | some d => if d.dim = dim then .ok { d with mom := mom } else .error .typeError
      | none => .error .typeError) :=
  ⟨c06_obj_eq_doc _, c06_class_eq_doc _ _ _⟩

/-- **C06, array constructors (NumPy)**: whatever `vector.array` accepts, the vector part is built from a documented,
complete subset of the supplied names, stored verbatim and interpreted as documented; all other names are extra fields;
the flavor is "some supplied name (extra or not) is a momentum spelling". -/
theorem c06_array_sound {s : List CN} {r : CtorRes} {ex : List CN} (h : arrayModel s = .ok ⟨r, ex⟩) :
    StoredL s r ∧ Doc r.fillers = some { r with mom := r.fillers.any CN.isMom } ∧ r.mom = s.any CN.isMom ∧
    ∀ k, k ∈ ex ↔ k ∈ s ∧ k ∉ r.fillers := by
  unfold arrayModel at h
  rcases hn : npB (.ofList s) with e | r' <;> simp only [hn, Except.map] at h
  · cases h
  · simp only [Except.ok.injEq, ArrRes.mk.injEq] at h
    obtain ⟨rfl, rfl⟩ := h
    have hv := c06_array_verbatim hn
    refine ⟨hv.1.toList, c06_wf_documented _ hv.1.1, by rw [hv.2, NS.anyMom_ofList], ?_⟩
    intro k
    rw [c06_array_extras, NS.has_ofList]; simp

theorem AzN.has_isAz {a : AzN} {k : CN} (h : a.has k = true) : k.isAz = true := by
  cases k <;> simp_all [AzN.has, CN.isAz]

/-- **C06, array constructors (Awkward)**: whatever `vector.zip` / `vector.Array` accept, the vector part is built from a
documented, complete subset of the supplied names, stored verbatim, and is EXACTLY the documented vector of that subset
(flavor included); the remaining names are extra fields, and they can only be azimuthal names (every longitudinal or
temporal name is either used or makes the call fail). -/
theorem c06_zip_sound {s : List CN} {r : CtorRes} {ex : List CN} (h : zipModel s = .ok ⟨r, ex⟩) :
    StoredL s r ∧ Doc r.fillers = some r ∧ (∀ k, k ∈ ex ↔ k ∈ s ∧ k ∉ r.fillers) ∧ ∀ k ∈ ex, k.isAz = true := by
  unfold zipModel at h
  rcases hn : akB (.ofList s) with e | ⟨r', rem⟩ <;> simp only [hn, Except.map] at h
  · cases h
  · simp only [Except.ok.injEq, ArrRes.mk.injEq] at h
    obtain ⟨rfl, rfl⟩ := h
    obtain ⟨hst, hmom, hcov, hrem⟩ := c06_zip_verbatim hn
    have hdoc := c06_wf_documented _ hst.1
    rw [← hmom, with_mom_self] at hdoc
    refine ⟨hst.toList, hdoc, fun k => by simp [List.mem_filter], ?_⟩
    intro k hk
    simp only [List.mem_filter, Bool.not_eq_true', List.contains_eq_mem, decide_eq_false_iff_not] at hk
    rcases hcov k (by rw [NS.has_ofList]; simpa using hk.1) with h1 | h1
    · exact absurd h1 hk.2
    · exact AzN.has_isAz h1

theorem c06_zip_examples :
    zipModel [.x, .y, .px] = .ok ⟨⟨false, .xy, .x, .y, none, none⟩, [.px]⟩ ∧
    zipModel [.px, .py, .x] = .ok ⟨⟨true, .xy, .x, .py, none, none⟩, [.px]⟩ ∧
    zipModel [.x, .y, .rho, .phi] = .error .typeError ∧ zipModel [.x, .y, .z, .E, .e] = .error .typeError ∧
    zipModel [.x, .y, .t] = .error .typeError ∧ zipModel [.x, .y, .z, .theta] = .error .typeError ∧
    zipModel [.rho, .mass, .x, .y, .z] = .ok ⟨⟨true, .xy, .x, .y, some (.z, .z), some (.tau, .mass)⟩, [.rho]⟩ := by decide

/-- size of the documented grammar: 6 azimuthal pairs, (no | 4) longitudinal names, (no | 8) temporal names -/
theorem c06_doc_counts :
    (AzN.univ.filter fun a => (docAz a).isSome).length = 6 ∧ (LonN.univ.filter fun l => (docLon l).isSome).length = 5 ∧
    (TmpN.univ.filter fun t => (docTmp t).isSome).length = 9 := by decide

end VG
