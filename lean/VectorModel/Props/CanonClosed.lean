/-
C13 (closure) — the representable domain is CLOSED under the vector-valued operations:
every compute module whose DECLARED result stores a polar azimuth (`rhophi`), a polar angle
(`theta`) or a proper time (`tau`) returns these stored coordinates inside the documented ranges
`0 ≤ ρ`, `-π ≤ φ ≤ π`, `0 ≤ θ ≤ π`, (`0 ≤ τ`), under the natural hypothesis that the INPUT
coordinates are in range.  (`Props/C13.lean` proves the ranges for the ACCESSOR modules; a later
`.phi`/`.theta`/`.rho` on a polar result just reads the stored value back, so this file is what makes
the range statement true for results of operations.)

The statements are about the GENERATED model (`Gen/Real/*.lean`), one theorem per module, quantified over
all keys through the dispatcher `eval` and the declared result `ret`:
`c13c_<module> : hyps → OutCanonN (<module>.ret k…) (<module>.eval k… args)`.

Coverage (all 31 modules with a vector result):
* full range statement, all keys: `planar_{add,subtract,scale,rotateZ,unit,transform2D}`,
  `spatial_{add,subtract,scale,unit,rotateX,rotateY,rotate_axis,rotate_euler,rotate_quaternion,cross,transform3D}`,
  `lorentz_{add,unit,boostX_beta,boostX_gamma,boostY_beta,boostY_gamma,boostZ_beta,boostZ_gamma,boost_beta3,boost_p4,
  transform4D}`;
* `φ_out` produced by `rectify` lies in the HALF-OPEN `[-π, π)` (`…_phi_lt`); `arctan2` gives `(-π, π]`, so `-π` itself
  can be stored (`c13c_planar_rotateZ_pi`), inside the documented closed range;
* FINDINGS (range not preserved; strongest true statement `…_partial` + counterexample):
  - `lorentz_scale`, `tau` keys, negative factor: `τ_out = τ·k < 0` (`c13c_lorentz_scale_tau_neg`);
  - `lorentz_to_beta3`, polar `t` keys, negative `t`: `ρ_out = ρ/t < 0` (`c13c_lorentz_to_beta3_rho_neg`);
  - `lorentz_subtract`, `tau − tau` keys: `0 ≤ τ_out` iff the exact difference is causal
    (`c13c_lorentz_subtract_tau_nonneg_iff`), e.g. `(1,0,0,τ=0) − (0,0,0,τ=1)` is stored with `τ = -1`.
-/
import VectorModel.Gen.Real.planar_add
import VectorModel.Gen.Real.planar_subtract
import VectorModel.Gen.Real.planar_scale
import VectorModel.Gen.Real.planar_rotateZ
import VectorModel.Gen.Real.planar_unit
import VectorModel.Gen.Real.planar_transform2D
import VectorModel.Gen.Real.spatial_add
import VectorModel.Gen.Real.spatial_subtract
import VectorModel.Gen.Real.spatial_scale
import VectorModel.Gen.Real.spatial_unit
import VectorModel.Gen.Real.spatial_rotateX
import VectorModel.Gen.Real.spatial_rotateY
import VectorModel.Gen.Real.spatial_rotate_axis
import VectorModel.Gen.Real.spatial_rotate_euler
import VectorModel.Gen.Real.spatial_rotate_quaternion
import VectorModel.Gen.Real.spatial_cross
import VectorModel.Gen.Real.spatial_transform3D
import VectorModel.Gen.Real.lorentz_scale
import VectorModel.Gen.Real.lorentz_unit
import VectorModel.Gen.Real.lorentz_to_beta3
import VectorModel.Gen.Real.lorentz_boostX_beta
import VectorModel.Gen.Real.lorentz_boostX_gamma
import VectorModel.Gen.Real.lorentz_boostY_beta
import VectorModel.Gen.Real.lorentz_boostY_gamma
import VectorModel.Gen.Real.lorentz_boostZ_beta
import VectorModel.Gen.Real.lorentz_boostZ_gamma
import VectorModel.Gen.Real.lorentz_boost_beta3
import VectorModel.Gen.Real.lorentz_boost_p4
import VectorModel.Gen.Real.lorentz_transform4D
import VectorModel.Gen.Real.lorentz_add
import VectorModel.Gen.Real.lorentz_subtract
import VectorModel.Spec.Basic
import VectorModel.Refine.SpatialAcc
import VectorModel.Refine.SpatialBin
import VectorModel.Refine.LorentzBin
import Mathlib.Tactic.Ring
import Mathlib.Tactic.Linarith
import Mathlib.Tactic.NormNum
import Mathlib.Tactic.Positivity
import VectorModel.Lemmas.Real

namespace VR
open VK

/-! ## 0. The range predicate on a raw result, by recursion on the declared result parts -/

/-- stored azimuthal pair in range: nothing for `xy`; `0 ≤ ρ ∧ -π ≤ φ ≤ π` for `rhophi` -/
def AzOK : Az → ℝ → ℝ → Prop
  | .xy, _, _ => True
  | .rhophi, r, p => 0 ≤ r ∧ -Real.pi ≤ p ∧ p ≤ Real.pi

/-- stored longitudinal coordinate in range: `0 ≤ θ ≤ π` for `theta`; nothing for `z`, `eta` -/
def LonOK : Lon → ℝ → Prop
  | .z, _ => True
  | .theta, c => 0 ≤ c ∧ c ≤ Real.pi
  | .eta, _ => True

/-- stored temporal coordinate: nothing for `t`; the predicate `T` for `tau` -/
def TmpOK (T : ℝ → Prop) : Tmp → ℝ → Prop
  | .t, _ => True
  | .tau, d => T d

/-- `OutCanonL T parts values`: the raw values, read through the declared parts, are in range
(`T` is what is required of a stored `tau`). A `None` part consumes no value; a length mismatch is `False`. -/
def OutCanonL (T : ℝ → Prop) : List RP → List ℝ → Prop
  | [], [] => True
  | .az a :: ps, r :: p :: vs => AzOK a r p ∧ OutCanonL T ps vs
  | .lon l :: ps, c :: vs => LonOK l c ∧ OutCanonL T ps vs
  | .tmp tm :: ps, d :: vs => TmpOK T tm d ∧ OutCanonL T ps vs
  | .none :: ps, vs => OutCanonL T ps vs
  | _, _ => False

def OutCanonR (T : ℝ → Prop) : Ret → List ℝ → Prop
  | .vec ps, vs => OutCanonL T ps vs
  | _, _ => False

/-- the full range predicate: a stored `tau` must be non-negative -/
def OutCanon2 (r : Ret) (v : ℝ × ℝ) : Prop := OutCanonR (fun d => 0 ≤ d) r [v.1, v.2]
def OutCanon3 (r : Ret) (v : ℝ × ℝ × ℝ) : Prop := OutCanonR (fun d => 0 ≤ d) r [v.1, v.2.1, v.2.2]
def OutCanon4 (r : Ret) (v : ℝ × ℝ × ℝ × ℝ) : Prop :=
  OutCanonR (fun d => 0 ≤ d) r [v.1, v.2.1, v.2.2.1, v.2.2.2]
/-- the spatial part only (nothing is required of a stored `tau`) -/
def OutCanonS4 (r : Ret) (v : ℝ × ℝ × ℝ × ℝ) : Prop :=
  OutCanonR (fun _ => True) r [v.1, v.2.1, v.2.2.1, v.2.2.2]

/-- the natural input hypotheses: stored coordinates of an INPUT vector are in range -/
def InAz (k : Az) (a b : ℝ) : Prop := AzOK k a b
def InLon (k : Lon) (c : ℝ) : Prop := LonOK k c
def InTmp (k : Tmp) (d : ℝ) : Prop := TmpOK (fun d => 0 ≤ d) k d

/-! ### key lemmas -/

/-- the code's `rectify` lands in `[-π, π)`: in particular in the closed documented range -/
theorem c13c_rectify_mem (x : ℝ) :
    -Real.pi ≤ P.mod (x + Real.pi) (2 * Real.pi) - Real.pi ∧
      P.mod (x + Real.pi) (2 * Real.pi) - Real.pi < Real.pi := L.rectify_mem x

private theorem rect_ok (x : ℝ) :
    -Real.pi ≤ P.mod (x + Real.pi) (2 * Real.pi) - Real.pi ∧
      P.mod (x + Real.pi) (2 * Real.pi) - Real.pi ≤ Real.pi :=
  ⟨(L.rectify_mem x).1, (L.rectify_mem x).2.le⟩

/-! ## 1. Planar modules -/

/-- `planar_add`: the only polar result (`rhophi + rhophi`) has `ρ = √… ≥ 0` and `φ = rectify(…) ∈ [-π, π)`;
no hypothesis on the inputs is needed. -/
theorem c13c_planar_add (k0 k1 : Az) (a0 a1 b0 b1 : ℝ) :
    OutCanon2 (planar_add.ret k0 k1) (planar_add.eval k0 k1 a0 a1 b0 b1) := by
  cases k0 <;> cases k1 <;>
    simp only [planar_add.ret, planar_add.eval, OutCanon2, OutCanonR, OutCanonL, AzOK, and_true]
  simp only [planar_add.rhophi_rhophi, planar_add.rectify]
  exact ⟨Real.sqrt_nonneg _, rect_ok _⟩

theorem c13c_planar_subtract (k0 k1 : Az) (a0 a1 b0 b1 : ℝ) :
    OutCanon2 (planar_subtract.ret k0 k1) (planar_subtract.eval k0 k1 a0 a1 b0 b1) := by
  cases k0 <;> cases k1 <;>
    simp only [planar_subtract.ret, planar_subtract.eval, OutCanon2, OutCanonR, OutCanonL, AzOK, and_true]
  simp only [planar_subtract.rhophi_rhophi, planar_subtract.rectify]
  exact ⟨Real.sqrt_nonneg _, rect_ok _⟩

/-- strict form: the polar results of `add`/`subtract` have `φ < π` (half-open `[-π, π)`) -/
theorem c13c_planar_add_phi_lt (a0 a1 b0 b1 : ℝ) :
    (planar_add.eval .rhophi .rhophi a0 a1 b0 b1).2 < Real.pi := by
  simp only [planar_add.eval, planar_add.rhophi_rhophi, planar_add.rectify]
  exact (L.rectify_mem _).2

theorem c13c_planar_subtract_phi_lt (a0 a1 b0 b1 : ℝ) :
    (planar_subtract.eval .rhophi .rhophi a0 a1 b0 b1).2 < Real.pi := by
  simp only [planar_subtract.eval, planar_subtract.rhophi_rhophi, planar_subtract.rectify]
  exact (L.rectify_mem _).2

/-- `planar_scale`: for the polar key `ρ_out = ρ·|k| ≥ 0` (given `0 ≤ ρ`; ANY factor, also `0` and negative
ones) and `φ_out = rectify(φ + turn) ∈ [-π, π)` whatever the stored `φ` is. -/
theorem c13c_planar_scale (k0 : Az) (factor a0 a1 : ℝ) (h : InAz k0 a0 a1) :
    OutCanon2 (planar_scale.ret k0) (planar_scale.eval k0 factor a0 a1) := by
  cases k0 <;>
    simp only [planar_scale.ret, planar_scale.eval, OutCanon2, OutCanonR, OutCanonL, AzOK, and_true]
  simp only [planar_scale.rhophi, planar_scale.rectify]
  exact ⟨mul_nonneg h.1 (abs_nonneg _), rect_ok _⟩

theorem c13c_planar_scale_phi_lt (factor a0 a1 : ℝ) :
    (planar_scale.eval .rhophi factor a0 a1).2 < Real.pi := by
  simp only [planar_scale.eval, planar_scale.rhophi, planar_scale.rectify]
  exact (L.rectify_mem _).2

/-- `planar_rotateZ`: `ρ` is passed through, `φ_out = rectify(φ + angle) ∈ [-π, π)`. -/
theorem c13c_planar_rotateZ (k0 : Az) (angle a0 a1 : ℝ) (h : InAz k0 a0 a1) :
    OutCanon2 (planar_rotateZ.ret k0) (planar_rotateZ.eval k0 angle a0 a1) := by
  cases k0 <;>
    simp only [planar_rotateZ.ret, planar_rotateZ.eval, OutCanon2, OutCanonR, OutCanonL, AzOK, and_true]
  simp only [planar_rotateZ.rhophi, planar_rotateZ.rectify]
  exact ⟨h.1, rect_ok _⟩

theorem c13c_planar_rotateZ_phi_lt (angle a0 a1 : ℝ) :
    (planar_rotateZ.eval .rhophi angle a0 a1).2 < Real.pi := by
  simp only [planar_rotateZ.eval, planar_rotateZ.rhophi, planar_rotateZ.rectify]
  exact (L.rectify_mem _).2

/-- `planar_unit`: polar key returns `(1, φ)` — `φ` is read back unchanged, so it is in range iff the input is. -/
theorem c13c_planar_unit (k0 : Az) (a0 a1 : ℝ) (h : InAz k0 a0 a1) :
    OutCanon2 (planar_unit.ret k0) (planar_unit.eval k0 a0 a1) := by
  cases k0 <;>
    simp only [planar_unit.ret, planar_unit.eval, OutCanon2, OutCanonR, OutCanonL, AzOK, and_true]
  simp only [planar_unit.rhophi]
  exact ⟨zero_le_one, h.2⟩

/-- `planar_transform2D` always returns Cartesian `xy` (checked over the generated table) … -/
theorem c13c_planar_transform2D_ret (k0 : Az) : planar_transform2D.ret k0 = .vec [.az .xy] := by
  cases k0 <;> rfl

/-- … so there is nothing to prove about its result. -/
theorem c13c_planar_transform2D (k0 : Az) (xx xy yx yy a0 a1 : ℝ) :
    OutCanon2 (planar_transform2D.ret k0) (planar_transform2D.eval k0 xx xy yx yy a0 a1) := by
  rw [c13c_planar_transform2D_ret]
  simp only [OutCanon2, OutCanonR, OutCanonL, AzOK, and_true]

/-- REMARK (half-open interval on the other side): `rectify` yields `[-π, π)`, whereas `phi` computed
from Cartesian components (`arctan2`) yields `(-π, π]`.  A polar vector stored with `φ = π` (the value
`arctan2` gives for the negative x axis) rotated by angle `0` comes back with `φ = -π`: inside the
documented closed range `[-π, π]`, but outside the `(-π, π]` range of the `phi` accessor. -/
theorem c13c_planar_rotateZ_pi : planar_rotateZ.eval .rhophi 0 1 Real.pi = (1, -Real.pi) := by
  simp only [planar_rotateZ.eval, planar_rotateZ.rhophi, planar_rotateZ.rectify, add_zero]
  have h2 : (2 : ℝ) * Real.pi ≠ 0 := by positivity
  have : P.mod (Real.pi + Real.pi) (2 * Real.pi) = 0 := by
    unfold P.mod
    rw [show Real.pi + Real.pi = 2 * Real.pi by ring, div_self h2]
    simp
  rw [this]; simp

/-- the hypotheses are satisfiable, at a non-trivial point: scaling `(ρ, φ) = (2, 1)` by `-1.5` -/
example : InAz .rhophi 2 1 := ⟨by norm_num, by linarith [Real.two_le_pi], by linarith [Real.two_le_pi]⟩
example : OutCanon2 (planar_scale.ret .rhophi) (planar_scale.eval .rhophi (-1.5) 2 1) :=
  c13c_planar_scale .rhophi (-1.5) 2 1 ⟨by norm_num, by linarith [Real.two_le_pi], by linarith [Real.two_le_pi]⟩

/-! ## 2. Spatial modules -/

private theorem padd_ok (a b c d : ℝ) :
    0 ≤ (planar_add.rhophi_rhophi a b c d).1 ∧ -Real.pi ≤ (planar_add.rhophi_rhophi a b c d).2 ∧
      (planar_add.rhophi_rhophi a b c d).2 ≤ Real.pi := by
  simp only [planar_add.rhophi_rhophi, planar_add.rectify]
  exact ⟨Real.sqrt_nonneg _, rect_ok _⟩

private theorem psub_ok (a b c d : ℝ) :
    0 ≤ (planar_subtract.rhophi_rhophi a b c d).1 ∧ -Real.pi ≤ (planar_subtract.rhophi_rhophi a b c d).2 ∧
      (planar_subtract.rhophi_rhophi a b c d).2 ≤ Real.pi := by
  simp only [planar_subtract.rhophi_rhophi, planar_subtract.rectify]
  exact ⟨Real.sqrt_nonneg _, rect_ok _⟩

private theorem arccos_ok (x : ℝ) : 0 ≤ Real.arccos x ∧ Real.arccos x ≤ Real.pi :=
  ⟨Real.arccos_nonneg _, Real.arccos_le_pi _⟩

/-- `spatial_add`, all 36 key pairs: 31 return Cartesian `xy`,`z`; `xy_theta+xy_theta` stores
`θ = arccos(…) ∈ [0, π]`; `rhophi_L+rhophi_L` (`L = z, theta, eta`) store the planar polar sum
(`ρ = √… ≥ 0`, `φ = rectify(…) ∈ [-π, π)`) and `θ = arccos(…)`.  No hypothesis on the inputs is needed. -/
theorem c13c_spatial_add (k0 : Az) (k1 : Lon) (k2 : Az) (k3 : Lon) (a0 a1 a2 b0 b1 b2 : ℝ) :
    OutCanon3 (spatial_add.ret k0 k1 k2 k3) (spatial_add.eval k0 k1 k2 k3 a0 a1 a2 b0 b1 b2) := by
  cases k0 <;> cases k1 <;> cases k2 <;> cases k3 <;>
    simp only [spatial_add.ret, spatial_add.eval, OutCanon3, OutCanonR, OutCanonL, AzOK, LonOK, and_true, true_and,
      spatial_add.xy_theta_xy_theta, spatial_add.rhophi_z_rhophi_z, spatial_add.rhophi_theta_rhophi_theta,
      spatial_add.rhophi_eta_rhophi_eta, spatial_theta.xy_z, spatial_theta.rhophi_z]
  · exact arccos_ok _
  · exact padd_ok _ _ _ _
  · exact ⟨padd_ok _ _ _ _, arccos_ok _⟩
  · exact padd_ok _ _ _ _

theorem c13c_spatial_subtract (k0 : Az) (k1 : Lon) (k2 : Az) (k3 : Lon) (a0 a1 a2 b0 b1 b2 : ℝ) :
    OutCanon3 (spatial_subtract.ret k0 k1 k2 k3) (spatial_subtract.eval k0 k1 k2 k3 a0 a1 a2 b0 b1 b2) := by
  cases k0 <;> cases k1 <;> cases k2 <;> cases k3 <;>
    simp only [spatial_subtract.ret, spatial_subtract.eval, OutCanon3, OutCanonR, OutCanonL, AzOK, LonOK, true_and,
      and_true, spatial_subtract.xy_theta_xy_theta, spatial_subtract.rhophi_z_rhophi_z,
      spatial_subtract.rhophi_theta_rhophi_theta, spatial_subtract.rhophi_eta_rhophi_eta,
      spatial_theta.xy_z, spatial_theta.rhophi_z]
  · exact arccos_ok _
  · exact psub_ok _ _ _ _
  · exact ⟨psub_ok _ _ _ _, arccos_ok _⟩
  · exact psub_ok _ _ _ _

/-- the θ flip of `scale`: `|θ + ½(sign k − 1)π|` is `θ` (k > 0), `π − θ` (k < 0), `|θ − π/2|` (k = 0);
it stays in `[0, π]` for `θ ∈ [0, π]`. -/
theorem c13c_theta_flip (factor theta : ℝ) (h0 : 0 ≤ theta) (h1 : theta ≤ Real.pi) :
    0 ≤ |theta + 0.5 * (P.sign factor - 1) * Real.pi| ∧
      |theta + 0.5 * (P.sign factor - 1) * Real.pi| ≤ Real.pi := by
  refine ⟨abs_nonneg _, ?_⟩
  have hp := Real.pi_pos
  rw [abs_le]
  unfold P.sign
  rcases Real.sign_apply_eq factor with h | h | h <;> rw [h] <;> constructor <;> nlinarith

/-- `spatial_scale`, all 6 keys, ANY factor (positive, negative or zero):
`ρ_out = ρ·|k| ≥ 0`, `φ_out = rectify(φ + turn) ∈ [-π, π)`, `θ_out = |θ + ½(sign k − 1)π| ∈ [0, π]`,
given the input `0 ≤ ρ`, `0 ≤ θ ≤ π` (nothing is needed of the input `φ`). -/
theorem c13c_spatial_scale (k0 : Az) (k1 : Lon) (factor a0 a1 a2 : ℝ) (h : InAz k0 a0 a1) (hl : InLon k1 a2) :
    OutCanon3 (spatial_scale.ret k0 k1) (spatial_scale.eval k0 k1 factor a0 a1 a2) := by
  cases k0 <;> cases k1 <;>
    simp only [spatial_scale.ret, spatial_scale.eval, OutCanon3, OutCanonR, OutCanonL, AzOK, LonOK, and_true, true_and,
      spatial_scale.xy_theta, spatial_scale.rhophi_z, spatial_scale.rhophi_theta, spatial_scale.rhophi_eta,
      spatial_scale.rectify]
  · exact c13c_theta_flip factor a2 hl.1 hl.2
  · exact ⟨mul_nonneg h.1 (abs_nonneg _), rect_ok _⟩
  · exact ⟨⟨mul_nonneg h.1 (abs_nonneg _), rect_ok _⟩, c13c_theta_flip factor a2 hl.1 hl.2⟩
  · exact ⟨mul_nonneg h.1 (abs_nonneg _), rect_ok _⟩

theorem c13c_spatial_scale_phi_lt (k1 : Lon) (factor a0 a1 a2 : ℝ) :
    (spatial_scale.eval .rhophi k1 factor a0 a1 a2).2.1 < Real.pi := by
  cases k1 <;>
    simp only [spatial_scale.eval, spatial_scale.rhophi_z, spatial_scale.rhophi_theta, spatial_scale.rhophi_eta,
      spatial_scale.rectify] <;>
    exact (L.rectify_mem _).2

/-- strict form for the polar results of `spatial_add` / `spatial_subtract`: `φ_out < π` (half-open `[-π, π)`) -/
theorem c13c_spatial_add_phi_lt (k1 : Lon) (a0 a1 a2 b0 b1 b2 : ℝ) :
    (spatial_add.eval .rhophi k1 .rhophi k1 a0 a1 a2 b0 b1 b2).2.1 < Real.pi := by
  induction k1 <;>
    simp only [spatial_add.eval, spatial_add.rhophi_z_rhophi_z, spatial_add.rhophi_theta_rhophi_theta,
      spatial_add.rhophi_eta_rhophi_eta, planar_add.rhophi_rhophi, planar_add.rectify] <;>
    exact (L.rectify_mem _).2

theorem c13c_spatial_subtract_phi_lt (k1 : Lon) (a0 a1 a2 b0 b1 b2 : ℝ) :
    (spatial_subtract.eval .rhophi k1 .rhophi k1 a0 a1 a2 b0 b1 b2).2.1 < Real.pi := by
  induction k1 <;>
    simp only [spatial_subtract.eval, spatial_subtract.rhophi_z_rhophi_z, spatial_subtract.rhophi_theta_rhophi_theta,
      spatial_subtract.rhophi_eta_rhophi_eta, planar_subtract.rhophi_rhophi, planar_subtract.rectify] <;>
    exact (L.rectify_mem _).2

/-- what `scale` returns for the factor `0` (`sign 0 = 0`): `ρ_out = 0`, `φ_out = rectify(φ + π/2)`,
`θ_out = |θ − π/2|` — the zero vector with arbitrary but IN-RANGE angles. -/
theorem c13c_spatial_scale_zero (rho phi theta : ℝ) :
    spatial_scale.eval .rhophi .theta 0 rho phi theta
      = (0, P.mod (phi + 0.5 * Real.pi + Real.pi) (2 * Real.pi) - Real.pi, |theta - 0.5 * Real.pi|) := by
  simp only [spatial_scale.eval, spatial_scale.rhophi_theta, spatial_scale.rectify, P.sign, Real.sign_zero, abs_zero,
    mul_zero, Prod.mk.injEq, true_and]
  constructor
  · congr 2; ring
  · congr 1; ring

/-- `spatial_unit`, all 6 keys: `ρ_out = ρ / |v| ≥ 0`; `φ`, `θ` are passed through unchanged.
(`_hn` excludes the singular inputs — zero vector, `sin θ = 0` — where the code divides by zero; the proof
does not use it: there `numpy` gives `nan_to_num(nan) = 0` or `ρ/inf = 0`, also `≥ 0`.) -/
theorem c13c_spatial_unit (k0 : Az) (k1 : Lon) (a0 a1 a2 : ℝ) (h : InAz k0 a0 a1) (hl : InLon k1 a2)
    (_hn : 0 < spatial_mag.eval k0 k1 a0 a1 a2) :
    OutCanon3 (spatial_unit.ret k0 k1) (spatial_unit.eval k0 k1 a0 a1 a2) := by
  cases k0 <;> cases k1 <;>
    simp only [spatial_unit.ret, spatial_unit.eval, OutCanon3, OutCanonR, OutCanonL, AzOK, LonOK, and_true, true_and,
      spatial_unit.xy_theta, spatial_unit.rhophi_z, spatial_unit.rhophi_theta, spatial_unit.rhophi_eta,
      P.nanToNum_eq, spatial_mag.rhophi_z, spatial_mag.rhophi_theta, spatial_mag.rhophi_eta]
  · exact hl
  · have := h.1
    exact ⟨div_nonneg h.1 (Real.sqrt_nonneg _), h.2⟩
  · have := h.1
    exact ⟨⟨by positivity, h.2⟩, hl⟩
  · have := h.1
    exact ⟨by positivity, h.2⟩

private theorem outCanon3_xyz (v : ℝ × ℝ × ℝ) : OutCanon3 (.vec [.az .xy, .lon .z]) v := by
  simp only [OutCanon3, OutCanonR, OutCanonL, AzOK, LonOK, and_true]

private theorem outCanon3_xyz_none (v : ℝ × ℝ × ℝ) : OutCanon3 (.vec [.az .xy, .lon .z, .none]) v := by
  simp only [OutCanon3, OutCanonR, OutCanonL, AzOK, LonOK, and_true]

/-- the rotations, `cross` and `transform3D` ALWAYS return Cartesian `xy`, `z` — checked over the generated tables -/
theorem c13c_spatial_rotateX_ret (k0 : Az) (k1 : Lon) : spatial_rotateX.ret k0 k1 = .vec [.az .xy, .lon .z] := by
  cases k0 <;> cases k1 <;> rfl
theorem c13c_spatial_rotateY_ret (k0 : Az) (k1 : Lon) : spatial_rotateY.ret k0 k1 = .vec [.az .xy, .lon .z] := by
  cases k0 <;> cases k1 <;> rfl
theorem c13c_spatial_rotate_axis_ret (k0 : Az) (k1 : Lon) (k2 : Az) (k3 : Lon) :
    spatial_rotate_axis.ret k0 k1 k2 k3 = .vec [.az .xy, .lon .z] := by
  cases k0 <;> cases k1 <;> cases k2 <;> cases k3 <;> rfl
theorem c13c_spatial_rotate_euler_ret (k0 : Az) (k1 : Lon) (k2 : Ord) :
    spatial_rotate_euler.ret k0 k1 k2 = .vec [.az .xy, .lon .z] := by
  cases k0 <;> cases k1 <;> cases k2 <;> rfl
theorem c13c_spatial_rotate_quaternion_ret (k0 : Az) (k1 : Lon) :
    spatial_rotate_quaternion.ret k0 k1 = .vec [.az .xy, .lon .z] := by
  cases k0 <;> cases k1 <;> rfl
theorem c13c_spatial_cross_ret (k0 : Az) (k1 : Lon) (k2 : Az) (k3 : Lon) :
    spatial_cross.ret k0 k1 k2 k3 = .vec [.az .xy, .lon .z, .none] := by
  cases k0 <;> cases k1 <;> cases k2 <;> cases k3 <;> rfl
theorem c13c_spatial_transform3D_ret (k0 : Az) (k1 : Lon) :
    spatial_transform3D.ret k0 k1 = .vec [.az .xy, .lon .z] := by
  cases k0 <;> cases k1 <;> rfl

/-- … so every raw result of these modules is in range (there is no range to violate). -/
theorem c13c_spatial_rotateX (k0 : Az) (k1 : Lon) (angle a0 a1 a2 : ℝ) :
    OutCanon3 (spatial_rotateX.ret k0 k1) (spatial_rotateX.eval k0 k1 angle a0 a1 a2) := by
  rw [c13c_spatial_rotateX_ret]; exact outCanon3_xyz _
theorem c13c_spatial_rotateY (k0 : Az) (k1 : Lon) (angle a0 a1 a2 : ℝ) :
    OutCanon3 (spatial_rotateY.ret k0 k1) (spatial_rotateY.eval k0 k1 angle a0 a1 a2) := by
  rw [c13c_spatial_rotateY_ret]; exact outCanon3_xyz _
theorem c13c_spatial_rotate_axis (k0 : Az) (k1 : Lon) (k2 : Az) (k3 : Lon) (angle a0 a1 a2 b0 b1 b2 : ℝ) :
    OutCanon3 (spatial_rotate_axis.ret k0 k1 k2 k3) (spatial_rotate_axis.eval k0 k1 k2 k3 angle a0 a1 a2 b0 b1 b2) := by
  rw [c13c_spatial_rotate_axis_ret]; exact outCanon3_xyz _
theorem c13c_spatial_rotate_euler (k0 : Az) (k1 : Lon) (k2 : Ord) (phi theta psi a0 a1 a2 : ℝ) :
    OutCanon3 (spatial_rotate_euler.ret k0 k1 k2) (spatial_rotate_euler.eval k0 k1 k2 phi theta psi a0 a1 a2) := by
  rw [c13c_spatial_rotate_euler_ret]; exact outCanon3_xyz _
theorem c13c_spatial_rotate_quaternion (k0 : Az) (k1 : Lon) (u i j k a0 a1 a2 : ℝ) :
    OutCanon3 (spatial_rotate_quaternion.ret k0 k1) (spatial_rotate_quaternion.eval k0 k1 u i j k a0 a1 a2) := by
  rw [c13c_spatial_rotate_quaternion_ret]; exact outCanon3_xyz _
theorem c13c_spatial_cross (k0 : Az) (k1 : Lon) (k2 : Az) (k3 : Lon) (a0 a1 a2 b0 b1 b2 : ℝ) :
    OutCanon3 (spatial_cross.ret k0 k1 k2 k3) (spatial_cross.eval k0 k1 k2 k3 a0 a1 a2 b0 b1 b2) := by
  rw [c13c_spatial_cross_ret]; exact outCanon3_xyz_none _
theorem c13c_spatial_transform3D (k0 : Az) (k1 : Lon) (xx xy xz yx yy yz zx zy zz a0 a1 a2 : ℝ) :
    OutCanon3 (spatial_transform3D.ret k0 k1)
      (spatial_transform3D.eval k0 k1 xx xy xz yx yy yz zx zy zz a0 a1 a2) := by
  rw [c13c_spatial_transform3D_ret]; exact outCanon3_xyz _

/-- satisfiable at a non-trivial point: `(ρ, φ, θ) = (2, 1, 1)` scaled by `-3`; unit of `(ρ, φ, z) = (3, 1, 4)` -/
example : OutCanon3 (spatial_scale.ret .rhophi .theta) (spatial_scale.eval .rhophi .theta (-3) 2 1 1) :=
  c13c_spatial_scale .rhophi .theta (-3) 2 1 1
    ⟨by norm_num, by linarith [Real.two_le_pi], by linarith [Real.two_le_pi]⟩
    ⟨by norm_num, by linarith [Real.two_le_pi]⟩
example : OutCanon3 (spatial_unit.ret .rhophi .z) (spatial_unit.eval .rhophi .z 3 1 4) :=
  c13c_spatial_unit .rhophi .z 3 1 4
    ⟨by norm_num, by linarith [Real.two_le_pi], by linarith [Real.two_le_pi]⟩ trivial
    (by simp only [spatial_mag.eval, spatial_mag.rhophi_z, spatial_mag2.rhophi_z]; positivity)

/-! ## 3. Lorentz modules -/

/-! ### 3a. `scale` -/

/-- `lorentz_scale`, all 12 keys, ANY factor: the SPATIAL part of the result is in range
(`ρ_out = ρ·|k| ≥ 0`, `φ_out ∈ [-π, π)`, `θ_out ∈ [0, π]`).  Nothing is claimed about a stored `tau` here:
see `c13c_lorentz_scale` (factor `≥ 0`) and `c13c_lorentz_scale_tau_neg` (factor `< 0`: the range is VIOLATED). -/
theorem c13c_lorentz_scale_partial (k0 : Az) (k1 : Lon) (k2 : Tmp) (factor a0 a1 a2 a3 : ℝ)
    (h : InAz k0 a0 a1) (hl : InLon k1 a2) :
    OutCanonS4 (lorentz_scale.ret k0 k1 k2) (lorentz_scale.eval k0 k1 k2 factor a0 a1 a2 a3) := by
  cases k0 <;> cases k1 <;> cases k2 <;>
    simp only [d_lorentz_scale, OutCanonS4, OutCanonR, OutCanonL, AzOK, LonOK, TmpOK, and_true, true_and,
      spatial_scale.xy_theta, spatial_scale.rhophi_z, spatial_scale.rhophi_theta, spatial_scale.rhophi_eta,
      spatial_scale.rectify]
  all_goals first
    | exact c13c_theta_flip factor a2 hl.1 hl.2
    | exact ⟨mul_nonneg h.1 (abs_nonneg _), rect_ok _⟩
    | exact ⟨⟨mul_nonneg h.1 (abs_nonneg _), rect_ok _⟩, c13c_theta_flip factor a2 hl.1 hl.2⟩

/-- the stored `tau` of a scaled vector is `τ·k` for every `tau` key -/
theorem c13c_lorentz_scale_tau_eq (k0 : Az) (k1 : Lon) (factor a0 a1 a2 a3 : ℝ) :
    (lorentz_scale.eval k0 k1 .tau factor a0 a1 a2 a3).2.2.2 = a3 * factor := by
  cases k0 <;> cases k1 <;> rfl

/-- `lorentz_scale` with a NON-NEGATIVE factor: the whole result is in range, including `0 ≤ τ_out`. -/
theorem c13c_lorentz_scale (k0 : Az) (k1 : Lon) (k2 : Tmp) (factor a0 a1 a2 a3 : ℝ)
    (h : InAz k0 a0 a1) (hl : InLon k1 a2) (ht : InTmp k2 a3) (hk : 0 ≤ factor) :
    OutCanon4 (lorentz_scale.ret k0 k1 k2) (lorentz_scale.eval k0 k1 k2 factor a0 a1 a2 a3) := by
  cases k0 <;> cases k1 <;> cases k2 <;>
    simp only [d_lorentz_scale, OutCanon4, OutCanonR, OutCanonL, AzOK, LonOK, TmpOK, and_true, true_and,
      spatial_scale.xy_theta, spatial_scale.rhophi_z, spatial_scale.rhophi_theta, spatial_scale.rhophi_eta,
      spatial_scale.rectify]
  all_goals first
    | exact mul_nonneg ht hk
    | exact c13c_theta_flip factor a2 hl.1 hl.2
    | exact ⟨c13c_theta_flip factor a2 hl.1 hl.2, mul_nonneg ht hk⟩
    | exact ⟨mul_nonneg h.1 (abs_nonneg _), rect_ok _⟩
    | exact ⟨⟨mul_nonneg h.1 (abs_nonneg _), rect_ok _⟩, mul_nonneg ht hk⟩
    | exact ⟨⟨mul_nonneg h.1 (abs_nonneg _), rect_ok _⟩, c13c_theta_flip factor a2 hl.1 hl.2⟩
    | exact ⟨⟨mul_nonneg h.1 (abs_nonneg _), rect_ok _⟩, c13c_theta_flip factor a2 hl.1 hl.2, mul_nonneg ht hk⟩

/-- FINDING: with a NEGATIVE factor every `tau` key stores a NEGATIVE `tau` for a vector of positive proper
time — outside the representable domain `0 ≤ τ` (the library reads a negative stored `tau` as "space-like":
`t² = max(τ·|τ| + |p|², 0)`), although `k·v` is again time-like with proper time `|k|·τ`. -/
theorem c13c_lorentz_scale_tau_neg (k0 : Az) (k1 : Lon) (factor a0 a1 a2 a3 : ℝ) (hk : factor < 0) (ht : 0 < a3) :
    (lorentz_scale.eval k0 k1 .tau factor a0 a1 a2 a3).2.2.2 < 0 := by
  rw [c13c_lorentz_scale_tau_eq]; exact mul_neg_of_pos_of_neg ht hk

/-- concrete counterexample: the particle at rest `(x, y, z, τ) = (0, 0, 0, 1)` scaled by `-1` is stored as
`(0, 0, 0, -1)`, so `¬ OutCanon4`. -/
example : lorentz_scale.eval .xy .z .tau (-1) 0 0 0 1 = (0, 0, 0, -1) := by
  simp only [d_lorentz_scale, d_spatial_scale]; norm_num
example : ¬ OutCanon4 (lorentz_scale.ret .xy .z .tau) (lorentz_scale.eval .xy .z .tau (-1) 0 0 0 1) := by
  simp only [d_lorentz_scale, d_spatial_scale, OutCanon4, OutCanonR, OutCanonL, AzOK, LonOK, TmpOK]; norm_num

example : OutCanon4 (lorentz_scale.ret .rhophi .theta .tau) (lorentz_scale.eval .rhophi .theta .tau 3 2 1 1 5) :=
  c13c_lorentz_scale .rhophi .theta .tau 3 2 1 1 5
    ⟨by norm_num, by linarith [Real.two_le_pi], by linarith [Real.two_le_pi]⟩
    ⟨by norm_num, by linarith [Real.two_le_pi]⟩ (by show (0:ℝ) ≤ 5; norm_num) (by norm_num)

/-! ### 3b. `unit` -/

/-- `lorentz_unit`, all 12 keys: `ρ_out = ρ / norm ≥ 0` (`norm = √|τ²| ≥ 0` or `|τ|`), `φ`, `θ` are passed through,
and for `tau` keys `τ_out = copysign(1, τ) = 1` when `0 ≤ τ`.
(`_hn` excludes the light-like / `τ = 0` inputs where the code divides by zero; the proof does not use it.) -/
theorem c13c_lorentz_unit (k0 : Az) (k1 : Lon) (k2 : Tmp) (a0 a1 a2 a3 : ℝ)
    (h : InAz k0 a0 a1) (hl : InLon k1 a2) (ht : InTmp k2 a3)
    (_hn : lorentz_tau2.eval k0 k1 k2 a0 a1 a2 a3 ≠ 0) :
    OutCanon4 (lorentz_unit.ret k0 k1 k2) (lorentz_unit.eval k0 k1 k2 a0 a1 a2 a3) := by
  have h1 : (0 : ℝ) ≤ P.copysign 1 a3 ∨ k2 = .t := by
    cases k2
    · exact Or.inr rfl
    · left; unfold P.copysign; rw [if_pos (show (0:ℝ) ≤ a3 from ht)]; exact abs_nonneg _
  cases k0 <;> cases k1 <;> cases k2 <;>
    simp only [d_lorentz_unit, OutCanon4, OutCanonR, OutCanonL, AzOK, LonOK, TmpOK, and_true, true_and,
      P.nanToNum_eq]
  all_goals (try have h1 := h1.resolve_right (by decide))
  all_goals (try have hr := h.1)
  all_goals first
    | exact h1
    | exact hl
    | exact ⟨hl, h1⟩
    | exact ⟨by positivity, h.2⟩
    | exact ⟨⟨by positivity, h.2⟩, h1⟩
    | exact ⟨⟨by positivity, h.2⟩, hl⟩
    | exact ⟨⟨by positivity, h.2⟩, hl, h1⟩

/-- signed behaviour of `unit` on `tau` keys: `τ_out = 1` for `0 ≤ τ`, `τ_out = -1` for `τ < 0`. -/
theorem c13c_lorentz_unit_tau_eq (k0 : Az) (k1 : Lon) (a0 a1 a2 a3 : ℝ) :
    (lorentz_unit.eval k0 k1 .tau a0 a1 a2 a3).2.2.2 = if 0 ≤ a3 then 1 else -1 := by
  cases k0 <;> cases k1 <;> simp only [d_lorentz_unit, P.copysign, abs_one]

example : OutCanon4 (lorentz_unit.ret .rhophi .theta .tau) (lorentz_unit.eval .rhophi .theta .tau 2 1 1 5) :=
  c13c_lorentz_unit .rhophi .theta .tau 2 1 1 5
    ⟨by norm_num, by linarith [Real.two_le_pi], by linarith [Real.two_le_pi]⟩
    ⟨by norm_num, by linarith [Real.two_le_pi]⟩ (by show (0:ℝ) ≤ 5; norm_num)
    (by simp only [d_lorentz_tau2, P.copysign]; norm_num)

/-! ### 3c. `to_beta3` (3D result, declared `[az, lon, None]`) -/

/-- `lorentz_to_beta3`, all 12 keys; for the polar keys the vector must have a POSITIVE time component (`t` stored,
or computed `√max(τ·|τ| + |p|², 0)` for `tau` keys): `ρ_out = ρ / t ≥ 0`; `φ`, `θ` are passed through.
The hypothesis `0 < t` is NOT granted by the property (a stored `t` may be negative), and it is needed:
see `c13c_lorentz_to_beta3_rho_neg`. -/
theorem c13c_lorentz_to_beta3_partial (k0 : Az) (k1 : Lon) (k2 : Tmp) (a0 a1 a2 a3 : ℝ)
    (h : InAz k0 a0 a1) (hl : InLon k1 a2) (ht : k0 = .rhophi → 0 < lorentz_t.eval k0 k1 k2 a0 a1 a2 a3) :
    OutCanon3 (lorentz_to_beta3.ret k0 k1 k2) (lorentz_to_beta3.eval k0 k1 k2 a0 a1 a2 a3) := by
  cases k0 <;> cases k1 <;> cases k2 <;>
    simp only [d_lorentz_to_beta3, OutCanon3, OutCanonR, OutCanonL, AzOK, LonOK, and_true, true_and]
  all_goals try (have ht := ht rfl)
  all_goals simp only [lorentz_t.eval, lorentz_t.rhophi_z_t, lorentz_t.rhophi_theta_t, lorentz_t.rhophi_eta_t] at ht
  all_goals first
    | exact hl
    | exact ⟨div_nonneg h.1 ht.le, h.2⟩
    | exact ⟨⟨div_nonneg h.1 ht.le, h.2⟩, hl⟩

/-- for `tau` keys the divisor is a square root, so `0 ≤ ρ_out` needs nothing but `0 ≤ ρ` and a non-zero divisor -/
theorem c13c_lorentz_to_beta3_tau (k0 : Az) (k1 : Lon) (a0 a1 a2 a3 : ℝ)
    (h : InAz k0 a0 a1) (hl : InLon k1 a2) (ht : lorentz_t.eval k0 k1 .tau a0 a1 a2 a3 ≠ 0) :
    OutCanon3 (lorentz_to_beta3.ret k0 k1 .tau) (lorentz_to_beta3.eval k0 k1 .tau a0 a1 a2 a3) := by
  apply c13c_lorentz_to_beta3_partial k0 k1 .tau a0 a1 a2 a3 h hl
  intro _
  refine lt_of_le_of_ne ?_ (Ne.symm ht)
  cases k0 <;> cases k1 <;> simp only [d_lorentz_t] <;> exact Real.sqrt_nonneg _

/-- FINDING: for the three polar `t` keys a NEGATIVE stored `t` gives a NEGATIVE stored `ρ_out = ρ / t`
(`0 < ρ`): the result of `to_beta3` leaves the representable domain `0 ≤ ρ`. -/
theorem c13c_lorentz_to_beta3_rho_neg (k1 : Lon) (a0 a1 a2 a3 : ℝ) (hr : 0 < a0) (ht : a3 < 0) :
    (lorentz_to_beta3.eval .rhophi k1 .t a0 a1 a2 a3).1 < 0 := by
  cases k1 <;> simp only [d_lorentz_to_beta3] <;> exact div_neg_of_pos_of_neg hr ht

/-- concrete counterexample: `(ρ, φ, z, t) = (1, 0, 0, -2)` ↦ `(ρ, φ, z) = (-1/2, 0, 0)` -/
example : lorentz_to_beta3.eval .rhophi .z .t 1 0 0 (-2) = (-1 / 2, 0, 0) := by
  simp only [d_lorentz_to_beta3]; norm_num
example : ¬ OutCanon3 (lorentz_to_beta3.ret .rhophi .z .t) (lorentz_to_beta3.eval .rhophi .z .t 1 0 0 (-2)) := by
  simp only [d_lorentz_to_beta3, OutCanon3, OutCanonR, OutCanonL, AzOK, LonOK]; norm_num

example : OutCanon3 (lorentz_to_beta3.ret .rhophi .theta .t) (lorentz_to_beta3.eval .rhophi .theta .t 2 1 1 5) :=
  c13c_lorentz_to_beta3_partial .rhophi .theta .t 2 1 1 5
    ⟨by norm_num, by linarith [Real.two_le_pi], by linarith [Real.two_le_pi]⟩
    ⟨by norm_num, by linarith [Real.two_le_pi]⟩ (fun _ => by simp only [d_lorentz_t]; norm_num)

/-! ### 3d. boosts and `transform4D`: Cartesian `xy`,`z` (except `boostZ_*`: azimuth passed through);
a stored `tau` is passed through unchanged -/

private theorem outCanon4_xyzt (v : ℝ × ℝ × ℝ × ℝ) : OutCanon4 (.vec [.az .xy, .lon .z, .tmp .t]) v := by
  simp only [OutCanon4, OutCanonR, OutCanonL, AzOK, LonOK, TmpOK, and_true]

theorem c13c_lorentz_boostX_beta (k0 : Az) (k1 : Lon) (k2 : Tmp) (beta a0 a1 a2 a3 : ℝ) (ht : InTmp k2 a3) :
    OutCanon4 (lorentz_boostX_beta.ret k0 k1 k2) (lorentz_boostX_beta.eval k0 k1 k2 beta a0 a1 a2 a3) := by
  cases k0 <;> cases k1 <;> cases k2 <;>
    simp only [lorentz_boostX_beta.ret, OutCanon4, OutCanonR, OutCanonL, AzOK, LonOK, TmpOK, and_true, true_and] <;>
    exact ht
theorem c13c_lorentz_boostX_gamma (k0 : Az) (k1 : Lon) (k2 : Tmp) (gamma a0 a1 a2 a3 : ℝ) (ht : InTmp k2 a3) :
    OutCanon4 (lorentz_boostX_gamma.ret k0 k1 k2) (lorentz_boostX_gamma.eval k0 k1 k2 gamma a0 a1 a2 a3) := by
  cases k0 <;> cases k1 <;> cases k2 <;>
    simp only [lorentz_boostX_gamma.ret, OutCanon4, OutCanonR, OutCanonL, AzOK, LonOK, TmpOK, and_true, true_and] <;>
    exact ht
theorem c13c_lorentz_boostY_beta (k0 : Az) (k1 : Lon) (k2 : Tmp) (beta a0 a1 a2 a3 : ℝ) (ht : InTmp k2 a3) :
    OutCanon4 (lorentz_boostY_beta.ret k0 k1 k2) (lorentz_boostY_beta.eval k0 k1 k2 beta a0 a1 a2 a3) := by
  cases k0 <;> cases k1 <;> cases k2 <;>
    simp only [lorentz_boostY_beta.ret, OutCanon4, OutCanonR, OutCanonL, AzOK, LonOK, TmpOK, and_true, true_and] <;>
    exact ht
theorem c13c_lorentz_boostY_gamma (k0 : Az) (k1 : Lon) (k2 : Tmp) (gamma a0 a1 a2 a3 : ℝ) (ht : InTmp k2 a3) :
    OutCanon4 (lorentz_boostY_gamma.ret k0 k1 k2) (lorentz_boostY_gamma.eval k0 k1 k2 gamma a0 a1 a2 a3) := by
  cases k0 <;> cases k1 <;> cases k2 <;>
    simp only [lorentz_boostY_gamma.ret, OutCanon4, OutCanonR, OutCanonL, AzOK, LonOK, TmpOK, and_true, true_and] <;>
    exact ht

/-- `boostZ_beta`: polar inputs keep `(ρ, φ)` unchanged (so they are in range iff the input is), `z` is recomputed -/
theorem c13c_lorentz_boostZ_beta (k0 : Az) (k1 : Lon) (k2 : Tmp) (beta a0 a1 a2 a3 : ℝ)
    (h : InAz k0 a0 a1) (ht : InTmp k2 a3) :
    OutCanon4 (lorentz_boostZ_beta.ret k0 k1 k2) (lorentz_boostZ_beta.eval k0 k1 k2 beta a0 a1 a2 a3) := by
  cases k0 <;> cases k1 <;> cases k2 <;>
    simp only [lorentz_boostZ_beta.ret, OutCanon4, OutCanonR, OutCanonL, AzOK, LonOK, TmpOK, and_true, true_and] <;>
    first | exact ht | exact h | exact ⟨h, ht⟩
theorem c13c_lorentz_boostZ_gamma (k0 : Az) (k1 : Lon) (k2 : Tmp) (gamma a0 a1 a2 a3 : ℝ)
    (h : InAz k0 a0 a1) (ht : InTmp k2 a3) :
    OutCanon4 (lorentz_boostZ_gamma.ret k0 k1 k2) (lorentz_boostZ_gamma.eval k0 k1 k2 gamma a0 a1 a2 a3) := by
  cases k0 <;> cases k1 <;> cases k2 <;>
    simp only [lorentz_boostZ_gamma.ret, OutCanon4, OutCanonR, OutCanonL, AzOK, LonOK, TmpOK, and_true, true_and] <;>
    first | exact ht | exact h | exact ⟨h, ht⟩

/-- the four X/Y boosts never return a polar azimuth or `theta` (checked over the tables) -/
theorem c13c_lorentz_boostXY_ret (k0 : Az) (k1 : Lon) (k2 : Tmp) :
    lorentz_boostX_beta.ret k0 k1 k2 = .vec [.az .xy, .lon .z, .tmp k2] ∧
    lorentz_boostX_gamma.ret k0 k1 k2 = .vec [.az .xy, .lon .z, .tmp k2] ∧
    lorentz_boostY_beta.ret k0 k1 k2 = .vec [.az .xy, .lon .z, .tmp k2] ∧
    lorentz_boostY_gamma.ret k0 k1 k2 = .vec [.az .xy, .lon .z, .tmp k2] := by
  cases k0 <;> cases k1 <;> cases k2 <;> exact ⟨rfl, rfl, rfl, rfl⟩
theorem c13c_lorentz_boostZ_ret (k0 : Az) (k1 : Lon) (k2 : Tmp) :
    lorentz_boostZ_beta.ret k0 k1 k2 = .vec [.az k0, .lon .z, .tmp k2] ∧
    lorentz_boostZ_gamma.ret k0 k1 k2 = .vec [.az k0, .lon .z, .tmp k2] := by
  cases k0 <;> cases k1 <;> cases k2 <;> exact ⟨rfl, rfl⟩
theorem c13c_lorentz_boost_beta3_ret (k0 : Az) (k1 : Lon) (k2 : Tmp) (k3 : Az) (k4 : Lon) :
    lorentz_boost_beta3.ret k0 k1 k2 k3 k4 = .vec [.az .xy, .lon .z, .tmp k2] := by
  cases k0 <;> cases k1 <;> cases k2 <;> cases k3 <;> cases k4 <;> rfl
theorem c13c_lorentz_boost_p4_ret (k0 : Az) (k1 : Lon) (k2 : Tmp) (k3 : Az) (k4 : Lon) (k5 : Tmp) :
    lorentz_boost_p4.ret k0 k1 k2 k3 k4 k5 = .vec [.az .xy, .lon .z, .tmp k2] := by
  cases k0 <;> cases k1 <;> cases k2 <;> cases k3 <;> cases k4 <;> cases k5 <;> rfl
theorem c13c_lorentz_transform4D_ret (k0 : Az) (k1 : Lon) (k2 : Tmp) :
    lorentz_transform4D.ret k0 k1 k2 = .vec [.az .xy, .lon .z, .tmp .t] := by
  cases k0 <;> cases k1 <;> cases k2 <;> rfl

/-- a stored `tau` goes through `boost_beta3` / `boost_p4` unchanged (all `tau` keys) -/
theorem c13c_lorentz_boost_beta3_tau_eq (k0 : Az) (k1 : Lon) (k3 : Az) (k4 : Lon) (a0 a1 a2 a3 b0 b1 b2 : ℝ) :
    (lorentz_boost_beta3.eval k0 k1 .tau k3 k4 a0 a1 a2 a3 b0 b1 b2).2.2.2 = a3 := by
  cases k0 <;> cases k1 <;> cases k3 <;> cases k4 <;> rfl
theorem c13c_lorentz_boost_p4_tau_eq (k0 : Az) (k1 : Lon) (k3 : Az) (k4 : Lon) (k5 : Tmp)
    (a0 a1 a2 a3 b0 b1 b2 b3 : ℝ) :
    (lorentz_boost_p4.eval k0 k1 .tau k3 k4 k5 a0 a1 a2 a3 b0 b1 b2 b3).2.2.2 = a3 := by
  cases k0 <;> cases k1 <;> cases k3 <;> cases k4 <;> cases k5 <;> rfl

theorem c13c_lorentz_boost_beta3 (k0 : Az) (k1 : Lon) (k2 : Tmp) (k3 : Az) (k4 : Lon)
    (a0 a1 a2 a3 b0 b1 b2 : ℝ) (ht : InTmp k2 a3) :
    OutCanon4 (lorentz_boost_beta3.ret k0 k1 k2 k3 k4) (lorentz_boost_beta3.eval k0 k1 k2 k3 k4 a0 a1 a2 a3 b0 b1 b2) := by
  rw [c13c_lorentz_boost_beta3_ret]
  cases k2
  · exact outCanon4_xyzt _
  · simp only [OutCanon4, OutCanonR, OutCanonL, AzOK, LonOK, TmpOK, and_true, true_and]
    rw [c13c_lorentz_boost_beta3_tau_eq]; exact ht

theorem c13c_lorentz_boost_p4 (k0 : Az) (k1 : Lon) (k2 : Tmp) (k3 : Az) (k4 : Lon) (k5 : Tmp)
    (a0 a1 a2 a3 b0 b1 b2 b3 : ℝ) (ht : InTmp k2 a3) :
    OutCanon4 (lorentz_boost_p4.ret k0 k1 k2 k3 k4 k5)
      (lorentz_boost_p4.eval k0 k1 k2 k3 k4 k5 a0 a1 a2 a3 b0 b1 b2 b3) := by
  rw [c13c_lorentz_boost_p4_ret]
  cases k2
  · exact outCanon4_xyzt _
  · simp only [OutCanon4, OutCanonR, OutCanonL, AzOK, LonOK, TmpOK, and_true, true_and]
    rw [c13c_lorentz_boost_p4_tau_eq]; exact ht

/-- `transform4D` always returns `xy`, `z`, `t`: nothing to prove -/
theorem c13c_lorentz_transform4D (k0 : Az) (k1 : Lon) (k2 : Tmp) (v : ℝ × ℝ × ℝ × ℝ) :
    OutCanon4 (lorentz_transform4D.ret k0 k1 k2) v := by
  rw [c13c_lorentz_transform4D_ret]; exact outCanon4_xyzt _

example : OutCanon4 (lorentz_boostZ_beta.ret .rhophi .eta .tau) (lorentz_boostZ_beta.eval .rhophi .eta .tau 0.5 2 1 1 5) :=
  c13c_lorentz_boostZ_beta .rhophi .eta .tau 0.5 2 1 1 5
    ⟨by norm_num, by linarith [Real.two_le_pi], by linarith [Real.two_le_pi]⟩ (by show (0:ℝ) ≤ 5; norm_num)

/-! ### 3e. `add`, `subtract` -/

section AddSub
open Spec

/-- `lorentz_add`, all 144 key pairs, NO hypothesis: the spatial part of the result is in range
(it is the result of `spatial_add`, see `c13c_spatial_add`). -/
theorem c13c_lorentz_add_partial (k0 : Az) (k1 : Lon) (k2 : Tmp) (k3 : Az) (k4 : Lon) (k5 : Tmp)
    (a0 a1 a2 a3 a4 a5 a6 a7 : ℝ) :
    OutCanonS4 (lorentz_add.ret k0 k1 k2 k3 k4 k5) (lorentz_add.eval k0 k1 k2 k3 k4 k5 a0 a1 a2 a3 a4 a5 a6 a7) := by
  have hS := c13c_spatial_add k0 k1 k3 k4 a0 a1 a2 a4 a5 a6
  rw [spatial_add_ret_eq] at hS
  rw [lorentz_add_eval_eq, lorentz_add_ret_eq]
  simp only [OutCanon3, OutCanonS4, OutCanonR, OutCanonL, and_true] at hS ⊢
  refine ⟨hS.1, hS.2, ?_⟩
  cases k2 <;> cases k5 <;> simp only [TmpOK]

theorem c13c_lorentz_subtract_partial (k0 : Az) (k1 : Lon) (k2 : Tmp) (k3 : Az) (k4 : Lon) (k5 : Tmp)
    (a0 a1 a2 a3 a4 a5 a6 a7 : ℝ) :
    OutCanonS4 (lorentz_subtract.ret k0 k1 k2 k3 k4 k5)
      (lorentz_subtract.eval k0 k1 k2 k3 k4 k5 a0 a1 a2 a3 a4 a5 a6 a7) := by
  have hS := c13c_spatial_subtract k0 k1 k3 k4 a0 a1 a2 a4 a5 a6
  rw [spatial_subtract_ret_eq] at hS
  rw [lorentz_subtract_eval_eq, lorentz_subtract_ret_eq]
  simp only [OutCanon3, OutCanonS4, OutCanonR, OutCanonL, and_true] at hS ⊢
  refine ⟨hS.1, hS.2, ?_⟩
  cases k2 <;> cases k5 <;> simp only [TmpOK]

private theorem copysign_sqrt_nonneg_iff (s : ℝ) : 0 ≤ P.copysign (Real.sqrt |s|) s ↔ 0 ≤ s := by
  unfold P.copysign
  by_cases h : 0 ≤ s
  · rw [if_pos h]; exact ⟨fun _ => h, fun _ => abs_nonneg _⟩
  · rw [if_neg h]
    have : 0 < Real.sqrt |s| := Real.sqrt_pos.mpr (abs_pos.mpr (by intro e; exact h e.ge))
    rw [abs_of_pos this]
    exact ⟨fun g => by linarith, fun g => absurd g h⟩

/-- `lorentz_add`, all 144 key pairs: the WHOLE result is in range, in particular for the 36 `tau + tau` keys
`0 ≤ τ_out` when both inputs have `0 ≤ τ` (the sum of two future-directed causal vectors is causal:
`|p₁ + p₂| ≤ t₁ + t₂`, so `τ_out = copysign(√|s|, s)` with `s = (t₁+t₂)² − |p₁+p₂|² ≥ 0`).
Hypotheses as in `refine_lorentz_add`: inputs away from the singular `θ` (`tan`, `sin`), and a result declared with
`θ`/`η` off the z axis. -/
theorem c13c_lorentz_add (k0 : Az) (k1 : Lon) (k2 : Tmp) (k3 : Az) (k4 : Lon) (k5 : Tmp)
    (a0 a1 a2 a3 a4 a5 a6 a7 : ℝ)
    (h1 : TanOK k1 a2) (h2 : TanOK k4 a6) (hs1 : SinOK k1 a2) (hs2 : SinOK k4 a6)
    (hd1 : InTmp k2 a3) (hd2 : InTmp k5 a7)
    (hrep : Representable3 (spatial_add.ret k0 k1 k3 k4) (add3 (cart3 k0 k1 a0 a1 a2) (cart3 k3 k4 a4 a5 a6))) :
    OutCanon4 (lorentz_add.ret k0 k1 k2 k3 k4 k5) (lorentz_add.eval k0 k1 k2 k3 k4 k5 a0 a1 a2 a3 a4 a5 a6 a7) := by
  have hsp := c13c_lorentz_add_partial k0 k1 k2 k3 k4 k5 a0 a1 a2 a3 a4 a5 a6 a7
  have hS := refine_spatial_add k0 k1 k3 k4 a0 a1 a2 a4 a5 a6 h1 h2 hrep
  have hso := spatial_add_sinOK k0 k1 k3 k4 a0 a1 a2 a4 a5 a6 hrep
  rw [spatial_add_ret_eq, interp3_same, Option.some.injEq] at hS
  rw [lorentz_add_eval_eq, lorentz_add_ret_eq] at hsp ⊢
  simp only [OutCanon4, OutCanonS4, OutCanonR, OutCanonL, and_true] at hsp ⊢
  refine ⟨hsp.1, hsp.2.1, ?_⟩
  cases k2 <;> cases k5 <;> simp only [TmpOK]
  have hd1' : CanonTmp .tau a3 := hd1
  have hd2' : CanonTmp .tau a7 := hd2
  rw [lorentz_tau_t_eq _ _ _ _ _ _ hso, copysign_sqrt_nonneg_iff,
    lorentz_t_eq_tOf k0 k1 .tau a0 a1 a2 a3 hs1 hd1', lorentz_t_eq_tOf k3 k4 .tau a4 a5 a6 a7 hs2 hd2',
    tOf_tau_eq, tOf_tau_eq]
  have hc := L.causal_add (xOf k0 a0 a1) (yOf k0 a0 a1) (zOf k0 k1 a0 a1 a2) (a3 ^ 2)
    (xOf k3 a4 a5) (yOf k3 a4 a5) (zOf k3 k4 a4 a5 a6) (a7 ^ 2) (sq_nonneg _) (sq_nonneg _)
  have hm : ∀ (az : Az) (lon : Lon) (a b c : ℝ),
      mag2Of az lon a b c = (cart3 az lon a b c).1 ^ 2 + (cart3 az lon a b c).2.1 ^ 2 + (cart3 az lon a b c).2.2 ^ 2 :=
    fun _ _ _ _ _ => rfl
  rw [hm, hS]
  simp only [add3, cart3]
  linarith [hc.2]

/-- `lorentz_subtract`, the 36 `tau − tau` key pairs — the precise SIGNED behaviour of the stored `tau`:
`0 ≤ τ_out` iff the exact difference is causal, `|p₁ − p₂|² ≤ (t₁ − t₂)²` (otherwise `τ_out < 0`,
the library's convention for a space-like vector). The domain `0 ≤ τ` is NOT closed under `subtract`. -/
theorem c13c_lorentz_subtract_tau_nonneg_iff (k0 : Az) (k1 : Lon) (k3 : Az) (k4 : Lon)
    (a0 a1 a2 a3 a4 a5 a6 a7 : ℝ)
    (h1 : TanOK k1 a2) (h2 : TanOK k4 a6) (hs1 : SinOK k1 a2) (hs2 : SinOK k4 a6)
    (hd1 : 0 ≤ a3) (hd2 : 0 ≤ a7)
    (hrep : Representable3 (spatial_subtract.ret k0 k1 k3 k4) (sub3 (cart3 k0 k1 a0 a1 a2) (cart3 k3 k4 a4 a5 a6))) :
    0 ≤ (lorentz_subtract.eval k0 k1 .tau k3 k4 .tau a0 a1 a2 a3 a4 a5 a6 a7).2.2.2 ↔
      (xOf k0 a0 a1 - xOf k3 a4 a5) ^ 2 + (yOf k0 a0 a1 - yOf k3 a4 a5) ^ 2
          + (zOf k0 k1 a0 a1 a2 - zOf k3 k4 a4 a5 a6) ^ 2
        ≤ (tOf k0 k1 .tau a0 a1 a2 a3 - tOf k3 k4 .tau a4 a5 a6 a7) ^ 2 := by
  have hS := refine_spatial_subtract k0 k1 k3 k4 a0 a1 a2 a4 a5 a6 h1 h2 hrep
  have hso := spatial_subtract_sinOK k0 k1 k3 k4 a0 a1 a2 a4 a5 a6 hrep
  rw [spatial_subtract_ret_eq, interp3_same, Option.some.injEq] at hS
  rw [lorentz_subtract_eval_eq]
  simp only []
  have hd1' : CanonTmp .tau a3 := hd1
  have hd2' : CanonTmp .tau a7 := hd2
  rw [lorentz_tau_t_eq _ _ _ _ _ _ hso, copysign_sqrt_nonneg_iff,
    lorentz_t_eq_tOf k0 k1 .tau a0 a1 a2 a3 hs1 hd1', lorentz_t_eq_tOf k3 k4 .tau a4 a5 a6 a7 hs2 hd2']
  have hm : ∀ (az : Az) (lon : Lon) (a b c : ℝ),
      mag2Of az lon a b c = (cart3 az lon a b c).1 ^ 2 + (cart3 az lon a b c).2.1 ^ 2 + (cart3 az lon a b c).2.2 ^ 2 :=
    fun _ _ _ _ _ => rfl
  rw [hm, hS]
  simp only [sub3, cart3]
  exact sub_nonneg

/-- `lorentz_subtract`, all 144 key pairs: the whole result is in range PROVIDED, for `tau − tau`, the exact
difference is causal (`hc`).  Without `hc` the stored `tau` is negative: see the counterexample below. -/
theorem c13c_lorentz_subtract (k0 : Az) (k1 : Lon) (k2 : Tmp) (k3 : Az) (k4 : Lon) (k5 : Tmp)
    (a0 a1 a2 a3 a4 a5 a6 a7 : ℝ)
    (h1 : TanOK k1 a2) (h2 : TanOK k4 a6) (hs1 : SinOK k1 a2) (hs2 : SinOK k4 a6)
    (hd1 : InTmp k2 a3) (hd2 : InTmp k5 a7)
    (hrep : Representable3 (spatial_subtract.ret k0 k1 k3 k4) (sub3 (cart3 k0 k1 a0 a1 a2) (cart3 k3 k4 a4 a5 a6)))
    (hc : k2 = .tau → k5 = .tau →
      (xOf k0 a0 a1 - xOf k3 a4 a5) ^ 2 + (yOf k0 a0 a1 - yOf k3 a4 a5) ^ 2
          + (zOf k0 k1 a0 a1 a2 - zOf k3 k4 a4 a5 a6) ^ 2
        ≤ (tOf k0 k1 .tau a0 a1 a2 a3 - tOf k3 k4 .tau a4 a5 a6 a7) ^ 2) :
    OutCanon4 (lorentz_subtract.ret k0 k1 k2 k3 k4 k5)
      (lorentz_subtract.eval k0 k1 k2 k3 k4 k5 a0 a1 a2 a3 a4 a5 a6 a7) := by
  have hsp := c13c_lorentz_subtract_partial k0 k1 k2 k3 k4 k5 a0 a1 a2 a3 a4 a5 a6 a7
  cases k2 <;> cases k5
  case tau.tau =>
    have ht := (c13c_lorentz_subtract_tau_nonneg_iff k0 k1 k3 k4 a0 a1 a2 a3 a4 a5 a6 a7 h1 h2 hs1 hs2 hd1 hd2 hrep).2
      (hc rfl rfl)
    rw [lorentz_subtract_ret_eq] at hsp ⊢
    simp only [OutCanon4, OutCanonS4, OutCanonR, OutCanonL, TmpOK, and_true] at hsp ⊢
    exact ⟨hsp.1, hsp.2, ht⟩
  all_goals
    rw [lorentz_subtract_ret_eq] at hsp ⊢
    simp only [OutCanon4, OutCanonS4, OutCanonR, OutCanonL, TmpOK, and_true] at hsp ⊢
    exact hsp

/-- concrete counterexample (`tau − tau`): the light-like `(x, y, z, τ) = (1, 0, 0, 0)` (so `t = 1`) minus the
particle at rest `(0, 0, 0, 1)` (`t = 1`) is stored as `(1, 0, 0, -1)`: `τ_out = -1 < 0`. -/
example : lorentz_subtract.eval .xy .z .tau .xy .z .tau 1 0 0 0 0 0 0 1 = (1, 0, 0, -1) := by
  simp only [d_lorentz_subtract, d_spatial_subtract, d_lorentz_t, d_lorentz_t2, d_lorentz_tau, d_lorentz_tau2,
    d_spatial_mag2, P.copysign]
  norm_num

/-- the hypotheses are satisfiable at a non-trivial point: `(ρ, φ, θ, τ) = (2, 0, 1, 5)` plus `(1, 0, 1, 3)`
(result declared `rhophi`, `theta`, `tau`) -/
example : OutCanon4 (lorentz_add.ret .rhophi .theta .tau .rhophi .theta .tau)
    (lorentz_add.eval .rhophi .theta .tau .rhophi .theta .tau 2 0 1 5 1 0 1 3) :=
  c13c_lorentz_add .rhophi .theta .tau .rhophi .theta .tau 2 0 1 5 1 0 1 3
    (ne_of_gt Real.cos_one_pos) (ne_of_gt Real.cos_one_pos)
    (Real.sin_pos_of_pos_of_lt_pi one_pos (by linarith [Real.two_le_pi])).ne'
    (Real.sin_pos_of_pos_of_lt_pi one_pos (by linarith [Real.two_le_pi])).ne'
    (by show (0 : ℝ) ≤ 5; norm_num) (by show (0 : ℝ) ≤ 3; norm_num)
    (Or.inr (by norm_num [add3, cart3, xOf, yOf]))

end AddSub

end VR
