/-
Lorentz (4D) part of the public API at the level of PUBLIC METHODS: glue ∘ compute (prefix `c09m_`).

The glue model is instantiated at `S := ℝ`, `B := Prop` with the generated REAL compute layer `evR`
(`Props/C01Method.lean`), and the theorems say what the 4D accessors, the boosts, `to_beta3` and the causal
predicates DENOTE, for every storage of the operands.
-/
import VectorModel.Props.C01Method
import VectorModel.Refine.LorentzAcc
import VectorModel.Refine.LorentzBin
import VectorModel.Refine.LorentzSigned
import VectorModel.Props.C09
import VectorModel.Props.C13
import VectorModel.Props.C14

set_option linter.unusedVariables false
set_option linter.constructorNameAsVariable false
set_option maxRecDepth 4096

namespace VR
namespace C01M
open VK VG Spec Real

/-! ### 0. shapes -/

/-- the four stored coordinates, totalised -/
def c4 (v : Vec ℝ) : ℝ × ℝ × ℝ × ℝ :=
  match v.c with
  | a :: b :: c :: d :: _ => (a, b, c, d)
  | _ => (0, 0, 0, 0)
def tmpOf (v : Vec ℝ) : Tmp := v.ty.tmp.getD .t

/-- a hypothesis on the stored coordinates of a 4D vector -/
def Stored4 (P : Az → Lon → Tmp → ℝ → ℝ → ℝ → ℝ → Prop) (v : Vec ℝ) : Prop :=
  P v.ty.az (lonOf v) (tmpOf v) (c4 v).1 (c4 v).2.1 (c4 v).2.2.1 (c4 v).2.2.2

/-- the shape of a well-formed 4D vector -/
theorem wfv4 {v : Vec ℝ} (hv : WFV v) (hd : v.ty.dim = 4) :
    ∃ be mom az l t a b c d, v = ⟨⟨be, mom, az, some l, some t⟩, [a, b, c, d]⟩ := by
  rcases wfv_cases hv with ⟨be, mom, az, a, b, rfl⟩ | ⟨be, mom, az, l, a, b, c, rfl⟩ |
    ⟨be, mom, az, l, t, a, b, c, d, rfl⟩
  · simp [VT.dim] at hd
  · simp [VT.dim] at hd
  · exact ⟨be, mom, az, l, t, a, b, c, d, rfl⟩

theorem denote_lorentz {v : Vec ℝ} (hv : WFV v) {x y z t : ℝ} (h : denote v = some [x, y, z, t]) :
    v.ty.dim = 4 ∧ x = xOf v.ty.az (c4 v).1 (c4 v).2.1 ∧ y = yOf v.ty.az (c4 v).1 (c4 v).2.1 ∧
      z = zOf v.ty.az (lonOf v) (c4 v).1 (c4 v).2.1 (c4 v).2.2.1 ∧
      t = tOf v.ty.az (lonOf v) (tmpOf v) (c4 v).1 (c4 v).2.1 (c4 v).2.2.1 (c4 v).2.2.2 ∧
      x ^ 2 + y ^ 2 + z ^ 2 = mag2Of v.ty.az (lonOf v) (c4 v).1 (c4 v).2.1 (c4 v).2.2.1 := by
  rcases wfv_cases hv with ⟨be, mom, az, a, b, rfl⟩ | ⟨be, mom, az, l, a, b, c, rfl⟩ |
    ⟨be, mom, az, l, t, a, b, c, d, rfl⟩
  · simp [denote] at h
  · simp [denote] at h
  · simp only [denote, Option.some.injEq, List.cons.injEq, and_true] at h
    obtain ⟨rfl, rfl, rfl, rfl⟩ := h
    exact ⟨by simp [VT.dim], rfl, rfl, rfl, rfl, rfl⟩

/-! ### 1. accessors -/

/-- the stored coordinates of a 4D vector as arguments of a compute function -/
abbrev ap4 (f : Az → Lon → Tmp → ℝ → ℝ → ℝ → ℝ → ℝ) (v : Vec ℝ) : ℝ :=
  f v.ty.az (lonOf v) (tmpOf v) (c4 v).1 (c4 v).2.1 (c4 v).2.2.1 (c4 v).2.2.2

theorem acc_t_eval (K : Consts ℝ) (A : Arith ℝ) (v : Vec ℝ) (hv : WFV v) (hd : v.ty.dim = 4) :
    call evR K A "t" v [] = .ok (.scalar (ap4 lorentz_t.eval v)) := by
  obtain ⟨be, mom, az, l, t, a, b, c, d, rfl⟩ := wfv4 hv hd
  cases az <;> cases l <;> cases t <;> rfl

theorem acc_t2_eval (K : Consts ℝ) (A : Arith ℝ) (v : Vec ℝ) (hv : WFV v) (hd : v.ty.dim = 4) :
    call evR K A "t2" v [] = .ok (.scalar (ap4 lorentz_t2.eval v)) := by
  obtain ⟨be, mom, az, l, t, a, b, c, d, rfl⟩ := wfv4 hv hd
  cases az <;> cases l <;> cases t <;> rfl

theorem acc_tau_eval (K : Consts ℝ) (A : Arith ℝ) (v : Vec ℝ) (hv : WFV v) (hd : v.ty.dim = 4) :
    call evR K A "tau" v [] = .ok (.scalar (ap4 lorentz_tau.eval v)) := by
  obtain ⟨be, mom, az, l, t, a, b, c, d, rfl⟩ := wfv4 hv hd
  cases az <;> cases l <;> cases t <;> rfl

theorem acc_tau2_eval (K : Consts ℝ) (A : Arith ℝ) (v : Vec ℝ) (hv : WFV v) (hd : v.ty.dim = 4) :
    call evR K A "tau2" v [] = .ok (.scalar (ap4 lorentz_tau2.eval v)) := by
  obtain ⟨be, mom, az, l, t, a, b, c, d, rfl⟩ := wfv4 hv hd
  cases az <;> cases l <;> cases t <;> rfl

theorem acc_beta_eval (K : Consts ℝ) (A : Arith ℝ) (v : Vec ℝ) (hv : WFV v) (hd : v.ty.dim = 4) :
    call evR K A "beta" v [] = .ok (.scalar (ap4 lorentz_beta.eval v)) := by
  obtain ⟨be, mom, az, l, t, a, b, c, d, rfl⟩ := wfv4 hv hd
  cases az <;> cases l <;> cases t <;> rfl

theorem acc_gamma_eval (K : Consts ℝ) (A : Arith ℝ) (v : Vec ℝ) (hv : WFV v) (hd : v.ty.dim = 4) :
    call evR K A "gamma" v [] = .ok (.scalar (ap4 lorentz_gamma.eval v)) := by
  obtain ⟨be, mom, az, l, t, a, b, c, d, rfl⟩ := wfv4 hv hd
  cases az <;> cases l <;> cases t <;> rfl

theorem acc_rapidity_eval (K : Consts ℝ) (A : Arith ℝ) (v : Vec ℝ) (hv : WFV v) (hd : v.ty.dim = 4) :
    call evR K A "rapidity" v [] = .ok (.scalar (ap4 lorentz_rapidity.eval v)) := by
  obtain ⟨be, mom, az, l, t, a, b, c, d, rfl⟩ := wfv4 hv hd
  cases az <;> cases l <;> cases t <;> rfl

theorem acc_Et_eval (K : Consts ℝ) (A : Arith ℝ) (v : Vec ℝ) (hv : WFV v) (hd : v.ty.dim = 4) (hm : v.ty.mom = true) :
    call evR K A "Et" v [] = .ok (.scalar (ap4 lorentz_Et.eval v)) := by
  obtain ⟨be, mom, az, l, t, a, b, c, d, rfl⟩ := wfv4 hv hd
  obtain rfl : mom = true := hm
  cases az <;> cases l <;> cases t <;> rfl

theorem acc_Et2_eval (K : Consts ℝ) (A : Arith ℝ) (v : Vec ℝ) (hv : WFV v) (hd : v.ty.dim = 4) (hm : v.ty.mom = true) :
    call evR K A "Et2" v [] = .ok (.scalar (ap4 lorentz_Et2.eval v)) := by
  obtain ⟨be, mom, az, l, t, a, b, c, d, rfl⟩ := wfv4 hv hd
  obtain rfl : mom = true := hm
  cases az <;> cases l <;> cases t <;> rfl

theorem acc_Mt_eval (K : Consts ℝ) (A : Arith ℝ) (v : Vec ℝ) (hv : WFV v) (hd : v.ty.dim = 4) (hm : v.ty.mom = true) :
    call evR K A "Mt" v [] = .ok (.scalar (ap4 lorentz_Mt.eval v)) := by
  obtain ⟨be, mom, az, l, t, a, b, c, d, rfl⟩ := wfv4 hv hd
  obtain rfl : mom = true := hm
  cases az <;> cases l <;> cases t <;> rfl

theorem acc_Mt2_eval (K : Consts ℝ) (A : Arith ℝ) (v : Vec ℝ) (hv : WFV v) (hd : v.ty.dim = 4) (hm : v.ty.mom = true) :
    call evR K A "Mt2" v [] = .ok (.scalar (ap4 lorentz_Mt2.eval v)) := by
  obtain ⟨be, mom, az, l, t, a, b, c, d, rfl⟩ := wfv4 hv hd
  obtain rfl : mom = true := hm
  cases az <;> cases l <;> cases t <;> rfl


/-- `t` of the denotation -/
theorem c09m_acc_t (K : Consts ℝ) (A : Arith ℝ) (v : Vec ℝ) (hv : WFV v)
    (hc : Stored4 (fun _ l t _ _ c d => SinOK l c ∧ CanonTmp t d) v) (x y z t : ℝ)
    (h : denote v = some [x, y, z, t]) : call evR K A "t" v [] = .ok (.scalar t) := by
  obtain ⟨hd, rfl, rfl, rfl, rfl, -⟩ := denote_lorentz hv h
  rw [acc_t_eval K A v hv hd, ap4, lorentz_t_eq_tOf _ _ _ _ _ _ _ hc.1 hc.2]

/-- `t2 = t²` -/
theorem c09m_acc_t2 (K : Consts ℝ) (A : Arith ℝ) (v : Vec ℝ) (hv : WFV v)
    (hc : Stored4 (fun k l t a b c d => CanonLon k l a b c ∧ CanonTmp t d) v) (x y z t : ℝ)
    (h : denote v = some [x, y, z, t]) : call evR K A "t2" v [] = .ok (.scalar (t ^ 2)) := by
  obtain ⟨hd, rfl, rfl, rfl, rfl, -⟩ := denote_lorentz hv h
  rw [acc_t2_eval K A v hv hd, ap4, refine_lorentz_t2 _ _ _ _ _ _ _ hc.1 hc.2]

/-- `tau2 = t² − x² − y² − z²` -/
theorem c09m_acc_tau2 (K : Consts ℝ) (A : Arith ℝ) (v : Vec ℝ) (hv : WFV v)
    (hc : Stored4 (fun k l t a b c d => CanonLon k l a b c ∧ CanonTmp t d) v) (x y z t : ℝ)
    (h : denote v = some [x, y, z, t]) :
    call evR K A "tau2" v [] = .ok (.scalar (t ^ 2 - (x ^ 2 + y ^ 2 + z ^ 2))) := by
  obtain ⟨hd, rfl, rfl, rfl, rfl, -⟩ := denote_lorentz hv h
  rw [acc_tau2_eval K A v hv hd, ap4, refine_lorentz_tau2 _ _ _ _ _ _ _ hc.1 hc.2]; rfl

/-- `tau = sign(s)·√|s|` with `s = t² − x² − y² − z²` (negative for space-like vectors) -/
theorem c09m_acc_tau (K : Consts ℝ) (A : Arith ℝ) (v : Vec ℝ) (hv : WFV v)
    (hc : Stored4 (fun k l t a b c d => CanonLon k l a b c ∧ CanonTmp t d) v) (x y z t : ℝ)
    (h : denote v = some [x, y, z, t]) :
    call evR K A "tau" v [] = .ok (.scalar (Real.sign (t ^ 2 - (x ^ 2 + y ^ 2 + z ^ 2))
      * sqrt |t ^ 2 - (x ^ 2 + y ^ 2 + z ^ 2)|)) := by
  obtain ⟨hd, rfl, rfl, rfl, rfl, -⟩ := denote_lorentz hv h
  rw [acc_tau_eval K A v hv hd, ap4, refine_lorentz_tau _ _ _ _ _ _ _ hc.1 hc.2]; rfl

/-- for time-like vectors `tau = √(t² − x² − y² − z²)` -/
theorem c09m_acc_tau_timelike (K : Consts ℝ) (A : Arith ℝ) (v : Vec ℝ) (hv : WFV v)
    (hc : Stored4 (fun k l t a b c d => CanonLon k l a b c ∧ CanonTmp t d) v) (x y z t : ℝ)
    (h : denote v = some [x, y, z, t]) (hs : 0 < t ^ 2 - (x ^ 2 + y ^ 2 + z ^ 2)) :
    call evR K A "tau" v [] = .ok (.scalar (sqrt (t ^ 2 - (x ^ 2 + y ^ 2 + z ^ 2)))) := by
  rw [c09m_acc_tau K A v hv hc x y z t h, Real.sign_of_pos hs, abs_of_pos hs, one_mul]

/-- a τ-stored vector returns its stored τ (no hypothesis) -/
theorem c09m_acc_tau_stored (K : Consts ℝ) (A : Arith ℝ) (v : Vec ℝ) (hv : WFV v) (hd : v.ty.dim = 4)
    (ht : v.ty.tmp = some .tau) : call evR K A "tau" v [] = .ok (.scalar (c4 v).2.2.2) := by
  rw [acc_tau_eval K A v hv hd, ap4]
  have : tmpOf v = .tau := by simp [tmpOf, ht]
  rw [this, refine_lorentz_tau_of_tau]

/-- `beta = |p| / t` -/
theorem c09m_acc_beta (K : Consts ℝ) (A : Arith ℝ) (v : Vec ℝ) (hv : WFV v)
    (hc : Stored4 (fun k l t a b c d => Canon3 k l a b c ∧ CanonTmp t d) v) (x y z t : ℝ)
    (h : denote v = some [x, y, z, t]) (ht : t ≠ 0) :
    call evR K A "beta" v [] = .ok (.scalar (sqrt (x ^ 2 + y ^ 2 + z ^ 2) / t)) := by
  obtain ⟨hd, rfl, rfl, rfl, rfl, -⟩ := denote_lorentz hv h
  rw [acc_beta_eval K A v hv hd, ap4, refine_lorentz_beta _ _ _ _ _ _ _ hc.1 hc.2 ht]; rfl

/-- `gamma = t / τ` for time-like vectors -/
theorem c09m_acc_gamma (K : Consts ℝ) (A : Arith ℝ) (v : Vec ℝ) (hv : WFV v)
    (hc : Stored4 (fun k l t a b c d => CanonLon k l a b c ∧ CanonTmp t d) v) (x y z t : ℝ)
    (h : denote v = some [x, y, z, t]) (hs : 0 < t ^ 2 - (x ^ 2 + y ^ 2 + z ^ 2)) :
    call evR K A "gamma" v [] = .ok (.scalar (t / sqrt (t ^ 2 - (x ^ 2 + y ^ 2 + z ^ 2)))) := by
  obtain ⟨hd, rfl, rfl, rfl, rfl, -⟩ := denote_lorentz hv h
  rw [acc_gamma_eval K A v hv hd, ap4, refine_lorentz_gamma _ _ _ _ _ _ _ hc.1 hc.2 hs]; rfl

/-- `rapidity = ½ ln((t + z)/(t − z))` for `|z| < t` -/
theorem c09m_acc_rapidity (K : Consts ℝ) (A : Arith ℝ) (v : Vec ℝ) (hv : WFV v)
    (hc : Stored4 (fun k l t a b c d => CanonLon k l a b c ∧ TanOK l c ∧ CanonTmp t d) v) (x y z t : ℝ)
    (h : denote v = some [x, y, z, t]) (hz : |z| < t) :
    call evR K A "rapidity" v [] = .ok (.scalar (1 / 2 * Real.log ((t + z) / (t - z)))) := by
  obtain ⟨hd, rfl, rfl, rfl, rfl, -⟩ := denote_lorentz hv h
  rw [acc_rapidity_eval K A v hv hd, ap4, refine_lorentz_rapidity _ _ _ _ _ _ _ hc.1 hc.2.1 hc.2.2 hz]

/-- `Et2 = t² (x² + y²) / |p|²` (momentum vectors) -/
theorem c09m_acc_Et2 (K : Consts ℝ) (A : Arith ℝ) (v : Vec ℝ) (hv : WFV v) (hmom : v.ty.mom = true)
    (hc : Stored4 (fun k l t a b c d => CanonLon k l a b c ∧ CanonTmp t d) v) (x y z t : ℝ)
    (h : denote v = some [x, y, z, t]) (hp : 0 < x ^ 2 + y ^ 2 + z ^ 2) :
    call evR K A "Et2" v [] = .ok (.scalar (t ^ 2 * (x ^ 2 + y ^ 2) / (x ^ 2 + y ^ 2 + z ^ 2))) := by
  obtain ⟨hd, rfl, rfl, rfl, rfl, -⟩ := denote_lorentz hv h
  rw [acc_Et2_eval K A v hv hd hmom, ap4, refine_lorentz_Et2 _ _ _ _ _ _ _ hc.1 hc.2 hp, ← Spec.sq_xOf_add_sq_yOf]; rfl

/-- `Et = √Et2 = t ρ / |p|` for `0 ≤ t` (momentum vectors); for `t < 0` the storages disagree (known finding `Et:t<0`) -/
theorem c09m_acc_Et (K : Consts ℝ) (A : Arith ℝ) (v : Vec ℝ) (hv : WFV v) (hmom : v.ty.mom = true)
    (hc : Stored4 (fun k l t a b c d => Canon3 k l a b c ∧ CanonTmp t d) v) (x y z t : ℝ)
    (h : denote v = some [x, y, z, t]) (hp : 0 < x ^ 2 + y ^ 2 + z ^ 2) (ht : 0 ≤ t) :
    call evR K A "Et" v [] = .ok (.scalar (sqrt (t ^ 2 * (x ^ 2 + y ^ 2) / (x ^ 2 + y ^ 2 + z ^ 2)))) := by
  obtain ⟨hd, rfl, rfl, rfl, rfl, -⟩ := denote_lorentz hv h
  rw [acc_Et_eval K A v hv hd hmom, ap4, refine_lorentz_Et _ _ _ _ _ _ _ hc.1 hc.2 hp ht, ← Spec.sq_xOf_add_sq_yOf]; rfl

/-- `Mt2 = t² − z²` (momentum vectors; representable `τ ≥ 0`) -/
theorem c09m_acc_Mt2 (K : Consts ℝ) (A : Arith ℝ) (v : Vec ℝ) (hv : WFV v) (hmom : v.ty.mom = true)
    (hc : Stored4 (fun _ l t _ _ c d => TanOK l c ∧ CanonTmp t d) v) (x y z t : ℝ)
    (h : denote v = some [x, y, z, t]) : call evR K A "Mt2" v [] = .ok (.scalar (t ^ 2 - z ^ 2)) := by
  obtain ⟨hd, rfl, rfl, rfl, rfl, -⟩ := denote_lorentz hv h
  rw [acc_Mt2_eval K A v hv hd hmom, ap4, refine_lorentz_Mt2 _ _ _ _ _ _ _ hc.1 hc.2]

/-- `Mt = √(t² − z²)` -/
theorem c09m_acc_Mt (K : Consts ℝ) (A : Arith ℝ) (v : Vec ℝ) (hv : WFV v) (hmom : v.ty.mom = true)
    (hc : Stored4 (fun _ l t _ _ c d => TanOK l c ∧ CanonTmp t d) v) (x y z t : ℝ)
    (h : denote v = some [x, y, z, t]) (hs : 0 ≤ t ^ 2 - z ^ 2) :
    call evR K A "Mt" v [] = .ok (.scalar (sqrt (t ^ 2 - z ^ 2))) := by
  obtain ⟨hd, rfl, rfl, rfl, rfl, -⟩ := denote_lorentz hv h
  rw [acc_Mt_eval K A v hv hd hmom, ap4, refine_lorentz_Mt _ _ _ _ _ _ _ hc.1 hc.2 hs]

/-- **guards**: a Lorentz accessor on a 2D/3D vector, and `Et Et2 Mt Mt2` on a generic (non-momentum) vector of any
dimension, raise `AttributeError` -/
theorem c09m_acc_guard (K : Consts ℝ) (A : Arith ℝ) (g : String) (a : Acc) (hg : accOfName g = some a) (v : Vec ℝ)
    (h : v.ty.dim < a.need ∨ (a.momOnly = true ∧ v.ty.mom = false)) :
    call evR K A g v [] = .error .attributeError := by
  rw [c14_call_generic evR K A g a v [] hg]
  rcases h with h | ⟨h1, h2⟩ <;> simp [getAcc, *]

theorem c09m_acc_guard_names (K : Consts ℝ) (A : Arith ℝ) (v : Vec ℝ) :
    (v.ty.dim < 4 → ∀ g ∈ ["t", "t2", "tau", "tau2", "beta", "gamma", "rapidity", "Et", "Et2", "Mt", "Mt2"],
      call evR K A g v [] = .error .attributeError) ∧
    (v.ty.mom = false → ∀ g ∈ ["Et", "Et2", "Mt", "Mt2"], call evR K A g v [] = .error .attributeError) := by
  constructor
  · intro hd g hg
    simp only [List.mem_cons, List.not_mem_nil, or_false] at hg
    rcases hg with rfl | rfl | rfl | rfl | rfl | rfl | rfl | rfl | rfl | rfl | rfl <;>
      exact c09m_acc_guard K A _ _ rfl v (Or.inl (by exact hd))
  · intro hm g hg
    simp only [List.mem_cons, List.not_mem_nil, or_false] at hg
    rcases hg with rfl | rfl | rfl | rfl <;> exact c09m_acc_guard K A _ _ rfl v (Or.inr (by exact ⟨rfl, hm⟩))

/-- **momentum synonyms** (`E energy e → t`, `M mass m → tau`, `E2 … → t2`, `M2 … → tau2`, `et transverse_energy → Et`,
`mt transverse_mass → Mt`, …): on a momentum vector they are the generic accessor, so every theorem above applies -/
theorem c09m_mom_synonym (K : Consts ℝ) (A : Arith ℝ) (n g : String) (a : Acc) (v : Vec ℝ) (args : List (Arg ℝ))
    (hn : momAccOfName n = some a) (hg : accOfName g = some a) (hm : v.ty.mom = true) :
    call evR K A n v args = call evR K A g v args :=
  c14_call_synonym evR K A n g a v args hn hg hm

/-- e.g. `mass` of a momentum vector in any storage is `sign(s)·√|s|` of its denotation -/
example (K : Consts ℝ) (A : Arith ℝ) (v : Vec ℝ) (hv : WFV v) (hm : v.ty.mom = true)
    (hc : Stored4 (fun k l t a b c d => CanonLon k l a b c ∧ CanonTmp t d) v) (x y z t : ℝ)
    (h : denote v = some [x, y, z, t]) :
    call evR K A "mass" v [] = .ok (.scalar (Real.sign (t ^ 2 - (x ^ 2 + y ^ 2 + z ^ 2))
      * sqrt |t ^ 2 - (x ^ 2 + y ^ 2 + z ^ 2)|)) := by
  rw [c09m_mom_synonym K A "mass" "tau" .tau v [] rfl rfl hm]
  exact c09m_acc_tau K A v hv hc x y z t h

/-- non-vacuity: a momentum vector stored as (ρ, φ, η, τ) = (2, 1, 1, 3) satisfies every hypothesis on the storage used
above; it is time-like with `0 < t`, `|z| < t` -/
example : let v : Vec ℝ := ⟨⟨.obj, true, .rhophi, some .eta, some .tau⟩, [2, 1, 1, 3]⟩
    WFV v ∧ v.ty.dim = 4 ∧ Stored4 (fun k l t a b c d => Canon3 k l a b c ∧ TanOK l c ∧ SinOK l c ∧ CanonTmp t d) v := by
  intro v
  refine ⟨⟨by simp [v], rfl⟩, by simp [v, VT.dim], ⟨?_, ?_⟩, trivial, trivial, ?_⟩
  · show (0 : ℝ) ≤ 2; norm_num
  · show (0 : ℝ) < 2; norm_num
  · show (0 : ℝ) ≤ 3; norm_num

/-! ### 2. boosts along a coordinate axis -/

/-- component list of a Cartesian four-vector -/
def l4 (p : ℝ × ℝ × ℝ × ℝ) : List ℝ := [p.1, p.2.1, p.2.2.1, p.2.2.2]

/-- a map of ℝ⁴ acting on a 4-component list -/
def on4 (f : ℝ × ℝ × ℝ × ℝ → ℝ × ℝ × ℝ × ℝ) : List ℝ → List ℝ
  | [x, y, z, t] => l4 (f (x, y, z, t))
  | l => l

/-- the vector `_wrap_result` builds from a declared 4D result type and a raw 4-tuple -/
def mk4 (be : Backend) (mom : Bool) (ret : Ret) (r : ℝ × ℝ × ℝ × ℝ) : Vec ℝ :=
  match retAz ret, retLon ret, retTmp ret with
  | some a, some l, some t => ⟨⟨be, mom, a, some l, some t⟩, [r.1, r.2.1, r.2.2.1, r.2.2.2]⟩
  | _, _, _ => ⟨⟨be, mom, .xy, none, none⟩, []⟩

/-- its denotation is the interpretation of the raw tuple through the declared result type -/
theorem denote_mk4 (be : Backend) (mom : Bool) (ret : Ret) (r : ℝ × ℝ × ℝ × ℝ) :
    denote (mk4 be mom ret r) = (interp4 ret r).map l4 := by
  unfold mk4 interp4
  cases retAz ret <;> cases retLon ret <;> cases retTmp ret <;> rfl

theorem denote_4 (be : Backend) (mom : Bool) (az : Az) (l : Lon) (t : Tmp) (a b c d : ℝ) :
    denote ⟨⟨be, mom, az, some l, some t⟩, [a, b, c, d]⟩ = some (l4 (Spec.cart4 az l t a b c d)) := rfl

theorem boostX_beta_eval (K : Consts ℝ) (A : Arith ℝ) (be mom az l t) (a b c d s : ℝ) :
    call evR K A "boostX" ⟨⟨be, mom, az, some l, some t⟩, [a, b, c, d]⟩ [.kw "beta" s] =
      .ok (.vec (mk4 be mom (lorentz_boostX_beta.ret az l t) (lorentz_boostX_beta.eval az l t s a b c d))) ∧
    call evR K A "boostX" ⟨⟨be, mom, az, some l, some t⟩, [a, b, c, d]⟩ [.sc s] =
      .ok (.vec (mk4 be mom (lorentz_boostX_beta.ret az l t) (lorentz_boostX_beta.eval az l t s a b c d))) := by
  cases az <;> cases l <;> cases t <;> cases mom <;> exact ⟨rfl, rfl⟩

theorem boostY_beta_eval (K : Consts ℝ) (A : Arith ℝ) (be mom az l t) (a b c d s : ℝ) :
    call evR K A "boostY" ⟨⟨be, mom, az, some l, some t⟩, [a, b, c, d]⟩ [.kw "beta" s] =
      .ok (.vec (mk4 be mom (lorentz_boostY_beta.ret az l t) (lorentz_boostY_beta.eval az l t s a b c d))) ∧
    call evR K A "boostY" ⟨⟨be, mom, az, some l, some t⟩, [a, b, c, d]⟩ [.sc s] =
      .ok (.vec (mk4 be mom (lorentz_boostY_beta.ret az l t) (lorentz_boostY_beta.eval az l t s a b c d))) := by
  cases az <;> cases l <;> cases t <;> cases mom <;> exact ⟨rfl, rfl⟩

theorem boostZ_beta_eval (K : Consts ℝ) (A : Arith ℝ) (be mom az l t) (a b c d s : ℝ) :
    call evR K A "boostZ" ⟨⟨be, mom, az, some l, some t⟩, [a, b, c, d]⟩ [.kw "beta" s] =
      .ok (.vec (mk4 be mom (lorentz_boostZ_beta.ret az l t) (lorentz_boostZ_beta.eval az l t s a b c d))) ∧
    call evR K A "boostZ" ⟨⟨be, mom, az, some l, some t⟩, [a, b, c, d]⟩ [.sc s] =
      .ok (.vec (mk4 be mom (lorentz_boostZ_beta.ret az l t) (lorentz_boostZ_beta.eval az l t s a b c d))) := by
  cases az <;> cases l <;> cases t <;> cases mom <;> exact ⟨rfl, rfl⟩

theorem boostX_gamma_eval (K : Consts ℝ) (A : Arith ℝ) (be mom az l t) (a b c d s : ℝ) :
    call evR K A "boostX" ⟨⟨be, mom, az, some l, some t⟩, [a, b, c, d]⟩ [.kw "gamma" s] =
      .ok (.vec (mk4 be mom (lorentz_boostX_gamma.ret az l t) (lorentz_boostX_gamma.eval az l t s a b c d))) := by
  cases az <;> cases l <;> cases t <;> cases mom <;> rfl

theorem boostY_gamma_eval (K : Consts ℝ) (A : Arith ℝ) (be mom az l t) (a b c d s : ℝ) :
    call evR K A "boostY" ⟨⟨be, mom, az, some l, some t⟩, [a, b, c, d]⟩ [.kw "gamma" s] =
      .ok (.vec (mk4 be mom (lorentz_boostY_gamma.ret az l t) (lorentz_boostY_gamma.eval az l t s a b c d))) := by
  cases az <;> cases l <;> cases t <;> cases mom <;> rfl

theorem boostZ_gamma_eval (K : Consts ℝ) (A : Arith ℝ) (be mom az l t) (a b c d s : ℝ) :
    call evR K A "boostZ" ⟨⟨be, mom, az, some l, some t⟩, [a, b, c, d]⟩ [.kw "gamma" s] =
      .ok (.vec (mk4 be mom (lorentz_boostZ_gamma.ret az l t) (lorentz_boostZ_gamma.eval az l t s a b c d))) := by
  cases az <;> cases l <;> cases t <;> cases mom <;> rfl

/-- the hypotheses on the storage of a boosted vector: the code divides by `tan θ` / `sin θ` of a θ-stored operand; a
stored τ is non-negative -/
def BoostOK (v : Vec ℝ) : Prop := Stored4 (fun _ l t _ _ c d => TanOK l c ∧ SinOK l c ∧ CanonTmp t d) v

/-- **`boostX(beta=β)` (also positional `boostX(β)`) on a 4D vector in every storage**: the result is Cartesian
with the temporal storage of `v` and denotes the generated Cartesian kernel `bXβ` (Props/C09) applied to `denote v`; for a
τ-stored `v` (where the stored τ is passed through) the parameter must be physical -/
theorem c09m_boostX_beta (K : Consts ℝ) (A : Arith ℝ) (v : Vec ℝ) (hv : WFV v) (hd : v.ty.dim = 4) (hc : BoostOK v)
    (β : ℝ) (hβ : v.ty.tmp = some .tau → |β| < 1) :
    ∃ w, call evR K A "boostX" v [.kw "beta" β] = .ok (.vec w) ∧ call evR K A "boostX" v [.sc β] = .ok (.vec w) ∧
      w.ty = { v.ty with az := .xy, lon := some .z } ∧ WFV w ∧ denote w = (denote v).map (on4 (bXβ β)) := by
  obtain ⟨be, mom, az, l, t, a, b, c, d, rfl⟩ := wfv4 hv hd
  obtain ⟨h1, h2, h3⟩ := hc
  have hi := refine_lorentz_boostX_beta_cart az l t β a b c d h1 h2 h3 (fun e => hβ (by rw [e]))
  refine ⟨_, (boostX_beta_eval K A be mom az l t a b c d β).1, (boostX_beta_eval K A be mom az l t a b c d β).2, ?_, ?_, ?_⟩
  · cases az <;> cases l <;> cases t <;> rfl
  · cases az <;> cases l <;> cases t <;> exact ⟨by simp [mk4, retAz, retLon, retTmp, lorentz_boostX_beta.ret], rfl⟩
  · rw [denote_mk4, hi]; rfl

/-- **`boostY(beta=β)` (also positional `boostY(β)`) on a 4D vector in every storage**: the result is Cartesian
with the temporal storage of `v` and denotes the generated Cartesian kernel `bYβ` (Props/C09) applied to `denote v`; for a
τ-stored `v` (where the stored τ is passed through) the parameter must be physical -/
theorem c09m_boostY_beta (K : Consts ℝ) (A : Arith ℝ) (v : Vec ℝ) (hv : WFV v) (hd : v.ty.dim = 4) (hc : BoostOK v)
    (β : ℝ) (hβ : v.ty.tmp = some .tau → |β| < 1) :
    ∃ w, call evR K A "boostY" v [.kw "beta" β] = .ok (.vec w) ∧ call evR K A "boostY" v [.sc β] = .ok (.vec w) ∧
      w.ty = { v.ty with az := .xy, lon := some .z } ∧ WFV w ∧ denote w = (denote v).map (on4 (bYβ β)) := by
  obtain ⟨be, mom, az, l, t, a, b, c, d, rfl⟩ := wfv4 hv hd
  obtain ⟨h1, h2, h3⟩ := hc
  have hi := refine_lorentz_boostY_beta_cart az l t β a b c d h1 h2 h3 (fun e => hβ (by rw [e]))
  refine ⟨_, (boostY_beta_eval K A be mom az l t a b c d β).1, (boostY_beta_eval K A be mom az l t a b c d β).2, ?_, ?_, ?_⟩
  · cases az <;> cases l <;> cases t <;> rfl
  · cases az <;> cases l <;> cases t <;> exact ⟨by simp [mk4, retAz, retLon, retTmp, lorentz_boostY_beta.ret], rfl⟩
  · rw [denote_mk4, hi]; rfl

/-- **`boostZ(beta=β)` (also positional `boostZ(β)`) on a 4D vector in every storage**: the result is azimuthally as `v`, longitudinally Cartesian
with the temporal storage of `v` and denotes the generated Cartesian kernel `bZβ` (Props/C09) applied to `denote v`; for a
τ-stored `v` (where the stored τ is passed through) the parameter must be physical -/
theorem c09m_boostZ_beta (K : Consts ℝ) (A : Arith ℝ) (v : Vec ℝ) (hv : WFV v) (hd : v.ty.dim = 4) (hc : BoostOK v)
    (β : ℝ) (hβ : v.ty.tmp = some .tau → |β| < 1) :
    ∃ w, call evR K A "boostZ" v [.kw "beta" β] = .ok (.vec w) ∧ call evR K A "boostZ" v [.sc β] = .ok (.vec w) ∧
      w.ty = { v.ty with lon := some .z } ∧ WFV w ∧ denote w = (denote v).map (on4 (bZβ β)) := by
  obtain ⟨be, mom, az, l, t, a, b, c, d, rfl⟩ := wfv4 hv hd
  obtain ⟨h1, h2, h3⟩ := hc
  have hi := refine_lorentz_boostZ_beta_cart az l t β a b c d h1 h2 h3 (fun e => hβ (by rw [e]))
  refine ⟨_, (boostZ_beta_eval K A be mom az l t a b c d β).1, (boostZ_beta_eval K A be mom az l t a b c d β).2, ?_, ?_, ?_⟩
  · cases az <;> cases l <;> cases t <;> rfl
  · cases az <;> cases l <;> cases t <;> exact ⟨by simp [mk4, retAz, retLon, retTmp, lorentz_boostZ_beta.ret], rfl⟩
  · rw [denote_mk4, hi]; rfl

/-- **`boostX(gamma=γ)` on a 4D vector in every storage**: the result is Cartesian
with the temporal storage of `v` and denotes the generated Cartesian kernel `bXγ` (Props/C09) applied to `denote v`; for a
τ-stored `v` (where the stored τ is passed through) the parameter must be physical -/
theorem c09m_boostX_gamma (K : Consts ℝ) (A : Arith ℝ) (v : Vec ℝ) (hv : WFV v) (hd : v.ty.dim = 4) (hc : BoostOK v)
    (β : ℝ) (hβ : v.ty.tmp = some .tau → 1 ≤ |β|) :
    ∃ w, call evR K A "boostX" v [.kw "gamma" β] = .ok (.vec w) ∧
      w.ty = { v.ty with az := .xy, lon := some .z } ∧ WFV w ∧ denote w = (denote v).map (on4 (bXγ β)) := by
  obtain ⟨be, mom, az, l, t, a, b, c, d, rfl⟩ := wfv4 hv hd
  obtain ⟨h1, h2, h3⟩ := hc
  have hi := refine_lorentz_boostX_gamma_cart az l t β a b c d h1 h2 h3 (fun e => hβ (by rw [e]))
  refine ⟨_, boostX_gamma_eval K A be mom az l t a b c d β, ?_, ?_, ?_⟩
  · cases az <;> cases l <;> cases t <;> rfl
  · cases az <;> cases l <;> cases t <;> exact ⟨by simp [mk4, retAz, retLon, retTmp, lorentz_boostX_gamma.ret], rfl⟩
  · rw [denote_mk4, hi]; rfl

/-- **`boostY(gamma=γ)` on a 4D vector in every storage**: the result is Cartesian
with the temporal storage of `v` and denotes the generated Cartesian kernel `bYγ` (Props/C09) applied to `denote v`; for a
τ-stored `v` (where the stored τ is passed through) the parameter must be physical -/
theorem c09m_boostY_gamma (K : Consts ℝ) (A : Arith ℝ) (v : Vec ℝ) (hv : WFV v) (hd : v.ty.dim = 4) (hc : BoostOK v)
    (β : ℝ) (hβ : v.ty.tmp = some .tau → 1 ≤ |β|) :
    ∃ w, call evR K A "boostY" v [.kw "gamma" β] = .ok (.vec w) ∧
      w.ty = { v.ty with az := .xy, lon := some .z } ∧ WFV w ∧ denote w = (denote v).map (on4 (bYγ β)) := by
  obtain ⟨be, mom, az, l, t, a, b, c, d, rfl⟩ := wfv4 hv hd
  obtain ⟨h1, h2, h3⟩ := hc
  have hi := refine_lorentz_boostY_gamma_cart az l t β a b c d h1 h2 h3 (fun e => hβ (by rw [e]))
  refine ⟨_, boostY_gamma_eval K A be mom az l t a b c d β, ?_, ?_, ?_⟩
  · cases az <;> cases l <;> cases t <;> rfl
  · cases az <;> cases l <;> cases t <;> exact ⟨by simp [mk4, retAz, retLon, retTmp, lorentz_boostY_gamma.ret], rfl⟩
  · rw [denote_mk4, hi]; rfl

/-- **`boostZ(gamma=γ)` on a 4D vector in every storage**: the result is azimuthally as `v`, longitudinally Cartesian
with the temporal storage of `v` and denotes the generated Cartesian kernel `bZγ` (Props/C09) applied to `denote v`; for a
τ-stored `v` (where the stored τ is passed through) the parameter must be physical -/
theorem c09m_boostZ_gamma (K : Consts ℝ) (A : Arith ℝ) (v : Vec ℝ) (hv : WFV v) (hd : v.ty.dim = 4) (hc : BoostOK v)
    (β : ℝ) (hβ : v.ty.tmp = some .tau → 1 ≤ |β|) :
    ∃ w, call evR K A "boostZ" v [.kw "gamma" β] = .ok (.vec w) ∧
      w.ty = { v.ty with lon := some .z } ∧ WFV w ∧ denote w = (denote v).map (on4 (bZγ β)) := by
  obtain ⟨be, mom, az, l, t, a, b, c, d, rfl⟩ := wfv4 hv hd
  obtain ⟨h1, h2, h3⟩ := hc
  have hi := refine_lorentz_boostZ_gamma_cart az l t β a b c d h1 h2 h3 (fun e => hβ (by rw [e]))
  refine ⟨_, boostZ_gamma_eval K A be mom az l t a b c d β, ?_, ?_, ?_⟩
  · cases az <;> cases l <;> cases t <;> rfl
  · cases az <;> cases l <;> cases t <;> exact ⟨by simp [mk4, retAz, retLon, retTmp, lorentz_boostZ_gamma.ret], rfl⟩
  · rw [denote_mk4, hi]; rfl

/-! ### 3. `boost_p4`, `boost_beta3`, `boost` -/

/-- generic `dispatch` of a module with key shape `(az, lon, tmp, az, lon, tmp)` on two 4D operands, for ANY compute layer:
one call of the compute layer with the concatenated keys / coordinates; handler = operand of higher backend priority
(first wins ties), flavor = momentum if either operand is -/
theorem dispatch_44 {S B : Type} (ev : Ev S B) (m : ModuleId) (hm : operandSlots m.info.shape = [3, 3])
    (be mom az l t) (a b c d : S) (be' mom' az' l' t') (a' b' c' d' : S) :
    dispatch ev m [] none [⟨⟨be, mom, az, some l, some t⟩, [a, b, c, d]⟩, ⟨⟨be', mom', az', some l', some t'⟩, [a', b', c', d']⟩]
      [⟨⟨be, mom, az, some l, some t⟩, [a, b, c, d]⟩, ⟨⟨be', mom', az', some l', some t'⟩, [a', b', c', d']⟩] =
      match ev m [.az az, .lon l, .tmp t, .az az', .lon l', .tmp t'] [a, b, c, d, a', b', c', d'] with
      | none => .error .typeError
      | some (out, ret) =>
        wrapResult (if be'.prio > be.prio then ⟨⟨be', mom', az', some l', some t'⟩, [a', b', c', d']⟩
            else ⟨⟨be, mom, az, some l, some t⟩, [a, b, c, d]⟩)
          (if be'.prio > be.prio then be' else be) (mom || mom') out ret := by
  simp only [dispatch, hm]
  rcases hE : ev m [.az az, .lon l, .tmp t, .az az', .lon l', .tmp t'] [a, b, c, d, a', b', c', d'] with _ | ⟨out, ret⟩
  · simp [operandKey, Vec.azEl, Vec.lonEl, Vec.tmpEl, hE]
  · by_cases h : be.prio < be'.prio <;> simp [operandKey, Vec.azEl, Vec.lonEl, Vec.tmpEl, handlerOf, hE, h]

/-- the same for key shape `(az, lon, tmp, az, lon)`: a 4D and a 3D operand -/
theorem dispatch_43 {S B : Type} (ev : Ev S B) (m : ModuleId) (hm : operandSlots m.info.shape = [3, 2])
    (be mom az l t) (a b c d : S) (be' mom' az' l') (a' b' c' : S) :
    dispatch ev m [] none [⟨⟨be, mom, az, some l, some t⟩, [a, b, c, d]⟩, ⟨⟨be', mom', az', some l', none⟩, [a', b', c']⟩]
      [⟨⟨be, mom, az, some l, some t⟩, [a, b, c, d]⟩, ⟨⟨be', mom', az', some l', none⟩, [a', b', c']⟩] =
      match ev m [.az az, .lon l, .tmp t, .az az', .lon l'] [a, b, c, d, a', b', c'] with
      | none => .error .typeError
      | some (out, ret) =>
        wrapResult (if be'.prio > be.prio then ⟨⟨be', mom', az', some l', none⟩, [a', b', c']⟩
            else ⟨⟨be, mom, az, some l, some t⟩, [a, b, c, d]⟩)
          (if be'.prio > be.prio then be' else be) (mom || mom') out ret := by
  simp only [dispatch, hm]
  rcases hE : ev m [.az az, .lon l, .tmp t, .az az', .lon l'] [a, b, c, d, a', b', c'] with _ | ⟨out, ret⟩
  · simp [operandKey, Vec.azEl, Vec.lonEl, Vec.tmpEl, hE]
  · by_cases h : be.prio < be'.prio <;> simp [operandKey, Vec.azEl, Vec.lonEl, Vec.tmpEl, handlerOf, hE, h]

theorem ret_boost_p4 (k0 k1 k2 k3 k4 k5) :
    lorentz_boost_p4.ret k0 k1 k2 k3 k4 k5 = .vec [.az .xy, .lon .z, .tmp k2] := by
  cases k0 <;> cases k1 <;> cases k2 <;> cases k3 <;> cases k4 <;> cases k5 <;> rfl

theorem ret_boost_beta3 (k0 k1 k2 k3 k4) : lorentz_boost_beta3.ret k0 k1 k2 k3 k4 = .vec [.az .xy, .lon .z, .tmp k2] := by
  cases k0 <;> cases k1 <;> cases k2 <;> cases k3 <;> cases k4 <;> rfl

theorem evR_boost_p4 (az l t az' l' t') (a b c d a' b' c' d' : ℝ) :
    evR .lorentz_boost_p4 [.az az, .lon l, .tmp t, .az az', .lon l', .tmp t'] [a, b, c, d, a', b', c', d'] =
      some (Out.vals (l4 (lorentz_boost_p4.eval az l t az' l' t' a b c d a' b' c' d')), .vec [.az .xy, .lon .z, .tmp t]) := by
  rw [← ret_boost_p4 az l t az' l' t']; rfl

theorem evR_boost_beta3 (az l t az' l') (a b c d a' b' c' : ℝ) :
    evR .lorentz_boost_beta3 [.az az, .lon l, .tmp t, .az az', .lon l'] [a, b, c, d, a', b', c'] =
      some (Out.vals (l4 (lorentz_boost_beta3.eval az l t az' l' a b c d a' b' c')), .vec [.az .xy, .lon .z, .tmp t]) := by
  rw [← ret_boost_beta3 az l t az' l']; rfl

theorem call_boost_p4 {S B : Type} (ev : Ev S B) (K : Consts S) (A : Arith S) (v o : Vec S) :
    call ev K A "boost_p4" v [.v o] =
      if v.ty.dim < 4 then .error .attributeError else
      if o.ty.dim != 4 then .error .typeError else dispatch ev .lorentz_boost_p4 [] none [v, o] [v, o] := rfl

theorem call_boost_beta3 {S B : Type} (ev : Ev S B) (K : Consts S) (A : Arith S) (v o : Vec S) :
    call ev K A "boost_beta3" v [.v o] =
      if v.ty.dim < 4 then .error .attributeError else
      if o.ty.dim != 3 then .error .typeError else dispatch ev .lorentz_boost_beta3 [] none [v, o] [v, o] := rfl

theorem call_boost {S B : Type} (ev : Ev S B) (K : Consts S) (A : Arith S) (v o : Vec S) :
    call ev K A "boost" v [.v o] =
      if v.ty.dim < 4 then .error .attributeError else
      if o.ty.dim == 3 then dispatch ev .lorentz_boost_beta3 [] none [v, o] [v, o]
      else if o.ty.dim == 4 then dispatch ev .lorentz_boost_p4 [] none [v, o] [v, o]
      else .error .typeError := rfl

/-- the handler backend of a binary method -/
def hbe (be be' : Backend) : Backend := if be'.prio > be.prio then be' else be

theorem boost_p4_eval (K : Consts ℝ) (A : Arith ℝ) (be mom az l t) (a b c d : ℝ) (be' mom' az' l' t') (a' b' c' d' : ℝ) :
    call evR K A "boost_p4" ⟨⟨be, mom, az, some l, some t⟩, [a, b, c, d]⟩ [.v ⟨⟨be', mom', az', some l', some t'⟩, [a', b', c', d']⟩] =
      .ok (.vec ⟨⟨hbe be be', mom || mom', .xy, some .z, some t⟩,
        l4 (lorentz_boost_p4.eval az l t az' l' t' a b c d a' b' c' d')⟩) := by
  rw [call_boost_p4, if_neg (by simp [VT.dim]), if_neg (by simp [VT.dim]), dispatch_44 _ _ rfl, evR_boost_p4]
  rfl

theorem boost_beta3_eval (K : Consts ℝ) (A : Arith ℝ) (be mom az l t) (a b c d : ℝ) (be' mom' az' l') (a' b' c' : ℝ) :
    call evR K A "boost_beta3" ⟨⟨be, mom, az, some l, some t⟩, [a, b, c, d]⟩ [.v ⟨⟨be', mom', az', some l', none⟩, [a', b', c']⟩] =
      .ok (.vec ⟨⟨hbe be be', mom || mom', .xy, some .z, some t⟩,
        l4 (lorentz_boost_beta3.eval az l t az' l' a b c d a' b' c')⟩) := by
  rw [call_boost_beta3, if_neg (by simp [VT.dim]), if_neg (by simp [VT.dim]), dispatch_43 _ _ rfl, evR_boost_beta3]
  rfl

/-- **`boost_p4` on a 4D vector by a 4D vector, both in every storage**: the result is Cartesian with the temporal storage of
`v`, backend of the handler, momentum if either operand is, and denotes the generated Cartesian kernel `bp4` (Props/C09)
applied to the denotations; for a τ-stored `v` (whose stored τ is passed through) the booster must be a physical momentum
(time-like, positive energy) -/
theorem c09m_boost_p4 (K : Consts ℝ) (A : Arith ℝ) (v p : Vec ℝ) (hv : WFV v) (hd : v.ty.dim = 4) (hp : WFV p)
    (hdp : p.ty.dim = 4) (hc : Stored4 (fun _ l t _ _ c d => TanOK l c ∧ CanonTmp t d) v) (hcp : BoostOK p)
    (x y z t px py pz E : ℝ) (h : denote v = some [x, y, z, t]) (h' : denote p = some [px, py, pz, E])
    (hphys : v.ty.tmp = some .tau → px ^ 2 + py ^ 2 + pz ^ 2 < E ^ 2 ∧ 0 < E) :
    ∃ w, call evR K A "boost_p4" v [.v p] = .ok (.vec w) ∧
      w.ty = ⟨hbe v.ty.be p.ty.be, v.ty.mom || p.ty.mom, .xy, some .z, v.ty.tmp⟩ ∧ WFV w ∧
      denote w = some (l4 (bp4 (x, y, z, t) (px, py, pz, E))) := by
  obtain ⟨be, mom, az, l, t0, a, b, c, d, rfl⟩ := wfv4 hv hd
  obtain ⟨be', mom', az', l', t', a', b', c', d', rfl⟩ := wfv4 hp hdp
  simp only [denote, Option.some.injEq, List.cons.injEq, and_true] at h h'
  obtain ⟨rfl, rfl, rfl, rfl⟩ := h
  obtain ⟨rfl, rfl, rfl, rfl⟩ := h'
  have hi := refine_lorentz_boost_p4_cart az l t0 az' l' t' a b c d a' b' c' d' hc.1 hcp.1 hcp.2.1 hc.2 hcp.2.2
    (fun e => ⟨sub_pos.mpr (hphys (by rw [e])).1, (hphys (by rw [e])).2⟩)
  rw [ret_boost_p4] at hi
  exact ⟨_, boost_p4_eval K A be mom az l t0 a b c d be' mom' az' l' t' a' b' c' d', rfl, ⟨by simp, rfl⟩,
    congrArg (Option.map l4) hi⟩

/-- **`boost_beta3` on a 4D vector by a 3D velocity, both in every storage**; for a τ-stored `v` the velocity must be
subluminal -/
theorem c09m_boost_beta3 (K : Consts ℝ) (A : Arith ℝ) (v p : Vec ℝ) (hv : WFV v) (hd : v.ty.dim = 4) (hp : WFV p)
    (hdp : p.ty.dim = 3) (hc : Stored4 (fun _ l t _ _ c d => TanOK l c ∧ CanonTmp t d) v)
    (hcp : Stored3 (fun _ l _ _ c => TanOK l c) p)
    (x y z t bx by' bz : ℝ) (h : denote v = some [x, y, z, t]) (h' : denote p = some [bx, by', bz])
    (hphys : v.ty.tmp = some .tau → bx ^ 2 + by' ^ 2 + bz ^ 2 < 1) :
    ∃ w, call evR K A "boost_beta3" v [.v p] = .ok (.vec w) ∧
      w.ty = ⟨hbe v.ty.be p.ty.be, v.ty.mom || p.ty.mom, .xy, some .z, v.ty.tmp⟩ ∧ WFV w ∧
      denote w = some (l4 (bβ3 (x, y, z, t) (bx, by', bz))) := by
  obtain ⟨be, mom, az, l, t0, a, b, c, d, rfl⟩ := wfv4 hv hd
  rcases wfv_cases hp with ⟨be', mom', az', a', b', rfl⟩ | ⟨be', mom', az', l', a', b', c', rfl⟩ |
    ⟨be', mom', az', l', t', a', b', c', d', rfl⟩
  · simp [VT.dim] at hdp
  · simp only [denote, Option.some.injEq, List.cons.injEq, and_true] at h h'
    obtain ⟨rfl, rfl, rfl, rfl⟩ := h
    obtain ⟨rfl, rfl, rfl⟩ := h'
    have hi := refine_lorentz_boost_beta3_cart az l t0 az' l' a b c d a' b' c' hc.1 hcp hc.2
      (fun e => hphys (by rw [e]))
    rw [ret_boost_beta3] at hi
    exact ⟨_, boost_beta3_eval K A be mom az l t0 a b c d be' mom' az' l' a' b' c', rfl, ⟨by simp, rfl⟩,
      congrArg (Option.map l4) hi⟩
  · simp [VT.dim] at hdp

/-- **`boost` dispatches on the dimension of its argument** — for ALL operands and any compute layer -/
theorem c09m_boost_dispatch {S B : Type} (ev : Ev S B) (K : Consts S) (A : Arith S) (v b : Vec S) :
    (b.ty.dim = 3 → call ev K A "boost" v [.v b] = call ev K A "boost_beta3" v [.v b]) ∧
    (b.ty.dim = 4 → call ev K A "boost" v [.v b] = call ev K A "boost_p4" v [.v b]) ∧
    (b.ty.dim = 2 → call ev K A "boost" v [.v b] =
      if v.ty.dim < 4 then .error .attributeError else .error .typeError) := by
  rw [call_boost, call_boost_beta3, call_boost_p4]
  refine ⟨fun h => ?_, fun h => ?_, fun h => ?_⟩ <;> simp [h]

/-- **Lorentz invariance at method level**: two 4D vectors in ANY two storages, boosted by the same subluminal 3D velocity
(in any storage): the Minkowski product of the denotations of the results equals that of the originals -/
theorem c09m_boost_mdot (K : Consts ℝ) (A : Arith ℝ) (v₁ v₂ p : Vec ℝ) (hv₁ : WFV v₁) (hd₁ : v₁.ty.dim = 4)
    (hv₂ : WFV v₂) (hd₂ : v₂.ty.dim = 4) (hp : WFV p) (hdp : p.ty.dim = 3)
    (hc₁ : Stored4 (fun _ l t _ _ c d => TanOK l c ∧ CanonTmp t d) v₁)
    (hc₂ : Stored4 (fun _ l t _ _ c d => TanOK l c ∧ CanonTmp t d) v₂)
    (hcp : Stored3 (fun _ l _ _ c => TanOK l c) p) (X₁ X₂ : V4) (β : V3)
    (h₁ : denote v₁ = some (l4 X₁)) (h₂ : denote v₂ = some (l4 X₂)) (h' : denote p = some [β.1, β.2.1, β.2.2])
    (hβ : β.1 ^ 2 + β.2.1 ^ 2 + β.2.2 ^ 2 < 1) :
    ∃ w₁ w₂ Y₁ Y₂, call evR K A "boost" v₁ [.v p] = .ok (.vec w₁) ∧ call evR K A "boost" v₂ [.v p] = .ok (.vec w₂) ∧
      denote w₁ = some (l4 Y₁) ∧ denote w₂ = some (l4 Y₂) ∧ VR.mdot Y₁ Y₂ = VR.mdot X₁ X₂ := by
  obtain ⟨w₁, e₁, -, -, d₁⟩ := c09m_boost_beta3 K A v₁ p hv₁ hd₁ hp hdp hc₁ hcp _ _ _ _ _ _ _ h₁ h' (fun _ => hβ)
  obtain ⟨w₂, e₂, -, -, d₂⟩ := c09m_boost_beta3 K A v₂ p hv₂ hd₂ hp hdp hc₂ hcp _ _ _ _ _ _ _ h₂ h' (fun _ => hβ)
  refine ⟨w₁, w₂, _, _, ?_, ?_, d₁, d₂, c09_boost_beta3_mdot X₁ X₂ β hβ⟩
  · rw [(c09m_boost_dispatch evR K A v₁ p).1 hdp, e₁]
  · rw [(c09m_boost_dispatch evR K A v₂ p).1 hdp, e₂]

/-! ### 4. `to_beta3` -/

def l3 (p : ℝ × ℝ × ℝ) : List ℝ := [p.1, p.2.1, p.2.2]

/-- the vector `_wrap_result` builds from a declared 3D result type `(az, lon, None)` and a raw triple -/
def mk3 (be : Backend) (mom : Bool) (ret : Ret) (r : ℝ × ℝ × ℝ) : Vec ℝ :=
  match retAz ret, retLon ret with
  | some a, some l => ⟨⟨be, mom, a, some l, none⟩, [r.1, r.2.1, r.2.2]⟩
  | _, _ => ⟨⟨be, mom, .xy, none, none⟩, []⟩

theorem denote_mk3 (be : Backend) (mom : Bool) (ret : Ret) (r : ℝ × ℝ × ℝ) :
    denote (mk3 be mom ret r) = (interp3 ret r).map l3 := by
  unfold mk3 interp3
  cases retAz ret <;> cases retLon ret <;> rfl

theorem to_beta3_eval (K : Consts ℝ) (A : Arith ℝ) (be mom az l t) (a b c d : ℝ) :
    call evR K A "to_beta3" ⟨⟨be, mom, az, some l, some t⟩, [a, b, c, d]⟩ [] =
      .ok (.vec (mk3 be mom (lorentz_to_beta3.ret az l t) (lorentz_to_beta3.eval az l t a b c d))) := by
  cases az <;> cases l <;> cases t <;> cases mom <;> rfl

/-- **`to_beta3` on a 4D vector in every storage**: a 3D vector in the spatial storage of `v`, same backend and flavor,
denoting `(x/t, y/t, z/t)`. Needs `t ≠ 0`, and `0 < t` for the storages `(x, y, θ)` and `(x, y, η)`, which divide `x, y` by `t`
but keep θ/η (known finding `to_beta3:t<0`) -/
theorem c09m_to_beta3 (K : Consts ℝ) (A : Arith ℝ) (v : Vec ℝ) (hv : WFV v)
    (hc : Stored4 (fun k l t a b c d => CanonLon k l a b c ∧ CanonTmp t d) v) (x y z t : ℝ)
    (h : denote v = some [x, y, z, t]) (ht : t ≠ 0) (hpos : v.ty.az = .xy → v.ty.lon = some .z ∨ 0 < t) :
    ∃ w, call evR K A "to_beta3" v [] = .ok (.vec w) ∧ w.ty = { v.ty with tmp := none } ∧ WFV w ∧
      denote w = some [x / t, y / t, z / t] := by
  obtain ⟨hd, -⟩ := denote_lorentz hv h
  obtain ⟨be, mom, az, l, t0, a, b, c, d, rfl⟩ := wfv4 hv hd
  simp only [denote, Option.some.injEq, List.cons.injEq, and_true] at h
  obtain ⟨rfl, rfl, rfl, rfl⟩ := h
  have hi := refine_lorentz_to_beta3_ne_zero az l t0 a b c d hc.1 hc.2 ht
    (fun e => (hpos e).imp (fun h => Option.some.inj h) id)
  refine ⟨_, to_beta3_eval K A be mom az l t0 a b c d, ?_, ?_, ?_⟩
  · cases az <;> cases l <;> cases t0 <;> rfl
  · cases az <;> cases l <;> cases t0 <;> exact ⟨by simp [mk3, retAz, retLon, lorentz_to_beta3.ret], rfl⟩
  · rw [denote_mk3, hi]; rfl

/-- under `0 < t` no distinction between storages is needed -/
theorem c09m_to_beta3_pos (K : Consts ℝ) (A : Arith ℝ) (v : Vec ℝ) (hv : WFV v)
    (hc : Stored4 (fun k l t a b c d => CanonLon k l a b c ∧ CanonTmp t d) v) (x y z t : ℝ)
    (h : denote v = some [x, y, z, t]) (ht : 0 < t) :
    ∃ w, call evR K A "to_beta3" v [] = .ok (.vec w) ∧ w.ty = { v.ty with tmp := none } ∧ WFV w ∧
      denote w = some [x / t, y / t, z / t] :=
  c09m_to_beta3 K A v hv hc x y z t h ht.ne' (fun _ => Or.inr ht)

/-! ### 5. `is_timelike`, `is_spacelike`, `is_lightlike` -/

theorem is_timelike_eval (K : Consts ℝ) (A : Arith ℝ) (be mom az l t) (a b c d s : ℝ) :
    call evR K A "is_timelike" ⟨⟨be, mom, az, some l, some t⟩, [a, b, c, d]⟩ [.sc s] =
      .ok (.truth (lorentz_is_timelike.eval az l t s a b c d)) ∧
    call evR K A "is_timelike" ⟨⟨be, mom, az, some l, some t⟩, [a, b, c, d]⟩ [] =
      .ok (.truth (lorentz_is_timelike.eval az l t K.zeroI a b c d)) := by
  cases az <;> cases l <;> cases t <;> exact ⟨rfl, rfl⟩

theorem is_spacelike_eval (K : Consts ℝ) (A : Arith ℝ) (be mom az l t) (a b c d s : ℝ) :
    call evR K A "is_spacelike" ⟨⟨be, mom, az, some l, some t⟩, [a, b, c, d]⟩ [.sc s] =
      .ok (.truth (lorentz_is_spacelike.eval az l t s a b c d)) ∧
    call evR K A "is_spacelike" ⟨⟨be, mom, az, some l, some t⟩, [a, b, c, d]⟩ [] =
      .ok (.truth (lorentz_is_spacelike.eval az l t K.zeroI a b c d)) := by
  cases az <;> cases l <;> cases t <;> exact ⟨rfl, rfl⟩

theorem is_lightlike_eval (K : Consts ℝ) (A : Arith ℝ) (be mom az l t) (a b c d s : ℝ) :
    call evR K A "is_lightlike" ⟨⟨be, mom, az, some l, some t⟩, [a, b, c, d]⟩ [.sc s] =
      .ok (.truth (lorentz_is_lightlike.eval az l t s a b c d)) ∧
    call evR K A "is_lightlike" ⟨⟨be, mom, az, some l, some t⟩, [a, b, c, d]⟩ [] =
      .ok (.truth (lorentz_is_lightlike.eval az l t K.tol a b c d)) := by
  cases az <;> cases l <;> cases t <;> exact ⟨rfl, rfl⟩

/-- the Minkowski self-product every predicate thresholds, on the denotation -/
theorem dot_self_denote (az : Az) (l : Lon) (t : Tmp) (a b c d : ℝ) (h1 : TanOK l c) (h2 : SinOK l c)
    (h3 : CanonTmp t d) :
    lorentz_dot.eval az l t az l t a b c d a b c d
      = tOf az l t a b c d ^ 2 - (xOf az a b ^ 2 + yOf az a b ^ 2 + zOf az l a b c ^ 2) := by
  rw [refine_lorentz_dot az l t az l t a b c d a b c d h1 h1 h2 h2 h3 h3]
  simp only [Spec.mdot, Spec.cart4]; ring

/-- **the causal predicates on a 4D vector in every storage** are the documented sign tests of `s = t² − x² − y² − z²` of
the denotation: `is_timelike(tol)` ⇔ `s > |tol|`, `is_spacelike(tol)` ⇔ `s < −|tol|`, `is_lightlike(tol)` ⇔ `|s| < |tol|`;
default tolerances `0`, `0`, `1e-5` (`K.zeroI`, `K.zeroI`, `K.tol`) -/
theorem c09m_causal (K : Consts ℝ) (A : Arith ℝ) (v : Vec ℝ) (hv : WFV v) (hc : BoostOK v) (x y z t : ℝ)
    (h : denote v = some [x, y, z, t]) (tol : ℝ) :
    call evR K A "is_timelike" v [.sc tol] = .ok (.truth (t ^ 2 - (x ^ 2 + y ^ 2 + z ^ 2) > |tol|)) ∧
    call evR K A "is_timelike" v [] = .ok (.truth (t ^ 2 - (x ^ 2 + y ^ 2 + z ^ 2) > |K.zeroI|)) ∧
    call evR K A "is_spacelike" v [.sc tol] = .ok (.truth (t ^ 2 - (x ^ 2 + y ^ 2 + z ^ 2) < -|tol|)) ∧
    call evR K A "is_spacelike" v [] = .ok (.truth (t ^ 2 - (x ^ 2 + y ^ 2 + z ^ 2) < -|K.zeroI|)) ∧
    call evR K A "is_lightlike" v [.sc tol] = .ok (.truth (|t ^ 2 - (x ^ 2 + y ^ 2 + z ^ 2)| < |tol|)) ∧
    call evR K A "is_lightlike" v [] = .ok (.truth (|t ^ 2 - (x ^ 2 + y ^ 2 + z ^ 2)| < |K.tol|)) := by
  obtain ⟨hd, -⟩ := denote_lorentz hv h
  obtain ⟨be, mom, az, l, t0, a, b, c, d, rfl⟩ := wfv4 hv hd
  simp only [denote, Option.some.injEq, List.cons.injEq, and_true] at h
  obtain ⟨rfl, rfl, rfl, rfl⟩ := h
  have hdot := dot_self_denote az l t0 a b c d hc.1 hc.2.1 hc.2.2
  have e1 : ∀ s, lorentz_is_timelike.eval az l t0 s a b c d = (tOf az l t0 a b c d ^ 2 - (xOf az a b ^ 2 + yOf az a b ^ 2 + zOf az l a b c ^ 2) > |s|) :=
    fun s => propext (by rw [c13_is_timelike_iff_dot, hdot])
  have e2 : ∀ s, lorentz_is_spacelike.eval az l t0 s a b c d = (tOf az l t0 a b c d ^ 2 - (xOf az a b ^ 2 + yOf az a b ^ 2 + zOf az l a b c ^ 2) < -|s|) :=
    fun s => propext (by rw [c13_is_spacelike_iff_dot, hdot])
  have e3 : ∀ s, lorentz_is_lightlike.eval az l t0 s a b c d = (|tOf az l t0 a b c d ^ 2 - (xOf az a b ^ 2 + yOf az a b ^ 2 + zOf az l a b c ^ 2)| < |s|) :=
    fun s => propext (by rw [c13_is_lightlike_iff_dot, hdot])
  refine ⟨?_, ?_, ?_, ?_, ?_, ?_⟩
  · rw [(is_timelike_eval K A be mom az l t0 a b c d tol).1, e1]
  · rw [(is_timelike_eval K A be mom az l t0 a b c d tol).2, e1]
  · rw [(is_spacelike_eval K A be mom az l t0 a b c d tol).1, e2]
  · rw [(is_spacelike_eval K A be mom az l t0 a b c d tol).2, e2]
  · rw [(is_lightlike_eval K A be mom az l t0 a b c d tol).1, e3]
  · rw [(is_lightlike_eval K A be mom az l t0 a b c d tol).2, e3]

/-! ### 6. dimension guards — for ALL operands and any compute layer -/

/-- how the unary Lorentz methods parse: dimension guard, then `dispatch` of one module -/
theorem call_unary4 {S B : Type} (ev : Ev S B) (K : Consts S) (A : Arith S) (v : Vec S) (s : S) :
    let g (m : ModuleId) (sc : List S) : Except Err (Res S B) :=
      if v.ty.dim < 4 then .error .attributeError else dispatch ev m sc none [v] [v]
    call ev K A "boostX" v [.kw "beta" s] = g .lorentz_boostX_beta [s] ∧
    call ev K A "boostY" v [.kw "beta" s] = g .lorentz_boostY_beta [s] ∧
    call ev K A "boostZ" v [.kw "beta" s] = g .lorentz_boostZ_beta [s] ∧
    call ev K A "boostX" v [.kw "gamma" s] = g .lorentz_boostX_gamma [s] ∧
    call ev K A "boostY" v [.kw "gamma" s] = g .lorentz_boostY_gamma [s] ∧
    call ev K A "boostZ" v [.kw "gamma" s] = g .lorentz_boostZ_gamma [s] ∧
    call ev K A "boostX" v [.sc s] = g .lorentz_boostX_beta [s] ∧
    call ev K A "boostY" v [.sc s] = g .lorentz_boostY_beta [s] ∧
    call ev K A "boostZ" v [.sc s] = g .lorentz_boostZ_beta [s] ∧
    call ev K A "to_beta3" v [] = g .lorentz_to_beta3 [] ∧
    call ev K A "is_timelike" v [] = g .lorentz_is_timelike [K.zeroI] ∧
    call ev K A "is_spacelike" v [] = g .lorentz_is_spacelike [K.zeroI] ∧
    call ev K A "is_lightlike" v [] = g .lorentz_is_lightlike [K.tol] ∧
    call ev K A "is_timelike" v [.sc s] = g .lorentz_is_timelike [s] ∧
    call ev K A "is_spacelike" v [.sc s] = g .lorentz_is_spacelike [s] ∧
    call ev K A "is_lightlike" v [.sc s] = g .lorentz_is_lightlike [s] :=
  ⟨rfl, rfl, rfl, rfl, rfl, rfl, rfl, rfl, rfl, rfl, rfl, rfl, rfl, rfl, rfl, rfl⟩

/-- how the `boostCM_of…` methods parse: guards, then `neg3D` of the booster, then the boost -/
theorem call_boostCM {S B : Type} (ev : Ev S B) (K : Consts S) (A : Arith S) (v o : Vec S) :
    let g (bad : Bool) : Except Err (Res S B) :=
      if v.ty.dim < 4 then .error .attributeError else
      if bad || (o.ty.dim != 3 && o.ty.dim != 4) then .error .typeError else
      match negN ev K 3 o with
      | .ok (.vec n) =>
        dispatch ev (if o.ty.dim == 4 then .lorentz_boost_p4 else .lorentz_boost_beta3) [] none [v, n] [v, n]
      | .ok _ => .error .assertionError
      | .error e => .error e
    call ev K A "boostCM_of_p4" v [.v o] = g (some 4 != some o.ty.dim) ∧
    call ev K A "boostCM_of_beta3" v [.v o] = g (some 3 != some o.ty.dim) ∧
    call ev K A "boostCM_of" v [.v o] = g false :=
  ⟨rfl, rfl, rfl⟩

/-- **every Lorentz method on a 2D/3D `self` raises `AttributeError`** (whatever the arguments) -/
theorem c09m_dim_guard {S B : Type} (ev : Ev S B) (K : Consts S) (A : Arith S) (v o : Vec S) (s : S)
    (hd : v.ty.dim < 4) :
    (∀ m ∈ ["boost_p4", "boost_beta3", "boost", "boostCM_of_p4", "boostCM_of_beta3", "boostCM_of"],
      call ev K A m v [.v o] = .error .attributeError) ∧
    (∀ m ∈ ["boostX", "boostY", "boostZ"], call ev K A m v [.kw "beta" s] = .error .attributeError ∧
      call ev K A m v [.kw "gamma" s] = .error .attributeError ∧ call ev K A m v [.sc s] = .error .attributeError) ∧
    (∀ m ∈ ["is_timelike", "is_spacelike", "is_lightlike"], call ev K A m v [] = .error .attributeError ∧
      call ev K A m v [.sc s] = .error .attributeError) ∧
    call ev K A "to_beta3" v [] = .error .attributeError := by
  have hu := call_unary4 ev K A v s
  have hc := call_boostCM ev K A v o
  simp only [if_pos hd] at hu hc
  obtain ⟨u1, u2, u3, u4, u5, u6, u7, u8, u9, u10, u11, u12, u13, u14, u15, u16⟩ := hu
  obtain ⟨c1, c2, c3⟩ := hc
  refine ⟨?_, ?_, ?_, u10⟩
  · intro m hm
    simp only [List.mem_cons, List.not_mem_nil, or_false] at hm
    rcases hm with rfl | rfl | rfl | rfl | rfl | rfl
    · rw [call_boost_p4, if_pos hd]
    · rw [call_boost_beta3, if_pos hd]
    · rw [call_boost, if_pos hd]
    · exact c1
    · exact c2
    · exact c3
  · intro m hm
    simp only [List.mem_cons, List.not_mem_nil, or_false] at hm
    rcases hm with rfl | rfl | rfl
    · exact ⟨u1, u4, u7⟩
    · exact ⟨u2, u5, u8⟩
    · exact ⟨u3, u6, u9⟩
  · intro m hm
    simp only [List.mem_cons, List.not_mem_nil, or_false] at hm
    rcases hm with rfl | rfl | rfl
    · exact ⟨u11, u14⟩
    · exact ⟨u12, u15⟩
    · exact ⟨u13, u16⟩

/-- **a booster of the wrong dimension raises `TypeError`** (on a 4D `self`) -/
theorem c09m_booster_guard {S B : Type} (ev : Ev S B) (K : Consts S) (A : Arith S) (v o : Vec S)
    (hd : v.ty.dim = 4) :
    (o.ty.dim ≠ 4 → call ev K A "boost_p4" v [.v o] = .error .typeError ∧
      call ev K A "boostCM_of_p4" v [.v o] = .error .typeError) ∧
    (o.ty.dim ≠ 3 → call ev K A "boost_beta3" v [.v o] = .error .typeError ∧
      call ev K A "boostCM_of_beta3" v [.v o] = .error .typeError) ∧
    (o.ty.dim = 2 → call ev K A "boost" v [.v o] = .error .typeError ∧
      call ev K A "boostCM_of" v [.v o] = .error .typeError) := by
  have hc := call_boostCM ev K A v o
  have hn : ¬ v.ty.dim < 4 := by omega
  simp only [if_neg hn] at hc
  obtain ⟨c1, c2, c3⟩ := hc
  refine ⟨fun h => ⟨?_, ?_⟩, fun h => ⟨?_, ?_⟩, fun h => ⟨?_, ?_⟩⟩
  · rw [call_boost_p4, if_neg hn]; simp [h]
  · rw [c1]; simp [Ne.symm h]
  · rw [call_boost_beta3, if_neg hn]; simp [h]
  · rw [c2]; simp [Ne.symm h]
  · rw [call_boost, if_neg hn]; simp [h]
  · rw [c3]; simp [h]

/-- the boostX/Y/Z methods accept exactly one of `beta=`, `gamma=` or a positional scalar: e.g. both keywords, or none,
raise `TypeError` on a 4D vector -/
example {S B : Type} (ev : Ev S B) (K : Consts S) (A : Arith S) (v : Vec S) (hd : v.ty.dim = 4) (s u : S) :
    call ev K A "boostX" v [.kw "beta" s, .kw "gamma" u] = .error .typeError ∧
    call ev K A "boostZ" v [] = .error .typeError := by
  have hn : ¬ v.ty.dim < 4 := by omega
  constructor
  · show (if v.ty.dim < 4 then _ else _) = _
    rw [if_neg hn]
  · show (if v.ty.dim < 4 then _ else _) = _
    rw [if_neg hn]

/-! ### 3b. `boostCM_of_p4`, `boostCM_of`: `neg3D` of the booster, then `boost_p4` -/

/-- `neg3D` of a 4D vector, evaluated: `spatial.scale(-1)` on the spatial part, the stored temporal coordinate is kept -/
theorem neg3D_eval4 (K : Consts ℝ) (be mom az l t) (a b c d : ℝ) :
    negN evR K 3 ⟨⟨be, mom, az, some l, some t⟩, [a, b, c, d]⟩ =
      .ok (.vec ⟨⟨be, mom, az, some l, some t⟩,
        [(spatial_scale.eval az l K.negOne a b c).1, (spatial_scale.eval az l K.negOne a b c).2.1,
         (spatial_scale.eval az l K.negOne a b c).2.2, d]⟩) := by
  cases az <;> cases l <;> cases mom <;> rfl

/-- the flipped polar angle `|θ − π|` of a negated θ-stored vector still has `tan`, `sin ≠ 0` -/
theorem neg_lon_ok (az : Az) (l : Lon) (a b c : ℝ) (hr : ThetaRange l c) (h1 : TanOK l c) (h2 : SinOK l c) :
    TanOK l (spatial_scale.eval az l (-1) a b c).2.2 ∧ SinOK l (spatial_scale.eval az l (-1) a b c).2.2 := by
  cases l
  · exact ⟨trivial, trivial⟩
  · have e : (spatial_scale.eval az .theta (-1) a b c).2.2 = π - c := by
      have hs : P.sign (-1 : ℝ) = -1 := Real.sign_of_neg (by norm_num)
      have e2 : c + 0.5 * (P.sign (-1 : ℝ) - 1) * π = -(π - c) := by rw [hs]; ring
      have e3 : |c + 0.5 * (P.sign (-1 : ℝ) - 1) * π| = π - c := by
        rw [e2, abs_neg, abs_of_nonneg (sub_nonneg.mpr hr.2)]
      cases az <;> exact e3
    rw [e]
    refine ⟨?_, ?_⟩
    · show cos (π - c) ≠ 0
      rw [cos_pi_sub]; exact neg_ne_zero.mpr h1
    · show sin (π - c) ≠ 0
      rw [sin_pi_sub]; exact h2
  · exact ⟨trivial, trivial⟩

/-- the negated vector denotes `(−x, −y, −z, t)`: for τ storage the kept τ denotes the same `t` because `|p|` is preserved -/
theorem neg_denote (az : Az) (l : Lon) (t : Tmp) (a b c d : ℝ) (hr : ThetaRange l c) :
    Spec.cart4 az l t (spatial_scale.eval az l (-1) a b c).1 (spatial_scale.eval az l (-1) a b c).2.1
        (spatial_scale.eval az l (-1) a b c).2.2 d
      = (-(xOf az a b), -(yOf az a b), -(zOf az l a b c), tOf az l t a b c d) := by
  have h := refine_spatial_scale az l (-1) a b c hr
  generalize spatial_scale.eval az l (-1) a b c = r at h
  have h' : Spec.cart3 az l r.1 r.2.1 r.2.2 = smul3 (-1) (Spec.cart3 az l a b c) := by
    cases az <;> cases l <;> exact Option.some.inj h
  simp only [Spec.cart3, smul3, Prod.mk.injEq] at h'
  obtain ⟨hx, hy, hz⟩ := h'
  have ht : tOf az l t r.1 r.2.1 r.2.2 d = tOf az l t a b c d := by
    cases t
    · simp only [tOf]
    · simp only [tOf, mag2Of, hx, hy, hz]; congr 1; ring
  simp only [Spec.cart4, hx, hy, hz, ht, neg_one_mul]

/-- **`boostCM_of_p4` (and `boostCM_of` with a 4D argument)**: `boost_p4` with the spatial part of the booster negated; the
result denotes `bp4 X (−p⃗, E)` -/
theorem c09m_boostCM_of_p4 (K : Consts ℝ) (A : Arith ℝ) (hK : K.negOne = -1) (v p : Vec ℝ) (hv : WFV v)
    (hd : v.ty.dim = 4) (hp : WFV p) (hdp : p.ty.dim = 4)
    (hc : Stored4 (fun _ l t _ _ c d => TanOK l c ∧ CanonTmp t d) v)
    (hcp : Stored4 (fun _ l t _ _ c d => ThetaRange l c ∧ TanOK l c ∧ SinOK l c ∧ CanonTmp t d) p)
    (x y z t px py pz E : ℝ) (h : denote v = some [x, y, z, t]) (h' : denote p = some [px, py, pz, E])
    (hphys : v.ty.tmp = some .tau → px ^ 2 + py ^ 2 + pz ^ 2 < E ^ 2 ∧ 0 < E) :
    ∃ w, call evR K A "boostCM_of_p4" v [.v p] = .ok (.vec w) ∧ call evR K A "boostCM_of" v [.v p] = .ok (.vec w) ∧
      w.ty = ⟨hbe v.ty.be p.ty.be, v.ty.mom || p.ty.mom, .xy, some .z, v.ty.tmp⟩ ∧ WFV w ∧
      denote w = some (l4 (bp4 (x, y, z, t) (-px, -py, -pz, E))) := by
  obtain ⟨be, mom, az, l, t0, a, b, c, d, rfl⟩ := wfv4 hv hd
  obtain ⟨be', mom', az', l', t', a', b', c', d', rfl⟩ := wfv4 hp hdp
  obtain ⟨hr, h1, h2, h3⟩ := hcp
  have hn := neg3D_eval4 K be' mom' az' l' t' a' b' c' d'
  rw [hK] at hn
  have hcm := call_boostCM evR K A ⟨⟨be, mom, az, some l, some t0⟩, [a, b, c, d]⟩
    ⟨⟨be', mom', az', some l', some t'⟩, [a', b', c', d']⟩
  simp only [hn] at hcm
  have hb := call_boost_p4 evR K A ⟨⟨be, mom, az, some l, some t0⟩, [a, b, c, d]⟩
    ⟨⟨be', mom', az', some l', some t'⟩, [(spatial_scale.eval az' l' (-1) a' b' c').1,
      (spatial_scale.eval az' l' (-1) a' b' c').2.1, (spatial_scale.eval az' l' (-1) a' b' c').2.2, d']⟩
  simp [VT.dim] at hcm hb
  simp only [denote, Option.some.injEq, List.cons.injEq, and_true] at h'
  obtain ⟨rfl, rfl, rfl, rfl⟩ := h'
  obtain ⟨w, e, hty, hw, hden⟩ := c09m_boost_p4 K A ⟨⟨be, mom, az, some l, some t0⟩, [a, b, c, d]⟩
    ⟨⟨be', mom', az', some l', some t'⟩, [(spatial_scale.eval az' l' (-1) a' b' c').1,
      (spatial_scale.eval az' l' (-1) a' b' c').2.1, (spatial_scale.eval az' l' (-1) a' b' c').2.2, d']⟩
    hv hd ⟨by simp, rfl⟩ (by simp [VT.dim]) hc
    ⟨(neg_lon_ok az' l' a' b' c' hr h1 h2).1, (neg_lon_ok az' l' a' b' c' hr h1 h2).2, h3⟩
    x y z t _ _ _ _ h (by rw [denote_4, neg_denote az' l' t' a' b' c' d' hr]; rfl)
    (fun e => by simpa only [neg_sq] using hphys e)
  exact ⟨w, by rw [hcm.1, ← hb, e], by rw [hcm.2.2, ← hb, e], hty, hw, hden⟩

/-- **boosting a forward time-like vector into its own rest frame**, in EVERY storage (12 × any backend/flavor):
`v.boostCM_of_p4(v)` denotes `(0, 0, 0, τ)` with `τ = √(t² − x² − y² − z²)` -/
theorem c09m_boostCM_of_p4_self (K : Consts ℝ) (A : Arith ℝ) (hK : K.negOne = -1) (v : Vec ℝ) (hv : WFV v)
    (hd : v.ty.dim = 4)
    (hc : Stored4 (fun _ l t _ _ c d => ThetaRange l c ∧ TanOK l c ∧ SinOK l c ∧ CanonTmp t d) v)
    (x y z t : ℝ) (h : denote v = some [x, y, z, t]) (ht : 0 < t) (hs : x ^ 2 + y ^ 2 + z ^ 2 < t ^ 2) :
    ∃ w, call evR K A "boostCM_of_p4" v [.v v] = .ok (.vec w) ∧ call evR K A "boostCM_of" v [.v v] = .ok (.vec w) ∧
      w.ty = { v.ty with az := .xy, lon := some .z } ∧ WFV w ∧
      denote w = some [0, 0, 0, sqrt (t ^ 2 - x ^ 2 - y ^ 2 - z ^ 2)] := by
  obtain ⟨w, e1, e2, hty, hw, hden⟩ := c09m_boostCM_of_p4 K A hK v v hv hd hv hd ⟨hc.2.1, hc.2.2.2⟩ hc x y z t x y z t h h
    (fun _ => ⟨hs, ht⟩)
  refine ⟨w, e1, e2, ?_, hw, ?_⟩
  · rw [hty]
    obtain ⟨be, mom, az, l, t0, a, b, c, d, rfl⟩ := wfv4 hv hd
    cases be <;> cases mom <;> rfl
  · rw [hden, c09_boostCM_of_self (x, y, z, t) ht hs]; rfl

/-! ### 3c. `boostCM_of_beta3` (and `boostCM_of` with a 3D argument) -/

theorem neg3D_eval3 (K : Consts ℝ) (be mom az l) (a b c : ℝ) :
    negN evR K 3 ⟨⟨be, mom, az, some l, none⟩, [a, b, c]⟩ =
      .ok (.vec ⟨⟨be, mom, az, some l, none⟩,
        [(spatial_scale.eval az l K.negOne a b c).1, (spatial_scale.eval az l K.negOne a b c).2.1,
         (spatial_scale.eval az l K.negOne a b c).2.2]⟩) := by
  cases az <;> cases l <;> cases mom <;> rfl

/-- **`boostCM_of_beta3` (and `boostCM_of` with a 3D argument)**: `boost_beta3` with the negated velocity -/
theorem c09m_boostCM_of_beta3 (K : Consts ℝ) (A : Arith ℝ) (hK : K.negOne = -1) (v p : Vec ℝ) (hv : WFV v)
    (hd : v.ty.dim = 4) (hp : WFV p) (hdp : p.ty.dim = 3)
    (hc : Stored4 (fun _ l t _ _ c d => TanOK l c ∧ CanonTmp t d) v)
    (hcp : Stored3 (fun _ l _ _ c => ThetaRange l c ∧ TanOK l c ∧ SinOK l c) p)
    (x y z t bx by' bz : ℝ) (h : denote v = some [x, y, z, t]) (h' : denote p = some [bx, by', bz])
    (hphys : v.ty.tmp = some .tau → bx ^ 2 + by' ^ 2 + bz ^ 2 < 1) :
    ∃ w, call evR K A "boostCM_of_beta3" v [.v p] = .ok (.vec w) ∧ call evR K A "boostCM_of" v [.v p] = .ok (.vec w) ∧
      w.ty = ⟨hbe v.ty.be p.ty.be, v.ty.mom || p.ty.mom, .xy, some .z, v.ty.tmp⟩ ∧ WFV w ∧
      denote w = some (l4 (bβ3 (x, y, z, t) (-bx, -by', -bz))) := by
  obtain ⟨be, mom, az, l, t0, a, b, c, d, rfl⟩ := wfv4 hv hd
  rcases wfv_cases hp with ⟨be', mom', az', a', b', rfl⟩ | ⟨be', mom', az', l', a', b', c', rfl⟩ |
    ⟨be', mom', az', l', t', a', b', c', d', rfl⟩
  · simp [VT.dim] at hdp
  · obtain ⟨hr, h1, h2⟩ := hcp
    have hn := neg3D_eval3 K be' mom' az' l' a' b' c'
    rw [hK] at hn
    have hcm := call_boostCM evR K A ⟨⟨be, mom, az, some l, some t0⟩, [a, b, c, d]⟩
      ⟨⟨be', mom', az', some l', none⟩, [a', b', c']⟩
    simp only [hn] at hcm
    have hb := call_boost_beta3 evR K A ⟨⟨be, mom, az, some l, some t0⟩, [a, b, c, d]⟩
      ⟨⟨be', mom', az', some l', none⟩, [(spatial_scale.eval az' l' (-1) a' b' c').1,
        (spatial_scale.eval az' l' (-1) a' b' c').2.1, (spatial_scale.eval az' l' (-1) a' b' c').2.2]⟩
    simp [VT.dim] at hcm hb
    simp only [denote, Option.some.injEq, List.cons.injEq, and_true] at h'
    obtain ⟨rfl, rfl, rfl⟩ := h'
    have hnd := neg_denote az' l' .t a' b' c' 0 hr
    obtain ⟨w, e, hty, hw, hden⟩ := c09m_boost_beta3 K A ⟨⟨be, mom, az, some l, some t0⟩, [a, b, c, d]⟩
      ⟨⟨be', mom', az', some l', none⟩, [(spatial_scale.eval az' l' (-1) a' b' c').1,
        (spatial_scale.eval az' l' (-1) a' b' c').2.1, (spatial_scale.eval az' l' (-1) a' b' c').2.2]⟩
      hv hd ⟨by simp, rfl⟩ (by simp [VT.dim]) hc (neg_lon_ok az' l' a' b' c' hr h1 h2).1
      x y z t (-(xOf az' a' b')) (-(yOf az' a' b')) (-(zOf az' l' a' b' c')) h
      (by
        simp only [Spec.cart4, Prod.mk.injEq] at hnd
        simp only [denote, hnd.1, hnd.2.1, hnd.2.2.1])
      (fun e => by simpa only [neg_sq] using hphys e)
    exact ⟨w, by rw [hcm.2.1, ← hb, e], by rw [hcm.2.2, ← hb, e], hty, hw, hden⟩
  · simp [VT.dim] at hdp

/-- **`v.boostCM_of_beta3(v.to_beta3())`**: if `b` (3D, any storage) denotes the velocity `(x/t, y/t, z/t)` of a forward
time-like `v`, the result denotes `(0, 0, 0, τ)` -/
theorem c09m_boostCM_of_beta3_self (K : Consts ℝ) (A : Arith ℝ) (hK : K.negOne = -1) (v p : Vec ℝ) (hv : WFV v)
    (hd : v.ty.dim = 4) (hp : WFV p) (hdp : p.ty.dim = 3)
    (hc : Stored4 (fun _ l t _ _ c d => TanOK l c ∧ CanonTmp t d) v)
    (hcp : Stored3 (fun _ l _ _ c => ThetaRange l c ∧ TanOK l c ∧ SinOK l c) p)
    (x y z t : ℝ) (h : denote v = some [x, y, z, t]) (h' : denote p = some [x / t, y / t, z / t])
    (ht : 0 < t) (hs : x ^ 2 + y ^ 2 + z ^ 2 < t ^ 2) :
    ∃ w, call evR K A "boostCM_of_beta3" v [.v p] = .ok (.vec w) ∧
      denote w = some [0, 0, 0, sqrt (t ^ 2 - x ^ 2 - y ^ 2 - z ^ 2)] := by
  have hsub := c09_to_beta3_subluminal (x, y, z, t) ht hs
  have e3 : toβ3 (x, y, z, t) = (x / t, y / t, z / t) := by simp only [d_lorentz_to_beta3]
  rw [e3] at hsub
  obtain ⟨w, e1, -, -, -, hden⟩ := c09m_boostCM_of_beta3 K A hK v p hv hd hp hdp hc hcp x y z t _ _ _ h h' (fun _ => hsub)
  refine ⟨w, e1, ?_⟩
  have hself := c09_boostCM_of_beta3_self (x, y, z, t) ht hs
  have en : neg3 (toβ3 (x, y, z, t)) = (-(x / t), -(y / t), -(z / t)) := by
    rw [e3]; simp only [neg3, d_spatial_scale, mul_neg, mul_one]
  rw [en] at hself
  rw [hden, hself]
  have hM : (0 : ℝ) < t ^ 2 - (x ^ 2 + y ^ 2 + z ^ 2) := by linarith
  have e : t ^ 2 - x ^ 2 - y ^ 2 - z ^ 2 = t ^ 2 - (x ^ 2 + y ^ 2 + z ^ 2) := by ring
  simp only [l4, d_lorentz_tau, d_lorentz_tau2, d_spatial_mag2, P.copysign, e, if_pos hM.le, abs_of_pos hM,
    abs_of_nonneg (Real.sqrt_nonneg _)]

/-! ### the stored τ is passed through unchanged (no hypothesis on the stored coordinates or the boost parameter) -/

/-- **axis boosts of a τ-stored vector**: the result is τ-stored and its stored τ is that of `v` -/
theorem c09m_boost_axis_tau_stored (K : Consts ℝ) (A : Arith ℝ) (v : Vec ℝ) (hv : WFV v) (hd : v.ty.dim = 4)
    (ht : v.ty.tmp = some .tau) (s : ℝ) :
    ∀ m ∈ ["boostX", "boostY", "boostZ"],
      (∃ w, call evR K A m v [.kw "beta" s] = .ok (.vec w) ∧ call evR K A m v [.sc s] = .ok (.vec w) ∧
        w.ty.tmp = some .tau ∧ (c4 w).2.2.2 = (c4 v).2.2.2) ∧
      (∃ w, call evR K A m v [.kw "gamma" s] = .ok (.vec w) ∧ w.ty.tmp = some .tau ∧ (c4 w).2.2.2 = (c4 v).2.2.2) := by
  obtain ⟨be, mom, az, l, t, a, b, c, d, rfl⟩ := wfv4 hv hd
  obtain rfl : t = .tau := Option.some.inj ht
  intro m hm
  simp only [List.mem_cons, List.not_mem_nil, or_false] at hm
  rcases hm with rfl | rfl | rfl
  · refine ⟨⟨_, (boostX_beta_eval K A be mom az l .tau a b c d s).1, (boostX_beta_eval K A be mom az l .tau a b c d s).2, ?_⟩,
      ⟨_, boostX_gamma_eval K A be mom az l .tau a b c d s, ?_⟩⟩
    · cases az <;> cases l <;> exact ⟨rfl, refine_lorentz_boostX_beta_tau_stored _ _ s a b c d⟩
    · cases az <;> cases l <;> exact ⟨rfl, refine_lorentz_boostX_gamma_tau_stored _ _ s a b c d⟩
  · refine ⟨⟨_, (boostY_beta_eval K A be mom az l .tau a b c d s).1, (boostY_beta_eval K A be mom az l .tau a b c d s).2, ?_⟩,
      ⟨_, boostY_gamma_eval K A be mom az l .tau a b c d s, ?_⟩⟩
    · cases az <;> cases l <;> exact ⟨rfl, refine_lorentz_boostY_beta_tau_stored _ _ s a b c d⟩
    · cases az <;> cases l <;> exact ⟨rfl, refine_lorentz_boostY_gamma_tau_stored _ _ s a b c d⟩
  · refine ⟨⟨_, (boostZ_beta_eval K A be mom az l .tau a b c d s).1, (boostZ_beta_eval K A be mom az l .tau a b c d s).2, ?_⟩,
      ⟨_, boostZ_gamma_eval K A be mom az l .tau a b c d s, ?_⟩⟩
    · cases az <;> cases l <;> exact ⟨rfl, refine_lorentz_boostZ_beta_tau_stored _ _ s a b c d⟩
    · cases az <;> cases l <;> exact ⟨rfl, refine_lorentz_boostZ_gamma_tau_stored _ _ s a b c d⟩

/-- **`boost_p4` / `boost_beta3` of a τ-stored vector**: the result is τ-stored with the stored τ of `v` -/
theorem c09m_boost_tau_stored (K : Consts ℝ) (A : Arith ℝ) (v p : Vec ℝ) (hv : WFV v) (hd : v.ty.dim = 4) (hp : WFV p)
    (ht : v.ty.tmp = some .tau) :
    (p.ty.dim = 4 → ∃ w, call evR K A "boost_p4" v [.v p] = .ok (.vec w) ∧ w.ty.tmp = some .tau ∧
      (c4 w).2.2.2 = (c4 v).2.2.2) ∧
    (p.ty.dim = 3 → ∃ w, call evR K A "boost_beta3" v [.v p] = .ok (.vec w) ∧ w.ty.tmp = some .tau ∧
      (c4 w).2.2.2 = (c4 v).2.2.2) := by
  obtain ⟨be, mom, az, l, t, a, b, c, d, rfl⟩ := wfv4 hv hd
  obtain rfl : t = .tau := Option.some.inj ht
  rcases wfv_cases hp with ⟨be', mom', az', a', b', rfl⟩ | ⟨be', mom', az', l', a', b', c', rfl⟩ |
    ⟨be', mom', az', l', t', a', b', c', d', rfl⟩
  · exact ⟨fun h => by simp [VT.dim] at h, fun h => by simp [VT.dim] at h⟩
  · refine ⟨fun h => by simp [VT.dim] at h, fun _ => ⟨_, boost_beta3_eval K A be mom az l .tau a b c d be' mom' az' l' a' b' c',
      rfl, refine_lorentz_boost_beta3_tau_stored az l az' l' a b c d a' b' c'⟩⟩
  · refine ⟨fun _ => ⟨_, boost_p4_eval K A be mom az l .tau a b c d be' mom' az' l' t' a' b' c' d',
      rfl, refine_lorentz_boost_p4_tau_stored az l az' l' t' a b c d a' b' c' d'⟩, fun h => by simp [VT.dim] at h⟩

/-- **Lorentz invariance at method level, 4D booster**: two 4D vectors in ANY two storages boosted by the same physical
momentum (forward, time-like; any storage): the Minkowski product of the denotations is preserved -/
theorem c09m_boost_p4_mdot (K : Consts ℝ) (A : Arith ℝ) (v₁ v₂ p : Vec ℝ) (hv₁ : WFV v₁) (hd₁ : v₁.ty.dim = 4)
    (hv₂ : WFV v₂) (hd₂ : v₂.ty.dim = 4) (hp : WFV p) (hdp : p.ty.dim = 4)
    (hc₁ : Stored4 (fun _ l t _ _ c d => TanOK l c ∧ CanonTmp t d) v₁)
    (hc₂ : Stored4 (fun _ l t _ _ c d => TanOK l c ∧ CanonTmp t d) v₂) (hcp : BoostOK p) (X₁ X₂ P : V4)
    (h₁ : denote v₁ = some (l4 X₁)) (h₂ : denote v₂ = some (l4 X₂)) (h' : denote p = some (l4 P))
    (hE : 0 < P.2.2.2) (hP : P.1 ^ 2 + P.2.1 ^ 2 + P.2.2.1 ^ 2 < P.2.2.2 ^ 2) :
    ∃ w₁ w₂ Y₁ Y₂, call evR K A "boost" v₁ [.v p] = .ok (.vec w₁) ∧ call evR K A "boost" v₂ [.v p] = .ok (.vec w₂) ∧
      denote w₁ = some (l4 Y₁) ∧ denote w₂ = some (l4 Y₂) ∧ VR.mdot Y₁ Y₂ = VR.mdot X₁ X₂ := by
  obtain ⟨w₁, e₁, -, -, d₁⟩ := c09m_boost_p4 K A v₁ p hv₁ hd₁ hp hdp hc₁ hcp _ _ _ _ _ _ _ _ h₁ h' (fun _ => ⟨hP, hE⟩)
  obtain ⟨w₂, e₂, -, -, d₂⟩ := c09m_boost_p4 K A v₂ p hv₂ hd₂ hp hdp hc₂ hcp _ _ _ _ _ _ _ _ h₂ h' (fun _ => ⟨hP, hE⟩)
  refine ⟨w₁, w₂, _, _, ?_, ?_, d₁, d₂, c09_boost_p4_mdot X₁ X₂ P hE hP⟩
  · rw [(c09m_boost_dispatch evR K A v₁ p).2.1 hdp, e₁]
  · rw [(c09m_boost_dispatch evR K A v₂ p).2.1 hdp, e₂]

/-! ### examples at concrete points; non-vacuity of the hypotheses -/

/-- a momentum vector stored as (ρ, φ, θ, τ) = (2, 1, 1, 3): every storage hypothesis used in sections 2–5 holds, it is
forward time-like -/
example : let v : Vec ℝ := ⟨⟨.obj, true, .rhophi, some .theta, some .tau⟩, [2, 1, 1, 3]⟩
    WFV v ∧ v.ty.dim = 4 ∧ BoostOK v ∧
    Stored4 (fun _ l t _ _ c d => ThetaRange l c ∧ TanOK l c ∧ SinOK l c ∧ CanonTmp t d) v ∧
    ∃ x y z t, denote v = some [x, y, z, t] ∧ 0 < t ∧ x ^ 2 + y ^ 2 + z ^ 2 < t ^ 2 := by
  intro v
  have hpi : (1 : ℝ) < π := by linarith [two_le_pi]
  have hc : cos (1 : ℝ) ≠ 0 := ne_of_gt cos_one_pos
  have hs : sin (1 : ℝ) ≠ 0 := (sin_pos_of_pos_of_lt_pi one_pos hpi).ne'
  have h3 : (0 : ℝ) ≤ 3 := by norm_num
  refine ⟨⟨by simp [v], rfl⟩, by simp [v, VT.dim], ⟨hc, hs, h3⟩, ⟨⟨zero_le_one, hpi.le⟩, hc, hs, h3⟩,
    _, _, _, _, rfl, ?_, ?_⟩
  · exact Real.sqrt_pos.mpr (by unfold mag2Of; positivity)
  · have hm : 0 ≤ mag2Of .rhophi .theta 2 1 1 := by unfold mag2Of; positivity
    show mag2Of .rhophi .theta 2 1 1 < sqrt (3 ^ 2 + mag2Of .rhophi .theta 2 1 1) ^ 2
    rw [Real.sq_sqrt (by positivity)]; linarith

/-- `boost` of a (ρ, φ, η, τ) object momentum vector by the NumPy-backend geometric velocity β = (0.3, −0.2, 0.5):
the result is a NumPy-backend Cartesian momentum vector, τ-stored, denoting the boosted denotation -/
example (K : Consts ℝ) (A : Arith ℝ) :
    let v : Vec ℝ := ⟨⟨.obj, true, .rhophi, some .eta, some .tau⟩, [2, 1, 1, 3]⟩
    let b : Vec ℝ := ⟨⟨.np, false, .xy, some .z, none⟩, [0.3, -0.2, 0.5]⟩
    ∃ w X, denote v = some (l4 X) ∧ call evR K A "boost" v [.v b] = .ok (.vec w) ∧
      w.ty = ⟨.np, true, .xy, some .z, some .tau⟩ ∧ denote w = some (l4 (bβ3 X (0.3, -0.2, 0.5))) := by
  intro v b
  obtain ⟨w, e, hty, -, hden⟩ := c09m_boost_beta3 K A v b ⟨by simp [v], rfl⟩ (by simp [v, VT.dim]) ⟨by simp [b], rfl⟩
    (by simp [b, VT.dim]) ⟨trivial, show (0 : ℝ) ≤ 3 by norm_num⟩ trivial _ _ _ _ 0.3 (-0.2) 0.5 rfl rfl
    (fun _ => by norm_num)
  exact ⟨w, _, rfl, by rw [(c09m_boost_dispatch evR K A v b).1 (by simp [b, VT.dim]), e], hty, hden⟩

/-- `boostX(beta=0.6)`, `boostZ(gamma=-1.25)` on the same vector -/
example (K : Consts ℝ) (A : Arith ℝ) :
    let v : Vec ℝ := ⟨⟨.obj, true, .rhophi, some .eta, some .tau⟩, [2, 1, 1, 3]⟩
    (∃ w, call evR K A "boostX" v [.kw "beta" 0.6] = .ok (.vec w) ∧ denote w = (denote v).map (on4 (bXβ 0.6))) ∧
    (∃ w, call evR K A "boostZ" v [.kw "gamma" (-1.25)] = .ok (.vec w) ∧
      denote w = (denote v).map (on4 (bZγ (-1.25)))) := by
  intro v
  have hv : WFV v := ⟨by simp [v], rfl⟩
  have hd : v.ty.dim = 4 := by simp [v, VT.dim]
  have hc : BoostOK v := ⟨trivial, trivial, show (0 : ℝ) ≤ 3 by norm_num⟩
  obtain ⟨w, e, -, -, -, hden⟩ := c09m_boostX_beta K A v hv hd hc 0.6
    (fun _ => by rw [abs_of_pos] <;> norm_num)
  obtain ⟨w', e', -, -, hden'⟩ := c09m_boostZ_gamma K A v hv hd hc (-1.25)
    (fun _ => by rw [abs_of_neg] <;> norm_num)
  exact ⟨⟨w, e, hden⟩, ⟨w', e', hden'⟩⟩

/-- C01 in its literal form for a Lorentz accessor and a predicate: a vector stored as (ρ, φ, η, τ) and one stored as
(x, y, z, t) with the same denotation have the same `tau`, `rapidity` and `is_timelike` -/
example (K : Consts ℝ) (A : Arith ℝ) (v w : Vec ℝ) (hv : WFV v) (hw : WFV w) (x y z t : ℝ)
    (h1 : denote v = some [x, y, z, t]) (h2 : denote w = some [x, y, z, t])
    (hcv : Stored4 (fun k l t a b c d => CanonLon k l a b c ∧ TanOK l c ∧ SinOK l c ∧ CanonTmp t d) v)
    (hcw : Stored4 (fun k l t a b c d => CanonLon k l a b c ∧ TanOK l c ∧ SinOK l c ∧ CanonTmp t d) w) (hz : |z| < t) :
    call evR K A "tau" v [] = call evR K A "tau" w [] ∧ call evR K A "rapidity" v [] = call evR K A "rapidity" w [] ∧
      call evR K A "is_timelike" v [] = call evR K A "is_timelike" w [] := by
  rw [c09m_acc_tau K A v hv ⟨hcv.1, hcv.2.2.2⟩ x y z t h1, c09m_acc_tau K A w hw ⟨hcw.1, hcw.2.2.2⟩ x y z t h2,
    c09m_acc_rapidity K A v hv ⟨hcv.1, hcv.2.1, hcv.2.2.2⟩ x y z t h1 hz,
    c09m_acc_rapidity K A w hw ⟨hcw.1, hcw.2.1, hcw.2.2.2⟩ x y z t h2 hz,
    (c09m_causal K A v hv hcv.2 x y z t h1 0).2.1, (c09m_causal K A w hw hcw.2 x y z t h2 0).2.1]
  exact ⟨rfl, rfl, rfl⟩

/-! ### 7. the SIGNED-τ reading (`Spec/SignedTau.lean`): τ-stored SPACE-LIKE vectors (`τ < 0`)

`denote` (Props/C01Method) reads a stored τ as `t = √(τ² + |p|²)`, which is what the code computes only for `τ ≥ 0`
(`CanonTmp`).  The code computes `t = √max(copysign(τ², τ) + |p|², 0)`: `denoteS` is that reading; it agrees with
`denote` for `τ ≥ 0`, and the accessors `t tau tau2 t2` and the causal predicates are functions of `denoteS` for every
representable stored τ (`CanonTmpS`), negative ones included. -/

/-- denotation, signed-τ reading (differs from `denote` only on 4D τ-stored vectors with `τ < 0`) -/
noncomputable def denoteS (v : Vec ℝ) : Option (List ℝ) :=
  match v.ty.lon, v.ty.tmp, v.c with
  | some l, some t, [a, b, c, d] => some (l4 (cart4S v.ty.az l t a b c d))
  | _, _, _ => denote v

theorem denoteS_eq_denote (v : Vec ℝ) (hc : Stored4 (fun _ _ t _ _ _ d => CanonTmp t d) v) : denoteS v = denote v := by
  obtain ⟨⟨be, mom, az, lon, tmp⟩, c⟩ := v
  unfold denoteS
  split
  · next l t a b c d h1 h2 h3 =>
    simp only at h1 h2 h3
    subst h1 h2 h3
    have hc' : CanonTmp t d := hc
    simp only [cart4S_eq_cart4 _ _ _ _ _ _ _ hc']; rfl
  · rfl

theorem denoteS_lorentz {v : Vec ℝ} (hv : WFV v) {x y z t : ℝ} (h : denoteS v = some [x, y, z, t]) :
    ∃ be mom az l t0 a b c d, v = ⟨⟨be, mom, az, some l, some t0⟩, [a, b, c, d]⟩ ∧ x = xOf az a b ∧ y = yOf az a b ∧
      z = zOf az l a b c ∧ t = tOfS az l t0 a b c d := by
  rcases wfv_cases hv with ⟨be, mom, az, a, b, rfl⟩ | ⟨be, mom, az, l, a, b, c, rfl⟩ |
    ⟨be, mom, az, l, t, a, b, c, d, rfl⟩
  · simp [denoteS, denote] at h
  · simp [denoteS, denote] at h
  · simp only [denoteS, l4, cart4S, Option.some.injEq, List.cons.injEq, and_true] at h
    obtain ⟨rfl, rfl, rfl, rfl⟩ := h
    exact ⟨be, mom, az, l, t, a, b, c, d, rfl, rfl, rfl, rfl, rfl⟩

/-- **`t`, `t2`, `tau2`, `tau` of ANY representable 4D vector** (space-like τ-stored ones included) are the documented
functions of the signed denotation -/
theorem c09m_acc_signed (K : Consts ℝ) (A : Arith ℝ) (v : Vec ℝ) (hv : WFV v)
    (hc : Stored4 (fun k l t a b c d => CanonLon k l a b c ∧ CanonTmpS k l t a b c d) v) (x y z t : ℝ)
    (h : denoteS v = some [x, y, z, t]) :
    call evR K A "t" v [] = .ok (.scalar t) ∧ call evR K A "t2" v [] = .ok (.scalar (t ^ 2)) ∧
    call evR K A "tau2" v [] = .ok (.scalar (t ^ 2 - (x ^ 2 + y ^ 2 + z ^ 2))) ∧
    call evR K A "tau" v [] = .ok (.scalar (Real.sign (t ^ 2 - (x ^ 2 + y ^ 2 + z ^ 2))
      * sqrt |t ^ 2 - (x ^ 2 + y ^ 2 + z ^ 2)|)) := by
  obtain ⟨be, mom, az, l, t0, a, b, c, d, rfl, rfl, rfl, rfl, rfl⟩ := denoteS_lorentz hv h
  have hd : (⟨⟨be, mom, az, some l, some t0⟩, [a, b, c, d]⟩ : Vec ℝ).ty.dim = 4 := by simp [VT.dim]
  refine ⟨?_, ?_, ?_, ?_⟩
  · rw [acc_t_eval K A _ hv hd, ap4]
    exact congrArg _ (congrArg _ (refine_lorentz_t_signed az l t0 a b c d hc.1 hc.2))
  · rw [acc_t2_eval K A _ hv hd, ap4]
    exact congrArg _ (congrArg _ (refine_lorentz_t2_signed az l t0 a b c d hc.1 hc.2))
  · rw [acc_tau2_eval K A _ hv hd, ap4]
    exact congrArg _ (congrArg _ (refine_lorentz_tau2_signed az l t0 a b c d hc.1 hc.2))
  · rw [acc_tau_eval K A _ hv hd, ap4]
    exact congrArg _ (congrArg _ (refine_lorentz_tau_signed az l t0 a b c d hc.1 hc.2))

/-- **the causal predicates of ANY representable 4D vector** are the sign tests of `s = t² − x² − y² − z²` of the signed
denotation -/
theorem c09m_causal_signed (K : Consts ℝ) (A : Arith ℝ) (v : Vec ℝ) (hv : WFV v)
    (hc : Stored4 (fun k l t a b c d => TanOK l c ∧ SinOK l c ∧ CanonTmpS k l t a b c d) v) (x y z t : ℝ)
    (h : denoteS v = some [x, y, z, t]) (tol : ℝ) :
    call evR K A "is_timelike" v [.sc tol] = .ok (.truth (t ^ 2 - (x ^ 2 + y ^ 2 + z ^ 2) > |tol|)) ∧
    call evR K A "is_timelike" v [] = .ok (.truth (t ^ 2 - (x ^ 2 + y ^ 2 + z ^ 2) > |K.zeroI|)) ∧
    call evR K A "is_spacelike" v [.sc tol] = .ok (.truth (t ^ 2 - (x ^ 2 + y ^ 2 + z ^ 2) < -|tol|)) ∧
    call evR K A "is_spacelike" v [] = .ok (.truth (t ^ 2 - (x ^ 2 + y ^ 2 + z ^ 2) < -|K.zeroI|)) ∧
    call evR K A "is_lightlike" v [.sc tol] = .ok (.truth (|t ^ 2 - (x ^ 2 + y ^ 2 + z ^ 2)| < |tol|)) ∧
    call evR K A "is_lightlike" v [] = .ok (.truth (|t ^ 2 - (x ^ 2 + y ^ 2 + z ^ 2)| < |K.tol|)) := by
  obtain ⟨be, mom, az, l, t0, a, b, c, d, rfl, rfl, rfl, rfl, rfl⟩ := denoteS_lorentz hv h
  have hdot : lorentz_dot.eval az l t0 az l t0 a b c d a b c d
      = tOfS az l t0 a b c d ^ 2 - (xOf az a b ^ 2 + yOf az a b ^ 2 + zOf az l a b c ^ 2) := by
    rw [refine_lorentz_dot_signed az l t0 az l t0 a b c d a b c d hc.1 hc.1 hc.2.1 hc.2.1 hc.2.2 hc.2.2]
    simp only [Spec.mdot, cart4S]; ring
  have e1 : ∀ s, lorentz_is_timelike.eval az l t0 s a b c d = (tOfS az l t0 a b c d ^ 2 - (xOf az a b ^ 2 + yOf az a b ^ 2 + zOf az l a b c ^ 2) > |s|) :=
    fun s => propext (by rw [c13_is_timelike_iff_dot, hdot])
  have e2 : ∀ s, lorentz_is_spacelike.eval az l t0 s a b c d = (tOfS az l t0 a b c d ^ 2 - (xOf az a b ^ 2 + yOf az a b ^ 2 + zOf az l a b c ^ 2) < -|s|) :=
    fun s => propext (by rw [c13_is_spacelike_iff_dot, hdot])
  have e3 : ∀ s, lorentz_is_lightlike.eval az l t0 s a b c d = (|tOfS az l t0 a b c d ^ 2 - (xOf az a b ^ 2 + yOf az a b ^ 2 + zOf az l a b c ^ 2)| < |s|) :=
    fun s => propext (by rw [c13_is_lightlike_iff_dot, hdot])
  refine ⟨?_, ?_, ?_, ?_, ?_, ?_⟩
  · rw [(is_timelike_eval K A be mom az l t0 a b c d tol).1, e1]
  · rw [(is_timelike_eval K A be mom az l t0 a b c d tol).2, e1]
  · rw [(is_spacelike_eval K A be mom az l t0 a b c d tol).1, e2]
  · rw [(is_spacelike_eval K A be mom az l t0 a b c d tol).2, e2]
  · rw [(is_lightlike_eval K A be mom az l t0 a b c d tol).1, e3]
  · rw [(is_lightlike_eval K A be mom az l t0 a b c d tol).2, e3]

/-- e.g. the τ-stored vector `(x, y, z, τ) = (3, 0, 0, −2)` is space-like: `is_spacelike()` (zero tolerance) holds -/
example (K : Consts ℝ) (A : Arith ℝ) (hK : K.zeroI = 0) :
    ∃ P : Prop, call evR K A "is_spacelike" ⟨⟨.obj, false, .xy, some .z, some .tau⟩, [3, 0, 0, -2]⟩ [] = .ok (.truth P) ∧ P := by
  have hcan : CanonTmpS .xy .z .tau 3 0 0 (-2) := by
    show (0 : ℝ) ≤ tau2S (-2) + mag2Of .xy .z 3 0 0
    rw [tau2S_of_neg (by norm_num)]; norm_num [mag2Of, xOf, yOf, zOf]
  have h := (c09m_causal_signed K A ⟨⟨.obj, false, .xy, some .z, some .tau⟩, [3, 0, 0, -2]⟩ ⟨by simp, rfl⟩
    ⟨trivial, trivial, hcan⟩ _ _ _ _ rfl 0).2.2.2.1
  refine ⟨_, h, ?_⟩
  have ht : tOfS .xy .z .tau 3 0 0 (-2) ^ 2 = 5 := by
    rw [tOfS_tau_sq _ _ _ _ _ _ hcan, tau2S_of_neg (by norm_num)]; norm_num [mag2Of, xOf, yOf, zOf]
  show tOfS .xy .z .tau 3 0 0 (-2) ^ 2 - ((3 : ℝ) ^ 2 + 0 ^ 2 + 0 ^ 2) < -|K.zeroI|
  rw [ht, hK]; norm_num

end C01M
end VR
