/-
Property C15 — "In-place updates of object vectors match their functional equivalents".

Statements about the hand-written glue model (`Glue/Methods.lean`): the object vector as a state machine
(`setC`, `replaceData`, `stepE`, `step`, `run`, `runFinal`), for ALL scalar types `S`, truth types `B`, compute
layers `ev`, constants `K` and arithmetic `A`.  Facts needed about the compute layer (the nine identity accessors)
are the explicit hypothesis `IdLaws ev`, proved for the generated executable copy `Compute.eval` at every `[Scalar S]`.
-/
import VectorModel.Gen.Exec.All
import VectorModel.Glue.Methods

set_option linter.unusedVariables false
set_option linter.constructorNameAsVariable false
namespace VG
open VK

/-! ### well-formedness, coordinate groups -/

/-- well-formed vector type: a temporal coordinate only on top of a longitudinal one -/
def WF (ty : VT) : Prop := ty.tmp.isSome → ty.lon.isSome

/-- well-formed vector: well-formed type and as many stored coordinates as the dimension -/
def WFV {S : Type} (v : Vec S) : Prop := WF v.ty ∧ v.c.length = v.ty.dim

/-- the three coordinate groups -/
inductive Grp | az | lon | tmp
  deriving DecidableEq, Repr

def CName.grp : CName → Grp
  | .x | .y | .rho | .phi => .az
  | .z | .theta | .eta => .lon
  | .t | .tau => .tmp

/-- position of the coordinate in the stored list -/
def CName.pos : CName → Nat
  | .x | .rho => 0
  | .y | .phi => 1
  | .z | .theta | .eta => 2
  | .t | .tau => 3

/-- the other coordinate of the same group (azimuthal names only) -/
def CName.partner : CName → Option CName
  | .x => some .y | .y => some .x | .rho => some .phi | .phi => some .rho | _ => none

/-- the vector type has the coordinate's group -/
def CName.hasGroup (c : CName) (ty : VT) : Prop :=
  match c.grp with
  | .az => True
  | .lon => ty.lon.isSome
  | .tmp => ty.tmp.isSome

/-- the documented coordinate system after `v.<c> = a` -/
def CName.newTy (c : CName) (ty : VT) : VT :=
  match c with
  | .x | .y => { ty with az := .xy }
  | .rho | .phi => { ty with az := .rhophi }
  | .z => { ty with lon := some .z }
  | .theta => { ty with lon := some .theta }
  | .eta => { ty with lon := some .eta }
  | .t => { ty with tmp := some .t }
  | .tau => { ty with tmp := some .tau }

/-- names of the stored coordinates of a type, in storage order -/
def coordNames (ty : VT) : List CName :=
  azCNames ty.az ++ (ty.lon.toList.map lonCName) ++ (ty.tmp.toList.map tmpCName)

section
variable {S B : Type}

/-! ### shape of well-formed vectors -/

private theorem wfv_cases {v : Vec S} (hv : WFV v) :
    (∃ be mom az a b, v = ⟨⟨be, mom, az, none, none⟩, [a, b]⟩) ∨
    (∃ be mom az l a b c, v = ⟨⟨be, mom, az, some l, none⟩, [a, b, c]⟩) ∨
    (∃ be mom az l t a b c d, v = ⟨⟨be, mom, az, some l, some t⟩, [a, b, c, d]⟩) := by
  obtain ⟨⟨be, mom, az, lon, tmp⟩, c⟩ := v
  obtain ⟨hwf, hlen⟩ := hv
  cases lon <;> cases tmp <;> simp [WF, VT.dim] at hwf hlen
  · left
    match c, hlen with
    | [a, b], _ => exact ⟨be, mom, az, a, b, rfl⟩
  · right; left
    match c, hlen with
    | [a, b, c], _ => exact ⟨be, mom, az, _, a, b, c, rfl⟩
  · right; right
    match c, hlen with
    | [a, b, c, d], _ => exact ⟨be, mom, az, _, _, a, b, c, d, rfl⟩

/-! ### 4. coordinate assignment -/

private theorem bind_ok_iff {α β : Type} {x : Except Err α} {f : α → Except Err β} {r : β} :
    (x >>= f) = .ok r ↔ ∃ y, x = .ok y ∧ f y = .ok r := by
  cases x <;> simp [bind, Except.bind]

theorem c15_setC_spec {ev : Ev S B} {c : CName} {a : S} {v v' : Vec S}
    (hv : WFV v) (hg : c.hasGroup v.ty) (h : setC ev c a v = .ok v') :
    v'.ty = c.newTy v.ty ∧ v'.c[c.pos]? = some a ∧ v'.c.length = v.c.length ∧
    (c.grp ≠ .az → v'.azEl = v.azEl) ∧ (c.grp ≠ .lon → v'.lonEl = v.lonEl) ∧
    (c.grp ≠ .tmp → v'.tmpEl = v.tmpEl) := by
  rcases wfv_cases hv with ⟨be, mom, az, p, q, rfl⟩ | ⟨be, mom, az, l, p, q, r, rfl⟩ |
      ⟨be, mom, az, l, t, p, q, r, s, rfl⟩ <;>
    cases c <;>
    simp [CName.hasGroup, CName.grp] at hg <;>
    simp [setC, bind_ok_iff, pure, Except.pure, VT.dim, Vec.lonEl, Vec.tmpEl, Vec.azEl] at h <;>
    (try obtain ⟨y, hy, rfl⟩ := h) <;> (try subst h) <;>
    simp [CName.newTy, CName.pos, CName.grp, Vec.lonEl, Vec.tmpEl, Vec.azEl]

/-- a coordinate name of a group the (well-formed) vector does not have is a plain attribute: no effect -/
theorem c15_setC_noGroup {ev : Ev S B} {c : CName} {a : S} {v : Vec S}
    (hv : WFV v) (hg : ¬ c.hasGroup v.ty) : setC ev c a v = .ok v := by
  rcases wfv_cases hv with ⟨be, mom, az, p, q, rfl⟩ | ⟨be, mom, az, l, p, q, r, rfl⟩ |
      ⟨be, mom, az, l, t, p, q, r, s, rfl⟩ <;>
    cases c <;>
    simp [CName.hasGroup, CName.grp] at hg <;>
    simp [setC, pure, Except.pure, VT.dim]

/-- assignment keeps backend, flavour, dimension, well-formedness and the number of stored coordinates -/
theorem c15_setC_inv {ev : Ev S B} {c : CName} {a : S} {v v' : Vec S}
    (hv : WFV v) (h : setC ev c a v = .ok v') :
    v'.ty.be = v.ty.be ∧ v'.ty.mom = v.ty.mom ∧ v'.ty.dim = v.ty.dim ∧ WFV v' := by
  rcases wfv_cases hv with ⟨be, mom, az, p, q, rfl⟩ | ⟨be, mom, az, l, p, q, r, rfl⟩ |
      ⟨be, mom, az, l, t, p, q, r, s, rfl⟩ <;>
    cases c <;>
    simp [setC, bind_ok_iff, pure, Except.pure, VT.dim, Vec.lonEl, Vec.tmpEl, Vec.azEl] at h <;>
    (try obtain ⟨y, hy, rfl⟩ := h) <;> (try subst h) <;>
    simp [WFV, WF, VT.dim]

/-! ### 3./6. `_replace_data` -/

/-- `_replace_data` by definition: same type, every stored coordinate (in the object's OWN system) is the accessor of
that name on the result -/
theorem c15_replaceData_eq (ev : Ev S B) (v r : Vec S) :
    replaceData ev v r =
      ((coordNames v.ty).mapM (fun n => getS ev n.acc r)).map (fun c => (⟨v.ty, c⟩ : Vec S)) := by
  obtain ⟨⟨be, mom, az, lon, tmp⟩, c⟩ := v
  cases az <;> cases lon <;> cases tmp <;>
    simp [replaceData, coordNames, azCNames, List.mapM_cons, List.mapM_nil, Except.map, bind, Except.bind,
      pure, Except.pure] <;>
    (repeat (generalize getS ev _ r = g; cases g <;> simp))

private theorem mapM_ok_spec {α β : Type} {f : α → Except Err β} :
    ∀ {l : List α} {r : List β}, l.mapM f = .ok r →
      r.length = l.length ∧ ∀ (i : Nat) (x : α), l[i]? = some x → ∃ y, r[i]? = some y ∧ f x = .ok y
  | [], r, h => by
    simp [List.mapM_nil, pure, Except.pure] at h
    subst h; simp
  | a :: l, r, h => by
    simp only [List.mapM_cons, bind_ok_iff, pure, Except.pure] at h
    obtain ⟨y, hy, ys, hys, h⟩ := h
    cases h
    obtain ⟨hl, hi⟩ := mapM_ok_spec hys
    refine ⟨by simp [hl], ?_⟩
    intro i x hx
    cases i with
    | zero => simp at hx; subst hx; exact ⟨y, by simp, hy⟩
    | succ i => simpa using hi i x (by simpa using hx)

theorem c15_coordNames_length (ty : VT) : (coordNames ty).length = ty.dim := by
  obtain ⟨be, mom, az, lon, tmp⟩ := ty
  cases az <;> cases lon <;> cases tmp <;> simp [coordNames, azCNames, VT.dim]

/-- `_replace_data` keeps the WHOLE type (class and coordinate system) of the object, stores one value per coordinate,
and each stored value is the accessor of that coordinate's name evaluated on the functional result `r` -/
theorem c15_replaceData_spec {ev : Ev S B} {v r v' : Vec S} (h : replaceData ev v r = .ok v') :
    v'.ty = v.ty ∧ v'.c.length = v.ty.dim ∧
    ∀ (i : Nat) (n : CName), (coordNames v.ty)[i]? = some n → ∃ s, v'.c[i]? = some s ∧ getS ev n.acc r = .ok s := by
  rw [c15_replaceData_eq] at h
  cases hm : (coordNames v.ty).mapM (fun n => getS ev n.acc r) with
  | error e => simp [hm, Except.map] at h
  | ok c =>
    simp [hm, Except.map] at h
    subst h
    obtain ⟨hl, hi⟩ := mapM_ok_spec hm
    exact ⟨rfl, by simp [hl, c15_coordNames_length], hi⟩

/-- `_replace_data` yields a well-formed vector whenever the object's type is well-formed -/
theorem c15_replaceData_wfv {ev : Ev S B} {v r v' : Vec S} (hv : WF v.ty) (h : replaceData ev v r = .ok v') :
    WFV v' := by
  obtain ⟨ht, hl, -⟩ := c15_replaceData_spec h
  exact ⟨ht ▸ hv, by rw [hl, ht]⟩

/-- stored coordinates of the OTHER groups keep their position and value under an assignment -/
theorem c15_setC_other_pos {ev : Ev S B} {c n : CName} {a : S} {v v' : Vec S}
    (hv : WFV v) (hg : c.hasGroup v.ty) (h : setC ev c a v = .ok v') (hn : n.grp ≠ c.grp) :
    v'.c[n.pos]? = v.c[n.pos]? := by
  rcases wfv_cases hv with ⟨be, mom, az, p, q, rfl⟩ | ⟨be, mom, az, l, p, q, r, rfl⟩ |
      ⟨be, mom, az, l, t, p, q, r, s, rfl⟩ <;>
    cases c <;>
    simp [CName.hasGroup, CName.grp] at hg <;>
    simp [setC, bind_ok_iff, pure, Except.pure, VT.dim, Vec.lonEl, Vec.tmpEl, Vec.azEl] at h <;>
    (try obtain ⟨y, hy, rfl⟩ := h) <;> (try subst h) <;>
    cases n <;> simp [CName.grp] at hn <;> simp [CName.pos]

/-- the partner coordinate of an assigned azimuthal coordinate is read through its accessor on the OLD vector and
stored at its position -/
theorem c15_setC_partner_stored {ev : Ev S B} {c p : CName} {a : S} {v v' : Vec S}
    (hv : WFV v) (h : setC ev c a v = .ok v') (hp : c.partner = some p) :
    ∃ b, getS ev p.acc v = .ok b ∧ v'.c[p.pos]? = some b := by
  cases c <;> simp [CName.partner] at hp <;> subst hp <;>
    simp [setC, bind_ok_iff, pure, Except.pure] at h <;>
    obtain ⟨y, hy, rfl⟩ := h <;>
    exact ⟨y, hy, by simp [CName.pos]⟩

/-! ### 1./2./3. one step -/

/-- in-place operator steps -/
def Step.isIop : Step S → Bool
  | .iopV _ _ | .iopS _ _ => true
  | _ => false

/-- functional equivalence (true by definition of the model): an in-place operator whose functional counterpart
returns the vector `r` is `_replace_data` of `r` into the object -/
theorem c15_stepE_functional {ev : Ev S B} {K : Consts S} {A : Arith S} {v r : Vec S} {st : Step S}
    (h : iopResult ev K A v st = .ok (.vec r)) : stepE ev K A v st = replaceData ev v r := by
  cases st with
  | set c a => simp [iopResult] at h
  | setReadOnly => simp [iopResult] at h
  | setOther => simp [iopResult] at h
  | iopV op o => simp only [stepE, h]
  | iopS op f => simp only [stepE, h]

/-- … hence the object afterwards has `v`'s type, and its coordinates are the accessors of the functional result -/
theorem c15_stepE_functional_spec {ev : Ev S B} {K : Consts S} {A : Arith S} {v r v' : Vec S} {st : Step S}
    (h : iopResult ev K A v st = .ok (.vec r)) (h' : stepE ev K A v st = .ok v') :
    v'.ty = v.ty ∧ v'.c.length = v.ty.dim ∧
    ∀ (i : Nat) (n : CName), (coordNames v.ty)[i]? = some n → ∃ s, v'.c[i]? = some s ∧ getS ev n.acc r = .ok s :=
  c15_replaceData_spec (c15_stepE_functional h ▸ h')

/-- the in-place operators are exactly `+=`/`-=` with a vector (add/subtract) and `*=`/`/=` with a scalar (scale) -/
theorem c15_iopResult_eq (ev : Ev S B) (K : Consts S) (A : Arith S) (v o : Vec S) (f : S) :
    iopResult ev K A v (.iopV .add o) = binary ev K .add v o [] ∧
    iopResult ev K A v (.iopV .sub o) = binary ev K .subtract v o [] ∧
    iopResult ev K A v (.iopS .mul f) = scaleN ev v.ty.dim f v ∧
    iopResult ev K A v (.iopS .div f) = scaleN ev v.ty.dim (A.inv f) v ∧
    iopResult ev K A v (.iopV .mul o) = .error .typeError ∧
    iopResult ev K A v (.iopV .div o) = .error .typeError ∧
    iopResult ev K A v (.iopS .add f) = .error .typeError ∧
    iopResult ev K A v (.iopS .sub f) = .error .typeError :=
  ⟨rfl, rfl, rfl, rfl, rfl, rfl, rfl, rfl⟩

/-- 3. a successful in-place operator keeps the WHOLE type (class and coordinate system) -/
theorem c15_stepE_iop_ty {ev : Ev S B} {K : Consts S} {A : Arith S} {v v' : Vec S} {st : Step S}
    (hst : st.isIop) (h : stepE ev K A v st = .ok v') : v'.ty = v.ty ∧ v'.c.length = v.ty.dim := by
  cases st <;> simp [Step.isIop] at hst <;>
    · simp only [stepE] at h
      split at h
      · exact ⟨(c15_replaceData_spec h).1, (c15_replaceData_spec h).2.1⟩
      · cases h
      · cases h

/-- 1. invariants of one successful step -/
theorem c15_stepE_inv {ev : Ev S B} {K : Consts S} {A : Arith S} {v v' : Vec S} {st : Step S}
    (hv : WFV v) (h : stepE ev K A v st = .ok v') :
    v'.ty.be = v.ty.be ∧ v'.ty.mom = v.ty.mom ∧ v'.ty.dim = v.ty.dim ∧ WFV v' := by
  cases st with
  | set c a => exact c15_setC_inv hv h
  | setReadOnly => simp [stepE] at h
  | setOther => simp [stepE] at h; subst h; exact ⟨rfl, rfl, rfl, hv⟩
  | iopV op o =>
    obtain ⟨ht, hl⟩ := c15_stepE_iop_ty (st := .iopV op o) rfl h
    exact ⟨by rw [ht], by rw [ht], by rw [ht], ht ▸ hv.1, by rw [hl, ht]⟩
  | iopS op f =>
    obtain ⟨ht, hl⟩ := c15_stepE_iop_ty (st := .iopS op f) rfl h
    exact ⟨by rw [ht], by rw [ht], by rw [ht], ht ▸ hv.1, by rw [hl, ht]⟩

theorem c15_step_ok {ev : Ev S B} {K : Consts S} {A : Arith S} {v v' : Vec S} {st : Step S}
    (h : stepE ev K A v st = .ok v') : step ev K A v st = (v', none) := by
  simp [step, h]

theorem c15_step_error {ev : Ev S B} {K : Consts S} {A : Arith S} {v : Vec S} {st : Step S} {e : Err}
    (h : stepE ev K A v st = .error e) : step ev K A v st = (v, some e) := by
  simp [step, h]

/-- 2. a step that raises leaves the object unchanged -/
theorem c15_step_raise_unchanged {ev : Ev S B} {K : Consts S} {A : Arith S} {v : Vec S} {st : Step S} {e : Err}
    (h : (step ev K A v st).2 = some e) : (step ev K A v st).1 = v ∧ stepE ev K A v st = .error e := by
  cases hs : stepE ev K A v st with
  | ok v' => simp [step, hs] at h
  | error e' => simp [step, hs] at h ⊢; exact h

/-- a step that does not raise is the successful transition -/
theorem c15_step_noraise {ev : Ev S B} {K : Consts S} {A : Arith S} {v : Vec S} {st : Step S}
    (h : (step ev K A v st).2 = none) : stepE ev K A v st = .ok (step ev K A v st).1 := by
  cases hs : stepE ev K A v st with
  | ok v' => simp [step, hs]
  | error e' => simp [step, hs] at h

/-- 1. one-step invariants: backend, flavour, dimension, well-formedness and coordinate count are kept by EVERY step -/
theorem c15_step_inv {ev : Ev S B} {K : Consts S} {A : Arith S} {v : Vec S} (hv : WFV v) (st : Step S) :
    (step ev K A v st).1.ty.be = v.ty.be ∧ (step ev K A v st).1.ty.mom = v.ty.mom ∧
    (step ev K A v st).1.ty.dim = v.ty.dim ∧ WF (step ev K A v st).1.ty ∧
    (step ev K A v st).1.c.length = v.c.length := by
  cases hs : stepE ev K A v st with
  | ok v' =>
    obtain ⟨h1, h2, h3, h4⟩ := c15_stepE_inv hv hs
    rw [c15_step_ok hs]
    exact ⟨h1, h2, h3, h4.1, by rw [h4.2, h3, hv.2]⟩
  | error e => rw [c15_step_error hs]; exact ⟨rfl, rfl, rfl, hv.1, rfl⟩

theorem c15_step_wfv {ev : Ev S B} {K : Consts S} {A : Arith S} {v : Vec S} (hv : WFV v) (st : Step S) :
    WFV (step ev K A v st).1 := by
  obtain ⟨-, -, h3, h4, h5⟩ := c15_step_inv (ev := ev) (K := K) (A := A) hv st
  exact ⟨h4, by rw [h5, h3, hv.2]⟩

/-- 3. in-place operators keep the coordinate system (the whole type), whether they succeed or raise; no
well-formedness needed -/
theorem c15_step_iop_ty {ev : Ev S B} {K : Consts S} {A : Arith S} {v : Vec S} {st : Step S} (hst : st.isIop) :
    (step ev K A v st).1.ty = v.ty := by
  cases hs : stepE ev K A v st with
  | ok v' => rw [c15_step_ok hs]; exact (c15_stepE_iop_ty hst hs).1
  | error e => rw [c15_step_error hs]

/-- assignment steps: read-only property → AttributeError, other name → no effect on the vector -/
theorem c15_step_setReadOnly (ev : Ev S B) (K : Consts S) (A : Arith S) (v : Vec S) :
    step ev K A v .setReadOnly = (v, some .attributeError) := rfl

theorem c15_step_setOther (ev : Ev S B) (K : Consts S) (A : Arith S) (v : Vec S) :
    step ev K A v .setOther = (v, none) := rfl

/-! ### 6. all histories -/

/-- every state of every history from a well-formed vector has its backend, flavour and dimension, and is well-formed -/
theorem c15_run_inv {ev : Ev S B} {K : Consts S} {A : Arith S} :
    ∀ (steps : List (Step S)) {v : Vec S}, WFV v →
      ∀ r ∈ run ev K A v steps, r.1.ty.be = v.ty.be ∧ r.1.ty.mom = v.ty.mom ∧ r.1.ty.dim = v.ty.dim ∧ WFV r.1
  | [], v, hv, r, hr => by simp [run] at hr
  | st :: rest, v, hv, r, hr => by
    obtain ⟨h1, h2, h3, -, -⟩ := c15_step_inv (ev := ev) (K := K) (A := A) hv st
    have hw := c15_step_wfv (ev := ev) (K := K) (A := A) hv st
    simp only [run, List.mem_cons] at hr
    rcases hr with rfl | hr
    · exact ⟨h1, h2, h3, hw⟩
    · obtain ⟨g1, g2, g3, g4⟩ := c15_run_inv rest hw r hr
      exact ⟨g1.trans h1, g2.trans h2, g3.trans h3, g4⟩

/-- the final state of every history likewise -/
theorem c15_runFinal_inv {ev : Ev S B} {K : Consts S} {A : Arith S} :
    ∀ (steps : List (Step S)) {v : Vec S}, WFV v →
      (runFinal ev K A v steps).ty.be = v.ty.be ∧ (runFinal ev K A v steps).ty.mom = v.ty.mom ∧
      (runFinal ev K A v steps).ty.dim = v.ty.dim ∧ WFV (runFinal ev K A v steps)
  | [], v, hv => ⟨rfl, rfl, rfl, hv⟩
  | st :: rest, v, hv => by
    obtain ⟨h1, h2, h3, -, -⟩ := c15_step_inv (ev := ev) (K := K) (A := A) hv st
    have hw := c15_step_wfv (ev := ev) (K := K) (A := A) hv st
    obtain ⟨g1, g2, g3, g4⟩ := c15_runFinal_inv (ev := ev) (K := K) (A := A) rest hw
    exact ⟨g1.trans h1, g2.trans h2, g3.trans h3, g4⟩

/-- one output per step -/
theorem c15_run_length {ev : Ev S B} {K : Consts S} {A : Arith S} :
    ∀ (steps : List (Step S)) (v : Vec S), (run ev K A v steps).length = steps.length
  | [], v => rfl
  | st :: rest, v => by simp [run, c15_run_length rest]

/-- `runFinal` is the state after the last step of `run` (the initial vector for the empty history) -/
theorem c15_runFinal_eq_last {ev : Ev S B} {K : Consts S} {A : Arith S} :
    ∀ (steps : List (Step S)) (v : Vec S),
      runFinal ev K A v steps = ((run ev K A v steps).getLast?.map (·.1)).getD v
  | [], v => rfl
  | [st], v => by simp [run, runFinal]
  | st :: st' :: rest, v => by
    have h := c15_runFinal_eq_last (ev := ev) (K := K) (A := A) (st' :: rest) (step ev K A v st).1
    rw [runFinal, h]
    simp [run, List.getLast?_cons]

/-- a history of in-place operators only never changes the type (class and coordinate system); no well-formedness
needed -/
theorem c15_run_iop_ty {ev : Ev S B} {K : Consts S} {A : Arith S} :
    ∀ (steps : List (Step S)) (v : Vec S), (∀ st ∈ steps, st.isIop) →
      (∀ r ∈ run ev K A v steps, r.1.ty = v.ty) ∧ (runFinal ev K A v steps).ty = v.ty
  | [], v, _ => ⟨by simp [run], rfl⟩
  | st :: rest, v, h => by
    have h1 := c15_step_iop_ty (ev := ev) (K := K) (A := A) (v := v) (h st (by simp))
    obtain ⟨g1, g2⟩ := c15_run_iop_ty (ev := ev) (K := K) (A := A) rest (step ev K A v st).1
      (fun s hs => h s (by simp [hs]))
    refine ⟨?_, by rw [runFinal, g2, h1]⟩
    intro r hr
    simp only [run, List.mem_cons] at hr
    rcases hr with rfl | hr
    · exact h1
    · rw [g1 r hr, h1]

/-- a step that raises in the middle of a history does not disturb it: the history continues from the same state -/
theorem c15_run_raise_skip {ev : Ev S B} {K : Consts S} {A : Arith S} {v : Vec S} {st : Step S} {e : Err}
    (rest : List (Step S)) (h : stepE ev K A v st = .error e) :
    run ev K A v (st :: rest) = (v, some e) :: run ev K A v rest ∧
    runFinal ev K A v (st :: rest) = runFinal ev K A v rest := by
  simp [run, runFinal, c15_step_error h]

/-! ### 5. read-back -/

/-- the nine identity accessors of the compute layer: the accessor named like a stored coordinate returns it -/
structure IdLaws (ev : Ev S B) : Prop where
  x : ∀ a b, ev .planar_x [.az .xy] [a, b] = some (.vals [a], .float)
  y : ∀ a b, ev .planar_y [.az .xy] [a, b] = some (.vals [b], .float)
  rho : ∀ a b, ev .planar_rho [.az .rhophi] [a, b] = some (.vals [a], .float)
  phi : ∀ a b, ev .planar_phi [.az .rhophi] [a, b] = some (.vals [b], .float)
  z : ∀ az a b c, ev .spatial_z [.az az, .lon .z] [a, b, c] = some (.vals [c], .float)
  theta : ∀ az a b c, ev .spatial_theta [.az az, .lon .theta] [a, b, c] = some (.vals [c], .float)
  eta : ∀ az a b c, ev .spatial_eta [.az az, .lon .eta] [a, b, c] = some (.vals [c], .float)
  t : ∀ az lon a b c d, ev .lorentz_t [.az az, .lon lon, .tmp .t] [a, b, c, d] = some (.vals [d], .float)
  tau : ∀ az lon a b c d, ev .lorentz_tau [.az az, .lon lon, .tmp .tau] [a, b, c, d] = some (.vals [d], .float)

local macro "get_stored_simp" hid:ident : tactic => `(tactic|
  simp [getS, getAcc, CName.acc, Acc.need, Acc.momOnly, Acc.mod, VT.dim, dispatch, ModuleId.info, operandSlots,
    operandSlotsGo, operandKey, Vec.azEl, Vec.lonEl, Vec.tmpEl, IdLaws.x $hid, IdLaws.y $hid, IdLaws.rho $hid,
    IdLaws.phi $hid, IdLaws.z $hid, IdLaws.theta $hid, IdLaws.eta $hid, IdLaws.t $hid, IdLaws.tau $hid, handlerOf,
    wrapResult])

/-- on a well-formed vector, the accessor of every STORED coordinate returns exactly the stored value -/
theorem c15_get_stored {ev : Ev S B} (hid : IdLaws ev) {v : Vec S} (hv : WFV v) {n : CName}
    (hn : n ∈ coordNames v.ty) {s : S} (hs : v.c[n.pos]? = some s) : getS ev n.acc v = .ok s := by
  rcases wfv_cases hv with ⟨be, mom, az, p, q, rfl⟩ | ⟨be, mom, az, l, p, q, r, rfl⟩ |
      ⟨be, mom, az, l, t, p, q, r, s', rfl⟩
  · cases az <;> cases n <;> simp [coordNames, azCNames] at hn <;>
      simp [CName.pos] at hs <;> subst hs <;> get_stored_simp hid
  · cases az <;> cases l <;> cases n <;> simp [coordNames, azCNames, lonCName] at hn <;>
      simp [CName.pos] at hs <;> subst hs <;> get_stored_simp hid
  · cases az <;> cases l <;> cases t <;> cases n <;> simp [coordNames, azCNames, lonCName, tmpCName] at hn <;>
      simp [CName.pos] at hs <;> subst hs <;> get_stored_simp hid

private theorem mem_coordNames_newTy (c : CName) (ty : VT) : c ∈ coordNames (c.newTy ty) := by
  obtain ⟨be, mom, az, lon, tmp⟩ := ty
  cases c <;> simp [coordNames, CName.newTy, azCNames, lonCName, tmpCName]

private theorem partner_mem_coordNames_newTy {c p : CName} (hp : c.partner = some p) (ty : VT) :
    p ∈ coordNames (c.newTy ty) := by
  obtain ⟨be, mom, az, lon, tmp⟩ := ty
  cases c <;> simp [CName.partner] at hp <;> subst hp <;> simp [coordNames, CName.newTy, azCNames]

private theorem other_mem_coordNames_newTy {c n : CName} (hn : n.grp ≠ c.grp) {ty : VT} (h : n ∈ coordNames ty) :
    n ∈ coordNames (c.newTy ty) := by
  obtain ⟨be, mom, az, lon, tmp⟩ := ty
  cases c <;> cases n <;> simp [CName.grp] at hn <;>
    rcases az with _ | _ <;> rcases lon with _ | (_ | _ | _) <;> rcases tmp with _ | (_ | _) <;>
    simp [coordNames, CName.newTy, azCNames, lonCName, tmpCName] at h ⊢

/-- a stored coordinate of a well-formed vector has a stored value at its position -/
theorem c15_stored_pos {v : Vec S} (hv : WFV v) {n : CName} (hn : n ∈ coordNames v.ty) :
    ∃ s, v.c[n.pos]? = some s := by
  rcases wfv_cases hv with ⟨be, mom, az, p, q, rfl⟩ | ⟨be, mom, az, l, p, q, r, rfl⟩ |
      ⟨be, mom, az, l, t, p, q, r, s', rfl⟩ <;>
    cases n <;> simp [CName.pos] <;>
    (cases az <;> simp [coordNames, azCNames] at hn) <;>
    (try (cases l <;> simp [lonCName] at hn)) <;> (try (cases t <;> simp [tmpCName] at hn))

/-- 5. read-back: the coordinate just assigned reads back EXACTLY -/
theorem c15_readback {ev : Ev S B} (hid : IdLaws ev) {c : CName} {a : S} {v v' : Vec S}
    (hv : WFV v) (hg : c.hasGroup v.ty) (h : setC ev c a v = .ok v') : getS ev c.acc v' = .ok a := by
  obtain ⟨hty, hpos, -⟩ := c15_setC_spec hv hg h
  exact c15_get_stored hid (c15_setC_inv hv h).2.2.2 (hty ▸ mem_coordNames_newTy c v.ty) hpos

/-- 5. the partner coordinate reads (after the assignment) as the value that was stored for it, which is the value it
read as BEFORE the assignment -/
theorem c15_readback_partner {ev : Ev S B} (hid : IdLaws ev) {c p : CName} {a : S} {v v' : Vec S}
    (hv : WFV v) (h : setC ev c a v = .ok v') (hp : c.partner = some p) :
    ∃ b, getS ev p.acc v = .ok b ∧ v'.c[p.pos]? = some b ∧ getS ev p.acc v' = .ok b := by
  have hg : c.hasGroup v.ty := by cases c <;> simp [CName.partner] at hp <;> simp [CName.hasGroup, CName.grp]
  obtain ⟨hty, -⟩ := c15_setC_spec hv hg h
  obtain ⟨b, hb, hpos⟩ := c15_setC_partner_stored hv h hp
  exact ⟨b, hb, hpos,
    c15_get_stored hid (c15_setC_inv hv h).2.2.2 (hty ▸ partner_mem_coordNames_newTy hp v.ty) hpos⟩

/-- 5. the stored coordinates of the other groups read the same before and after the assignment -/
theorem c15_readback_other {ev : Ev S B} (hid : IdLaws ev) {c n : CName} {a : S} {v v' : Vec S}
    (hv : WFV v) (hg : c.hasGroup v.ty) (h : setC ev c a v = .ok v') (hn : n ∈ coordNames v.ty)
    (hgrp : n.grp ≠ c.grp) : getS ev n.acc v' = getS ev n.acc v := by
  obtain ⟨hty, -⟩ := c15_setC_spec hv hg h
  obtain ⟨s, hs⟩ := c15_stored_pos hv hn
  rw [c15_get_stored hid hv hn hs]
  exact c15_get_stored hid (c15_setC_inv hv h).2.2.2 (hty ▸ other_mem_coordNames_newTy hgrp hn)
    ((c15_setC_other_pos hv hg h hgrp).trans hs)

/-- reading all stored coordinates of a well-formed vector through their accessors returns the stored list -/
theorem c15_read_all_stored {ev : Ev S B} (hid : IdLaws ev) {r : Vec S} (hr : WFV r) :
    (coordNames r.ty).mapM (fun n => getS ev n.acc r) = .ok r.c := by
  rcases wfv_cases hr with ⟨be, mom, az, p, q, rfl⟩ | ⟨be, mom, az, l, p, q, r', rfl⟩ |
      ⟨be, mom, az, l, t, p, q, r', s', rfl⟩
  · cases az <;>
      simp [coordNames, azCNames, List.mapM_cons, List.mapM_nil, bind, Except.bind, pure, Except.pure] <;>
      get_stored_simp hid
  · cases az <;> cases l <;>
      simp [coordNames, azCNames, lonCName, List.mapM_cons, List.mapM_nil, bind, Except.bind, pure, Except.pure] <;>
      get_stored_simp hid
  · cases az <;> cases l <;> cases t <;>
      simp [coordNames, azCNames, lonCName, tmpCName, List.mapM_cons, List.mapM_nil, bind, Except.bind, pure,
        Except.pure] <;>
      get_stored_simp hid

/-- functional equivalence, concrete form: when the functional result `r` is well-formed and stored in the SAME
coordinate system as the object, `_replace_data` copies its coordinates verbatim (class and flavour stay the object's) -/
theorem c15_replaceData_same_system {ev : Ev S B} (hid : IdLaws ev) {v r : Vec S} (hr : WFV r)
    (haz : r.ty.az = v.ty.az) (hlon : r.ty.lon = v.ty.lon) (htmp : r.ty.tmp = v.ty.tmp) :
    replaceData ev v r = .ok ⟨v.ty, r.c⟩ := by
  have hc : coordNames v.ty = coordNames r.ty := by simp [coordNames, haz, hlon, htmp]
  rw [c15_replaceData_eq, hc, c15_read_all_stored hid hr]
  rfl

end

/-! ### link to the string layer: an assignment is classified as a setter step only when the class has the group -/

theorem c15_stepOfSet_hasGroup {S : Type} {ty : VT} (hw : WF ty) {name : String} {a a' : S} {c : CName}
    (h : stepOfSet ty name a = .set c a') : c.hasGroup ty ∧ a' = a := by
  unfold stepOfSet at h
  generalize setterOfName ty.mom name = o at h
  generalize isReadOnlyProp ty name = b at h
  obtain ⟨be, mom, az, lon, tmp⟩ := ty
  cases o with
  | none => cases b <;> simp at h
  | some c' =>
    cases b <;> cases c' <;> cases lon <;> cases tmp <;> simp [VT.dim, WF] at h hw <;>
      (obtain ⟨rfl, rfl⟩ := h) <;> simp [CName.hasGroup, CName.grp]

/-! ### the generated executable compute layer satisfies the identity laws -/

section
open VE
variable {S : Type} [Scalar S]

/-- the generated executable copy of the compute layer, as the glue sees it -/
def execEv (S : Type) [Scalar S] : Ev S (VE.B S) := fun m k a => Compute.eval (S := S) m k a

/-- `IdLaws` holds for the generated compute layer at EVERY scalar type (the identity accessors are `rfl` there) -/
theorem c15_idLaws_exec : IdLaws (execEv S) where
  x _ _ := rfl
  y _ _ := rfl
  rho _ _ := rfl
  phi _ _ := rfl
  z az _ _ _ := by cases az <;> rfl
  theta az _ _ _ := by cases az <;> rfl
  eta az _ _ _ := by cases az <;> rfl
  t az lon _ _ _ _ := by cases az <;> cases lon <;> rfl
  tau az lon _ _ _ _ := by cases az <;> cases lon <;> rfl

/-! ### examples: the hypotheses are satisfiable -/

/-- a concrete well-formed 4D momentum vector (x, y, z, t) -/
def ex4 (x y z t : S) : Vec S := ⟨{ mom := true, az := .xy, lon := some .z, tmp := some .t }, [x, y, z, t]⟩

example (x y z t : S) : WFV (ex4 x y z t) := ⟨fun _ => rfl, rfl⟩
example (x y z t : S) (c : CName) : c.hasGroup (ex4 x y z t).ty := by cases c <;> simp [CName.hasGroup, CName.grp, ex4]

/-- assigning `rho` on the Cartesian vector re-stores the azimuthal group as (rho, phi), phi read through its accessor -/
example (x y z t a : S) :
    setC (execEv S) .rho a (ex4 x y z t) =
      .ok ⟨{ mom := true, az := .rhophi, lon := some .z, tmp := some .t }, [a, planar_phi.xy x y, z, t]⟩ := rfl

/-- … and `rho` then reads back exactly -/
example (x y z t a : S) (v' : Vec S) (h : setC (execEv S) .rho a (ex4 x y z t) = .ok v') :
    getS (execEv S) .rho v' = .ok a :=
  c15_readback c15_idLaws_exec ⟨fun _ => rfl, rfl⟩ (by simp [CName.hasGroup, CName.grp]) h

/-- a three-step history: `v.x = a; v.tau = m; v.rho2 = …` (read-only: raises, state kept) -/
example (x y z t a m : S) (K : Consts S) (A : Arith S) :
    run (execEv S) K A (ex4 x y z t) [.set .x a, .set .tau m, .setReadOnly] =
      [ (⟨{ mom := true, az := .xy, lon := some .z, tmp := some .t }, [a, y, z, t]⟩, none),
        (⟨{ mom := true, az := .xy, lon := some .z, tmp := some .tau }, [a, y, z, m]⟩, none),
        (⟨{ mom := true, az := .xy, lon := some .z, tmp := some .tau }, [a, y, z, m]⟩, some .attributeError) ] := rfl

/-- the invariants on a three-step history with an in-place operator, for every compute layer -/
example {B : Type} (ev : Ev S B) (K : Consts S) (A : Arith S) (x y z t a f : S) (o : Vec S) :
    ∀ r ∈ run ev K A (ex4 x y z t) [.set .phi a, .iopS .mul f, .iopV .add o],
      r.1.ty.be = .obj ∧ r.1.ty.mom = true ∧ r.1.ty.dim = 4 ∧ WFV r.1 :=
  c15_run_inv _ (v := ex4 x y z t) ⟨fun _ => rfl, rfl⟩

example {B : Type} (ev : Ev S B) (K : Consts S) (A : Arith S) (x y z t f g : S) (o : Vec S) :
    (runFinal ev K A (ex4 x y z t) [.iopS .mul f, .iopV .sub o, .iopS .div g]).ty = (ex4 x y z t).ty :=
  (c15_run_iop_ty _ _ (by simp [Step.isIop])).2

/-- `v *= f` on the generated compute layer: the functional result `v * f`, and the object afterwards -/
example (x y z t f : S) (K : Consts S) (A : Arith S) :
    iopResult (execEv S) K A (ex4 x y z t) (.iopS .mul f) = .ok (.vec (ex4 (x * f) (y * f) (z * f) (t * f))) ∧
    step (execEv S) K A (ex4 x y z t) (.iopS .mul f) = (ex4 (x * f) (y * f) (z * f) (t * f), none) := ⟨rfl, rfl⟩

/-- `v *= o` (a vector) raises TypeError and leaves the object unchanged -/
example (x y z t : S) (o : Vec S) (K : Consts S) (A : Arith S) :
    step (execEv S) K A (ex4 x y z t) (.iopV .mul o) = (ex4 x y z t, some .typeError) := rfl

/-- well-formedness is needed for the dimension invariant: on the (unreachable) type with a temporal but no
longitudinal coordinate, `v.z = a` would add a group -/
example {B : Type} (ev : Ev S B) (x y t a : S) :
    ∃ v', setC ev .z a ⟨{ mom := false, az := .xy, lon := none, tmp := some .t }, [x, y, t]⟩ = .ok v' ∧
      v'.ty.dim = 4 := ⟨_, rfl, rfl⟩

end
end VG
