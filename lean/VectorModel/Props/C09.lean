/-
C09 — boosts are Lorentz transformations with the documented relations.
Theorems about the *generated* real-number model of
`_compute/lorentz/{boostX_beta,boostY_beta,boostZ_beta,boostX_gamma,boostY_gamma,boostZ_gamma,
boost_beta3,boost_p4,to_beta3,dot,tau}.py` (Cartesian variants).
-/
import VectorModel.Gen.Real.lorentz_boostX_beta
import VectorModel.Gen.Real.lorentz_boostY_beta
import VectorModel.Gen.Real.lorentz_boostZ_beta
import VectorModel.Gen.Real.lorentz_boostX_gamma
import VectorModel.Gen.Real.lorentz_boostY_gamma
import VectorModel.Gen.Real.lorentz_boostZ_gamma
import VectorModel.Gen.Real.lorentz_boost_beta3
import VectorModel.Gen.Real.lorentz_boost_p4
import VectorModel.Gen.Real.lorentz_to_beta3
import VectorModel.Gen.Real.lorentz_dot
import VectorModel.Gen.Real.lorentz_tau
import VectorModel.Gen.Real.spatial_scale
import Mathlib.Tactic.Ring
import Mathlib.Tactic.Linarith
import Mathlib.Tactic.FieldSimp
import Mathlib.Tactic.NormNum
import Mathlib.Tactic.Positivity
import Mathlib.Tactic.LinearCombination

namespace VR
open VK

/-- Minkowski product of two Cartesian four-vectors `(x, y, z, t)`. -/
def mdot (a b : ℝ × ℝ × ℝ × ℝ) : ℝ :=
  a.2.2.2 * b.2.2.2 - a.1 * b.1 - a.2.1 * b.2.1 - a.2.2.1 * b.2.2.1

/-- `mdot` is the generated `lorentz_dot` on Cartesian operands. -/
theorem c09_mdot_eq_dot (a b : ℝ × ℝ × ℝ × ℝ) :
    lorentz_dot.eval .xy .z .t .xy .z .t a.1 a.2.1 a.2.2.1 a.2.2.2 b.1 b.2.1 b.2.2.1 b.2.2.2 = mdot a b := by
  simp only [d_lorentz_dot, d_lorentz_t, d_spatial_dot, mdot]
  ring

/-! ### the Lorentz factor -/

private theorem rpow_neg_half {u : ℝ} (hu : 0 < u) : P.rpow u (-(0.5 : ℝ)) = 1 / Real.sqrt u := by
  have h : (0.5 : ℝ) = 1 / 2 := by norm_num
  show Real.rpow u (-(0.5 : ℝ)) = 1 / Real.sqrt u
  rw [h, Real.sqrt_eq_rpow, one_div (u ^ (1 / 2 : ℝ))]
  exact Real.rpow_neg hu.le _

/-- `g = (1-β²)^(-1/2)` satisfies `g² (1-β²) = 1`. -/
private theorem gam_sq {u : ℝ} (hu : 0 < u) : (P.rpow u (-(0.5 : ℝ))) ^ 2 * u = 1 := by
  rw [rpow_neg_half hu]
  have hs : 0 < Real.sqrt u := Real.sqrt_pos.mpr hu
  have h2 : Real.sqrt u ^ 2 = u := Real.sq_sqrt hu.le
  field_simp
  linarith

private theorem gam_pos {u : ℝ} (hu : 0 < u) : 0 < P.rpow u (-(0.5 : ℝ)) := by
  rw [rpow_neg_half hu]
  have hs : 0 < Real.sqrt u := Real.sqrt_pos.mpr hu
  positivity

private theorem one_sub_sq_pos {b : ℝ} (hb : |b| < 1) : 0 < 1 - b ^ 2 := by
  have := abs_lt.mp hb
  nlinarith

/-- uniqueness: the positive solution of `h² u = 1` is the code's `u ** -0.5`. -/
private theorem gam_unique {u h : ℝ} (hu : 0 < u) (hh : 0 < h) (h1 : h ^ 2 * u = 1) :
    P.rpow u (-(0.5 : ℝ)) = h := by
  have hg := gam_sq hu
  have hp := gam_pos hu
  set g := P.rpow u (-(0.5 : ℝ))
  have h3 : (g - h) * ((g + h) * u) = 0 := by linear_combination hg - h1
  rcases mul_eq_zero.mp h3 with h4 | h4
  · linarith
  · exact absurd h4 (by positivity)

/-! ### the generated Cartesian boosts as maps on four-vectors `(x, y, z, t)` -/

/-- four-vector `(x, y, z, t)` -/
abbrev V4 := ℝ × ℝ × ℝ × ℝ
/-- three-vector `(x, y, z)` -/
abbrev V3 := ℝ × ℝ × ℝ

/-- `v.boostX(beta=β)` on Cartesian `v` -/
noncomputable abbrev bXβ (β : ℝ) (v : V4) : V4 := lorentz_boostX_beta.eval .xy .z .t β v.1 v.2.1 v.2.2.1 v.2.2.2
/-- `v.boostY(beta=β)` -/
noncomputable abbrev bYβ (β : ℝ) (v : V4) : V4 := lorentz_boostY_beta.eval .xy .z .t β v.1 v.2.1 v.2.2.1 v.2.2.2
/-- `v.boostZ(beta=β)` -/
noncomputable abbrev bZβ (β : ℝ) (v : V4) : V4 := lorentz_boostZ_beta.eval .xy .z .t β v.1 v.2.1 v.2.2.1 v.2.2.2
/-- `v.boostX(gamma=γ)` -/
noncomputable abbrev bXγ (γ : ℝ) (v : V4) : V4 := lorentz_boostX_gamma.eval .xy .z .t γ v.1 v.2.1 v.2.2.1 v.2.2.2
/-- `v.boostY(gamma=γ)` -/
noncomputable abbrev bYγ (γ : ℝ) (v : V4) : V4 := lorentz_boostY_gamma.eval .xy .z .t γ v.1 v.2.1 v.2.2.1 v.2.2.2
/-- `v.boostZ(gamma=γ)` -/
noncomputable abbrev bZγ (γ : ℝ) (v : V4) : V4 := lorentz_boostZ_gamma.eval .xy .z .t γ v.1 v.2.1 v.2.2.1 v.2.2.2
/-- `v.boost_beta3(b)` with Cartesian `b` -/
noncomputable abbrev bβ3 (v : V4) (b : V3) : V4 :=
  lorentz_boost_beta3.eval .xy .z .t .xy .z v.1 v.2.1 v.2.2.1 v.2.2.2 b.1 b.2.1 b.2.2
/-- `v.boost_p4(p)` with Cartesian `p` -/
noncomputable abbrev bp4 (v p : V4) : V4 :=
  lorentz_boost_p4.eval .xy .z .t .xy .z .t v.1 v.2.1 v.2.2.1 v.2.2.2 p.1 p.2.1 p.2.2.1 p.2.2.2
/-- `p.to_beta3()` -/
noncomputable abbrev toβ3 (p : V4) : V3 := lorentz_to_beta3.eval .xy .z .t p.1 p.2.1 p.2.2.1 p.2.2.2

/-! ### 1. axis boosts by velocity: Minkowski product, inverse, velocity addition -/

theorem c09_boostX_beta_mdot (β : ℝ) (v w : V4) (hβ : |β| < 1) :
    mdot (bXβ β v) (bXβ β w) = mdot v w := by
  obtain ⟨x, y, z, t⟩ := v
  obtain ⟨x', y', z', t'⟩ := w
  have hg := gam_sq (one_sub_sq_pos hβ)
  simp only [d_lorentz_boostX_beta, mdot]
  set g := P.rpow (1 - β ^ 2) (-(0.5 : ℝ))
  linear_combination (t * t' - x * x') * hg

theorem c09_boostY_beta_mdot (β : ℝ) (v w : V4) (hβ : |β| < 1) :
    mdot (bYβ β v) (bYβ β w) = mdot v w := by
  obtain ⟨x, y, z, t⟩ := v
  obtain ⟨x', y', z', t'⟩ := w
  have hg := gam_sq (one_sub_sq_pos hβ)
  simp only [d_lorentz_boostY_beta, mdot]
  set g := P.rpow (1 - β ^ 2) (-(0.5 : ℝ))
  linear_combination (t * t' - y * y') * hg

theorem c09_boostZ_beta_mdot (β : ℝ) (v w : V4) (hβ : |β| < 1) :
    mdot (bZβ β v) (bZβ β w) = mdot v w := by
  obtain ⟨x, y, z, t⟩ := v
  obtain ⟨x', y', z', t'⟩ := w
  have hg := gam_sq (one_sub_sq_pos hβ)
  simp only [d_lorentz_boostZ_beta, mdot]
  set g := P.rpow (1 - β ^ 2) (-(0.5 : ℝ))
  linear_combination (t * t' - z * z') * hg

/-- the opposite boost undoes a boost -/
theorem c09_boostX_beta_inv (β : ℝ) (v : V4) (hβ : |β| < 1) : bXβ (-β) (bXβ β v) = v := by
  obtain ⟨x, y, z, t⟩ := v
  have hg := gam_sq (one_sub_sq_pos hβ)
  simp only [d_lorentz_boostX_beta, neg_sq]
  set g := P.rpow (1 - β ^ 2) (-(0.5 : ℝ))
  refine Prod.ext ?_ (Prod.ext rfl (Prod.ext rfl ?_))
  · show g * (g * x + β * g * t) + -β * g * (β * g * x + g * t) = x
    linear_combination x * hg
  · show -β * g * (g * x + β * g * t) + g * (β * g * x + g * t) = t
    linear_combination t * hg

theorem c09_boostY_beta_inv (β : ℝ) (v : V4) (hβ : |β| < 1) : bYβ (-β) (bYβ β v) = v := by
  obtain ⟨x, y, z, t⟩ := v
  have hg := gam_sq (one_sub_sq_pos hβ)
  simp only [d_lorentz_boostY_beta, neg_sq]
  set g := P.rpow (1 - β ^ 2) (-(0.5 : ℝ))
  refine Prod.ext rfl (Prod.ext ?_ (Prod.ext rfl ?_))
  · show g * (g * y + β * g * t) + -β * g * (β * g * y + g * t) = y
    linear_combination y * hg
  · show -β * g * (g * y + β * g * t) + g * (β * g * y + g * t) = t
    linear_combination t * hg

theorem c09_boostZ_beta_inv (β : ℝ) (v : V4) (hβ : |β| < 1) : bZβ (-β) (bZβ β v) = v := by
  obtain ⟨x, y, z, t⟩ := v
  have hg := gam_sq (one_sub_sq_pos hβ)
  simp only [d_lorentz_boostZ_beta, neg_sq]
  set g := P.rpow (1 - β ^ 2) (-(0.5 : ℝ))
  refine Prod.ext rfl (Prod.ext rfl (Prod.ext ?_ ?_))
  · show g * (g * z + β * g * t) + -β * g * (β * g * z + g * t) = z
    linear_combination z * hg
  · show -β * g * (g * z + β * g * t) + g * (β * g * z + g * t) = t
    linear_combination t * hg

/-! relativistic velocity addition -/

private theorem one_add_mul_pos {a b : ℝ} (ha : |a| < 1) (hb : |b| < 1) : 0 < 1 + a * b := by
  have h1 := abs_lt.mp ha
  have h2 := abs_lt.mp hb
  nlinarith [mul_pos (sub_pos.mpr h1.2) (sub_pos.mpr h2.2),
    mul_pos (show 0 < a + 1 by linarith) (show 0 < b + 1 by linarith)]

private theorem one_sub_addvel_sq {a b : ℝ} (ha : |a| < 1) (hb : |b| < 1) :
    1 - ((a + b) / (1 + a * b)) ^ 2 = (1 - a ^ 2) * (1 - b ^ 2) / (1 + a * b) ^ 2 := by
  have h := (one_add_mul_pos ha hb).ne'
  field_simp
  ring

/-- the composed velocity is again subluminal -/
theorem c09_addvel_abs_lt_one {a b : ℝ} (ha : |a| < 1) (hb : |b| < 1) :
    |(a + b) / (1 + a * b)| < 1 := by
  have h := one_add_mul_pos ha hb
  have h3 : 0 < 1 - ((a + b) / (1 + a * b)) ^ 2 := by
    rw [one_sub_addvel_sq ha hb]
    have := one_sub_sq_pos ha
    have := one_sub_sq_pos hb
    positivity
  have h4 : ((a + b) / (1 + a * b)) ^ 2 < 1 ^ 2 := by linarith
  have := abs_lt_of_sq_lt_sq h4 (by norm_num)
  simpa using this

private theorem gam_addvel {a b : ℝ} (ha : |a| < 1) (hb : |b| < 1) :
    P.rpow (1 - ((a + b) / (1 + a * b)) ^ 2) (-(0.5 : ℝ)) =
      P.rpow (1 - a ^ 2) (-(0.5 : ℝ)) * P.rpow (1 - b ^ 2) (-(0.5 : ℝ)) * (1 + a * b) := by
  have h := one_add_mul_pos ha hb
  have ha' := one_sub_sq_pos ha
  have hb' := one_sub_sq_pos hb
  have hga := gam_sq ha'
  have hgb := gam_sq hb'
  have hpa := gam_pos ha'
  have hpb := gam_pos hb'
  set ga := P.rpow (1 - a ^ 2) (-(0.5 : ℝ))
  set gb := P.rpow (1 - b ^ 2) (-(0.5 : ℝ))
  apply gam_unique
  · rw [one_sub_addvel_sq ha hb]; positivity
  · positivity
  · rw [one_sub_addvel_sq ha hb]
    field_simp
    linear_combination (gb ^ 2 * (1 - b ^ 2)) * hga + hgb

/-- two successive boosts along x compose by relativistic velocity addition -/
theorem c09_boostX_beta_comp (β₁ β₂ : ℝ) (v : V4) (h₁ : |β₁| < 1) (h₂ : |β₂| < 1) :
    bXβ β₂ (bXβ β₁ v) = bXβ ((β₁ + β₂) / (1 + β₁ * β₂)) v := by
  obtain ⟨x, y, z, t⟩ := v
  have h := (one_add_mul_pos h₁ h₂).ne'
  simp only [d_lorentz_boostX_beta, gam_addvel h₁ h₂]
  set g₁ := P.rpow (1 - β₁ ^ 2) (-(0.5 : ℝ))
  set g₂ := P.rpow (1 - β₂ ^ 2) (-(0.5 : ℝ))
  have hb : (β₁ + β₂) / (1 + β₁ * β₂) * (g₁ * g₂ * (1 + β₁ * β₂)) = (β₁ + β₂) * (g₁ * g₂) := by
    field_simp
  refine Prod.ext ?_ (Prod.ext rfl (Prod.ext rfl ?_))
  · show g₂ * (g₁ * x + β₁ * g₁ * t) + β₂ * g₂ * (β₁ * g₁ * x + g₁ * t) =
      g₁ * g₂ * (1 + β₁ * β₂) * x + (β₁ + β₂) / (1 + β₁ * β₂) * (g₁ * g₂ * (1 + β₁ * β₂)) * t
    rw [hb]; ring
  · show β₂ * g₂ * (g₁ * x + β₁ * g₁ * t) + g₂ * (β₁ * g₁ * x + g₁ * t) =
      (β₁ + β₂) / (1 + β₁ * β₂) * (g₁ * g₂ * (1 + β₁ * β₂)) * x + g₁ * g₂ * (1 + β₁ * β₂) * t
    rw [hb]; ring

/-- two successive boosts along y compose by relativistic velocity addition -/
theorem c09_boostY_beta_comp (β₁ β₂ : ℝ) (v : V4) (h₁ : |β₁| < 1) (h₂ : |β₂| < 1) :
    bYβ β₂ (bYβ β₁ v) = bYβ ((β₁ + β₂) / (1 + β₁ * β₂)) v := by
  obtain ⟨x, y, z, t⟩ := v
  have h := (one_add_mul_pos h₁ h₂).ne'
  simp only [d_lorentz_boostY_beta, gam_addvel h₁ h₂]
  set g₁ := P.rpow (1 - β₁ ^ 2) (-(0.5 : ℝ))
  set g₂ := P.rpow (1 - β₂ ^ 2) (-(0.5 : ℝ))
  have hb : (β₁ + β₂) / (1 + β₁ * β₂) * (g₁ * g₂ * (1 + β₁ * β₂)) = (β₁ + β₂) * (g₁ * g₂) := by
    field_simp
  refine Prod.ext rfl (Prod.ext ?_ (Prod.ext rfl ?_))
  · show g₂ * (g₁ * y + β₁ * g₁ * t) + β₂ * g₂ * (β₁ * g₁ * y + g₁ * t) =
      g₁ * g₂ * (1 + β₁ * β₂) * y + (β₁ + β₂) / (1 + β₁ * β₂) * (g₁ * g₂ * (1 + β₁ * β₂)) * t
    rw [hb]; ring
  · show β₂ * g₂ * (g₁ * y + β₁ * g₁ * t) + g₂ * (β₁ * g₁ * y + g₁ * t) =
      (β₁ + β₂) / (1 + β₁ * β₂) * (g₁ * g₂ * (1 + β₁ * β₂)) * y + g₁ * g₂ * (1 + β₁ * β₂) * t
    rw [hb]; ring

/-- two successive boosts along z compose by relativistic velocity addition -/
theorem c09_boostZ_beta_comp (β₁ β₂ : ℝ) (v : V4) (h₁ : |β₁| < 1) (h₂ : |β₂| < 1) :
    bZβ β₂ (bZβ β₁ v) = bZβ ((β₁ + β₂) / (1 + β₁ * β₂)) v := by
  obtain ⟨x, y, z, t⟩ := v
  have h := (one_add_mul_pos h₁ h₂).ne'
  simp only [d_lorentz_boostZ_beta, gam_addvel h₁ h₂]
  set g₁ := P.rpow (1 - β₁ ^ 2) (-(0.5 : ℝ))
  set g₂ := P.rpow (1 - β₂ ^ 2) (-(0.5 : ℝ))
  have hb : (β₁ + β₂) / (1 + β₁ * β₂) * (g₁ * g₂ * (1 + β₁ * β₂)) = (β₁ + β₂) * (g₁ * g₂) := by
    field_simp
  refine Prod.ext rfl (Prod.ext rfl (Prod.ext ?_ ?_))
  · show g₂ * (g₁ * z + β₁ * g₁ * t) + β₂ * g₂ * (β₁ * g₁ * z + g₁ * t) =
      g₁ * g₂ * (1 + β₁ * β₂) * z + (β₁ + β₂) / (1 + β₁ * β₂) * (g₁ * g₂ * (1 + β₁ * β₂)) * t
    rw [hb]; ring
  · show β₂ * g₂ * (g₁ * z + β₁ * g₁ * t) + g₂ * (β₁ * g₁ * z + g₁ * t) =
      (β₁ + β₂) / (1 + β₁ * β₂) * (g₁ * g₂ * (1 + β₁ * β₂)) * z + g₁ * g₂ * (1 + β₁ * β₂) * t
    rw [hb]; ring

/-! non-vacuity of the hypotheses of section 1 -/
example : |(0.6 : ℝ)| < 1 ∧ |(-0.8 : ℝ)| < 1 := by
  constructor <;> rw [abs_lt] <;> constructor <;> norm_num

/-! ### 2. `boost_beta3`: Minkowski product and inverse -/

/-- the relations between the auxiliary quantities of `boost_beta3.cartesian_t`:
`γ = 1/√(1-β²)` and `bgam = γ²/(1+γ)` -/
private theorem beta3_facts {s : ℝ} (hs : s < 1) :
    0 < 1 / √(1 - s) ∧ (1 / √(1 - s)) ^ 2 * (1 - s) = 1 ∧
      (1 / √(1 - s)) ^ 2 / (1 + 1 / √(1 - s)) * (1 + 1 / √(1 - s)) = (1 / √(1 - s)) ^ 2 ∧
      (1 / √(1 - s)) ^ 2 / (1 + 1 / √(1 - s)) * s = 1 / √(1 - s) - 1 := by
  have hu : 0 < 1 - s := by linarith
  have hsq : 0 < √(1 - s) := Real.sqrt_pos.mpr hu
  have hG : 0 < 1 / √(1 - s) := by positivity
  have h2 : (1 / √(1 - s)) ^ 2 * (1 - s) = 1 := by
    have : √(1 - s) ^ 2 = 1 - s := Real.sq_sqrt hu.le
    field_simp
    linarith
  set G := 1 / √(1 - s)
  have h1G : (1 + G) ≠ 0 := by positivity
  have hk : G ^ 2 / (1 + G) * (1 + G) = G ^ 2 := div_mul_cancel₀ _ h1G
  refine ⟨hG, h2, hk, ?_⟩
  have : (G ^ 2 / (1 + G) * s - (G - 1)) * (1 + G) = 0 := by
    linear_combination s * hk - h2
  rcases mul_eq_zero.mp this with h | h
  · linarith
  · exact absurd h h1G

theorem c09_boost_beta3_mdot (v w : V4) (b : V3) (hb : b.1 ^ 2 + b.2.1 ^ 2 + b.2.2 ^ 2 < 1) :
    mdot (bβ3 v b) (bβ3 w b) = mdot v w := by
  obtain ⟨x, y, z, t⟩ := v
  obtain ⟨x', y', z', t'⟩ := w
  obtain ⟨bx, bY, bz⟩ := b
  obtain ⟨-, hG, hk, hk2⟩ := beta3_facts hb
  simp only [d_lorentz_boost_beta3, d_lorentz_transform4D, mdot]
  simp only [] at hG hk hk2
  set G := 1 / √(1 - (bx ^ 2 + bY ^ 2 + bz ^ 2))
  set k := G ^ 2 / (1 + G)
  linear_combination (t * t') * hG
    - (bx * x + bY * y + bz * z) * (bx * x' + bY * y' + bz * z') * hk
    - (G * ((bx * x + bY * y + bz * z) * t' + (bx * x' + bY * y' + bz * z') * t)
        + k * (bx * x + bY * y + bz * z) * (bx * x' + bY * y' + bz * z')) * hk2

/-- the boost by the opposite velocity undoes `boost_beta3` -/
theorem c09_boost_beta3_inv (v : V4) (b : V3) (hb : b.1 ^ 2 + b.2.1 ^ 2 + b.2.2 ^ 2 < 1) :
    bβ3 (bβ3 v b) (-b.1, -b.2.1, -b.2.2) = v := by
  obtain ⟨x, y, z, t⟩ := v
  obtain ⟨bx, bY, bz⟩ := b
  obtain ⟨-, hG, hk, hk2⟩ := beta3_facts hb
  simp only [d_lorentz_boost_beta3, d_lorentz_transform4D, neg_sq]
  simp only [] at hG hk hk2
  set G := 1 / √(1 - (bx ^ 2 + bY ^ 2 + bz ^ 2))
  set k := G ^ 2 / (1 + G)
  refine Prod.ext ?_ (Prod.ext ?_ (Prod.ext ?_ ?_)) <;> simp only []
  · linear_combination (bx * (bx * x + bY * y + bz * z)) * hk
      + (k * bx * (bx * x + bY * y + bz * z) + bx * G * t) * hk2
  · linear_combination (bY * (bx * x + bY * y + bz * z)) * hk
      + (k * bY * (bx * x + bY * y + bz * z) + bY * G * t) * hk2
  · linear_combination (bz * (bx * x + bY * y + bz * z)) * hk
      + (k * bz * (bx * x + bY * y + bz * z) + bz * G * t) * hk2
  · linear_combination t * hG - (G * (bx * x + bY * y + bz * z)) * hk2

/-! non-vacuity of the hypothesis of section 2 -/
example : ((0.3, 0.4, -0.5) : V3).1 ^ 2 + ((0.3, 0.4, -0.5) : V3).2.1 ^ 2 + ((0.3, 0.4, -0.5) : V3).2.2 ^ 2 < 1 := by
  norm_num

/-! ### 3. the different spellings agree -/

/-- `boostX(beta=β)` is `boost_beta3` with velocity `(β, 0, 0)` -/
theorem c09_boostX_beta_eq_beta3 (β : ℝ) (v : V4) (hβ : |β| < 1) : bXβ β v = bβ3 v (β, 0, 0) := by
  obtain ⟨x, y, z, t⟩ := v
  have hu := one_sub_sq_pos hβ
  obtain ⟨-, hG, hk, hk2⟩ := beta3_facts (show β ^ 2 < 1 by linarith)
  have e : β ^ 2 + (0 : ℝ) ^ 2 + (0 : ℝ) ^ 2 = β ^ 2 := by ring
  simp only [d_lorentz_boostX_beta, d_lorentz_boost_beta3, d_lorentz_transform4D, e, rpow_neg_half hu]
  set G := 1 / √(1 - β ^ 2)
  set k := G ^ 2 / (1 + G)
  refine Prod.ext ?_ (Prod.ext ?_ (Prod.ext ?_ ?_)) <;> simp only []
  · linear_combination (-x) * hk2
  · ring
  · ring
  · ring

/-- `boostY(beta=β)` is `boost_beta3` with velocity `(0, β, 0)` -/
theorem c09_boostY_beta_eq_beta3 (β : ℝ) (v : V4) (hβ : |β| < 1) : bYβ β v = bβ3 v (0, β, 0) := by
  obtain ⟨x, y, z, t⟩ := v
  have hu := one_sub_sq_pos hβ
  obtain ⟨-, hG, hk, hk2⟩ := beta3_facts (show β ^ 2 < 1 by linarith)
  have e : (0 : ℝ) ^ 2 + β ^ 2 + (0 : ℝ) ^ 2 = β ^ 2 := by ring
  simp only [d_lorentz_boostY_beta, d_lorentz_boost_beta3, d_lorentz_transform4D, e, rpow_neg_half hu]
  set G := 1 / √(1 - β ^ 2)
  set k := G ^ 2 / (1 + G)
  refine Prod.ext ?_ (Prod.ext ?_ (Prod.ext ?_ ?_)) <;> simp only []
  · ring
  · linear_combination (-y) * hk2
  · ring
  · ring

/-- `boostZ(beta=β)` is `boost_beta3` with velocity `(0, 0, β)` -/
theorem c09_boostZ_beta_eq_beta3 (β : ℝ) (v : V4) (hβ : |β| < 1) : bZβ β v = bβ3 v (0, 0, β) := by
  obtain ⟨x, y, z, t⟩ := v
  have hu := one_sub_sq_pos hβ
  obtain ⟨-, hG, hk, hk2⟩ := beta3_facts (show β ^ 2 < 1 by linarith)
  have e : (0 : ℝ) ^ 2 + (0 : ℝ) ^ 2 + β ^ 2 = β ^ 2 := by ring
  simp only [d_lorentz_boostZ_beta, d_lorentz_boost_beta3, d_lorentz_transform4D, e, rpow_neg_half hu]
  set G := 1 / √(1 - β ^ 2)
  set k := G ^ 2 / (1 + G)
  refine Prod.ext ?_ (Prod.ext ?_ (Prod.ext ?_ ?_)) <;> simp only []
  · ring
  · ring
  · linear_combination (-z) * hk2
  · ring

/-- `boost_p4(p)` is `boost_beta3(p.to_beta3())` for a forward timelike `p` -/
theorem c09_boost_p4_eq_beta3 (v p : V4) (hE : 0 < p.2.2.2)
    (hp : p.1 ^ 2 + p.2.1 ^ 2 + p.2.2.1 ^ 2 < p.2.2.2 ^ 2) : bp4 v p = bβ3 v (toβ3 p) := by
  obtain ⟨x, y, z, t⟩ := v
  obtain ⟨px, py, pz, E⟩ := p
  simp only [] at hE hp
  have hM : 0 < E ^ 2 - (px ^ 2 + py ^ 2 + pz ^ 2) := by linarith
  have hE0 : E ≠ 0 := hE.ne'
  have hG : 1 / √(1 - ((px / E) ^ 2 + (py / E) ^ 2 + (pz / E) ^ 2)) =
      E / √(E ^ 2 - (px ^ 2 + py ^ 2 + pz ^ 2)) := by
    have h1 : 1 - ((px / E) ^ 2 + (py / E) ^ 2 + (pz / E) ^ 2) =
        (E ^ 2 - (px ^ 2 + py ^ 2 + pz ^ 2)) / E ^ 2 := by
      field_simp
    rw [h1, Real.sqrt_div hM.le, Real.sqrt_sq hE.le, one_div_div]
  simp only [d_lorentz_boost_p4, d_lorentz_to_beta3, d_lorentz_boost_beta3, d_lorentz_transform4D,
    d_spatial_mag2, hG]
  have hm : 0 < √(E ^ 2 - (px ^ 2 + py ^ 2 + pz ^ 2)) := Real.sqrt_pos.mpr hM
  have hm2 : E ^ 2 - (px ^ 2 + py ^ 2 + pz ^ 2) = √(E ^ 2 - (px ^ 2 + py ^ 2 + pz ^ 2)) ^ 2 :=
    (Real.sq_sqrt hM.le).symm
  set M2 := E ^ 2 - (px ^ 2 + py ^ 2 + pz ^ 2)
  set m := √M2
  rw [hm2]
  have hmE : 0 < E / m + 1 := by positivity
  have hmE' : 0 < 1 + E / m := by positivity
  refine Prod.ext ?_ (Prod.ext ?_ (Prod.ext ?_ ?_)) <;> simp only [] <;> field_simp
  all_goals ring

/-- the velocity spelled by a Lorentz factor `γ` (`|γ| ≥ 1`; the sign of `γ` gives the direction) -/
noncomputable def betaOfGamma (γ : ℝ) : ℝ := P.sign γ * √(1 - 1 / γ ^ 2)

private theorem gamma_facts {γ : ℝ} (h : 1 ≤ |γ|) :
    |betaOfGamma γ| < 1 ∧ P.rpow (1 - betaOfGamma γ ^ 2) (-(0.5 : ℝ)) = |γ| ∧
      betaOfGamma γ * |γ| = P.copysign (√(|γ| ^ 2 - 1)) γ := by
  have hpos : 0 < |γ| := by linarith
  have hγ0 : γ ≠ 0 := abs_pos.mp hpos
  have hsq : 1 ≤ γ ^ 2 := by rw [← sq_abs]; nlinarith
  have hu : 0 ≤ 1 - 1 / γ ^ 2 := by
    rw [sub_nonneg, div_le_one (by positivity)]; exact hsq
  have hs2 : P.sign γ ^ 2 = 1 := by
    unfold P.sign
    rcases lt_or_gt_of_ne hγ0 with hn | hp
    · rw [Real.sign_of_neg hn]; norm_num
    · rw [Real.sign_of_pos hp]; norm_num
  have hb2 : betaOfGamma γ ^ 2 = 1 - 1 / γ ^ 2 := by
    unfold betaOfGamma
    rw [mul_pow, hs2, Real.sq_sqrt hu, one_mul]
  have h1 : 1 - betaOfGamma γ ^ 2 = 1 / γ ^ 2 := by rw [hb2]; ring
  have hmul : √(1 - 1 / γ ^ 2) * |γ| = √(|γ| ^ 2 - 1) := by
    rw [← Real.sqrt_sq_eq_abs, ← Real.sqrt_mul hu, Real.sq_sqrt (by positivity)]
    congr 1
    field_simp
  refine ⟨?_, ?_, ?_⟩
  · have : betaOfGamma γ ^ 2 < 1 ^ 2 := by
      rw [hb2]
      have : 0 < 1 / γ ^ 2 := by positivity
      linarith
    exact abs_lt_of_sq_lt_sq this (by norm_num) |> fun h => by simpa using h
  · rw [h1]
    apply gam_unique (by positivity) hpos
    rw [sq_abs]; field_simp
  · unfold betaOfGamma P.copysign P.sign
    rw [mul_assoc, hmul, abs_of_nonneg (Real.sqrt_nonneg _)]
    rcases lt_or_gt_of_ne hγ0 with hn | hp
    · rw [Real.sign_of_neg hn, if_neg (not_le.mpr hn)]; ring
    · rw [Real.sign_of_pos hp, if_pos hp.le]; ring

/-- `boostX(gamma=γ)` is `boostX(beta=β)` for `β = sign γ · √(1 - 1/γ²)` -/
theorem c09_boostX_gamma_eq_beta (γ : ℝ) (v : V4) (hγ : 1 ≤ |γ|) : bXγ γ v = bXβ (betaOfGamma γ) v := by
  obtain ⟨x, y, z, t⟩ := v
  obtain ⟨-, hg, hbg⟩ := gamma_facts hγ
  simp only [d_lorentz_boostX_gamma, d_lorentz_boostX_beta, hg, hbg]

/-- `boostY(gamma=γ)` is `boostY(beta=β)` for `β = sign γ · √(1 - 1/γ²)` -/
theorem c09_boostY_gamma_eq_beta (γ : ℝ) (v : V4) (hγ : 1 ≤ |γ|) : bYγ γ v = bYβ (betaOfGamma γ) v := by
  obtain ⟨x, y, z, t⟩ := v
  obtain ⟨-, hg, hbg⟩ := gamma_facts hγ
  simp only [d_lorentz_boostY_gamma, d_lorentz_boostY_beta, hg, hbg]

/-- `boostZ(gamma=γ)` is `boostZ(beta=β)` for `β = sign γ · √(1 - 1/γ²)` -/
theorem c09_boostZ_gamma_eq_beta (γ : ℝ) (v : V4) (hγ : 1 ≤ |γ|) : bZγ γ v = bZβ (betaOfGamma γ) v := by
  obtain ⟨x, y, z, t⟩ := v
  obtain ⟨-, hg, hbg⟩ := gamma_facts hγ
  simp only [d_lorentz_boostZ_gamma, d_lorentz_boostZ_beta, hg, hbg]


/-- the signed Lorentz factor spelling the velocity `β` -/
noncomputable def gammaOfBeta (β : ℝ) : ℝ := P.copysign (P.rpow (1 - β ^ 2) (-(0.5 : ℝ))) β

private theorem beta_facts {β : ℝ} (hβ : |β| < 1) :
    |gammaOfBeta β| = P.rpow (1 - β ^ 2) (-(0.5 : ℝ)) ∧
      P.copysign (√(P.rpow (1 - β ^ 2) (-(0.5 : ℝ)) ^ 2 - 1)) (gammaOfBeta β) =
        β * P.rpow (1 - β ^ 2) (-(0.5 : ℝ)) := by
  have hu := one_sub_sq_pos hβ
  have hg := gam_sq hu
  have hp := gam_pos hu
  unfold gammaOfBeta
  set g := P.rpow (1 - β ^ 2) (-(0.5 : ℝ))
  have hs : √(g ^ 2 - 1) = |β| * g := by
    have : g ^ 2 - 1 = (|β| * g) ^ 2 := by rw [mul_pow, sq_abs]; linear_combination hg
    rw [this, Real.sqrt_sq (by positivity)]
  unfold P.copysign
  by_cases h0 : 0 ≤ β
  · rw [if_pos h0, abs_abs, abs_of_pos hp]
    refine ⟨rfl, ?_⟩
    rw [if_pos hp.le, hs, abs_of_nonneg (by positivity), abs_of_nonneg h0]
  · rw [if_neg h0, abs_neg, abs_abs, abs_of_pos hp]
    refine ⟨rfl, ?_⟩
    have hn : ¬ (0 ≤ -g) := by linarith
    rw [if_neg hn, hs, abs_of_nonneg (by positivity), abs_of_neg (not_le.mp h0)]
    ring

/-- `boostX(beta=β)` is `boostX(gamma=±(1-β²)^(-1/2))`, the sign being that of `β` -/
theorem c09_boostX_beta_eq_gamma (β : ℝ) (v : V4) (hβ : |β| < 1) : bXβ β v = bXγ (gammaOfBeta β) v := by
  obtain ⟨x, y, z, t⟩ := v
  obtain ⟨hg, hbg⟩ := beta_facts hβ
  simp only [d_lorentz_boostX_gamma, d_lorentz_boostX_beta, hg, hbg]

/-- `boostY(beta=β)` is `boostY(gamma=±(1-β²)^(-1/2))`, the sign being that of `β` -/
theorem c09_boostY_beta_eq_gamma (β : ℝ) (v : V4) (hβ : |β| < 1) : bYβ β v = bYγ (gammaOfBeta β) v := by
  obtain ⟨x, y, z, t⟩ := v
  obtain ⟨hg, hbg⟩ := beta_facts hβ
  simp only [d_lorentz_boostY_gamma, d_lorentz_boostY_beta, hg, hbg]

/-- `boostZ(beta=β)` is `boostZ(gamma=±(1-β²)^(-1/2))`, the sign being that of `β` -/
theorem c09_boostZ_beta_eq_gamma (β : ℝ) (v : V4) (hβ : |β| < 1) : bZβ β v = bZγ (gammaOfBeta β) v := by
  obtain ⟨x, y, z, t⟩ := v
  obtain ⟨hg, hbg⟩ := beta_facts hβ
  simp only [d_lorentz_boostZ_gamma, d_lorentz_boostZ_beta, hg, hbg]

/-- the signed Lorentz factor of a subluminal velocity lies in the domain `|γ| ≥ 1` of the `gamma` spelling -/
theorem c09_gammaOfBeta_abs_ge_one {β : ℝ} (hβ : |β| < 1) : 1 ≤ |gammaOfBeta β| := by
  rw [(beta_facts hβ).1]
  have hu := one_sub_sq_pos hβ
  have hg := gam_sq hu
  have hp := gam_pos hu
  nlinarith [sq_nonneg β, sq_nonneg (P.rpow (1 - β ^ 2) (-(0.5 : ℝ)))]

/-- the velocity spelled by `γ` is subluminal, and its Lorentz factor is `|γ|` -/
theorem c09_betaOfGamma_abs_lt_one {γ : ℝ} (hγ : 1 ≤ |γ|) : |betaOfGamma γ| < 1 := (gamma_facts hγ).1

theorem c09_betaOfGamma_gamma {γ : ℝ} (hγ : 1 ≤ |γ|) : P.rpow (1 - betaOfGamma γ ^ 2) (-(0.5 : ℝ)) = |γ| :=
  (gamma_facts hγ).2.1

/-- the sign of `γ` gives the direction -/
theorem c09_betaOfGamma_neg (γ : ℝ) : betaOfGamma (-γ) = -betaOfGamma γ := by
  unfold betaOfGamma P.sign
  rw [Real.sign_neg, neg_sq]; ring

/-! non-vacuity of the hypotheses of section 3 -/
example : (1 : ℝ) ≤ |(-1.25 : ℝ)| := by rw [abs_of_neg (by norm_num)]; norm_num
example : (0 : ℝ) < ((0.3, 0.4, 1.2, 2) : V4).2.2.2 ∧
    ((0.3, 0.4, 1.2, 2) : V4).1 ^ 2 + ((0.3, 0.4, 1.2, 2) : V4).2.1 ^ 2 + ((0.3, 0.4, 1.2, 2) : V4).2.2.1 ^ 2 <
      ((0.3, 0.4, 1.2, 2) : V4).2.2.2 ^ 2 := by
  norm_num

/-! ### 4. boosting into the own rest frame (`v.boostCM_of_p4(v)` is `v.boost_p4(-v)`) -/

theorem c09_boostCM_of_self (v : V4) (hE : 0 < v.2.2.2)
    (hv : v.1 ^ 2 + v.2.1 ^ 2 + v.2.2.1 ^ 2 < v.2.2.2 ^ 2) :
    bp4 v (-v.1, -v.2.1, -v.2.2.1, v.2.2.2) =
      (0, 0, 0, √(v.2.2.2 ^ 2 - v.1 ^ 2 - v.2.1 ^ 2 - v.2.2.1 ^ 2)) := by
  obtain ⟨x, y, z, t⟩ := v
  simp only [] at hE hv
  have hM : 0 < t ^ 2 - (x ^ 2 + y ^ 2 + z ^ 2) := by linarith
  have e : t ^ 2 - x ^ 2 - y ^ 2 - z ^ 2 = t ^ 2 - (x ^ 2 + y ^ 2 + z ^ 2) := by ring
  simp only [d_lorentz_boost_p4, d_lorentz_transform4D, d_spatial_mag2, neg_sq, e]
  have hm : 0 < √(t ^ 2 - (x ^ 2 + y ^ 2 + z ^ 2)) := Real.sqrt_pos.mpr hM
  have hm2 : √(t ^ 2 - (x ^ 2 + y ^ 2 + z ^ 2)) ^ 2 = t ^ 2 - (x ^ 2 + y ^ 2 + z ^ 2) := Real.sq_sqrt hM.le
  generalize √(t ^ 2 - (x ^ 2 + y ^ 2 + z ^ 2)) = m at hm hm2 ⊢
  rw [← hm2]
  have hmE : 0 < t / m + 1 := by positivity
  refine Prod.ext ?_ (Prod.ext ?_ (Prod.ext ?_ ?_)) <;> simp only [] <;> field_simp
  · linear_combination x * hm2
  · linear_combination y * hm2
  · linear_combination z * hm2
  · linear_combination (-1 : ℝ) * hm2

/-- `p.neg3D` (the method is `spatial.scale(-1, p)`, the temporal coordinate is kept) -/
noncomputable abbrev neg3D (p : V4) : V4 :=
  ((spatial_scale.eval .xy .z (-1) p.1 p.2.1 p.2.2.1).1, (spatial_scale.eval .xy .z (-1) p.1 p.2.1 p.2.2.1).2.1,
    (spatial_scale.eval .xy .z (-1) p.1 p.2.1 p.2.2.1).2.2, p.2.2.2)

/-- `v.boostCM_of_p4(p)` is `boost_p4.dispatch(v, p.neg3D)` -/
noncomputable abbrev boostCMp4 (v p : V4) : V4 := bp4 v (neg3D p)

/-- `v.tau` -/
noncomputable abbrev tauOf (v : V4) : ℝ := lorentz_tau.eval .xy .z .t v.1 v.2.1 v.2.2.1 v.2.2.2

theorem c09_neg3D (p : V4) : neg3D p = (-p.1, -p.2.1, -p.2.2.1, p.2.2.2) := by
  simp only [neg3D, d_spatial_scale, mul_neg, mul_one]

/-- `v.boostCM_of_p4(v)` has zero spatial part and time component `v.tau` -/
theorem c09_boostCM_of_p4_self (v : V4) (hE : 0 < v.2.2.2)
    (hv : v.1 ^ 2 + v.2.1 ^ 2 + v.2.2.1 ^ 2 < v.2.2.2 ^ 2) :
    boostCMp4 v v = (0, 0, 0, tauOf v) := by
  rw [boostCMp4, c09_neg3D, c09_boostCM_of_self v hE hv]
  obtain ⟨x, y, z, t⟩ := v
  have hM : 0 < t ^ 2 - (x ^ 2 + y ^ 2 + z ^ 2) := sub_pos.mpr hv
  have e : t ^ 2 - x ^ 2 - y ^ 2 - z ^ 2 = t ^ 2 - (x ^ 2 + y ^ 2 + z ^ 2) := by ring
  simp only [d_lorentz_tau, d_lorentz_tau2, d_spatial_mag2, P.copysign, e, if_pos hM.le, abs_of_pos hM,
    abs_of_nonneg (Real.sqrt_nonneg _)]

/-! ### corollaries: `boost_p4` and the `gamma` spellings are Lorentz transformations too -/

/-- the velocity of a forward timelike momentum is subluminal -/
theorem c09_to_beta3_subluminal (p : V4) (hE : 0 < p.2.2.2)
    (hp : p.1 ^ 2 + p.2.1 ^ 2 + p.2.2.1 ^ 2 < p.2.2.2 ^ 2) :
    (toβ3 p).1 ^ 2 + (toβ3 p).2.1 ^ 2 + (toβ3 p).2.2 ^ 2 < 1 := by
  obtain ⟨px, py, pz, E⟩ := p
  simp only [d_lorentz_to_beta3]
  have hE2 : 0 < E ^ 2 := pow_pos hE 2
  have : (px / E) ^ 2 + (py / E) ^ 2 + (pz / E) ^ 2 = (px ^ 2 + py ^ 2 + pz ^ 2) / E ^ 2 := by
    field_simp
  rw [this, div_lt_one hE2]
  exact hp

theorem c09_boost_p4_mdot (v w p : V4) (hE : 0 < p.2.2.2)
    (hp : p.1 ^ 2 + p.2.1 ^ 2 + p.2.2.1 ^ 2 < p.2.2.2 ^ 2) :
    mdot (bp4 v p) (bp4 w p) = mdot v w := by
  rw [c09_boost_p4_eq_beta3 v p hE hp, c09_boost_p4_eq_beta3 w p hE hp]
  exact c09_boost_beta3_mdot v w _ (c09_to_beta3_subluminal p hE hp)

/-- `boost_p4` is undone by the boost with the spatial part of the booster negated -/
theorem c09_boost_p4_inv (v p : V4) (hE : 0 < p.2.2.2)
    (hp : p.1 ^ 2 + p.2.1 ^ 2 + p.2.2.1 ^ 2 < p.2.2.2 ^ 2) :
    bp4 (bp4 v p) (neg3D p) = v := by
  have hE' : 0 < (neg3D p).2.2.2 := hE
  have hp' : (neg3D p).1 ^ 2 + (neg3D p).2.1 ^ 2 + (neg3D p).2.2.1 ^ 2 < (neg3D p).2.2.2 ^ 2 := by
    rw [c09_neg3D]; simpa only [neg_sq] using hp
  rw [c09_boost_p4_eq_beta3 _ (neg3D p) hE' hp', c09_boost_p4_eq_beta3 v p hE hp]
  have : toβ3 (neg3D p) = (-(toβ3 p).1, -(toβ3 p).2.1, -(toβ3 p).2.2) := by
    rw [c09_neg3D]
    simp only [d_lorentz_to_beta3, neg_div]
  rw [this]
  exact c09_boost_beta3_inv v _ (c09_to_beta3_subluminal p hE hp)

theorem c09_boostX_gamma_mdot (γ : ℝ) (v w : V4) (hγ : 1 ≤ |γ|) : mdot (bXγ γ v) (bXγ γ w) = mdot v w := by
  rw [c09_boostX_gamma_eq_beta γ v hγ, c09_boostX_gamma_eq_beta γ w hγ]
  exact c09_boostX_beta_mdot _ v w (c09_betaOfGamma_abs_lt_one hγ)

theorem c09_boostY_gamma_mdot (γ : ℝ) (v w : V4) (hγ : 1 ≤ |γ|) : mdot (bYγ γ v) (bYγ γ w) = mdot v w := by
  rw [c09_boostY_gamma_eq_beta γ v hγ, c09_boostY_gamma_eq_beta γ w hγ]
  exact c09_boostY_beta_mdot _ v w (c09_betaOfGamma_abs_lt_one hγ)

theorem c09_boostZ_gamma_mdot (γ : ℝ) (v w : V4) (hγ : 1 ≤ |γ|) : mdot (bZγ γ v) (bZγ γ w) = mdot v w := by
  rw [c09_boostZ_gamma_eq_beta γ v hγ, c09_boostZ_gamma_eq_beta γ w hγ]
  exact c09_boostZ_beta_mdot _ v w (c09_betaOfGamma_abs_lt_one hγ)

/-- `boostX(gamma=-γ)` undoes `boostX(gamma=γ)` -/
theorem c09_boostX_gamma_inv (γ : ℝ) (v : V4) (hγ : 1 ≤ |γ|) : bXγ (-γ) (bXγ γ v) = v := by
  rw [c09_boostX_gamma_eq_beta (-γ) _ (by rwa [abs_neg]), c09_boostX_gamma_eq_beta γ v hγ, c09_betaOfGamma_neg]
  exact c09_boostX_beta_inv _ v (c09_betaOfGamma_abs_lt_one hγ)

theorem c09_boostY_gamma_inv (γ : ℝ) (v : V4) (hγ : 1 ≤ |γ|) : bYγ (-γ) (bYγ γ v) = v := by
  rw [c09_boostY_gamma_eq_beta (-γ) _ (by rwa [abs_neg]), c09_boostY_gamma_eq_beta γ v hγ, c09_betaOfGamma_neg]
  exact c09_boostY_beta_inv _ v (c09_betaOfGamma_abs_lt_one hγ)

theorem c09_boostZ_gamma_inv (γ : ℝ) (v : V4) (hγ : 1 ≤ |γ|) : bZγ (-γ) (bZγ γ v) = v := by
  rw [c09_boostZ_gamma_eq_beta (-γ) _ (by rwa [abs_neg]), c09_boostZ_gamma_eq_beta γ v hγ, c09_betaOfGamma_neg]
  exact c09_boostZ_beta_inv _ v (c09_betaOfGamma_abs_lt_one hγ)

/-- `b.neg3D` of a three-vector -/
noncomputable abbrev neg3 (b : V3) : V3 := spatial_scale.eval .xy .z (-1) b.1 b.2.1 b.2.2

/-- `v.boostCM_of_beta3(v.to_beta3())` (that is `boost_beta3(v, v.to_beta3().neg3D)`) has zero spatial part and
time component `v.tau` -/
theorem c09_boostCM_of_beta3_self (v : V4) (hE : 0 < v.2.2.2)
    (hv : v.1 ^ 2 + v.2.1 ^ 2 + v.2.2.1 ^ 2 < v.2.2.2 ^ 2) :
    bβ3 v (neg3 (toβ3 v)) = (0, 0, 0, tauOf v) := by
  have hE' : 0 < (neg3D v).2.2.2 := hE
  have hp' : (neg3D v).1 ^ 2 + (neg3D v).2.1 ^ 2 + (neg3D v).2.2.1 ^ 2 < (neg3D v).2.2.2 ^ 2 := by
    rw [c09_neg3D]; simpa only [neg_sq] using hv
  have h : neg3 (toβ3 v) = toβ3 (neg3D v) := by
    rw [c09_neg3D]
    simp only [neg3, d_spatial_scale, d_lorentz_to_beta3, neg_div, mul_neg, mul_one]
  rw [h, ← c09_boost_p4_eq_beta3 v (neg3D v) hE' hp']
  exact c09_boostCM_of_p4_self v hE hv

/-! ### proper time is preserved (it is a function of the Minkowski square) -/

theorem c09_tau_eq_of_mdot (v : V4) : tauOf v = P.copysign (√|mdot v v|) (mdot v v) := by
  obtain ⟨x, y, z, t⟩ := v
  have e : t ^ 2 - (x ^ 2 + y ^ 2 + z ^ 2) = t * t - x * x - y * y - z * z := by ring
  simp only [d_lorentz_tau, d_lorentz_tau2, d_spatial_mag2, mdot, e]

theorem c09_tau_congr {v w : V4} (h : mdot v v = mdot w w) : tauOf v = tauOf w := by
  rw [c09_tau_eq_of_mdot, c09_tau_eq_of_mdot, h]

theorem c09_boostX_beta_tau (β : ℝ) (v : V4) (hβ : |β| < 1) : tauOf (bXβ β v) = tauOf v :=
  c09_tau_congr (c09_boostX_beta_mdot β v v hβ)
theorem c09_boostY_beta_tau (β : ℝ) (v : V4) (hβ : |β| < 1) : tauOf (bYβ β v) = tauOf v :=
  c09_tau_congr (c09_boostY_beta_mdot β v v hβ)
theorem c09_boostZ_beta_tau (β : ℝ) (v : V4) (hβ : |β| < 1) : tauOf (bZβ β v) = tauOf v :=
  c09_tau_congr (c09_boostZ_beta_mdot β v v hβ)
theorem c09_boostX_gamma_tau (γ : ℝ) (v : V4) (hγ : 1 ≤ |γ|) : tauOf (bXγ γ v) = tauOf v :=
  c09_tau_congr (c09_boostX_gamma_mdot γ v v hγ)
theorem c09_boostY_gamma_tau (γ : ℝ) (v : V4) (hγ : 1 ≤ |γ|) : tauOf (bYγ γ v) = tauOf v :=
  c09_tau_congr (c09_boostY_gamma_mdot γ v v hγ)
theorem c09_boostZ_gamma_tau (γ : ℝ) (v : V4) (hγ : 1 ≤ |γ|) : tauOf (bZγ γ v) = tauOf v :=
  c09_tau_congr (c09_boostZ_gamma_mdot γ v v hγ)
theorem c09_boost_beta3_tau (v : V4) (b : V3) (hb : b.1 ^ 2 + b.2.1 ^ 2 + b.2.2 ^ 2 < 1) :
    tauOf (bβ3 v b) = tauOf v :=
  c09_tau_congr (c09_boost_beta3_mdot v v b hb)
theorem c09_boost_p4_tau (v p : V4) (hE : 0 < p.2.2.2)
    (hp : p.1 ^ 2 + p.2.1 ^ 2 + p.2.2.1 ^ 2 < p.2.2.2 ^ 2) : tauOf (bp4 v p) = tauOf v :=
  c09_tau_congr (c09_boost_p4_mdot v v p hE hp)

/-! ### every coordinate system: the generated variants convert to Cartesian and apply the Cartesian kernel,
so all theorems above hold for every `eval` key (operands given in any of the 6 spatial systems) -/

/-- Cartesian components `(x, y, z, t)` of a four-vector stored with keys `k0 k1 k2` -/
noncomputable abbrev cart4 (k0 : Az) (k1 : Lon) (k2 : Tmp) (a0 a1 a2 a3 : ℝ) : V4 :=
  (planar_x.eval k0 a0 a1, planar_y.eval k0 a0 a1, spatial_z.eval k0 k1 a0 a1 a2, lorentz_t.eval k0 k1 k2 a0 a1 a2 a3)
/-- Cartesian components `(x, y, z)` of a three-vector stored with keys `k0 k1` -/
noncomputable abbrev cart3 (k0 : Az) (k1 : Lon) (a0 a1 a2 : ℝ) : V3 :=
  (planar_x.eval k0 a0 a1, planar_y.eval k0 a0 a1, spatial_z.eval k0 k1 a0 a1 a2)

theorem c09_boostX_beta_eval_t (k0 : Az) (k1 : Lon) (β a0 a1 a2 a3 : ℝ) :
    lorentz_boostX_beta.eval k0 k1 .t β a0 a1 a2 a3 = bXβ β (cart4 k0 k1 .t a0 a1 a2 a3) := by
  cases k0 <;> cases k1 <;>
    simp only [d_lorentz_boostX_beta, d_planar_x, d_planar_y, d_spatial_z, d_lorentz_t]

theorem c09_boostY_beta_eval_t (k0 : Az) (k1 : Lon) (β a0 a1 a2 a3 : ℝ) :
    lorentz_boostY_beta.eval k0 k1 .t β a0 a1 a2 a3 = bYβ β (cart4 k0 k1 .t a0 a1 a2 a3) := by
  cases k0 <;> cases k1 <;>
    simp only [d_lorentz_boostY_beta, d_planar_x, d_planar_y, d_spatial_z, d_lorentz_t]

theorem c09_boostX_gamma_eval_t (k0 : Az) (k1 : Lon) (γ a0 a1 a2 a3 : ℝ) :
    lorentz_boostX_gamma.eval k0 k1 .t γ a0 a1 a2 a3 = bXγ γ (cart4 k0 k1 .t a0 a1 a2 a3) := by
  cases k0 <;> cases k1 <;>
    simp only [d_lorentz_boostX_gamma, d_planar_x, d_planar_y, d_spatial_z, d_lorentz_t]

theorem c09_boostY_gamma_eval_t (k0 : Az) (k1 : Lon) (γ a0 a1 a2 a3 : ℝ) :
    lorentz_boostY_gamma.eval k0 k1 .t γ a0 a1 a2 a3 = bYγ γ (cart4 k0 k1 .t a0 a1 a2 a3) := by
  cases k0 <;> cases k1 <;>
    simp only [d_lorentz_boostY_gamma, d_planar_x, d_planar_y, d_spatial_z, d_lorentz_t]

/-- for a vector stored with `tau`, the spatial part is that of the Cartesian boost and `tau` is returned unchanged -/
theorem c09_boostX_beta_eval_tau (k0 : Az) (k1 : Lon) (β a0 a1 a2 a3 : ℝ) :
    lorentz_boostX_beta.eval k0 k1 .tau β a0 a1 a2 a3 =
      ((bXβ β (cart4 k0 k1 .tau a0 a1 a2 a3)).1, (bXβ β (cart4 k0 k1 .tau a0 a1 a2 a3)).2.1,
        (bXβ β (cart4 k0 k1 .tau a0 a1 a2 a3)).2.2.1, a3) := by
  cases k0 <;> cases k1 <;>
    simp only [d_lorentz_boostX_beta, d_planar_x, d_planar_y, d_spatial_z, d_lorentz_t]

theorem c09_boostY_beta_eval_tau (k0 : Az) (k1 : Lon) (β a0 a1 a2 a3 : ℝ) :
    lorentz_boostY_beta.eval k0 k1 .tau β a0 a1 a2 a3 =
      ((bYβ β (cart4 k0 k1 .tau a0 a1 a2 a3)).1, (bYβ β (cart4 k0 k1 .tau a0 a1 a2 a3)).2.1,
        (bYβ β (cart4 k0 k1 .tau a0 a1 a2 a3)).2.2.1, a3) := by
  cases k0 <;> cases k1 <;>
    simp only [d_lorentz_boostY_beta, d_planar_x, d_planar_y, d_spatial_z, d_lorentz_t]

/-- `boostZ` keeps the azimuthal coordinates in the system of the input; its `z` and `t` are those of the
Cartesian boost -/
theorem c09_boostZ_beta_eval_t (k0 : Az) (k1 : Lon) (β a0 a1 a2 a3 : ℝ) :
    lorentz_boostZ_beta.eval k0 k1 .t β a0 a1 a2 a3 =
      (a0, a1, (bZβ β (cart4 k0 k1 .t a0 a1 a2 a3)).2.2.1, (bZβ β (cart4 k0 k1 .t a0 a1 a2 a3)).2.2.2) := by
  cases k0 <;> cases k1 <;>
    simp only [d_lorentz_boostZ_beta, d_planar_x, d_planar_y, d_spatial_z, d_lorentz_t]

theorem c09_boostZ_gamma_eval_t (k0 : Az) (k1 : Lon) (γ a0 a1 a2 a3 : ℝ) :
    lorentz_boostZ_gamma.eval k0 k1 .t γ a0 a1 a2 a3 =
      (a0, a1, (bZγ γ (cart4 k0 k1 .t a0 a1 a2 a3)).2.2.1, (bZγ γ (cart4 k0 k1 .t a0 a1 a2 a3)).2.2.2) := by
  cases k0 <;> cases k1 <;>
    simp only [d_lorentz_boostZ_gamma, d_planar_x, d_planar_y, d_spatial_z, d_lorentz_t]

theorem c09_boost_beta3_eval_t (k0 : Az) (k1 : Lon) (k3 : Az) (k4 : Lon) (a0 a1 a2 a3 b0 b1 b2 : ℝ) :
    lorentz_boost_beta3.eval k0 k1 .t k3 k4 a0 a1 a2 a3 b0 b1 b2 =
      bβ3 (cart4 k0 k1 .t a0 a1 a2 a3) (cart3 k3 k4 b0 b1 b2) := by
  cases k0 <;> cases k1 <;> cases k3 <;> cases k4 <;>
    simp only [d_lorentz_boost_beta3, d_planar_x, d_planar_y, d_spatial_z, d_lorentz_t]

theorem c09_boost_p4_eval_t (k0 : Az) (k1 : Lon) (a0 a1 a2 a3 : ℝ) (p : V4) :
    lorentz_boost_p4.eval k0 k1 .t .xy .z .t a0 a1 a2 a3 p.1 p.2.1 p.2.2.1 p.2.2.2 =
      bp4 (cart4 k0 k1 .t a0 a1 a2 a3) p := by
  cases k0 <;> cases k1 <;>
    simp only [d_lorentz_boost_p4, d_planar_x, d_planar_y, d_spatial_z, d_lorentz_t]

/-- example of the lifting: `boost_beta3` preserves the Minkowski product whatever the coordinate systems
of the two boosted vectors and of the velocity -/
theorem c09_boost_beta3_mdot_allkeys (k0 : Az) (k1 : Lon) (k0' : Az) (k1' : Lon) (k3 : Az) (k4 : Lon)
    (a0 a1 a2 a3 a0' a1' a2' a3' b0 b1 b2 : ℝ)
    (hb : (cart3 k3 k4 b0 b1 b2).1 ^ 2 + (cart3 k3 k4 b0 b1 b2).2.1 ^ 2 + (cart3 k3 k4 b0 b1 b2).2.2 ^ 2 < 1) :
    mdot (lorentz_boost_beta3.eval k0 k1 .t k3 k4 a0 a1 a2 a3 b0 b1 b2)
        (lorentz_boost_beta3.eval k0' k1' .t k3 k4 a0' a1' a2' a3' b0 b1 b2) =
      mdot (cart4 k0 k1 .t a0 a1 a2 a3) (cart4 k0' k1' .t a0' a1' a2' a3') := by
  rw [c09_boost_beta3_eval_t, c09_boost_beta3_eval_t]
  exact c09_boost_beta3_mdot _ _ _ hb

/-- a Cartesian vector stored with `tau`: spatial part of the `t`-kernel applied to `(x, y, z, t(x,y,z,tau))`,
and `tau` is returned unchanged (proper time is preserved by construction) -/
theorem c09_boost_beta3_eval_tau (k3 : Az) (k4 : Lon) (x y z tau b0 b1 b2 : ℝ) :
    lorentz_boost_beta3.eval .xy .z .tau k3 k4 x y z tau b0 b1 b2 =
      ((bβ3 (cart4 .xy .z .tau x y z tau) (cart3 k3 k4 b0 b1 b2)).1,
        (bβ3 (cart4 .xy .z .tau x y z tau) (cart3 k3 k4 b0 b1 b2)).2.1,
        (bβ3 (cart4 .xy .z .tau x y z tau) (cart3 k3 k4 b0 b1 b2)).2.2.1, tau) := by
  cases k3 <;> cases k4 <;>
    simp only [d_lorentz_boost_beta3, d_lorentz_transform4D, d_planar_x, d_planar_y, d_spatial_z, d_lorentz_t]

theorem c09_boost_p4_eval_tau (x y z tau : ℝ) (p : V4) :
    lorentz_boost_p4.eval .xy .z .tau .xy .z .t x y z tau p.1 p.2.1 p.2.2.1 p.2.2.2 =
      ((bp4 (cart4 .xy .z .tau x y z tau) p).1, (bp4 (cart4 .xy .z .tau x y z tau) p).2.1,
        (bp4 (cart4 .xy .z .tau x y z tau) p).2.2.1, tau) := by
  simp only [d_lorentz_boost_p4, d_lorentz_transform4D, d_planar_x, d_planar_y, d_spatial_z, d_lorentz_t]

/-! ### the hypothesis `0 < p.t` of `c09_boost_p4_eq_beta3` is needed: for a timelike booster with negative
energy the two spellings differ (`boost_p4` uses `γ = E/m < 0`, `boost_beta3` uses `γ = 1/√(1-β²) > 0`) -/
theorem c09_boost_p4_ne_beta3_of_neg_energy :
    bp4 (0, 0, 0, 1) (0, 0, 3, -5) ≠ bβ3 (0, 0, 0, 1) (toβ3 (0, 0, 3, -5)) := by
  intro h
  have h4 := congrArg (fun r : V4 => r.2.2.2) h
  simp only [d_lorentz_boost_p4, d_lorentz_to_beta3, d_lorentz_boost_beta3, d_lorentz_transform4D,
    d_spatial_mag2] at h4
  have h1 : (0 : ℝ) < √((-5) ^ 2 - (0 ^ 2 + 0 ^ 2 + 3 ^ 2)) := Real.sqrt_pos.mpr (by norm_num)
  have h2 : (0 : ℝ) < √(1 - ((0 / -5) ^ 2 + (0 / -5) ^ 2 + (3 / -5) ^ 2)) := Real.sqrt_pos.mpr (by norm_num)
  have h3 : (-5 : ℝ) / √((-5) ^ 2 - (0 ^ 2 + 0 ^ 2 + 3 ^ 2)) < 0 := div_neg_of_neg_of_pos (by norm_num) h1
  have h5 : (0 : ℝ) < 1 / √(1 - ((0 / -5) ^ 2 + (0 / -5) ^ 2 + (3 / -5) ^ 2)) := by positivity
  simp only [mul_zero, zero_add, mul_one, add_zero] at h4
  linarith

end VR
