import VectorModel.Props.MethodExpr
import VectorModel.Props.MethodOps

namespace VR
namespace C01F
open VK VG Spec Real C01M C11M C01E

#check @C11M.V4
#print C11M.V4
#print VG.Arg
#check @spatialResult

end C01F
end VR
