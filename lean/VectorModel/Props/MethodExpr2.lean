/-
Property C01 for WHOLE COMPUTATIONS, continued (prefix `c01f_`): the expression theorem of `Props/MethodExpr.lean`
extended to the rest of the vector-, scalar- and truth-valued public API.

`MethodExpr.lean` proves, by induction over the language `C01E.E`, that every finite expression of public methods whose
intermediate values are GENERIC (a condition on the DENOTATIONS only) evaluates successfully and denotes the specified
value, whatever coordinate systems / flavors / backends its variables are stored in.  It leaves out the nodes for which
no single-call theorem had been wired in.  This file re-declares the language with ALL nodes of `E` plus those nodes
(`F`, §2), reuses the per-node lemmas of `MethodExpr.lean` for the old nodes and adds one lemma per new node (§1), each
citing the single-call theorem (`c01m_rotate_*`, `c09m_boost*_gamma`, `c09m_boostCM_of_*`, `c09m_to_beta3`,
`c12m_transform2D/3D/4D`, the `toSystem` evaluation lemmas behind `c04m_to_project`), the `CanonClosed` theorem for the
range of the result and the bridge lemmas `generic_storage_ok(4)` for the hypotheses of the call.

Contents
* §1  per-node lemmas: `spat_case` (generic lemma for the methods returning `spatialResult`), `rotate_quaternion_case`,
      `rotate_euler_case`, `rotate_euler_ord_case` (12 orders), `rotate_nautical_case`, `rotate_axis_case`,
      `boostX/Y/Zg4_case`, `to_beta3_case`, `proj2_case`, `proj3_case`, `transform2D/3D/4D_case`,
      `boostCM_of_p4_case`, `boostCM_of_beta3_case`.
* §2  language `F` (38 constructors), model `evalMF`, specification `evalSF`, genericity `GenericAllF`.
* §3  MAIN THEOREM `c01f_eval`.      §4  COROLLARY `c01f_indep`, `c01f_indep_eq`.
* §5  scalar expressions `SF` (the old accessors and two-vector methods, `abs`, `v ** 2`, `Et Et2 Mt Mt2`,
      `deltaRapidityPhi(2)`): `c01f_evalS`, `c01f_indepS`.
* §6  truth-valued expressions `TF` (`is_timelike/spacelike/lightlike(tol)`, `is_parallel/antiparallel/perpendicular
      (other, tol)`, `==`, `!=`): `c01f_evalT`, `c01f_ne_iff_not_eq`, `c01f_indepT`.
* §7  non-vacuity: `exF_generic` — `(v₀ + v₁).rotate_axis(v₂, π).boostZ(gamma=5/4).to_beta3()` (depth 5) over
      `(x,y,z,t)`, `(ρ,φ,η,τ)` momentum and NumPy `(ρ,φ,z)` variables.
* §8  `embed : C01E.E → F` with `embed_evalM`, `embed_evalS`, `embed_generic`: the old language is a sub-language.

Deliberately NOT in the language (documented EXCEPTIONS of C01, see `C12M.c12m_transform2D_exception`,
`c01m_scale2D_exception`): `transform2D` on 3D/4D vectors, `transform3D` on 4D vectors, `scale2D/3D` — they keep the stored
θ/η/τ verbatim.  Not covered: 4D unary minus (`c11m_neg_tau_discrepancy`), `isclose`, `like`, `boost` / `boostCM_of`
(the dimension-dispatching spellings of nodes that ARE covered), default tolerances of the predicates, `numpy.sqrt/cbrt`
and `v ** q` for `q ≠ 2` (they apply the model's abstract `A.pow`), mixed 3D/4D operands of the angular methods.
-/
import VectorModel.Props.MethodExpr
import VectorModel.Props.MethodOps

set_option linter.unusedVariables false
set_option linter.constructorNameAsVariable false
set_option maxRecDepth 8192

namespace VR
namespace C01F
open VK VG Spec Real C01M C11M C01E

/-! ## 1. generic lemmas for the methods whose result is `spatialResult` (Cartesian spatial part, t/τ kept) -/

theorem good4_spatialResult (raw : Az → Lon → ℝ → ℝ → ℝ → ℝ × ℝ × ℝ) {v : Vec ℝ} {p : List ℝ} (ha : Good4 v)
    (hden : denote (spatialResult raw v) = some p) (gr : Generic4 p) : Good4 (spatialResult raw v) := by
  obtain ⟨be, mom, az, l, tm, a, b, c, d, rfl, hA, hL, hTm, hS⟩ := good4_cases ha
  exact good4_result (be := be) (mom := mom) (az := .xy) (l := .z) (tm := tm) trivial trivial hTm hden gr

/-- a spatial rotation-like method on a good 3D vector -/
theorem spat3_case (C : Vec ℝ → Except Err (Res ℝ Prop)) (f : ℝ × ℝ × ℝ → ℝ × ℝ × ℝ)
    (hsingle : ∀ v, C01M.WFV v → 3 ≤ v.ty.dim → TanOKV v → ∃ w, C v = .ok (.vec w) ∧
      w.ty = { v.ty with az := .xy, lon := some .z } ∧ C01M.WFV w ∧ denote w = (denote v).map (onSpatial f))
    {va : Vec ℝ} {pa : List ℝ} (ha : Good3 va) (da : denote va = some pa) (ga : Generic3 pa)
    (gr : Generic3 (onSpatial f pa)) :
    ∃ r, C va = .ok (.vec r) ∧ Good3 r ∧ denote r = some (onSpatial f pa) := by
  obtain ⟨hT, -, -, -, -, -⟩ := generic_storage_ok ha da ga
  obtain ⟨w, hcall, hty, hwf, hden⟩ := hsingle va ha.wf ha.dim.ge hT
  rw [da] at hden
  exact ⟨w, hcall, good3_xyz hwf (by rw [hty]) (by rw [hty]) (by rw [hty]; exact good3_tmp ha), hden⟩

/-- a spatial rotation-like method on a good 4D vector: needs the explicit form of the result (the stored t/τ is kept) -/
theorem spat4_case (C : Vec ℝ → Except Err (Res ℝ Prop)) (f : ℝ × ℝ × ℝ → ℝ × ℝ × ℝ)
    (raw : Az → Lon → ℝ → ℝ → ℝ → ℝ × ℝ × ℝ)
    (hsingle : ∀ v, C01M.WFV v → 3 ≤ v.ty.dim → TanOKV v → ∃ w, C v = .ok (.vec w) ∧
      w.ty = { v.ty with az := .xy, lon := some .z } ∧ C01M.WFV w ∧ denote w = (denote v).map (onSpatial f))
    (heval : ∀ v, C01M.WFV v → 3 ≤ v.ty.dim → C v = .ok (.vec (spatialResult raw v)))
    {va : Vec ℝ} {pa : List ℝ} (ha : Good4 va) (da : denote va = some pa) (ga : Generic4 pa)
    (gr : Generic4 (onSpatial f pa)) :
    ∃ r, C va = .ok (.vec r) ∧ Good4 r ∧ denote r = some (onSpatial f pa) := by
  obtain ⟨hT, -, -, -, -, -⟩ := generic_storage_ok4 ha da ga
  have hd : 3 ≤ va.ty.dim := by rw [ha.dim]; decide
  obtain ⟨w, hcall, -, -, hden⟩ := hsingle va ha.wf hd hT
  rw [da] at hden
  refine ⟨w, hcall, ?_, hden⟩
  have he := heval va ha.wf hd
  rw [hcall] at he
  have := vec_inj he
  subst this
  exact good4_spatialResult raw ha hden gr

/-- lifting to the dimension-free invariant (operand of dimension ≥ 3) -/
theorem spat_case (C : Vec ℝ → Except Err (Res ℝ Prop)) (f : ℝ × ℝ × ℝ → ℝ × ℝ × ℝ)
    (raw : Az → Lon → ℝ → ℝ → ℝ → ℝ × ℝ × ℝ)
    (hsingle : ∀ v, C01M.WFV v → 3 ≤ v.ty.dim → TanOKV v → ∃ w, C v = .ok (.vec w) ∧
      w.ty = { v.ty with az := .xy, lon := some .z } ∧ C01M.WFV w ∧ denote w = (denote v).map (onSpatial f))
    (heval : ∀ v, C01M.WFV v → 3 ≤ v.ty.dim → C v = .ok (.vec (spatialResult raw v)))
    {va : Vec ℝ} {pa : List ℝ} (ha : Good va) (da : denote va = some pa) (ga : Generic pa) (hl : 3 ≤ pa.length)
    (gr : Generic (onSpatial f pa)) :
    ∃ r, C va = .ok (.vec r) ∧ Good r ∧ denote r = some (onSpatial f pa) :=
  un_lift C (onSpatial f) (onSpatial_length _ _)
    (fun _ g _ => by obtain ⟨x, y, e, -⟩ := g; rw [e] at hl; simp at hl)
    (fun h3 g g' => spat3_case C f hsingle h3 da g g')
    (fun h4 g g' => spat4_case C f raw hsingle heval h4 da g g') ha da ga gr

/-! ### the rotations -/

theorem rotate_quaternion_case (K : Consts ℝ) (A : Arith ℝ) (u i j k : ℝ) (hq : u ^ 2 + i ^ 2 + j ^ 2 + k ^ 2 = 1)
    {va : Vec ℝ} {pa : List ℝ} (ha : Good va) (da : denote va = some pa) (ga : Generic pa) (hl : 3 ≤ pa.length)
    (gr : Generic (onSpatial (quatRot u i j k) pa)) :
    ∃ r, call evR K A "rotate_quaternion" va [.sc u, .sc i, .sc j, .sc k] = .ok (.vec r) ∧ Good r ∧
      denote r = some (onSpatial (quatRot u i j k) pa) :=
  spat_case (fun v => call evR K A "rotate_quaternion" v [.sc u, .sc i, .sc j, .sc k]) (quatRot u i j k)
    (fun k0 k1 => spatial_rotate_quaternion.eval k0 k1 u i j k)
    (fun v hv hd hT => c01m_rotate_quaternion K A v hv hd hT u i j k hq)
    (fun v hv hd => rotate_quaternion_eval K A v hv hd u i j k) ha da ga hl gr

theorem euler_call_eq (K : Consts ℝ) (A : Arith ℝ) (v : Vec ℝ) (hd : 3 ≤ v.ty.dim) (φ θ ψ : ℝ) :
    call evR K A "rotate_euler" v [.sc φ, .sc θ, .sc ψ] =
      dispatch evR .spatial_rotate_euler [φ, θ, ψ] (some .zxz) [v] [v] := by
  rw [call_rotate_euler, if_neg (by omega)]

theorem rotate_euler_case (K : Consts ℝ) (A : Arith ℝ) (φ θ ψ : ℝ)
    {va : Vec ℝ} {pa : List ℝ} (ha : Good va) (da : denote va = some pa) (ga : Generic pa) (hl : 3 ≤ pa.length)
    (gr : Generic (onSpatial (eulerRot .zxz φ θ ψ) pa)) :
    ∃ r, call evR K A "rotate_euler" va [.sc φ, .sc θ, .sc ψ] = .ok (.vec r) ∧ Good r ∧
      denote r = some (onSpatial (eulerRot .zxz φ θ ψ) pa) :=
  spat_case (fun v => call evR K A "rotate_euler" v [.sc φ, .sc θ, .sc ψ]) (eulerRot .zxz φ θ ψ)
    (fun k l => spatial_rotate_euler.eval k l .zxz φ θ ψ)
    (fun v hv hd hT => c01m_rotate_euler K A v hv hd hT φ θ ψ)
    (fun v hv hd => by
      show call evR K A "rotate_euler" v [.sc φ, .sc θ, .sc ψ] = _
      rw [euler_call_eq K A v hd]; exact euler_dispatch_eval v hv hd .zxz φ θ ψ) ha da ga hl gr

theorem ordOf_str (o : Ord) : ordOf o.str = some o := by cases o <;> decide +kernel

theorem euler_ord_call_eq (K : Consts ℝ) (A : Arith ℝ) (v : Vec ℝ) (hd : 3 ≤ v.ty.dim) (φ θ ψ : ℝ) (o : Ord) :
    call evR K A "rotate_euler" v [.sc φ, .sc θ, .sc ψ, .str o.str] =
      dispatch evR .spatial_rotate_euler [φ, θ, ψ] (some o) [v] [v] := by
  rw [call_rotate_euler_ord, if_neg (by omega), ordOf_str]
  simp only [if_neg (show ¬ v.ty.dim < 3 by omega)]

/-- `rotate_euler(φ, θ, ψ, order=o.str)` for each of the 12 orders -/
theorem rotate_euler_ord_case (K : Consts ℝ) (A : Arith ℝ) (o : Ord) (φ θ ψ : ℝ)
    {va : Vec ℝ} {pa : List ℝ} (ha : Good va) (da : denote va = some pa) (ga : Generic pa) (hl : 3 ≤ pa.length)
    (gr : Generic (onSpatial (eulerRot o φ θ ψ) pa)) :
    ∃ r, call evR K A "rotate_euler" va [.sc φ, .sc θ, .sc ψ, .str o.str] = .ok (.vec r) ∧ Good r ∧
      denote r = some (onSpatial (eulerRot o φ θ ψ) pa) :=
  spat_case (fun v => call evR K A "rotate_euler" v [.sc φ, .sc θ, .sc ψ, .str o.str]) (eulerRot o φ θ ψ)
    (fun k l => spatial_rotate_euler.eval k l o φ θ ψ)
    (fun v hv hd hT => c01m_rotate_euler_ord K A v hv hd hT φ θ ψ o.str o (ordOf_str o))
    (fun v hv hd => by
      show call evR K A "rotate_euler" v [.sc φ, .sc θ, .sc ψ, .str o.str] = _
      rw [euler_ord_call_eq K A v hd]; exact euler_dispatch_eval v hv hd o φ θ ψ) ha da ga hl gr

theorem rotate_nautical_case (K : Consts ℝ) (A : Arith ℝ) (yaw pitch roll : ℝ)
    {va : Vec ℝ} {pa : List ℝ} (ha : Good va) (da : denote va = some pa) (ga : Generic pa) (hl : 3 ≤ pa.length)
    (gr : Generic (onSpatial (eulerRot .zyx roll pitch yaw) pa)) :
    ∃ r, call evR K A "rotate_nautical" va [.sc yaw, .sc pitch, .sc roll] = .ok (.vec r) ∧ Good r ∧
      denote r = some (onSpatial (eulerRot .zyx roll pitch yaw) pa) :=
  spat_case (fun v => call evR K A "rotate_nautical" v [.sc yaw, .sc pitch, .sc roll]) (eulerRot .zyx roll pitch yaw)
    (fun k l => spatial_rotate_euler.eval k l .zyx roll pitch yaw)
    (fun v hv hd hT => c01m_rotate_nautical K A v hv hd hT yaw pitch roll)
    (fun v hv hd => by
      show call evR K A "rotate_nautical" v [.sc yaw, .sc pitch, .sc roll] = _
      rw [call_rotate_nautical, if_neg (by omega)]; exact euler_dispatch_eval v hv hd .zyx roll pitch yaw)
    ha da ga hl gr

/-- Rodrigues' rotation on component lists: about the direction of the (3-component) axis list -/
noncomputable def axisRotL : List ℝ → ℝ → List ℝ → List ℝ
  | [ux, uy, uz], ang, p => onSpatial (axisRot (ux, uy, uz) ang) p
  | _, _, p => p

/-- `v.rotate_axis(axis, ang)`: `v` 3D or 4D, `axis` a generic 3D vector, both in any storage -/
theorem rotate_axis_case (K : Consts ℝ) (A : Arith ℝ) (ang : ℝ)
    {va vx : Vec ℝ} {pa px : List ℝ} (ha : Good va) (hx : Good3 vx) (da : denote va = some pa)
    (dx : denote vx = some px) (ga : Generic pa) (gx : Generic3 px) (hl : 3 ≤ pa.length)
    (gr : Generic (axisRotL px ang pa)) :
    ∃ r, call evR K A "rotate_axis" va [.v vx, .sc ang] = .ok (.vec r) ∧ Good r ∧
      denote r = some (axisRotL px ang pa) := by
  obtain ⟨hTx, -, -, -, -, -⟩ := generic_storage_ok hx dx gx
  obtain ⟨be', mom', az', l', u1, u2, u3, rfl, -, -, -⟩ := good3_cases hx
  obtain ⟨ux, uy, uz, rfl, g1, g2⟩ := id gx
  have hpos : 0 < ux ^ 2 + uy ^ 2 + uz ^ 2 := by positivity
  exact spat_case (fun v => call evR K A "rotate_axis" v [.v (C11M.V3 be' mom' az' l' u1 u2 u3), .sc ang])
    (axisRot (ux, uy, uz) ang)
    (fun k l a b c => spatial_rotate_axis.eval az' l' k l ang u1 u2 u3 a b c)
    (fun v hv hd hT => c01m_rotate_axis K A v hv hd hT _ hx.wf hx.dim hTx ux uy uz dx hpos ang)
    (fun v hv hd => rotate_axis_eval K A v hv hd be' mom' az' l' u1 u2 u3 ang) ha da ga hl gr

/-! ### axis boosts given by `gamma=` (`1 ≤ |γ|`) -/

theorem boostXg4_case (K : Consts ℝ) (A : Arith ℝ) (γ : ℝ) (hγ : 1 ≤ |γ|) {va : Vec ℝ} {pa : List ℝ} (ha : Good4 va)
    (da : denote va = some pa) (ga : Generic4 pa) (gr : Generic4 (on4 (bXγ γ) pa)) :
    ∃ r, call evR K A "boostX" va [.kw "gamma" γ] = .ok (.vec r) ∧ Good4 r ∧ denote r = some (on4 (bXγ γ) pa) := by
  obtain ⟨-, -, -, -, hB, -⟩ := generic_storage_ok4 ha da ga
  obtain ⟨w, hcall, -, -, hden⟩ := c09m_boostX_gamma K A va ha.wf ha.dim hB γ (fun _ => hγ)
  rw [da] at hden
  refine ⟨w, hcall, ?_, hden⟩
  obtain ⟨be, mom, az, l, tm, a, b, c, d, rfl, hA, hL, hTm, hS⟩ := good4_cases ha
  have he := boostX_gamma_eval K A be mom az l tm a b c d γ
  rw [hcall, (c13c_lorentz_boostXY_ret az l tm).2.1] at he
  have := vec_inj he
  subst this
  have hc := c13c_lorentz_boostX_gamma az l tm γ a b c d hTm
  rw [(c13c_lorentz_boostXY_ret az l tm).2.1] at hc
  obtain ⟨h1, h2, h3⟩ := outCanon4_parts hc
  exact good4_result (be := be) (mom := mom) h1 h2 h3 hden gr

theorem boostYg4_case (K : Consts ℝ) (A : Arith ℝ) (γ : ℝ) (hγ : 1 ≤ |γ|) {va : Vec ℝ} {pa : List ℝ} (ha : Good4 va)
    (da : denote va = some pa) (ga : Generic4 pa) (gr : Generic4 (on4 (bYγ γ) pa)) :
    ∃ r, call evR K A "boostY" va [.kw "gamma" γ] = .ok (.vec r) ∧ Good4 r ∧ denote r = some (on4 (bYγ γ) pa) := by
  obtain ⟨-, -, -, -, hB, -⟩ := generic_storage_ok4 ha da ga
  obtain ⟨w, hcall, -, -, hden⟩ := c09m_boostY_gamma K A va ha.wf ha.dim hB γ (fun _ => hγ)
  rw [da] at hden
  refine ⟨w, hcall, ?_, hden⟩
  obtain ⟨be, mom, az, l, tm, a, b, c, d, rfl, hA, hL, hTm, hS⟩ := good4_cases ha
  have he := boostY_gamma_eval K A be mom az l tm a b c d γ
  rw [hcall, (c13c_lorentz_boostXY_ret az l tm).2.2.2] at he
  have := vec_inj he
  subst this
  have hc := c13c_lorentz_boostY_gamma az l tm γ a b c d hTm
  rw [(c13c_lorentz_boostXY_ret az l tm).2.2.2] at hc
  obtain ⟨h1, h2, h3⟩ := outCanon4_parts hc
  exact good4_result (be := be) (mom := mom) h1 h2 h3 hden gr

theorem boostZg4_case (K : Consts ℝ) (A : Arith ℝ) (γ : ℝ) (hγ : 1 ≤ |γ|) {va : Vec ℝ} {pa : List ℝ} (ha : Good4 va)
    (da : denote va = some pa) (ga : Generic4 pa) (gr : Generic4 (on4 (bZγ γ) pa)) :
    ∃ r, call evR K A "boostZ" va [.kw "gamma" γ] = .ok (.vec r) ∧ Good4 r ∧ denote r = some (on4 (bZγ γ) pa) := by
  obtain ⟨-, -, -, -, hB, -⟩ := generic_storage_ok4 ha da ga
  obtain ⟨w, hcall, -, -, hden⟩ := c09m_boostZ_gamma K A va ha.wf ha.dim hB γ (fun _ => hγ)
  rw [da] at hden
  refine ⟨w, hcall, ?_, hden⟩
  obtain ⟨be, mom, az, l, tm, a, b, c, d, rfl, hA, hL, hTm, hS⟩ := good4_cases ha
  have he := boostZ_gamma_eval K A be mom az l tm a b c d γ
  rw [hcall, (c13c_lorentz_boostZ_ret az l tm).2] at he
  have := vec_inj he
  subst this
  have hc := c13c_lorentz_boostZ_gamma az l tm γ a b c d hA hTm
  rw [(c13c_lorentz_boostZ_ret az l tm).2] at hc
  obtain ⟨h1, h2, h3⟩ := outCanon4_parts hc
  exact good4_result (be := be) (mom := mom) h1 h2 h3 hden gr

/-! ### `to_beta3` : 4D → 3D -/

/-- the velocity `(x/t, y/t, z/t)` of a four-vector -/
noncomputable def beta3L : List ℝ → List ℝ
  | [x, y, z, t] => [x / t, y / t, z / t]
  | p => p

theorem to_beta3_ret_eq (az : Az) (l : Lon) (tm : Tmp) : lorentz_to_beta3.ret az l tm = .vec [.az az, .lon l, .none] := by
  cases az <;> cases l <;> cases tm <;> rfl

/-- the velocity of a generic (forward time-like) four-vector is a generic 3D point -/
theorem generic3_beta3L {p : List ℝ} (h : Generic4 p) : Generic3 (beta3L p) := by
  obtain ⟨x, y, z, t, rfl, h1, h2, h3, h4⟩ := h
  refine ⟨x / t, y / t, z / t, rfl, ?_, div_ne_zero h2 h4.ne'⟩
  have e : (x / t) ^ 2 + (y / t) ^ 2 = (x ^ 2 + y ^ 2) / t ^ 2 := by field_simp
  rw [e]; positivity

theorem to_beta3_case (K : Consts ℝ) (A : Arith ℝ) {va : Vec ℝ} {pa : List ℝ} (ha : Good4 va)
    (da : denote va = some pa) (ga : Generic4 pa) :
    ∃ r, call evR K A "to_beta3" va [] = .ok (.vec r) ∧ Good3 r ∧ denote r = some (beta3L pa) := by
  have gr := generic3_beta3L ga
  obtain ⟨be, mom, az, l, tm, a, b, c, d, rfl, hA, hL, hTm, hS⟩ := good4_cases ha
  have ea := denote_V4_eq da
  subst ea
  obtain ⟨g1, g2, g3, g4⟩ := (generic4_iff _ _ _ _).1 ga
  obtain ⟨hr, hc2, hT, hCL, hθ, hm⟩ := core3 hA hL hS g1 g2
  have hC := canonTmp_of_inTmp hTm
  obtain ⟨w, hcall, -, -, hden⟩ := c09m_to_beta3_pos K A _ ha.wf ⟨hCL, hC⟩ _ _ _ _ da g4
  refine ⟨w, hcall, ?_, hden⟩
  have he := to_beta3_eval K A be mom az l tm a b c d
  rw [hcall, to_beta3_ret_eq] at he
  have := vec_inj he
  subst this
  have hc := c13c_lorentz_to_beta3_partial az l tm a b c d hA hL
    (fun _ => by rw [refine_lorentz_t az l tm a b c d hCL hC]; exact g4)
  rw [to_beta3_ret_eq] at hc
  simp only [OutCanon3, OutCanonR, OutCanonL, and_true] at hc
  exact good3_result (be := be) (mom := mom) (az := az) (l := l) hc.1 hc.2 hden gr

/-! ### lower-dimensional `to_<system>` projections -/

/-- `to_xy()` / `to_rhophi()` on a 3D or 4D vector: the azimuthal part, converted -/
theorem proj2_case (K : Consts ℝ) (A : Arith ℝ) (az : Az) {va : Vec ℝ} {pa : List ℝ} (ha : Good va)
    (da : denote va = some pa) :
    ∃ r, call evR K A (convName2 az) va [] = .ok (.vec r) ∧ Good2 r ∧ denote r = some (pa.take 2) := by
  obtain ⟨hv, hr, hs⟩ := ha
  have he := call_of_target K A (convName2 az) az none none (convName2_target az) va
  rcases wfv_cases hv with ⟨be, mom, az0, a, b, rfl⟩ | ⟨be, mom, az0, l0, a, b, c, rfl⟩ |
    ⟨be, mom, az0, l0, t0, a, b, c, d, rfl⟩
  · rw [C04M.toSystem_eval2] at he
    refine ⟨_, he, good2_mk _ _ _ _ _ (conv_range_az hr.1), ?_⟩
    rw [denote_V2_eq da]
    simp only [denote, C04M.conv2_x, C04M.conv2_y, List.take]
  · rw [C04M.toSystem_eval32] at he
    refine ⟨_, he, good2_mk _ _ _ _ _ (conv_range_az hr.1), ?_⟩
    rw [denote_V3_eq da]
    simp only [denote, C04M.conv2_x, C04M.conv2_y, List.take]
  · rw [C04M.toSystem_eval42] at he
    refine ⟨_, he, good2_mk _ _ _ _ _ (conv_range_az hr.1), ?_⟩
    rw [denote_V4_eq da]
    simp only [denote, C04M.conv2_x, C04M.conv2_y, List.take]

/-- `to_xyz()` … `to_rhophieta()` on a 4D vector: the spatial part, converted -/
theorem proj3_case (K : Consts ℝ) (A : Arith ℝ) (az : Az) (l : Lon) {va : Vec ℝ} {pa : List ℝ} (ha : Good4 va)
    (da : denote va = some pa) (ga : Generic4 pa) :
    ∃ r, call evR K A (convName az l) va [] = .ok (.vec r) ∧ Good3 r ∧ denote r = some (pa.take 3) := by
  obtain ⟨be, mom, az0, l0, t0, a, b, c, d, rfl, hA, hL, hTm, hS⟩ := good4_cases ha
  have ea := denote_V4_eq da
  subst ea
  obtain ⟨g1, g2, g3, g4⟩ := (generic4_iff _ _ _ _).1 ga
  obtain ⟨hr, hc2, hT, hCL, hθ, hm⟩ := core3 hA hL hS g1 g2
  have hF : C04M.LonOK az0 l0 l a b c := by
    cases l
    · exact hT
    · exact hr
    · exact ⟨hr, hCL⟩
  have he := call_of_target K A (convName az l) az (some l) none (convName_target az l) (C11M.V4 be mom az0 l0 t0 a b c d)
  rw [C04M.toSystem_eval43] at he
  have hden : denote (C11M.V3 be mom az l (C04M.conv2 az0 az a b).1 (C04M.conv2 az0 az a b).2
      (C04M.convLon az0 l0 l a b c)) = some [xOf az0 a b, yOf az0 a b, zOf az0 l0 a b c] := by
    simp only [denote, C04M.conv2_x, C04M.conv2_y, C04M.convLon_z _ _ _ _ _ _ _ hF]
  obtain ⟨h1, h2⟩ := conv_range (az := az) (l := l) hA hr hCL
  exact ⟨_, he, good3_result h1 h2 hden ((generic3_iff _ _ _).2 ⟨g1, g2⟩), hden⟩

/-! ### `transform2D` on 2D, `transform3D` on 3D, `transform4D` on 4D vectors -/

theorem transform2D_case (K : Consts ℝ) (A : Arith ℝ) (xx xy yx yy : ℝ) {va : Vec ℝ} {pa : List ℝ} (ha : Good2 va)
    (da : denote va = some pa) :
    ∃ r, call evR K A "transform2D" va [.sc xx, .sc xy, .sc yx, .sc yy] = .ok (.vec r) ∧ Good2 r ∧
      denote r = some (onPlanar (C12M.mat2 xx xy yx yy) pa) := by
  obtain ⟨be, mom, az, a, b, rfl, hA⟩ := good2_cases ha
  obtain ⟨w, hcall, -, -, -, -, -, hden⟩ := C12M.c12m_transform2D K A (C11M.V2 be mom az a b) ha.wf xx xy yx yy
  have hden' := hden (Or.inl rfl)
  rw [da] at hden'
  refine ⟨w, hcall, ?_, hden'⟩
  have he := C12M.transform2D_eval2 K A be mom az xx xy yx yy a b
  rw [hcall] at he
  have := vec_inj he
  subst this
  exact good2_mk _ _ _ _ _ trivial

theorem transform3D_case (K : Consts ℝ) (A : Arith ℝ) (xx xy xz yx yy yz zx zy zz : ℝ) {va : Vec ℝ} {pa : List ℝ}
    (ha : Good3 va) (da : denote va = some pa) (ga : Generic3 pa) :
    ∃ r, call evR K A "transform3D" va [.sc xx, .sc xy, .sc xz, .sc yx, .sc yy, .sc yz, .sc zx, .sc zy, .sc zz]
        = .ok (.vec r) ∧ Good3 r ∧ denote r = some (onSpatial (C12M.mat3 xx xy xz yx yy yz zx zy zz) pa) := by
  obtain ⟨hT, -, -, -, -, -⟩ := generic_storage_ok ha da ga
  obtain ⟨w, hcall, hty, hwf, -, -, hden⟩ := C12M.c12m_transform3D K A va ha.wf ha.dim.ge hT xx xy xz yx yy yz zx zy zz
  have hden' := hden (by rw [good3_tmp ha]; exact fun h => nomatch h)
  rw [da] at hden'
  exact ⟨w, hcall, good3_xyz hwf (by rw [hty]) (by rw [hty]) (by rw [hty]; exact good3_tmp ha), hden'⟩

/-- the 16 entries of a 4×4 matrix, row by row -/
structure M4 where
  (xx xy xz xt yx yy yz yt zx zy zz zt tx ty tz tt : ℝ)

def M4.args (m : M4) : List (Arg ℝ) :=
  [.sc m.xx, .sc m.xy, .sc m.xz, .sc m.xt, .sc m.yx, .sc m.yy, .sc m.yz, .sc m.yt, .sc m.zx, .sc m.zy, .sc m.zz, .sc m.zt,
    .sc m.tx, .sc m.ty, .sc m.tz, .sc m.tt]

def M4.ap (m : M4) : ℝ × ℝ × ℝ × ℝ → ℝ × ℝ × ℝ × ℝ :=
  transform4 m.xx m.xy m.xz m.xt m.yx m.yy m.yz m.yt m.zx m.zy m.zz m.zt m.tx m.ty m.tz m.tt

theorem transform4D_case (K : Consts ℝ) (A : Arith ℝ) (m : M4) {va : Vec ℝ} {pa : List ℝ}
    (ha : Good4 va) (da : denote va = some pa) (ga : Generic4 pa) :
    ∃ r, call evR K A "transform4D" va m.args = .ok (.vec r) ∧ Good4 r ∧ denote r = some (on4 m.ap pa) := by
  obtain ⟨-, -, -, -, hB, -⟩ := generic_storage_ok4 ha da ga
  obtain ⟨w, hcall, hty, hwf, hden⟩ := C12M.c12m_transform4D K A va ha.wf ha.dim hB
    m.xx m.xy m.xz m.xt m.yx m.yy m.yz m.yt m.zx m.zy m.zz m.zt m.tx m.ty m.tz m.tt
  rw [da] at hden
  refine ⟨w, hcall, ?_, hden⟩
  obtain ⟨be, mom, az, l, tm, a, b, c, d, rfl, hA, hL, hTm, hS⟩ := good4_cases ha
  have he := C12M.transform4D_eval4 K A be mom az l tm
    m.xx m.xy m.xz m.xt m.yx m.yy m.yz m.yt m.zx m.zy m.zz m.zt m.tx m.ty m.tz m.tt a b c d
  have hcall' : call evR K A "transform4D" (C11M.V4 be mom az l tm a b c d) m.args = .ok (.vec w) := hcall
  simp only [M4.args] at hcall'
  rw [hcall'] at he
  have := vec_inj he
  subst this
  exact good4_mk _ _ _ _ _ _ _ _ _ trivial trivial trivial trivial

/-! ### `boostCM_of_p4`, `boostCM_of_beta3`: `neg3D` of the booster, then the boost -/

/-- `boostCM_of_p4` on component lists: `bp4 X (−p⃗, E)` -/
noncomputable def bcm4L : List ℝ → List ℝ → List ℝ
  | [x, y, z, t], [px, py, pz, E] => l4 (bp4 (x, y, z, t) (-px, -py, -pz, E))
  | p, _ => p

/-- `boostCM_of_beta3` on component lists: `bβ3 X (−β⃗)` -/
noncomputable def bcm3L : List ℝ → List ℝ → List ℝ
  | [x, y, z, t], [bx, by', bz] => l4 (bβ3 (x, y, z, t) (-bx, -by', -bz))
  | p, _ => p

theorem boostCM_of_p4_eval (K : Consts ℝ) (A : Arith ℝ) (hK : K.negOne = -1) (be mom az l t) (a b c d : ℝ)
    (be' mom' az' l' t') (a' b' c' d' : ℝ) :
    call evR K A "boostCM_of_p4" (C11M.V4 be mom az l t a b c d) [.v (C11M.V4 be' mom' az' l' t' a' b' c' d')] =
      call evR K A "boost_p4" (C11M.V4 be mom az l t a b c d)
        [.v (C11M.V4 be' mom' az' l' t' (spatial_scale.eval az' l' (-1) a' b' c').1
          (spatial_scale.eval az' l' (-1) a' b' c').2.1 (spatial_scale.eval az' l' (-1) a' b' c').2.2 d')] := by
  have hn := neg3D_eval4 K be' mom' az' l' t' a' b' c' d'
  rw [hK] at hn
  have hcm := call_boostCM evR K A ⟨⟨be, mom, az, some l, some t⟩, [a, b, c, d]⟩
    ⟨⟨be', mom', az', some l', some t'⟩, [a', b', c', d']⟩
  simp only [hn] at hcm
  have hb := call_boost_p4 evR K A ⟨⟨be, mom, az, some l, some t⟩, [a, b, c, d]⟩
    ⟨⟨be', mom', az', some l', some t'⟩, [(spatial_scale.eval az' l' (-1) a' b' c').1,
      (spatial_scale.eval az' l' (-1) a' b' c').2.1, (spatial_scale.eval az' l' (-1) a' b' c').2.2, d']⟩
  simp [VT.dim] at hcm hb
  rw [hcm.1, ← hb]

theorem boostCM_of_beta3_eval (K : Consts ℝ) (A : Arith ℝ) (hK : K.negOne = -1) (be mom az l t) (a b c d : ℝ)
    (be' mom' az' l') (a' b' c' : ℝ) :
    call evR K A "boostCM_of_beta3" (C11M.V4 be mom az l t a b c d) [.v (C11M.V3 be' mom' az' l' a' b' c')] =
      call evR K A "boost_beta3" (C11M.V4 be mom az l t a b c d)
        [.v (C11M.V3 be' mom' az' l' (spatial_scale.eval az' l' (-1) a' b' c').1
          (spatial_scale.eval az' l' (-1) a' b' c').2.1 (spatial_scale.eval az' l' (-1) a' b' c').2.2)] := by
  have hn := neg3D_eval3 K be' mom' az' l' a' b' c'
  rw [hK] at hn
  have hcm := call_boostCM evR K A ⟨⟨be, mom, az, some l, some t⟩, [a, b, c, d]⟩
    ⟨⟨be', mom', az', some l', none⟩, [a', b', c']⟩
  simp only [hn] at hcm
  have hb := call_boost_beta3 evR K A ⟨⟨be, mom, az, some l, some t⟩, [a, b, c, d]⟩
    ⟨⟨be', mom', az', some l', none⟩, [(spatial_scale.eval az' l' (-1) a' b' c').1,
      (spatial_scale.eval az' l' (-1) a' b' c').2.1, (spatial_scale.eval az' l' (-1) a' b' c').2.2]⟩
  simp [VT.dim] at hcm hb
  rw [hcm.2.1, ← hb]

theorem boostCM_of_p4_case (K : Consts ℝ) (A : Arith ℝ) (hK : K.negOne = -1) {va vb : Vec ℝ} {pa pb : List ℝ}
    (ha : Good4 va) (hb : Good4 vb) (da : denote va = some pa) (db : denote vb = some pb) (ga : Generic4 pa)
    (gb : Generic4 pb) (gr : Generic4 (bcm4L pa pb)) :
    ∃ r, call evR K A "boostCM_of_p4" va [.v vb] = .ok (.vec r) ∧ Good4 r ∧ denote r = some (bcm4L pa pb) := by
  obtain ⟨-, -, -, -, -, hSa⟩ := generic_storage_ok4 ha da ga
  obtain ⟨x, y, z, t, rfl, -, -, -, -⟩ := id ga
  obtain ⟨px, py, pz, E, rfl, q1, q2, hE1, hE2⟩ := id gb
  obtain ⟨be1, mom1, az1, l1, t1, a0, a1, a2, a3, rfl, hA1, hL1, hT1, hS1⟩ := good4_cases ha
  obtain ⟨be2, mom2, az2, l2, t2, b0, b1, b2, b3, rfl, hA2, hL2, hT2, hS2⟩ := good4_cases hb
  have eb := denote_V4_eq db
  simp only [List.cons.injEq, and_true] at eb
  obtain ⟨ex, ey, ez, eE⟩ := eb
  have hcore := core3 hA2 hL2 hS2 (by rw [← ex, ← ey]; exact q1) (by rw [← ez]; exact q2)
  obtain ⟨hr, hc2, hT, hCL, hθ, hm⟩ := hcore
  have hcp : Stored4 (fun _ l t _ _ c d => ThetaRange l c ∧ TanOK l c ∧ SinOK l c ∧ CanonTmp t d)
      (C11M.V4 be2 mom2 az2 l2 t2 b0 b1 b2 b3) := ⟨hθ, hT, hS2, canonTmp_of_inTmp hT2⟩
  obtain ⟨w, hcall, -, -, -, hden⟩ := c09m_boostCM_of_p4 K A hK _ _ ha.wf ha.dim hb.wf hb.dim hSa hcp x y z t px py pz E da db
    (fun _ => ⟨hE1, hE2⟩)
  refine ⟨w, hcall, ?_, hden⟩
  have he := boostCM_of_p4_eval K A hK be1 mom1 az1 l1 t1 a0 a1 a2 a3 be2 mom2 az2 l2 t2 b0 b1 b2 b3
  rw [hcall, boost_p4_eval] at he
  have := vec_inj he
  subst this
  have hc := c13c_lorentz_boost_p4 az1 l1 t1 az2 l2 t2 a0 a1 a2 a3 (spatial_scale.eval az2 l2 (-1) b0 b1 b2).1
    (spatial_scale.eval az2 l2 (-1) b0 b1 b2).2.1 (spatial_scale.eval az2 l2 (-1) b0 b1 b2).2.2 b3 hT1
  rw [c13c_lorentz_boost_p4_ret] at hc
  obtain ⟨h1, h2, h3⟩ := outCanon4_parts hc
  exact good4_result (be := C01M.hbe be1 be2) (mom := mom1 || mom2) h1 h2 h3 hden gr

theorem boostCM_of_beta3_case (K : Consts ℝ) (A : Arith ℝ) (hK : K.negOne = -1) {va vb : Vec ℝ} {pa pb : List ℝ}
    (ha : Good4 va) (hb : Good3 vb) (da : denote va = some pa) (db : denote vb = some pb) (ga : Generic4 pa)
    (gb : Generic3 pb) (hsub : SubLum pb) (gr : Generic4 (bcm3L pa pb)) :
    ∃ r, call evR K A "boostCM_of_beta3" va [.v vb] = .ok (.vec r) ∧ Good4 r ∧ denote r = some (bcm3L pa pb) := by
  obtain ⟨-, -, -, -, -, hSa⟩ := generic_storage_ok4 ha da ga
  obtain ⟨-, -, -, hθb, -, -, -, hTb, hSb, -⟩ := generic_storage_ok hb db gb
  obtain ⟨x, y, z, t, rfl, -, -, -, -⟩ := id ga
  obtain ⟨bx, by', bz, rfl, -, -⟩ := id gb
  obtain ⟨be1, mom1, az1, l1, t1, a0, a1, a2, a3, rfl, hA1, hL1, hT1, hS1⟩ := good4_cases ha
  obtain ⟨be2, mom2, az2, l2, b0, b1, b2, rfl, hA2, hL2, hS2⟩ := good3_cases hb
  have hcp : Stored3 (fun _ l _ _ c => ThetaRange l c ∧ TanOK l c ∧ SinOK l c) (C11M.V3 be2 mom2 az2 l2 b0 b1 b2) :=
    ⟨hθb, hTb, hSb⟩
  obtain ⟨w, hcall, -, -, -, hden⟩ := c09m_boostCM_of_beta3 K A hK _ _ ha.wf ha.dim hb.wf hb.dim hSa hcp x y z t bx by' bz
    da db (fun _ => hsub)
  refine ⟨w, hcall, ?_, hden⟩
  have he := boostCM_of_beta3_eval K A hK be1 mom1 az1 l1 t1 a0 a1 a2 a3 be2 mom2 az2 l2 b0 b1 b2
  rw [hcall, boost_beta3_eval] at he
  have := vec_inj he
  subst this
  have hc := c13c_lorentz_boost_beta3 az1 l1 t1 az2 l2 a0 a1 a2 a3 (spatial_scale.eval az2 l2 (-1) b0 b1 b2).1
    (spatial_scale.eval az2 l2 (-1) b0 b1 b2).2.1 (spatial_scale.eval az2 l2 (-1) b0 b1 b2).2.2 hT1
  rw [c13c_lorentz_boost_beta3_ret] at hc
  obtain ⟨h1, h2, h3⟩ := outCanon4_parts hc
  exact good4_result (be := C01M.hbe be1 be2) (mom := mom1 || mom2) h1 h2 h3 hden gr

/-! ## 2. The extended language: every node of `C01E.E` plus the rest of the vector-valued public API -/

inductive F : Type
  -- the nodes of `C01E.E`
  | var (i : Nat)
  | add (a b : F)
  | sub (a b : F)
  | scale (k : ℝ) (a : F)
  | unit (a : F)
  | rotateZ (ang : ℝ) (a : F)
  | rotateX (ang : ℝ) (a : F)
  | rotateY (ang : ℝ) (a : F)
  | cross (a b : F)
  | boostX (β : ℝ) (a : F)
  | boostY (β : ℝ) (a : F)
  | boostZ (β : ℝ) (a : F)
  | boost_p4 (a b : F)
  | boost_beta3 (a b : F)
  | conv2 (az : Az) (a : F)
  | conv3 (az : Az) (lon : Lon) (a : F)
  | conv4 (az : Az) (lon : Lon) (tmp : Tmp) (a : F)
  | to2D (a : F)
  | to3D (a : F)
  | to3D_kw (l : Lon) (s : ℝ) (a : F)
  | to4D_kw (tm : Tmp) (s : ℝ) (a : F)
  -- new: rotations of 3D / 4D vectors
  | rotate_axis (ang : ℝ) (a axis : F)                -- `a.rotate_axis(axis, ang)`, `axis` a 3D vector
  | rotate_euler (φ θ ψ : ℝ) (a : F)                  -- default order "zxz"
  | rotate_euler_ord (o : Ord) (φ θ ψ : ℝ) (a : F)    -- `a.rotate_euler(φ, θ, ψ, order)`, the 12 orders
  | rotate_nautical (yaw pitch roll : ℝ) (a : F)
  | rotate_quaternion (u i j k : ℝ) (a : F)           -- unit quaternion
  -- new: 4D
  | boostXg (γ : ℝ) (a : F)                           -- `a.boostX(gamma=γ)`
  | boostYg (γ : ℝ) (a : F)
  | boostZg (γ : ℝ) (a : F)
  | boostCM_of_p4 (a b : F)
  | boostCM_of_beta3 (a b : F)
  | to_beta3 (a : F)                                  -- 4D → 3D
  | transform4D (m : M4) (a : F)
  -- new: 2D / 3D linear maps on a vector of the matching dimension
  | transform2D (xx xy yx yy : ℝ) (a : F)
  | transform3D (xx xy xz yx yy yz zx zy zz : ℝ) (a : F)
  -- new: lower-dimensional `to_<system>` projections
  | proj2 (az : Az) (a : F)                           -- `to_xy()` / `to_rhophi()` on a vector of any dimension
  | proj3 (az : Az) (lon : Lon) (a : F)               -- `to_xyz()` … `to_rhophieta()` on a 4D vector

/-- **the model**: every node is the public call on the values of the operands -/
noncomputable def evalMF (K : Consts ℝ) (A : Arith ℝ) (ρ : Nat → Vec ℝ) : F → Except Err (Vec ℝ)
  | .var i => .ok (ρ i)
  | .add a b => bin (evalMF K A ρ a) (evalMF K A ρ b) fun va vb => call evR K A "add" va [.v vb]
  | .sub a b => bin (evalMF K A ρ a) (evalMF K A ρ b) fun va vb => call evR K A "subtract" va [.v vb]
  | .scale k a => un (evalMF K A ρ a) fun va => call evR K A "scale" va [.sc k]
  | .unit a => un (evalMF K A ρ a) fun va => call evR K A "unit" va []
  | .rotateZ ang a => un (evalMF K A ρ a) fun va => call evR K A "rotateZ" va [.sc ang]
  | .rotateX ang a => un (evalMF K A ρ a) fun va => call evR K A "rotateX" va [.sc ang]
  | .rotateY ang a => un (evalMF K A ρ a) fun va => call evR K A "rotateY" va [.sc ang]
  | .cross a b => bin (evalMF K A ρ a) (evalMF K A ρ b) fun va vb => call evR K A "cross" va [.v vb]
  | .boostX β a => un (evalMF K A ρ a) fun va => call evR K A "boostX" va [.kw "beta" β]
  | .boostY β a => un (evalMF K A ρ a) fun va => call evR K A "boostY" va [.kw "beta" β]
  | .boostZ β a => un (evalMF K A ρ a) fun va => call evR K A "boostZ" va [.kw "beta" β]
  | .boost_p4 a b => bin (evalMF K A ρ a) (evalMF K A ρ b) fun va vb => call evR K A "boost_p4" va [.v vb]
  | .boost_beta3 a b => bin (evalMF K A ρ a) (evalMF K A ρ b) fun va vb => call evR K A "boost_beta3" va [.v vb]
  | .conv2 az a => un (evalMF K A ρ a) fun va => call evR K A (convName2 az) va []
  | .conv3 az l a => un (evalMF K A ρ a) fun va => call evR K A (convName az l) va []
  | .conv4 az l tm a => un (evalMF K A ρ a) fun va => call evR K A (convName4 az l tm) va []
  | .to2D a => un (evalMF K A ρ a) fun va => call evR K A "to_Vector2D" va []
  | .to3D a => un (evalMF K A ρ a) fun va => call evR K A "to_Vector3D" va []
  | .to3D_kw l s a => un (evalMF K A ρ a) fun va => call evR K A "to_Vector3D" va [.kw (lonKw l) s]
  | .to4D_kw tm s a => un (evalMF K A ρ a) fun va => call evR K A "to_Vector4D" va [.kw (tmpKw tm) s]
  | .rotate_axis ang a x =>
    bin (evalMF K A ρ a) (evalMF K A ρ x) fun va vx => call evR K A "rotate_axis" va [.v vx, .sc ang]
  | .rotate_euler φ θ ψ a => un (evalMF K A ρ a) fun va => call evR K A "rotate_euler" va [.sc φ, .sc θ, .sc ψ]
  | .rotate_euler_ord o φ θ ψ a =>
    un (evalMF K A ρ a) fun va => call evR K A "rotate_euler" va [.sc φ, .sc θ, .sc ψ, .str o.str]
  | .rotate_nautical yaw pitch roll a =>
    un (evalMF K A ρ a) fun va => call evR K A "rotate_nautical" va [.sc yaw, .sc pitch, .sc roll]
  | .rotate_quaternion u i j k a =>
    un (evalMF K A ρ a) fun va => call evR K A "rotate_quaternion" va [.sc u, .sc i, .sc j, .sc k]
  | .boostXg γ a => un (evalMF K A ρ a) fun va => call evR K A "boostX" va [.kw "gamma" γ]
  | .boostYg γ a => un (evalMF K A ρ a) fun va => call evR K A "boostY" va [.kw "gamma" γ]
  | .boostZg γ a => un (evalMF K A ρ a) fun va => call evR K A "boostZ" va [.kw "gamma" γ]
  | .boostCM_of_p4 a b =>
    bin (evalMF K A ρ a) (evalMF K A ρ b) fun va vb => call evR K A "boostCM_of_p4" va [.v vb]
  | .boostCM_of_beta3 a b =>
    bin (evalMF K A ρ a) (evalMF K A ρ b) fun va vb => call evR K A "boostCM_of_beta3" va [.v vb]
  | .to_beta3 a => un (evalMF K A ρ a) fun va => call evR K A "to_beta3" va []
  | .transform4D m a => un (evalMF K A ρ a) fun va => call evR K A "transform4D" va m.args
  | .transform2D xx xy yx yy a =>
    un (evalMF K A ρ a) fun va => call evR K A "transform2D" va [.sc xx, .sc xy, .sc yx, .sc yy]
  | .transform3D xx xy xz yx yy yz zx zy zz a =>
    un (evalMF K A ρ a) fun va =>
      call evR K A "transform3D" va [.sc xx, .sc xy, .sc xz, .sc yx, .sc yy, .sc yz, .sc zx, .sc zy, .sc zz]
  | .proj2 az a => un (evalMF K A ρ a) fun va => call evR K A (convName2 az) va []
  | .proj3 az l a => un (evalMF K A ρ a) fun va => call evR K A (convName az l) va []

/-- **the specification**, on Cartesian component lists only -/
noncomputable def evalSF (ρS : Nat → List ℝ) : F → List ℝ
  | .var i => ρS i
  | .add a b => List.zipWith (· + ·) (evalSF ρS a) (evalSF ρS b)
  | .sub a b => List.zipWith (· - ·) (evalSF ρS a) (evalSF ρS b)
  | .scale k a => (evalSF ρS a).map (k * ·)
  | .unit a => (evalSF ρS a).map (fun x => 1 / normL (evalSF ρS a) * x)
  | .rotateZ ang a => onPlanar (rotZ2 ang) (evalSF ρS a)
  | .rotateX ang a => onSpatial (rotX ang) (evalSF ρS a)
  | .rotateY ang a => onSpatial (rotY ang) (evalSF ρS a)
  | .cross a b => crossL (evalSF ρS a) (evalSF ρS b)
  | .boostX β a => on4 (bXβ β) (evalSF ρS a)
  | .boostY β a => on4 (bYβ β) (evalSF ρS a)
  | .boostZ β a => on4 (bZβ β) (evalSF ρS a)
  | .boost_p4 a b => bp4L (evalSF ρS a) (evalSF ρS b)
  | .boost_beta3 a b => bβ3L (evalSF ρS a) (evalSF ρS b)
  | .conv2 _ a => evalSF ρS a
  | .conv3 _ _ a => evalSF ρS a
  | .conv4 _ _ _ a => evalSF ρS a
  | .to2D a => (evalSF ρS a).take 2
  | .to3D a => (evalSF ρS a).take 3
  | .to3D_kw l s a => embL l s (evalSF ρS a)
  | .to4D_kw tm s a => embT tm s (evalSF ρS a)
  | .rotate_axis ang a x => axisRotL (evalSF ρS x) ang (evalSF ρS a)
  | .rotate_euler φ θ ψ a => onSpatial (eulerRot .zxz φ θ ψ) (evalSF ρS a)
  | .rotate_euler_ord o φ θ ψ a => onSpatial (eulerRot o φ θ ψ) (evalSF ρS a)
  | .rotate_nautical yaw pitch roll a => onSpatial (eulerRot .zyx roll pitch yaw) (evalSF ρS a)
  | .rotate_quaternion u i j k a => onSpatial (quatRot u i j k) (evalSF ρS a)
  | .boostXg γ a => on4 (bXγ γ) (evalSF ρS a)
  | .boostYg γ a => on4 (bYγ γ) (evalSF ρS a)
  | .boostZg γ a => on4 (bZγ γ) (evalSF ρS a)
  | .boostCM_of_p4 a b => bcm4L (evalSF ρS a) (evalSF ρS b)
  | .boostCM_of_beta3 a b => bcm3L (evalSF ρS a) (evalSF ρS b)
  | .to_beta3 a => beta3L (evalSF ρS a)
  | .transform4D m a => on4 m.ap (evalSF ρS a)
  | .transform2D xx xy yx yy a => onPlanar (C12M.mat2 xx xy yx yy) (evalSF ρS a)
  | .transform3D xx xy xz yx yy yz zx zy zz a => onSpatial (C12M.mat3 xx xy xz yx yy yz zx zy zz) (evalSF ρS a)
  | .proj2 _ a => (evalSF ρS a).take 2
  | .proj3 _ _ a => (evalSF ρS a).take 3

/-- every subexpression's specified value is generic in its dimension, the expression is well-dimensioned (conditions on
the lengths of the specified values), and the parameters are in range (`|β| < 1`, `1 ≤ |γ|`, `0 < θ < π`, `0 ≤ τ`,
`|β⃗| < 1`, unit quaternion) -/
def GenericAllF (ρS : Nat → List ℝ) : F → Prop
  | .var i => Generic (ρS i)
  | .add a b => (GenericAllF ρS a ∧ GenericAllF ρS b) ∧ (evalSF ρS a).length = (evalSF ρS b).length ∧
      Generic (evalSF ρS (.add a b))
  | .sub a b => (GenericAllF ρS a ∧ GenericAllF ρS b) ∧ (evalSF ρS a).length = (evalSF ρS b).length ∧
      Generic (evalSF ρS (.sub a b))
  | .scale k a => GenericAllF ρS a ∧ True ∧ Generic (evalSF ρS (.scale k a))
  | .unit a => GenericAllF ρS a ∧ True ∧ Generic (evalSF ρS (.unit a))
  | .rotateZ ang a => GenericAllF ρS a ∧ True ∧ Generic (evalSF ρS (.rotateZ ang a))
  | .rotateX ang a => GenericAllF ρS a ∧ 3 ≤ (evalSF ρS a).length ∧ Generic (evalSF ρS (.rotateX ang a))
  | .rotateY ang a => GenericAllF ρS a ∧ 3 ≤ (evalSF ρS a).length ∧ Generic (evalSF ρS (.rotateY ang a))
  | .cross a b => (GenericAllF ρS a ∧ GenericAllF ρS b) ∧
      ((evalSF ρS a).length = 3 ∧ (evalSF ρS b).length = 3) ∧ Generic (evalSF ρS (.cross a b))
  | .boostX β a => GenericAllF ρS a ∧ ((evalSF ρS a).length = 4 ∧ |β| < 1) ∧ Generic (evalSF ρS (.boostX β a))
  | .boostY β a => GenericAllF ρS a ∧ ((evalSF ρS a).length = 4 ∧ |β| < 1) ∧ Generic (evalSF ρS (.boostY β a))
  | .boostZ β a => GenericAllF ρS a ∧ ((evalSF ρS a).length = 4 ∧ |β| < 1) ∧ Generic (evalSF ρS (.boostZ β a))
  | .boost_p4 a b => (GenericAllF ρS a ∧ GenericAllF ρS b) ∧
      ((evalSF ρS a).length = 4 ∧ (evalSF ρS b).length = 4) ∧ Generic (evalSF ρS (.boost_p4 a b))
  | .boost_beta3 a b => (GenericAllF ρS a ∧ GenericAllF ρS b) ∧
      ((evalSF ρS a).length = 4 ∧ SubLum (evalSF ρS b)) ∧ Generic (evalSF ρS (.boost_beta3 a b))
  | .conv2 az a => GenericAllF ρS a ∧ (evalSF ρS a).length = 2 ∧ Generic (evalSF ρS (.conv2 az a))
  | .conv3 az l a => GenericAllF ρS a ∧ (evalSF ρS a).length = 3 ∧ Generic (evalSF ρS (.conv3 az l a))
  | .conv4 az l tm a => GenericAllF ρS a ∧ (evalSF ρS a).length = 4 ∧ Generic (evalSF ρS (.conv4 az l tm a))
  | .to2D a => GenericAllF ρS a ∧ True ∧ Generic (evalSF ρS (.to2D a))
  | .to3D a => GenericAllF ρS a ∧ 3 ≤ (evalSF ρS a).length ∧ Generic (evalSF ρS (.to3D a))
  | .to3D_kw l s a => GenericAllF ρS a ∧ ((evalSF ρS a).length = 2 ∧ LonParamOK l s) ∧
      Generic (evalSF ρS (.to3D_kw l s a))
  | .to4D_kw tm s a => GenericAllF ρS a ∧ ((evalSF ρS a).length = 3 ∧ TmpParamOK tm s) ∧
      Generic (evalSF ρS (.to4D_kw tm s a))
  | .rotate_axis ang a x => (GenericAllF ρS a ∧ GenericAllF ρS x) ∧
      (3 ≤ (evalSF ρS a).length ∧ (evalSF ρS x).length = 3) ∧ Generic (evalSF ρS (.rotate_axis ang a x))
  | .rotate_euler φ θ ψ a => GenericAllF ρS a ∧ 3 ≤ (evalSF ρS a).length ∧ Generic (evalSF ρS (.rotate_euler φ θ ψ a))
  | .rotate_euler_ord o φ θ ψ a => GenericAllF ρS a ∧ 3 ≤ (evalSF ρS a).length ∧
      Generic (evalSF ρS (.rotate_euler_ord o φ θ ψ a))
  | .rotate_nautical yaw pitch roll a => GenericAllF ρS a ∧ 3 ≤ (evalSF ρS a).length ∧
      Generic (evalSF ρS (.rotate_nautical yaw pitch roll a))
  | .rotate_quaternion u i j k a => GenericAllF ρS a ∧
      (3 ≤ (evalSF ρS a).length ∧ u ^ 2 + i ^ 2 + j ^ 2 + k ^ 2 = 1) ∧ Generic (evalSF ρS (.rotate_quaternion u i j k a))
  | .boostXg γ a => GenericAllF ρS a ∧ ((evalSF ρS a).length = 4 ∧ 1 ≤ |γ|) ∧ Generic (evalSF ρS (.boostXg γ a))
  | .boostYg γ a => GenericAllF ρS a ∧ ((evalSF ρS a).length = 4 ∧ 1 ≤ |γ|) ∧ Generic (evalSF ρS (.boostYg γ a))
  | .boostZg γ a => GenericAllF ρS a ∧ ((evalSF ρS a).length = 4 ∧ 1 ≤ |γ|) ∧ Generic (evalSF ρS (.boostZg γ a))
  | .boostCM_of_p4 a b => (GenericAllF ρS a ∧ GenericAllF ρS b) ∧
      ((evalSF ρS a).length = 4 ∧ (evalSF ρS b).length = 4) ∧ Generic (evalSF ρS (.boostCM_of_p4 a b))
  | .boostCM_of_beta3 a b => (GenericAllF ρS a ∧ GenericAllF ρS b) ∧
      ((evalSF ρS a).length = 4 ∧ SubLum (evalSF ρS b)) ∧ Generic (evalSF ρS (.boostCM_of_beta3 a b))
  | .to_beta3 a => GenericAllF ρS a ∧ (evalSF ρS a).length = 4 ∧ Generic (evalSF ρS (.to_beta3 a))
  | .transform4D m a => GenericAllF ρS a ∧ (evalSF ρS a).length = 4 ∧ Generic (evalSF ρS (.transform4D m a))
  | .transform2D xx xy yx yy a => GenericAllF ρS a ∧ (evalSF ρS a).length = 2 ∧
      Generic (evalSF ρS (.transform2D xx xy yx yy a))
  | .transform3D xx xy xz yx yy yz zx zy zz a => GenericAllF ρS a ∧ (evalSF ρS a).length = 3 ∧
      Generic (evalSF ρS (.transform3D xx xy xz yx yy yz zx zy zz a))
  | .proj2 az a => GenericAllF ρS a ∧ True ∧ Generic (evalSF ρS (.proj2 az a))
  | .proj3 az l a => GenericAllF ρS a ∧ (evalSF ρS a).length = 4 ∧ Generic (evalSF ρS (.proj3 az l a))

theorem genericAllF_self {ρS : Nat → List ℝ} {e : F} (h : GenericAllF ρS e) : Generic (evalSF ρS e) := by
  cases e <;> first | exact h | exact h.2.2

/-! ## 3. MAIN THEOREM -/

/-- **coordinate independence of every generic expression of the extended language**: the model run succeeds, the result
satisfies the invariant `Good` (well-formed, stored coordinates in range, not stored at a pole), and it denotes the
specified value — whatever coordinate systems, flavors and backends the variables are stored in -/
theorem c01f_eval (K : Consts ℝ) (A : Arith ℝ) (hK : K.negOne = -1) (ρ : Nat → Vec ℝ) (ρS : Nat → List ℝ)
    (hρ : ∀ i, Good (ρ i)) (hS : ∀ i, denote (ρ i) = some (ρS i)) (e : F) (hg : GenericAllF ρS e) :
    ∃ v, evalMF K A ρ e = .ok v ∧ Good v ∧ denote v = some (evalSF ρS e) := by
  induction e with
  | var i => exact ⟨ρ i, rfl, hρ i, hS i⟩
  | add a b iha ihb =>
    obtain ⟨⟨ga, gb⟩, hl, gr⟩ := hg
    obtain ⟨va, ea, ha, da⟩ := iha ga
    obtain ⟨vb, eb, hb, db⟩ := ihb gb
    obtain ⟨r, hc, hr, hd⟩ := bin_lift (fun v w => call evR K A "add" v [.v w]) (List.zipWith (· + ·)) hl
      (by rw [List.length_zipWith, hl, min_self])
      (fun h2 h2' _ _ _ => add2_case K A h2 h2' da db) (fun h3 h3' g g' g'' => add_case K A h3 h3' da db g g' g'')
      (fun h4 h4' g g' g'' => add4_case K A h4 h4' da db g g' g'') ha hb da db (genericAllF_self ga)
      (genericAllF_self gb) gr
    exact ⟨r, bin_ok ea eb hc, hr, hd⟩
  | sub a b iha ihb =>
    obtain ⟨⟨ga, gb⟩, hl, gr⟩ := hg
    obtain ⟨va, ea, ha, da⟩ := iha ga
    obtain ⟨vb, eb, hb, db⟩ := ihb gb
    obtain ⟨r, hc, hr, hd⟩ := bin_lift (fun v w => call evR K A "subtract" v [.v w]) (List.zipWith (· - ·)) hl
      (by rw [List.length_zipWith, hl, min_self])
      (fun h2 h2' _ _ _ => sub2_case K A h2 h2' da db) (fun h3 h3' g g' g'' => sub_case K A h3 h3' da db g g' g'')
      (fun h4 h4' g g' g'' => sub4_case K A h4 h4' da db g g' g'') ha hb da db (genericAllF_self ga)
      (genericAllF_self gb) gr
    exact ⟨r, bin_ok ea eb hc, hr, hd⟩
  | scale k a iha =>
    obtain ⟨ga, -, gr⟩ := hg
    obtain ⟨va, ea, ha, da⟩ := iha ga
    obtain ⟨r, hc, hr, hd⟩ := un_lift (fun v => call evR K A "scale" v [.sc k]) (fun p => p.map (k * ·))
      (List.length_map _)
      (fun h2 _ _ => scale2_case K A k h2 da) (fun h3 g g' => scale_case K A k h3 da g g')
      (fun h4 g g' => scale4_case K A k h4 da g g') ha da (genericAllF_self ga) gr
    exact ⟨r, un_ok ea hc, hr, hd⟩
  | unit a iha =>
    obtain ⟨ga, -, gr⟩ := hg
    obtain ⟨va, ea, ha, da⟩ := iha ga
    obtain ⟨r, hc, hr, hd⟩ := un_lift (fun v => call evR K A "unit" v []) (fun p => p.map (fun x => 1 / normL p * x))
      (List.length_map _)
      (fun h2 g _ => unit2_case K A h2 da g) (fun h3 g g' => unit_case K A h3 da g g')
      (fun h4 g g' => unit4_case K A h4 da g g') ha da (genericAllF_self ga) gr
    exact ⟨r, un_ok ea hc, hr, hd⟩
  | rotateZ ang a iha =>
    obtain ⟨ga, -, gr⟩ := hg
    obtain ⟨va, ea, ha, da⟩ := iha ga
    obtain ⟨r, hc, hr, hd⟩ := un_lift (fun v => call evR K A "rotateZ" v [.sc ang]) (onPlanar (rotZ2 ang))
      (onPlanar_length _ _)
      (fun h2 _ _ => rotateZ2_case K A ang h2 da)
      (fun h3 g g' => by
        obtain ⟨x, y, z, e, -⟩ := id g
        rw [e] at da g g' ⊢
        exact rotateZ_case K A ang h3 da g g')
      (fun h4 g g' => by
        obtain ⟨x, y, z, t, e, -⟩ := id g
        rw [e] at da g g' ⊢
        exact rotateZ4_case K A ang h4 da g g') ha da (genericAllF_self ga) gr
    exact ⟨r, un_ok ea hc, hr, hd⟩
  | rotateX ang a iha =>
    obtain ⟨ga, hl, gr⟩ := hg
    obtain ⟨va, ea, ha, da⟩ := iha ga
    obtain ⟨r, hc, hr, hd⟩ := un_lift (fun v => call evR K A "rotateX" v [.sc ang]) (onSpatial (rotX ang))
      (onSpatial_length _ _)
      (fun _ g _ => by obtain ⟨x, y, e, -⟩ := g; rw [e] at hl; simp at hl)
      (fun h3 g g' => rotateX_case K A ang h3 da g g') (fun h4 g g' => rotateX4_case K A ang h4 da g g')
      ha da (genericAllF_self ga) gr
    exact ⟨r, un_ok ea hc, hr, hd⟩
  | rotateY ang a iha =>
    obtain ⟨ga, hl, gr⟩ := hg
    obtain ⟨va, ea, ha, da⟩ := iha ga
    obtain ⟨r, hc, hr, hd⟩ := un_lift (fun v => call evR K A "rotateY" v [.sc ang]) (onSpatial (rotY ang))
      (onSpatial_length _ _)
      (fun _ g _ => by obtain ⟨x, y, e, -⟩ := g; rw [e] at hl; simp at hl)
      (fun h3 g g' => rotateY_case K A ang h3 da g g') (fun h4 g g' => rotateY4_case K A ang h4 da g g')
      ha da (genericAllF_self ga) gr
    exact ⟨r, un_ok ea hc, hr, hd⟩
  | cross a b iha ihb =>
    obtain ⟨⟨ga, gb⟩, ⟨hla, hlb⟩, gr⟩ := hg
    obtain ⟨va, ea, ha, da⟩ := iha ga
    obtain ⟨vb, eb, hb, db⟩ := ihb gb
    have g₁ := generic_len3 (genericAllF_self ga) hla
    have g₂ := generic_len3 (genericAllF_self gb) hlb
    have g₃ : Generic3 (crossL (evalSF ρS a) (evalSF ρS b)) := by
      obtain ⟨x₁, y₁, z₁, e₁, -⟩ := id g₁
      obtain ⟨x₂, y₂, z₂, e₂, -⟩ := id g₂
      refine generic_len3 gr ?_
      show (crossL (evalSF ρS a) (evalSF ρS b)).length = 3
      rw [e₁, e₂]; rfl
    obtain ⟨r, hc, hr, hd⟩ := cross_case K A (good_to3 ha da hla) (good_to3 hb db hlb) da db g₁ g₂ g₃
    exact ⟨r, bin_ok ea eb hc, good_of3 hr, hd⟩
  | boostX β a iha =>
    obtain ⟨ga, ⟨hl, hβ⟩, gr⟩ := hg
    obtain ⟨va, ea, ha, da⟩ := iha ga
    obtain ⟨r, hc, hr, hd⟩ := boostX4_case K A β hβ (good_to4 ha da hl) da (generic_len4 (genericAllF_self ga) hl)
      (generic_len4 gr (by show (on4 _ _).length = 4; rw [on4_length, hl]))
    exact ⟨r, un_ok ea hc, good_of4 hr, hd⟩
  | boostY β a iha =>
    obtain ⟨ga, ⟨hl, hβ⟩, gr⟩ := hg
    obtain ⟨va, ea, ha, da⟩ := iha ga
    obtain ⟨r, hc, hr, hd⟩ := boostY4_case K A β hβ (good_to4 ha da hl) da (generic_len4 (genericAllF_self ga) hl)
      (generic_len4 gr (by show (on4 _ _).length = 4; rw [on4_length, hl]))
    exact ⟨r, un_ok ea hc, good_of4 hr, hd⟩
  | boostZ β a iha =>
    obtain ⟨ga, ⟨hl, hβ⟩, gr⟩ := hg
    obtain ⟨va, ea, ha, da⟩ := iha ga
    obtain ⟨r, hc, hr, hd⟩ := boostZ4_case K A β hβ (good_to4 ha da hl) da (generic_len4 (genericAllF_self ga) hl)
      (generic_len4 gr (by show (on4 _ _).length = 4; rw [on4_length, hl]))
    exact ⟨r, un_ok ea hc, good_of4 hr, hd⟩
  | boost_p4 a b iha ihb =>
    obtain ⟨⟨ga, gb⟩, ⟨hla, hlb⟩, gr⟩ := hg
    obtain ⟨va, ea, ha, da⟩ := iha ga
    obtain ⟨vb, eb, hb, db⟩ := ihb gb
    have g₁ := generic_len4 (genericAllF_self ga) hla
    have g₂ := generic_len4 (genericAllF_self gb) hlb
    have g₃ : Generic4 (bp4L (evalSF ρS a) (evalSF ρS b)) := by
      obtain ⟨x₁, y₁, z₁, t₁, e₁, -⟩ := id g₁
      obtain ⟨x₂, y₂, z₂, t₂, e₂, -⟩ := id g₂
      refine generic_len4 gr ?_
      show (bp4L (evalSF ρS a) (evalSF ρS b)).length = 4
      rw [e₁, e₂]; rfl
    obtain ⟨r, hc, hr, hd⟩ := boost_p4_case K A (good_to4 ha da hla) (good_to4 hb db hlb) da db g₁ g₂ g₃
    exact ⟨r, bin_ok ea eb hc, good_of4 hr, hd⟩
  | boost_beta3 a b iha ihb =>
    obtain ⟨⟨ga, gb⟩, ⟨hla, hsub⟩, gr⟩ := hg
    obtain ⟨va, ea, ha, da⟩ := iha ga
    obtain ⟨vb, eb, hb, db⟩ := ihb gb
    have hlb : (evalSF ρS b).length = 3 := by
      revert hsub
      generalize evalSF ρS b = q
      intro hsub
      match q, hsub with
      | [_, _, _], _ => rfl
    have g₁ := generic_len4 (genericAllF_self ga) hla
    have g₂ := generic_len3 (genericAllF_self gb) hlb
    have g₃ : Generic4 (bβ3L (evalSF ρS a) (evalSF ρS b)) := by
      obtain ⟨x₁, y₁, z₁, t₁, e₁, -⟩ := id g₁
      obtain ⟨x₂, y₂, z₂, e₂, -⟩ := id g₂
      refine generic_len4 gr ?_
      show (bβ3L (evalSF ρS a) (evalSF ρS b)).length = 4
      rw [e₁, e₂]; rfl
    obtain ⟨r, hc, hr, hd⟩ := boost_beta3_case K A (good_to4 ha da hla) (good_to3 hb db hlb) da db g₁ g₂ hsub g₃
    exact ⟨r, bin_ok ea eb hc, good_of4 hr, hd⟩
  | conv2 az a iha =>
    obtain ⟨ga, hl, gr⟩ := hg
    obtain ⟨va, ea, ha, da⟩ := iha ga
    obtain ⟨r, hc, hr, hd⟩ := conv2_case K A az (good_to2 ha da hl) da
    exact ⟨r, un_ok ea hc, good_of2 hr, hd⟩
  | conv3 az l a iha =>
    obtain ⟨ga, hl, gr⟩ := hg
    obtain ⟨va, ea, ha, da⟩ := iha ga
    obtain ⟨r, hc, hr, hd⟩ := conv_case K A az l (good_to3 ha da hl) da (generic_len3 (genericAllF_self ga) hl)
    exact ⟨r, un_ok ea hc, good_of3 hr, hd⟩
  | conv4 az l tm a iha =>
    obtain ⟨ga, hl, gr⟩ := hg
    obtain ⟨va, ea, ha, da⟩ := iha ga
    obtain ⟨r, hc, hr, hd⟩ := conv4_case K A az l tm (good_to4 ha da hl) da (generic_len4 (genericAllF_self ga) hl)
    exact ⟨r, un_ok ea hc, good_of4 hr, hd⟩
  | to2D a iha =>
    obtain ⟨ga, -, gr⟩ := hg
    obtain ⟨va, ea, ha, da⟩ := iha ga
    obtain ⟨r, hc, hr, hd⟩ := to2D_case K A ha da
    exact ⟨r, un_ok ea hc, good_of2 hr, hd⟩
  | to3D a iha =>
    obtain ⟨ga, hl, gr⟩ := hg
    obtain ⟨va, ea, ha, da⟩ := iha ga
    obtain ⟨r, hc, hr, hd⟩ := to3D_case K A ha da hl
    exact ⟨r, un_ok ea hc, good_of3 hr, hd⟩
  | to3D_kw l s a iha =>
    obtain ⟨ga, ⟨hl, hs⟩, gr⟩ := hg
    obtain ⟨va, ea, ha, da⟩ := iha ga
    obtain ⟨r, hc, hr, hd⟩ := to3D_kw_case K A l s hs (good_to2 ha da hl) da
    exact ⟨r, un_ok ea hc, good_of3 hr, hd⟩
  | to4D_kw tm s a iha =>
    obtain ⟨ga, ⟨hl, hs⟩, gr⟩ := hg
    obtain ⟨va, ea, ha, da⟩ := iha ga
    obtain ⟨r, hc, hr, hd⟩ := to4D_kw_case K A tm s hs (good_to3 ha da hl) da
    exact ⟨r, un_ok ea hc, good_of4 hr, hd⟩
  | rotate_axis ang a x iha ihx =>
    obtain ⟨⟨ga, gx⟩, ⟨hla, hlx⟩, gr⟩ := hg
    obtain ⟨va, ea, ha, da⟩ := iha ga
    obtain ⟨vx, ex, hx, dx⟩ := ihx gx
    obtain ⟨r, hc, hr, hd⟩ := rotate_axis_case K A ang ha (good_to3 hx dx hlx) da dx (genericAllF_self ga)
      (generic_len3 (genericAllF_self gx) hlx) hla gr
    exact ⟨r, bin_ok ea ex hc, hr, hd⟩
  | rotate_euler φ θ ψ a iha =>
    obtain ⟨ga, hl, gr⟩ := hg
    obtain ⟨va, ea, ha, da⟩ := iha ga
    obtain ⟨r, hc, hr, hd⟩ := rotate_euler_case K A φ θ ψ ha da (genericAllF_self ga) hl gr
    exact ⟨r, un_ok ea hc, hr, hd⟩
  | rotate_euler_ord o φ θ ψ a iha =>
    obtain ⟨ga, hl, gr⟩ := hg
    obtain ⟨va, ea, ha, da⟩ := iha ga
    obtain ⟨r, hc, hr, hd⟩ := rotate_euler_ord_case K A o φ θ ψ ha da (genericAllF_self ga) hl gr
    exact ⟨r, un_ok ea hc, hr, hd⟩
  | rotate_nautical yaw pitch roll a iha =>
    obtain ⟨ga, hl, gr⟩ := hg
    obtain ⟨va, ea, ha, da⟩ := iha ga
    obtain ⟨r, hc, hr, hd⟩ := rotate_nautical_case K A yaw pitch roll ha da (genericAllF_self ga) hl gr
    exact ⟨r, un_ok ea hc, hr, hd⟩
  | rotate_quaternion u i j k a iha =>
    obtain ⟨ga, ⟨hl, hq⟩, gr⟩ := hg
    obtain ⟨va, ea, ha, da⟩ := iha ga
    obtain ⟨r, hc, hr, hd⟩ := rotate_quaternion_case K A u i j k hq ha da (genericAllF_self ga) hl gr
    exact ⟨r, un_ok ea hc, hr, hd⟩
  | boostXg γ a iha =>
    obtain ⟨ga, ⟨hl, hγ⟩, gr⟩ := hg
    obtain ⟨va, ea, ha, da⟩ := iha ga
    obtain ⟨r, hc, hr, hd⟩ := boostXg4_case K A γ hγ (good_to4 ha da hl) da (generic_len4 (genericAllF_self ga) hl)
      (generic_len4 gr (by show (on4 _ _).length = 4; rw [on4_length, hl]))
    exact ⟨r, un_ok ea hc, good_of4 hr, hd⟩
  | boostYg γ a iha =>
    obtain ⟨ga, ⟨hl, hγ⟩, gr⟩ := hg
    obtain ⟨va, ea, ha, da⟩ := iha ga
    obtain ⟨r, hc, hr, hd⟩ := boostYg4_case K A γ hγ (good_to4 ha da hl) da (generic_len4 (genericAllF_self ga) hl)
      (generic_len4 gr (by show (on4 _ _).length = 4; rw [on4_length, hl]))
    exact ⟨r, un_ok ea hc, good_of4 hr, hd⟩
  | boostZg γ a iha =>
    obtain ⟨ga, ⟨hl, hγ⟩, gr⟩ := hg
    obtain ⟨va, ea, ha, da⟩ := iha ga
    obtain ⟨r, hc, hr, hd⟩ := boostZg4_case K A γ hγ (good_to4 ha da hl) da (generic_len4 (genericAllF_self ga) hl)
      (generic_len4 gr (by show (on4 _ _).length = 4; rw [on4_length, hl]))
    exact ⟨r, un_ok ea hc, good_of4 hr, hd⟩
  | boostCM_of_p4 a b iha ihb =>
    obtain ⟨⟨ga, gb⟩, ⟨hla, hlb⟩, gr⟩ := hg
    obtain ⟨va, ea, ha, da⟩ := iha ga
    obtain ⟨vb, eb, hb, db⟩ := ihb gb
    have g₁ := generic_len4 (genericAllF_self ga) hla
    have g₂ := generic_len4 (genericAllF_self gb) hlb
    have g₃ : Generic4 (bcm4L (evalSF ρS a) (evalSF ρS b)) := by
      obtain ⟨x₁, y₁, z₁, t₁, e₁, -⟩ := id g₁
      obtain ⟨x₂, y₂, z₂, t₂, e₂, -⟩ := id g₂
      refine generic_len4 gr ?_
      show (bcm4L (evalSF ρS a) (evalSF ρS b)).length = 4
      rw [e₁, e₂]; rfl
    obtain ⟨r, hc, hr, hd⟩ := boostCM_of_p4_case K A hK (good_to4 ha da hla) (good_to4 hb db hlb) da db g₁ g₂ g₃
    exact ⟨r, bin_ok ea eb hc, good_of4 hr, hd⟩
  | boostCM_of_beta3 a b iha ihb =>
    obtain ⟨⟨ga, gb⟩, ⟨hla, hsub⟩, gr⟩ := hg
    obtain ⟨va, ea, ha, da⟩ := iha ga
    obtain ⟨vb, eb, hb, db⟩ := ihb gb
    have hlb : (evalSF ρS b).length = 3 := by
      revert hsub
      generalize evalSF ρS b = q
      intro hsub
      match q, hsub with
      | [_, _, _], _ => rfl
    have g₁ := generic_len4 (genericAllF_self ga) hla
    have g₂ := generic_len3 (genericAllF_self gb) hlb
    have g₃ : Generic4 (bcm3L (evalSF ρS a) (evalSF ρS b)) := by
      obtain ⟨x₁, y₁, z₁, t₁, e₁, -⟩ := id g₁
      obtain ⟨x₂, y₂, z₂, e₂, -⟩ := id g₂
      refine generic_len4 gr ?_
      show (bcm3L (evalSF ρS a) (evalSF ρS b)).length = 4
      rw [e₁, e₂]; rfl
    obtain ⟨r, hc, hr, hd⟩ := boostCM_of_beta3_case K A hK (good_to4 ha da hla) (good_to3 hb db hlb) da db g₁ g₂ hsub g₃
    exact ⟨r, bin_ok ea eb hc, good_of4 hr, hd⟩
  | to_beta3 a iha =>
    obtain ⟨ga, hl, gr⟩ := hg
    obtain ⟨va, ea, ha, da⟩ := iha ga
    obtain ⟨r, hc, hr, hd⟩ := to_beta3_case K A (good_to4 ha da hl) da (generic_len4 (genericAllF_self ga) hl)
    exact ⟨r, un_ok ea hc, good_of3 hr, hd⟩
  | transform4D m a iha =>
    obtain ⟨ga, hl, gr⟩ := hg
    obtain ⟨va, ea, ha, da⟩ := iha ga
    obtain ⟨r, hc, hr, hd⟩ := transform4D_case K A m (good_to4 ha da hl) da (generic_len4 (genericAllF_self ga) hl)
    exact ⟨r, un_ok ea hc, good_of4 hr, hd⟩
  | transform2D xx xy yx yy a iha =>
    obtain ⟨ga, hl, gr⟩ := hg
    obtain ⟨va, ea, ha, da⟩ := iha ga
    obtain ⟨r, hc, hr, hd⟩ := transform2D_case K A xx xy yx yy (good_to2 ha da hl) da
    exact ⟨r, un_ok ea hc, good_of2 hr, hd⟩
  | transform3D xx xy xz yx yy yz zx zy zz a iha =>
    obtain ⟨ga, hl, gr⟩ := hg
    obtain ⟨va, ea, ha, da⟩ := iha ga
    obtain ⟨r, hc, hr, hd⟩ := transform3D_case K A xx xy xz yx yy yz zx zy zz (good_to3 ha da hl) da
      (generic_len3 (genericAllF_self ga) hl)
    exact ⟨r, un_ok ea hc, good_of3 hr, hd⟩
  | proj2 az a iha =>
    obtain ⟨ga, -, gr⟩ := hg
    obtain ⟨va, ea, ha, da⟩ := iha ga
    obtain ⟨r, hc, hr, hd⟩ := proj2_case K A az ha da
    exact ⟨r, un_ok ea hc, good_of2 hr, hd⟩
  | proj3 az l a iha =>
    obtain ⟨ga, hl, gr⟩ := hg
    obtain ⟨va, ea, ha, da⟩ := iha ga
    obtain ⟨r, hc, hr, hd⟩ := proj3_case K A az l (good_to4 ha da hl) da (generic_len4 (genericAllF_self ga) hl)
    exact ⟨r, un_ok ea hc, good_of3 hr, hd⟩

/-! ## 4. COROLLARY: property C01 in its literal form -/

/-- **C01 for whole computations over the extended language**: two environments holding THE SAME geometric vectors —
variables of any dimension in any of the 2 / 6 / 12 storages, any flavors and backends — give results with the same
denotation (namely the specified value), for every generic expression -/
theorem c01f_indep (K : Consts ℝ) (A : Arith ℝ) (hK : K.negOne = -1) (ρ₁ ρ₂ : Nat → Vec ℝ)
    (h₁ : ∀ i, Good (ρ₁ i)) (h₂ : ∀ i, Good (ρ₂ i)) (hd : ∀ i, denote (ρ₁ i) = denote (ρ₂ i)) (e : F)
    (hg : GenericAllF (specEnv ρ₁) e) :
    ∃ v₁ v₂, evalMF K A ρ₁ e = .ok v₁ ∧ evalMF K A ρ₂ e = .ok v₂ ∧ denote v₁ = denote v₂ ∧
      denote v₁ = some (evalSF (specEnv ρ₁) e) := by
  obtain ⟨v₁, e₁, -, d₁⟩ := c01f_eval K A hK ρ₁ (specEnv ρ₁) h₁ (denote_specEnvU h₁) e hg
  obtain ⟨v₂, e₂, -, d₂⟩ :=
    c01f_eval K A hK ρ₂ (specEnv ρ₁) h₂ (fun i => by rw [← hd i]; exact denote_specEnvU h₁ i) e hg
  exact ⟨v₁, v₂, e₁, e₂, by rw [d₁, d₂], d₁⟩

/-- the same as one equation between the two runs -/
theorem c01f_indep_eq (K : Consts ℝ) (A : Arith ℝ) (hK : K.negOne = -1) (ρ₁ ρ₂ : Nat → Vec ℝ)
    (h₁ : ∀ i, Good (ρ₁ i)) (h₂ : ∀ i, Good (ρ₂ i)) (hd : ∀ i, denote (ρ₁ i) = denote (ρ₂ i)) (e : F)
    (hg : GenericAllF (specEnv ρ₁) e) :
    (evalMF K A ρ₁ e).toOption.bind denote = (evalMF K A ρ₂ e).toOption.bind denote ∧
      ((evalMF K A ρ₁ e).toOption.bind denote).isSome := by
  obtain ⟨v₁, v₂, e₁, e₂, h, h'⟩ := c01f_indep K A hK ρ₁ ρ₂ h₁ h₂ hd e hg
  rw [e₁, e₂]
  refine ⟨h, ?_⟩
  show (denote v₁).isSome = true
  rw [h']; rfl

/-! ## 5. Scalar expressions over the extended language -/

/-- the momentum-only transverse variables -/
inductive MomS | Et | Et2 | Mt | Mt2

def MomS.name : MomS → String
  | .Et => "Et" | .Et2 => "Et2" | .Mt => "Mt" | .Mt2 => "Mt2"

/-- their specification on `(x, y, z, t)` (for the forward time-like generic vectors) -/
noncomputable def mspec : MomS → ℝ → ℝ → ℝ → ℝ → ℝ
  | .Et, x, y, z, t => sqrt (t ^ 2 * (x ^ 2 + y ^ 2) / (x ^ 2 + y ^ 2 + z ^ 2))
  | .Et2, x, y, z, t => t ^ 2 * (x ^ 2 + y ^ 2) / (x ^ 2 + y ^ 2 + z ^ 2)
  | .Mt, _, _, z, t => sqrt (t ^ 2 - z ^ 2)
  | .Mt2, _, _, z, t => t ^ 2 - z ^ 2

inductive SF : Type
  | un (f : UnS4) (a : F)          -- the accessor-like properties of `C01E.SU`
  | bi (f : BinS) (a b : F)        -- `dot deltaphi deltaeta deltaR2 deltaR deltaangle`
  | abs (a : F)                    -- `abs(v)`
  | sq (a : F)                     -- `v ** 2`
  | mom (f : MomS) (a : F)         -- `Et Et2 Mt Mt2` of a 4D value of momentum flavor
  | dRapPhi (a b : F)              -- `deltaRapidityPhi`
  | dRapPhi2 (a b : F)             -- `deltaRapidityPhi2`

noncomputable def evalMSF (K : Consts ℝ) (A : Arith ℝ) (ρ : Nat → Vec ℝ) : SF → Except Err (Res ℝ Prop)
  | .un f a => unS (evalMF K A ρ a) fun va => call evR K A f.name va []
  | .bi f a b => binS (evalMF K A ρ a) (evalMF K A ρ b) fun va vb => call evR K A f.name va [.v vb]
  | .abs a => unS (evalMF K A ρ a) fun va => operator evR K A "abs" va []
  | .sq a => unS (evalMF K A ρ a) fun va => operator evR K A "pow" va [.sc 2]
  | .mom f a => unS (evalMF K A ρ a) fun va => call evR K A f.name va []
  | .dRapPhi a b => binS (evalMF K A ρ a) (evalMF K A ρ b) fun va vb => call evR K A "deltaRapidityPhi" va [.v vb]
  | .dRapPhi2 a b => binS (evalMF K A ρ a) (evalMF K A ρ b) fun va vb => call evR K A "deltaRapidityPhi2" va [.v vb]

/-- `Δφ² + Δy²` of two four-vectors: `Δφ` the rectified difference of the azimuths, `y` the rapidity -/
noncomputable def dRap2L : List ℝ → List ℝ → ℝ
  | [x₁, y₁, z₁, t₁], [x₂, y₂, z₂, t₂] =>
    (P.mod (P.arctan2 y₁ x₁ - P.arctan2 y₂ x₂ + π) (2 * π) - π) ^ 2
      + (rapidityOf (x₁, y₁, z₁, t₁) - rapidityOf (x₂, y₂, z₂, t₂)) ^ 2
  | _, _ => 0

noncomputable def evalSSF (ρS : Nat → List ℝ) : SF → ℝ
  | .un f a => unSpecL f (evalSF ρS a)
  | .bi f a b => biSpecL f (evalSF ρS a) (evalSF ρS b)
  | .abs a => C12M.normS (evalSF ρS a)
  | .sq a => C12M.norm2S (evalSF ρS a)
  | .mom f a => on4s (mspec f) (evalSF ρS a)
  | .dRapPhi a b => sqrt (dRap2L (evalSF ρS a) (evalSF ρS b))
  | .dRapPhi2 a b => dRap2L (evalSF ρS a) (evalSF ρS b)

def GenericSF (ρS : Nat → List ℝ) : SF → Prop
  | .un f a => GenericAllF ρS a ∧ f.dimOK (evalSF ρS a).length ∧ (f = .sp .phi → PhiOKU (evalSF ρS a))
  | .bi f a b => (GenericAllF ρS a ∧ GenericAllF ρS b) ∧ (evalSF ρS a).length = (evalSF ρS b).length ∧
      ((evalSF ρS a).length = 2 → f = .dot ∨ f = .deltaphi)
  | .abs a => GenericAllF ρS a
  | .sq a => GenericAllF ρS a
  | .mom _ a => GenericAllF ρS a ∧ (evalSF ρS a).length = 4
  | .dRapPhi a b => (GenericAllF ρS a ∧ GenericAllF ρS b) ∧ (evalSF ρS a).length = 4 ∧ (evalSF ρS b).length = 4
  | .dRapPhi2 a b => (GenericAllF ρS a ∧ GenericAllF ρS b) ∧ (evalSF ρS a).length = 4 ∧ (evalSF ρS b).length = 4

/-- the flavor (momentum or not) of a value is not part of its denotation: the momentum-only properties need the MODEL
value to be of momentum flavor (for a variable: `(ρ i).ty.mom = true`) -/
def MomOK (K : Consts ℝ) (A : Arith ℝ) (ρ : Nat → Vec ℝ) : SF → Prop
  | .mom _ a => ∀ v, evalMF K A ρ a = .ok v → v.ty.mom = true
  | _ => True

theorem normOK_of_good {v : Vec ℝ} {p : List ℝ} (hv : Good v) (hd : denote v = some p) (hg : Generic p) :
    C12M.NormOK v := by
  rcases generic_length hg with hl | hl | hl
  · obtain ⟨be, mom, az, a, b, rfl, hA⟩ := good2_cases (good_to2 hv hd hl)
    exact canon2_of_azOK hA
  · have h3 := good_to3 hv hd hl
    obtain ⟨-, -, -, -, -, -, hC3, -, hS, -⟩ := generic_storage_ok h3 hd (generic_len3 hg hl)
    obtain ⟨be, mom, az, l, a, b, c, rfl, -, -, -⟩ := good3_cases h3
    exact ⟨hC3.1, hS⟩
  · have h4 := good_to4 hv hd hl
    have g4 := generic_len4 hg hl
    obtain ⟨x, y, z, t, rfl, -⟩ := id g4
    obtain ⟨-, hC3, -, -, hCt⟩ := facts4 h4 hd g4
    obtain ⟨be, mom, az, l, tm, a, b, c, d, rfl, -, -, -, -⟩ := good4_cases h4
    exact ⟨hC3.2, hCt⟩

theorem mom_case (K : Consts ℝ) (A : Arith ℝ) (f : MomS) {va : Vec ℝ} {x y z t : ℝ} (ha : Good4 va)
    (hmom : va.ty.mom = true) (da : denote va = some [x, y, z, t]) (ga : Generic4 [x, y, z, t]) :
    call evR K A f.name va [] = .ok (.scalar (mspec f x y z t)) := by
  obtain ⟨-, hC3, hT4, hS4, hCt⟩ := facts4 ha da ga
  obtain ⟨g1, g2, g3, g4⟩ := (generic4_iff _ _ _ _).1 ga
  have hp : 0 < x ^ 2 + y ^ 2 + z ^ 2 := by positivity
  cases f
  · exact c09m_acc_Et K A va ha.wf hmom ⟨hC3, hCt⟩ x y z t da hp g4.le
  · exact c09m_acc_Et2 K A va ha.wf hmom ⟨hC3.2, hCt⟩ x y z t da hp
  · exact c09m_acc_Mt K A va ha.wf hmom ⟨hT4, hCt⟩ x y z t da (by nlinarith [sq_nonneg x, sq_nonneg y])
  · exact c09m_acc_Mt2 K A va ha.wf hmom ⟨hT4, hCt⟩ x y z t da

theorem abs_lt_of_generic4 {x y z t : ℝ} (h : Generic4 [x, y, z, t]) : |z| < t := by
  obtain ⟨g1, g2, g3, g4⟩ := (generic4_iff _ _ _ _).1 h
  rw [abs_lt]
  constructor <;> nlinarith [sq_nonneg x, sq_nonneg y, sq_nonneg (t + z), sq_nonneg (t - z)]

theorem dRap_case (K : Consts ℝ) (A : Arith ℝ) {va vb : Vec ℝ} {x₁ y₁ z₁ t₁ x₂ y₂ z₂ t₂ : ℝ} (ha : Good4 va)
    (hb : Good4 vb) (da : denote va = some [x₁, y₁, z₁, t₁]) (db : denote vb = some [x₂, y₂, z₂, t₂])
    (ga : Generic4 [x₁, y₁, z₁, t₁]) (gb : Generic4 [x₂, y₂, z₂, t₂]) :
    call evR K A "deltaRapidityPhi2" va [.v vb] =
        .ok (.scalar (dRap2L [x₁, y₁, z₁, t₁] [x₂, y₂, z₂, t₂])) ∧
    call evR K A "deltaRapidityPhi" va [.v vb] =
        .ok (.scalar (sqrt (dRap2L [x₁, y₁, z₁, t₁] [x₂, y₂, z₂, t₂]))) := by
  obtain ⟨-, -, -, -, hBa, -⟩ := generic_storage_ok4 ha da ga
  obtain ⟨-, -, -, -, hBb, -⟩ := generic_storage_ok4 hb db gb
  obtain ⟨⟨hra, -⟩, -⟩ := facts4 ha da ga
  obtain ⟨⟨hrb, -⟩, -⟩ := facts4 hb db gb
  obtain ⟨dphi, -, h2, h1, hphi⟩ := C12M.c12m_deltaRapidityPhi K A va vb ha.wf hb.wf ha.dim hb.dim hBa hBb
    x₁ y₁ z₁ t₁ x₂ y₂ z₂ t₂ da db (abs_lt_of_generic4 ga) (abs_lt_of_generic4 gb)
  have e := hphi hra hrb
  subst e
  exact ⟨h2, h1⟩

/-- **scalar expressions over the extended language**: the model returns the specified scalar
(`hA`: the model's test `other == 2` of `__pow__` succeeds on the literal `2`) -/
theorem c01f_evalS (K : Consts ℝ) (A : Arith ℝ) (hK : K.negOne = -1) (hA : A.isTwo 2 = true) (ρ : Nat → Vec ℝ)
    (ρS : Nat → List ℝ) (hρ : ∀ i, Good (ρ i)) (hS : ∀ i, denote (ρ i) = some (ρS i)) (s : SF)
    (hg : GenericSF ρS s) (hm : MomOK K A ρ s) :
    evalMSF K A ρ s = .ok (.scalar (evalSSF ρS s)) := by
  cases s with
  | un f a =>
    obtain ⟨ga, hdim, hphi⟩ := hg
    obtain ⟨va, ea, ha, da⟩ := c01f_eval K A hK ρ ρS hρ hS a ga
    have g := genericAllF_self ga
    simp only [evalMSF, evalSSF, ea, unS]
    rcases generic_length g with hl | hl | hl
    · have g2 := generic_len2 g hl
      obtain ⟨x, y, e, -⟩ := id g2
      rw [e] at da g2 hphi hdim ⊢
      cases f with
      | sp f' =>
        have hp : f'.planar := by
          rcases hdim with h | h
          · exact h
          · simp at h
        exact un2_case K A f' hp (good_to2 ha da rfl) da g2 (fun e' => hphi (by rw [e']))
      | _ => simp [UnS4.dimOK] at hdim
    · have g3 := generic_len3 g hl
      obtain ⟨x, y, z, e, -⟩ := id g3
      rw [e] at da g3 hphi hdim ⊢
      cases f with
      | sp f' => exact un_case K A f' (good_to3 ha da rfl) da g3 (fun e' => hphi (by rw [e']))
      | _ => simp [UnS4.dimOK] at hdim
    · have g4 := generic_len4 g hl
      obtain ⟨x, y, z, t, e, -⟩ := id g4
      rw [e] at da g4 hphi ⊢
      exact un4_case K A f (good_to4 ha da rfl) da g4 hphi
  | bi f a b =>
    obtain ⟨⟨ga, gb⟩, hl, h2D⟩ := hg
    obtain ⟨va, ea, ha, da⟩ := c01f_eval K A hK ρ ρS hρ hS a ga
    obtain ⟨vb, eb, hb, db⟩ := c01f_eval K A hK ρ ρS hρ hS b gb
    have g₁ := genericAllF_self ga
    have g₂ := genericAllF_self gb
    simp only [evalMSF, evalSSF, ea, eb, binS]
    rcases generic_length g₁ with hla | hla | hla
    · have hlb : (evalSF ρS b).length = 2 := by rw [← hl, hla]
      have g2a := generic_len2 g₁ hla
      have g2b := generic_len2 g₂ hlb
      have hf := h2D hla
      obtain ⟨x₁, y₁, e₁, -⟩ := id g2a
      obtain ⟨x₂, y₂, e₂, -⟩ := id g2b
      rw [e₁] at da g2a ⊢
      rw [e₂] at db g2b ⊢
      exact bi2_case K A f hf (good_to2 ha da rfl) (good_to2 hb db rfl) da db g2a g2b
    · have hlb : (evalSF ρS b).length = 3 := by rw [← hl, hla]
      have g3a := generic_len3 g₁ hla
      have g3b := generic_len3 g₂ hlb
      obtain ⟨x₁, y₁, z₁, e₁, -⟩ := id g3a
      obtain ⟨x₂, y₂, z₂, e₂, -⟩ := id g3b
      rw [e₁] at da g3a ⊢
      rw [e₂] at db g3b ⊢
      exact bi_case K A f (good_to3 ha da rfl) (good_to3 hb db rfl) da db g3a g3b
    · have hlb : (evalSF ρS b).length = 4 := by rw [← hl, hla]
      have g4a := generic_len4 g₁ hla
      have g4b := generic_len4 g₂ hlb
      obtain ⟨x₁, y₁, z₁, t₁, e₁, -⟩ := id g4a
      obtain ⟨x₂, y₂, z₂, t₂, e₂, -⟩ := id g4b
      rw [e₁] at da g4a ⊢
      rw [e₂] at db g4b ⊢
      exact bi4_case K A f (good_to4 ha da rfl) (good_to4 hb db rfl) da db g4a g4b
  | abs a =>
    obtain ⟨va, ea, ha, da⟩ := c01f_eval K A hK ρ ρS hρ hS a hg
    simp only [evalMSF, evalSSF, ea, unS]
    exact C12M.c12m_abs K A va ha.1 (normOK_of_good ha da (genericAllF_self hg)) _ da
  | sq a =>
    obtain ⟨va, ea, ha, da⟩ := c01f_eval K A hK ρ ρS hρ hS a hg
    simp only [evalMSF, evalSSF, ea, unS]
    exact C12M.c12m_pow_two K A va ha.1
      (C12M.norm2OK_of_normOK ha.1 (normOK_of_good ha da (genericAllF_self hg))) _ da 2 hA
  | mom f a =>
    obtain ⟨ga, hl⟩ := hg
    obtain ⟨va, ea, ha, da⟩ := c01f_eval K A hK ρ ρS hρ hS a ga
    have hmom : va.ty.mom = true := hm va ea
    have g4 := generic_len4 (genericAllF_self ga) hl
    obtain ⟨x, y, z, t, e, -⟩ := id g4
    rw [e] at da g4
    simp only [evalMSF, evalSSF, ea, unS, e, on4s]
    exact mom_case K A f (good_to4 ha da rfl) hmom da g4
  | dRapPhi a b =>
    obtain ⟨⟨ga, gb⟩, hla, hlb⟩ := hg
    obtain ⟨va, ea, ha, da⟩ := c01f_eval K A hK ρ ρS hρ hS a ga
    obtain ⟨vb, eb, hb, db⟩ := c01f_eval K A hK ρ ρS hρ hS b gb
    have g4a := generic_len4 (genericAllF_self ga) hla
    have g4b := generic_len4 (genericAllF_self gb) hlb
    obtain ⟨x₁, y₁, z₁, t₁, e₁, -⟩ := id g4a
    obtain ⟨x₂, y₂, z₂, t₂, e₂, -⟩ := id g4b
    rw [e₁] at da g4a
    rw [e₂] at db g4b
    simp only [evalMSF, evalSSF, ea, eb, binS, e₁, e₂]
    exact (dRap_case K A (good_to4 ha da rfl) (good_to4 hb db rfl) da db g4a g4b).2
  | dRapPhi2 a b =>
    obtain ⟨⟨ga, gb⟩, hla, hlb⟩ := hg
    obtain ⟨va, ea, ha, da⟩ := c01f_eval K A hK ρ ρS hρ hS a ga
    obtain ⟨vb, eb, hb, db⟩ := c01f_eval K A hK ρ ρS hρ hS b gb
    have g4a := generic_len4 (genericAllF_self ga) hla
    have g4b := generic_len4 (genericAllF_self gb) hlb
    obtain ⟨x₁, y₁, z₁, t₁, e₁, -⟩ := id g4a
    obtain ⟨x₂, y₂, z₂, t₂, e₂, -⟩ := id g4b
    rw [e₁] at da g4a
    rw [e₂] at db g4b
    simp only [evalMSF, evalSSF, ea, eb, binS, e₁, e₂]
    exact (dRap_case K A (good_to4 ha da rfl) (good_to4 hb db rfl) da db g4a g4b).1

/-- **C01 for scalar expressions over the extended language**: the same geometric vectors in any storages give the same
number (for the momentum-only properties: both runs on values of momentum flavor) -/
theorem c01f_indepS (K : Consts ℝ) (A : Arith ℝ) (hK : K.negOne = -1) (hA : A.isTwo 2 = true) (ρ₁ ρ₂ : Nat → Vec ℝ)
    (h₁ : ∀ i, Good (ρ₁ i)) (h₂ : ∀ i, Good (ρ₂ i)) (hd : ∀ i, denote (ρ₁ i) = denote (ρ₂ i)) (s : SF)
    (hg : GenericSF (specEnv ρ₁) s) (hm₁ : MomOK K A ρ₁ s) (hm₂ : MomOK K A ρ₂ s) :
    evalMSF K A ρ₁ s = evalMSF K A ρ₂ s ∧ evalMSF K A ρ₁ s = .ok (.scalar (evalSSF (specEnv ρ₁) s)) := by
  have e₁ := c01f_evalS K A hK hA ρ₁ (specEnv ρ₁) h₁ (denote_specEnvU h₁) s hg hm₁
  have e₂ := c01f_evalS K A hK hA ρ₂ (specEnv ρ₁) h₂ (fun i => by rw [← hd i]; exact denote_specEnvU h₁ i) s hg hm₂
  exact ⟨by rw [e₁, e₂], e₁⟩

/-! ## 6. Truth-valued expressions -/

inductive CausalP | timelike | spacelike | lightlike
inductive AngleP | parallel | antiparallel | perpendicular

def CausalP.name : CausalP → String
  | .timelike => "is_timelike" | .spacelike => "is_spacelike" | .lightlike => "is_lightlike"
def AngleP.name : AngleP → String
  | .parallel => "is_parallel" | .antiparallel => "is_antiparallel" | .perpendicular => "is_perpendicular"

inductive TF : Type
  | causal (f : CausalP) (tol : ℝ) (a : F)        -- `a.is_timelike(tol)` … on a 4D value
  | angle (f : AngleP) (tol : ℝ) (a b : F)        -- `a.is_parallel(b, tol)` … on values of equal dimension
  | equal (a b : F)                                -- `a == b`
  | not_equal (a b : F)                            -- `a != b`

noncomputable def evalMTF (K : Consts ℝ) (A : Arith ℝ) (ρ : Nat → Vec ℝ) : TF → Except Err (Res ℝ Prop)
  | .causal f tol a => unS (evalMF K A ρ a) fun va => call evR K A f.name va [.sc tol]
  | .angle f tol a b => binS (evalMF K A ρ a) (evalMF K A ρ b) fun va vb => call evR K A f.name va [.v vb, .sc tol]
  | .equal a b => binS (evalMF K A ρ a) (evalMF K A ρ b) fun va vb => call evR K A "equal" va [.v vb]
  | .not_equal a b => binS (evalMF K A ρ a) (evalMF K A ρ b) fun va vb => call evR K A "not_equal" va [.v vb]

/-- the documented sign tests of `s = t² − x² − y² − z²` -/
def causalSpec : CausalP → ℝ → List ℝ → Prop
  | .timelike, tol, [x, y, z, t] => t ^ 2 - (x ^ 2 + y ^ 2 + z ^ 2) > |tol|
  | .spacelike, tol, [x, y, z, t] => t ^ 2 - (x ^ 2 + y ^ 2 + z ^ 2) < -|tol|
  | .lightlike, tol, [x, y, z, t] => |t ^ 2 - (x ^ 2 + y ^ 2 + z ^ 2)| < |tol|
  | _, _, _ => False

/-- the documented tests on the (spatial) dot product `d` and the (spatial) lengths `m₁`, `m₂` -/
def angleCore : AngleP → ℝ → ℝ → ℝ → ℝ → Prop
  | .parallel, tol, d, m₁, m₂ => d > (1 - |tol|) * m₁ * m₂
  | .antiparallel, tol, d, m₁, m₂ => d < (|tol| - 1) * m₁ * m₂
  | .perpendicular, tol, d, m₁, m₂ => |d| < |tol| * m₁ * m₂

noncomputable def angleSpec (f : AngleP) (tol : ℝ) : List ℝ → List ℝ → Prop
  | [x₁, y₁], [x₂, y₂] => angleCore f tol (x₁ * x₂ + y₁ * y₂) (sqrt (x₁ ^ 2 + y₁ ^ 2)) (sqrt (x₂ ^ 2 + y₂ ^ 2))
  | x₁ :: y₁ :: z₁ :: _, x₂ :: y₂ :: z₂ :: _ =>
    angleCore f tol (x₁ * x₂ + y₁ * y₂ + z₁ * z₂) (sqrt (x₁ ^ 2 + y₁ ^ 2 + z₁ ^ 2)) (sqrt (x₂ ^ 2 + y₂ ^ 2 + z₂ ^ 2))
  | _, _ => False

/-- what the returned truth value `p` is specified to be: for the causal and angular predicates EXACTLY the documented
test on the denotations; for `==` / `!=` only soundness (`c12m_eq_denote_partial`: the comparison is on stored
coordinates, the converse fails at the coordinate singularities) -/
noncomputable def TruthSpec (ρS : Nat → List ℝ) : TF → Prop → Prop
  | .causal f tol a, p => p ↔ causalSpec f tol (evalSF ρS a)
  | .angle f tol a b, p => p ↔ angleSpec f tol (evalSF ρS a) (evalSF ρS b)
  | .equal a b, p => p → evalSF ρS a = evalSF ρS b
  | .not_equal a b, p => evalSF ρS a ≠ evalSF ρS b → p

def GenericTF (ρS : Nat → List ℝ) : TF → Prop
  | .causal _ _ a => GenericAllF ρS a ∧ (evalSF ρS a).length = 4
  | .angle _ _ a b => (GenericAllF ρS a ∧ GenericAllF ρS b) ∧ (evalSF ρS a).length = (evalSF ρS b).length
  | .equal a b => (GenericAllF ρS a ∧ GenericAllF ρS b) ∧ (evalSF ρS a).length = (evalSF ρS b).length
  | .not_equal a b => (GenericAllF ρS a ∧ GenericAllF ρS b) ∧ (evalSF ρS a).length = (evalSF ρS b).length

theorem causal_case (K : Consts ℝ) (A : Arith ℝ) (f : CausalP) (tol : ℝ) {va : Vec ℝ} {x y z t : ℝ} (ha : Good4 va)
    (da : denote va = some [x, y, z, t]) (ga : Generic4 [x, y, z, t]) :
    call evR K A f.name va [.sc tol] = .ok (.truth (causalSpec f tol [x, y, z, t])) := by
  obtain ⟨-, -, -, -, hB, -⟩ := generic_storage_ok4 ha da ga
  obtain ⟨h1, -, h3, -, h5, -⟩ := c09m_causal K A va ha.wf hB x y z t da tol
  cases f
  · exact h1
  · exact h3
  · exact h5

theorem predOK_of_good3 {v : Vec ℝ} {p : List ℝ} (hv : Good3 v) (hd : denote v = some p) (hg : Generic3 p) :
    C04M.PredOKV v := by
  obtain ⟨-, -, -, -, -, -, hC3, hT, hS, -⟩ := generic_storage_ok hv hd hg
  exact ⟨hC3.1, hT, hS⟩

theorem predOK_of_good4 {v : Vec ℝ} {x y z t : ℝ} (hv : Good4 v) (hd : denote v = some [x, y, z, t])
    (hg : Generic4 [x, y, z, t]) : C04M.PredOKV v := by
  obtain ⟨⟨-, hC3, hT, hS, -⟩, -⟩ := facts4 hv hd hg
  exact ⟨hC3.1, hT, hS⟩

theorem angle2_case (K : Consts ℝ) (A : Arith ℝ) (f : AngleP) (tol : ℝ) {va vb : Vec ℝ} {x₁ y₁ x₂ y₂ : ℝ}
    (ha : Good2 va) (hb : Good2 vb) (da : denote va = some [x₁, y₁]) (db : denote vb = some [x₂, y₂]) :
    ∃ p : Prop, call evR K A f.name va [.v vb, .sc tol] = .ok (.truth p) ∧ (p ↔ angleSpec f tol [x₁, y₁] [x₂, y₂]) := by
  obtain ⟨be1, mom1, az1, a0, a1, rfl, hA1⟩ := good2_cases ha
  obtain ⟨be2, mom2, az2, b0, b1, rfl, hA2⟩ := good2_cases hb
  have c1 : Stored2 Canon2 (C11M.V2 be1 mom1 az1 a0 a1) := canon2_of_azOK hA1
  have c2 : Stored2 Canon2 (C11M.V2 be2 mom2 az2 b0 b1) := canon2_of_azOK hA2
  cases f
  · exact (C04M.c04m_is_parallel_2D K A _ _ ha.wf hb.wf rfl rfl c1 c2 x₁ y₁ x₂ y₂ da db).2 tol
  · exact (C04M.c04m_is_antiparallel_2D K A _ _ ha.wf hb.wf rfl rfl c1 c2 x₁ y₁ x₂ y₂ da db).2 tol
  · exact (C04M.c04m_is_perpendicular_2D K A _ _ ha.wf hb.wf rfl rfl c1 c2 x₁ y₁ x₂ y₂ da db).2 tol

theorem angle3_case (K : Consts ℝ) (A : Arith ℝ) (f : AngleP) (tol : ℝ) {va vb : Vec ℝ} {x₁ y₁ z₁ x₂ y₂ z₂ : ℝ}
    {r₁ r₂ : List ℝ} (ha : C01M.WFV va) (hb : C01M.WFV vb) (hdim : vb.ty.dim = va.ty.dim) (hca : C04M.PredOKV va)
    (hcb : C04M.PredOKV vb) (da : denote va = some (x₁ :: y₁ :: z₁ :: r₁)) (db : denote vb = some (x₂ :: y₂ :: z₂ :: r₂)) :
    ∃ p : Prop, call evR K A f.name va [.v vb, .sc tol] = .ok (.truth p) ∧
      (p ↔ angleSpec f tol (x₁ :: y₁ :: z₁ :: r₁) (x₂ :: y₂ :: z₂ :: r₂)) := by
  cases f
  · exact (C04M.c04m_is_parallel_3D K A _ _ ha hb hdim hca hcb x₁ y₁ z₁ x₂ y₂ z₂ r₁ r₂ da db).2 tol
  · exact (C04M.c04m_is_antiparallel_3D K A _ _ ha hb hdim hca hcb x₁ y₁ z₁ x₂ y₂ z₂ r₁ r₂ da db).2 tol
  · exact (C04M.c04m_is_perpendicular_3D K A _ _ ha hb hdim hca hcb x₁ y₁ z₁ x₂ y₂ z₂ r₁ r₂ da db).2 tol

theorem canonV_of_good {v : Vec ℝ} {p : List ℝ} (hv : Good v) (hd : denote v = some p) (hg : Generic p) :
    C12M.CanonV v := by
  rcases generic_length hg with hl | hl | hl
  · obtain ⟨be, mom, az, a, b, rfl, hA⟩ := good2_cases (good_to2 hv hd hl)
    trivial
  · have h3 := good_to3 hv hd hl
    obtain ⟨-, -, -, -, -, -, hC3, hT, -, -⟩ := generic_storage_ok h3 hd (generic_len3 hg hl)
    obtain ⟨be, mom, az, l, a, b, c, rfl, -, -, -⟩ := good3_cases h3
    exact ⟨hC3, hT⟩
  · have h4 := good_to4 hv hd hl
    have g4 := generic_len4 hg hl
    obtain ⟨x, y, z, t, rfl, -⟩ := id g4
    obtain ⟨-, hC3, hT, -, hCt⟩ := facts4 h4 hd g4
    obtain ⟨be, mom, az, l, tm, a, b, c, d, rfl, -, -, -, -⟩ := good4_cases h4
    exact ⟨⟨hC3, hCt⟩, hT⟩

/-- **truth-valued expressions**: the model returns a truth value that is the documented test on the specified values
of the operands (`==` / `!=`: soundness only) -/
theorem c01f_evalT (K : Consts ℝ) (A : Arith ℝ) (hK : K.negOne = -1) (ρ : Nat → Vec ℝ) (ρS : Nat → List ℝ)
    (hρ : ∀ i, Good (ρ i)) (hS : ∀ i, denote (ρ i) = some (ρS i)) (b : TF) (hg : GenericTF ρS b) :
    ∃ p : Prop, evalMTF K A ρ b = .ok (.truth p) ∧ TruthSpec ρS b p := by
  cases b with
  | causal f tol a =>
    obtain ⟨ga, hl⟩ := hg
    obtain ⟨va, ea, ha, da⟩ := c01f_eval K A hK ρ ρS hρ hS a ga
    have g4 := generic_len4 (genericAllF_self ga) hl
    obtain ⟨x, y, z, t, e, -⟩ := id g4
    rw [e] at da g4
    refine ⟨causalSpec f tol [x, y, z, t], ?_, ?_⟩
    · simp only [evalMTF, ea, unS]
      exact causal_case K A f tol (good_to4 ha da rfl) da g4
    · simp only [TruthSpec, e]
  | angle f tol a b =>
    obtain ⟨⟨ga, gb⟩, hl⟩ := hg
    obtain ⟨va, ea, ha, da⟩ := c01f_eval K A hK ρ ρS hρ hS a ga
    obtain ⟨vb, eb, hb, db⟩ := c01f_eval K A hK ρ ρS hρ hS b gb
    have g₁ := genericAllF_self ga
    have g₂ := genericAllF_self gb
    simp only [evalMTF, TruthSpec, ea, eb, binS]
    have hdim : vb.ty.dim = va.ty.dim := by rw [dim_of_denote hb.1 db, dim_of_denote ha.1 da, hl]
    rcases generic_length g₁ with hla | hla | hla
    · have hlb : (evalSF ρS b).length = 2 := by rw [← hl, hla]
      obtain ⟨x₁, y₁, e₁, -⟩ := generic_len2 g₁ hla
      obtain ⟨x₂, y₂, e₂, -⟩ := generic_len2 g₂ hlb
      rw [e₁] at da ⊢
      rw [e₂] at db ⊢
      exact angle2_case K A f tol (good_to2 ha da rfl) (good_to2 hb db rfl) da db
    · have hlb : (evalSF ρS b).length = 3 := by rw [← hl, hla]
      have g3a := generic_len3 g₁ hla
      have g3b := generic_len3 g₂ hlb
      obtain ⟨x₁, y₁, z₁, e₁, -⟩ := id g3a
      obtain ⟨x₂, y₂, z₂, e₂, -⟩ := id g3b
      rw [e₁] at da g3a ⊢
      rw [e₂] at db g3b ⊢
      exact angle3_case K A f tol ha.1 hb.1 hdim (predOK_of_good3 (good_to3 ha da rfl) da g3a)
        (predOK_of_good3 (good_to3 hb db rfl) db g3b) da db
    · have hlb : (evalSF ρS b).length = 4 := by rw [← hl, hla]
      have g4a := generic_len4 g₁ hla
      have g4b := generic_len4 g₂ hlb
      obtain ⟨x₁, y₁, z₁, t₁, e₁, -⟩ := id g4a
      obtain ⟨x₂, y₂, z₂, t₂, e₂, -⟩ := id g4b
      rw [e₁] at da g4a ⊢
      rw [e₂] at db g4b ⊢
      exact angle3_case K A f tol ha.1 hb.1 hdim (predOK_of_good4 (good_to4 ha da rfl) da g4a)
        (predOK_of_good4 (good_to4 hb db rfl) db g4b) da db
  | equal a b =>
    obtain ⟨⟨ga, gb⟩, hl⟩ := hg
    obtain ⟨va, ea, ha, da⟩ := c01f_eval K A hK ρ ρS hρ hS a ga
    obtain ⟨vb, eb, hb, db⟩ := c01f_eval K A hK ρ ρS hρ hS b gb
    have hdim : va.ty.dim = vb.ty.dim := by rw [dim_of_denote hb.1 db, dim_of_denote ha.1 da, hl]
    obtain ⟨p, q, -, h2, h3, -⟩ := C12M.c12m_eq_denote_partial K A va vb ha.1 hb.1 hdim
      (canonV_of_good ha da (genericAllF_self ga)) (canonV_of_good hb db (genericAllF_self gb))
    refine ⟨q, by simp only [evalMTF, ea, eb, binS]; exact h2, fun hq => ?_⟩
    have := h3 hq
    rw [da, db] at this
    exact Option.some.inj this
  | not_equal a b =>
    obtain ⟨⟨ga, gb⟩, hl⟩ := hg
    obtain ⟨va, ea, ha, da⟩ := c01f_eval K A hK ρ ρS hρ hS a ga
    obtain ⟨vb, eb, hb, db⟩ := c01f_eval K A hK ρ ρS hρ hS b gb
    have hdim : va.ty.dim = vb.ty.dim := by rw [dim_of_denote hb.1 db, dim_of_denote ha.1 da, hl]
    obtain ⟨p, q, h1, -, -, h4⟩ := C12M.c12m_eq_denote_partial K A va vb ha.1 hb.1 hdim
      (canonV_of_good ha da (genericAllF_self ga)) (canonV_of_good hb db (genericAllF_self gb))
    refine ⟨p, by simp only [evalMTF, ea, eb, binS]; exact h1, fun hne => h4 ?_⟩
    rw [da, db]
    exact fun h => hne (Option.some.inj h)

/-- `!=` is the negation of `==` on every pair of generic expressions of equal dimension -/
theorem c01f_ne_iff_not_eq (K : Consts ℝ) (A : Arith ℝ) (hK : K.negOne = -1) (ρ : Nat → Vec ℝ) (ρS : Nat → List ℝ)
    (hρ : ∀ i, Good (ρ i)) (hS : ∀ i, denote (ρ i) = some (ρS i)) (a b : F) (hg : GenericTF ρS (.equal a b)) :
    ∃ p q : Prop, evalMTF K A ρ (.not_equal a b) = .ok (.truth p) ∧ evalMTF K A ρ (.equal a b) = .ok (.truth q) ∧
      (p ↔ ¬ q) := by
  obtain ⟨⟨ga, gb⟩, hl⟩ := hg
  obtain ⟨va, ea, ha, da⟩ := c01f_eval K A hK ρ ρS hρ hS a ga
  obtain ⟨vb, eb, hb, db⟩ := c01f_eval K A hK ρ ρS hρ hS b gb
  have hdim : va.ty.dim = vb.ty.dim := by rw [dim_of_denote hb.1 db, dim_of_denote ha.1 da, hl]
  obtain ⟨p, q, h1, h2, h3⟩ := C12M.c12m_ne_iff_not_eq K A va vb ha.1 hb.1 hdim
  exact ⟨p, q, by simp only [evalMTF, ea, eb, binS]; exact h1, by simp only [evalMTF, ea, eb, binS]; exact h2, h3⟩

/-- **C01 for the causal and angular predicates**: the same geometric vectors in any storages give equivalent truth
values (for `==` / `!=` no such statement is made: they compare stored coordinates) -/
theorem c01f_indepT (K : Consts ℝ) (A : Arith ℝ) (hK : K.negOne = -1) (ρ₁ ρ₂ : Nat → Vec ℝ)
    (h₁ : ∀ i, Good (ρ₁ i)) (h₂ : ∀ i, Good (ρ₂ i)) (hd : ∀ i, denote (ρ₁ i) = denote (ρ₂ i)) (b : TF)
    (hb : (∃ f tol a, b = .causal f tol a) ∨ (∃ f tol a c, b = .angle f tol a c)) (hg : GenericTF (specEnv ρ₁) b) :
    ∃ p₁ p₂ : Prop, evalMTF K A ρ₁ b = .ok (.truth p₁) ∧ evalMTF K A ρ₂ b = .ok (.truth p₂) ∧ (p₁ ↔ p₂) := by
  obtain ⟨p₁, e₁, s₁⟩ := c01f_evalT K A hK ρ₁ (specEnv ρ₁) h₁ (denote_specEnvU h₁) b hg
  obtain ⟨p₂, e₂, s₂⟩ := c01f_evalT K A hK ρ₂ (specEnv ρ₁) h₂ (fun i => by rw [← hd i]; exact denote_specEnvU h₁ i) b hg
  refine ⟨p₁, p₂, e₁, e₂, ?_⟩
  rcases hb with ⟨f, tol, a, rfl⟩ | ⟨f, tol, a, c, rfl⟩
  · exact s₁.trans s₂.symm
  · exact s₁.trans s₂.symm

/-! ## 7. Non-vacuity: a depth-5 expression with `rotate_axis`, a `gamma=` boost and `to_beta3` over mixed storages -/

/-- `v₀ = (x, y, z, t) = (1, 1, 1, 3)` (object, generic flavor); `v₁ = (ρ, φ, η, τ) = (2, 0, arsinh ½, 2)` (object,
momentum), the point `(2, 0, 1, 3)`; the others: a NumPy 3D vector `(ρ, φ, z) = (3, 0, 4)`, the point `(3, 0, 4)` -/
noncomputable def exEnvF : Nat → Vec ℝ
  | 0 => C11M.V4 .obj false .xy .z .t 1 1 1 3
  | 1 => C11M.V4 .obj true .rhophi .eta .tau 2 0 (arsinh (1 / 2)) 2
  | _ => C11M.V3 .np false .rhophi .z 3 0 4

/-- the same three points, all stored as Cartesian object vectors -/
noncomputable def exEnvF' : Nat → Vec ℝ
  | 0 => C11M.V4 .obj false .xy .z .t 1 1 1 3
  | 1 => C11M.V4 .obj false .xy .z .t 2 0 1 3
  | _ => C11M.V3 .obj false .xy .z 3 0 4

def exSpecF : Nat → List ℝ
  | 0 => [1, 1, 1, 3]
  | 1 => [2, 0, 1, 3]
  | _ => [3, 0, 4]

/-- `(v₀ + v₁).rotate_axis(v₂, π).boostZ(gamma=5/4).to_beta3()` -/
noncomputable def exF : F :=
  .to_beta3 (.boostZg (5 / 4) (.rotate_axis π (.add (.var 0) (.var 1)) (.var 2)))

theorem exEnvF_good : ∀ i, Good (exEnvF i) := by
  intro i
  have hpi := pi_pos
  match i with
  | 0 => exact good_of4 (good4_mk _ _ _ _ _ _ _ _ _ trivial trivial trivial trivial)
  | 1 =>
    exact good_of4 (good4_mk _ _ _ _ _ _ _ _ _ ⟨by norm_num, by linarith, by linarith⟩ trivial
      (show (0 : ℝ) ≤ 2 by norm_num) trivial)
  | (n + 2) => exact good_of3 (good3_mk _ _ _ _ _ _ _ ⟨by norm_num, by linarith, by linarith⟩ trivial trivial)

theorem exEnvF'_good : ∀ i, Good (exEnvF' i) := by
  intro i
  match i with
  | 0 => exact good_of4 (good4_mk _ _ _ _ _ _ _ _ _ trivial trivial trivial trivial)
  | 1 => exact good_of4 (good4_mk _ _ _ _ _ _ _ _ _ trivial trivial trivial trivial)
  | (n + 2) => exact good_of3 (good3_mk _ _ _ _ _ _ _ trivial trivial trivial)

theorem exEnvF_denote : ∀ i, denote (exEnvF i) = some (exSpecF i) := by
  intro i
  match i with
  | 0 => rfl
  | 1 =>
    have h9 : sqrt ((2 : ℝ) ^ 2 + ((2 * 1) ^ 2 + (2 * 0) ^ 2 + (2 * (1 / 2)) ^ 2)) = 3 := by
      rw [show (2 : ℝ) ^ 2 + ((2 * 1) ^ 2 + (2 * 0) ^ 2 + (2 * (1 / 2)) ^ 2) = 3 ^ 2 by norm_num]
      exact sqrt_sq (by norm_num)
    simp only [exEnvF, exSpecF, denote, xOf, yOf, zOf, tOf, mag2Of, rhoOf, cos_zero, sin_zero, sinh_arsinh, h9]
    norm_num
  | (n + 2) =>
    simp only [exEnvF, exSpecF, denote, xOf, yOf, zOf, cos_zero, sin_zero, mul_one, mul_zero]

theorem exEnvF'_denote : ∀ i, denote (exEnvF' i) = some (exSpecF i) := by
  intro i
  match i with
  | 0 => rfl
  | 1 => rfl
  | (n + 2) => rfl

theorem sqrt25 : sqrt ((3 : ℝ) ^ 2 + 0 ^ 2 + 4 ^ 2) = 5 := by
  rw [show (3 : ℝ) ^ 2 + 0 ^ 2 + 4 ^ 2 = 5 ^ 2 by norm_num]
  exact sqrt_sq (by norm_num)

theorem bgam54 : P.copysign (sqrt (|(5 / 4 : ℝ)| ^ 2 - 1)) (5 / 4) = 3 / 4 := by
  have h : |(5 / 4 : ℝ)| ^ 2 - 1 = (3 / 4) ^ 2 := by rw [abs_of_pos (by norm_num)]; norm_num
  rw [h, sqrt_sq (by norm_num)]
  simp only [P.copysign]
  rw [if_pos (by norm_num), abs_of_pos (by norm_num)]

theorem bgam54' : P.copysign (sqrt ((5 / 4 : ℝ) ^ 2 - 1)) (5 / 4) = 3 / 4 := by
  have h := bgam54
  rwa [abs_of_pos (by norm_num)] at h

/-- the specified value of the boosted, rotated sum (before `to_beta3`): the rotation by `π` about `(3, 0, 4)` maps
`(3, 1, 2)` to `(27/25, -1, 86/25)`; the boost with `γ = 5/4`, `βγ = 3/4` gives `z = 44/5`, `t = 252/25` -/
theorem exF_value : evalSF exSpecF (.boostZg (5 / 4) (.rotate_axis π (.add (.var 0) (.var 1)) (.var 2))) =
    [27 / 25, -1, 44 / 5, 252 / 25] := by
  simp only [evalSF, exSpecF, List.zipWith_cons_cons, List.zipWith_nil_right, axisRotL, onSpatial, axisRot, Spec10.rod,
    sqrt25, cos_pi, sin_pi, on4, l4, bZγ, lorentz_boostZ_gamma.eval, lorentz_boostZ_gamma.xy_z_t, bgam54',
    abs_of_pos (show (0 : ℝ) < 5 / 4 by norm_num)]
  norm_num

/-- **`GenericAllF` is satisfiable** for the depth-5 expression `exF` over the mixed-storage environment -/
theorem exF_generic : GenericAllF exSpecF exF := by
  simp only [exF, GenericAllF, evalSF, exSpecF, List.zipWith_cons_cons, List.zipWith_nil_right, axisRotL, onSpatial,
    axisRot, Spec10.rod, sqrt25, cos_pi, sin_pi, on4, l4, bZγ, lorentz_boostZ_gamma.eval, lorentz_boostZ_gamma.xy_z_t,
    bgam54', abs_of_pos (show (0 : ℝ) < 5 / 4 by norm_num), beta3L, generic_iff3, generic_iff4, List.length_cons,
    List.length_nil]
  norm_num

example (K : Consts ℝ) (A : Arith ℝ) (hK : K.negOne = -1) :
    ∃ v, evalMF K A exEnvF exF = .ok v ∧ Good v ∧ denote v = some (evalSF exSpecF exF) :=
  c01f_eval K A hK exEnvF exSpecF exEnvF_good exEnvF_denote exF exF_generic

/-- the mixed-storage run and the all-Cartesian run of `exF` denote the same point -/
example (K : Consts ℝ) (A : Arith ℝ) (hK : K.negOne = -1) :
    ∃ v₁ v₂, evalMF K A exEnvF exF = .ok v₁ ∧ evalMF K A exEnvF' exF = .ok v₂ ∧ denote v₁ = denote v₂ := by
  have hs : specEnv exEnvF = exSpecF := by
    funext i; simp only [specEnv, exEnvF_denote i, Option.getD_some]
  obtain ⟨v₁, v₂, e₁, e₂, h, -⟩ := c01f_indep K A hK exEnvF exEnvF' exEnvF_good exEnvF'_good
    (fun i => by rw [exEnvF_denote, exEnvF'_denote]) exF (hs ▸ exF_generic)
  exact ⟨v₁, v₂, e₁, e₂, h⟩

/-- satisfiable scalar and truth-valued expressions over the same environment: `abs`, `v ** 2`, `Mt` of the momentum
variable `v₁`, `deltaRapidityPhi(v₀ + v₁, v₁)`; `is_timelike(0)` of the boosted rotated sum, `is_parallel` of the two
4D variables, `v₀ + v₁ == v₁.boostZ(gamma=5/4)` -/
example : GenericSF exSpecF (.abs (.add (.var 0) (.var 1))) ∧ GenericSF exSpecF (.sq (.var 2)) ∧
    GenericSF exSpecF (.mom .Mt (.var 1)) ∧ GenericSF exSpecF (.dRapPhi (.add (.var 0) (.var 1)) (.var 1)) ∧
    GenericTF exSpecF (.causal .timelike 0 (.boostZg (5 / 4) (.rotate_axis π (.add (.var 0) (.var 1)) (.var 2)))) ∧
    GenericTF exSpecF (.angle .parallel (1 / 10) (.var 0) (.var 1)) ∧
    GenericTF exSpecF (.equal (.add (.var 0) (.var 1)) (.boostZg (5 / 4) (.var 1))) := by
  refine ⟨?_, ?_, ?_, ?_, ⟨exF_generic.1, ?_⟩, ?_, ?_⟩
  · simp only [GenericSF, GenericAllF, evalSF, exSpecF, List.zipWith_cons_cons, List.zipWith_nil_right,
      generic_iff4, List.length_cons, List.length_nil]
    norm_num
  · simp only [GenericSF, GenericAllF, exSpecF, generic_iff3]
    norm_num
  · simp only [GenericSF, GenericAllF, evalSF, exSpecF, generic_iff4, List.length_cons, List.length_nil]
    norm_num
  · simp only [GenericSF, GenericAllF, evalSF, exSpecF, List.zipWith_cons_cons, List.zipWith_nil_right,
      generic_iff4, List.length_cons, List.length_nil]
    norm_num
  · rw [exF_value]; rfl
  · simp only [GenericTF, GenericAllF, evalSF, exSpecF, generic_iff4, List.length_cons, List.length_nil]
    norm_num
  · simp only [GenericTF, GenericAllF, evalSF, exSpecF, List.zipWith_cons_cons, List.zipWith_nil_right, on4, l4, bZγ,
      lorentz_boostZ_gamma.eval, lorentz_boostZ_gamma.xy_z_t, bgam54', abs_of_pos (show (0 : ℝ) < 5 / 4 by norm_num),
      generic_iff4, List.length_cons, List.length_nil]
    norm_num

/-- the momentum-flavor side condition of `Mt (var 1)` holds in the mixed-storage environment (`v₁` is a momentum object) -/
example (K : Consts ℝ) (A : Arith ℝ) : MomOK K A exEnvF (.mom .Mt (.var 1)) := by
  intro v hv
  have : v = exEnvF 1 := (Except.ok.inj hv).symm
  subst this
  rfl

/-! ## 8. The old language is a sub-language: `C01E.E` embeds into `F`, model, specification and genericity agree -/

def embed : E → F
  | .var i => .var i
  | .add a b => .add (embed a) (embed b)
  | .sub a b => .sub (embed a) (embed b)
  | .scale k a => .scale k (embed a)
  | .unit a => .unit (embed a)
  | .rotateZ ang a => .rotateZ ang (embed a)
  | .rotateX ang a => .rotateX ang (embed a)
  | .rotateY ang a => .rotateY ang (embed a)
  | .cross a b => .cross (embed a) (embed b)
  | .boostX β a => .boostX β (embed a)
  | .boostY β a => .boostY β (embed a)
  | .boostZ β a => .boostZ β (embed a)
  | .boost_p4 a b => .boost_p4 (embed a) (embed b)
  | .boost_beta3 a b => .boost_beta3 (embed a) (embed b)
  | .conv2 az a => .conv2 az (embed a)
  | .conv3 az l a => .conv3 az l (embed a)
  | .conv4 az l tm a => .conv4 az l tm (embed a)
  | .to2D a => .to2D (embed a)
  | .to3D a => .to3D (embed a)
  | .to3D_kw l s a => .to3D_kw l s (embed a)
  | .to4D_kw tm s a => .to4D_kw tm s (embed a)

theorem embed_evalM (K : Consts ℝ) (A : Arith ℝ) (ρ : Nat → Vec ℝ) (e : E) : evalMF K A ρ (embed e) = evalMU K A ρ e := by
  induction e <;> simp only [embed, evalMF, evalMU, *]

theorem embed_evalS (ρS : Nat → List ℝ) (e : E) : evalSF ρS (embed e) = evalSU ρS e := by
  induction e <;> simp only [embed, evalSF, evalSU, *]

theorem embed_generic (ρS : Nat → List ℝ) (e : E) : GenericAllF ρS (embed e) ↔ GenericAllU ρS e := by
  induction e <;> simp only [embed, GenericAllF, GenericAllU, evalSF, evalSU, embed_evalS, *]

end C01F
end VR
