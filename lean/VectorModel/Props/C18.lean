/-
Property C18 — "Awkward arrays keep structure and extra fields through vector operations".

Statements about the hand-written model `Glue/Awkward.lean`, for ALL scalar types `S`, truth types `B` and ALL
operations `f` of the method layer (`f : Vec S → Except Err (Res S B)`, resp. two operands):

1. layouts: `map` (an operation on one array) and `zipWith` (two broadcast arrays) preserve list structure, nesting and
   missing-value positions (`shape`), `map` is a functor, selection commutes with `map`;
2. the DOCUMENTED field rule (`carry`, `unaryOp`, `binaryOp`, `arrayUnary`, `arrayBinary`);
3. the REAL (repaired) `_wrap_result` branches with their literal exclusion tuples (`Branch`, `realWrap`): every tuple
   excludes `px`, `py` (`c18_real_px_py_excluded`), the longest one is exactly the coordinate spellings
   (`c18_real_exclAll_eq_coords`); HYPOTHESIS-FREE, for every field list: the three full branches carry exactly the
   documented fields (`c18_real_carried_eq_carry`), the two pass-through branches the documented fields plus stored
   longitudinal/temporal spellings only (`c18_real_carried_az`, `c18_real_carried_azLon`, `c18_real_carried_no_az`),
   the class is the class of `self` (`c18_real_dim_passthrough`); full agreement with the documented rule on records
   as `vector.Array`/`vector.zip` build them (`c18_real_agrees`); concrete witnesses on raw records, replayed on the
   real code (`c18_real_raw_*`), and the one remaining deviation, field ORDER (`c18_real_deviation_order`).
-/
import VectorModel.Glue.Awkward

set_option linter.unusedVariables false
set_option linter.unusedSimpArgs false
set_option linter.constructorNameAsVariable false
namespace VG
open VK

/-! ## 1. layouts -/

section
variable {α β γ ε : Type}

private theorem mapL_eq (f : α → β) : ∀ xs : List (Layout α), Layout.mapL f xs = xs.map (Layout.map f)
  | [] => rfl
  | x :: xs => by simp [Layout.mapL, mapL_eq f xs]

mutual
/-- `map` is a functor: composition -/
theorem c18_map_map (f : α → β) (g : β → γ) : ∀ l : Layout α, (l.map f).map g = l.map (g ∘ f)
  | .leaf a => by simp [Layout.map]
  | .none => by simp [Layout.map]
  | .list xs => by simp [Layout.map, c18_mapL_mapL f g xs]
theorem c18_mapL_mapL (f : α → β) (g : β → γ) :
    ∀ xs : List (Layout α), Layout.mapL g (Layout.mapL f xs) = Layout.mapL (g ∘ f) xs
  | [] => by simp [Layout.mapL]
  | x :: xs => by simp [Layout.mapL, c18_map_map f g x, c18_mapL_mapL f g xs]
end

mutual
/-- `map` is a functor: identity -/
theorem c18_map_id : ∀ l : Layout α, l.map id = l
  | .leaf a => by simp [Layout.map]
  | .none => by simp [Layout.map]
  | .list xs => by simp [Layout.map, c18_mapL_id xs]
theorem c18_mapL_id : ∀ xs : List (Layout α), Layout.mapL id xs = xs
  | [] => by simp [Layout.mapL]
  | x :: xs => by simp [Layout.mapL, c18_map_id x, c18_mapL_id xs]
end

/-- an operation on ONE array returns an array with the same list structure, nesting and missing-value positions -/
theorem c18_map_shape (f : α → β) (l : Layout α) : (l.map f).shape = l.shape := by
  simp only [Layout.shape, c18_map_map]

/-- a single record (or an object vector) broadcasts against any array: it is a `map` -/
theorem c18_zipWith_leaf_left (f : α → β → γ) (a : α) (l : Layout β) :
    Layout.zipWith f (.leaf a) l = l.map (f a) := by
  cases l <;> simp [Layout.zipWith, Layout.map]

theorem c18_zipWith_leaf_right (f : α → β → γ) (l : Layout α) (b : β) :
    Layout.zipWith f l (.leaf b) = l.map (fun a => f a b) := by
  cases l <;> simp [Layout.zipWith, Layout.map]

mutual
/-- an operation on TWO arrays of equal structure returns that structure -/
theorem c18_zipWith_shape (f : α → β → γ) :
    ∀ (a : Layout α) (b : Layout β), a.shape = b.shape → (Layout.zipWith f a b).shape = a.shape
  | .none, b, h => by simp [Layout.zipWith, Layout.shape, Layout.map]
  | .leaf a, .none, h => by simp [Layout.shape, Layout.map] at h
  | .leaf a, .leaf b, h => by simp [Layout.zipWith, Layout.shape, Layout.map]
  | .leaf a, .list ys, h => by simp [Layout.shape, Layout.map] at h
  | .list xs, .none, h => by simp [Layout.shape, Layout.map] at h
  | .list xs, .leaf b, h => by simp [Layout.shape, Layout.map] at h
  | .list xs, .list ys, h => by
      simp [Layout.shape, Layout.map] at h
      simp [Layout.zipWith, Layout.shape, Layout.map]
      exact c18_zipWithL_shape f xs ys h
theorem c18_zipWithL_shape (f : α → β → γ) :
    ∀ (xs : List (Layout α)) (ys : List (Layout β)),
      Layout.mapL (fun _ => ()) xs = Layout.mapL (fun _ => ()) ys →
      Layout.mapL (fun _ => ()) (Layout.zipWithL f xs ys) = Layout.mapL (fun _ => ()) xs
  | [], ys, h => by simp [Layout.zipWithL, Layout.mapL]
  | x :: xs, [], h => by simp [Layout.mapL] at h
  | x :: xs, y :: ys, h => by
      simp [Layout.mapL] at h
      simp [Layout.zipWithL, Layout.mapL]
      exact ⟨c18_zipWith_shape f x y h.1, c18_zipWithL_shape f xs ys h.2⟩
end

theorem c18_zipWith_shape_right (f : α → β → γ) (a : Layout α) (b : Layout β) (h : a.shape = b.shape) :
    (Layout.zipWith f a b).shape = b.shape := (c18_zipWith_shape f a b h).trans h

/-- record (or object) ⊗ array: the array's structure -/
theorem c18_zipWith_leaf_shape (f : α → β → γ) (a : α) (l : Layout β) :
    (Layout.zipWith f (.leaf a) l).shape = l.shape := by
  rw [c18_zipWith_leaf_left, c18_map_shape]

mutual
/-- the records of the result are the images of the records, in order -/
theorem c18_map_leaves (f : α → β) : ∀ l : Layout α, (l.map f).leaves = l.leaves.map f
  | .leaf a => by simp [Layout.map, Layout.leaves]
  | .none => by simp [Layout.map, Layout.leaves]
  | .list xs => by simp [Layout.map, Layout.leaves, c18_mapL_leavesL f xs]
theorem c18_mapL_leavesL (f : α → β) :
    ∀ xs : List (Layout α), Layout.leavesL (Layout.mapL f xs) = (Layout.leavesL xs).map f
  | [] => by simp [Layout.mapL, Layout.leavesL]
  | x :: xs => by simp [Layout.mapL, Layout.leavesL, c18_map_leaves f x, c18_mapL_leavesL f xs]
end

/-- `(op arr)[i] = op (arr[i])` -/
theorem c18_map_item (f : α → β) (l : Layout α) (i : Nat) :
    (l.map f).item i = (l.item i).map (Layout.map f) := by
  cases l <;> simp [Layout.map, Layout.item, mapL_eq]

/-- `(op arr)[i₀][i₁]… = op (arr[i₀][i₁]…)` -/
theorem c18_map_path (f : α → β) (l : Layout α) (p : List Nat) :
    (l.map f).path p = (l.path p).map (Layout.map f) := by
  induction p generalizing l with
  | nil => simp [Layout.path]
  | cons i p ih =>
    simp only [Layout.path, c18_map_item]
    cases l.item i with
    | none => simp
    | some l' => simp [ih]

theorem c18_map_record (f : α → β) (l : Layout α) : (l.map f).record? = l.record?.map f := by
  cases l <;> simp [Layout.map, Layout.record?]

/-- selecting a record commutes with the operation: record `p` of `op arr` is `op` of record `p` of `arr` -/
theorem c18_select_commutes (f : α → β) (l : Layout α) (p : List Nat) (r : α) (h : l.path p = some (.leaf r)) :
    (l.map f).path p = some (.leaf (f r)) := by
  simp [c18_map_path, h, Layout.map]

private theorem map_eq_leaf {f : α → β} {x : Layout α} {b : β} (h : x.map f = .leaf b) :
    ∃ a, x = .leaf a ∧ f a = b := by
  cases x with
  | leaf a => simp [Layout.map] at h; exact ⟨a, rfl, h⟩
  | none => simp [Layout.map] at h
  | list xs => simp [Layout.map] at h

mutual
/-- a successful array-level operation succeeded on every record, position by position -/
theorem c18_sequence_ok : ∀ (l : Layout (Except ε α)) (r : Layout α), l.sequence = .ok r → l = r.map .ok
  | .leaf (.ok a), r, h => by
      simp only [Layout.sequence, Except.ok.injEq] at h; subst h; simp [Layout.map]
  | .leaf (.error e), r, h => by simp [Layout.sequence] at h
  | .none, r, h => by
      simp only [Layout.sequence, Except.ok.injEq] at h; subst h; simp [Layout.map]
  | .list xs, r, h => by
      simp only [Layout.sequence] at h
      split at h
      · rename_i ys hys
        simp only [Except.ok.injEq] at h; subst h
        simp [Layout.map, c18_sequenceL_ok xs ys hys]
      · simp at h
theorem c18_sequenceL_ok :
    ∀ (xs : List (Layout (Except ε α))) (ys : List (Layout α)), Layout.sequenceL xs = .ok ys →
      xs = Layout.mapL .ok ys
  | [], ys, h => by
      simp only [Layout.sequenceL, Except.ok.injEq] at h; subst h; simp [Layout.mapL]
  | x :: xs, ys, h => by
      simp only [Layout.sequenceL] at h
      split at h
      · simp at h
      · rename_i y hy
        split at h
        · simp at h
        · rename_i ys' hys
          simp only [Except.ok.injEq] at h; subst h
          simp [Layout.mapL, ← c18_sequence_ok x y hy, ← c18_sequenceL_ok xs ys' hys]
end

mutual
/-- an array-level operation raises only what some record raised -/
theorem c18_sequence_error : ∀ (l : Layout (Except ε α)) (e : ε), l.sequence = .error e → .error e ∈ l.leaves
  | .leaf (.ok a), e, h => by simp [Layout.sequence] at h
  | .leaf (.error e'), e, h => by
      simp only [Layout.sequence, Except.error.injEq] at h; subst h; simp [Layout.leaves]
  | .none, e, h => by simp [Layout.sequence] at h
  | .list xs, e, h => by
      simp only [Layout.sequence] at h
      split at h
      · simp at h
      · rename_i e' he
        simp only [Except.error.injEq] at h; subst h
        simpa [Layout.leaves] using c18_sequenceL_error xs e' he
theorem c18_sequenceL_error :
    ∀ (xs : List (Layout (Except ε α))) (e : ε), Layout.sequenceL xs = .error e → .error e ∈ Layout.leavesL xs
  | [], e, h => by simp [Layout.sequenceL] at h
  | x :: xs, e, h => by
      simp only [Layout.sequenceL] at h
      split at h
      · rename_i e' he
        simp only [Except.error.injEq] at h; subst h
        simp [Layout.leavesL, c18_sequence_error x e' he]
      · split at h
        · rename_i y hy e' he
          simp only [Except.error.injEq] at h; subst h
          simp [Layout.leavesL, c18_sequenceL_error xs e' he]
        · simp at h
end

theorem c18_sequence_shape (l : Layout (Except ε α)) (r : Layout α) (h : l.sequence = .ok r) :
    r.shape = l.shape := by
  rw [c18_sequence_ok l r h, c18_map_shape]

end

/-! ## 2. the documented rule for fields -/

section
variable {S B : Type}

/-- `carry` keeps fields in their original order (it is a filter) -/
theorem c18_carry_sublist (fs : List (String × S)) : (carry fs).Sublist fs := List.filter_sublist

theorem c18_carry_idem (fs : List (String × S)) : carry (carry fs) = carry fs := by
  simp [carry, List.filter_filter]

/-- a carried field is a field of the operand that is NOT a coordinate name … -/
theorem c18_carry_mem_iff (fs : List (String × S)) (f : String × S) :
    f ∈ carry fs ↔ f ∈ fs ∧ f.1 ∉ coordFieldNames := by
  simp [carry, List.mem_filter]

/-- … so no coordinate name (generic or momentum spelling) is ever carried … -/
theorem c18_carry_no_coord (fs : List (String × S)) : ∀ f ∈ carry fs, f.1 ∉ coordFieldNames :=
  fun f hf => ((c18_carry_mem_iff fs f).1 hf).2

/-- … and every non-coordinate field (such as `charge`) is. -/
theorem c18_carry_keeps (fs : List (String × S)) (f : String × S) (hf : f ∈ fs) (hn : f.1 ∉ coordFieldNames) :
    f ∈ carry fs := (c18_carry_mem_iff fs f).2 ⟨hf, hn⟩

theorem c18_carry_append (fs gs : List (String × S)) : carry (fs ++ gs) = carry fs ++ carry gs := by
  simp [carry]

/-- all fields are carried unchanged exactly when none of them is coordinate-named -/
theorem c18_carry_eq_self_iff (fs : List (String × S)) : carry fs = fs ↔ ∀ f ∈ fs, f.1 ∉ coordFieldNames := by
  simp [carry, List.filter_eq_self]

theorem c18_carry_eq_self {fs : List (String × S)} (h : ∀ f ∈ fs, f.1 ∉ coordFieldNames) : carry fs = fs :=
  (c18_carry_eq_self_iff fs).2 h

example : carry [("charge", (1 : Int)), ("E", 7), ("pdgId", 13), ("px", 2)] = [("charge", 1), ("pdgId", 13)] := by
  decide

/-- forgetting the extra fields -/
def RRes.toRes : RRes S B → Res S B
  | .scalar s => .scalar s
  | .truth b => .truth b
  | .vrec r => .vec r.v

/-- a record behaves like the vector object with the same coordinates: the value of an operation on a record is the
method layer's value on its vector -/
theorem c18_unary_value (f : Vec S → Except Err (Res S B)) (r : Rec S) :
    (unaryOp f r).map RRes.toRes = f r.v := by
  unfold unaryOp
  cases h : f r.v with
  | error e => rfl
  | ok x => cases x <;> rfl

theorem c18_binary_value (f : Vec S → Vec S → Except Err (Res S B)) (a b : Rec S) :
    (binaryOp f a b).map RRes.toRes = f a.v b.v := by
  unfold binaryOp
  cases h : f a.v b.v with
  | error e => rfl
  | ok x => cases x <;> rfl

/-- UNARY operation with a vector result: the result's fields are exactly the result coordinates followed by the
operand's non-coordinate fields in their original order -/
theorem c18_unary_fields (f : Vec S → Except Err (Res S B)) (r r' : Rec S) (h : unaryOp f r = .ok (.vrec r')) :
    f r.v = .ok (.vec r'.v) ∧ r'.extra = carry r.extra ∧ r'.fields = r'.v.named ++ carry r.extra := by
  unfold unaryOp at h
  cases hf : f r.v with
  | error e => simp [hf] at h
  | ok x =>
    cases x with
    | scalar s => simp [hf] at h
    | truth b => simp [hf] at h
    | vec v =>
      simp only [hf, Except.ok.injEq, RRes.vrec.injEq] at h
      subst h
      simp [Rec.fields]

/-- … in particular every non-coordinate field of the operand is carried through unchanged (same name, same value,
same order) when the operand has no stray coordinate-named extras -/
theorem c18_unary_extra_unchanged (f : Vec S → Except Err (Res S B)) (r r' : Rec S)
    (h : unaryOp f r = .ok (.vrec r')) (hex : ∀ x ∈ r.extra, x.1 ∉ coordFieldNames) : r'.extra = r.extra := by
  rw [(c18_unary_fields f r r' h).2.1, c18_carry_eq_self hex]

/-- a field such as `charge` survives every unary operation -/
theorem c18_unary_keeps (f : Vec S → Except Err (Res S B)) (r r' : Rec S) (h : unaryOp f r = .ok (.vrec r'))
    (x : String × S) (hx : x ∈ r.extra) (hn : x.1 ∉ coordFieldNames) : x ∈ r'.extra := by
  rw [(c18_unary_fields f r r' h).2.1]
  exact c18_carry_keeps _ x hx hn

/-- scalar and truth results have no fields -/
theorem c18_unary_nonvector_fields (f : Vec S → Except Err (Res S B)) (r : Rec S) (res : RRes S B)
    (h : unaryOp f r = .ok res) (hv : ∀ r', res ≠ .vrec r') : res.fields = [] := by
  cases res with
  | scalar s => rfl
  | truth b => rfl
  | vrec r' => exact absurd rfl (hv r')

/-- BINARY operation: a vector result has coordinates only -/
theorem c18_binary_no_extra (f : Vec S → Vec S → Except Err (Res S B)) (a b : Rec S) (res : RRes S B)
    (h : binaryOp f a b = .ok res) : res.extra = [] := by
  unfold binaryOp at h
  cases hf : f a.v b.v with
  | error e => simp [hf] at h
  | ok x =>
    cases x <;> simp only [hf, Except.ok.injEq] at h <;> subst h <;> rfl

theorem c18_binary_fields (f : Vec S → Vec S → Except Err (Res S B)) (a b r' : Rec S)
    (h : binaryOp f a b = .ok (.vrec r')) : f a.v b.v = .ok (.vec r'.v) ∧ r'.fields = r'.v.named := by
  have h0 := c18_binary_no_extra f a b _ h
  have hv := c18_binary_value f a b
  rw [h] at hv
  refine ⟨hv.symm, ?_⟩
  simp only [RRes.extra] at h0
  simp [Rec.fields, h0]

/-! ### arrays -/

/-- a unary operation on an array keeps list structure, nesting and missing-value positions -/
theorem c18_arrayUnary_shape (f : Vec S → Except Err (Res S B)) (arr : Layout (Rec S)) (out : Layout (RRes S B))
    (h : arrayUnary f arr = .ok out) : out.shape = arr.shape := by
  rw [c18_sequence_shape _ _ h, c18_map_shape]

/-- a binary operation on two arrays of equal structure returns that structure -/
theorem c18_arrayBinary_shape (f : Vec S → Vec S → Except Err (Res S B)) (a b : Layout (Rec S))
    (out : Layout (RRes S B)) (hs : a.shape = b.shape) (h : arrayBinary f a b = .ok out) :
    out.shape = a.shape ∧ out.shape = b.shape := by
  have := c18_sequence_shape _ _ h
  rw [c18_zipWith_shape _ a b hs] at this
  exact ⟨this, this.trans hs⟩

/-- array ⊗ single record / object vector: the array's structure -/
theorem c18_arrayBinary_shape_broadcast (f : Vec S → Vec S → Except Err (Res S B)) (a : Layout (Rec S)) (b : Rec S)
    (out : Layout (RRes S B)) (h : arrayBinary f a (.leaf b) = .ok out) : out.shape = a.shape := by
  have := c18_sequence_shape _ _ h
  rwa [c18_zipWith_leaf_right, c18_map_shape] at this

/-- the records of the result, in order, are the record-level results -/
theorem c18_arrayUnary_leaves (f : Vec S → Except Err (Res S B)) (arr : Layout (Rec S)) (out : Layout (RRes S B))
    (h : arrayUnary f arr = .ok out) : out.leaves.map .ok = arr.leaves.map (unaryOp f) := by
  have := c18_sequence_ok _ _ h
  rw [← c18_map_leaves, ← c18_map_leaves, this]

/-- `(op arr)[p] = op (arr[p])`: the record selected from the result is the operation applied to the selected record
(which by `c18_unary_value` is the method layer's value on its vector, i.e. what the vector object gives) -/
theorem c18_arrayUnary_select (f : Vec S → Except Err (Res S B)) (arr : Layout (Rec S)) (out : Layout (RRes S B))
    (h : arrayUnary f arr = .ok out) (p : List Nat) (r : Rec S) (hp : arr.path p = some (.leaf r)) :
    ∃ res, unaryOp f r = .ok res ∧ out.path p = some (.leaf res) := by
  have h1 := c18_select_commutes (unaryOp f) arr p r hp
  rw [c18_sequence_ok _ _ h, c18_map_path] at h1
  cases ho : out.path p with
  | none => simp [ho] at h1
  | some x =>
    simp only [ho, Option.map_some, Option.some.injEq] at h1
    obtain ⟨res, rfl, hres⟩ := map_eq_leaf h1
    exact ⟨res, hres.symm, rfl⟩

/-- every record of the result of a unary array operation carries exactly the non-coordinate fields of the record at
the same position -/
theorem c18_arrayUnary_fields (f : Vec S → Except Err (Res S B)) (arr : Layout (Rec S)) (out : Layout (RRes S B))
    (h : arrayUnary f arr = .ok out) (p : List Nat) (r r' : Rec S) (hp : arr.path p = some (.leaf r))
    (ho : out.path p = some (.leaf (.vrec r'))) :
    r'.fields = r'.v.named ++ carry r.extra := by
  obtain ⟨res, hres, ho'⟩ := c18_arrayUnary_select f arr out h p r hp
  rw [ho] at ho'
  simp only [Option.some.injEq, Layout.leaf.injEq] at ho'
  subst ho'
  exact (c18_unary_fields f r r' hres).2.2

/-- an array operation raises only if the operation raises on one of its records -/
theorem c18_arrayUnary_error (f : Vec S → Except Err (Res S B)) (arr : Layout (Rec S)) (e : Err)
    (h : arrayUnary f arr = .error e) : ∃ r ∈ arr.leaves, unaryOp f r = .error e := by
  have := c18_sequence_error _ _ h
  rw [c18_map_leaves] at this
  obtain ⟨r, hr, he⟩ := List.mem_map.1 this
  exact ⟨r, hr, he⟩

/-- every record of the result of a binary array operation has coordinates only -/
theorem c18_arrayBinary_no_extra (f : Vec S → Vec S → Except Err (Res S B)) (a : Layout (Rec S)) (b : Rec S)
    (out : Layout (RRes S B)) (h : arrayBinary f a (.leaf b) = .ok out) : ∀ res ∈ out.leaves, res.extra = [] := by
  intro res hres
  have h1 := c18_sequence_ok _ _ h
  rw [c18_zipWith_leaf_right] at h1
  have h2 := congrArg Layout.leaves h1
  rw [c18_map_leaves, c18_map_leaves] at h2
  have : Except.ok res ∈ out.leaves.map (Except.ok (ε := Err)) := List.mem_map.2 ⟨res, hres, rfl⟩
  rw [← h2] at this
  obtain ⟨ra, _, hra⟩ := List.mem_map.1 this
  exact c18_binary_no_extra f ra b res hra

end

/-! ## 3. the real `_wrap_result` branches -/

section
variable {S B : Type}

/-- every literal exclusion tuple only lists coordinate names … -/
theorem c18_real_excl_subset (b : Branch) : ∀ n ∈ b.excl, n ∈ coordFieldNames := by
  cases b <;> decide

/-- … hence the real code never drops a non-coordinate field of a unary operand (all five branches) … -/
theorem c18_real_keeps_noncoord (b : Branch) (fs : List (String × S)) (f : String × S) (hf : f ∈ fs)
    (hn : f.1 ∉ coordFieldNames) : f ∈ b.carried 1 fs := by
  have h2 : f.1 ∉ b.excl := fun hh => hn (c18_real_excl_subset b _ hh)
  simp only [Branch.carried, BEq.rfl, if_true, List.mem_filter]
  exact ⟨hf, by simpa using h2⟩

/-- … the non-coordinate fields among what it carries are exactly `carry` of the operand's fields, in order … -/
theorem c18_real_carried_noncoord (b : Branch) (fs : List (String × S)) : carry (b.carried 1 fs) = carry fs := by
  simp only [Branch.carried, BEq.rfl, if_true, carry, List.filter_filter]
  apply List.filter_congr
  intro f hf
  by_cases hc : f.1 ∈ coordFieldNames
  · simp [hc]
  · have h2 : f.1 ∉ b.excl := fun hh => hc (c18_real_excl_subset b _ hh)
    simp [hc, h2]

/-- … what it carries is a sub-list (order kept) of the operand's fields … -/
theorem c18_real_carried_sublist (b : Branch) (n : Nat) (fs : List (String × S)) : (b.carried n fs).Sublist fs := by
  unfold Branch.carried
  split
  · exact List.filter_sublist
  · exact List.nil_sublist _

/-- … and a binary operation (`num_vecargs = 2`) carries nothing, in every branch. -/
theorem c18_real_binary_none (b : Branch) (fs : List (String × S)) : b.carried 2 fs = [] := by
  simp [Branch.carried]

/-- a binary result has the declared coordinates only, whatever the class and the fields of the handler -/
theorem c18_real_binary_fields (parts : List RP) (sd : Nat) (fs : List (String × S)) (raw : List S) (d : Nat)
    (out : List (String × S)) (h : realWrap parts 2 sd fs raw = .ok (d, out)) :
    out = (resultNames parts).zip raw := by
  unfold realWrap at h
  split at h
  · simp at h
  · simp only [c18_real_binary_none, List.append_nil, Except.ok.injEq, Prod.mk.injEq] at h
    exact h.2.symm

/-- the names written for the result coordinates are excluded in their own branch, so a carried field never clashes
with a result coordinate in `dict(zip(names, arrays))` -/
theorem c18_real_no_clash (parts : List RP) (b : Branch) (h : Branch.ofParts parts = some b) :
    ∀ n ∈ resultNames parts, n ∈ b.excl := by
  unfold Branch.ofParts at h
  split at h <;> simp only [Option.some.injEq, reduceCtorEq] at h <;> subst h
  · rename_i a; cases a <;> decide
  · rename_i a; cases a <;> decide
  · rename_i a l; cases a <;> cases l <;> decide
  · rename_i a l; cases a <;> cases l <;> decide
  · rename_i a l t; cases a <;> cases l <;> cases t <;> decide

/-- every branch excludes the momentum spellings `px`, `py` (they come right after `"x", "y"` in all five literal
tuples) … -/
theorem c18_real_px_py_excluded (b : Branch) : "px" ∈ b.excl ∧ "py" ∈ b.excl := by
  cases b <;> decide

/-- … so the longest tuple is EXACTLY the 19 coordinate spellings … -/
theorem c18_real_exclAll_eq_coords : ∀ n, n ∈ exclAll ↔ n ∈ coordFieldNames := by
  intro n
  simp only [exclAll, coordFieldNames, List.mem_cons, List.not_mem_nil, or_false]
  constructor <;> intro h <;> rcases h with h | h | h | h | h | h | h | h | h | h | h | h | h | h | h | h | h | h | h <;>
    simp [h]

/-- … and what the two pass-through tuples leave out of the coordinate names are longitudinal / temporal spellings
only (deliberately: that is how stored `z`/`t`… pass through; the class of the result is the class of `self`) -/
theorem c18_real_missing :
    coordFieldNames.filter (fun n => !exclAll.contains n) = [] ∧
    coordFieldNames.filter (fun n => !exclAzLon.contains n) =
      ["t", "E", "e", "energy", "tau", "M", "m", "mass"] ∧
    coordFieldNames.filter (fun n => !exclAz.contains n) =
      ["z", "pz", "theta", "eta", "t", "E", "e", "energy", "tau", "M", "m", "mass"] := by
  decide

/-! ### hypothesis-free: every field list (raw momentum spellings, any order, duplicates) -/

/-- the three full branches (`[Azimuthal, None]`, `[Azimuthal, Longitudinal, None]`,
`[Azimuthal, Longitudinal, Temporal]`) carry EXACTLY the documented fields, for every field list -/
theorem c18_real_carried_eq_carry (b : Branch) (hb : b.excl = exclAll) (fs : List (String × S)) :
    b.carried 1 fs = carry fs := by
  simp only [Branch.carried, BEq.rfl, if_true, carry, hb]
  apply List.filter_congr
  intro f _
  have := c18_real_exclAll_eq_coords f.1
  by_cases hc : f.1 ∈ coordFieldNames
  · simp [hc, this.2 hc]
  · have hn : f.1 ∉ exclAll := fun hh => hc (this.1 hh)
    simp [hc, hn]

/-- the hypothesis of `c18_real_carried_eq_carry` holds for exactly these three branches -/
theorem c18_real_full_branches (b : Branch) : b.excl = exclAll ↔ b = .azNone ∨ b = .azLonNone ∨ b = .azLonTmp := by
  cases b <;> decide

private theorem coord_not_exclAz (n : String) (hc : n ∈ coordFieldNames) (hn : n ∉ exclAz) :
    n ∈ ["z", "pz", "theta", "eta", "t", "E", "e", "energy", "tau", "M", "m", "mass"] := by
  simp only [coordFieldNames, List.mem_cons, List.not_mem_nil, or_false] at hc
  rcases hc with h | h | h | h | h | h | h | h | h | h | h | h | h | h | h | h | h | h | h <;> subst h <;>
    revert hn <;> decide

private theorem coord_not_exclAzLon (n : String) (hc : n ∈ coordFieldNames) (hn : n ∉ exclAzLon) :
    n ∈ ["t", "E", "e", "energy", "tau", "M", "m", "mass"] := by
  simp only [coordFieldNames, List.mem_cons, List.not_mem_nil, or_false] at hc
  rcases hc with h | h | h | h | h | h | h | h | h | h | h | h | h | h | h | h | h | h | h <;> subst h <;>
    revert hn <;> decide

private theorem carried_extra_coord (b : Branch) (fs : List (String × S)) (f : String × S)
    (hf : f ∈ b.carried 1 fs) (hn : f ∉ carry fs) : f.1 ∈ coordFieldNames ∧ f.1 ∉ b.excl := by
  simp only [Branch.carried, BEq.rfl, if_true, List.mem_filter] at hf
  refine ⟨?_, by simpa using hf.2⟩
  by_cases hc : f.1 ∈ coordFieldNames
  · exact hc
  · exact absurd ((c18_carry_mem_iff fs f).2 ⟨hf.1, hc⟩) hn

/-- branch `[Azimuthal]`, for every field list: the non-coordinate fields among what it carries are exactly the
documented ones, and everything else it carries has a longitudinal or temporal spelling (the stored coordinates that
pass through) — never an azimuthal one -/
theorem c18_real_carried_az (fs : List (String × S)) :
    carry (Branch.az.carried 1 fs) = carry fs ∧
    ∀ f ∈ Branch.az.carried 1 fs, f ∉ carry fs →
      f.1 ∈ ["z", "pz", "theta", "eta", "t", "E", "e", "energy", "tau", "M", "m", "mass"] := by
  refine ⟨c18_real_carried_noncoord .az fs, fun f hf hn => ?_⟩
  obtain ⟨hc, he⟩ := carried_extra_coord .az fs f hf hn
  exact coord_not_exclAz f.1 hc he

/-- branch `[Azimuthal, Longitudinal]`, for every field list: as above with the temporal spellings only -/
theorem c18_real_carried_azLon (fs : List (String × S)) :
    carry (Branch.azLon.carried 1 fs) = carry fs ∧
    ∀ f ∈ Branch.azLon.carried 1 fs, f ∉ carry fs →
      f.1 ∈ ["t", "E", "e", "energy", "tau", "M", "m", "mass"] := by
  refine ⟨c18_real_carried_noncoord .azLon fs, fun f hf hn => ?_⟩
  obtain ⟨hc, he⟩ := carried_extra_coord .azLon fs f hf hn
  exact coord_not_exclAzLon f.1 hc he

/-- no branch ever carries a field with an azimuthal spelling, for every field list and every `num_vecargs` -/
theorem c18_real_carried_no_az (b : Branch) (n : Nat) (fs : List (String × S)) :
    ∀ f ∈ b.carried n fs, f.1 ∉ ["x", "px", "y", "py", "rho", "pt", "phi"] := by
  intro f hf hm
  unfold Branch.carried at hf
  split at hf
  · simp only [List.mem_filter] at hf
    have h2 : f.1 ∉ b.excl := by simpa using hf.2
    apply h2
    simp only [List.mem_cons, List.not_mem_nil, or_false] at hm
    rcases hm with h | h | h | h | h | h | h <;> rw [h] <;> cases b <;> decide
  · simp at hf

/-- the class of the result in the pass-through branches is the class of `self` -/
theorem c18_real_dim_passthrough (d : Nat) (hd : d = 2 ∨ d = 3 ∨ d = 4) :
    Branch.az.dim d = d ∧ (d = 3 ∨ d = 4 → Branch.azLon.dim d = d) := by
  rcases hd with rfl | rfl | rfl <;> decide

/-- the other three branches fix the class -/
theorem c18_real_dim_fixed (d : Nat) :
    Branch.azNone.dim d = 2 ∧ Branch.azLonNone.dim d = 3 ∧ Branch.azLonTmp.dim d = 4 := ⟨rfl, rfl, rfl⟩

example : Branch.az.carried 1 [("E", (4 : Int)), ("px", 1), ("charge", 5), ("py", 2), ("px", 7), ("pz", 3)] =
    [("E", 4), ("charge", 5), ("pz", 3)] := by decide

/-! ### agreement with the documented rule on records as the constructors build them -/

/-- a record as `vector.Array` / `vector.zip` / a previous `_wrap_result` builds it: generic coordinate names first
(that is `Rec.fields`), as many stored coordinates as the dimension, a temporal coordinate only on top of a
longitudinal one, and no coordinate-named field among the others -/
def RecWF (r : Rec S) : Prop :=
  (r.v.ty.tmp.isSome → r.v.ty.lon.isSome) ∧ r.v.c.length = r.v.ty.dim ∧ ∀ f ∈ r.extra, f.1 ∉ coordFieldNames

private theorem carried_append_extra (b : Branch) (xs fs : List (String × S))
    (h : ∀ f ∈ fs, f.1 ∉ coordFieldNames) : b.carried 1 (xs ++ fs) = b.carried 1 xs ++ fs := by
  simp only [Branch.carried, List.filter_append, BEq.rfl, if_true]
  congr 1
  rw [List.filter_eq_self]
  intro f hf
  have h2 : f.1 ∉ b.excl := fun hh => h f hf (c18_real_excl_subset b _ hh)
  simpa using h2

private theorem carried_drop (b : Branch) (names : List String) (xs : List S) (rest : List (String × S))
    (h : ∀ n ∈ names, n ∈ b.excl) : b.carried 1 (names.zip xs ++ rest) = b.carried 1 rest := by
  simp only [Branch.carried, List.filter_append, BEq.rfl, if_true]
  have : (names.zip xs).filter (fun f => !b.excl.contains f.1) = [] := by
    rw [List.filter_eq_nil_iff]
    intro f hf
    have := h f.1 (List.of_mem_zip (a := f.1) (b := f.2) hf).1
    simpa using this
  rw [this, List.nil_append]

private theorem carried_zip_nil (b : Branch) (names : List String) (xs : List S)
    (h : ∀ n ∈ names, n ∈ b.excl) : b.carried 1 (names.zip xs) = [] := by
  have := carried_drop b names xs [] h
  simpa [Branch.carried] using this

private theorem names_not_mem {extra : List (String × S)} (h : ∀ f ∈ extra, f.1 ∉ coordFieldNames) (n : String)
    (hn : n ∈ coordFieldNames) : ∀ x : S, (n, x) ∉ extra := fun x hx => h (n, x) hx hn

private theorem len2 {l : List S} (h : l.length = 2) : ∃ a b, l = [a, b] := by
  match l, h with | [a, b], _ => exact ⟨a, b, rfl⟩
private theorem len3 {l : List S} (h : l.length = 3) : ∃ a b c, l = [a, b, c] := by
  match l, h with | [a, b, c], _ => exact ⟨a, b, c, rfl⟩
private theorem len4 {l : List S} (h : l.length = 4) : ∃ a b c d, l = [a, b, c, d] := by
  match l, h with | [a, b, c, d], _ => exact ⟨a, b, c, d, rfl⟩

private theorem az_names_excl (b : Branch) (a : Az) : ∀ n ∈ a.names, n ∈ b.excl := by
  cases b <;> cases a <;> decide
private theorem lon_names_exclAzLon (l : Option Lon) : ∀ n ∈ lonNames l, n ∈ exclAzLon := by
  rcases l with _ | l
  · simp [lonNames]
  · cases l <;> decide
private theorem lon_names_exclAll (l : Option Lon) : ∀ n ∈ lonNames l, n ∈ exclAll := by
  rcases l with _ | l
  · simp [lonNames]
  · cases l <;> decide
private theorem tmp_names_exclAll (t : Option Tmp) : ∀ n ∈ tmpNames t, n ∈ exclAll := by
  rcases t with _ | t
  · simp [tmpNames]
  · cases t <;> decide

/-- plain fact (no longer used by the proofs: the repaired code picks the class from `isinstance(self, Vector4D/3D)`):
with generic names, a literal lookup `"t" in fields or "tau" in fields` finds the temporal coordinate … -/
theorem c18_real_has_tmp (r : Rec S) (h : RecWF r) :
    ((r.fields.map (·.1)).contains "t" || (r.fields.map (·.1)).contains "tau") = r.v.ty.tmp.isSome := by
  obtain ⟨⟨⟨be0, mom0, az0, lon0, tmp0⟩, c⟩, extra⟩ := r
  obtain ⟨hwf, hlen, hex⟩ := h
  replace hex : ∀ f ∈ extra, f.1 ∉ coordFieldNames := hex
  have e1 := names_not_mem hex "t" (by decide)
  have e2 := names_not_mem hex "tau" (by decide)
  rcases lon0 with _ | l0 <;> rcases tmp0 with _ | t0 <;> simp [VT.dim] at hwf hlen
  · obtain ⟨c0, c1, rfl⟩ := len2 hlen
    cases az0 <;>
      simp [Rec.fields, Vec.named, Vec.azEl, Vec.lonEl, Vec.tmpEl, lonNames, tmpNames, Az.names, e1, e2]
  · obtain ⟨c0, c1, c2, rfl⟩ := len3 hlen
    cases az0 <;> cases l0 <;>
      simp [Rec.fields, Vec.named, Vec.azEl, Vec.lonEl, Vec.tmpEl, lonNames, tmpNames, Az.names, Lon.str, e1, e2]
  · obtain ⟨c0, c1, c2, c3, rfl⟩ := len4 hlen
    cases az0 <;> cases l0 <;> cases t0 <;>
      simp [Rec.fields, Vec.named, Vec.azEl, Vec.lonEl, Vec.tmpEl, lonNames, tmpNames, Az.names, Lon.str, Tmp.str,
        e1, e2]

/-- … and `"z" in fields or "theta" in fields or "eta" in fields` the longitudinal one -/
theorem c18_real_has_lon (r : Rec S) (h : RecWF r) :
    ((r.fields.map (·.1)).contains "z" || (r.fields.map (·.1)).contains "theta" ||
      (r.fields.map (·.1)).contains "eta") = r.v.ty.lon.isSome := by
  obtain ⟨⟨⟨be0, mom0, az0, lon0, tmp0⟩, c⟩, extra⟩ := r
  obtain ⟨hwf, hlen, hex⟩ := h
  replace hex : ∀ f ∈ extra, f.1 ∉ coordFieldNames := hex
  have e3 := names_not_mem hex "z" (by decide)
  have e4 := names_not_mem hex "theta" (by decide)
  have e5 := names_not_mem hex "eta" (by decide)
  rcases lon0 with _ | l0 <;> rcases tmp0 with _ | t0 <;> simp [VT.dim] at hwf hlen
  · obtain ⟨c0, c1, rfl⟩ := len2 hlen
    cases az0 <;>
      simp [Rec.fields, Vec.named, Vec.azEl, Vec.lonEl, Vec.tmpEl, lonNames, tmpNames, Az.names, e3, e4, e5]
  · obtain ⟨c0, c1, c2, rfl⟩ := len3 hlen
    cases az0 <;> cases l0 <;>
      simp [Rec.fields, Vec.named, Vec.azEl, Vec.lonEl, Vec.tmpEl, lonNames, tmpNames, Az.names, Lon.str, e3, e4, e5]
  · obtain ⟨c0, c1, c2, c3, rfl⟩ := len4 hlen
    cases az0 <;> cases l0 <;> cases t0 <;>
      simp [Rec.fields, Vec.named, Vec.azEl, Vec.lonEl, Vec.tmpEl, lonNames, tmpNames, Az.names, Lon.str, Tmp.str,
        e3, e4, e5]

/-- branch `[Azimuthal]` (e.g. `rotateZ`, `scale` on a 2D vector): stored longitudinal/temporal coordinates pass
through because they are not in the tuple, the class dimension is that of the class of `self` — together this is
`wrapVec` (Core) + `carry` -/
theorem c18_real_agrees_az (r : Rec S) (h : RecWF r) (a : Az) (raw : List S) (be : Backend) (mom : Bool)
    (hraw : raw.length = 2) (v' : Vec S) (hw : wrapVec r.v be mom raw [.az a] = .ok v') :
    realWrap [.az a] 1 r.v.ty.dim r.fields raw = .ok (v'.ty.dim, (Rec.mk v' (carry r.extra)).fields) := by
  obtain ⟨⟨⟨be0, mom0, az0, lon0, tmp0⟩, c⟩, extra⟩ := r
  obtain ⟨hwf, hlen, hex⟩ := h
  replace hex : ∀ f ∈ extra, f.1 ∉ coordFieldNames := hex
  obtain ⟨r0, r1, rfl⟩ := len2 hraw
  simp only [realWrap, Branch.ofParts]
  simp only [wrapVec, Except.ok.injEq] at hw
  subst hw
  simp only [Rec.fields, c18_carry_eq_self hex, carried_append_extra _ _ _ hex]
  simp only [Vec.named, List.append_assoc, carried_drop _ _ _ _ (az_names_excl _ _)]
  rcases lon0 with _ | l0 <;> rcases tmp0 with _ | t0 <;> simp [VT.dim] at hwf hlen
  · obtain ⟨c0, c1, rfl⟩ := len2 hlen
    cases a <;>
      simp [Vec.azEl, Vec.lonEl, Vec.tmpEl, lonNames, tmpNames, Az.names, resultNames, RP.names,
        Branch.carried, Branch.excl, exclAz, Branch.dim, VT.dim]
  · obtain ⟨c0, c1, c2, rfl⟩ := len3 hlen
    cases a <;> cases l0 <;>
      simp [Vec.azEl, Vec.lonEl, Vec.tmpEl, lonNames, tmpNames, Az.names, Lon.str, resultNames, RP.names,
        Branch.carried, Branch.excl, exclAz, Branch.dim, VT.dim]
  · obtain ⟨c0, c1, c2, c3, rfl⟩ := len4 hlen
    cases a <;> cases l0 <;> cases t0 <;>
      simp [Vec.azEl, Vec.lonEl, Vec.tmpEl, lonNames, tmpNames, Az.names, Lon.str, Tmp.str, resultNames, RP.names,
        Branch.carried, Branch.excl, exclAz, Branch.dim, VT.dim]

private theorem carried_named_all (b : Branch) (hb : b.excl = exclAll) (v : Vec S) : b.carried 1 v.named = [] := by
  unfold Vec.named
  rw [List.append_assoc, carried_drop _ _ _ _ (az_names_excl _ _),
    carried_drop _ _ _ _ (by rw [hb]; exact lon_names_exclAll _),
    carried_zip_nil _ _ _ (by rw [hb]; exact tmp_names_exclAll _)]

/-- branch `[Azimuthal, None]` (e.g. `to_xy`, `to_rhophi`): 2D result + non-coordinate fields -/
theorem c18_real_agrees_azNone (r : Rec S) (h : RecWF r) (a : Az) (raw : List S) (be : Backend) (mom : Bool)
    (hraw : raw.length = 2) (v' : Vec S) (hw : wrapVec r.v be mom raw [.az a, .none] = .ok v') :
    realWrap [.az a, .none] 1 r.v.ty.dim r.fields raw = .ok (v'.ty.dim, (Rec.mk v' (carry r.extra)).fields) := by
  obtain ⟨hwf, hlen, hex⟩ := h
  obtain ⟨r0, r1, rfl⟩ := len2 hraw
  simp only [wrapVec, Except.ok.injEq] at hw
  subst hw
  simp only [realWrap, Branch.ofParts, Rec.fields, c18_carry_eq_self hex, carried_append_extra _ _ _ hex,
    carried_named_all .azNone rfl]
  cases a <;>
    simp [Vec.named, Vec.azEl, Vec.lonEl, Vec.tmpEl, lonNames, tmpNames, Az.names, resultNames, RP.names,
      Branch.dim, VT.dim]

/-- branch `[Azimuthal, Longitudinal, None]` (e.g. `to_xyz`, `to_Vector3D`, `cross`-like unary results): 3D -/
theorem c18_real_agrees_azLonNone (r : Rec S) (h : RecWF r) (a : Az) (l : Lon) (raw : List S) (be : Backend)
    (mom : Bool) (hraw : raw.length = 3) (v' : Vec S)
    (hw : wrapVec r.v be mom raw [.az a, .lon l, .none] = .ok v') :
    realWrap [.az a, .lon l, .none] 1 r.v.ty.dim r.fields raw = .ok (v'.ty.dim, (Rec.mk v' (carry r.extra)).fields) := by
  obtain ⟨hwf, hlen, hex⟩ := h
  obtain ⟨r0, r1, r2, rfl⟩ := len3 hraw
  simp only [wrapVec, Except.ok.injEq] at hw
  subst hw
  simp only [realWrap, Branch.ofParts, Rec.fields, c18_carry_eq_self hex, carried_append_extra _ _ _ hex,
    carried_named_all .azLonNone rfl]
  cases a <;> cases l <;>
    simp [Vec.named, Vec.azEl, Vec.lonEl, Vec.tmpEl, lonNames, tmpNames, Az.names, Lon.str, resultNames, RP.names,
      Branch.dim, VT.dim]

/-- branch `[Azimuthal, Longitudinal, Temporal]` (e.g. `boost`, `to_xyzt`): 4D -/
theorem c18_real_agrees_azLonTmp (r : Rec S) (h : RecWF r) (a : Az) (l : Lon) (t : Tmp) (raw : List S)
    (be : Backend) (mom : Bool) (hraw : raw.length = 4) (v' : Vec S)
    (hw : wrapVec r.v be mom raw [.az a, .lon l, .tmp t] = .ok v') :
    realWrap [.az a, .lon l, .tmp t] 1 r.v.ty.dim r.fields raw = .ok (v'.ty.dim, (Rec.mk v' (carry r.extra)).fields) := by
  obtain ⟨hwf, hlen, hex⟩ := h
  obtain ⟨r0, r1, r2, r3, rfl⟩ := len4 hraw
  simp only [wrapVec, Except.ok.injEq] at hw
  subst hw
  simp only [realWrap, Branch.ofParts, Rec.fields, c18_carry_eq_self hex, carried_append_extra _ _ _ hex,
    carried_named_all .azLonTmp rfl]
  cases a <;> cases l <;> cases t <;>
    simp [Vec.named, Vec.azEl, Vec.lonEl, Vec.tmpEl, lonNames, tmpNames, Az.names, Lon.str, Tmp.str, resultNames,
      RP.names, Branch.dim, VT.dim]

/-- branch `[Azimuthal, Longitudinal]` (e.g. `rotateX`, `rotate_axis`, 3D `scale`): a stored temporal coordinate
passes through, the class is 4D iff `self` is a `Vector4D` -/
theorem c18_real_agrees_azLon (r : Rec S) (h : RecWF r) (a : Az) (l : Lon) (raw : List S) (be : Backend)
    (mom : Bool) (hraw : raw.length = 3) (v' : Vec S) (hw : wrapVec r.v be mom raw [.az a, .lon l] = .ok v') :
    realWrap [.az a, .lon l] 1 r.v.ty.dim r.fields raw = .ok (v'.ty.dim, (Rec.mk v' (carry r.extra)).fields) := by
  obtain ⟨⟨⟨be0, mom0, az0, lon0, tmp0⟩, c⟩, extra⟩ := r
  obtain ⟨hwf, hlen, hex⟩ := h
  replace hex : ∀ f ∈ extra, f.1 ∉ coordFieldNames := hex
  obtain ⟨r0, r1, r2, rfl⟩ := len3 hraw
  simp only [realWrap, Branch.ofParts, Branch.dim]
  simp only [Rec.fields, c18_carry_eq_self hex, carried_append_extra _ _ _ hex]
  simp only [Vec.named, List.append_assoc, carried_drop _ _ _ _ (az_names_excl _ _),
    carried_drop .azLon _ _ _ (lon_names_exclAzLon _)]
  rcases lon0 with _ | l0 <;> rcases tmp0 with _ | t0 <;> simp [VT.dim] at hwf hlen
  · obtain ⟨c0, c1, rfl⟩ := len2 hlen
    simp [wrapVec, VT.dim] at hw
    subst hw
    cases a <;> cases l <;>
      simp [Vec.azEl, Vec.lonEl, Vec.tmpEl, lonNames, tmpNames, Az.names, Lon.str, resultNames, RP.names,
        Branch.carried, Branch.excl, exclAzLon, VT.dim]
  · obtain ⟨c0, c1, c2, rfl⟩ := len3 hlen
    simp [wrapVec, VT.dim] at hw
    subst hw
    cases a <;> cases l <;>
      simp [Vec.azEl, Vec.lonEl, Vec.tmpEl, lonNames, tmpNames, Az.names, Lon.str, resultNames, RP.names,
        Branch.carried, Branch.excl, exclAzLon, VT.dim]
  · obtain ⟨c0, c1, c2, c3, rfl⟩ := len4 hlen
    simp [wrapVec, VT.dim] at hw
    subst hw
    cases a <;> cases l <;> cases t0 <;>
      simp [Vec.azEl, Vec.lonEl, Vec.tmpEl, lonNames, tmpNames, Az.names, Lon.str, Tmp.str, resultNames, RP.names,
        Branch.carried, Branch.excl, exclAzLon, VT.dim]

/-- ALL branches: on records as the constructors build them, the real `_wrap_result` of a unary operation returns the
class dimension and exactly the fields of the documented rule — the coordinates `wrapVec` (the `_wrap_result` rule of
`Glue/Core`) assigns, followed by the operand's other fields in order -/
theorem c18_real_agrees (r : Rec S) (h : RecWF r) (parts : List RP) (raw : List S) (be : Backend) (mom : Bool)
    (hraw : raw.length = (resultNames parts).length) (v' : Vec S) (hw : wrapVec r.v be mom raw parts = .ok v') :
    realWrap parts 1 r.v.ty.dim r.fields raw = .ok (v'.ty.dim, (Rec.mk v' (carry r.extra)).fields) := by
  unfold wrapVec at hw
  split at hw
  · rename_i a
    refine c18_real_agrees_az r h a raw be mom ?_ v' (by simpa [wrapVec] using hw)
    cases a <;> simpa [resultNames, RP.names, Az.names] using hraw
  · rename_i a
    refine c18_real_agrees_azNone r h a raw be mom ?_ v' (by simpa [wrapVec] using hw)
    cases a <;> simpa [resultNames, RP.names, Az.names] using hraw
  · rename_i a l
    refine c18_real_agrees_azLon r h a l raw be mom ?_ v' (by simpa [wrapVec] using hw)
    cases a <;> simpa [resultNames, RP.names, Az.names] using hraw
  · rename_i a l
    refine c18_real_agrees_azLonNone r h a l raw be mom ?_ v' (by simpa [wrapVec] using hw)
    cases a <;> simpa [resultNames, RP.names, Az.names] using hraw
  · rename_i a l t
    refine c18_real_agrees_azLonTmp r h a l t raw be mom ?_ v' (by simpa [wrapVec] using hw)
    cases a <;> simpa [resultNames, RP.names, Az.names] using hraw
  · simp at hw

/-- the hypotheses are satisfiable: `(x, y, z, t, charge)`, `rotateZ`-like result -/
example :
    let r : Rec Int := ⟨⟨{ mom := false, az := .xy, lon := some .z, tmp := some .t, be := .ak }, [1, 2, 3, 4]⟩,
      [("charge", -1)]⟩
    RecWF r ∧ realWrap [.az .xy] 1 r.v.ty.dim r.fields [10, 20] =
      .ok (4, [("x", 10), ("y", 20), ("z", 3), ("t", 4), ("charge", -1)]) := by
  refine ⟨⟨by decide, by decide, by decide⟩, by rfl⟩

/-! ### raw records (not built by `vector.Array`/`vector.zip`): what the repaired code returns (witnesses; replayed on
the real code).  In the pinned tree these were the deviations `c18_real_deviation_rotateZ/_rotateX/_px_py/_mass`. -/

/-- raw momentum-spelled fields (`ak.zip({"px","py","pz","E","charge"}, with_name="Momentum4D")` with registered
behaviors, so `self` is a `Vector4D`).  `rotateZ` (branch `[Azimuthal]`): the stale `px`, `py` are dropped, the stored
`pz`, `E` pass through under their own spelling, the class stays 4D.  Same non-coordinate fields as the documented
rule. -/
theorem c18_real_raw_rotateZ :
    let self : List (String × Int) := [("px", 1), ("py", 2), ("pz", 3), ("E", 4), ("charge", 5)]
    realWrap [.az .xy] 1 4 self [10, 20] =
      .ok (4, [("x", 10), ("y", 20), ("pz", 3), ("E", 4), ("charge", 5)])
    ∧ carry self = [("charge", 5)] := by
  intro self
  exact ⟨by rfl, by decide⟩

/-- same array, `rotateX` (branch `[Azimuthal, Longitudinal]`): `x, y, z, E, charge`, 4D -/
theorem c18_real_raw_rotateX :
    let self : List (String × Int) := [("px", 1), ("py", 2), ("pz", 3), ("E", 4), ("charge", 5)]
    realWrap [.az .xy, .lon .z] 1 4 self [10, 20, 30] =
      .ok (4, [("x", 10), ("y", 20), ("z", 30), ("E", 4), ("charge", 5)]) := by
  intro self
  rfl

/-- same array, the three full branches (`to_xy`, `to_xyz`, `boostX`/`to_xyzt`): only `charge` is carried (instance of
`c18_real_carried_eq_carry`) -/
theorem c18_real_raw_full (b : Branch) (hb : b.excl = exclAll) :
    let self : List (String × Int) := [("px", 1), ("py", 2), ("pz", 3), ("E", 4), ("charge", 5)]
    b.carried 1 self = [("charge", 5)] := by
  intro self
  rw [c18_real_carried_eq_carry b hb]
  decide

/-- `(pt, phi, eta, mass)` (a `Vector4D`) + `rotateX`: the stored `mass` passes through and the class stays 4D -/
theorem c18_real_raw_mass :
    let self : List (String × Int) := [("pt", 1), ("phi", 2), ("eta", 3), ("mass", 4)]
    realWrap [.az .xy, .lon .z] 1 4 self [10, 20, 30] =
      .ok (4, [("x", 10), ("y", 20), ("z", 30), ("mass", 4)]) := by
  intro self
  rfl

/-! ### where the real branches still deviate from the documented rule (witness; replayed on the real code) -/

/-- field ORDER: the pass-through branches keep the operand's order for stored coordinates AND other fields together,
so with `ak.zip({"x","charge","y","z","t"}, with_name="Vector4D")` the result of `rotateZ` is `x, y, charge, z, t`
(coordinates not contiguous); `vector.Array`/`vector.zip` put coordinates first and hide this -/
theorem c18_real_deviation_order :
    let self : List (String × Int) := [("x", 1), ("charge", 5), ("y", 2), ("z", 3), ("t", 4)]
    realWrap [.az .xy] 1 4 self [10, 20] =
      .ok (4, [("x", 10), ("y", 20), ("charge", 5), ("z", 3), ("t", 4)]) := by
  intro self
  rfl

/-- a binary operation in the pass-through branches (`num_vecargs = 2`, e.g. planar `add`): the class is that of the
handler `self` (here a `Vector2D` that happens to have a stray field named `t`: 2D, no longer 4D), the fields are the
declared coordinates only -/
theorem c18_real_binary_dim :
    let self : List (String × Int) := [("x", 1), ("y", 2), ("t", 4)]
    realWrap [.az .xy] 2 2 self [10, 20] = .ok (2, [("x", 10), ("y", 20)]) := by
  intro self
  rfl

end
end VG
