/-
Property C01 at the level of PUBLIC METHODS: glue ∘ compute.

The glue model (`Glue/Core.lean`, `Glue/Methods.lean`) is instantiated at `S := ℝ`, `B := Prop` with the
generated REAL compute layer `evR`, and the theorems say what the public methods DENOTE (Cartesian components
through `Spec.xOf/yOf/zOf/tOf`), for every storage of the operand.
-/
import VectorModel.Gen.Real.All
import VectorModel.Glue.Methods
import VectorModel.Spec.Basic
import VectorModel.Lemmas.Real
import VectorModel.Refine.Planar
import VectorModel.Refine.SpatialZ
import VectorModel.Refine.SpatialAcc
import VectorModel.Refine.SpatialRot
import VectorModel.Refine.LorentzAcc
import VectorModel.Props.C10

set_option linter.unusedVariables false
set_option linter.constructorNameAsVariable false
set_option maxRecDepth 4096

namespace VR
namespace C01M
open VK VG Spec Real

/-- the generated real-number compute layer, as the glue sees it -/
noncomputable def evR : VG.Ev ℝ Prop := fun m k a => VR.Compute.eval m k a

/-- well-formed vector (as in Props/C15): temporal only on top of longitudinal; as many coordinates as the dimension -/
def WFV (v : Vec ℝ) : Prop := (v.ty.tmp.isSome → v.ty.lon.isSome) ∧ v.c.length = v.ty.dim

/-- Cartesian components denoted by a (well-formed) vector: `[x, y]`, `[x, y, z]` or `[x, y, z, t]` -/
noncomputable def denote (v : Vec ℝ) : Option (List ℝ) :=
  match v.ty.lon, v.ty.tmp, v.c with
  | none, none, [a, b] => some [xOf v.ty.az a b, yOf v.ty.az a b]
  | some l, none, [a, b, c] => some [xOf v.ty.az a b, yOf v.ty.az a b, zOf v.ty.az l a b c]
  | some l, some t, [a, b, c, d] =>
    some [xOf v.ty.az a b, yOf v.ty.az a b, zOf v.ty.az l a b c, tOf v.ty.az l t a b c d]
  | _, _, _ => none

/-- a map of the plane acting on the first two components of a component list -/
def onPlanar (f : ℝ × ℝ → ℝ × ℝ) : List ℝ → List ℝ
  | x :: y :: rest => (f (x, y)).1 :: (f (x, y)).2 :: rest
  | l => l

/-- a map of space acting on the first three components of a component list (the time component is kept) -/
def onSpatial (f : ℝ × ℝ × ℝ → ℝ × ℝ × ℝ) : List ℝ → List ℝ
  | x :: y :: z :: rest => (f (x, y, z)).1 :: (f (x, y, z)).2.1 :: (f (x, y, z)).2.2 :: rest
  | l => l

/-- the three shapes of well-formed vectors -/
theorem wfv_cases {v : Vec ℝ} (hv : WFV v) :
    (∃ be mom az a b, v = ⟨⟨be, mom, az, none, none⟩, [a, b]⟩) ∨
    (∃ be mom az l a b c, v = ⟨⟨be, mom, az, some l, none⟩, [a, b, c]⟩) ∨
    (∃ be mom az l t a b c d, v = ⟨⟨be, mom, az, some l, some t⟩, [a, b, c, d]⟩) := by
  obtain ⟨⟨be, mom, az, lon, tmp⟩, c⟩ := v
  obtain ⟨hwf, hlen⟩ := hv
  cases lon <;> cases tmp <;> simp [VT.dim] at hwf hlen
  · left
    match c, hlen with
    | [a, b], _ => exact ⟨be, mom, az, a, b, rfl⟩
  · right; left
    match c, hlen with
    | [a, b, c], _ => exact ⟨be, mom, az, _, a, b, c, rfl⟩
  · right; right
    match c, hlen with
    | [a, b, c, d], _ => exact ⟨be, mom, az, _, _, a, b, c, d, rfl⟩

/-! ### 1. rotateZ -/

theorem call_rotateZ {S B : Type} (ev : Ev S B) (K : Consts S) (A : Arith S) (v : Vec S) (a : S) :
    call ev K A "rotateZ" v [.sc a] =
      if v.ty.dim < 2 then .error .attributeError else dispatch ev .planar_rotateZ [a] none [v] [v] := rfl

theorem rotateZ_eval2 (K : Consts ℝ) (A : Arith ℝ) (be mom az) (ang a b : ℝ) :
    call evR K A "rotateZ" ⟨⟨be, mom, az, none, none⟩, [a, b]⟩ [.sc ang] =
      .ok (.vec ⟨⟨be, mom, az, none, none⟩,
        [(planar_rotateZ.eval az ang a b).1, (planar_rotateZ.eval az ang a b).2]⟩) := by
  cases az <;> cases mom <;> rfl

theorem rotateZ_eval3 (K : Consts ℝ) (A : Arith ℝ) (be mom az l) (ang a b c : ℝ) :
    call evR K A "rotateZ" ⟨⟨be, mom, az, some l, none⟩, [a, b, c]⟩ [.sc ang] =
      .ok (.vec ⟨⟨be, mom, az, some l, none⟩,
        [(planar_rotateZ.eval az ang a b).1, (planar_rotateZ.eval az ang a b).2, c]⟩) := by
  cases az <;> cases mom <;> rfl

theorem rotateZ_eval4 (K : Consts ℝ) (A : Arith ℝ) (be mom az l t) (ang a b c d : ℝ) :
    call evR K A "rotateZ" ⟨⟨be, mom, az, some l, some t⟩, [a, b, c, d]⟩ [.sc ang] =
      .ok (.vec ⟨⟨be, mom, az, some l, some t⟩,
        [(planar_rotateZ.eval az ang a b).1, (planar_rotateZ.eval az ang a b).2, c, d]⟩) := by
  cases az <;> cases mom <;> rfl

/-- KEY LEMMA: `planar_rotateZ` preserves the transverse length, in both azimuthal storages — the reason why the
stored θ/η/τ of a 3D/4D vector may be passed through -/
theorem c01m_rotateZ_preserves_rho (k : Az) (ang a b : ℝ) :
    rhoOf k (planar_rotateZ.eval k ang a b).1 (planar_rotateZ.eval k ang a b).2 = rhoOf k a b := by
  cases k
  · simp only [d_planar_rotateZ, rhoOf]
    congr 1
    linear_combination (a ^ 2 + b ^ 2) * cos_sq_add_sin_sq ang
  · rfl

theorem rotateZ_x (k : Az) (ang a b : ℝ) :
    xOf k (planar_rotateZ.eval k ang a b).1 (planar_rotateZ.eval k ang a b).2
      = xOf k a b * cos ang - yOf k a b * sin ang := by
  have h := refine_planar_rotateZ k ang a b
  cases k <;> simp only [planar_rotateZ.ret, interp2, retAz, Option.map, cart2, rotZ2, Option.some.injEq,
    Prod.mk.injEq] at h <;> exact h.1

theorem rotateZ_y (k : Az) (ang a b : ℝ) :
    yOf k (planar_rotateZ.eval k ang a b).1 (planar_rotateZ.eval k ang a b).2
      = xOf k a b * sin ang + yOf k a b * cos ang := by
  have h := refine_planar_rotateZ k ang a b
  cases k <;> simp only [planar_rotateZ.ret, interp2, retAz, Option.map, cart2, rotZ2, Option.some.injEq,
    Prod.mk.injEq] at h <;> exact h.2

/-- the stored longitudinal coordinate denotes the same `z` after `rotateZ` -/
theorem rotateZ_z (k : Az) (l : Lon) (ang a b c : ℝ) :
    zOf k l (planar_rotateZ.eval k ang a b).1 (planar_rotateZ.eval k ang a b).2 c = zOf k l a b c := by
  cases l <;> simp only [zOf, c01m_rotateZ_preserves_rho]

theorem rotateZ_mag2 (k : Az) (l : Lon) (ang a b c : ℝ) :
    mag2Of k l (planar_rotateZ.eval k ang a b).1 (planar_rotateZ.eval k ang a b).2 c = mag2Of k l a b c := by
  simp only [mag2Of, rotateZ_z, rotateZ_x, rotateZ_y]
  linear_combination (xOf k a b ^ 2 + yOf k a b ^ 2) * cos_sq_add_sin_sq ang

/-- the stored temporal coordinate denotes the same `t` after `rotateZ` -/
theorem rotateZ_t (k : Az) (l : Lon) (t : Tmp) (ang a b c d : ℝ) :
    tOf k l t (planar_rotateZ.eval k ang a b).1 (planar_rotateZ.eval k ang a b).2 c d = tOf k l t a b c d := by
  cases t <;> simp only [tOf, rotateZ_mag2]

/-- **rotateZ on 2D, 3D and 4D vectors in every storage**: the result has the type of the operand and denotes the
rotation about the z axis of the denotation; `z` and `t` are unchanged although the STORED θ/η/τ are passed through.
No hypothesis on the stored coordinates is needed. -/
theorem c01m_rotateZ (K : Consts ℝ) (A : Arith ℝ) (v : Vec ℝ) (hv : WFV v) (ang : ℝ) :
    ∃ w, call evR K A "rotateZ" v [.sc ang] = .ok (.vec w) ∧ w.ty = v.ty ∧ WFV w ∧
      denote w = (denote v).map (onPlanar (rotZ2 ang)) := by
  rcases wfv_cases hv with ⟨be, mom, az, a, b, rfl⟩ | ⟨be, mom, az, l, a, b, c, rfl⟩ |
    ⟨be, mom, az, l, t, a, b, c, d, rfl⟩
  · refine ⟨_, rotateZ_eval2 K A be mom az ang a b, rfl, ⟨by simp, rfl⟩, ?_⟩
    simp only [denote, Option.map, onPlanar, rotZ2, rotateZ_x, rotateZ_y]
  · refine ⟨_, rotateZ_eval3 K A be mom az l ang a b c, rfl, ⟨by simp, rfl⟩, ?_⟩
    simp only [denote, Option.map, onPlanar, rotZ2, rotateZ_x, rotateZ_y, rotateZ_z]
  · refine ⟨_, rotateZ_eval4 K A be mom az l t ang a b c d, rfl, ⟨by simp, rfl⟩, ?_⟩
    simp only [denote, Option.map, onPlanar, rotZ2, rotateZ_x, rotateZ_y, rotateZ_z, rotateZ_t]

/-- on component lists with a third component, the planar rotation is the spatial rotation about the z axis -/
theorem onPlanar_rotZ2 (ang x y z : ℝ) (rest : List ℝ) :
    onPlanar (rotZ2 ang) (x :: y :: z :: rest) = onSpatial (rotZ ang) (x :: y :: z :: rest) := rfl

/-- **rotateZ on 3D and 4D vectors**: `Rz(ang)` on the spatial part of the denotation, time component unchanged -/
theorem c01m_rotateZ_spatial (K : Consts ℝ) (A : Arith ℝ) (v : Vec ℝ) (hv : WFV v) (hd : 3 ≤ v.ty.dim) (ang : ℝ) :
    ∃ w, call evR K A "rotateZ" v [.sc ang] = .ok (.vec w) ∧ w.ty = v.ty ∧ WFV w ∧
      denote w = (denote v).map (onSpatial (rotZ ang)) := by
  obtain ⟨w, h1, h2, h3, h4⟩ := c01m_rotateZ K A v hv ang
  refine ⟨w, h1, h2, h3, ?_⟩
  rw [h4]
  rcases wfv_cases hv with ⟨be, mom, az, a, b, rfl⟩ | ⟨be, mom, az, l, a, b, c, rfl⟩ |
    ⟨be, mom, az, l, t, a, b, c, d, rfl⟩
  · simp [VT.dim] at hd
  · rfl
  · rfl

/-! ### 2. spatial rotations on 3D and 4D vectors -/

/-- the code divides by `tan θ` of a θ-stored operand -/
def TanOKV (v : Vec ℝ) : Prop :=
  match v.ty.lon, v.c with
  | some l, _ :: _ :: c :: _ => TanOK l c
  | _, _ => True

/-- result of a method whose compute module returns `(xy, z)` from the spatial part `raw`: a Cartesian 3D vector, or — on a
4D operand — a 4D vector KEEPING the stored temporal coordinate (t or τ) -/
def spatialResult (raw : Az → Lon → ℝ → ℝ → ℝ → ℝ × ℝ × ℝ) (v : Vec ℝ) : Vec ℝ :=
  match v.ty.lon, v.c with
  | some l, a :: b :: c :: rest =>
    ⟨{ v.ty with az := .xy, lon := some .z },
      (raw v.ty.az l a b c).1 :: (raw v.ty.az l a b c).2.1 :: (raw v.ty.az l a b c).2.2 :: rest⟩
  | _, _ => v

def normSq (p : ℝ × ℝ × ℝ) : ℝ := p.1 ^ 2 + p.2.1 ^ 2 + p.2.2 ^ 2

/-- the denotation of `spatialResult`: if the raw result is `f` of the Cartesian denotation and `f` preserves the length,
the result denotes `f` on the spatial part and THE SAME time component (for τ storage because |p| is preserved) -/
theorem spatial_denote (raw : Az → Lon → ℝ → ℝ → ℝ → ℝ × ℝ × ℝ) (f : ℝ × ℝ × ℝ → ℝ × ℝ × ℝ)
    (hf : ∀ p, normSq (f p) = normSq p) (v : Vec ℝ) (hv : WFV v) (hd : 3 ≤ v.ty.dim)
    (hraw : ∀ l a b c, TanOK l c → raw v.ty.az l a b c = f (cart3 v.ty.az l a b c)) (hT : TanOKV v) :
    (spatialResult raw v).ty = { v.ty with az := .xy, lon := some .z } ∧ WFV (spatialResult raw v) ∧
      denote (spatialResult raw v) = (denote v).map (onSpatial f) := by
  rcases wfv_cases hv with ⟨be, mom, az, a, b, rfl⟩ | ⟨be, mom, az, l, a, b, c, rfl⟩ |
    ⟨be, mom, az, l, t, a, b, c, d, rfl⟩
  · simp [VT.dim] at hd
  · refine ⟨rfl, ⟨by simp [spatialResult], rfl⟩, ?_⟩
    have h := hraw l a b c hT
    simp only at h
    simp only [spatialResult, denote, h, Option.map, onSpatial, cart3, xOf, yOf, zOf]
  · refine ⟨rfl, ⟨by simp [spatialResult], rfl⟩, ?_⟩
    have h := hraw l a b c hT
    simp only at h
    have hn := hf (cart3 az l a b c)
    simp only [spatialResult, denote, h, Option.map, onSpatial, cart3]
    cases t
    · rfl
    · have e : tOf .xy .z .tau (f (cart3 az l a b c)).1 (f (cart3 az l a b c)).2.1 (f (cart3 az l a b c)).2.2 d
          = tOf az l .tau a b c d := by
        simp only [tOf, mag2Of]
        congr 2
      simp only [cart3] at e
      rw [e]
      rfl

theorem normSq_rotX (ang : ℝ) (p : ℝ × ℝ × ℝ) : normSq (rotX ang p) = normSq p := by
  simp only [normSq, rotX]
  linear_combination (p.2.1 ^ 2 + p.2.2 ^ 2) * cos_sq_add_sin_sq ang

theorem normSq_rotY (ang : ℝ) (p : ℝ × ℝ × ℝ) : normSq (rotY ang p) = normSq p := by
  simp only [normSq, rotY]
  linear_combination (p.1 ^ 2 + p.2.2 ^ 2) * cos_sq_add_sin_sq ang

theorem normSq_of_dot10 {f : ℝ × ℝ × ℝ → ℝ × ℝ × ℝ} (h : ∀ p, Spec10.dot3 (f p) (f p) = Spec10.dot3 p p)
    (p : ℝ × ℝ × ℝ) : normSq (f p) = normSq p := by
  have := h p
  simp only [Spec10.dot3] at this
  simp only [normSq]
  linear_combination this

/-- shape of a method call that evaluates to `spatialResult` -/
theorem rotateX_eval (K : Consts ℝ) (A : Arith ℝ) (v : Vec ℝ) (hv : WFV v) (hd : 3 ≤ v.ty.dim) (ang : ℝ) :
    call evR K A "rotateX" v [.sc ang] = .ok (.vec (spatialResult (fun k l => spatial_rotateX.eval k l ang) v)) := by
  rcases wfv_cases hv with ⟨be, mom, az, a, b, rfl⟩ | ⟨be, mom, az, l, a, b, c, rfl⟩ |
    ⟨be, mom, az, l, t, a, b, c, d, rfl⟩
  · simp [VT.dim] at hd
  · cases az <;> cases l <;> cases mom <;> rfl
  · cases az <;> cases l <;> cases mom <;> rfl

/-- **rotateX on 3D and 4D vectors in every storage** -/
theorem c01m_rotateX (K : Consts ℝ) (A : Arith ℝ) (v : Vec ℝ) (hv : WFV v) (hd : 3 ≤ v.ty.dim) (hT : TanOKV v)
    (ang : ℝ) :
    ∃ w, call evR K A "rotateX" v [.sc ang] = .ok (.vec w) ∧ w.ty = { v.ty with az := .xy, lon := some .z } ∧ WFV w ∧
      denote w = (denote v).map (onSpatial (rotX ang)) := by
  refine ⟨_, rotateX_eval K A v hv hd ang, ?_⟩
  refine spatial_denote _ _ (normSq_rotX ang) v hv hd (fun l a b c h => ?_) hT
  rw [refine_spatial_rotateX_key _ _ _ _ _ _ h, refine_spatial_rotateX_cart]; rfl

theorem rotateY_eval (K : Consts ℝ) (A : Arith ℝ) (v : Vec ℝ) (hv : WFV v) (hd : 3 ≤ v.ty.dim) (ang : ℝ) :
    call evR K A "rotateY" v [.sc ang] = .ok (.vec (spatialResult (fun k l => spatial_rotateY.eval k l ang) v)) := by
  rcases wfv_cases hv with ⟨be, mom, az, a, b, rfl⟩ | ⟨be, mom, az, l, a, b, c, rfl⟩ |
    ⟨be, mom, az, l, t, a, b, c, d, rfl⟩
  · simp [VT.dim] at hd
  · cases az <;> cases l <;> cases mom <;> rfl
  · cases az <;> cases l <;> cases mom <;> rfl

/-- **rotateY on 3D and 4D vectors in every storage** -/
theorem c01m_rotateY (K : Consts ℝ) (A : Arith ℝ) (v : Vec ℝ) (hv : WFV v) (hd : 3 ≤ v.ty.dim) (hT : TanOKV v)
    (ang : ℝ) :
    ∃ w, call evR K A "rotateY" v [.sc ang] = .ok (.vec w) ∧ w.ty = { v.ty with az := .xy, lon := some .z } ∧ WFV w ∧
      denote w = (denote v).map (onSpatial (rotY ang)) := by
  refine ⟨_, rotateY_eval K A v hv hd ang, ?_⟩
  refine spatial_denote _ _ (normSq_rotY ang) v hv hd (fun l a b c h => ?_) hT
  rw [refine_spatial_rotateY_key _ _ _ _ _ _ h, refine_spatial_rotateY_cart]; rfl

/-! #### rotate_euler, rotate_nautical -/

/-- the rotation `rotate_euler(φ, θ, ψ, order)` denotes (Props/C10): `R_{o₁}(-ψ) ∘ R_{o₂}(-θ) ∘ R_{o₃}(-φ)` -/
noncomputable def eulerRot (o : Ord) (phi theta psi : ℝ) (p : ℝ × ℝ × ℝ) : ℝ × ℝ × ℝ :=
  Spec10.R (Spec10.axes o).1 (-psi) (Spec10.R (Spec10.axes o).2.1 (-theta) (Spec10.R (Spec10.axes o).2.2 (-phi) p))

theorem normSq_eulerRot (o : Ord) (phi theta psi : ℝ) (p : ℝ × ℝ × ℝ) :
    normSq (eulerRot o phi theta psi p) = normSq p :=
  normSq_of_dot10 (f := eulerRot o phi theta psi) (fun p => by simp only [eulerRot, c10_R_dot]) p

theorem euler_dispatch_eval (v : Vec ℝ) (hv : WFV v) (hd : 3 ≤ v.ty.dim) (o : Ord) (phi theta psi : ℝ) :
    dispatch evR .spatial_rotate_euler [phi, theta, psi] (some o) [v] [v] =
      .ok (.vec (spatialResult (fun k l => spatial_rotate_euler.eval k l o phi theta psi) v)) := by
  rcases wfv_cases hv with ⟨be, mom, az, a, b, rfl⟩ | ⟨be, mom, az, l, a, b, c, rfl⟩ |
    ⟨be, mom, az, l, t, a, b, c, d, rfl⟩
  · simp [VT.dim] at hd
  · cases az <;> cases l <;> cases mom <;> cases o <;> rfl
  · cases az <;> cases l <;> cases mom <;> cases o <;> rfl

/-- `rotate_euler` at the level of `dispatch`, for every order -/
theorem c01m_rotate_euler_dispatch (v : Vec ℝ) (hv : WFV v) (hd : 3 ≤ v.ty.dim) (hT : TanOKV v) (o : Ord)
    (phi theta psi : ℝ) :
    ∃ w, dispatch evR .spatial_rotate_euler [phi, theta, psi] (some o) [v] [v] = .ok (.vec w) ∧
      w.ty = { v.ty with az := .xy, lon := some .z } ∧ WFV w ∧
      denote w = (denote v).map (onSpatial (eulerRot o phi theta psi)) := by
  refine ⟨_, euler_dispatch_eval v hv hd o phi theta psi, ?_⟩
  refine spatial_denote _ _ (normSq_eulerRot o phi theta psi) v hv hd (fun l a b c h => ?_) hT
  rw [refine_spatial_rotate_euler _ _ _ _ _ _ _ _ _ h, c10_euler_eval]; rfl

theorem call_rotate_euler {S B : Type} (ev : Ev S B) (K : Consts S) (A : Arith S) (v : Vec S) (p t q : S) :
    call ev K A "rotate_euler" v [.sc p, .sc t, .sc q] =
      if v.ty.dim < 3 then .error .attributeError else
        dispatch ev .spatial_rotate_euler [p, t, q] (some .zxz) [v] [v] := rfl

theorem call_rotate_euler_ord {S B : Type} (ev : Ev S B) (K : Consts S) (A : Arith S) (v : Vec S) (p t q : S)
    (s : String) :
    call ev K A "rotate_euler" v [.sc p, .sc t, .sc q, .str s] =
      if v.ty.dim < 3 then .error .attributeError else
        match ordOf s with
        | some o => if v.ty.dim < 3 then .error .attributeError else
            dispatch ev .spatial_rotate_euler [p, t, q] (some o) [v] [v]
        | none => .error .typeError := rfl

theorem call_rotate_nautical {S B : Type} (ev : Ev S B) (K : Consts S) (A : Arith S) (v : Vec S) (yaw pitch roll : S) :
    call ev K A "rotate_nautical" v [.sc yaw, .sc pitch, .sc roll] =
      if v.ty.dim < 3 then .error .attributeError else
        dispatch ev .spatial_rotate_euler [roll, pitch, yaw] (some .zyx) [v] [v] := rfl

/-- **rotate_euler (default order "zxz") on 3D and 4D vectors in every storage** -/
theorem c01m_rotate_euler (K : Consts ℝ) (A : Arith ℝ) (v : Vec ℝ) (hv : WFV v) (hd : 3 ≤ v.ty.dim) (hT : TanOKV v)
    (phi theta psi : ℝ) :
    ∃ w, call evR K A "rotate_euler" v [.sc phi, .sc theta, .sc psi] = .ok (.vec w) ∧
      w.ty = { v.ty with az := .xy, lon := some .z } ∧ WFV w ∧
      denote w = (denote v).map (onSpatial (eulerRot .zxz phi theta psi)) := by
  rw [call_rotate_euler, if_neg (by omega)]
  exact c01m_rotate_euler_dispatch v hv hd hT .zxz phi theta psi

/-- **rotate_euler with an explicit order string** -/
theorem c01m_rotate_euler_ord (K : Consts ℝ) (A : Arith ℝ) (v : Vec ℝ) (hv : WFV v) (hd : 3 ≤ v.ty.dim) (hT : TanOKV v)
    (phi theta psi : ℝ) (s : String) (o : Ord) (ho : ordOf s = some o) :
    ∃ w, call evR K A "rotate_euler" v [.sc phi, .sc theta, .sc psi, .str s] = .ok (.vec w) ∧
      w.ty = { v.ty with az := .xy, lon := some .z } ∧ WFV w ∧
      denote w = (denote v).map (onSpatial (eulerRot o phi theta psi)) := by
  rw [call_rotate_euler_ord, if_neg (by omega), ho]
  simp only [if_neg (show ¬ v.ty.dim < 3 by omega)]
  exact c01m_rotate_euler_dispatch v hv hd hT o phi theta psi

example : ordOf "xyz" = some .xyz ∧ ordOf "ZYX" = some .zyx := by decide +kernel

/-- **rotate_nautical(yaw, pitch, roll)**: `Rz(-yaw) ∘ Ry(-pitch) ∘ Rx(-roll)` -/
theorem c01m_rotate_nautical (K : Consts ℝ) (A : Arith ℝ) (v : Vec ℝ) (hv : WFV v) (hd : 3 ≤ v.ty.dim) (hT : TanOKV v)
    (yaw pitch roll : ℝ) :
    ∃ w, call evR K A "rotate_nautical" v [.sc yaw, .sc pitch, .sc roll] = .ok (.vec w) ∧
      w.ty = { v.ty with az := .xy, lon := some .z } ∧ WFV w ∧
      denote w = (denote v).map (onSpatial (eulerRot .zyx roll pitch yaw)) := by
  rw [call_rotate_nautical, if_neg (by omega)]
  exact c01m_rotate_euler_dispatch v hv hd hT .zyx roll pitch yaw

/-! #### rotate_quaternion -/

/-- the rotation matrix of the quaternion `u + i𝐢 + j𝐣 + k𝐤` (hand-written; a rotation when `u²+i²+j²+k² = 1`) -/
def quatRot (u i j k : ℝ) (p : ℝ × ℝ × ℝ) : ℝ × ℝ × ℝ :=
  ((u ^ 2 + i ^ 2 - j ^ 2 - k ^ 2) * p.1 + 2 * (i * j - u * k) * p.2.1 + 2 * (u * j + i * k) * p.2.2,
   2 * (i * j + u * k) * p.1 + (u ^ 2 - i ^ 2 + j ^ 2 - k ^ 2) * p.2.1 + 2 * (j * k - u * i) * p.2.2,
   2 * (i * k - u * j) * p.1 + 2 * (j * k + u * i) * p.2.1 + (u ^ 2 - i ^ 2 - j ^ 2 + k ^ 2) * p.2.2)

theorem quat_cartesian_eq (u i j k : ℝ) (p : ℝ × ℝ × ℝ) :
    spatial_rotate_quaternion.cartesian u i j k p.1 p.2.1 p.2.2 = quatRot u i j k p := by
  simp only [spatial_rotate_quaternion.cartesian, quatRot]
  refine Prod.ext ?_ (Prod.ext ?_ ?_) <;> simp only <;> ring

theorem normSq_quatRot (u i j k : ℝ) (hq : u ^ 2 + i ^ 2 + j ^ 2 + k ^ 2 = 1) (p : ℝ × ℝ × ℝ) :
    normSq (quatRot u i j k p) = normSq p := by
  have h := c10_quaternion_dot u i j k hq p p
  simp only [Spec10.ap, quat_cartesian_eq, Spec10.dot3] at h
  simp only [normSq]
  linear_combination h

theorem rotate_quaternion_eval (K : Consts ℝ) (A : Arith ℝ) (v : Vec ℝ) (hv : WFV v) (hd : 3 ≤ v.ty.dim)
    (u i j k : ℝ) :
    call evR K A "rotate_quaternion" v [.sc u, .sc i, .sc j, .sc k] =
      .ok (.vec (spatialResult (fun k0 k1 => spatial_rotate_quaternion.eval k0 k1 u i j k) v)) := by
  rcases wfv_cases hv with ⟨be, mom, az, a, b, rfl⟩ | ⟨be, mom, az, l, a, b, c, rfl⟩ |
    ⟨be, mom, az, l, t, a, b, c, d, rfl⟩
  · simp [VT.dim] at hd
  · cases az <;> cases l <;> cases mom <;> rfl
  · cases az <;> cases l <;> cases mom <;> rfl

/-- **rotate_quaternion (unit quaternion) on 3D and 4D vectors in every storage** -/
theorem c01m_rotate_quaternion (K : Consts ℝ) (A : Arith ℝ) (v : Vec ℝ) (hv : WFV v) (hd : 3 ≤ v.ty.dim)
    (hT : TanOKV v) (u i j k : ℝ) (hq : u ^ 2 + i ^ 2 + j ^ 2 + k ^ 2 = 1) :
    ∃ w, call evR K A "rotate_quaternion" v [.sc u, .sc i, .sc j, .sc k] = .ok (.vec w) ∧
      w.ty = { v.ty with az := .xy, lon := some .z } ∧ WFV w ∧
      denote w = (denote v).map (onSpatial (quatRot u i j k)) := by
  refine ⟨_, rotate_quaternion_eval K A v hv hd u i j k, ?_⟩
  refine spatial_denote _ _ (normSq_quatRot u i j k hq) v hv hd (fun l a b c h => ?_) hT
  rw [refine_spatial_rotate_quaternion _ _ _ _ _ _ _ _ _ h, ← quat_cartesian_eq]; rfl

/-- for 3D operands (no stored τ to pass through) the unit hypothesis is not needed -/
theorem c01m_rotate_quaternion_3D (K : Consts ℝ) (A : Arith ℝ) (v : Vec ℝ) (hv : WFV v) (hd : v.ty.dim = 3)
    (hT : TanOKV v) (u i j k : ℝ) :
    ∃ w, call evR K A "rotate_quaternion" v [.sc u, .sc i, .sc j, .sc k] = .ok (.vec w) ∧
      denote w = (denote v).map (onSpatial (quatRot u i j k)) := by
  refine ⟨_, rotate_quaternion_eval K A v hv (by omega) u i j k, ?_⟩
  rcases wfv_cases hv with ⟨be, mom, az, a, b, rfl⟩ | ⟨be, mom, az, l, a, b, c, rfl⟩ |
    ⟨be, mom, az, l, t, a, b, c, d, rfl⟩
  · simp [VT.dim] at hd
  · have h := refine_spatial_rotate_quaternion az l u i j k a b c hT
    simp only [spatialResult, denote, h, Option.map, onSpatial, ← quat_cartesian_eq]
    rfl
  · simp [VT.dim] at hd

/-! #### rotate_axis -/

/-- Rodrigues' rotation by `ang` about the direction of `u ≠ 0` (`Spec10.rod` of Props/C10 about the normalised axis) -/
noncomputable def axisRot (u : ℝ × ℝ × ℝ) (ang : ℝ) (p : ℝ × ℝ × ℝ) : ℝ × ℝ × ℝ :=
  Spec10.rod (u.1 / sqrt (u.1 ^ 2 + u.2.1 ^ 2 + u.2.2 ^ 2)) (u.2.1 / sqrt (u.1 ^ 2 + u.2.1 ^ 2 + u.2.2 ^ 2))
    (u.2.2 / sqrt (u.1 ^ 2 + u.2.1 ^ 2 + u.2.2 ^ 2)) (cos ang) (sin ang) p.1 p.2.1 p.2.2

theorem axisRot_eq (u : ℝ × ℝ × ℝ) (ang : ℝ) (p : ℝ × ℝ × ℝ) :
    axisRot u ang p = Spec10.ap (spatial_rotate_axis.cartesian ang u.1 u.2.1 u.2.2) p :=
  (c10_rotate_axis_eq_rod ang u.1 u.2.1 u.2.2 p.1 p.2.1 p.2.2).symm

theorem normSq_axisRot (u : ℝ × ℝ × ℝ) (hu : 0 < normSq u) (ang : ℝ) (p : ℝ × ℝ × ℝ) :
    normSq (axisRot u ang p) = normSq p :=
  normSq_of_dot10 (f := axisRot u ang)
    (fun p => by simp only [axisRot_eq]; exact c10_rotate_axis_dot ang u.1 u.2.1 u.2.2 hu p p) p

theorem call_rotate_axis {S B : Type} (ev : Ev S B) (K : Consts S) (A : Arith S) (v axis : Vec S) (a : S) :
    call ev K A "rotate_axis" v [.v axis, .sc a] =
      if v.ty.dim < 3 then .error .attributeError else
      if axis.ty.dim != 3 then .error .typeError else
        dispatch ev .spatial_rotate_axis [a] none [axis, v] [v] := rfl

theorem rotate_axis_eval (K : Consts ℝ) (A : Arith ℝ) (v : Vec ℝ) (hv : WFV v) (hd : 3 ≤ v.ty.dim)
    (be' : Backend) (mom' : Bool) (az' : Az) (l' : Lon) (u1 u2 u3 ang : ℝ) :
    call evR K A "rotate_axis" v [.v ⟨⟨be', mom', az', some l', none⟩, [u1, u2, u3]⟩, .sc ang] =
      .ok (.vec (spatialResult (fun k l a b c => spatial_rotate_axis.eval az' l' k l ang u1 u2 u3 a b c) v)) := by
  rcases wfv_cases hv with ⟨be, mom, az, a, b, rfl⟩ | ⟨be, mom, az, l, a, b, c, rfl⟩ |
    ⟨be, mom, az, l, t, a, b, c, d, rfl⟩
  · simp [VT.dim] at hd
  · cases az' <;> cases l' <;> cases az <;> cases l <;> cases mom <;> rfl
  · cases az' <;> cases l' <;> cases az <;> cases l <;> cases mom <;> rfl

/-- **rotate_axis on 3D and 4D vectors, the axis a 3D vector, both in every storage**: the result denotes Rodrigues'
rotation of the spatial part of `denote v` about the DENOTATION of the axis (any backend/flavor of the axis; the result
has the backend and flavor of `v`), time component unchanged -/
theorem c01m_rotate_axis (K : Consts ℝ) (A : Arith ℝ) (v : Vec ℝ) (hv : WFV v) (hd : 3 ≤ v.ty.dim) (hT : TanOKV v)
    (axis : Vec ℝ) (hax : WFV axis) (hdax : axis.ty.dim = 3) (hTax : TanOKV axis) (ux uy uz : ℝ)
    (hu : denote axis = some [ux, uy, uz]) (hpos : 0 < ux ^ 2 + uy ^ 2 + uz ^ 2) (ang : ℝ) :
    ∃ w, call evR K A "rotate_axis" v [.v axis, .sc ang] = .ok (.vec w) ∧
      w.ty = { v.ty with az := .xy, lon := some .z } ∧ WFV w ∧
      denote w = (denote v).map (onSpatial (axisRot (ux, uy, uz) ang)) := by
  rcases wfv_cases hax with ⟨be', mom', az', u1, u2, rfl⟩ | ⟨be', mom', az', l', u1, u2, u3, rfl⟩ |
    ⟨be', mom', az', l', t', u1, u2, u3, u4, rfl⟩
  · simp [VT.dim] at hdax
  · refine ⟨_, rotate_axis_eval K A v hv hd be' mom' az' l' u1 u2 u3 ang, ?_⟩
    simp only [denote, Option.some.injEq, List.cons.injEq, and_true] at hu
    obtain ⟨rfl, rfl, rfl⟩ := hu
    refine spatial_denote _ _ (normSq_axisRot (xOf az' u1 u2, yOf az' u1 u2, zOf az' l' u1 u2 u3) hpos ang) v hv hd (fun l a b c h => ?_) hT
    rw [refine_spatial_rotate_axis _ _ _ _ _ _ _ _ _ _ _ hTax h, axisRot_eq]; rfl
  · simp [VT.dim] at hdax

/-! ### 3. accessors: the value only depends on the denotation -/

/-- the stored coordinates (azimuthal pair, longitudinal) and the longitudinal key, totalised -/
def c3 (v : Vec ℝ) : ℝ × ℝ × ℝ :=
  match v.c with
  | a :: b :: c :: _ => (a, b, c)
  | a :: b :: _ => (a, b, 0)
  | _ => (0, 0, 0)
def lonOf (v : Vec ℝ) : Lon := v.ty.lon.getD .z

/-- a hypothesis on the stored azimuthal coordinates -/
def Stored2 (P : Az → ℝ → ℝ → Prop) (v : Vec ℝ) : Prop := P v.ty.az (c3 v).1 (c3 v).2.1
/-- a hypothesis on the stored azimuthal and longitudinal coordinates -/
def Stored3 (P : Az → Lon → ℝ → ℝ → ℝ → Prop) (v : Vec ℝ) : Prop := P v.ty.az (lonOf v) (c3 v).1 (c3 v).2.1 (c3 v).2.2

theorem denote_planar {v : Vec ℝ} (hv : WFV v) {x y : ℝ} {rest : List ℝ} (h : denote v = some (x :: y :: rest)) :
    x = xOf v.ty.az (c3 v).1 (c3 v).2.1 ∧ y = yOf v.ty.az (c3 v).1 (c3 v).2.1 := by
  rcases wfv_cases hv with ⟨be, mom, az, a, b, rfl⟩ | ⟨be, mom, az, l, a, b, c, rfl⟩ |
    ⟨be, mom, az, l, t, a, b, c, d, rfl⟩
  all_goals
    simp only [denote, Option.some.injEq, List.cons.injEq] at h
    exact ⟨h.1.symm, h.2.1.symm⟩

theorem denote_spatial {v : Vec ℝ} (hv : WFV v) {x y z : ℝ} {rest : List ℝ}
    (h : denote v = some (x :: y :: z :: rest)) :
    3 ≤ v.ty.dim ∧ x = xOf v.ty.az (c3 v).1 (c3 v).2.1 ∧ y = yOf v.ty.az (c3 v).1 (c3 v).2.1 ∧
      z = zOf v.ty.az (lonOf v) (c3 v).1 (c3 v).2.1 (c3 v).2.2 := by
  rcases wfv_cases hv with ⟨be, mom, az, a, b, rfl⟩ | ⟨be, mom, az, l, a, b, c, rfl⟩ |
    ⟨be, mom, az, l, t, a, b, c, d, rfl⟩
  · simp [denote] at h
  all_goals
    simp only [denote, Option.some.injEq, List.cons.injEq] at h
    exact ⟨by simp [VT.dim], h.1.symm, h.2.1.symm, h.2.2.1.symm⟩

theorem acc_x_eval (K : Consts ℝ) (A : Arith ℝ) (v : Vec ℝ) (hv : WFV v) :
    call evR K A "x" v [] = .ok (.scalar (planar_x.eval v.ty.az (c3 v).1 (c3 v).2.1)) := by
  rcases wfv_cases hv with ⟨be, mom, az, a, b, rfl⟩ | ⟨be, mom, az, l, a, b, c, rfl⟩ |
    ⟨be, mom, az, l, t, a, b, c, d, rfl⟩
  all_goals cases az <;> rfl

theorem acc_y_eval (K : Consts ℝ) (A : Arith ℝ) (v : Vec ℝ) (hv : WFV v) :
    call evR K A "y" v [] = .ok (.scalar (planar_y.eval v.ty.az (c3 v).1 (c3 v).2.1)) := by
  rcases wfv_cases hv with ⟨be, mom, az, a, b, rfl⟩ | ⟨be, mom, az, l, a, b, c, rfl⟩ |
    ⟨be, mom, az, l, t, a, b, c, d, rfl⟩
  all_goals cases az <;> rfl

theorem acc_rho_eval (K : Consts ℝ) (A : Arith ℝ) (v : Vec ℝ) (hv : WFV v) :
    call evR K A "rho" v [] = .ok (.scalar (planar_rho.eval v.ty.az (c3 v).1 (c3 v).2.1)) := by
  rcases wfv_cases hv with ⟨be, mom, az, a, b, rfl⟩ | ⟨be, mom, az, l, a, b, c, rfl⟩ |
    ⟨be, mom, az, l, t, a, b, c, d, rfl⟩
  all_goals cases az <;> rfl

theorem acc_rho2_eval (K : Consts ℝ) (A : Arith ℝ) (v : Vec ℝ) (hv : WFV v) :
    call evR K A "rho2" v [] = .ok (.scalar (planar_rho2.eval v.ty.az (c3 v).1 (c3 v).2.1)) := by
  rcases wfv_cases hv with ⟨be, mom, az, a, b, rfl⟩ | ⟨be, mom, az, l, a, b, c, rfl⟩ |
    ⟨be, mom, az, l, t, a, b, c, d, rfl⟩
  all_goals cases az <;> rfl

theorem acc_phi_eval (K : Consts ℝ) (A : Arith ℝ) (v : Vec ℝ) (hv : WFV v) :
    call evR K A "phi" v [] = .ok (.scalar (planar_phi.eval v.ty.az (c3 v).1 (c3 v).2.1)) := by
  rcases wfv_cases hv with ⟨be, mom, az, a, b, rfl⟩ | ⟨be, mom, az, l, a, b, c, rfl⟩ |
    ⟨be, mom, az, l, t, a, b, c, d, rfl⟩
  all_goals cases az <;> rfl

theorem acc_z_eval (K : Consts ℝ) (A : Arith ℝ) (v : Vec ℝ) (hv : WFV v) (hd : 3 ≤ v.ty.dim) :
    call evR K A "z" v [] = .ok (.scalar (spatial_z.eval v.ty.az (lonOf v) (c3 v).1 (c3 v).2.1 (c3 v).2.2)) := by
  rcases wfv_cases hv with ⟨be, mom, az, a, b, rfl⟩ | ⟨be, mom, az, l, a, b, c, rfl⟩ |
    ⟨be, mom, az, l, t, a, b, c, d, rfl⟩
  · simp [VT.dim] at hd
  all_goals cases az <;> cases l <;> rfl

theorem acc_mag2_eval (K : Consts ℝ) (A : Arith ℝ) (v : Vec ℝ) (hv : WFV v) (hd : 3 ≤ v.ty.dim) :
    call evR K A "mag2" v [] = .ok (.scalar (spatial_mag2.eval v.ty.az (lonOf v) (c3 v).1 (c3 v).2.1 (c3 v).2.2)) := by
  rcases wfv_cases hv with ⟨be, mom, az, a, b, rfl⟩ | ⟨be, mom, az, l, a, b, c, rfl⟩ |
    ⟨be, mom, az, l, t, a, b, c, d, rfl⟩
  · simp [VT.dim] at hd
  all_goals cases az <;> cases l <;> rfl

theorem acc_mag_eval (K : Consts ℝ) (A : Arith ℝ) (v : Vec ℝ) (hv : WFV v) (hd : 3 ≤ v.ty.dim) :
    call evR K A "mag" v [] = .ok (.scalar (spatial_mag.eval v.ty.az (lonOf v) (c3 v).1 (c3 v).2.1 (c3 v).2.2)) := by
  rcases wfv_cases hv with ⟨be, mom, az, a, b, rfl⟩ | ⟨be, mom, az, l, a, b, c, rfl⟩ |
    ⟨be, mom, az, l, t, a, b, c, d, rfl⟩
  · simp [VT.dim] at hd
  all_goals cases az <;> cases l <;> rfl

theorem acc_costheta_eval (K : Consts ℝ) (A : Arith ℝ) (v : Vec ℝ) (hv : WFV v) (hd : 3 ≤ v.ty.dim) :
    call evR K A "costheta" v [] = .ok (.scalar (spatial_costheta.eval v.ty.az (lonOf v) (c3 v).1 (c3 v).2.1 (c3 v).2.2)) := by
  rcases wfv_cases hv with ⟨be, mom, az, a, b, rfl⟩ | ⟨be, mom, az, l, a, b, c, rfl⟩ |
    ⟨be, mom, az, l, t, a, b, c, d, rfl⟩
  · simp [VT.dim] at hd
  all_goals cases az <;> cases l <;> rfl

theorem acc_cottheta_eval (K : Consts ℝ) (A : Arith ℝ) (v : Vec ℝ) (hv : WFV v) (hd : 3 ≤ v.ty.dim) :
    call evR K A "cottheta" v [] = .ok (.scalar (spatial_cottheta.eval v.ty.az (lonOf v) (c3 v).1 (c3 v).2.1 (c3 v).2.2)) := by
  rcases wfv_cases hv with ⟨be, mom, az, a, b, rfl⟩ | ⟨be, mom, az, l, a, b, c, rfl⟩ |
    ⟨be, mom, az, l, t, a, b, c, d, rfl⟩
  · simp [VT.dim] at hd
  all_goals cases az <;> cases l <;> rfl

theorem acc_theta_eval (K : Consts ℝ) (A : Arith ℝ) (v : Vec ℝ) (hv : WFV v) (hd : 3 ≤ v.ty.dim) :
    call evR K A "theta" v [] = .ok (.scalar (spatial_theta.eval v.ty.az (lonOf v) (c3 v).1 (c3 v).2.1 (c3 v).2.2)) := by
  rcases wfv_cases hv with ⟨be, mom, az, a, b, rfl⟩ | ⟨be, mom, az, l, a, b, c, rfl⟩ |
    ⟨be, mom, az, l, t, a, b, c, d, rfl⟩
  · simp [VT.dim] at hd
  all_goals cases az <;> cases l <;> rfl

theorem acc_eta_eval (K : Consts ℝ) (A : Arith ℝ) (v : Vec ℝ) (hv : WFV v) (hd : 3 ≤ v.ty.dim) :
    call evR K A "eta" v [] = .ok (.scalar (spatial_eta.eval v.ty.az (lonOf v) (c3 v).1 (c3 v).2.1 (c3 v).2.2)) := by
  rcases wfv_cases hv with ⟨be, mom, az, a, b, rfl⟩ | ⟨be, mom, az, l, a, b, c, rfl⟩ |
    ⟨be, mom, az, l, t, a, b, c, d, rfl⟩
  · simp [VT.dim] at hd
  all_goals cases az <;> cases l <;> rfl

theorem rhoOf_eq_sqrt {k : Az} {a b : ℝ} (h : Canon2 k a b) : rhoOf k a b = sqrt (xOf k a b ^ 2 + yOf k a b ^ 2) := by
  rw [Spec.sq_xOf_add_sq_yOf, Real.sqrt_sq (Spec.rhoOf_nonneg h)]

/-- **planar accessors on 2D, 3D and 4D vectors**: `x`, `y` -/
theorem c01m_acc_x (K : Consts ℝ) (A : Arith ℝ) (v : Vec ℝ) (hv : WFV v) (x y : ℝ) (rest : List ℝ)
    (h : denote v = some (x :: y :: rest)) : call evR K A "x" v [] = .ok (.scalar x) := by
  rw [acc_x_eval K A v hv, refine_planar_x, (denote_planar hv h).1]

theorem c01m_acc_y (K : Consts ℝ) (A : Arith ℝ) (v : Vec ℝ) (hv : WFV v) (x y : ℝ) (rest : List ℝ)
    (h : denote v = some (x :: y :: rest)) : call evR K A "y" v [] = .ok (.scalar y) := by
  rw [acc_y_eval K A v hv, refine_planar_y, (denote_planar hv h).2]

/-- `rho = √(x² + y²)` of the denotation (`0 ≤ ρ` for polar storage) -/
theorem c01m_acc_rho (K : Consts ℝ) (A : Arith ℝ) (v : Vec ℝ) (hv : WFV v) (hc : Stored2 Canon2 v) (x y : ℝ)
    (rest : List ℝ) (h : denote v = some (x :: y :: rest)) :
    call evR K A "rho" v [] = .ok (.scalar (sqrt (x ^ 2 + y ^ 2))) := by
  rw [acc_rho_eval K A v hv, refine_planar_rho, (denote_planar hv h).1, (denote_planar hv h).2, rhoOf_eq_sqrt hc]

theorem c01m_acc_rho2 (K : Consts ℝ) (A : Arith ℝ) (v : Vec ℝ) (hv : WFV v) (x y : ℝ) (rest : List ℝ)
    (h : denote v = some (x :: y :: rest)) : call evR K A "rho2" v [] = .ok (.scalar (x ^ 2 + y ^ 2)) := by
  rw [acc_rho2_eval K A v hv, refine_planar_rho2, (denote_planar hv h).1, (denote_planar hv h).2]

/-- `phi = arctan2(y, x)` of the denotation (polar storage: `0 < ρ`, stored φ in `(-π, π]`) -/
theorem c01m_acc_phi (K : Consts ℝ) (A : Arith ℝ) (v : Vec ℝ) (hv : WFV v)
    (hc : Stored2 (fun k a b => 0 < rhoOf k a b ∧ CanonPhi k a b) v) (x y : ℝ) (rest : List ℝ)
    (h : denote v = some (x :: y :: rest)) : call evR K A "phi" v [] = .ok (.scalar (P.arctan2 y x)) := by
  rw [acc_phi_eval K A v hv, refine_planar_phi _ _ _ hc.1 hc.2, (denote_planar hv h).1, (denote_planar hv h).2]

/-- **spatial accessors on 3D and 4D vectors** -/
theorem c01m_acc_z (K : Consts ℝ) (A : Arith ℝ) (v : Vec ℝ) (hv : WFV v)
    (hc : Stored3 (fun _ l _ _ c => TanOK l c) v) (x y z : ℝ) (rest : List ℝ)
    (h : denote v = some (x :: y :: z :: rest)) : call evR K A "z" v [] = .ok (.scalar z) := by
  obtain ⟨hd, hx, hy, hz⟩ := denote_spatial hv h
  rw [acc_z_eval K A v hv hd, refine_spatial_z _ _ _ _ _ hc, hz]

theorem c01m_acc_mag2 (K : Consts ℝ) (A : Arith ℝ) (v : Vec ℝ) (hv : WFV v)
    (hc : Stored3 (fun _ l _ _ c => SinOK l c) v) (x y z : ℝ) (rest : List ℝ)
    (h : denote v = some (x :: y :: z :: rest)) :
    call evR K A "mag2" v [] = .ok (.scalar (x ^ 2 + y ^ 2 + z ^ 2)) := by
  obtain ⟨hd, hx, hy, hz⟩ := denote_spatial hv h
  rw [acc_mag2_eval K A v hv hd, refine_spatial_mag2 _ _ _ _ _ hc, hx, hy, hz]; rfl

theorem c01m_acc_mag (K : Consts ℝ) (A : Arith ℝ) (v : Vec ℝ) (hv : WFV v)
    (hc : Stored3 (fun k l a b c => Canon2 k a b ∧ SinOK l c) v) (x y z : ℝ) (rest : List ℝ)
    (h : denote v = some (x :: y :: z :: rest)) :
    call evR K A "mag" v [] = .ok (.scalar (sqrt (x ^ 2 + y ^ 2 + z ^ 2))) := by
  obtain ⟨hd, hx, hy, hz⟩ := denote_spatial hv h
  rw [acc_mag_eval K A v hv hd, refine_spatial_mag _ _ _ _ _ hc.1 hc.2, hx, hy, hz]; rfl

theorem c01m_acc_costheta (K : Consts ℝ) (A : Arith ℝ) (v : Vec ℝ) (hv : WFV v)
    (hc : Stored3 (fun k l a b c => Canon3 k l a b c ∧ 0 < mag2Of k l a b c) v) (x y z : ℝ) (rest : List ℝ)
    (h : denote v = some (x :: y :: z :: rest)) :
    call evR K A "costheta" v [] = .ok (.scalar (z / sqrt (x ^ 2 + y ^ 2 + z ^ 2))) := by
  obtain ⟨hd, hx, hy, hz⟩ := denote_spatial hv h
  rw [acc_costheta_eval K A v hv hd, refine_spatial_costheta _ _ _ _ _ hc.1 hc.2, hx, hy, hz]; rfl

theorem c01m_acc_theta (K : Consts ℝ) (A : Arith ℝ) (v : Vec ℝ) (hv : WFV v)
    (hc : Stored3 (fun k l a b c => Canon3 k l a b c ∧ 0 < mag2Of k l a b c) v) (x y z : ℝ) (rest : List ℝ)
    (h : denote v = some (x :: y :: z :: rest)) :
    call evR K A "theta" v [] = .ok (.scalar (arccos (z / sqrt (x ^ 2 + y ^ 2 + z ^ 2)))) := by
  obtain ⟨hd, hx, hy, hz⟩ := denote_spatial hv h
  rw [acc_theta_eval K A v hv hd, refine_spatial_theta _ _ _ _ _ hc.1 hc.2, hx, hy, hz]; rfl

theorem c01m_acc_cottheta (K : Consts ℝ) (A : Arith ℝ) (v : Vec ℝ) (hv : WFV v)
    (hc : Stored3 (fun k l a b c => 0 < rhoOf k a b ∧ TanOK l c) v) (x y z : ℝ) (rest : List ℝ)
    (h : denote v = some (x :: y :: z :: rest)) :
    call evR K A "cottheta" v [] = .ok (.scalar (z / sqrt (x ^ 2 + y ^ 2))) := by
  obtain ⟨hd, hx, hy, hz⟩ := denote_spatial hv h
  have h2 : Canon2 v.ty.az (c3 v).1 (c3 v).2.1 := by
    have := hc.1; revert this; cases v.ty.az <;> simp only [Canon2, rhoOf] <;> intro h <;> first | trivial | exact h.le
  rw [acc_cottheta_eval K A v hv hd, refine_spatial_cottheta _ _ _ _ _ hc.1 hc.2, hx, hy, hz, rhoOf_eq_sqrt h2]

theorem c01m_acc_eta (K : Consts ℝ) (A : Arith ℝ) (v : Vec ℝ) (hv : WFV v)
    (hc : Stored3 (fun k l a b c => 0 < rhoOf k a b ∧ CanonLon k l a b c) v) (x y z : ℝ) (rest : List ℝ)
    (h : denote v = some (x :: y :: z :: rest)) :
    call evR K A "eta" v [] = .ok (.scalar (arsinh (z / sqrt (x ^ 2 + y ^ 2)))) := by
  obtain ⟨hd, hx, hy, hz⟩ := denote_spatial hv h
  have h2 : Canon2 v.ty.az (c3 v).1 (c3 v).2.1 := by
    have := hc.1; revert this; cases v.ty.az <;> simp only [Canon2, rhoOf] <;> intro h <;> first | trivial | exact h.le
  rw [acc_eta_eval K A v hv hd, refine_spatial_eta _ _ _ _ _ hc.1 hc.2, hx, hy, hz, rhoOf_eq_sqrt h2]

/-- e.g. a 4D vector stored as (ρ, φ, θ, τ) and the one stored as (x, y, z, t) with the same denotation have the same
`x`, `rho2`, `z`, `mag2` -/
example (K : Consts ℝ) (A : Arith ℝ) (v w : Vec ℝ) (hv : WFV v) (hw : WFV w) (x y z t : ℝ)
    (h1 : denote v = some [x, y, z, t]) (h2 : denote w = some [x, y, z, t])
    (hcv : Stored3 (fun _ l _ _ c => TanOK l c) v) (hcw : Stored3 (fun _ l _ _ c => TanOK l c) w) :
    call evR K A "x" v [] = call evR K A "x" w [] ∧ call evR K A "rho2" v [] = call evR K A "rho2" w [] ∧
      call evR K A "z" v [] = call evR K A "z" w [] := by
  rw [c01m_acc_x K A v hv _ _ _ h1, c01m_acc_x K A w hw _ _ _ h2, c01m_acc_rho2 K A v hv _ _ _ h1,
    c01m_acc_rho2 K A w hw _ _ _ h2, c01m_acc_z K A v hv hcv _ _ _ _ h1, c01m_acc_z K A w hw hcw _ _ _ _ h2]
  exact ⟨rfl, rfl, rfl⟩

/-! ### 4. `to_Vector2D/3D` projections and `to_Vector3D/4D` embeddings -/

/-- **projection to 2D**: the denotation is the `[x, y]` prefix (a stored θ/η/τ is simply dropped) -/
theorem c01m_to_Vector2D (K : Consts ℝ) (A : Arith ℝ) (v : Vec ℝ) (hv : WFV v) :
    ∃ w, call evR K A "to_Vector2D" v [] = .ok (.vec w) ∧ WFV w ∧ w.ty.dim = 2 ∧
      denote w = (denote v).map (List.take 2) := by
  rcases wfv_cases hv with ⟨be, mom, az, a, b, rfl⟩ | ⟨be, mom, az, l, a, b, c, rfl⟩ |
    ⟨be, mom, az, l, t, a, b, c, d, rfl⟩
  all_goals exact ⟨_, rfl, ⟨by simp, rfl⟩, rfl, rfl⟩

/-- **projection to 3D** of a 3D or 4D vector: the `[x, y, z]` prefix -/
theorem c01m_to_Vector3D_proj (K : Consts ℝ) (A : Arith ℝ) (v : Vec ℝ) (hv : WFV v) (hd : 3 ≤ v.ty.dim) :
    ∃ w, call evR K A "to_Vector3D" v [] = .ok (.vec w) ∧ WFV w ∧ w.ty.dim = 3 ∧
      denote w = (denote v).map (List.take 3) := by
  rcases wfv_cases hv with ⟨be, mom, az, a, b, rfl⟩ | ⟨be, mom, az, l, a, b, c, rfl⟩ |
    ⟨be, mom, az, l, t, a, b, c, d, rfl⟩
  · simp [VT.dim] at hd
  all_goals exact ⟨_, rfl, ⟨by simp, rfl⟩, rfl, rfl⟩

/-- the same under the other public names -/
theorem c01m_to_2D_3D_names {S B : Type} (ev : Ev S B) (K : Consts S) (A : Arith S) (v : Vec S) (args : List (Arg S)) :
    call ev K A "to_2D" v args = call ev K A "to_Vector2D" v args ∧
    call ev K A "to_3D" v args = call ev K A "to_Vector3D" v args ∧
    call ev K A "to_4D" v args = call ev K A "to_Vector4D" v args := ⟨rfl, rfl, rfl⟩

/-- **embedding 2D → 3D**, evaluated: the keyword value is STORED in the coordinate type the keyword names -/
theorem to_Vector3D_kw_eval (K : Consts ℝ) (A : Arith ℝ) (be mom az) (a b s : ℝ) :
    ∀ p ∈ [("z", Lon.z), ("pz", Lon.z), ("theta", Lon.theta), ("eta", Lon.eta)],
      call evR K A "to_Vector3D" ⟨⟨be, mom, az, none, none⟩, [a, b]⟩ [.kw p.1 s] =
        .ok (.vec ⟨⟨be, mom, az, some p.2, none⟩, [a, b, s]⟩) := by
  intro p hp
  simp only [List.mem_cons, List.not_mem_nil, or_false] at hp
  rcases hp with rfl | rfl | rfl | rfl <;> rfl

/-- **embedding 2D → 3D with `z=`/`pz=`** (or without keyword: `z = 0.0`): the denotation is extended by the value -/
theorem c01m_to_Vector3D_z (K : Consts ℝ) (A : Arith ℝ) (v : Vec ℝ) (hv : WFV v) (hd : v.ty.dim = 2) (s : ℝ) :
    (∃ w, call evR K A "to_Vector3D" v [.kw "z" s] = .ok (.vec w) ∧ WFV w ∧ denote w = (denote v).map (· ++ [s])) ∧
    (∃ w, call evR K A "to_Vector3D" v [.kw "pz" s] = .ok (.vec w) ∧ WFV w ∧ denote w = (denote v).map (· ++ [s])) ∧
    (∃ w, call evR K A "to_Vector3D" v [] = .ok (.vec w) ∧ WFV w ∧ denote w = (denote v).map (· ++ [K.zeroF])) := by
  rcases wfv_cases hv with ⟨be, mom, az, a, b, rfl⟩ | ⟨be, mom, az, l, a, b, c, rfl⟩ |
    ⟨be, mom, az, l, t, a, b, c, d, rfl⟩
  · exact ⟨⟨_, rfl, ⟨by simp, rfl⟩, rfl⟩, ⟨_, rfl, ⟨by simp, rfl⟩, rfl⟩, ⟨_, rfl, ⟨by simp, rfl⟩, rfl⟩⟩
  · simp [VT.dim] at hd
  · simp [VT.dim] at hd

/-- **embedding 2D → 3D with `theta=` / `eta=`**: `z = ρ cot θ` resp. `ρ sinh η` with ρ of the denotation -/
theorem c01m_to_Vector3D_theta_eta (K : Consts ℝ) (A : Arith ℝ) (v : Vec ℝ) (hv : WFV v) (hd : v.ty.dim = 2)
    (hc : Stored2 Canon2 v) (s x y : ℝ) (h : denote v = some [x, y]) :
    (∃ w, call evR K A "to_Vector3D" v [.kw "theta" s] = .ok (.vec w) ∧ WFV w ∧
      denote w = some [x, y, sqrt (x ^ 2 + y ^ 2) * (cos s / sin s)]) ∧
    (∃ w, call evR K A "to_Vector3D" v [.kw "eta" s] = .ok (.vec w) ∧ WFV w ∧
      denote w = some [x, y, sqrt (x ^ 2 + y ^ 2) * sinh s]) := by
  rcases wfv_cases hv with ⟨be, mom, az, a, b, rfl⟩ | ⟨be, mom, az, l, a, b, c, rfl⟩ |
    ⟨be, mom, az, l, t, a, b, c, d, rfl⟩
  · have hr := rhoOf_eq_sqrt hc
    simp only [denote, Option.some.injEq, List.cons.injEq, and_true] at h
    obtain ⟨rfl, rfl⟩ := h
    simp only [c3] at hr
    refine ⟨⟨_, to_Vector3D_kw_eval K A be mom az a b s ("theta", .theta) (by simp), ⟨by simp, rfl⟩, ?_⟩,
      ⟨_, to_Vector3D_kw_eval K A be mom az a b s ("eta", .eta) (by simp), ⟨by simp, rfl⟩, ?_⟩⟩
    · simp only [denote, zOf, hr]
    · simp only [denote, zOf, hr]
  · simp [VT.dim] at hd
  · simp [VT.dim] at hd

/-- **embedding 3D → 4D**, evaluated for every temporal keyword -/
theorem to_Vector4D_kw_eval (K : Consts ℝ) (A : Arith ℝ) (be mom az l) (a b c s : ℝ) :
    ∀ p ∈ [("t", Tmp.t), ("e", Tmp.t), ("E", Tmp.t), ("energy", Tmp.t), ("tau", Tmp.tau), ("m", Tmp.tau),
        ("M", Tmp.tau), ("mass", Tmp.tau)],
      call evR K A "to_Vector4D" ⟨⟨be, mom, az, some l, none⟩, [a, b, c]⟩ [.kw p.1 s] =
        .ok (.vec ⟨⟨be, mom, az, some l, some p.2⟩, [a, b, c, s]⟩) := by
  intro p hp
  simp only [List.mem_cons, List.not_mem_nil, or_false] at hp
  rcases hp with rfl | rfl | rfl | rfl | rfl | rfl | rfl | rfl <;> rfl

/-- **embedding 3D → 4D with `t=`/`energy=`** (or without keyword: `t = 0.0`): extension by the value;
with `tau=`/`mass=`: extension by `√(τ² + |p|²)` of the denotation -/
theorem c01m_to_Vector4D_t (K : Consts ℝ) (A : Arith ℝ) (v : Vec ℝ) (hv : WFV v) (hd : v.ty.dim = 3) (s : ℝ) :
    (∃ w, call evR K A "to_Vector4D" v [.kw "t" s] = .ok (.vec w) ∧ WFV w ∧ denote w = (denote v).map (· ++ [s])) ∧
    (∃ w, call evR K A "to_Vector4D" v [.kw "energy" s] = .ok (.vec w) ∧ WFV w ∧
      denote w = (denote v).map (· ++ [s])) ∧
    (∃ w, call evR K A "to_Vector4D" v [] = .ok (.vec w) ∧ WFV w ∧ denote w = (denote v).map (· ++ [K.zeroF])) ∧
    (∃ w, call evR K A "to_Vector4D" v [.kw "tau" s] = .ok (.vec w) ∧ WFV w ∧
      denote w = (denote v).map (fun p => p ++ [sqrt (s ^ 2 + (p.getD 0 0 ^ 2 + p.getD 1 0 ^ 2 + p.getD 2 0 ^ 2))])) ∧
    (∃ w, call evR K A "to_Vector4D" v [.kw "mass" s] = .ok (.vec w) ∧ WFV w ∧
      denote w = (denote v).map (fun p => p ++ [sqrt (s ^ 2 + (p.getD 0 0 ^ 2 + p.getD 1 0 ^ 2 + p.getD 2 0 ^ 2))])) := by
  rcases wfv_cases hv with ⟨be, mom, az, a, b, rfl⟩ | ⟨be, mom, az, l, a, b, c, rfl⟩ |
    ⟨be, mom, az, l, t, a, b, c, d, rfl⟩
  · simp [VT.dim] at hd
  · exact ⟨⟨_, rfl, ⟨by simp, rfl⟩, rfl⟩, ⟨_, rfl, ⟨by simp, rfl⟩, rfl⟩, ⟨_, rfl, ⟨by simp, rfl⟩, rfl⟩,
      ⟨_, rfl, ⟨by simp, rfl⟩, rfl⟩, ⟨_, rfl, ⟨by simp, rfl⟩, rfl⟩⟩
  · simp [VT.dim] at hd

/-- **embedding 2D → 4D with `z=` and `t=`**: extension by both values -/
theorem c01m_to_Vector4D_zt (K : Consts ℝ) (A : Arith ℝ) (v : Vec ℝ) (hv : WFV v) (hd : v.ty.dim = 2) (s u : ℝ) :
    (∃ w, call evR K A "to_Vector4D" v [.kw "z" s, .kw "t" u] = .ok (.vec w) ∧ WFV w ∧
      denote w = (denote v).map (· ++ [s, u])) ∧
    (∃ w, call evR K A "to_Vector4D" v [] = .ok (.vec w) ∧ WFV w ∧
      denote w = (denote v).map (· ++ [K.zeroF, K.zeroF])) := by
  rcases wfv_cases hv with ⟨be, mom, az, a, b, rfl⟩ | ⟨be, mom, az, l, a, b, c, rfl⟩ |
    ⟨be, mom, az, l, t, a, b, c, d, rfl⟩
  · exact ⟨⟨_, rfl, ⟨by simp, rfl⟩, rfl⟩, ⟨_, rfl, ⟨by simp, rfl⟩, rfl⟩⟩
  · simp [VT.dim] at hd
  · simp [VT.dim] at hd

/-! ### 5. the documented EXCEPTIONS `scale2D` / `scale3D`

They scale the azimuthal (resp. spatial) STORED coordinates and pass the stored longitudinal (resp. temporal) coordinate
through, but — unlike the rotations — do not preserve ρ (resp. |p|): two vectors with the same denotation give results
with different denotations. -/

private theorem cot_pi_div_four : cos (π / 4) / sin (π / 4) = 1 := by
  rw [cos_pi_div_four, sin_pi_div_four]
  exact div_self (by positivity)

/-- `scale2D` is NOT coordinate independent: the θ-stored and the z-stored 3D vector both denote `(1, 0, 1)`; after
`scale2D(2)` the first denotes `(2, 0, 2)` (θ kept), the second `(2, 0, 1)` (z kept) -/
theorem c01m_scale2D_exception (K : Consts ℝ) (A : Arith ℝ) :
    ∃ v₁ v₂ w₁ w₂ : Vec ℝ, WFV v₁ ∧ WFV v₂ ∧ denote v₁ = some [1, 0, 1] ∧ denote v₂ = some [1, 0, 1] ∧
      call evR K A "scale2D" v₁ [.sc 2] = .ok (.vec w₁) ∧ call evR K A "scale2D" v₂ [.sc 2] = .ok (.vec w₂) ∧
      denote w₁ = some [2, 0, 2] ∧ denote w₂ = some [2, 0, 1] ∧ denote w₁ ≠ denote w₂ := by
  have h1 : sqrt ((1 : ℝ) ^ 2 + 0 ^ 2) = 1 := by norm_num
  have h2 : sqrt (((1 : ℝ) * 2) ^ 2 + (0 * 2) ^ 2) = 2 := by
    rw [show ((1 : ℝ) * 2) ^ 2 + (0 * 2) ^ 2 = 2 ^ 2 by norm_num, Real.sqrt_sq (by norm_num)]
  have d1 : denote ⟨⟨.obj, false, .xy, some .theta, none⟩, [(1 : ℝ) * 2, 0 * 2, π / 4]⟩ = some [2, 0, 2] := by
    simp only [denote, xOf, yOf, zOf, rhoOf, h2, cot_pi_div_four]; norm_num
  have d2 : denote ⟨⟨.obj, false, .xy, some .z, none⟩, [(1 : ℝ) * 2, 0 * 2, 1]⟩ = some [2, 0, 1] := by
    simp only [denote, xOf, yOf, zOf]; norm_num
  refine ⟨⟨⟨.obj, false, .xy, some .theta, none⟩, [1, 0, π / 4]⟩, ⟨⟨.obj, false, .xy, some .z, none⟩, [1, 0, 1]⟩,
    ⟨⟨.obj, false, .xy, some .theta, none⟩, [1 * 2, 0 * 2, π / 4]⟩, ⟨⟨.obj, false, .xy, some .z, none⟩, [1 * 2, 0 * 2, 1]⟩,
    ⟨by simp, rfl⟩, ⟨by simp, rfl⟩, ?_, rfl, rfl, rfl, d1, d2, ?_⟩
  · simp only [denote, xOf, yOf, zOf, rhoOf, h1, cot_pi_div_four, mul_one]
  · rw [d1, d2]; norm_num

/-- `scale3D` is NOT coordinate independent: the τ-stored and the t-stored 4D vector both denote `(1, 0, 0, 1)`; after
`scale3D(2)` the first denotes `(2, 0, 0, 2)` (τ kept), the second `(2, 0, 0, 1)` (t kept) -/
theorem c01m_scale3D_exception (K : Consts ℝ) (A : Arith ℝ) :
    ∃ v₁ v₂ w₁ w₂ : Vec ℝ, WFV v₁ ∧ WFV v₂ ∧ denote v₁ = some [1, 0, 0, 1] ∧ denote v₂ = some [1, 0, 0, 1] ∧
      call evR K A "scale3D" v₁ [.sc 2] = .ok (.vec w₁) ∧ call evR K A "scale3D" v₂ [.sc 2] = .ok (.vec w₂) ∧
      denote w₁ = some [2, 0, 0, 2] ∧ denote w₂ = some [2, 0, 0, 1] ∧ denote w₁ ≠ denote w₂ := by
  have h1 : sqrt ((0 : ℝ) ^ 2 + ((1 : ℝ) ^ 2 + 0 ^ 2 + 0 ^ 2)) = 1 := by norm_num
  have h2 : sqrt ((0 : ℝ) ^ 2 + (((1 : ℝ) * 2) ^ 2 + (0 * 2) ^ 2 + (0 * 2) ^ 2)) = 2 := by
    rw [show (0 : ℝ) ^ 2 + (((1 : ℝ) * 2) ^ 2 + (0 * 2) ^ 2 + (0 * 2) ^ 2) = 2 ^ 2 by norm_num,
      Real.sqrt_sq (by norm_num)]
  have d1 : denote ⟨⟨.obj, false, .xy, some .z, some .tau⟩, [(1 : ℝ) * 2, 0 * 2, 0 * 2, 0]⟩ = some [2, 0, 0, 2] := by
    simp only [denote, xOf, yOf, zOf, tOf, mag2Of, h2]; norm_num
  have d2 : denote ⟨⟨.obj, false, .xy, some .z, some .t⟩, [(1 : ℝ) * 2, 0 * 2, 0 * 2, 1]⟩ = some [2, 0, 0, 1] := by
    simp only [denote, xOf, yOf, zOf, tOf]; norm_num
  refine ⟨⟨⟨.obj, false, .xy, some .z, some .tau⟩, [1, 0, 0, 0]⟩, ⟨⟨.obj, false, .xy, some .z, some .t⟩, [1, 0, 0, 1]⟩,
    ⟨⟨.obj, false, .xy, some .z, some .tau⟩, [1 * 2, 0 * 2, 0 * 2, 0]⟩,
    ⟨⟨.obj, false, .xy, some .z, some .t⟩, [1 * 2, 0 * 2, 0 * 2, 1]⟩,
    ⟨by simp, rfl⟩, ⟨by simp, rfl⟩, ?_, rfl, rfl, rfl, d1, d2, ?_⟩
  · simp only [denote, xOf, yOf, zOf, tOf, mag2Of, h1]
  · rw [d1, d2]; norm_num

/-! ### C01 in its literal form: same denotation in, same denotation out -/

/-- two vectors (any dimension ≥ 2, any storages, any backends/flavors) with the same denotation have `rotateZ` results with
the same denotation -/
theorem c01m_rotateZ_indep (K : Consts ℝ) (A : Arith ℝ) (v₁ v₂ : Vec ℝ) (h₁ : WFV v₁) (h₂ : WFV v₂)
    (h : denote v₁ = denote v₂) (ang : ℝ) :
    ∃ w₁ w₂, call evR K A "rotateZ" v₁ [.sc ang] = .ok (.vec w₁) ∧ call evR K A "rotateZ" v₂ [.sc ang] = .ok (.vec w₂) ∧
      denote w₁ = denote w₂ := by
  obtain ⟨w₁, e₁, -, -, d₁⟩ := c01m_rotateZ K A v₁ h₁ ang
  obtain ⟨w₂, e₂, -, -, d₂⟩ := c01m_rotateZ K A v₂ h₂ ang
  exact ⟨w₁, w₂, e₁, e₂, by rw [d₁, d₂, h]⟩

/-- the same for `rotateX` on 3D/4D vectors (e.g. one stored as (ρ, φ, η, τ), the other as (x, y, z, t)) -/
theorem c01m_rotateX_indep (K : Consts ℝ) (A : Arith ℝ) (v₁ v₂ : Vec ℝ) (h₁ : WFV v₁) (h₂ : WFV v₂)
    (hd₁ : 3 ≤ v₁.ty.dim) (hd₂ : 3 ≤ v₂.ty.dim) (hT₁ : TanOKV v₁) (hT₂ : TanOKV v₂)
    (h : denote v₁ = denote v₂) (ang : ℝ) :
    ∃ w₁ w₂, call evR K A "rotateX" v₁ [.sc ang] = .ok (.vec w₁) ∧ call evR K A "rotateX" v₂ [.sc ang] = .ok (.vec w₂) ∧
      denote w₁ = denote w₂ := by
  obtain ⟨w₁, e₁, -, -, d₁⟩ := c01m_rotateX K A v₁ h₁ hd₁ hT₁ ang
  obtain ⟨w₂, e₂, -, -, d₂⟩ := c01m_rotateX K A v₂ h₂ hd₂ hT₂ ang
  exact ⟨w₁, w₂, e₁, e₂, by rw [d₁, d₂, h]⟩

/-! ### non-vacuity of the hypotheses -/

/-- a 4D vector stored as (ρ, φ, θ, τ) satisfying every hypothesis used above -/
example : let v : Vec ℝ := ⟨⟨.obj, true, .rhophi, some .theta, some .tau⟩, [2, 1, 1, 3]⟩
    WFV v ∧ 3 ≤ v.ty.dim ∧ TanOKV v ∧ Stored2 Canon2 v ∧ Stored2 (fun k a b => 0 < rhoOf k a b ∧ CanonPhi k a b) v ∧
      Stored3 (fun k l a b c => Canon3 k l a b c ∧ 0 < mag2Of k l a b c) v ∧
      Stored3 (fun k l a b c => 0 < rhoOf k a b ∧ TanOK l c ∧ SinOK l c ∧ CanonLon k l a b c) v := by
  intro v
  have hr : 0 < rhoOf .rhophi 2 1 := by norm_num [rhoOf]
  have hpi : (1 : ℝ) < π := by linarith [two_le_pi]
  have hcl : CanonLon .rhophi .theta 2 1 1 := ⟨hr, one_pos, hpi⟩
  have hm : 0 < mag2Of .rhophi .theta 2 1 1 := by rw [Spec.mag2Of_eq]; positivity
  exact ⟨⟨by simp [v], rfl⟩, by simp [v, VT.dim], ne_of_gt cos_one_pos, hr.le,
    ⟨hr, show -π < (1 : ℝ) by linarith [pi_pos], hpi.le⟩, ⟨⟨hr.le, hcl⟩, hm⟩, hr, ne_of_gt cos_one_pos,
    (sin_pos_of_pos_of_lt_pi one_pos hpi).ne', hcl⟩

example : (1 : ℝ) ^ 2 + 0 ^ 2 + 0 ^ 2 + 0 ^ 2 = 1 ∧ (0 : ℝ) < 1 ^ 2 + 2 ^ 2 + 3 ^ 2 := by norm_num

end C01M
end VR
